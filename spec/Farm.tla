-------------------------------- MODULE Farm --------------------------------
(***************************************************************************)
(* irismod/modules/farm — staking pools with per-block rewards.            *)
(*                                                                         *)
(* The module is transcribed action by action from                         *)
(*   keeper/pool.go (CreatePool, DestroyPool, AdjustPool, updatePool),     *)
(*   keeper/farmer.go (Stake, Unstake, Harvest, Refund),                   *)
(*   keeper/queue.go (Expired, active-pool queue), abci.go (EndBlocker),   *)
(*   keeper/fees.go (DeductPoolCreationFee), types/farm.go (CaclRewards,   *)
(*   ExpiredHeight), msg_server.go (CreatePoolWithCommunityPool),          *)
(*   keeper/proposal.go + proposal_hook.go (escrow, HandleCreateFarm-      *)
(*   Proposal, refund hooks) together with the part of the SDK's x/gov     *)
(*   (v0.50.10: SubmitProposal, AddDeposit, AddVote, CancelProposal,       *)
(*   EndBlocker) that drives them.                                         *)
(*                                                                         *)
(* Style: every handler is an operator  st, args -> [ok, panic, st, resp]  *)
(* (the code is sequential and each message is atomic), wrapped by one     *)
(* named action per message type.  The same operators are used by          *)
(*   - Farm.tla's own Next (exhaustive model checking, behaviour           *)
(*     generation), and                                                    *)
(*   - FarmTrace.tla (validation of traces recorded from the real code).   *)
(*                                                                         *)
(* Numbers.  The accumulator RewardPerShare is an 18-decimal fixed point   *)
(* number in the code.  The model keeps it as an integer in units of       *)
(* 1/prec; the harness stakes multiples of 10^18/prec base units, under    *)
(* which the code computes exactly floor(c*prec/t) and floor(rps*k/prec)   *)
(* (DESIGN.md 4.2).  All LP quantities are in those units.                 *)
(***************************************************************************)
EXTENDS Integers, Sequences, FiniteSets, TLC, Util, Json, IOUtils

CONSTANTS
  Users,        \* user accounts (farmers and creators), strings
  RDenoms,      \* reward denominations, strings
  LP,           \* the staking (liquidity) token denom
  FeeDenom,     \* denom of the pool-creation fee (and of governance deposits)
  RecordHist,   \* BOOLEAN: keep the event history (generator configs)
  Proposers     \* accounts that submit / fund / cancel governance proposals

VARIABLES st, ev, gh, hist
vars == <<st, ev, gh, hist>>

FARM == "farm"            \* module account: staked LP + undistributed budgets
COLL == "collector"       \* reward collector: released, not yet paid rewards
FEEP == "feepool"         \* fee collector + distribution account
Accts == Users \cup {FARM, COLL, FEEP}
Denoms == RDenoms \cup {LP, FeeDenom}

(* The governance side of the balance sheet is kept in a sheet of its own
   (st.gbal): the farm escrow account of pending proposals, the gov module
   account holding the deposits, and the proposers.  st.bal stays the farm
   universe the clauses C05/C06 speak about. *)
ESC  == "escrow"          \* module account escrow_collector
GOVA == "gov"             \* gov module account (proposal deposits)
VAL  == "val"             \* the delegator of the only validator: all voting power
GAccts == Proposers \cup {ESC, GOVA}

(* the universe as seen in a state (traces carry their own) *)
UsersOf(t) == DOMAIN t.bal \ {FARM, COLL, FEEP}
RDenomsOf(t) == DOMAIN t.bal[FARM] \ {LP, FeeDenom}

PoolId(n) == "farm-" \o ToString(n)

NoEv == [name |-> "Init", who |-> "", pool |-> "", amt |-> 0, lpt |-> "",
         total |-> EmptyF, rpb |-> EmptyF, start |-> 0, editable |-> FALSE,
         ok |-> TRUE, panic |-> FALSE, halt |-> FALSE, reward |-> EmptyF,
         bond |-> EmptyF]

-----------------------------------------------------------------------------
(* Results *)
(* why: the reason for a rejection (diagnostics and known-finding keys) *)
FailW(s, w) == [ok |-> FALSE, panic |-> FALSE, st |-> s, reward |-> EmptyF, why |-> w]
Fail(s) == FailW(s, "rejected")
Panic(s) == [ok |-> FALSE, panic |-> TRUE, st |-> s, reward |-> EmptyF, why |-> "panic"]
Done(s, rw) == [ok |-> TRUE, panic |-> FALSE, st |-> s, reward |-> rw, why |-> ""]

(* queue.go: Expired *)
Expired(s, p) ==
  LET pool == s.pools[p] IN
  \/ s.h > pool.end
  \/ s.h = pool.end /\ <<pool.end, p>> \notin s.queue

(* types/farm.go: ExpiredHeight = start + min_d floor(totalR_d / rpb_d) *)
ExpiredHeightOf(start, rules) ==
  start + SetMin({rules[d].totalR \div rules[d].rpb : d \in DOMAIN rules})

(***************************************************************************)
(* pool.go: updatePool.  Returns [ok, st].  On success the pool's rules    *)
(* have accrued (height - lastH) * rpb per denom into rps when someone is  *)
(* staked, the collected coins have moved FARM -> COLL, total += amount,   *)
(* lastH = h; with isDestroy the pool is closed at h.                      *)
(* A failure after the first SetRewardRule (remaining < collected for a     *)
(* later denom) leaves partial writes behind; inside a message they are    *)
(* rolled back, inside EndBlock (abci.go swallows Refund's error) they are *)
(* not.  The failure is unreachable in the unchanged code: remaining >=     *)
(* rpb * (end - max(lastH, start)) is an invariant (creation: end = start + *)
(* floor(total/rpb); AdjustPool: X06_AdjustGuard; releases preserve it),   *)
(* so the partial writes are not modelled - a tree that reaches them is    *)
(* judged by the clauses on the observed states, and drifts.               *)
(***************************************************************************)
Accrues(s, p) == s.h > s.pools[p].lastH /\ s.pools[p].total > 0

Collected(s, p) ==
  LET pool == s.pools[p] IN
  [d \in DOMAIN pool.rules |->
     IF Accrues(s, p) THEN pool.rules[d].rpb * (s.h - pool.lastH) ELSE 0]

UpdatePool(s, p, amount, isDestroy) ==
  LET pool == s.pools[p]
      coll == Collected(s, p)
  IN
  IF s.h < pool.lastH THEN [ok |-> FALSE, st |-> s]
  ELSE IF \E d \in DOMAIN pool.rules : pool.rules[d].remaining < coll[d]
       THEN [ok |-> FALSE, st |-> s]
  ELSE IF ~CanPay(s.bal, FARM, Pos(coll)) THEN [ok |-> FALSE, st |-> s]
  ELSE
    LET rules2 == [d \in DOMAIN pool.rules |->
                     IF Accrues(s, p)
                     THEN [pool.rules[d] EXCEPT
                             !.rps = @ + (coll[d] * s.prec) \div pool.total,
                             !.remaining = @ - coll[d]]
                     ELSE pool.rules[d]]
        end2 == IF isDestroy THEN s.h ELSE pool.end
        start2 == IF isDestroy /\ pool.start > s.h THEN s.h ELSE pool.start
        pool2 == [pool EXCEPT !.rules = rules2, !.total = @ + amount,
                              !.lastH = s.h, !.end = end2, !.start = start2]
    IN [ok |-> TRUE,
        st |-> [s EXCEPT !.pools[p] = pool2,
                         !.bal = Move(s.bal, FARM, COLL, Pos(coll))]]

(* types/farm.go: CaclRewards.  info = [locked, debt]; returns
   [neg, rewards (positive coins only), debt] *)
CalcRewards(s, p, info, delta) ==
  LET rules == s.pools[p].rules
      pend == [d \in DOMAIN rules |->
                 IF info.locked > 0
                 THEN (rules[d].rps * info.locked) \div s.prec - Amt(info.debt, d)
                 ELSE 0]
  IN [neg |-> \E d \in DOMAIN rules : pend[d] < 0,
      rewards |-> Pos(pend),
      debt |-> [d \in DOMAIN rules |->
                  (rules[d].rps * (info.locked + delta)) \div s.prec]]

NoInfo == [locked |-> 0, debt |-> EmptyF]
InfoOf(s, p, f) == Get(s.fi[p], f, NoInfo)

-----------------------------------------------------------------------------
(* fees.go: DeductPoolCreationFee *)
DeductFee(s, who) ==
  LET fee == s.params.fee
      tax == (fee * s.params.taxNum) \div s.params.taxDen
      burned == fee - tax
  IN
  IF burned < 0 THEN [ok |-> FALSE, panic |-> TRUE, st |-> s]   \* negative coin
  ELSE IF s.bal[who][FeeDenom] < fee THEN [ok |-> FALSE, panic |-> FALSE, st |-> s]
  ELSE [ok |-> TRUE, panic |-> FALSE,
        st |-> [s EXCEPT
          !.bal = Move(Debit(s.bal, who, (FeeDenom :> burned)), who, FEEP, (FeeDenom :> tax)),
          !.supply = SubSupply(s.supply, (FeeDenom :> burned))]]

(* msg_server.go CreatePool + pool.go CreatePool/createPool *)
ValidRules(rpb, total) ==
  /\ DOMAIN rpb = DOMAIN total /\ DOMAIN total # {}
  /\ \A d \in DOMAIN total : rpb[d] > 0 /\ total[d] >= rpb[d]

DoCreatePool(s, who, lpt, start, rpb, total, editable) ==
  IF ~ValidRules(rpb, total) THEN Fail(s)                     \* ValidateBasic
  ELSE IF s.h > start THEN Fail(s)
  ELSE IF Cardinality(DOMAIN total) > s.params.maxCat THEN Fail(s)
  ELSE IF lpt # LP THEN Fail(s)                                \* ValidatePool
  ELSE
    LET f == DeductFee(s, who) IN
    IF ~f.ok THEN (IF f.panic THEN Panic(s) ELSE Fail(s))
    ELSE IF ~CanPay(f.st.bal, who, total) THEN Fail(s)
    ELSE
      LET s1 == [f.st EXCEPT !.bal = Move(f.st.bal, who, FARM, total)]
          id == PoolId(s.seq + 1)
          rules == [d \in DOMAIN total |->
                      [totalR |-> total[d], remaining |-> total[d],
                       rpb |-> rpb[d], rps |-> 0]]
          end == ExpiredHeightOf(start, rules)
          pool == [creator |-> who, start |-> start, end |-> end, lastH |-> 0,
                   total |-> 0, editable |-> editable, rules |-> rules]
      IN Done([s1 EXCEPT !.seq = s.seq + 1,
                         !.pools = Put(s1.pools, id, pool),
                         !.fi = Put(s1.fi, id, EmptyF),
                         !.queue = s1.queue \cup {<<end, id>>}],
              EmptyF)

(* farmer.go: Refund.  Returns [ok, st]; partial effects as in the code:
   st is the state reached when the error is returned. *)
DoRefund(s, p) ==
  LET s0 == [s EXCEPT !.queue = s.queue \ {<<s.pools[p].end, p>>}]
      u == UpdatePool(s0, p, 0, TRUE)
  IN
  IF ~u.ok THEN [ok |-> FALSE, st |-> s0]
  ELSE
    LET pool == u.st.pools[p]
        refund == Pos([d \in DOMAIN pool.rules |-> pool.rules[d].remaining])
        zeroed == [d \in DOMAIN pool.rules |->
                     [pool.rules[d] EXCEPT !.remaining = 0]]
        s1 == [u.st EXCEPT !.pools[p].rules = zeroed]
    IN
    IF DOMAIN refund = {} THEN [ok |-> FALSE, st |-> s1]       \* ErrInvalidRefund
    ELSE IF ~CanPay(s1.bal, FARM, refund) THEN [ok |-> FALSE, st |-> s1]
    \* a pool created by a passed proposal belongs to the distribution module
    \* account: refundToFeePool credits the community pool as well
    ELSE [ok |-> TRUE, refund |-> refund,
          st |-> [s1 EXCEPT !.bal = Move(s1.bal, FARM, pool.creator, refund),
                            !.cp = IF pool.creator = FEEP
                                   THEN [d \in DOMAIN s1.cp |-> s1.cp[d] + Amt(refund, d)]
                                   ELSE s1.cp]]

DoDestroyPool(s, who, p) ==
  IF p \notin DOMAIN s.pools THEN Fail(s)
  ELSE IF who # s.pools[p].creator THEN Fail(s)
  ELSE IF ~s.pools[p].editable THEN Fail(s)
  ELSE IF Expired(s, p) THEN Fail(s)
  ELSE LET r == DoRefund(s, p) IN
       IF r.ok THEN Done(r.st, EmptyF) ELSE Fail(s)

(* pool.go: AdjustPool.  reward / rpb are coin functions; an absent argument
   (nil in the message) is the empty function. *)
DoAdjustPool(s, who, p, reward, rpb) ==
  IF reward = EmptyF /\ rpb = EmptyF THEN Fail(s)                \* ValidateBasic
  ELSE IF \E d \in DOMAIN reward : reward[d] <= 0 THEN Fail(s)
  ELSE IF \E d \in DOMAIN rpb : rpb[d] <= 0 THEN Fail(s)
  ELSE IF p \notin DOMAIN s.pools THEN Fail(s)
  ELSE IF ~s.pools[p].editable THEN Fail(s)
  ELSE IF who # s.pools[p].creator THEN Fail(s)
  ELSE IF Expired(s, p) THEN Fail(s)
  ELSE
    LET pool0 == s.pools[p]
        rd == DOMAIN pool0.rules IN
    IF ~(DOMAIN rpb \subseteq rd) THEN Fail(s)
    \* rules.Contains(reward): denoms must have a positive remaining budget
    ELSE IF ~(DOMAIN reward \subseteq {d \in rd : pool0.rules[d].remaining > 0})
         THEN Fail(s)
    ELSE
      LET started == pool0.start <= s.h
          startH == IF started THEN s.h ELSE pool0.start
          u == UpdatePool(s, p, 0, FALSE)
      IN
      IF ~u.ok THEN Fail(s)
      ELSE IF ~CanPay(u.st.bal, who, reward) THEN Fail(s)
      ELSE
        LET s1 == [u.st EXCEPT !.bal = Move(u.st.bal, who, FARM, reward)]
            pool1 == s1.pools[p]
            rules1 == [d \in rd |->
                         [pool1.rules[d] EXCEPT !.totalR = @ + Amt(reward, d),
                                                !.remaining = @ + Amt(reward, d)]]
            remH == pool1.end - startH
            avail == [d \in rd |->
                       IF started THEN rules1[d].rpb * remH + Amt(reward, d)
                       ELSE rules1[d].totalR]
            rules2 == [d \in rd |->
                         IF d \in DOMAIN rpb
                         THEN [rules1[d] EXCEPT !.rpb = rpb[d]] ELSE rules1[d]]
        IN
        IF \E d \in rd : rules1[d].rpb * remH < 0 THEN Panic(s)   \* negative coin
        ELSE
          \* minimum over every rule (fix 3081448; before it, denominations with
          \* nothing available were skipped and an empty set panicked)
          LET availH == SetMin({avail[d] \div rules2[d].rpb : d \in rd})
              newEnd == startH + availH
              s2 == [s1 EXCEPT !.pools[p].rules = rules2]
          IN
          IF newEnd = pool1.end THEN Done(s2, EmptyF)
          ELSE Done([s2 EXCEPT !.pools[p].end = newEnd,
                               !.queue = (s2.queue \ {<<pool1.end, p>>})
                                           \cup {<<newEnd, p>>}],
                    EmptyF)

(* farmer.go: Stake *)
DoStake(s, who, p, amt) ==
  IF amt <= 0 THEN Fail(s)
  ELSE IF p \notin DOMAIN s.pools THEN Fail(s)
  ELSE IF s.pools[p].start > s.h THEN Fail(s)
  ELSE IF Expired(s, p) THEN Fail(s)
  ELSE IF s.bal[who][LP] < amt THEN Fail(s)
  ELSE
    LET s1 == [s EXCEPT !.bal = Move(s.bal, who, FARM, (LP :> amt))]
        u == UpdatePool(s1, p, amt, FALSE)
    IN
    IF ~u.ok THEN Fail(s)
    ELSE
      LET info == InfoOf(u.st, p, who)
          c == CalcRewards(u.st, p, info, amt)
      IN
      IF c.neg THEN Panic(s)
      ELSE IF ~CanPay(u.st.bal, COLL, c.rewards) THEN FailW(s, "collector_short")
      ELSE Done([u.st EXCEPT
                   !.bal = Move(u.st.bal, COLL, who, c.rewards),
                   !.fi[p] = Put(u.st.fi[p], who,
                                 [locked |-> info.locked + amt, debt |-> c.debt])],
                c.rewards)

(* farmer.go: Unstake *)
DoUnstake(s, who, p, amt) ==
  IF amt <= 0 THEN Fail(s)
  ELSE IF p \notin DOMAIN s.pools THEN Fail(s)
  ELSE IF who \notin DOMAIN s.fi[p] THEN Fail(s)
  ELSE IF s.fi[p][who].locked < amt THEN Fail(s)
  ELSE IF s.pools[p].total < amt THEN Fail(s)
  ELSE
    LET u == IF Expired(s, p)
             THEN [ok |-> TRUE, st |-> [s EXCEPT !.pools[p].total = @ - amt]]
             ELSE UpdatePool(s, p, 0 - amt, FALSE)
    IN
    IF ~u.ok THEN FailW(s, "update_failed")
    ELSE IF ~CanPay(u.st.bal, FARM, (LP :> amt)) THEN Fail(s)
    ELSE
      LET s1 == [u.st EXCEPT !.bal = Move(u.st.bal, FARM, who, (LP :> amt))]
          info == s1.fi[p][who]
          c == CalcRewards(s1, p, info, 0 - amt)
      IN
      IF c.neg THEN Panic(s)
      ELSE IF ~CanPay(s1.bal, COLL, c.rewards) THEN FailW(s, "collector_short")
      ELSE
        LET bal2 == Move(s1.bal, COLL, who, c.rewards)
            fi2 == IF info.locked = amt
                   THEN Del(s1.fi[p], who)
                   ELSE Put(s1.fi[p], who,
                            [locked |-> info.locked - amt, debt |-> c.debt])
        IN Done([s1 EXCEPT !.bal = bal2, !.fi[p] = fi2], c.rewards)

(* farmer.go: Harvest *)
DoHarvest(s, who, p) ==
  IF p \notin DOMAIN s.pools THEN Fail(s)
  ELSE IF Expired(s, p) THEN Fail(s)
  ELSE IF who \notin DOMAIN s.fi[p] THEN Fail(s)
  ELSE
    LET u == UpdatePool(s, p, 0, FALSE) IN
    IF ~u.ok THEN Fail(s)
    ELSE
      LET info == u.st.fi[p][who]
          c == CalcRewards(u.st, p, info, 0)
      IN
      IF c.neg THEN Panic(s)
      ELSE IF ~CanPay(u.st.bal, COLL, c.rewards) THEN FailW(s, "collector_short")
      ELSE Done([u.st EXCEPT
                   !.bal = Move(u.st.bal, COLL, who, c.rewards),
                   !.fi[p][who].debt = c.debt],
                c.rewards)

-----------------------------------------------------------------------------
(***************************************************************************)
(* Pools funded from the community pool.                                   *)
(*                                                                         *)
(* MsgCreatePoolWithCommunityPool escrows the proposer's own contribution  *)
(* (FundSelfBond) and the requested part of the community pool             *)
(* (FundApplied) in the escrow_collector account, submits a governance     *)
(* proposal carrying a CommunityPoolCreateFarmProposal and adds the        *)
(* initial deposit.  The gov end-blocker decides the proposal; the farm    *)
(* module's gov hooks return the escrow unless the proposal passed, in     *)
(* which case the proposal handler has created the pool from the escrow.   *)
(*                                                                         *)
(* The path needs three things of the host application: the module         *)
(* account escrow_collector, the legacy proposal route of the farm module  *)
(* and its gov hooks.  The repository's own application (e2e/app_config.go *)
(* + simapp) provides none of them; st.wired says whether the application  *)
(* under test does (the harness can complete the wiring the way a host     *)
(* application would).  Without the module account the bank keeper panics  *)
(* on the first transfer into the escrow.                                  *)
(*                                                                         *)
(* Governance is modelled as far as it moves the farm: one voter (VAL, the *)
(* delegator of the only validator) holds all voting power; periods are    *)
(* counted in blocks (the harness runs equal block intervals and sets the  *)
(* periods to multiples of it); deposits are in FeeDenom.                  *)
(*   st.gov   = [minDep, thr, dp, vp, cnum, cden, burnPre, burnQ, burnV]   *)
(*   st.props = id -> [status, proposer, dep, due, vote, lpt, rpb,         *)
(*                     applied, bond]   status: deposit | voting | passed  *)
(*                     | rejected | failed; dropped and cancelled          *)
(*                     proposals are deleted, as in x/gov                  *)
(*   st.esc   = id -> [proposer, applied, bond]     (farm EscrowInfo)      *)
(*   st.cp    = community pool (FeePool.CommunityPool) per reward denom;   *)
(*              its coins are part of bal[FEEP]                            *)
(***************************************************************************)
AllBal(s) == s.bal @@ s.gbal
SplitBal(s, b) == [s EXCEPT !.bal = [a \in DOMAIN s.bal |-> b[a]],
                            !.gbal = [a \in DOMAIN s.gbal |-> b[a]]]
CoinsAdd(a, b) == [d \in DOMAIN a \cup DOMAIN b |-> Amt(a, d) + Amt(b, d)]
CpAdd(cp, c) == [d \in DOMAIN cp |-> cp[d] + Amt(c, d)]
CpSub(cp, c) == [d \in DOMAIN cp |-> cp[d] - Amt(c, d)]

Pid(n) == ToString(n)
PidNum(i) == CHOOSE n \in 1..99 : ToString(n) = i
MinPid(I) == CHOOSE i \in I : \A j \in I : PidNum(i) <= PidNum(j)
Live(pr) == pr.status \in {"deposit", "voting"}
VoteOptions == {"yes", "no", "veto", "abstain"}

(* msg_server.go: CreatePoolWithCommunityPool *)
DoCreatePoolCP(s, who, lpt, rpb, applied, bond, dep) ==
  LET total == CoinsAdd(applied, bond) IN
  \* ValidateBasic: initial deposit, Content.ValidateBasic -> ValidateFund
  IF dep < 0 THEN Fail(s)
  ELSE IF applied = EmptyF THEN Fail(s)
  ELSE IF \E d \in DOMAIN applied : applied[d] <= 0 THEN Fail(s)
  ELSE IF \E d \in DOMAIN bond : bond[d] <= 0 THEN Fail(s)
  ELSE IF DOMAIN applied \cap DOMAIN bond # {} THEN Fail(s)
  ELSE IF ~ValidRules(rpb, total) THEN Fail(s)
  \* message server
  ELSE IF Cardinality(DOMAIN total) > s.params.maxCat THEN Fail(s)
  ELSE IF lpt # LP THEN Fail(s)
  \* SendCoinsFromAccountToModule(proposer, escrow_collector, bond): the bank
  \* keeper panics when the module account is not configured
  ELSE IF ~s.wired THEN Panic(s)
  ELSE IF ~CanPay(AllBal(s), who, bond) THEN Fail(s)
  \* escrowFromFeePool
  ELSE IF \E d \in DOMAIN applied : Amt(s.cp, d) < applied[d] THEN Fail(s)
  ELSE IF ~CanPay(s.bal, FEEP, applied) THEN Fail(s)
  \* gov SubmitProposal runs the content once on a discarded branch (the
  \* escrow just made covers it); AddDeposit: with a deposit ratio set, an
  \* empty or too small initial deposit is refused
  ELSE IF dep = 0 \/ dep < s.gov.thr THEN FailW(s, "deposit_small")
  ELSE IF AllBal(s)[who][FeeDenom] < dep THEN Fail(s)
  ELSE
    LET b1 == Move(AllBal(s), who, ESC, bond)
        b2 == Move(b1, FEEP, ESC, applied)
        b3 == Move(b2, who, GOVA, (FeeDenom :> dep))
        id == Pid(s.pseq + 1)
        voting == dep >= s.gov.minDep
        prop == [status |-> IF voting THEN "voting" ELSE "deposit",
                 proposer |-> who, dep |-> (who :> dep),
                 due |-> s.h + (IF voting THEN s.gov.vp ELSE s.gov.dp),
                 vote |-> "none", lpt |-> lpt, rpb |-> rpb,
                 applied |-> applied, bond |-> bond]
        s1 == SplitBal(s, b3)
    IN Done([s1 EXCEPT !.cp = CpSub(s.cp, applied),
                       !.pseq = s.pseq + 1,
                       !.props = Put(s.props, id, prop),
                       !.esc = Put(s.esc, id, [proposer |-> who, applied |-> applied,
                                               bond |-> bond])],
            EmptyF)

(* x/gov MsgDeposit -> AddDeposit *)
DoDeposit(s, who, i, amt) ==
  IF amt <= 0 THEN Fail(s)
  ELSE IF i \notin DOMAIN s.props THEN Fail(s)
  ELSE IF ~Live(s.props[i]) THEN Fail(s)
  ELSE IF amt < s.gov.thr THEN FailW(s, "deposit_small")
  ELSE IF AllBal(s)[who][FeeDenom] < amt THEN Fail(s)
  ELSE
    LET pr == s.props[i]
        dep2 == Put(pr.dep, who, Amt(pr.dep, who) + amt)
        tot == SumF(dep2)
        act == pr.status = "deposit" /\ tot >= s.gov.minDep
        pr2 == [pr EXCEPT !.dep = dep2,
                          !.status = IF act THEN "voting" ELSE @,
                          !.due = IF act THEN s.h + s.gov.vp ELSE @]
        s1 == SplitBal(s, Move(AllBal(s), who, GOVA, (FeeDenom :> amt)))
    IN Done([s1 EXCEPT !.props[i] = pr2], EmptyF)

(* x/gov MsgVote -> AddVote: a later vote of the same voter replaces the earlier *)
DoVote(s, who, i, opt) ==
  IF opt \notin VoteOptions THEN Fail(s)
  ELSE IF i \notin DOMAIN s.props THEN Fail(s)
  ELSE IF s.props[i].status # "voting" THEN Fail(s)
  ELSE IF who # VAL THEN Done(s, EmptyF)       \* a vote without voting power
  ELSE Done([s EXCEPT !.props[i].vote = opt], EmptyF)

(* x/gov MsgCancelProposal -> CancelProposal: the cancellation charge of every
   deposit is burned, the rest returned, votes and proposal deleted.  No gov
   hook is called: the farm module never hears of it and the escrow record and
   its coins stay where they are. *)
RECURSIVE ChargeDeposits(_, _, _)
ChargeDeposits(s, dep, A) ==
  IF A = {} THEN s
  ELSE LET a == CHOOSE x \in A : TRUE
           burn == (dep[a] * s.gov.cnum) \div s.gov.cden
           b1 == Move(AllBal(s), GOVA, a, Pos((FeeDenom :> dep[a] - burn)))
           b2 == Debit(b1, GOVA, (FeeDenom :> burn))
           s1 == [SplitBal(s, b2) EXCEPT !.supply = SubSupply(s.supply, (FeeDenom :> burn))]
       IN ChargeDeposits(s1, dep, A \ {a})

DoCancel(s, who, i) ==
  IF i \notin DOMAIN s.props THEN Fail(s)
  ELSE IF s.props[i].proposer # who THEN Fail(s)
  ELSE IF ~Live(s.props[i]) THEN Fail(s)
  ELSE LET s1 == ChargeDeposits(s, s.props[i].dep, DOMAIN s.props[i].dep)
       IN Done([s1 EXCEPT !.props = Del(s.props, i)], EmptyF)

(* proposal.go: refundEscrow, called from the gov hooks on a branch that is
   written whatever happens (the hooks return nothing): a failure half way
   leaves the first transfer in place *)
RefundEscrow(s, i) ==
  LET info == s.esc[i]
      b0 == AllBal(s) IN
  IF ~CanPay(b0, ESC, info.bond) THEN s
  ELSE
    LET b1 == Move(b0, ESC, info.proposer, info.bond) IN
    IF ~CanPay(b1, ESC, info.applied) THEN SplitBal(s, b1)
    ELSE [SplitBal(s, Move(b1, ESC, FEEP, info.applied))
            EXCEPT !.cp = CpAdd(s.cp, info.applied), !.esc = Del(s.esc, i)]

RECURSIVE ReturnDeposits(_, _, _, _)
ReturnDeposits(s, dep, A, burn) ==
  IF A = {} THEN s
  ELSE LET a == CHOOSE x \in A : TRUE
           c == Pos((FeeDenom :> dep[a]))
           s1 == IF burn
                 THEN [SplitBal(s, Debit(AllBal(s), GOVA, c))
                         EXCEPT !.supply = SubSupply(s.supply, c)]
                 ELSE SplitBal(s, Move(AllBal(s), GOVA, a, c))
       IN ReturnDeposits(s1, dep, A \ {a}, burn)

(* gov EndBlocker, first loop: proposals whose deposit period ended *)
GovDropOne(s, i) ==
  LET pr == s.props[i]
      s1 == [s EXCEPT !.props = Del(s.props, i)]
      s2 == ReturnDeposits(s1, pr.dep, DOMAIN pr.dep, s.gov.burnPre)
  IN IF i \in DOMAIN s2.esc THEN RefundEscrow(s2, i) ELSE s2   \* AfterProposalFailedMinDeposit

(* proposal.go: HandleCreateFarmProposal, run by gov for a passed proposal on a
   branch that is discarded when it fails.  Returns [ok, st]. *)
HandleCreateFarm(s, pr) ==
  LET total == CoinsAdd(pr.applied, pr.bond) IN
  IF ~s.wired THEN [ok |-> FALSE, st |-> s]
  ELSE IF ~CanPay(AllBal(s), ESC, total) THEN [ok |-> FALSE, st |-> s]
  ELSE
    LET s1 == SplitBal(s, Move(AllBal(s), ESC, FARM, total))
        id == PoolId(s.seq + 1)
        rules == [d \in DOMAIN total |->
                    [totalR |-> total[d], remaining |-> total[d],
                     rpb |-> Amt(pr.rpb, d), rps |-> 0]]
        end == ExpiredHeightOf(s.h, rules)
        pool == [creator |-> FEEP, start |-> s.h, end |-> end, lastH |-> 0,
                 total |-> 0, editable |-> FALSE, rules |-> rules]
    IN [ok |-> TRUE,
        st |-> [s1 EXCEPT !.seq = s.seq + 1,
                          !.pools = Put(s1.pools, id, pool),
                          !.fi = Put(s1.fi, id, EmptyF),
                          !.queue = s1.queue \cup {<<end, id>>}]]

(* gov EndBlocker, second loop: proposals whose voting period ended.  Tally
   with a single voter: passes iff the vote is yes; the deposits are burned on
   a veto (burnV) or when nobody voted (burnQ), returned otherwise. *)
GovTallyOne(s, i) ==
  LET pr == s.props[i]
      passes == pr.vote = "yes"
      burn == (pr.vote = "none" /\ s.gov.burnQ) \/ (pr.vote = "veto" /\ s.gov.burnV)
      s1 == ReturnDeposits(s, pr.dep, DOMAIN pr.dep, burn)
      x == IF passes THEN HandleCreateFarm(s1, pr) ELSE [ok |-> FALSE, st |-> s1]
      status == IF passes THEN (IF x.ok THEN "passed" ELSE "failed") ELSE "rejected"
      \* deposits and votes leave the gov store with the tally
      s2 == [x.st EXCEPT !.props[i].status = status, !.props[i].dep = EmptyF,
                         !.props[i].vote = "none"]
  IN \* AfterProposalVotingPeriodEnded
     IF i \notin DOMAIN s2.esc THEN s2
     ELSE IF status = "passed" THEN [s2 EXCEPT !.esc = Del(s2.esc, i)]
     ELSE RefundEscrow(s2, i)

RECURSIVE GovFold(_, _, _)
GovFold(s, I, tally) ==
  IF I = {} THEN s
  ELSE LET i == MinPid(I) IN
       GovFold(IF tally THEN GovTallyOne(s, i) ELSE GovDropOne(s, i), I \ {i}, tally)

GovEndBlock(s) ==
  LET s1 == GovFold(s, {i \in DOMAIN s.props : s.props[i].status = "deposit" /\ s.props[i].due <= s.h}, FALSE)
  IN GovFold(s1, {i \in DOMAIN s1.props : s1.props[i].status = "voting" /\ s1.props[i].due <= s1.h}, TRUE)

(* abci.go: EndBlocker — refund every pool queued at this height, errors are
   logged and ignored (partial effects stay); then the height advances. *)
RECURSIVE RefundAll(_, _)
RefundAll(s, ps) ==
  IF ps = {} THEN s
  ELSE LET p == CHOOSE x \in ps : TRUE   \* refunds of distinct pools commute
           r == DoRefund(s, p)
       IN RefundAll(r.st, ps \ {p})

DueAt(s, h) == {q[2] : q \in {x \in s.queue : x[1] = h}}

(* the application's end-blockers: gov (proposals) runs before farm (pools) *)
DoEndBlock(s) ==
  LET s0 == GovEndBlock(s)
      due == {p \in DueAt(s0, s0.h) : p \in DOMAIN s0.pools}
      s1 == RefundAll(s0, due)
  IN Done([s1 EXCEPT !.h = s.h + 1], EmptyF)

(* An account outside the module sends coins to the farm module account by a
   plain bank send.  Since fix 20cb755 the application blocks the irismod module
   accounts as recipients of plain transfers, so the send is rejected and nothing
   moves.  (Before it the send succeeded; made before the module account existed
   it left a base account at the module address and every later farm operation
   panicked "account is not a module account" - finding F30.)  The `donated`
   tally stays in the state for traces of applications that allow such sends. *)
DoDonate(s, who, d, amt) == FailW(s, "blocked")

(* An as-is genesis round trip between two blocks (genesis.go ExportGenesis ->
   InitGenesis at the next height): pools, farm infos, sequence, parameters and
   escrow records are written back as exported, the active-pool queue is
   rebuilt.  Everything else of the state lives in other modules' genesis
   (bank, distribution, gov) and comes back as it was. *)
DoReimport(s) ==
  Done([s EXCEPT !.queue = {<<s.pools[p].end, p>> :
                              p \in {q \in DOMAIN s.pools : s.h <= s.pools[q].end}}],
       EmptyF)

(* farmer.go Stake / Unstake with a coin of another denomination than the pool's
   staking token (a reward denom, the fee denom, a plain coin whose denom is
   shaped like a pool share denom, the staking token in another case): whatever
   state the pool is in and whoever sends it, the message is rejected - unknown
   pool, not started, expired, or ErrNotMatch (every pool of the model stakes LP;
   DoCreatePool accepts no other staking token).  Kept under event names of their
   own so that the official C05 clauses about Stake / Unstake speak, as the
   property does, about the staked token only. *)
OtherDenomOps == {"StakeOther", "UnstakeOther"}
DoOtherDenom(s, who, p, den, amt) ==
  IF p \notin DOMAIN s.pools THEN Fail(s) ELSE FailW(s, "denom")

(* Dispatch on an event record: the deterministic step function *)
Apply(s, e) ==
  CASE e.name = "CreatePool" -> DoCreatePool(s, e.who, e.lpt, e.start, e.rpb, e.total, e.editable)
    [] e.name = "DestroyPool" -> DoDestroyPool(s, e.who, e.pool)
    [] e.name = "AdjustPool"  -> DoAdjustPool(s, e.who, e.pool, e.total, e.rpb)
    [] e.name = "Stake"       -> DoStake(s, e.who, e.pool, e.amt)
    [] e.name = "Unstake"     -> DoUnstake(s, e.who, e.pool, e.amt)
    [] e.name = "Harvest"     -> DoHarvest(s, e.who, e.pool)
    [] e.name = "EndBlock"    -> DoEndBlock(s)
    [] e.name = "Donate"      -> DoDonate(s, e.who, e.lpt, e.amt)
    [] e.name = "CreatePoolCP" -> DoCreatePoolCP(s, e.who, e.lpt, e.rpb, e.total, e.bond, e.amt)
    [] e.name = "Deposit"     -> DoDeposit(s, e.who, e.pool, e.amt)
    [] e.name = "Vote"        -> DoVote(s, e.who, e.pool, e.lpt)
    [] e.name = "CancelProposal" -> DoCancel(s, e.who, e.pool)
    [] e.name = "Reimport"    -> DoReimport(s)
    [] e.name \in OtherDenomOps -> DoOtherDenom(s, e.who, e.pool, e.lpt, e.amt)
    \* CreatePool with a start height of MaxInt64 - e.start: types/farm.go ExpiredHeight
    \* refuses (start + budget/rate leaves int64) after the fee and the budget were
    \* taken and the rules written - inside a message, so everything is rolled back
    [] e.name = "CreatePoolFar" -> FailW(s, "end_overflow")
    [] OTHER -> Fail(s)

-----------------------------------------------------------------------------
(***************************************************************************)
(* Ghost state: history-determined quantities, computed from the OBSERVED  *)
(* pre-state s, event e (with its result) and post-state t only — never    *)
(* from the operators above — so the same equations run on model           *)
(* behaviours and on traces of the real code.                              *)
(*   released[p][d]  rewards moved FARM -> COLL on behalf of pool p         *)
(*   refunded[p][d]  budget returned to the creator                        *)
(*   refunds[p]      number of refunds of pool p                           *)
(*   paid[p][f][d]   rewards paid to farmer f                              *)
(*   touches[p][f]   interactions of f with p                              *)
(*   acc[p][f][d]    floor-free entitlement numerator, see C06_ProRata     *)
(***************************************************************************)
FarmerOps == {"Stake", "Unstake", "Harvest"}

IsFarmerOp(e) == e.name \in FarmerOps /\ e.ok

(* pools refunded in this step, judged from the observed states *)
RefundedIn(s, e, t) ==
  IF e.name = "DestroyPool" /\ e.ok THEN {e.pool}
  ELSE IF e.name = "EndBlock"
       THEN {p \in DueAt(s, s.h) : p \in DOMAIN s.pools /\ <<s.h, p>> \notin t.queue}
       ELSE {}

(* coins that went FARM -> COLL in this step: collector delta plus payouts *)
FlowToColl(s, e, t, d) ==
  t.bal[COLL][d] - s.bal[COLL][d] + (IF IsFarmerOp(e) THEN Amt(e.reward, d) ELSE 0)

(* drop of the remaining budget net of top-ups *)
Drop(s, t, p, d) ==
  IF p \in DOMAIN s.pools /\ d \in DOMAIN s.pools[p].rules
  THEN (s.pools[p].rules[d].remaining - t.pools[p].rules[d].remaining)
       + (t.pools[p].rules[d].totalR - s.pools[p].rules[d].totalR)
  ELSE 0

(* accrual the rate rule prescribes for pool p between s and t *)
RateDue(s, t, p, d) ==
  IF p \in DOMAIN s.pools /\ d \in DOMAIN s.pools[p].rules
     /\ s.pools[p].total > 0 /\ t.pools[p].lastH > s.pools[p].lastH
  THEN s.pools[p].rules[d].rpb * (t.pools[p].lastH - s.pools[p].lastH)
  ELSE 0

(* Common denominator for exact stake-weighted entitlements: ent * EntD is an
   integer whenever the pool total divides EntD (all totals <= 10 do). *)
EntD == 2520

GhostInit == [funded |-> EmptyF, entD |-> EmptyF, entOK |-> EmptyF, released |-> EmptyF, refunded |-> EmptyF, refunds |-> EmptyF,
              paid |-> EmptyF, touches |-> EmptyF, maxLocked |-> EmptyF,
              updates |-> EmptyF, staked |-> EmptyF, rate |-> EmptyF,
              xesc |-> EmptyF, xpool |-> EmptyF, xback |-> EmptyF, xcancel |-> {}]

(* Governance steps as seen in the observed states.
   PassedIn:   proposals that were in their voting period before an end-block
               and are recorded as passed after it;
   PoolOfPassed: the pool a passed proposal created - gov handles the due
               proposals in the order of their ids and every created pool
               takes the next sequence number;
   EscBackIn:  escrow records that disappeared without the proposal passing,
               i.e. whose coins the refund hook sent back. *)
PassedIn(s, e, t) ==
  IF e.name = "EndBlock"
  THEN {i \in DOMAIN s.props : s.props[i].status = "voting"
                               /\ i \in DOMAIN t.props /\ t.props[i].status = "passed"}
  ELSE {}
PoolOfPassed(s, P, i) ==
  PoolId(s.seq + 1 + Cardinality({j \in P : PidNum(j) < PidNum(i)}))
EscBackIn(s, e, t) ==
  {i \in DOMAIN s.esc : i \notin DOMAIN t.esc /\ i \notin PassedIn(s, e, t)}
EscTotal(info, d) == Amt(info.applied, d) + Amt(info.bond, d)

ZeroR(t, p) == [d \in DOMAIN t.pools[p].rules |-> 0]

GhostStep(g, s, e, t) ==
  LET ps == DOMAIN t.pools
      ref == RefundedIn(s, e, t)
      old(f, p, dflt) == IF p \in DOMAIN f THEN f[p] ELSE dflt
      refStep(p, d) == IF p \in ref THEN Drop(s, t, p, d) - RateDue(s, t, p, d) ELSE 0
      relStep(p, d) == Drop(s, t, p, d) - refStep(p, d)
  IN
  [funded |-> [p \in ps |-> [d \in DOMAIN t.pools[p].rules |->
                 \* what the creator actually paid in: the event's coins, when it succeeded;
                 \* for a pool born in an end-block, what had been escrowed for the
                 \* passed proposal it belongs to (the observed escrow record)
                 IF p \notin DOMAIN s.pools
                 THEN (IF e.name = "CreatePool" /\ e.ok THEN Amt(e.total, d)
                       ELSE LET P == PassedIn(s, e, t)
                                mine == {i \in P : PoolOfPassed(s, P, i) = p /\ i \in DOMAIN s.esc}
                            IN SumOver([i \in mine |-> EscTotal(s.esc[i], d)], mine))
                 ELSE old(g.funded, p, ZeroR(t, p))[d]
                      + (IF e.name = "AdjustPool" /\ e.ok /\ e.pool = p THEN Amt(e.total, d) ELSE 0)]],
   entD |-> [p \in ps |-> [f \in UsersOf(t) |-> [d \in DOMAIN t.pools[p].rules |->
                   (IF p \in DOMAIN g.entD THEN g.entD[p][f][d] ELSE 0)
                   + (IF p \in DOMAIN s.pools /\ s.pools[p].total > 0
                         /\ EntD % s.pools[p].total = 0
                      THEN relStep(p, d) * InfoOf(s, p, f).locked * (EntD \div s.pools[p].total)
                      ELSE 0)]]],
   entOK |-> [p \in ps |->
                old(g.entOK, p, TRUE)
                /\ ((p \in DOMAIN s.pools /\ s.pools[p].total > 0
                     /\ \E d \in DOMAIN t.pools[p].rules : relStep(p, d) # 0)
                    => EntD % s.pools[p].total = 0)],
   released |-> [p \in ps |-> [d \in DOMAIN t.pools[p].rules |->
                   old(g.released, p, ZeroR(t, p))[d] + relStep(p, d)]],
   refunded |-> [p \in ps |-> [d \in DOMAIN t.pools[p].rules |->
                   old(g.refunded, p, ZeroR(t, p))[d] + refStep(p, d)]],
   refunds  |-> [p \in ps |-> old(g.refunds, p, 0) + (IF p \in ref THEN 1 ELSE 0)],
   paid     |-> [p \in ps |-> [f \in UsersOf(t) |-> [d \in DOMAIN t.pools[p].rules |->
                   (IF p \in DOMAIN g.paid THEN g.paid[p][f][d] ELSE 0)
                   + (IF IsFarmerOp(e) /\ e.pool = p /\ e.who = f
                      THEN Amt(e.reward, d) ELSE 0)]]],
   touches  |-> [p \in ps |-> [f \in UsersOf(t) |->
                   (IF p \in DOMAIN g.touches THEN g.touches[p][f] ELSE 0)
                   + (IF IsFarmerOp(e) /\ e.pool = p /\ e.who = f THEN 1 ELSE 0)]],
   maxLocked |-> [p \in ps |-> [f \in UsersOf(t) |->
                   Max(IF p \in DOMAIN g.maxLocked THEN g.maxLocked[p][f] ELSE 0,
                       InfoOf(t, p, f).locked)]],
   updates  |-> [p \in ps |->
                   old(g.updates, p, 0)
                   + (IF p \in DOMAIN s.pools /\ t.pools[p].lastH > s.pools[p].lastH
                         /\ s.pools[p].total > 0 THEN 1 ELSE 0)],
   \* HISTORY LEDGERS (audit round 8: clauses whose antecedent or expected value was read
   \* from the module's own records go blind when a defect corrupts those records).
   \* staked[p][f]: what f put into p by accepted Stake messages minus what accepted
   \* Unstake messages took out (a pool first seen with stakes starts from them);
   \* rate[p][d]: the reward per block the creator last set - the accepted CreatePool /
   \* AdjustPool message (a pool born otherwise, from a passed proposal, starts from
   \* what is first seen)
   staked   |-> [p \in ps |-> [f \in UsersOf(t) |->
                   (IF p \in DOMAIN g.staked /\ f \in DOMAIN g.staked[p] THEN g.staked[p][f]
                    ELSE IF p \in DOMAIN s.pools /\ p \in DOMAIN s.fi THEN InfoOf(s, p, f).locked ELSE 0)
                   + (IF e.ok /\ e.pool = p /\ e.who = f
                      THEN (IF e.name = "Stake" THEN e.amt
                            ELSE IF e.name = "Unstake" THEN 0 - e.amt ELSE 0)
                      ELSE 0)]],
   rate     |-> [p \in ps |-> [d \in DOMAIN t.pools[p].rules |->
                   IF e.name = "AdjustPool" /\ e.ok /\ e.pool = p /\ d \in DOMAIN e.rpb THEN e.rpb[d]
                   ELSE IF p \in DOMAIN g.rate /\ d \in DOMAIN g.rate[p] THEN g.rate[p][d]
                   ELSE IF p \in DOMAIN s.pools /\ d \in DOMAIN s.pools[p].rules THEN s.pools[p].rules[d].rpb
                   ELSE IF e.name = "CreatePool" /\ e.ok THEN Amt(e.rpb, d)
                   ELSE t.pools[p].rules[d].rpb]],
   \* proposals: what was escrowed, how often a pool was created from it, how
   \* often the escrow went back, which were cancelled by their proposer
   xesc     |-> LET new == DOMAIN t.esc \ DOMAIN s.esc IN
                [i \in DOMAIN g.xesc \cup new |->
                   IF i \in DOMAIN g.xesc THEN g.xesc[i]
                   ELSE [applied |-> t.esc[i].applied, bond |-> t.esc[i].bond,
                         proposer |-> t.esc[i].proposer]],
   xpool    |-> LET P == PassedIn(s, e, t) IN
                [i \in DOMAIN g.xpool \cup (DOMAIN t.esc \ DOMAIN s.esc) |->
                   old(g.xpool, i, 0)
                   + (IF i \in P /\ PoolOfPassed(s, P, i) \in DOMAIN t.pools \ DOMAIN s.pools
                      THEN 1 ELSE 0)],
   xback    |-> [i \in DOMAIN g.xback \cup (DOMAIN t.esc \ DOMAIN s.esc) |->
                   old(g.xback, i, 0) + (IF i \in EscBackIn(s, e, t) THEN 1 ELSE 0)],
   xcancel  |-> g.xcancel \cup (IF e.name = "CancelProposal" /\ e.ok THEN {e.pool} ELSE {})]

-----------------------------------------------------------------------------
(***************************************************************************)
(* Property clauses.  State clauses take the state (and ghosts); step       *)
(* clauses take (s, e, t): pre-state, event with result, post-state.       *)
(***************************************************************************)

(* C05: sum of recorded stakes = pool total *)
C05_StakeSum(t) ==
  \A p \in DOMAIN t.pools :
    SumOver([f \in DOMAIN t.fi[p] |-> t.fi[p][f].locked], DOMAIN t.fi[p]) = t.pools[p].total

(* C05: escrow = all staked tokens + all undistributed budgets.  Donations
   (DoDonate) are tracked in t.donated so "exactly" stays checkable. *)
C05_Escrow(t) ==
  /\ t.bal[FARM][LP] = SumOver([p \in DOMAIN t.pools |-> t.pools[p].total], DOMAIN t.pools)
                       + Amt(t.donated, LP)
  /\ \A d \in RDenomsOf(t) :
       t.bal[FARM][d] =
         SumOver([p \in DOMAIN t.pools |->
                    IF d \in DOMAIN t.pools[p].rules
                    THEN t.pools[p].rules[d].remaining ELSE 0], DOMAIN t.pools)
         + Amt(t.donated, d)

(* C05: withdrawing up to the recorded stake never fails *)
C05_UnstakeNeverFails(s, e) ==
  (e.name = "Unstake" /\ e.pool \in DOMAIN s.pools
     /\ e.who \in DOMAIN s.fi[e.pool]
     /\ e.amt > 0 /\ e.amt <= s.fi[e.pool][e.who].locked)
  => e.ok

(* C05, judged from the HISTORY instead of the module's farmer record (twin of the
   clause above; one verdict name in the trace specification): an unstake of no more
   than what the farmer put in by accepted stakes and has not yet taken out is never
   refused - whatever a defect did to the farmer's record in between *)
C05_UnstakeNeverFailsH(e, g) ==
  (e.name = "Unstake" /\ ~e.ok /\ e.amt > 0
     /\ e.pool \in DOMAIN g.staked /\ e.who \in DOMAIN g.staked[e.pool])
  => e.amt > g.staked[e.pool][e.who]

(* C05 "exactly accounted for": every farmer's recorded stake is what their accepted
   stakes put in minus what their accepted unstakes took out - no other event, of
   anybody, in any pool, moves it (per-event exactness and the frame clause leave out
   the farmer's own harvests and every event outside the farm messages) *)
C05_StakeLedger(t, g) ==
  \A p \in DOMAIN t.pools : \A f \in UsersOf(t) :
    (p \in DOMAIN g.staked /\ f \in DOMAIN g.staked[p]) =>
      InfoOf(t, p, f).locked = g.staked[p][f]

(* C05: ... and returns exactly that amount plus the accrued rewards *)
C05_UnstakeExact(s, e, t) ==
  (e.name = "Unstake" /\ e.ok) =>
    /\ t.bal[e.who][LP] = s.bal[e.who][LP] + e.amt
    /\ InfoOf(t, e.pool, e.who).locked = InfoOf(s, e.pool, e.who).locked - e.amt
    /\ t.pools[e.pool].total = s.pools[e.pool].total - e.amt
    /\ \A d \in RDenomsOf(t) : t.bal[e.who][d] = s.bal[e.who][d] + Amt(e.reward, d)

(* frame: a stake moves exactly the staked amount in *)
C05_StakeExact(s, e, t) ==
  (e.name = "Stake" /\ e.ok) =>
    /\ t.bal[e.who][LP] = s.bal[e.who][LP] - e.amt
    /\ InfoOf(t, e.pool, e.who).locked = InfoOf(s, e.pool, e.who).locked + e.amt
    /\ t.pools[e.pool].total = s.pools[e.pool].total + e.amt

(* nobody else's stake or LP balance changes in a farmer operation *)
C05_OthersUntouched(s, e, t) ==
  (e.name \in FarmerOps \cup {"AdjustPool", "DestroyPool", "CreatePool", "EndBlock"}) =>
    \* no pool (with the stakes recorded under it) disappears (audit round 8; evaluated
    \* first, so that a vanished pool is a clause failure and not an evaluation error)
    /\ DOMAIN s.pools \subseteq DOMAIN t.pools /\ DOMAIN s.pools \subseteq DOMAIN t.fi
    /\ \A p \in DOMAIN s.pools : \A f \in DOMAIN s.fi[p] :
      (~(e.name \in FarmerOps /\ e.who = f /\ e.pool = p)) =>
        /\ f \in DOMAIN t.fi[p]
        /\ t.fi[p][f].locked = s.fi[p][f].locked

(* a rejected message changes nothing *)
Rejected_NoEffect(s, e, t) ==
  (~e.ok /\ e.name # "EndBlock") => t = s

(* C06: budget = remaining + released + refunded, per pool and denom *)
C06_Budget(t, g) ==
  \A p \in DOMAIN t.pools : \A d \in DOMAIN t.pools[p].rules :
    t.pools[p].rules[d].totalR =
      t.pools[p].rules[d].remaining + g.released[p][d] + g.refunded[p][d]

(* C06: "the budget funded by the creator": the recorded total budget is what
   the creator actually paid in (creation + accepted top-ups) *)
C06_Funded(t, g) ==
  \A p \in DOMAIN t.pools : \A d \in DOMAIN t.pools[p].rules :
    g.funded[p][d] = t.pools[p].rules[d].totalR

(* C06: an accepted change of the reward per block is the rate from then on *)
C06_AdjustApplies(s, e, t) ==
  (e.name = "AdjustPool" /\ e.ok) =>
    \A d \in DOMAIN e.rpb : t.pools[e.pool].rules[d].rpb = e.rpb[d]

(* C06: the money actually moved: what left the budgets went to the
   collector (released) or to the creators (refunded), and top-ups were paid *)
C06_Flows(s, e, t) ==
  LET ps == DOMAIN s.pools
      ref == RefundedIn(s, e, t)
      refAmt(p, d) == IF p \in ref THEN Drop(s, t, p, d) - RateDue(s, t, p, d) ELSE 0
  IN \A d \in RDenomsOf(t) :
       /\ FlowToColl(s, e, t, d)
            = SumOver([p \in ps |-> Drop(s, t, p, d) - refAmt(p, d)], ps)
       /\ \A c \in UsersOf(t) :
            LET mine == {p \in ps : s.pools[p].creator = c} IN
            (~(IsFarmerOp(e) /\ e.who = c)) =>
              t.bal[c][d] - s.bal[c][d] =
                SumOver([p \in mine |-> refAmt(p, d)], mine)
                - (IF e.ok /\ e.who = c /\ e.name \in {"CreatePool", "AdjustPool"}
                   THEN Amt(e.total, d) ELSE 0)

(* C06: released only at the per-block rate, only while someone is staked,
   never for heights beyond the end height *)
C06_Rate(s, e, t) ==
  \A p \in DOMAIN s.pools : \A d \in DOMAIN s.pools[p].rules :
    LET ref == RefundedIn(s, e, t)
        rel == IF p \in ref THEN RateDue(s, t, p, d) ELSE Drop(s, t, p, d)
    IN /\ rel = RateDue(s, t, p, d)
       /\ (RateDue(s, t, p, d) # 0) => t.pools[p].lastH <= s.pools[p].end

(* C06: "released for a span of blocks = reward-per-block times the span while
   someone is staked" is normative, not only an upper bound: whenever a pool is
   touched while it is running - a successful stake, unstake, harvest, adjust or
   destroy, or its end-block refund - the accrual up to the current height has
   happened (lastH = h), so nothing owed for the span is withheld. *)
C06_TouchAccrues(s, e, t) ==
  /\ (e.ok /\ e.name \in FarmerOps \cup {"AdjustPool", "DestroyPool"}
        /\ e.pool \in DOMAIN s.pools /\ ~Expired(s, e.pool))
       => t.pools[e.pool].lastH = s.h
  /\ (e.name = "EndBlock") =>
       \A p \in DOMAIN s.pools :
         (<<s.h, p>> \in s.queue /\ s.pools[p].end = s.h) => t.pools[p].lastH = s.h

(* C06: refund exactly once, only at end or destroy, everything that remains *)
C06_RefundOnce(s, e, t, g) ==
  /\ \A p \in DOMAIN t.pools : g.refunds[p] <= 1
  /\ \A p \in RefundedIn(s, e, t) :
       \A d \in DOMAIN t.pools[p].rules : t.pools[p].rules[d].remaining = 0
  /\ \A p \in DOMAIN s.pools :
       (p \notin RefundedIn(s, e, t)) =>
         \A d \in DOMAIN s.pools[p].rules :
           \* outside a refund the budget only shrinks by releases
           Drop(s, t, p, d) = RateDue(s, t, p, d)

(* C06 "returned ... when the pool ends", without the queue: RefundedIn above calls a
   pool refunded when its queue entry went away, so a defect that loses or misplaces
   the entry makes the conjuncts above speak about nothing.  Whatever the queue says,
   a pool whose end height lies behind the current height has no budget left. *)
C06_EndedEmpty(t) ==
  \A p \in DOMAIN t.pools :
    (t.pools[p].end < t.h) =>
      \A d \in DOMAIN t.pools[p].rules : t.pools[p].rules[d].remaining = 0

(* C06 "reward-per-block": the rate every clause above multiplies with is the recorded
   one; it is the rate the creator set - in the accepted CreatePool message, or in the
   last accepted AdjustPool message that named the denomination *)
C06_RateSet(t, g) ==
  \A p \in DOMAIN t.pools : \A d \in DOMAIN t.pools[p].rules :
    (p \in DOMAIN g.rate /\ d \in DOMAIN g.rate[p]) =>
      t.pools[p].rules[d].rpb = g.rate[p][d]

(* C06: every farmer's cumulative payout is their stake-weighted share of the
   releases, up to one unit per interaction plus accumulator truncation.
   Checked in the form that needs no rationals: at every touch the payout is
   floor(rps*locked/prec) - debt, and the accumulator never runs ahead of the
   released amount:  rps * total <= released * prec  summed per interval, i.e.
   what all farmers can ever claim is covered by what was released. *)
C06_Covered(t, g) ==
  \A p \in DOMAIN t.pools : \A d \in DOMAIN t.pools[p].rules :
    LET claim == SumOver([f \in DOMAIN t.fi[p] |->
                   (t.pools[p].rules[d].rps * t.fi[p][f].locked) \div t.prec
                   - Amt(t.fi[p][f].debt, d)], DOMAIN t.fi[p])
        paidAll == SumOver([f \in UsersOf(t) |-> g.paid[p][f][d]], UsersOf(t))
    IN paidAll + claim <= g.released[p][d]

(* C06: pro rata.  For every farmer, paid-so-far plus what is claimable now is
   the exact stake-weighted share ent of the releases, within
     ent - J - U*kmax/prec - 1 < paid + claim < ent + J
   where J = interactions + 1 (floor at each payout), U = accumulator updates
   (each truncates rps by < 1/prec) and kmax the farmer's largest stake.
   Everything is scaled by EntD so that ent*EntD is an integer. *)
C06_ProRata(t, g) ==
  \A p \in DOMAIN t.pools : g.entOK[p] =>
    \A f \in UsersOf(t) : \A d \in DOMAIN t.pools[p].rules :
      LET info == InfoOf(t, p, f)
          claim == IF info.locked > 0
                   THEN (t.pools[p].rules[d].rps * info.locked) \div t.prec - Amt(info.debt, d)
                   ELSE 0
          got == g.paid[p][f][d] + claim
          J == g.touches[p][f] + 1
          slack == (g.updates[p] * g.maxLocked[p][f] * EntD) \div t.prec + EntD
      IN /\ got * EntD < g.entD[p][f][d] + J * EntD
         /\ got * EntD > g.entD[p][f][d] - J * EntD - slack

(***************************************************************************)
(* Diagnostic clauses X05_* / X06_* (specification grown beyond the listed *)
(* properties: governance-funded pools, AdjustPool corners).  Evaluated in *)
(* the exhaustive configurations and on every real trace, reported, never  *)
(* part of a listed property's verdict.                                    *)
(***************************************************************************)
GovDenomsOf(t) == DOMAIN t.gbal[ESC]
ProposersOf(t) == DOMAIN t.gbal \ {ESC, GOVA}

(* the escrow account holds exactly what the escrow records say *)
X05_EscrowConservation(t) ==
  \A d \in GovDenomsOf(t) :
    t.gbal[ESC][d] = SumOver([i \in DOMAIN t.esc |-> EscTotal(t.esc[i], d)], DOMAIN t.esc)

(* the gov module account holds exactly the deposits of the live proposals *)
X05_DepositsBacked(t) ==
  /\ t.gbal[GOVA][FeeDenom] =
       SumOver([i \in DOMAIN t.props |-> SumF(t.props[i].dep)], DOMAIN t.props)
  /\ \A d \in GovDenomsOf(t) \ {FeeDenom} : t.gbal[GOVA][d] = 0

(* closed balance sheet: both sheets together are the supply *)
X05_SupplyClosed(t) ==
  \A d \in DOMAIN t.supply : TotalOf(t.bal, d) + TotalOf(t.gbal, d) = t.supply[d]

(* the community pool is debited by the escrowed amount only, credited by
   returned escrows and by the end-of-life refund of pools it owns; its coins
   are in the distribution account (reward denoms move there for no other
   reason) *)
X05_CommunityPool(s, e, t) ==
  LET back == EscBackIn(s, e, t)
      ref == {p \in RefundedIn(s, e, t) : s.pools[p].creator = FEEP}
      refAmt(p, d) == IF d \in DOMAIN s.pools[p].rules
                      THEN Drop(s, t, p, d) - RateDue(s, t, p, d) ELSE 0
  IN \A d \in DOMAIN t.cp :
       /\ t.cp[d] - s.cp[d] =
            SumOver([i \in back |-> Amt(s.esc[i].applied, d)], back)
            + SumOver([p \in ref |-> refAmt(p, d)], ref)
            - (IF e.name = "CreatePoolCP" /\ e.ok THEN Amt(e.total, d) ELSE 0)
       /\ t.bal[FEEP][d] - s.bal[FEEP][d] = t.cp[d] - s.cp[d]
       /\ t.cp[d] >= 0 /\ t.cp[d] <= t.bal[FEEP][d]

(* a proposer pays the self bond and gets exactly it back; nothing else moves
   a proposer's reward coins *)
X05_ProposerFrame(s, e, t) ==
  LET back == EscBackIn(s, e, t) IN
  \A a \in ProposersOf(t) : \A d \in GovDenomsOf(t) \ {FeeDenom} :
    LET mine == {i \in back : s.esc[i].proposer = a} IN
    t.gbal[a][d] - s.gbal[a][d] =
      SumOver([i \in mine |-> Amt(s.esc[i].bond, d)], mine)
      - (IF e.name = "CreatePoolCP" /\ e.ok /\ e.who = a THEN Amt(e.bond, d) ELSE 0)

(* an accepted MsgCreatePoolWithCommunityPool leaves a proposal, its escrow
   record and the coins in the escrow account *)
X06_ProposalRecorded(s, e, t) ==
  (e.name = "CreatePoolCP" /\ e.ok) =>
    LET new == DOMAIN t.esc \ DOMAIN s.esc IN
    /\ Cardinality(new) = 1
    /\ \A i \in new :
         /\ i \in DOMAIN t.props /\ i \notin DOMAIN s.props /\ Live(t.props[i])
         /\ t.esc[i] = [proposer |-> e.who, applied |-> e.total, bond |-> e.bond]
         /\ t.props[i].proposer = e.who /\ t.props[i].rpb = e.rpb
         /\ \A d \in GovDenomsOf(t) \ {FeeDenom} :
              t.gbal[ESC][d] - s.gbal[ESC][d] = Amt(e.total, d) + Amt(e.bond, d)

(* a passed proposal creates exactly its pool: owned by the community pool,
   starting now, not editable, budget = what was escrowed, at the proposed
   rates; and an end-block creates no other pools *)
X06_GovPool(s, e, t) ==
  LET P == PassedIn(s, e, t) IN
  /\ DOMAIN t.pools \ DOMAIN s.pools =
       (IF e.name = "CreatePool" /\ e.ok THEN {PoolId(s.seq + 1)} ELSE {})
       \cup {PoolOfPassed(s, P, i) : i \in P}
  /\ \A i \in P :
       LET p == PoolOfPassed(s, P, i) IN
       /\ i \in DOMAIN s.esc
       /\ p \in DOMAIN t.pools
       /\ t.pools[p].creator = FEEP /\ t.pools[p].start = s.h /\ ~t.pools[p].editable
       /\ DOMAIN t.pools[p].rules =
            DOMAIN s.esc[i].applied \cup DOMAIN s.esc[i].bond
       /\ \A d \in DOMAIN t.pools[p].rules :
            /\ t.pools[p].rules[d].totalR = EscTotal(s.esc[i], d)
            /\ t.pools[p].rules[d].rpb = Amt(s.props[i].rpb, d)

(* the vote decides: a proposal passes only on a yes of the voting power, and
   a yes is followed by the pool (or by a failed execution, never by a plain
   rejection) *)
X06_VoteDecides(s, e, t) ==
  (e.name = "EndBlock") =>
    \A i \in DOMAIN s.props :
      (s.props[i].status = "voting" /\ s.props[i].due <= s.h) =>
        /\ i \in DOMAIN t.props /\ ~Live(t.props[i])
        /\ (t.props[i].status = "passed") => s.props[i].vote = "yes"
        /\ (s.props[i].vote = "yes") => t.props[i].status \in {"passed", "failed"}

(* exactly one outcome per proposal: while it is pending the escrow is held;
   once it is over, either the pool was created or the escrow went back -
   one of them, once - and the record is gone *)
OneOutcomeOf(t, g, i) ==
  LET live == i \in DOMAIN t.props /\ Live(t.props[i]) IN
  /\ live => (g.xpool[i] = 0 /\ g.xback[i] = 0 /\ i \in DOMAIN t.esc)
  /\ (~live) => (g.xpool[i] + g.xback[i] = 1 /\ i \notin DOMAIN t.esc)
X06_OneOutcome(t, g) == \A i \in DOMAIN g.xesc : OneOutcomeOf(t, g, i)
(* step form for traces: judged at the step in which a proposal appears or stops
   being pending (one report per proposal instead of one per later state) *)
X06_OneOutcomeStep(s, e, t, g) ==
  \A i \in DOMAIN g.xesc :
    LET was == i \in DOMAIN s.props /\ Live(s.props[i])
        is == i \in DOMAIN t.props /\ Live(t.props[i])
    IN (was # is \/ (i \in DOMAIN t.esc) # (i \in DOMAIN s.esc)) => OneOutcomeOf(t, g, i)
(* the same, leaving out proposals cancelled by their proposer (finding FG2:
   x/gov's CancelProposal calls no hook, the escrow is never returned) *)
X06_OneOutcome_ModCancel(t, g) ==
  \A i \in DOMAIN g.xesc \ g.xcancel : OneOutcomeOf(t, g, i)

(* an as-is export / import between two blocks changes nothing the model sees:
   pools, stakes, the rebuilt queue, escrow records, proposals, every balance *)
X12_Farm_RoundTrip(s, e, t) == (e.name = "Reimport") => (e.ok /\ t = s)

(* a coin of another denomination is never taken as, or paid out for, a stake *)
X05_OtherDenomRejected(e) == (e.name \in OtherDenomOps) => ~e.ok

(* no message of the module panics *)
X06_CPNoPanic(e) == (e.name = "CreatePoolCP") => ~e.panic
X06_AdjustNoPanic(e) == (e.name = "AdjustPool") => ~e.panic

(* AdjustPool is for the creator of an editable, running pool only, and it
   never leaves the pool with an end height the budget cannot cover *)
X06_AdjustGuard(s, e, t) ==
  (e.name = "AdjustPool" /\ e.ok) =>
    /\ e.pool \in DOMAIN s.pools
    /\ s.pools[e.pool].creator = e.who /\ s.pools[e.pool].editable
    /\ ~Expired(s, e.pool)
    /\ t.pools[e.pool].end >= s.h
    /\ \A d \in DOMAIN t.pools[e.pool].rules :
         LET r == t.pools[e.pool].rules[d]
             from == IF t.pools[e.pool].start > s.h THEN t.pools[e.pool].start ELSE s.h
         IN r.rpb * (t.pools[e.pool].end - from) <= r.remaining

(***************************************************************************)
(* Genesis (C12 at design level): genesis.go ExportGenesis / InitGenesis and *)
(* types/genesis.go ValidateGenesis, as operators on the state.            *)
(* Export writes pools (with rules), farm infos, sequence, params — not    *)
(* the active-pool queue, which InitGenesis rebuilds: a pool is enqueued   *)
(* at its end height unless Expired() says it is over at the import height *)
(* (for an as-is export taken after block h-1 the import context has       *)
(* height h, the next block to run).                                       *)
(***************************************************************************)
ExportG(s) == [pools |-> s.pools, fi |-> s.fi, seq |-> s.seq, params |-> s.params,
               esc |-> s.esc]

SeqOf(p) == CHOOSE n \in 1..99 : PoolId(n) = p

ValidateG(g) ==
  /\ \A p \in DOMAIN g.pools : \A d \in DOMAIN g.pools[p].rules :
       LET r == g.pools[p].rules[d] IN
       /\ r.totalR > 0 /\ r.remaining >= 0 /\ r.rpb > 0
       /\ (r.rps > 0 \/ r.remaining = r.totalR \/ g.pools[p].end = g.pools[p].lastH)
  /\ \A p \in DOMAIN g.pools : g.seq >= SeqOf(p)
  /\ \A p \in DOMAIN g.fi : \A f \in DOMAIN g.fi[p] : g.fi[p][f].locked > 0

(* InitGenesis at context height h: a pool whose end height is not behind is
   queued (fix 48cb1d6; before it `!Expired(ctx, pool)` skipped end = h) *)
ImportQueue(g, h) ==
  {<<g.pools[p].end, p>> : p \in {q \in DOMAIN g.pools : h <= g.pools[q].end}}

(* InitGenesis stores the escrow records as they are (no validation) *)
ImportEsc(g) == g.esc

C12_Farm_Accepted(s) == ValidateG(ExportG(s))
(* diagnostic: the escrow records of pending proposals survive export/import,
   so the escrow account (bank genesis) is still accounted for afterwards *)
X12_Farm_Escrow(s) ==
  /\ ImportEsc(ExportG(s)) = s.esc
  /\ X05_EscrowConservation([s EXCEPT !.esc = ImportEsc(ExportG(s))])
(* the rebuilt queue is the queue: every pool that still awaits its end-block
   refund is enqueued again *)
C12_Farm_Queue(s) == ImportQueue(ExportG(s), s.h) = s.queue

(* queue <-> pool bijection (C13 for farm) *)
C13_QueueSound(t) ==
  \A q \in t.queue : q[2] \in DOMAIN t.pools /\ t.pools[q[2]].end = q[1] /\ q[1] >= t.h
C13_QueueComplete(t, g) ==
  \A p \in DOMAIN t.pools :
    (g.refunds[p] = 0) <=> (<<t.pools[p].end, p>> \in t.queue)
C13_NoHalt(e) == ~e.halt
(* each pool is processed by the end-blocker exactly at its end height, once *)
C13_OnceOnTime(s, e, t, g) ==
  /\ \A p \in DOMAIN t.pools : g.refunds[p] <= 1
  /\ (e.name = "EndBlock") =>
       /\ \A p \in RefundedIn(s, e, t) : s.pools[p].end = s.h
       /\ \A p \in DOMAIN s.pools :
            (<<s.h, p>> \in s.queue) => p \in RefundedIn(s, e, t)
       \* the same without the queue as the witness of "due" and of "processed": a pool
       \* whose end height is this block's has been refunded exactly once by now (in this
       \* end-block, or by its creator's destroy earlier in the block), and a pool the
       \* end-block took from the queue was really closed: nothing left, accrued to here
       /\ \A p \in DOMAIN s.pools \cap DOMAIN t.pools :
            (s.pools[p].end = s.h) => g.refunds[p] = 1
       /\ \A p \in RefundedIn(s, e, t) :
            /\ \A d \in DOMAIN t.pools[p].rules : t.pools[p].rules[d].remaining = 0
            /\ t.pools[p].lastH = s.h

-----------------------------------------------------------------------------
(* Model-checking universe *)
CONSTANTS MaxH, MaxStake, MaxPools, Prec, InitLP, InitR, Fee, TaxNum, TaxDen,
          RewardTotals, RewardRates, MaxStart, TopUps, Donations, Creators,
          \* governance-funded pools
          GovOn,        \* BOOLEAN: the application wires escrow account, route and hooks
          InitCP,       \* community pool at the start, per reward denom
          MaxProps,     \* proposals per behaviour
          CPTotals,     \* amounts applied for / bonded, per denom
          Deposits,     \* deposit amounts
          GovMinDep, GovThr, GovDP, GovVP,   \* min deposit, smallest deposit, periods in blocks
          CancelNum, CancelDen,              \* cancellation charge
          BurnPre, BurnQ, BurnV              \* x/gov burn switches

Coins1(S, V) == UNION {[D -> V] : D \in (SUBSET S) \ {{}}}

Init0 ==
  [h |-> 3, prec |-> Prec, seq |-> 0,
   params |-> [fee |-> Fee, taxNum |-> TaxNum, taxDen |-> TaxDen, maxCat |-> 2],
   pools |-> EmptyF, fi |-> EmptyF, queue |-> {},
   bal |-> [a \in Accts |-> [d \in Denoms |->
              IF a \in Users THEN (IF d = LP THEN InitLP ELSE InitR)
              ELSE IF a = FEEP /\ d \in RDenoms THEN InitCP ELSE 0]],
   supply |-> [d \in Denoms |->
                 Cardinality(Users) * (IF d = LP THEN InitLP ELSE InitR)
                 + (IF d = LP THEN 0 ELSE Cardinality(Proposers) * InitR)
                 + (IF d \in RDenoms THEN InitCP ELSE 0)],
   donated |-> EmptyF,
   wired |-> GovOn,
   gbal |-> [a \in GAccts |-> [d \in Denoms |->
               IF a \in Proposers /\ d # LP THEN InitR ELSE 0]],
   cp |-> [d \in RDenoms |-> InitCP],
   gov |-> [minDep |-> GovMinDep, thr |-> GovThr, dp |-> GovDP, vp |-> GovVP,
            cnum |-> CancelNum, cden |-> CancelDen,
            burnPre |-> BurnPre, burnQ |-> BurnQ, burnV |-> BurnV],
   pseq |-> 0, props |-> EmptyF, esc |-> EmptyF]

Init == st = Init0 /\ ev = NoEv /\ gh = GhostInit /\ hist = <<>>

E(name, who, pool, amt, lpt, total, rpb, start, editable) ==
  [name |-> name, who |-> who, pool |-> pool, amt |-> amt, lpt |-> lpt,
   total |-> total, rpb |-> rpb, start |-> start, editable |-> editable,
   ok |-> TRUE, panic |-> FALSE, halt |-> FALSE, reward |-> EmptyF, bond |-> EmptyF]

(* LiveMode (overridden to TRUE by the liveness configurations): the last event
   and the ghosts are frozen, so that the state graph is the graph of st *)
LiveMode == FALSE
LiveOn == TRUE
Step(e) ==
  LET r == Apply(st, e)
      e2 == [e EXCEPT !.ok = r.ok, !.panic = r.panic, !.reward = r.reward]
  IN /\ st' = r.st
     /\ ev' = IF LiveMode THEN ev ELSE e2
     /\ gh' = IF LiveMode THEN gh ELSE GhostStep(gh, st, e2, r.st)
     /\ hist' = IF RecordHist THEN Append(hist, e2) ELSE hist

PoolIds == {PoolId(n) : n \in 1..MaxPools}

CreatePool ==
  /\ st.seq < MaxPools
  /\ \E who \in Creators, total \in Coins1(RDenoms, RewardTotals),
        start \in st.h..(st.h + MaxStart), editable \in BOOLEAN :
       \E rpb \in [DOMAIN total -> RewardRates] :
         Step(E("CreatePool", who, "", 0, LP, total, rpb, start, editable))
DestroyPool ==
  \E who \in Users, p \in PoolIds : Step(E("DestroyPool", who, p, 0, "", EmptyF, EmptyF, 0, FALSE))
AdjustPool ==
  \E who \in Users, p \in DOMAIN st.pools,
     reward \in Coins1(RDenoms, TopUps) \cup {EmptyF} :
     \E rpb \in Coins1(RDenoms, RewardRates) \cup {EmptyF} :
       Step(E("AdjustPool", who, p, 0, "", reward, rpb, 0, FALSE))
Stake ==
  \E who \in Users, p \in DOMAIN st.pools, a \in 1..MaxStake :
    Step(E("Stake", who, p, a, "", EmptyF, EmptyF, 0, FALSE))
Unstake ==
  \E who \in Users, p \in DOMAIN st.pools, a \in 1..MaxStake :
    Step(E("Unstake", who, p, a, "", EmptyF, EmptyF, 0, FALSE))
Harvest ==
  \E who \in Users, p \in DOMAIN st.pools :
    Step(E("Harvest", who, p, 0, "", EmptyF, EmptyF, 0, FALSE))
(* probes with ids and denoms of the wrong kind (generator only: none of them
   changes the state, so the exhaustive configurations have nothing to explore) *)
OddDenoms == RDenoms \cup {FeeDenom, "lpt-2", "LPT-1"}
OddPools == {"farm-0", "farm-01", "farm-10", "farm-", "1", "Farm-1", "lpt-1"}
OtherDenom ==
  \E nm \in OtherDenomOps, who \in Users, p \in DOMAIN st.pools, d \in OddDenoms, a \in 1..MaxStake :
    Step(E(nm, who, p, a, d, EmptyF, EmptyF, 0, FALSE))
OddPool ==
  \E nm \in {"Stake", "Unstake", "Harvest", "DestroyPool"}, who \in Users, p \in OddPools :
    Step(E(nm, who, p, IF nm \in {"Stake", "Unstake"} THEN 1 ELSE 0, "", EmptyF, EmptyF, 0, FALSE))
OddCreate ==
  \E who \in Creators, lpt \in OddDenoms \cup {"lpt-11", "lpt-"}, total \in Coins1(RDenoms, RewardTotals) :
    \E rpb \in [DOMAIN total -> RewardRates] :
      Step(E("CreatePool", who, "", 0, lpt, total, rpb, st.h, TRUE))
OddAdjust ==
  \E who \in Users, p \in DOMAIN st.pools, top \in BOOLEAN :
    \E d \in (OddDenoms \cup {LP}) \ DOMAIN st.pools[p].rules :
      Step(E("AdjustPool", who, p, 0, "", IF top THEN (d :> 1) ELSE EmptyF,
             IF top THEN EmptyF ELSE (d :> 1), 0, FALSE))

Donate ==
  \E who \in Users, d \in RDenoms \cup {LP}, a \in Donations :
    Step(E("Donate", who, "", a, d, EmptyF, EmptyF, 0, FALSE))
EndBlock ==
  /\ st.h < MaxH
  /\ Step(E("EndBlock", "", "", 0, "", EmptyF, EmptyF, 0, FALSE))

(* governance-funded pools: the applied amount in some reward denoms, the self
   bond in others *)
CreatePoolCP ==
  /\ st.pseq < MaxProps
  /\ \E who \in Proposers, applied \in Coins1(RDenoms, CPTotals), dep \in Deposits :
       \E bond \in Coins1(RDenoms \ DOMAIN applied, CPTotals) \cup {EmptyF} :
         \E rpb \in [DOMAIN applied \cup DOMAIN bond -> RewardRates] :
           Step([E("CreatePoolCP", who, "", dep, LP, applied, rpb, 0, FALSE) EXCEPT !.bond = bond])
Deposit ==
  \E who \in Proposers, i \in DOMAIN st.props, a \in Deposits \ {0} :
    Step(E("Deposit", who, i, a, "", EmptyF, EmptyF, 0, FALSE))
Vote ==
  \E i \in DOMAIN st.props, o \in VoteOptions :
    Step(E("Vote", VAL, i, 0, o, EmptyF, EmptyF, 0, FALSE))
CancelProposal ==
  \E who \in Proposers, i \in DOMAIN st.props :
    Step(E("CancelProposal", who, i, 0, "", EmptyF, EmptyF, 0, FALSE))
Reimport == GovOn /\ Step(E("Reimport", "", "", 0, "", EmptyF, EmptyF, 0, FALSE))
GovNext == CreatePoolCP \/ Deposit \/ Vote \/ CancelProposal \/ Reimport

Next == CreatePool \/ DestroyPool \/ AdjustPool \/ Stake \/ Unstake \/ Harvest
        \/ Donate \/ EndBlock \/ GovNext

Spec == Init /\ [][Next]_vars

(* Exploratory liveness (in no tier; MC_Farm_live.cfg, MC_FarmGov_live.cfg).
   Under weak fairness of EndBlock every pool - its budget is finite, top-ups
   are paid from finite balances - eventually reaches its end and is refunded:
   dequeued, nothing remaining.  The model's heights stop at MaxH; only a pool
   whose end lies at or beyond that bound is excused (the bound being reached
   is by itself no excuse, fairness always gets there).
   For proposals: every escrow record eventually goes (pool created or escrow
   returned) unless its proposal was cancelled (FG2: then it stays for ever;
   Live_EscrowResolved_Strict shows that). *)
LiveSpec == Init /\ [][Next]_vars /\ WF_vars(EndBlock)
PoolDone(p) ==
  /\ p \in DOMAIN st.pools /\ <<st.pools[p].end, p>> \notin st.queue
  /\ \A d \in DOMAIN st.pools[p].rules : st.pools[p].rules[d].remaining = 0
PoolBeyond(p) == p \in DOMAIN st.pools /\ st.h >= MaxH /\ st.pools[p].end >= MaxH
Live_PoolEnds ==
  \A p \in {PoolId(n) : n \in 1..(MaxPools + MaxProps)} :
    [](p \in DOMAIN st.pools => <>(PoolDone(p) \/ PoolBeyond(p)))
PropIds == {Pid(n) : n \in 1..MaxProps}
PropBeyond(i) == i \in DOMAIN st.props /\ st.h >= MaxH /\ st.props[i].due >= MaxH
Live_EscrowResolved ==
  \A i \in PropIds :
    [](i \in DOMAIN st.esc => <>(i \notin DOMAIN st.esc \/ i \notin DOMAIN st.props \/ PropBeyond(i)))
Live_EscrowResolved_Strict ==
  \A i \in PropIds : [](i \in DOMAIN st.esc => <>(i \notin DOMAIN st.esc \/ PropBeyond(i)))

(* Generator: TLC as a source of behaviours to replay on the real code.  Most
   steps succeed (rejections are kept rare so that histories get somewhere);
   the history is printed as JSON when the behaviour reaches GEN_DEPTH. *)
Rejects(h) == Cardinality({i \in DOMAIN h : ~h[i].ok})
GenNext == Next /\ (ev'.ok \/ Rejects(hist) < 2)
GenSpec == Init /\ [][GenNext]_vars
(* generator for the proposal life cycle: blocks must keep coming (a proposal
   needs several of them), so at most GenBurst messages go into one block *)
GenBurst == 2
SinceEnd(h) ==
  LET idx == {i \in DOMAIN h : h[i].name = "EndBlock"} IN
  Len(h) - (IF idx = {} THEN 0 ELSE SetMax(idx))
GenNextB == GenNext /\ (ev'.name # "EndBlock" => SinceEnd(hist) < GenBurst)
GenSpecB == Init /\ [][GenNextB]_vars
GenDepth == atoi(IOEnv.GEN_DEPTH)

(* Probe generator (negative probing): the behaviour first gets somewhere -
   accepted events only, blocks keep coming (GenNextB) - and then ends with
   ProbeLen events that the specification REJECTS, all aimed at the deep state
   reached: operations on pools that have not started, have ended, were
   destroyed before or after their start, by creators, farmers and strangers,
   and operations with ids and denoms of the wrong kind.  The probes go into
   the block of the last accepted messages ("same block as the transition").
   The driver appends its epilogue - every farmer the REAL chain records
   withdraws everything, the pools run to their ends - so whatever the code
   wrongly accepted is followed up and judged by the clauses. *)
ProbeLen == 4
InProbe == Len(hist) + ProbeLen >= GenDepth
ProbeOf(A) == InProbe /\ A /\ ~ev'.ok
GenNextP ==
  \/ (~InProbe /\ GenNextB /\ ev'.ok)
  \/ ProbeOf(Stake) \/ ProbeOf(Unstake) \/ ProbeOf(Harvest)
  \/ ProbeOf(DestroyPool) \/ ProbeOf(AdjustPool) \/ ProbeOf(CreatePool)
  \/ ProbeOf(OtherDenom) \/ ProbeOf(OddPool) \/ ProbeOf(OddCreate) \/ ProbeOf(OddAdjust)
  \* the proposal life cycle (configurations with GovOn): refused submissions, deposits,
  \* votes and cancellations on proposals in every state
  \/ ProbeOf(CreatePoolCP) \/ ProbeOf(Deposit) \/ ProbeOf(Vote) \/ ProbeOf(CancelProposal)
GenSpecP == Init /\ [][GenNextP]_vars
GenConstraint ==
  /\ Len(hist) <= GenDepth
  /\ (Len(hist) = GenDepth) => PrintT(<<"BEHAVIOUR", ToJson(hist)>>)

-----------------------------------------------------------------------------
(* Clauses in checkable form *)
Inv_C05_StakeSum == C05_StakeSum(st)
Inv_C05_Escrow == C05_Escrow(st)
Inv_C06_Budget == C06_Budget(st, gh)
Inv_C06_Funded == C06_Funded(st, gh)
Inv_C06_Covered == C06_Covered(st, gh)
Inv_C06_ProRata == C06_ProRata(st, gh)
Inv_C12_Farm_Accepted == C12_Farm_Accepted(st)
(* exports happen at block boundaries: checked on the state after EndBlock *)
Act_C12_Farm_Queue == [][ev'.name = "EndBlock" => C12_Farm_Queue(st')]_vars
Inv_X05_EscrowConservation == X05_EscrowConservation(st)
Inv_X05_DepositsBacked == X05_DepositsBacked(st)
Inv_X05_SupplyClosed == X05_SupplyClosed(st)
Inv_X12_Farm_Escrow == X12_Farm_Escrow(st)
Inv_X06_OneOutcome == X06_OneOutcome(st, gh)
Inv_X06_OneOutcome_ModCancel == X06_OneOutcome_ModCancel(st, gh)
Act_Gh_X06_OneOutcome == [][X06_OneOutcome(st', gh')]_vars
Act_Gh_X06_OneOutcome_ModCancel == [][X06_OneOutcome_ModCancel(st', gh')]_vars
Act_X05_CommunityPool == [][X05_CommunityPool(st, ev', st')]_vars
Act_X05_ProposerFrame == [][X05_ProposerFrame(st, ev', st')]_vars
Act_X06_ProposalRecorded == [][X06_ProposalRecorded(st, ev', st')]_vars
Act_X06_GovPool == [][X06_GovPool(st, ev', st')]_vars
Act_X06_VoteDecides == [][X06_VoteDecides(st, ev', st')]_vars
Act_X12_Farm_RoundTrip == [][X12_Farm_RoundTrip(st, ev', st')]_vars
Act_X06_CPNoPanic == [][X06_CPNoPanic(ev')]_vars
Act_X06_AdjustNoPanic == [][X06_AdjustNoPanic(ev')]_vars
Act_X06_AdjustGuard == [][X06_AdjustGuard(st, ev', st')]_vars
Act_X05_OtherDenomRejected == [][X05_OtherDenomRejected(ev')]_vars
Inv_C13_QueueSound == C13_QueueSound(st)
Inv_C13_QueueComplete == C13_QueueComplete(st, gh)
Inv_C13_NoHalt == C13_NoHalt(ev)

(* ghost clauses on every explored transition (under VIEW = st the state
   invariants over gh are evaluated for the first path into a state only) *)
Act_Gh_C06_Budget == [][C06_Budget(st', gh')]_vars
Act_Gh_C06_Funded == [][C06_Funded(st', gh')]_vars
Act_Gh_C06_ProRata == [][C06_ProRata(st', gh')]_vars
Act_Gh_C13_QueueComplete == [][C13_QueueComplete(st', gh')]_vars

Act_C05_UnstakeNeverFails == [][C05_UnstakeNeverFails(st, ev')]_vars
(* the same modulo known finding F2 (known_findings.json): the collector cannot
   pay the floor-rounded rewards.  Any other cause of a failing unstake is
   still a violation of the design. *)
Act_C05_UnstakeNeverFails_ModF2 ==
  [][C05_UnstakeNeverFails(st, ev') \/ Apply(st, ev').why = "collector_short"]_vars
Act_Gh_C05_UnstakeNeverFailsH_ModF2 ==
  [][C05_UnstakeNeverFailsH(ev', gh') \/ Apply(st, ev').why = "collector_short"]_vars
Act_Gh_C05_StakeLedger == [][C05_StakeLedger(st', gh')]_vars
Act_Gh_C06_RateSet == [][C06_RateSet(st', gh')]_vars
Inv_C06_EndedEmpty == C06_EndedEmpty(st)
Act_C05_UnstakeExact == [][C05_UnstakeExact(st, ev', st')]_vars
Act_C05_StakeExact == [][C05_StakeExact(st, ev', st')]_vars
Act_C05_OthersUntouched == [][C05_OthersUntouched(st, ev', st')]_vars
Act_Rejected_NoEffect == [][Rejected_NoEffect(st, ev', st')]_vars
Act_C06_Flows == [][C06_Flows(st, ev', st')]_vars
Act_C06_AdjustApplies == [][C06_AdjustApplies(st, ev', st')]_vars
Act_C06_Rate == [][C06_Rate(st, ev', st')]_vars
Act_C06_TouchAccrues == [][C06_TouchAccrues(st, ev', st')]_vars
Act_C06_RefundOnce == [][C06_RefundOnce(st, ev', st', gh')]_vars
Act_C13_OnceOnTime == [][C13_OnceOnTime(st, ev', st', gh')]_vars

(* VIEW for the exhaustive configs: the ghosts and the last event are functions
   of the path, not of the state; clauses over them are action properties or
   are checked under ViewGh in the smaller configuration. *)
View == st
ViewGh == <<st, gh>>
=============================================================================
