-------------------------- MODULE CoinswapClauses --------------------------
(* C01 clauses as pure integer arithmetic, shared by Coinswap.tla (TLC, small
   universes) and the generated big-number module (Apalache/Z3, reserves up to
   2^128).  S, T: the pool's two reserves; L: outstanding liquidity tokens;
   primed quantities carry suffix 2.  fn/fd: the swap fee as a rational. *)
EXTENDS Integers

\* share value never falls:  S2*T2/L2^2 >= S*T/L^2  (cross-multiplied)
\* @type: (Int, Int, Int, Int, Int, Int) => Bool;
ShareValueW(S, T, L, S2, T2, L2) ==
  (L > 0 /\ L2 > 0) => S2 * T2 * L * L >= S * T * L2 * L2

\* (rin + (1-fee)*paid) * (rout - recv) >= rin * rout
\* @type: (Int, Int, Int, Int, Int, Int) => Bool;
LegRuleW(rin, rout, paid, recv, fn, fd) ==
  (rin * fd + (fd - fn) * paid) * (rout - recv) >= rin * fd * rout
\* exact input: one unit more could not have been given
\* @type: (Int, Int, Int, Int, Int, Int) => Bool;
LegInMaxW(rin, rout, paid, recv, fn, fd) ==
  (rin * fd + (fd - fn) * paid) * (rout - recv - 1) < rin * fd * rout
\* exact output: paying two units less would not have sufficed
\* @type: (Int, Int, Int, Int, Int, Int) => Bool;
LegOutTightW(rin, rout, paid, recv, fn, fd) ==
  paid >= 2 => (rin * fd + (fd - fn) * (paid - 2)) * (rout - recv) < rin * fd * rout
=============================================================================
