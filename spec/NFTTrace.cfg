SPECIFICATION TraceSpec
CONSTANTS
  Users = {}
  Recipients = {}
  Creators = {}
  Classes = {}
  Tokens = {}
  NameVals = {}
  UriVals = {}
  HashVals = {}
  DataVals = {}
  CMetaVals = {}
  RecordHist = FALSE
INVARIANTS
  Monitor
  Coverage
  Report
  DriftReport
POSTCONDITION TraceAccepted
CHECK_DEADLOCK FALSE
ALIAS Alias
