SPECIFICATION Spec
CONSTANTS
  Users = {"u1", "u2"}
  Contents = {"a", "a+a~1"}
  MaxMsgs = 2
  MaxRec = 3
  MaxTx = 2
  IdScheme = "nocounter"
  RecordHist = FALSE
VIEW View
INVARIANTS
  Inv_C19_Unique
PROPERTIES
  Act_C19_Fresh
  Act_C19_Immutable
  Act_Rejected_NoEffect
CHECK_DEADLOCK FALSE
