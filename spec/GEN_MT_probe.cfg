SPECIFICATION GenSpecP
CONSTANTS
  Users = {"u1", "u2", "u3", "mod"}
  Issuers = {"u1", "u2"}
  MaxD = 2
  MaxM = 3
  MaxU = 536870911
  Amounts = {0, 1, 3, 536870911}
  DataVals = {"a", "b"}
  Forms <- FormsGen
  RecordHist = TRUE
CONSTRAINT GenConstraint
CHECK_DEADLOCK FALSE
