SPECIFICATION GenSpecP
CONSTANTS
  Users = {"u1", "u2"}
  RDenoms = {"rw1", "rw2"}
  LP = "lpt-1"
  FeeDenom = "stake"
  RecordHist = TRUE
  MaxH = 30
  MaxStake = 2
  MaxPools = 3
  Prec = 10
  InitLP = 3
  InitR = 20
  Fee = 5
  TaxNum = 2
  TaxDen = 5
  RewardTotals = {5}
  RewardRates = {2}
  MaxStart = 1
  TopUps = {}
  Donations = {}
  Creators = {}
  Proposers = {"g1", "g2"}
  GovOn = TRUE
  InitCP = 20
  MaxProps = 3
  CPTotals = {4}
  Deposits = {2, 4}
  GovMinDep = 4
  GovThr = 2
  GovDP = 2
  GovVP = 2
  CancelNum = 1
  CancelDen = 2
  BurnPre = FALSE
  BurnQ = FALSE
  BurnV = TRUE
CONSTRAINT GenConstraint
CHECK_DEADLOCK FALSE
