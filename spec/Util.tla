------------------------------- MODULE Util -------------------------------
(* Helpers shared by all irismod specifications. *)
EXTENDS Integers, Sequences, FiniteSets, TLC

Min(a, b) == IF a <= b THEN a ELSE b
Max(a, b) == IF a >= b THEN a ELSE b
Abs(a) == IF a >= 0 THEN a ELSE -a

(* Sum of f[x] over x \in S.  Always sum over a function, never over a set of
   values (equal summands would collapse). *)
RECURSIVE SumOver(_, _)
SumOver(f, S) ==
  IF S = {} THEN 0
  ELSE LET x == CHOOSE y \in S : TRUE IN f[x] + SumOver(f, S \ {x})

SumF(f) == SumOver(f, DOMAIN f)

(* Minimum / maximum of a non-empty set of integers *)
SetMin(S) == CHOOSE x \in S : \A y \in S : x <= y
SetMax(S) == CHOOSE x \in S : \A y \in S : x >= y

(* f with key k set to v (k may be new) *)
Put(f, k, v) == [x \in (DOMAIN f) \cup {k} |-> IF x = k THEN v ELSE f[x]]
(* f without key k *)
Del(f, k) == [x \in (DOMAIN f) \ {k} |-> f[x]]
(* f[k] or default *)
Get(f, k, dflt) == IF k \in DOMAIN f THEN f[k] ELSE dflt

EmptyF == [x \in {} |-> 0]

(* Range of a sequence / function *)
Range(f) == {f[x] : x \in DOMAIN f}

(* Coins: functions denom -> Nat; "positive part" as sdk.Coins keeps it *)
Pos(c) == [d \in {x \in DOMAIN c : c[x] > 0} |-> c[d]]
Amt(c, d) == IF d \in DOMAIN c THEN c[d] ELSE 0

(* Integer square root (floor) *)
RECURSIVE ISqrtFrom(_, _)
ISqrtFrom(n, r) == IF (r + 1) * (r + 1) > n THEN r ELSE ISqrtFrom(n, r + 1)
ISqrt(n) == ISqrtFrom(n, 0)

(* Bank: bal is [acct -> [denom -> Int]] over a closed universe of accounts
   and denoms.  CanPay / Move are total functions. *)
CanPay(bal, from, coins) == \A d \in DOMAIN coins : bal[from][d] >= coins[d]
Move(bal, from, to, coins) ==
  [a \in DOMAIN bal |->
     [d \in DOMAIN bal[a] |->
        bal[a][d]
          - (IF a = from /\ d \in DOMAIN coins THEN coins[d] ELSE 0)
          + (IF a = to /\ d \in DOMAIN coins THEN coins[d] ELSE 0)]]
Credit(bal, to, coins) ==
  [a \in DOMAIN bal |->
     [d \in DOMAIN bal[a] |->
        bal[a][d] + (IF a = to /\ d \in DOMAIN coins THEN coins[d] ELSE 0)]]
Debit(bal, from, coins) ==
  [a \in DOMAIN bal |->
     [d \in DOMAIN bal[a] |->
        bal[a][d] - (IF a = from /\ d \in DOMAIN coins THEN coins[d] ELSE 0)]]
AddSupply(sup, coins) ==
  [d \in DOMAIN sup |-> sup[d] + (IF d \in DOMAIN coins THEN coins[d] ELSE 0)]
SubSupply(sup, coins) ==
  [d \in DOMAIN sup |-> sup[d] - (IF d \in DOMAIN coins THEN coins[d] ELSE 0)]

(* Total of a denom over all accounts of the closed universe *)
TotalOf(bal, d) == SumOver([a \in DOMAIN bal |-> bal[a][d]], DOMAIN bal)
=============================================================================
