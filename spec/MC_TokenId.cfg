SPECIFICATION Spec
CONSTANTS
  Users = {"u1", "u2", "u3"}
  MinUnitsC = {"maa", "mbb"}
  RecordHist = FALSE
  Owners = {"u1", "u2"}
  Symbols = {"aaa", "maa"}
  Scales = {1}
  Initials = {1}
  Maxes = {3}
  Amounts = {10}
  EditMaxes = {0}
  EditMint = {"false"}
  MintTo = {"", "u3"}
  TransferTo = {"u3"}
  MaxTokens = 2
  InitStake = 7
  BaseFee = 5
  TaxNum = 2
  TaxDen = 5
  MintNum = 1
  MintDen = 2
  TaxNums = {2}
  Acts = {"Issue", "Edit", "TransferOwner", "Mint"}
  Prologue = "none"
  PScaleA = 1
  PScaleB = 0
  ConvAmounts = {}
  ConvTo = {}
  RegIn = ""
  RegOut = ""
  RegRn = 1
  RegRd = 1
  SwapAmounts = {}
  MaxRej = 2
  Sample = FALSE
  MathMaxIn = 0
  MathScales = {0}
VIEW View
PROPERTIES
  Act_C09_IdentityGh
  Act_C09_Identity
  Act_C09_Authority
  Act_C09_Cap
  Act_C09_Burned
  Act_C09_Fee
  Act_Rejected_NoEffect
CHECK_DEADLOCK FALSE
