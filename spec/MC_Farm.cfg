SPECIFICATION Spec
CONSTANTS
  Users = {"u1", "u2"}
  RDenoms = {"rw1"}
  LP = "lpt-1"
  FeeDenom = "stake"
  RecordHist = FALSE
  MaxH = 6
  MaxStake = 2
  MaxPools = 1
  Prec = 10
  InitLP = 2
  InitR = 20
  Fee = 5
  TaxNum = 2
  TaxDen = 5
  RewardTotals = {7}
  RewardRates = {3}
  MaxStart = 1
  TopUps = {3}
  Donations = {}
  Creators = {"u1"}
  Proposers = {}
  GovOn = FALSE
  InitCP = 0
  MaxProps = 0
  CPTotals = {}
  Deposits = {}
  GovMinDep = 0
  GovThr = 0
  GovDP = 0
  GovVP = 0
  CancelNum = 0
  CancelDen = 1
  BurnPre = FALSE
  BurnQ = FALSE
  BurnV = FALSE
VIEW View
INVARIANTS
  Inv_C12_Farm_Accepted
  Inv_C05_StakeSum
  Inv_C05_Escrow
  Inv_C06_Budget
  Inv_C06_Funded
  Inv_C06_ProRata
  Inv_C06_EndedEmpty
  Inv_C13_QueueSound
  Inv_C13_QueueComplete
  Inv_X05_SupplyClosed
PROPERTIES
  Act_Gh_C06_Budget
  Act_Gh_C06_Funded
  Act_Gh_C06_ProRata
  Act_Gh_C13_QueueComplete
  Act_C12_Farm_Queue
  Act_C05_UnstakeNeverFails_ModF2
  Act_Gh_C05_UnstakeNeverFailsH_ModF2
  Act_Gh_C05_StakeLedger
  Act_Gh_C06_RateSet
  Act_C05_UnstakeExact
  Act_C05_StakeExact
  Act_C05_OthersUntouched
  Act_Rejected_NoEffect
  Act_C06_Flows
  Act_C06_AdjustApplies
  Act_C06_Rate
  Act_C06_TouchAccrues
  Act_C06_RefundOnce
  Act_C13_OnceOnTime
  Act_X06_AdjustNoPanic
  Act_X06_AdjustGuard
  Act_X05_CommunityPool
CHECK_DEADLOCK FALSE
