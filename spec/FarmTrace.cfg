SPECIFICATION TraceSpec
CONSTANTS
  Users = {}
  RDenoms = {}
  LP = "lpt-1"
  FeeDenom = "stake"
  RecordHist = FALSE
  MaxH = 0
  MaxStake = 0
  MaxPools = 0
  Prec = 10
  InitLP = 0
  InitR = 0
  Fee = 0
  TaxNum = 0
  TaxDen = 1
  RewardTotals = {}
  RewardRates = {}
  MaxStart = 0
  TopUps = {}
  Donations = {}
  Creators = {"u1"}
INVARIANTS
  Monitor
  Coverage
  Report
  DriftReport
POSTCONDITION TraceAccepted
CHECK_DEADLOCK FALSE
ALIAS Alias
