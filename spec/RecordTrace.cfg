SPECIFICATION TraceSpec
CONSTANTS
  Users = {}
  Contents = {}
  MaxMsgs = 0
  MaxRec = 0
  MaxTx = 0
  IdScheme = "counter"
  RecordHist = FALSE
INVARIANTS
  Monitor
  Coverage
  Report
  DriftReport
POSTCONDITION TraceAccepted
CHECK_DEADLOCK FALSE
ALIAS Alias
