----------------------------- MODULE CapClauses -----------------------------
(* C09 cap and burned-tally clauses as pure integer arithmetic, shared by
   Token.tla (TLC; small universes, w computed by Pow10) and the generated
   big-number module TokenCapBig (Apalache/Z3; rows recorded from the real
   chain with max supplies up to MaxUint64 and scales up to 18, w = 10^scale a
   literal).  ONE statement of each clause.
     circ    circulating amount of the token's min unit (bank supply)
     max     declared maximum supply in MAIN units
     w       10^scale: min units per main unit *)
EXTENDS Integers

(* the circulating amount does not exceed the declared maximum *)
\* @type: (Int, Int, Int) => Bool;
CapW(circ, max, w) == circ <= max * w

(* a C09 message (issue, mint, edit, burn, transfer-owner) keeps a token under
   its cap: if it was within the cap before, it is afterwards *)
\* @type: (Int, Int, Int, Int, Int) => Bool;
CapKeptW(circ, max, circ2, max2, w) == CapW(circ, max, w) => CapW(circ2, max2, w)

(* the maximum can never be lowered below what circulates: an accepted edit
   that names a maximum leaves the token within it *)
\* @type: (Bool, Int, Int, Int, Int) => Bool;
EditMaxW(ok, newMax, max2, w, circ2) == (ok /\ newMax > 0) => CapW(circ2, max2, w)

(* an accepted burn of amt: the tally grows by amt, the supply and the sender's
   balance shrink by amt *)
\* @type: (Int, Int, Int, Int, Int, Int, Int) => Bool;
BurnExactW(amt, burned, burned2, circ, circ2, bal, bal2) ==
  /\ burned2 - burned = amt
  /\ circ - circ2 = amt
  /\ bal - bal2 = amt

(* the tally never shrinks and moves only in an accepted burn of that coin *)
\* @type: (Int, Int, Bool) => Bool;
TallyW(burned, burned2, isBurnOk) ==
  /\ burned2 >= burned
  /\ (burned2 # burned) => isBurnOk
=============================================================================
