-------------------------------- MODULE NFT --------------------------------
(***************************************************************************)
(* irismod/modules/nft — classes ("denoms") and non-fungible tokens on top *)
(* of cosmossdk.io/x/nft.                                                  *)
(*                                                                         *)
(* Transcribed branch by branch from                                       *)
(*   keeper/msg_server.go (IssueDenom, MintNFT, EditNFT, TransferNFT,      *)
(*     BurnNFT, TransferDenom),                                            *)
(*   keeper/denom.go (SaveDenom, TransferDenomOwner, GetDenomInfo),        *)
(*   keeper/nft.go (SaveNFT, UpdateNFT, TransferOwnership, RemoveNFT,      *)
(*     Authorize), types/validation.go (Modified / Modify, DoNotModify),   *)
(*   and the SDK keeper underneath (x/nft keeper/nft.go, class.go: Mint,   *)
(*     Burn, Update, Transfer, setOwner / deleteOwner, incr/decr supply).  *)
(*                                                                         *)
(* State (what the stores hold, as the queries report it):                 *)
(*   cls[c]      = [creator, mintR, updateR, meta]        Denom query      *)
(*   nft[c][id]  = [owner, n, u, h, d]                    NFT query        *)
(*                 (token record + owner key; n/u/h/d = name, uri,         *)
(*                  uri hash, data as abstract strings)                    *)
(*   idx[a][c]   = set of ids      owner index, NFTsOfOwner query          *)
(*   sup[c]      = supply counter  Supply(class) query                     *)
(*   bal[a][c]   = Supply(class, owner) query (derived from the index)     *)
(*   coll[c]     = Collection(class) query (iteration over the nft store)  *)
(* The SDK keeps the token record, the owner key, the owner index and the  *)
(* supply counter as four separate store entries; the model updates them   *)
(* separately, exactly where the code does.                                *)
(***************************************************************************)
EXTENDS Integers, Sequences, FiniteSets, TLC, Util, Json, IOUtils

CONSTANTS
  Users,       \* accounts that sign messages
  Recipients,  \* accounts that can be named as recipients (subset of Users)
  Creators,    \* accounts that issue classes (subset of Users)
  Classes,     \* class ids
  Tokens,      \* the <<class id, token id>> pairs messages refer to
  NameVals, UriVals, HashVals, DataVals,   \* metadata values used as arguments
  CMetaVals,   \* class metadata values
  RecordHist   \* BOOLEAN: keep the event history (generator configs)

VARIABLES st, ev, gh, hist
vars == <<st, ev, gh, hist>>

KEEP == "keep"          \* the model's name for types.DoNotModify "[do-not-modify]"
NOBODY == ""            \* GetOwner of a token without owner key: empty address

UsersOf(t) == DOMAIN t.idx

NoEv == [name |-> "Init", who |-> "", cls |-> "", id |-> "", to |-> "",
         mintR |-> FALSE, updateR |-> FALSE, cmeta |-> "",
         n |-> KEEP, u |-> KEEP, h |-> KEEP, d |-> KEEP,
         ok |-> TRUE, panic |-> FALSE]

-----------------------------------------------------------------------------
(* Results.  why: reason of a rejection (diagnostics, known-finding keys) *)
Fail(s, w) == [ok |-> FALSE, panic |-> FALSE, st |-> s, why |-> w]
Done(s) == [ok |-> TRUE, panic |-> FALSE, st |-> s, why |-> ""]

HasClass(s, c) == c \in DOMAIN s.cls
HasNFT(s, c, id) == HasClass(s, c) /\ id \in DOMAIN s.nft[c]
(* x/nft GetOwner: the owner key, empty when there is none *)
OwnerOf(s, c, id) == IF HasNFT(s, c, id) THEN s.nft[c][id].owner ELSE NOBODY

(* types.Modified / types.Modify *)
Modified(x) == x # KEEP
Modify(old, x) == IF x = KEEP THEN old ELSE x

(* query results that are functions of the stores: Supply(class, owner) counts
   the index entries whose token exists; Collection walks the nft store and
   looks the owner up *)
WithQ(s) ==
  [s EXCEPT
     !.bal = [a \in DOMAIN s.idx |-> [c \in DOMAIN s.cls |->
                Cardinality({i \in s.idx[a][c] : i \in DOMAIN s.nft[c]})]],
     !.coll = s.nft]

(* x/nft setOwner / deleteOwner on the index part *)
IdxAdd(idx, a, c, id) == IF a \in DOMAIN idx THEN [idx EXCEPT ![a][c] = @ \cup {id}] ELSE idx
IdxDel(idx, a, c, id) == IF a \in DOMAIN idx THEN [idx EXCEPT ![a][c] = @ \ {id}] ELSE idx

(* msg_server.go IssueDenom -> denom.go SaveDenom -> x/nft SaveClass *)
DoIssueDenom(s, who, c, mintR, updateR, meta) ==
  IF HasClass(s, c) THEN Fail(s, "class_exists")
  ELSE Done(WithQ(
    [s EXCEPT
       !.cls = Put(s.cls, c, [creator |-> who, mintR |-> mintR, updateR |-> updateR, meta |-> meta]),
       !.nft = Put(s.nft, c, EmptyF),
       !.idx = [a \in DOMAIN s.idx |-> Put(s.idx[a], c, {})],
       !.sup = Put(s.sup, c, 0)]))

(* msg_server.go MintNFT -> nft.go SaveNFT -> x/nft Mint / mintWithNoCheck *)
DoMintNFT(s, who, c, id, to, n, u, h, d) ==
  IF d = KEEP THEN Fail(s, "invalid_data")       \* ValidateBasic: the sentinel is not JSON
  ELSE IF ~HasClass(s, c) THEN Fail(s, "no_class")                      \* GetDenomInfo
  ELSE IF s.cls[c].mintR /\ s.cls[c].creator # who THEN Fail(s, "mint_restricted")
  ELSE IF HasNFT(s, c, id) THEN Fail(s, "nft_exists")              \* x/nft Mint
  ELSE Done(WithQ(
    [s EXCEPT
       !.nft[c] = Put(@, id, [owner |-> to, n |-> n, u |-> u, h |-> h, d |-> d]),   \* setNFT, setOwner
       !.idx = IdxAdd(@, to, c, id),
       !.sup[c] = @ + 1]))                                          \* incrTotalSupply

(* msg_server.go EditNFT -> nft.go UpdateNFT *)
DoEditNFT(s, who, c, id, n, u, h, d) ==
  IF ~HasClass(s, c) THEN Fail(s, "no_class")
  ELSE IF s.cls[c].updateR THEN Fail(s, "update_restricted")
  ELSE IF OwnerOf(s, c, id) # who THEN Fail(s, "unauthorized")     \* Authorize
  ELSE IF ~Modified(u) /\ ~Modified(h) /\ ~Modified(n) /\ ~Modified(d) THEN Done(s)
  ELSE Done(WithQ(
    [s EXCEPT !.nft[c][id] = [@ EXCEPT !.n = Modify(@, n), !.u = Modify(@, u),
                                       !.h = Modify(@, h), !.d = Modify(@, d)]]))

(* msg_server.go TransferNFT -> nft.go TransferOwnership -> x/nft Update, Transfer *)
DoTransferNFT(s, who, c, id, to, n, u, h, d) ==
  IF ~HasNFT(s, c, id) THEN Fail(s, "no_nft")
  ELSE IF OwnerOf(s, c, id) # who THEN Fail(s, "unauthorized")
  ELSE
    LET changed == Modified(u) \/ Modified(h) \/ Modified(n) \/ Modified(d)
        old == s.nft[c][id]
        tok == IF changed
               THEN [old EXCEPT !.n = Modify(@, n), !.u = Modify(@, u),
                                !.h = Modify(@, h), !.d = Modify(@, d)]
               ELSE old
    IN
    IF s.cls[c].updateR /\ changed THEN Fail(s, "update_restricted")
    ELSE Done(WithQ(
      [s EXCEPT
         !.nft[c][id] = [tok EXCEPT !.owner = to],                  \* (Update,) setOwner
         !.idx = IdxAdd(IdxDel(@, old.owner, c, id), to, c, id)]))  \* deleteOwner, setOwner

(* msg_server.go BurnNFT -> nft.go RemoveNFT -> x/nft Burn / burnWithNoCheck *)
DoBurnNFT(s, who, c, id) ==
  IF OwnerOf(s, c, id) # who THEN Fail(s, "unauthorized")
  ELSE Done(WithQ(
    [s EXCEPT
       !.nft[c] = Del(@, id),
       !.idx = IdxDel(@, who, c, id),
       !.sup[c] = @ - 1]))                                          \* decrTotalSupply

(* msg_server.go TransferDenom -> denom.go TransferDenomOwner -> x/nft UpdateClass *)
DoTransferDenom(s, who, c, to) ==
  IF ~HasClass(s, c) THEN Fail(s, "no_class")
  ELSE IF s.cls[c].creator # who THEN Fail(s, "unauthorized")
  ELSE Done([s EXCEPT !.cls[c].creator = to])

(* Dispatch on an event record: the deterministic step function.  EndBlock is
   only a point of observation (the module has no block handlers). *)
Apply(s, e) ==
  CASE e.name = "IssueDenom"    -> DoIssueDenom(s, e.who, e.cls, e.mintR, e.updateR, e.cmeta)
    [] e.name = "MintNFT"       -> DoMintNFT(s, e.who, e.cls, e.id, e.to, e.n, e.u, e.h, e.d)
    [] e.name = "EditNFT"       -> DoEditNFT(s, e.who, e.cls, e.id, e.n, e.u, e.h, e.d)
    [] e.name = "TransferNFT"   -> DoTransferNFT(s, e.who, e.cls, e.id, e.to, e.n, e.u, e.h, e.d)
    [] e.name = "BurnNFT"       -> DoBurnNFT(s, e.who, e.cls, e.id)
    [] e.name = "TransferDenom" -> DoTransferDenom(s, e.who, e.cls, e.to)
    [] e.name = "EndBlock"      -> Done(s)
    [] OTHER -> Fail(s, "unknown")

-----------------------------------------------------------------------------
(* Ghosts (only for coverage counters; no clause depends on them):
   burned = tokens <<c, id>> burned at least once, handed = classes that were
   handed over.  Computed from the observed (s, e, t) only. *)
GhostInit == [burned |-> {}, handed |-> {}]

AllTokens(t) == UNION {{<<c, i>> : i \in DOMAIN t.nft[c]} : c \in DOMAIN t.nft}

GhostStep(g, s, e, t) ==
  [burned |-> g.burned \cup (AllTokens(s) \ AllTokens(t)),
   handed |-> g.handed \cup {c \in DOMAIN s.cls : c \in DOMAIN t.cls /\ t.cls[c].creator # s.cls[c].creator}]

-----------------------------------------------------------------------------
(***************************************************************************)
(* Property clauses (C14).  State clauses take the state t; step clauses   *)
(* take (s, e, t) = pre-state, event with result, post-state.              *)
(***************************************************************************)
Meta(r) == [n |-> r.n, u |-> r.u, h |-> r.h, d |-> r.d]
TokenOps == {"TransferNFT", "EditNFT", "BurnNFT"}

(* Every existing token has exactly one owner (an account, never the empty
   address) and appears in exactly that owner's index; the index lists no
   token that does not exist; the collection query reports the same owner. *)
C14_Owner(t) ==
  /\ \A c \in DOMAIN t.nft : \A i \in DOMAIN t.nft[c] :
       /\ t.nft[c][i].owner \in UsersOf(t)
       /\ \A a \in UsersOf(t) : (i \in t.idx[a][c]) <=> (a = t.nft[c][i].owner)
       /\ i \in DOMAIN t.coll[c] /\ t.coll[c][i].owner = t.nft[c][i].owner
  /\ \A a \in UsersOf(t) :
       /\ DOMAIN t.idx[a] = DOMAIN t.cls
       /\ \A c \in DOMAIN t.idx[a] : t.idx[a][c] \subseteq DOMAIN t.nft[c]
  /\ DOMAIN t.nft = DOMAIN t.cls

(* Transfer / edit / burn succeed only for the token's current owner ... *)
C14_ActOnlyOwner(s, e) ==
  (e.name \in TokenOps /\ e.ok) =>
    /\ HasNFT(s, e.cls, e.id)
    /\ s.nft[e.cls][e.id].owner = e.who

(* ... and no token changes (owner, metadata, existence) in any step other
   than a successful operation of its owner on that very token *)
C14_OthersUntouched(s, e, t) ==
  \A c \in DOMAIN s.nft : \A i \in DOMAIN s.nft[c] :
    (~HasNFT(t, c, i) \/ t.nft[c][i] # s.nft[c][i]) =>
      /\ e.name \in TokenOps /\ e.ok /\ e.cls = c /\ e.id = i
      /\ e.who = s.nft[c][i].owner
      /\ (~HasNFT(t, c, i)) => e.name = "BurnNFT"
      /\ (HasNFT(t, c, i) /\ t.nft[c][i].owner # s.nft[c][i].owner) => e.name = "TransferNFT"

(* Minting into a mint-restricted class only by its creator *)
C14_MintRestricted(s, e) ==
  (e.name = "MintNFT" /\ e.ok /\ HasClass(s, e.cls) /\ s.cls[e.cls].mintR) =>
    e.who = s.cls[e.cls].creator

(* Tokens of an update-restricted class never change their metadata; and a
   field passed as the do-not-modify sentinel is not modified in any class *)
C14_UpdateRestricted(s, e, t) ==
  /\ \A c \in DOMAIN s.cls : s.cls[c].updateR =>
       \A i \in DOMAIN s.nft[c] :
         HasNFT(t, c, i) => Meta(t.nft[c][i]) = Meta(s.nft[c][i])
  /\ (e.name \in {"EditNFT", "TransferNFT"} /\ e.ok /\ HasNFT(s, e.cls, e.id) /\ HasNFT(t, e.cls, e.id)) =>
       LET a == s.nft[e.cls][e.id]
           b == t.nft[e.cls][e.id]
       IN /\ (e.n = KEEP => b.n = a.n) /\ (e.u = KEEP => b.u = a.u)
          /\ (e.h = KEEP => b.h = a.h) /\ (e.d = KEEP => b.d = a.d)

(* A class changes hands only by its current creator; nothing but the creator
   changes, and nothing of a class changes in any other step *)
C14_ClassHandover(s, e, t) ==
  /\ (e.name = "TransferDenom" /\ e.ok) =>
       HasClass(s, e.cls) /\ s.cls[e.cls].creator = e.who
  /\ \A c \in DOMAIN s.cls :
       /\ HasClass(t, c)
       /\ (t.cls[c] # s.cls[c]) =>
            /\ e.name = "TransferDenom" /\ e.ok /\ e.cls = c
            /\ t.cls[c] = [s.cls[c] EXCEPT !.creator = t.cls[c].creator]

(* Ids: classes and tokens keep their ids (objects are keyed by id: an object
   that exists before and after a step is the same object unless the step
   burned it); a new class / token appears only through a successful issue /
   mint of exactly that id, which did not exist before (no reuse while it
   exists); a minted token — first mint or re-mint of a burned id — belongs
   to the recipient chosen by the minter *)
C14_Ids(s, e, t) ==
  /\ \A c \in DOMAIN t.cls : (~HasClass(s, c)) =>
       e.name = "IssueDenom" /\ e.ok /\ e.cls = c
  /\ (e.name = "IssueDenom" /\ e.ok) => ~HasClass(s, e.cls) /\ HasClass(t, e.cls)
  /\ \A c \in DOMAIN t.nft : \A i \in DOMAIN t.nft[c] : (~HasNFT(s, c, i)) =>
       /\ e.name = "MintNFT" /\ e.ok /\ e.cls = c /\ e.id = i
       /\ t.nft[c][i].owner = e.to
  /\ (e.name = "MintNFT" /\ e.ok) =>
       /\ HasClass(s, e.cls) /\ ~HasNFT(s, e.cls, e.id)
       /\ HasNFT(t, e.cls, e.id)

(* The reported supply of a class = number of its tokens = sum of all owners'
   balances (index entries and Supply(class, owner) query) *)
C14_Supply(t) ==
  \A c \in DOMAIN t.cls :
    /\ t.sup[c] = Cardinality(DOMAIN t.nft[c])
    /\ t.sup[c] = Cardinality(DOMAIN t.coll[c])
    /\ t.sup[c] = SumOver([a \in UsersOf(t) |-> Cardinality(t.idx[a][c])], UsersOf(t))
    /\ t.sup[c] = SumOver([a \in UsersOf(t) |-> t.bal[a][c]], UsersOf(t))

(* a rejected message changes nothing; the end of a block changes nothing *)
Rejected_NoEffect(s, e, t) ==
  (~e.ok \/ e.name = "EndBlock") => t = s

(* Diagnostics (not part of C14's statement; reported as "other"): the named
   recipient becomes the owner / creator, the collection query shows the
   same records as the per-token query *)
X14_Recipient(s, e, t) ==
  /\ (e.name = "TransferNFT" /\ e.ok /\ HasNFT(t, e.cls, e.id)) => t.nft[e.cls][e.id].owner = e.to
  /\ (e.name = "TransferDenom" /\ e.ok /\ HasClass(t, e.cls)) => t.cls[e.cls].creator = e.to
X14_Collection(t) == t.coll = t.nft
(* read-back fidelity (C14 does not state it): every metadata field of a mint
   is stored as submitted — name, uri, uri hash and data —, an edit / transfer
   sets exactly the fields that are not the sentinel, a class is stored with the
   submitted creator, flags and metadata (all seven class fields, see harness) *)
X14_Fidelity(s, e, t) ==
  /\ (e.name = "MintNFT" /\ e.ok /\ HasNFT(t, e.cls, e.id)) =>
       Meta(t.nft[e.cls][e.id]) = [n |-> e.n, u |-> e.u, h |-> e.h, d |-> e.d]
  /\ (e.name \in {"EditNFT", "TransferNFT"} /\ e.ok /\ HasNFT(s, e.cls, e.id) /\ HasNFT(t, e.cls, e.id)) =>
       LET a == s.nft[e.cls][e.id] IN
       Meta(t.nft[e.cls][e.id]) = [n |-> Modify(a.n, e.n), u |-> Modify(a.u, e.u),
                                   h |-> Modify(a.h, e.h), d |-> Modify(a.d, e.d)]
  /\ (e.name = "IssueDenom" /\ e.ok /\ HasClass(t, e.cls)) =>
       t.cls[e.cls] = [creator |-> e.who, mintR |-> e.mintR, updateR |-> e.updateR, meta |-> e.cmeta]

-----------------------------------------------------------------------------
(* Model-checking universe *)
Init0 ==
  [cls |-> EmptyF, nft |-> EmptyF, sup |-> EmptyF, coll |-> EmptyF,
   idx |-> [a \in Users |-> EmptyF], bal |-> [a \in Users |-> EmptyF]]

Init == st = Init0 /\ ev = NoEv /\ gh = GhostInit /\ hist = <<>>

E(name, who, c, id, to, mintR, updateR, cmeta, n, u, h, d) ==
  [name |-> name, who |-> who, cls |-> c, id |-> id, to |-> to,
   mintR |-> mintR, updateR |-> updateR, cmeta |-> cmeta,
   n |-> n, u |-> u, h |-> h, d |-> d, ok |-> TRUE, panic |-> FALSE]

Step(e) ==
  \* the singleton quantifier makes TLC evaluate Apply once per transition
  \E r \in {Apply(st, e)} :
    LET e2 == [e EXCEPT !.ok = r.ok, !.panic = r.panic] IN
    /\ st' = r.st
    /\ ev' = e2
    /\ gh' = GhostStep(gh, st, e2, r.st)
    /\ hist' = IF RecordHist THEN Append(hist, e2) ELSE hist

ArgVals(V) == V \cup {KEEP}
MintVals(V) == IF V = {} THEN {""} ELSE V    \* an empty value set: mint with "", never modify

IssueDenom ==
  \E who \in Creators, c \in Classes, mr \in BOOLEAN, ur \in BOOLEAN, m \in CMetaVals :
    Step(E("IssueDenom", who, c, "", "", mr, ur, m, KEEP, KEEP, KEEP, KEEP))
MintNFT ==
  \E who \in Users, tk \in Tokens, to \in Recipients,
     n \in MintVals(NameVals), u \in MintVals(UriVals), h \in MintVals(HashVals), d \in MintVals(DataVals) :
    Step(E("MintNFT", who, tk[1], tk[2], to, FALSE, FALSE, "", n, u, h, d))
EditNFT ==
  \E who \in Users, tk \in Tokens,
     n \in ArgVals(NameVals), u \in ArgVals(UriVals), h \in ArgVals(HashVals), d \in ArgVals(DataVals) :
    Step(E("EditNFT", who, tk[1], tk[2], "", FALSE, FALSE, "", n, u, h, d))
TransferNFT ==
  \E who \in Users, tk \in Tokens, to \in Recipients,
     n \in ArgVals(NameVals), u \in ArgVals(UriVals), h \in ArgVals(HashVals), d \in ArgVals(DataVals) :
    Step(E("TransferNFT", who, tk[1], tk[2], to, FALSE, FALSE, "", n, u, h, d))
BurnNFT ==
  \E who \in Users, tk \in Tokens :
    Step(E("BurnNFT", who, tk[1], tk[2], "", FALSE, FALSE, "", KEEP, KEEP, KEEP, KEEP))
TransferDenom ==
  \E who \in Users, c \in Classes, to \in Recipients :
    Step(E("TransferDenom", who, c, "", to, FALSE, FALSE, "", KEEP, KEEP, KEEP, KEEP))

Next == IssueDenom \/ MintNFT \/ EditNFT \/ TransferNFT \/ BurnNFT \/ TransferDenom

Spec == Init /\ [][Next]_vars

(* Generator: TLC as a source of behaviours to replay on the real code.
   Rejections are what half of the clauses are about, so they are allowed to
   make up to about a third of a history. *)
Rejects(h) == Cardinality({i \in DOMAIN h : ~h[i].ok})
GenNext == Next /\ (ev'.ok \/ 3 * Rejects(hist) <= Len(hist) + 2)
GenSpec == Init /\ [][GenNext]_vars
GenDepth == atoi(IOEnv.GEN_DEPTH)
GenConstraint ==
  /\ Len(hist) <= GenDepth
  /\ (Len(hist) = GenDepth) => PrintT(<<"BEHAVIOUR", ToJson(hist)>>)

-----------------------------------------------------------------------------
(* Clauses in checkable form *)
Inv_C14_Owner == C14_Owner(st)
Inv_C14_Supply == C14_Supply(st)
Inv_X14_Collection == X14_Collection(st)
Act_C14_ActOnlyOwner == [][C14_ActOnlyOwner(st, ev')]_vars
Act_C14_OthersUntouched == [][C14_OthersUntouched(st, ev', st')]_vars
Act_C14_MintRestricted == [][C14_MintRestricted(st, ev')]_vars
Act_C14_UpdateRestricted == [][C14_UpdateRestricted(st, ev', st')]_vars
Act_C14_ClassHandover == [][C14_ClassHandover(st, ev', st')]_vars
Act_C14_Ids == [][C14_Ids(st, ev', st')]_vars
Act_Rejected_NoEffect == [][Rejected_NoEffect(st, ev', st')]_vars
Act_X14_Recipient == [][X14_Recipient(st, ev', st')]_vars
Act_X14_Fidelity == [][X14_Fidelity(st, ev', st')]_vars

(* the last event and the ghosts are functions of the path, not of the state *)
View == st

(* token universes for the configurations (cfg files cannot write tuples) *)
Tokens_2x2 == {<<"cla", "tka">>, <<"cla", "tkb">>, <<"clb", "tka">>, <<"clb", "tkb">>}
Tokens_2p1 == {<<"cla", "tka">>, <<"cla", "tkb">>, <<"clb", "tka">>}
=============================================================================
