-------------------------------- MODULE NFT --------------------------------
(***************************************************************************)
(* irismod/modules/nft — classes ("denoms") and non-fungible tokens on top *)
(* of cosmossdk.io/x/nft.                                                  *)
(*                                                                         *)
(* Transcribed branch by branch from                                       *)
(*   keeper/msg_server.go (IssueDenom, MintNFT, EditNFT, TransferNFT,      *)
(*     BurnNFT, TransferDenom),                                            *)
(*   keeper/denom.go (SaveDenom, TransferDenomOwner, GetDenomInfo),        *)
(*   keeper/nft.go (SaveNFT, UpdateNFT, TransferOwnership, RemoveNFT,      *)
(*     Authorize), types/validation.go (Modified / Modify, DoNotModify),   *)
(*   and the SDK keeper underneath (x/nft keeper/nft.go, class.go: Mint,   *)
(*     Burn, Update, Transfer, setOwner / deleteOwner, incr/decr supply).  *)
(*                                                                         *)
(* State (what the stores hold, as the queries report it):                 *)
(*   cls[c]      = [creator, mintR, updateR, meta]        Denom query      *)
(*   nft[c][id]  = [owner, n, u, h, d]                    NFT query        *)
(*                 (token record + owner key; n/u/h/d = name, uri,         *)
(*                  uri hash, data as abstract strings)                    *)
(*   idx[a][c]   = set of ids      owner index, NFTsOfOwner query          *)
(*   sup[c]      = supply counter  Supply(class) query                     *)
(*   bal[a][c]   = Supply(class, owner) query (derived from the index)     *)
(*   coll[c]     = Collection(class) query (iteration over the nft store)  *)
(* The SDK keeps the token record, the owner key, the owner index and the  *)
(* supply counter as four separate store entries; the model updates them   *)
(* separately, exactly where the code does.                                *)
(***************************************************************************)
EXTENDS Integers, Sequences, FiniteSets, TLC, Util, Json, IOUtils

CONSTANTS
  Users,       \* accounts that sign messages
  Recipients,  \* accounts that can be named as recipients (subset of Users)
  Creators,    \* accounts that issue classes (subset of Users)
  Classes,     \* class ids
  Tokens,      \* the <<class id, token id>> pairs messages refer to
  NameVals, UriVals, HashVals, DataVals,   \* metadata values used as arguments
  CMetaVals,   \* class metadata values
  RecordHist   \* BOOLEAN: keep the event history (generator configs)

VARIABLES st, ev, gh, hist
vars == <<st, ev, gh, hist>>

KEEP == "keep"          \* the model's name for types.DoNotModify "[do-not-modify]"
NOBODY == ""            \* GetOwner of a token without owner key: empty address

UsersOf(t) == DOMAIN t.idx

(***************************************************************************)
(* Unusual inputs (round 7).  Ids are literal strings, identical in model  *)
(* and chain, except three abstract names the harness expands:             *)
(*   "L101" / "L102"  an id of 101 / 102 letters (the length limit, +1)    *)
(*   "SENT"           the do-not-modify sentinel "[do-not-modify]" as id   *)
(* types/validation.go cannot be evaluated on strings by TLC, so the       *)
(* outcome of ValidateDenomID / ValidateTokenID / ValidateKeywords /       *)
(* IsIBCDenom is tabulated for the ids the drivers use; every other id is  *)
(* an ordinary valid one ([a-z][a-zA-Z0-9/]{2,100}).                       *)
(***************************************************************************)
InvalidIds == {"", "ab", "Cla", "1la", "cl-a", "cl_a", "SENT", "L102"}   \* refused by the id pattern
TibcDash == {"tibc-abc"}    \* ValidateDenomID lets the prefix "tibc-" pass although the pattern refuses '-'
KeywordIds == {"ibc/abc", "ibcabc", "pegabc", "htltabc", "tibcabc", "tibc-abc"}   \* ValidateKeywords (issue only)
IbcIds == {"ibc/abc"}       \* IsIBCDenom: prefix "ibc/" (no mint by message)
BadClassId(c) == c \in InvalidIds
BadTokenId(i) == i \in InvalidIds \cup TibcDash
(* metadata values with a meaning: a uri of 256 / 257 characters (MaxTokenURILen
   = 256, checked by mint and edit, NOT by transfer), data that is not JSON *)
URI256 == "u256"
URI257 == "u257"
BADJSON == "badjson"
(* accounts that can be named but cannot sign: a module account ("mod" is the
   fee collector's address in the harness) *)
Unsignable == {"mod"}

NoEv == [name |-> "Init", who |-> "", cls |-> "", id |-> "", to |-> "",
         mintR |-> FALSE, updateR |-> FALSE, cmeta |-> "",
         n |-> KEEP, u |-> KEEP, h |-> KEEP, d |-> KEEP,
         ok |-> TRUE, panic |-> FALSE]

-----------------------------------------------------------------------------
(* Results.  why: reason of a rejection (diagnostics, known-finding keys) *)
Fail(s, w) == [ok |-> FALSE, panic |-> FALSE, st |-> s, why |-> w]
Done(s) == [ok |-> TRUE, panic |-> FALSE, st |-> s, why |-> ""]

HasClass(s, c) == c \in DOMAIN s.cls
HasNFT(s, c, id) == HasClass(s, c) /\ id \in DOMAIN s.nft[c]
(* x/nft GetOwner: the owner key, empty when there is none *)
OwnerOf(s, c, id) == IF HasNFT(s, c, id) THEN s.nft[c][id].owner ELSE NOBODY

(* types.Modified / types.Modify *)
Modified(x) == x # KEEP
Modify(old, x) == IF x = KEEP THEN old ELSE x

(* query results that are functions of the stores: Supply(class, owner) counts
   the index entries whose token exists; Collection walks the nft store and
   looks the owner up *)
WithQ(s) ==
  [s EXCEPT
     !.bal = [a \in DOMAIN s.idx |-> [c \in DOMAIN s.cls |->
                Cardinality({i \in s.idx[a][c] : i \in DOMAIN s.nft[c]})]],
     !.coll = s.nft]

(* x/nft setOwner / deleteOwner on the index part *)
IdxAdd(idx, a, c, id) == IF a \in DOMAIN idx THEN [idx EXCEPT ![a][c] = @ \cup {id}] ELSE idx
IdxDel(idx, a, c, id) == IF a \in DOMAIN idx THEN [idx EXCEPT ![a][c] = @ \ {id}] ELSE idx

(* msg_server.go IssueDenom -> denom.go SaveDenom -> x/nft SaveClass *)
DoIssueDenom(s, who, c, mintR, updateR, meta) ==
  IF who \in Unsignable THEN Fail(s, "unsignable")
  ELSE IF BadClassId(c) THEN Fail(s, "invalid_id")                \* ValidateBasic
  ELSE IF c \in KeywordIds THEN Fail(s, "keyword")
  ELSE IF HasClass(s, c) THEN Fail(s, "class_exists")
  ELSE Done(WithQ(
    [s EXCEPT
       !.cls = Put(s.cls, c, [creator |-> who, mintR |-> mintR, updateR |-> updateR, meta |-> meta]),
       !.nft = Put(s.nft, c, EmptyF),
       !.idx = [a \in DOMAIN s.idx |-> Put(s.idx[a], c, {})],
       !.sup = Put(s.sup, c, 0)]))

(* msg_server.go MintNFT -> nft.go SaveNFT -> x/nft Mint / mintWithNoCheck *)
DoMintNFT(s, who, c, id, to, n, u, h, d) ==
  IF who \in Unsignable THEN Fail(s, "unsignable")
  ELSE IF c \in IbcIds THEN Fail(s, "ibc_class")                       \* ValidateBasic: IsIBCDenom
  ELSE IF BadClassId(c) \/ BadTokenId(id) THEN Fail(s, "invalid_id")
  ELSE IF u = URI257 THEN Fail(s, "invalid_uri")
  ELSE IF d \in {KEEP, BADJSON} THEN Fail(s, "invalid_data")   \* ValidateBasic: the sentinel is not JSON
  ELSE IF ~HasClass(s, c) THEN Fail(s, "no_class")                      \* GetDenomInfo
  ELSE IF s.cls[c].mintR /\ s.cls[c].creator # who THEN Fail(s, "mint_restricted")
  ELSE IF HasNFT(s, c, id) THEN Fail(s, "nft_exists")              \* x/nft Mint
  ELSE Done(WithQ(
    [s EXCEPT
       !.nft[c] = Put(@, id, [owner |-> to, n |-> n, u |-> u, h |-> h, d |-> d]),   \* setNFT, setOwner
       !.idx = IdxAdd(@, to, c, id),
       !.sup[c] = @ + 1]))                                          \* incrTotalSupply

(* msg_server.go EditNFT -> nft.go UpdateNFT *)
DoEditNFT(s, who, c, id, n, u, h, d) ==
  IF who \in Unsignable THEN Fail(s, "unsignable")
  ELSE IF BadClassId(c) \/ BadTokenId(id) THEN Fail(s, "invalid_id")   \* ValidateBasic
  ELSE IF u = URI257 THEN Fail(s, "invalid_uri")
  ELSE IF d = BADJSON THEN Fail(s, "invalid_data")
  ELSE IF ~HasClass(s, c) THEN Fail(s, "no_class")
  ELSE IF s.cls[c].updateR THEN Fail(s, "update_restricted")
  ELSE IF OwnerOf(s, c, id) # who THEN Fail(s, "unauthorized")     \* Authorize
  ELSE IF ~Modified(u) /\ ~Modified(h) /\ ~Modified(n) /\ ~Modified(d) THEN Done(s)
  ELSE Done(WithQ(
    [s EXCEPT !.nft[c][id] = [@ EXCEPT !.n = Modify(@, n), !.u = Modify(@, u),
                                       !.h = Modify(@, h), !.d = Modify(@, d)]]))

(* msg_server.go TransferNFT -> nft.go TransferOwnership -> x/nft Update, Transfer *)
DoTransferNFT(s, who, c, id, to, n, u, h, d) ==
  IF who \in Unsignable THEN Fail(s, "unsignable")
  ELSE IF BadClassId(c) \/ BadTokenId(id) THEN Fail(s, "invalid_id")   \* ValidateBasic
  ELSE IF u = URI257 THEN Fail(s, "invalid_uri")                       \* since /repo 3rd fix of round 7 (F37): checked here too
  ELSE IF d = BADJSON THEN Fail(s, "invalid_data")
  ELSE IF ~HasNFT(s, c, id) THEN Fail(s, "no_nft")
  ELSE IF OwnerOf(s, c, id) # who THEN Fail(s, "unauthorized")
  ELSE
    LET changed == Modified(u) \/ Modified(h) \/ Modified(n) \/ Modified(d)
        old == s.nft[c][id]
        tok == IF changed
               THEN [old EXCEPT !.n = Modify(@, n), !.u = Modify(@, u),
                                !.h = Modify(@, h), !.d = Modify(@, d)]
               ELSE old
    IN
    IF s.cls[c].updateR /\ changed THEN Fail(s, "update_restricted")
    ELSE Done(WithQ(
      [s EXCEPT
         !.nft[c][id] = [tok EXCEPT !.owner = to],                  \* (Update,) setOwner
         !.idx = IdxAdd(IdxDel(@, old.owner, c, id), to, c, id)]))  \* deleteOwner, setOwner

(* msg_server.go BurnNFT -> nft.go RemoveNFT -> x/nft Burn / burnWithNoCheck *)
DoBurnNFT(s, who, c, id) ==
  IF who \in Unsignable THEN Fail(s, "unsignable")
  ELSE IF BadClassId(c) \/ BadTokenId(id) THEN Fail(s, "invalid_id")   \* ValidateBasic
  ELSE IF OwnerOf(s, c, id) # who THEN Fail(s, "unauthorized")
  ELSE Done(WithQ(
    [s EXCEPT
       !.nft[c] = Del(@, id),
       !.idx = IdxDel(@, who, c, id),
       !.sup[c] = @ - 1]))                                          \* decrTotalSupply

(* msg_server.go TransferDenom -> denom.go TransferDenomOwner -> x/nft UpdateClass *)
DoTransferDenom(s, who, c, to) ==
  IF who \in Unsignable THEN Fail(s, "unsignable")
  ELSE IF BadClassId(c) THEN Fail(s, "invalid_id")                       \* ValidateBasic
  ELSE IF ~HasClass(s, c) THEN Fail(s, "no_class")
  ELSE IF s.cls[c].creator # who THEN Fail(s, "unauthorized")
  ELSE Done([s EXCEPT !.cls[c].creator = to])

(* Dispatch on an event record: the deterministic step function.  EndBlock is
   only a point of observation (the module has no block handlers). *)
Apply(s, e) ==
  CASE e.name = "IssueDenom"    -> DoIssueDenom(s, e.who, e.cls, e.mintR, e.updateR, e.cmeta)
    [] e.name = "MintNFT"       -> DoMintNFT(s, e.who, e.cls, e.id, e.to, e.n, e.u, e.h, e.d)
    [] e.name = "EditNFT"       -> DoEditNFT(s, e.who, e.cls, e.id, e.n, e.u, e.h, e.d)
    [] e.name = "TransferNFT"   -> DoTransferNFT(s, e.who, e.cls, e.id, e.to, e.n, e.u, e.h, e.d)
    [] e.name = "BurnNFT"       -> DoBurnNFT(s, e.who, e.cls, e.id)
    [] e.name = "TransferDenom" -> DoTransferDenom(s, e.who, e.cls, e.to)
    [] e.name = "EndBlock"      -> Done(s)
    [] OTHER -> Fail(s, "unknown")

-----------------------------------------------------------------------------
(* Ghosts.  Coverage counters (no clause depends on them):
   burned = tokens <<c, id>> burned at least once, handed = classes that were
   handed over, exOwner = <<c, id, a>>: a owned token (c, id) before (it was
   transferred away or burned), exCreator = <<c, a>>: a was the creator of c
   before.  Computed from the observed (s, e, t) only.

   The HISTORY's ledger (audit after round 7; read by the C14_Hist* clauses):
   what the accepted messages say, never what the store says.
     own[<<c, id>>]  the owner the accepted messages gave token (c, id): the
                     recipient of its last accepted mint / transfer; gone
                     after an accepted burn
     hcls[c]         [creator, mintR, updateR] of class c: the sender and the
                     flags of the accepted issue, the creator replaced by the
                     recipient of every accepted handover
   Both start from the state a history starts in (GhostOf) - a genesis state
   may hold classes and tokens - and are advanced from the EVENT alone. *)
AllTokens(t) == UNION {{<<c, i>> : i \in DOMAIN t.nft[c]} : c \in DOMAIN t.nft}

GhostOf(t) ==
  [burned |-> {}, handed |-> {}, exOwner |-> {}, exCreator |-> {},
   own |-> [x \in AllTokens(t) |-> t.nft[x[1]][x[2]].owner],
   hcls |-> [c \in DOMAIN t.cls |->
               [creator |-> t.cls[c].creator, mintR |-> t.cls[c].mintR, updateR |-> t.cls[c].updateR]]]

HistOwn(own, e) ==
  IF ~e.ok THEN own
  ELSE IF e.name \in {"MintNFT", "TransferNFT"} THEN Put(own, <<e.cls, e.id>>, e.to)
  ELSE IF e.name = "BurnNFT" THEN Del(own, <<e.cls, e.id>>)
  ELSE own
HistCls(hcls, e) ==
  IF ~e.ok THEN hcls
  ELSE IF e.name = "IssueDenom"
    THEN Put(hcls, e.cls, [creator |-> e.who, mintR |-> e.mintR, updateR |-> e.updateR])
  ELSE IF e.name = "TransferDenom" /\ e.cls \in DOMAIN hcls THEN [hcls EXCEPT ![e.cls].creator = e.to]
  ELSE hcls

GhostStep(g, s, e, t) ==
  [burned |-> g.burned \cup (AllTokens(s) \ AllTokens(t)),
   handed |-> g.handed \cup {c \in DOMAIN s.cls : c \in DOMAIN t.cls /\ t.cls[c].creator # s.cls[c].creator},
   exOwner |-> g.exOwner, exCreator |-> g.exCreator,
   own |-> HistOwn(g.own, e), hcls |-> HistCls(g.hcls, e)]
(* coverage ghosts, maintained by the trace specification only *)
CovStep(g, s, e, t) ==
  [GhostStep(g, s, e, t) EXCEPT
     !.exOwner = g.exOwner \cup
       {<<x[1], x[2], s.nft[x[1]][x[2]].owner>> : x \in
          {y \in AllTokens(s) : ~HasNFT(t, y[1], y[2]) \/ t.nft[y[1]][y[2]].owner # s.nft[y[1]][y[2]].owner}},
     !.exCreator = g.exCreator \cup
       {<<c, s.cls[c].creator>> : c \in {d \in DOMAIN s.cls : d \in DOMAIN t.cls /\ t.cls[d].creator # s.cls[d].creator}}]

-----------------------------------------------------------------------------
(***************************************************************************)
(* Property clauses (C14).  State clauses take the state t; step clauses   *)
(* take (s, e, t) = pre-state, event with result, post-state.              *)
(***************************************************************************)
Meta(r) == [n |-> r.n, u |-> r.u, h |-> r.h, d |-> r.d]
TokenOps == {"TransferNFT", "EditNFT", "BurnNFT"}

(* Every existing token has exactly one owner (an account, never the empty
   address) and appears in exactly that owner's index; the index lists no
   token that does not exist; the collection query reports the same owner. *)
C14_Owner(t) ==
  /\ \A c \in DOMAIN t.nft : \A i \in DOMAIN t.nft[c] :
       /\ t.nft[c][i].owner \in UsersOf(t)
       /\ \A a \in UsersOf(t) : (i \in t.idx[a][c]) <=> (a = t.nft[c][i].owner)
       /\ i \in DOMAIN t.coll[c] /\ t.coll[c][i].owner = t.nft[c][i].owner
  /\ \A a \in UsersOf(t) :
       /\ DOMAIN t.idx[a] = DOMAIN t.cls
       /\ \A c \in DOMAIN t.idx[a] : t.idx[a][c] \subseteq DOMAIN t.nft[c]
  /\ DOMAIN t.nft = DOMAIN t.cls

(* Transfer / edit / burn succeed only for the token's current owner ... *)
C14_ActOnlyOwner(s, e) ==
  (e.name \in TokenOps /\ e.ok) =>
    /\ HasNFT(s, e.cls, e.id)
    /\ s.nft[e.cls][e.id].owner = e.who

(* ... and no token changes (owner, metadata, existence) in any step other
   than a successful operation of its owner on that very token *)
C14_OthersUntouched(s, e, t) ==
  \A c \in DOMAIN s.nft : \A i \in DOMAIN s.nft[c] :
    (~HasNFT(t, c, i) \/ t.nft[c][i] # s.nft[c][i]) =>
      /\ e.name \in TokenOps /\ e.ok /\ e.cls = c /\ e.id = i
      /\ e.who = s.nft[c][i].owner
      /\ (~HasNFT(t, c, i)) => e.name = "BurnNFT"
      /\ (HasNFT(t, c, i) /\ t.nft[c][i].owner # s.nft[c][i].owner) => e.name = "TransferNFT"

(* Minting into a mint-restricted class only by its creator *)
C14_MintRestricted(s, e) ==
  (e.name = "MintNFT" /\ e.ok /\ HasClass(s, e.cls) /\ s.cls[e.cls].mintR) =>
    e.who = s.cls[e.cls].creator

(* Tokens of an update-restricted class never change their metadata; and a
   field passed as the do-not-modify sentinel is not modified in any class *)
C14_UpdateRestricted(s, e, t) ==
  /\ \A c \in DOMAIN s.cls : s.cls[c].updateR =>
       \A i \in DOMAIN s.nft[c] :
         HasNFT(t, c, i) => Meta(t.nft[c][i]) = Meta(s.nft[c][i])
  /\ (e.name \in {"EditNFT", "TransferNFT"} /\ e.ok /\ HasNFT(s, e.cls, e.id) /\ HasNFT(t, e.cls, e.id)) =>
       LET a == s.nft[e.cls][e.id]
           b == t.nft[e.cls][e.id]
       IN /\ (e.n = KEEP => b.n = a.n) /\ (e.u = KEEP => b.u = a.u)
          /\ (e.h = KEEP => b.h = a.h) /\ (e.d = KEEP => b.d = a.d)

(* A class changes hands only by its current creator; nothing but the creator
   changes, and nothing of a class changes in any other step *)
C14_ClassHandover(s, e, t) ==
  /\ (e.name = "TransferDenom" /\ e.ok) =>
       HasClass(s, e.cls) /\ s.cls[e.cls].creator = e.who
  /\ \A c \in DOMAIN s.cls :
       /\ HasClass(t, c)
       /\ (t.cls[c] # s.cls[c]) =>
            /\ e.name = "TransferDenom" /\ e.ok /\ e.cls = c
            /\ t.cls[c] = [s.cls[c] EXCEPT !.creator = t.cls[c].creator]

(* Ids: classes and tokens keep their ids (objects are keyed by id: an object
   that exists before and after a step is the same object unless the step
   burned it); a new class / token appears only through a successful issue /
   mint of exactly that id, which did not exist before (no reuse while it
   exists); a minted token — first mint or re-mint of a burned id — belongs
   to the recipient chosen by the minter *)
C14_Ids(s, e, t) ==
  /\ \A c \in DOMAIN t.cls : (~HasClass(s, c)) =>
       e.name = "IssueDenom" /\ e.ok /\ e.cls = c
  /\ (e.name = "IssueDenom" /\ e.ok) => ~HasClass(s, e.cls) /\ HasClass(t, e.cls)
  /\ \A c \in DOMAIN t.nft : \A i \in DOMAIN t.nft[c] : (~HasNFT(s, c, i)) =>
       /\ e.name = "MintNFT" /\ e.ok /\ e.cls = c /\ e.id = i
       /\ t.nft[c][i].owner = e.to
  /\ (e.name = "MintNFT" /\ e.ok) =>
       /\ HasClass(s, e.cls) /\ ~HasNFT(s, e.cls, e.id)
       /\ HasNFT(t, e.cls, e.id)

(* The reported supply of a class = number of its tokens = sum of all owners'
   balances (index entries and Supply(class, owner) query) *)
C14_Supply(t) ==
  \A c \in DOMAIN t.cls :
    /\ t.sup[c] = Cardinality(DOMAIN t.nft[c])
    /\ t.sup[c] = Cardinality(DOMAIN t.coll[c])
    /\ t.sup[c] = SumOver([a \in UsersOf(t) |-> Cardinality(t.idx[a][c])], UsersOf(t))
    /\ t.sup[c] = SumOver([a \in UsersOf(t) |-> t.bal[a][c]], UsersOf(t))

(***************************************************************************)
(* The same statements judged from the HISTORY (audit after round 7).  The  *)
(* clauses above read their antecedents and expected values from the        *)
(* module's own records: "the current owner" is the owner key, "a mint-     *)
(* restricted class" is the stored flag, "its creator" the stored creator.  *)
(* A defect that writes one of these wrongly (a flag that is never stored,  *)
(* a transfer that records somebody else, a burn that removes nothing)      *)
(* makes them vacuous or equally wrong on both sides.  The twins below take *)
(* the same antecedents and expected values from the ledger of the accepted *)
(* messages (ghosts own, hcls): g = the ledger BEFORE the event in          *)
(* C14_HistAct / C14_HistRestricted, the ledger AFTER it in C14_HistOwner / *)
(* C14_HistSupply.                                                          *)
(***************************************************************************)
HistTokensOf(g, c) == {x \in DOMAIN g.own : x[1] = c}

(* Every token the accepted messages created and did not burn exists, nothing
   else does, and its one owner is the account the accepted messages gave it
   to; the classes are the issued ones and a class is in the hands the accepted
   messages put it in *)
C14_HistOwner(t, g) ==
  /\ AllTokens(t) = DOMAIN g.own
  /\ \A x \in DOMAIN g.own : HasNFT(t, x[1], x[2]) => t.nft[x[1]][x[2]].owner = g.own[x]
  /\ DOMAIN t.cls = DOMAIN g.hcls
  /\ \A c \in DOMAIN g.hcls : HasClass(t, c) => t.cls[c].creator = g.hcls[c].creator

(* An accepted transfer / edit / burn comes from the account the history made
   the owner; an accepted mint names an issued class and a token that does not
   exist (no reuse while it exists) and, when the class was ISSUED mint-
   restricted, comes from the account the history made its creator; an accepted
   handover comes from that account; an accepted issue names a new class id *)
C14_HistAct(e, g) ==
  /\ (e.name \in TokenOps /\ e.ok) =>
       <<e.cls, e.id>> \in DOMAIN g.own /\ g.own[<<e.cls, e.id>>] = e.who
  /\ (e.name = "MintNFT" /\ e.ok) =>
       /\ e.cls \in DOMAIN g.hcls /\ <<e.cls, e.id>> \notin DOMAIN g.own
       /\ g.hcls[e.cls].mintR => e.who = g.hcls[e.cls].creator
  /\ (e.name = "TransferDenom" /\ e.ok) =>
       e.cls \in DOMAIN g.hcls /\ g.hcls[e.cls].creator = e.who
  /\ (e.name = "IssueDenom" /\ e.ok) => e.cls \notin DOMAIN g.hcls

(* Tokens of a class that was ISSUED update-restricted never change their
   metadata *)
C14_HistRestricted(s, t, g) ==
  \A c \in DOMAIN g.hcls : (g.hcls[c].updateR /\ c \in DOMAIN s.nft) =>
    \A i \in DOMAIN s.nft[c] : HasNFT(t, c, i) => Meta(t.nft[c][i]) = Meta(s.nft[c][i])

(* The reported supply of a class = the number of tokens the accepted messages
   minted into it and did not burn = the sum of all owners' reported balances *)
C14_HistSupply(t, g) ==
  \A c \in DOMAIN g.hcls :
    LET n == Cardinality(HistTokensOf(g, c)) IN
    /\ c \in DOMAIN t.sup /\ t.sup[c] = n
    /\ \A a \in UsersOf(t) : c \in DOMAIN t.bal[a]
    /\ (\A a \in UsersOf(t) : c \in DOMAIN t.bal[a]) =>
         SumOver([a \in UsersOf(t) |-> t.bal[a][c]], UsersOf(t)) = n

(***************************************************************************)
(* The same statements on the RAW STORE (round 7).  The harness scans the   *)
(* nft store after every event and logs, next to the query results above,  *)
(*   r.cls          the class keys                       (0x01 <class>)    *)
(*   r.tok[c][i]    the token records of class c, each with the address    *)
(*                  under its owner key, "" if none      (0x02, 0x04)      *)
(*   r.own[c]       the ids that have an owner key       (0x04)            *)
(*   r.idx[a][c]    the owner-index entries of address a (0x03) - ALL      *)
(*                  addresses, also those outside the account universe     *)
(*   r.sup[c]       the supply counters                  (0x05)            *)
(* Queries filter (NFTsOfOwner and Supply(class, owner) skip index entries *)
(* whose token record is gone; the closed universe hides ids and addresses *)
(* nobody asked for); the store does not.  In the model the queries are    *)
(* functions of the stores, so these clauses are evaluated on traces only. *)
(***************************************************************************)
RawTok(r, c) == IF c \in DOMAIN r.tok THEN r.tok[c] ELSE EmptyF
RawIdx(r, a, c) == IF a \in DOMAIN r.idx /\ c \in DOMAIN r.idx[a] THEN r.idx[a][c] ELSE {}
RawClasses(r) == r.cls \cup DOMAIN r.tok \cup UNION {DOMAIN r.idx[a] : a \in DOMAIN r.idx}

(* Every token record has exactly one owner: an owner key, and the token is
   listed in the owner index of exactly that address *)
C14_StoreOwner(r) ==
  \A c \in DOMAIN r.tok : \A i \in DOMAIN r.tok[c] :
    /\ r.tok[c][i] # NOBODY
    /\ {a \in DOMAIN r.idx : i \in RawIdx(r, a, c)} = {r.tok[c][i]}

(* The reported supply of a class = the number of its token records = the sum
   of all owners' holdings in the store; every account's reported balance =
   the number of token records it owns *)
C14_StoreSupply(t, r) ==
  \A c \in RawClasses(r) \cup DOMAIN t.cls :
    LET n == Cardinality(DOMAIN RawTok(r, c)) IN
    /\ c \in DOMAIN t.sup /\ t.sup[c] = n
    /\ n = SumOver([a \in DOMAIN r.idx |-> Cardinality(RawIdx(r, a, c))], DOMAIN r.idx)
    /\ \A a \in UsersOf(t) :
         /\ c \in DOMAIN t.bal[a]
         /\ t.bal[a][c] = Cardinality({i \in DOMAIN RawTok(r, c) : r.tok[c][i] = a})

(* Diagnostics on the store: nothing is left behind (no index entry, owner key
   or supply counter without its token / class), and every read path agrees
   with the store: the paginated class list, the per-token query, the paginated
   collection and the owner index read as a whole and class by class *)
X14_StoreTidy(r) ==
  /\ \A a \in DOMAIN r.idx : \A c \in DOMAIN r.idx[a] : r.idx[a][c] \subseteq DOMAIN RawTok(r, c)
  /\ \A c \in DOMAIN r.own : r.own[c] \subseteq DOMAIN RawTok(r, c)
  /\ DOMAIN r.tok \subseteq r.cls
  /\ \A c \in DOMAIN r.sup : r.sup[c] = Cardinality(DOMAIN RawTok(r, c))
X14_ReadBack(t, r, q) ==
  /\ DOMAIN t.cls = r.cls /\ q.denoms = r.cls
  /\ \A c \in r.cls \cap DOMAIN t.cls :
       /\ DOMAIN t.nft[c] = DOMAIN RawTok(r, c)
       /\ DOMAIN t.coll[c] = DOMAIN RawTok(r, c)
       /\ \A i \in DOMAIN t.nft[c] : i \in DOMAIN RawTok(r, c) => t.nft[c][i].owner = r.tok[c][i]
       /\ \A a \in UsersOf(t) :
            /\ t.idx[a][c] = {i \in RawIdx(r, a, c) : i \in DOMAIN RawTok(r, c)}
            /\ q.idxc[a][c] = t.idx[a][c]

(* a rejected message changes nothing; the end of a block changes nothing *)
Rejected_NoEffect(s, e, t) ==
  (~e.ok \/ e.name = "EndBlock") => t = s

(* Diagnostics (not part of C14's statement; reported as "other"): the named
   recipient becomes the owner / creator, the collection query shows the
   same records as the per-token query *)
X14_Recipient(s, e, t) ==
  /\ (e.name = "TransferNFT" /\ e.ok /\ HasNFT(t, e.cls, e.id)) => t.nft[e.cls][e.id].owner = e.to
  /\ (e.name = "TransferDenom" /\ e.ok /\ HasClass(t, e.cls)) => t.cls[e.cls].creator = e.to
X14_Collection(t) == t.coll = t.nft
(* read-back fidelity (C14 does not state it): every metadata field of a mint
   is stored as submitted — name, uri, uri hash and data —, an edit / transfer
   sets exactly the fields that are not the sentinel, a class is stored with the
   submitted creator, flags and metadata (all seven class fields, see harness) *)
X14_Fidelity(s, e, t) ==
  /\ (e.name = "MintNFT" /\ e.ok /\ HasNFT(t, e.cls, e.id)) =>
       Meta(t.nft[e.cls][e.id]) = [n |-> e.n, u |-> e.u, h |-> e.h, d |-> e.d]
  /\ (e.name \in {"EditNFT", "TransferNFT"} /\ e.ok /\ HasNFT(s, e.cls, e.id) /\ HasNFT(t, e.cls, e.id)) =>
       LET a == s.nft[e.cls][e.id] IN
       Meta(t.nft[e.cls][e.id]) = [n |-> Modify(a.n, e.n), u |-> Modify(a.u, e.u),
                                   h |-> Modify(a.h, e.h), d |-> Modify(a.d, e.d)]
  /\ (e.name = "IssueDenom" /\ e.ok /\ HasClass(t, e.cls)) =>
       t.cls[e.cls] = [creator |-> e.who, mintR |-> e.mintR, updateR |-> e.updateR, meta |-> e.cmeta]

-----------------------------------------------------------------------------
(* Model-checking universe *)
Accounts == Users \cup Recipients      \* the tracked accounts (signers and recipient-only ones)
InitEmpty ==
  [cls |-> EmptyF, nft |-> EmptyF, sup |-> EmptyF, coll |-> EmptyF,
   idx |-> [a \in Accounts |-> EmptyF], bal |-> [a \in Accounts |-> EmptyF]]
(* An IBC-style class cannot be issued by message (keyword) - it arrives through
   genesis / the nft-transfer application.  When the universe names one, the
   history starts with it in place (harness: driver cfg pre=1 puts the same
   collection into the genesis state): class "ibc/abc" of u2, no restriction,
   holding token "tka" of u1. *)
PreClass == "ibc/abc"
InitPre ==
  WithQ([InitEmpty EXCEPT
           !.cls = (PreClass :> [creator |-> "u2", mintR |-> FALSE, updateR |-> FALSE, meta |-> "m"]),
           !.nft = (PreClass :> ("tka" :> [owner |-> "u1", n |-> "a", u |-> "x", h |-> "", d |-> ""])),
           !.idx = [a \in Accounts |-> (PreClass :> (IF a = "u1" THEN {"tka"} ELSE {}))],
           !.sup = (PreClass :> 1)])
Init0 == IF PreClass \in Classes THEN InitPre ELSE InitEmpty

Init == st = Init0 /\ ev = NoEv /\ gh = GhostOf(Init0) /\ hist = <<>>

E(name, who, c, id, to, mintR, updateR, cmeta, n, u, h, d) ==
  [name |-> name, who |-> who, cls |-> c, id |-> id, to |-> to,
   mintR |-> mintR, updateR |-> updateR, cmeta |-> cmeta,
   n |-> n, u |-> u, h |-> h, d |-> d, ok |-> TRUE, panic |-> FALSE]

Step(e) ==
  \* the singleton quantifier makes TLC evaluate Apply once per transition
  \E r \in {Apply(st, e)} :
    LET e2 == [e EXCEPT !.ok = r.ok, !.panic = r.panic] IN
    /\ st' = r.st
    /\ ev' = e2
    /\ gh' = GhostStep(gh, st, e2, r.st)
    /\ hist' = IF RecordHist THEN Append(hist, e2) ELSE hist

ArgVals(V) == V \cup {KEEP}
MintVals(V) == IF V = {} THEN {""} ELSE V    \* an empty value set: mint with "", never modify
MintData == IF DataVals \subseteq {BADJSON} THEN {""} \cup DataVals ELSE DataVals

(* who may be named as sender: the signers, and (probe universes) accounts
   that can only receive *)
Senders == Users \cup (Recipients \cap Unsignable)
IssueDenom ==
  \E who \in Creators, c \in Classes, mr \in BOOLEAN, ur \in BOOLEAN, m \in CMetaVals :
    Step(E("IssueDenom", who, c, "", "", mr, ur, m, KEEP, KEEP, KEEP, KEEP))
MintNFT ==
  \E who \in Senders, tk \in Tokens, to \in Recipients,
     n \in MintVals(NameVals), u \in MintVals(UriVals), h \in MintVals(HashVals), d \in MintData :
    Step(E("MintNFT", who, tk[1], tk[2], to, FALSE, FALSE, "", n, u, h, d))
EditNFT ==
  \E who \in Senders, tk \in Tokens,
     n \in ArgVals(NameVals), u \in ArgVals(UriVals), h \in ArgVals(HashVals), d \in ArgVals(DataVals) :
    Step(E("EditNFT", who, tk[1], tk[2], "", FALSE, FALSE, "", n, u, h, d))
TransferNFT ==
  \E who \in Senders, tk \in Tokens, to \in Recipients,
     n \in ArgVals(NameVals), u \in ArgVals(UriVals), h \in ArgVals(HashVals), d \in ArgVals(DataVals) :
    Step(E("TransferNFT", who, tk[1], tk[2], to, FALSE, FALSE, "", n, u, h, d))
BurnNFT ==
  \E who \in Senders, tk \in Tokens :
    Step(E("BurnNFT", who, tk[1], tk[2], "", FALSE, FALSE, "", KEEP, KEEP, KEEP, KEEP))
TransferDenom ==
  \E who \in Senders, c \in Classes, to \in Recipients :
    Step(E("TransferDenom", who, c, "", to, FALSE, FALSE, "", KEEP, KEEP, KEEP, KEEP))

Next == IssueDenom \/ MintNFT \/ EditNFT \/ TransferNFT \/ BurnNFT \/ TransferDenom

Spec == Init /\ [][Next]_vars

(* Generator: TLC as a source of behaviours to replay on the real code.
   Rejections are what half of the clauses are about, so they are allowed to
   make up to about a third of a history. *)
Rejects(h) == Cardinality({i \in DOMAIN h : ~h[i].ok})
GenNext == Next /\ (ev'.ok \/ 3 * Rejects(hist) <= Len(hist) + 2)
GenSpec == Init /\ [][GenNext]_vars
GenDepth == atoi(IOEnv.GEN_DEPTH)
(* Second generator mode (negative probing): like GenNext, but the last
   ProbeLen events of every behaviour are events the specification REJECTS -
   a deep state (classes with their flags, handed over or not; tokens minted,
   moved, burned, minted again) probed with operations that must fail.  The
   first two of them are refusals that depend on the state (not on the shape
   of the message alone); the last two may be any refusal.  The driver appends
   its epilogue, computed from the REAL chain state. *)
ProbeLen == 4
BasicWhys == {"unsignable", "invalid_id", "keyword", "ibc_class", "invalid_uri", "invalid_data"}
GenNextP ==
  /\ Next
  /\ IF Len(hist) < GenDepth - ProbeLen
     THEN ev'.ok \/ 4 * Rejects(hist) <= Len(hist) + 2
     ELSE /\ ~ev'.ok
          /\ (Len(hist) < GenDepth - 2) => Apply(st, ev').why \notin BasicWhys
          \* TLC prints every successor of the last state (and the orchestrator keeps three of
          \* them): the very last probe stays with the sender, class and token of the one before
          /\ (Len(hist) = GenDepth - 1) =>
               /\ ev'.who = hist[Len(hist)].who /\ ev'.cls = hist[Len(hist)].cls
               /\ ev'.id \in {hist[Len(hist)].id, ""}
GenSpecP == Init /\ [][GenNextP]_vars
GenConstraint ==
  /\ Len(hist) <= GenDepth
  /\ (Len(hist) = GenDepth) => PrintT(<<"BEHAVIOUR", ToJson(hist)>>)

-----------------------------------------------------------------------------
(* Clauses in checkable form *)
Inv_C14_Owner == C14_Owner(st)
Inv_C14_Supply == C14_Supply(st)
Inv_X14_Collection == X14_Collection(st)
Act_C14_ActOnlyOwner == [][C14_ActOnlyOwner(st, ev')]_vars
Act_C14_OthersUntouched == [][C14_OthersUntouched(st, ev', st')]_vars
Act_C14_MintRestricted == [][C14_MintRestricted(st, ev')]_vars
Act_C14_UpdateRestricted == [][C14_UpdateRestricted(st, ev', st')]_vars
Act_C14_ClassHandover == [][C14_ClassHandover(st, ev', st')]_vars
Act_C14_Ids == [][C14_Ids(st, ev', st')]_vars
Act_Rejected_NoEffect == [][Rejected_NoEffect(st, ev', st')]_vars
Inv_C14_HistOwner == C14_HistOwner(st, gh)
Inv_C14_HistSupply == C14_HistSupply(st, gh)
Act_C14_HistAct == [][C14_HistAct(ev', gh)]_vars
Act_C14_HistRestricted == [][C14_HistRestricted(st, st', gh)]_vars
Act_X14_Recipient == [][X14_Recipient(st, ev', st')]_vars
Act_X14_Fidelity == [][X14_Fidelity(st, ev', st')]_vars

(* the last event and the ghosts are functions of the path, not of the state *)
View == st

(* token universes for the configurations (cfg files cannot write tuples) *)
Tokens_2x2 == {<<"cla", "tka">>, <<"cla", "tkb">>, <<"clb", "tka">>, <<"clb", "tkb">>}
Tokens_2p1 == {<<"cla", "tka">>, <<"cla", "tkb">>, <<"clb", "tka">>}
(* probe universe: ids that are prefixes of one another or differ in case only,
   a token id equal to a class id, the IBC-style class, ids at / beyond the
   length limit, the sentinel as an id, an id the pattern refuses *)
Classes_probe == {"cla", "clab", "clA", "ibc/abc", "L101", "ab", "ibcabc"}
Tokens_probe == {<<"cla", "tka">>, <<"cla", "tkab">>, <<"cla", "tkA">>, <<"cla", "cla">>, <<"clab", "tka">>,
                 <<"clA", "tka">>, <<"ibc/abc", "tka">>, <<"ibc/abc", "tkab">>, <<"L101", "L101">>,
                 <<"cla", "L102">>, <<"cla", "SENT">>, <<"ab", "tka">>, <<"SENT", "tka">>}
=============================================================================
