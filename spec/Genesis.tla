------------------------------ MODULE Genesis ------------------------------
(***************************************************************************)
(* C12 — exported state re-imports and preserves what users rely on.       *)
(*                                                                         *)
(* The abstract content of a chain is, per module, a finite map of durable *)
(* user-visible objects (pools, stakes, open contracts, tokens, holdings,  *)
(* definitions/bindings/contexts, feeds, pending requests, records), the   *)
(* module's id counter, and a time queue that is *not* part of the genesis *)
(* format and has to be rebuilt by the import.  An object is               *)
(*      [v, due, run, fl]                                                  *)
(*   v    its content (what the queries answer)                            *)
(*   due  the height at which the chain processes it (0 = never)           *)
(*   run  running / paused (contexts, feeds)                               *)
(*   fl   an in-flight item (a service request awaiting its response):     *)
(*        not in the property's list of durable objects                    *)
(*                                                                         *)
(* A history (Advance) creates, changes, closes objects and lets time      *)
(* pass; at any point the state may be exported (as it is, or after the    *)
(* modules' prepare-for-zero-height step), imported into a fresh chain and *)
(* exported again.  The result of one round trip is the event              *)
(* GenesisRoundTrip; an as-is import then keeps executing the same history *)
(* as its source (events Continuation).  The three clauses of the property *)
(* are stated on these events, so that the very same text judges the       *)
(* model (TLC, exhaustively) and the real code (GenesisTrace.tla over the  *)
(* events the harness logs).                                               *)
(*                                                                         *)
(* ZeroHeight(m, objs, h) is what each module *documents* about its        *)
(* zero-height export; it is the precise meaning of "only in-flight items  *)
(* that a module documents as dropped on export may differ":               *)
(*   rebase (htlc, random)   due -> due - h + 1                            *)
(*   pause  (service, oracle) in-flight items dropped (refunded), every    *)
(*                            context / feed paused                        *)
(*   plain  (all others)     nothing may differ                            *)
(***************************************************************************)
EXTENDS Integers, Sequences, FiniteSets, TLC

CONSTANTS
  Modules,    \* the modules modelled (names of irismod modules)
  MaxIds,     \* objects ever created per module; ids 1..MaxIds are never reused
  Vals,       \* abstract contents
  MaxH,       \* last height explored
  MaxDue,     \* an object falls due at most MaxDue blocks after its creation
  Defect,     \* "none", or a deliberately planted defect (binding self-test)
  DefectMod   \* the module carrying the defect

VARIABLES src, gen, imp, ev
vars == <<src, gen, imp, ev>>

AllModules == {"coinswap", "farm", "htlc", "mt", "nft", "oracle", "random", "record", "service", "token"}
ModOrder == <<"coinswap", "farm", "htlc", "mt", "nft", "oracle", "random", "record", "service", "token">>

Class(m) == CASE m \in {"htlc", "random"} -> "rebase"
              [] m \in {"service", "oracle"} -> "pause"
              [] OTHER -> "plain"

Put(f, k, x) == [y \in (DOMAIN f) \cup {k} |-> IF y = k THEN x ELSE f[y]]
Restrict(f, S) == [y \in S |-> f[y]]
SetMax(S) == CHOOSE x \in S : \A y \in S : x >= y
MaxVal == SetMax(Vals)

NoObj == [v |-> 0, due |-> 0, run |-> FALSE, fl |-> FALSE]

-----------------------------------------------------------------------------
(* A chain *)
EmptyChain == [h |-> 0,
               objs |-> [m \in Modules |-> <<>>],
               seq |-> [m \in Modules |-> 0],
               queue |-> [m \in Modules |-> {}]]

(* what a user can create in module m at height h *)
NewObjs(m, h) ==
  CASE Class(m) = "rebase" ->
         {[v |-> v, due |-> h + d, run |-> TRUE, fl |-> FALSE] : v \in Vals, d \in 1..MaxDue}
    [] Class(m) = "pause" ->
         {[v |-> v, due |-> 0, run |-> r, fl |-> FALSE] : v \in Vals, r \in BOOLEAN}
         \cup {[v |-> v, due |-> h + d, run |-> TRUE, fl |-> TRUE] : v \in Vals, d \in 1..MaxDue}
    [] OTHER ->
         {[v |-> v, due |-> d, run |-> TRUE, fl |-> FALSE] : v \in Vals, d \in {0} \cup {h + x : x \in 1..MaxDue}}

CreateOp(c, m, o) ==
  LET i == c.seq[m] + 1 IN
  [c EXCEPT !.objs[m] = Put(@, i, o), !.seq[m] = i,
            !.queue[m] = IF o.due > 0 THEN @ \cup {<<o.due, i>>} ELSE @]
CloseOp(c, m, i) ==
  [c EXCEPT !.objs[m] = Restrict(@, DOMAIN @ \ {i}), !.queue[m] = {q \in @ : q[2] # i}]
(* a block: everything queued for the new height is processed (and is then
   no longer an open object); processing goes by the queue, not by the objects *)
TickOp(c) ==
  LET h1 == c.h + 1 IN
  [h |-> h1, seq |-> c.seq,
   objs |-> [m \in Modules |->
               Restrict(c.objs[m], DOMAIN c.objs[m] \ {q[2] : q \in {x \in c.queue[m] : x[1] = h1}})],
   queue |-> [m \in Modules |-> {x \in c.queue[m] : x[1] # h1}]]

(* one step of a history, as a value, so that a source and its continued
   import can execute the same step; a step that is not applicable to a chain
   is a rejected transaction there *)
Op(kind, m, i, v, o) == [kind |-> kind, m |-> m, i |-> i, v |-> v, o |-> o]
ApplyOp(c, op) ==
  CASE op.kind = "tick" -> TickOp(c)
    [] op.kind = "create" -> IF c.seq[op.m] < MaxIds THEN CreateOp(c, op.m, op.o) ELSE c
    [] op.kind = "update" -> IF op.i \in DOMAIN c.objs[op.m]
                             THEN [c EXCEPT !.objs[op.m][op.i].v = op.v] ELSE c
    [] op.kind = "toggle" -> IF op.i \in DOMAIN c.objs[op.m]
                             THEN [c EXCEPT !.objs[op.m][op.i].run = ~@] ELSE c
    [] op.kind = "close" -> IF op.i \in DOMAIN c.objs[op.m] THEN CloseOp(c, op.m, op.i) ELSE c
Ops(c) ==
  (IF c.h < MaxH THEN {Op("tick", "", 0, 0, NoObj)} ELSE {})
  \cup UNION {{Op("create", m, 0, 0, o) : o \in NewObjs(m, c.h)} : m \in {x \in Modules : c.seq[x] < MaxIds}}
  \cup UNION {{Op("update", m, i, v, NoObj) : i \in DOMAIN c.objs[m], v \in Vals} : m \in Modules}
  \cup UNION {{Op("toggle", m, i, 0, NoObj) : i \in {j \in DOMAIN c.objs[m] : ~c.objs[m][j].fl}} :
              m \in {x \in Modules : Class(x) = "pause"}}
  \cup UNION {{Op("close", m, i, 0, NoObj) : i \in DOMAIN c.objs[m]} : m \in Modules}
EnabledOps(c) == {op \in Ops(c) : op.kind = "update" => op.v # c.objs[op.m][op.i].v}

-----------------------------------------------------------------------------
(* Genesis: export, the documented zero-height step, validation, import *)

ZeroHeight(m, objs, h) ==
  CASE Class(m) = "rebase" ->
         [i \in DOMAIN objs |-> [objs[i] EXCEPT !.due = IF @ = 0 THEN 0 ELSE @ - h + 1]]
    [] Class(m) = "pause" ->
         [i \in {j \in DOMAIN objs : ~objs[j].fl} |-> [objs[i] EXCEPT !.run = FALSE]]
    [] OTHER -> objs
Prepared(m, objs, mode, h) == IF mode = "zeroheight" THEN ZeroHeight(m, objs, h) ELSE objs

Has(d, m) == Defect = d /\ m = DefectMod

(* a module's genesis section: its objects and its id counter; the queue is
   derived state and is not exported *)
ExportMod(m, objs, seq) ==
  [objs |-> IF Has("export_drops", m) /\ DOMAIN objs # {}
            THEN Restrict(objs, DOMAIN objs \ {SetMax(DOMAIN objs)}) ELSE objs,
   seq |-> seq]

(* ih: the initial height of the importing chain *)
ValidateMod(m, g, ih) ==
  /\ \A i \in DOMAIN g.objs : i <= g.seq
  /\ \A i \in DOMAIN g.objs : g.objs[i].due = 0 \/ g.objs[i].due >= ih
  /\ Has("validate_strict", m) => \A i \in DOMAIN g.objs : g.objs[i].v # MaxVal

ImportMod(m, g, ih) ==
  LET objs == IF Has("import_rekeys", m)
              THEN [i \in {g.seq + 1 - j : j \in DOMAIN g.objs} |-> g.objs[g.seq + 1 - i]]
              ELSE g.objs
      floor == IF Has("import_skips_due_next", m) THEN ih ELSE 0
  IN [objs |-> objs,
      seq |-> IF Has("import_resets_seq", m) THEN Cardinality(DOMAIN objs) ELSE g.seq,
      queue |-> {<<objs[i].due, i>> : i \in {j \in DOMAIN objs : objs[j].due > floor}}]

(* the user-visible durable part of a module's objects *)
Durable(objs) ==
  [i \in {j \in DOMAIN objs : ~objs[j].fl} |-> [v |-> objs[i].v, due |-> objs[i].due, run |-> objs[i].run]]

InitialHeight(mode, h) == IF mode = "zeroheight" THEN 1 ELSE h + 1
(* the height at which the imported chain is exported again: the source's for
   as-is; 1 for the restarted chain (where the zero-height step is idempotent) *)
ReExportHeight(mode, h) == IF mode = "zeroheight" THEN 1 ELSE h

-----------------------------------------------------------------------------
(* Events and the property clauses *)
BoolMap(b) == [m \in Modules |-> b]
Ev(name, mode, h) ==
  [name |-> name, mode |-> mode, h |-> h, exported |-> TRUE, accepted |-> TRUE, halt |-> FALSE,
   invariants_ok |-> TRUE, res |-> [fixpoint |-> BoolMap(TRUE), durable |-> BoolMap(TRUE)]]

AllTrue(f) == \A m \in DOMAIN f : f[m]
IsRT(e) == e.name = "GenesisRoundTrip"
IsCont(e) == e.name = "Continuation"

(* the exported genesis is accepted by import without error (and the chain
   built from it runs: its first block, and the blocks that follow) *)
C12_Accepted(e) ==
  /\ IsRT(e) => e.exported /\ e.accepted /\ e.invariants_ok
  /\ IsCont(e) => ~e.halt
(* importing it and exporting again yields the same genesis *)
C12_Fixpoint(e) ==
  (IsRT(e) /\ e.exported /\ e.accepted) => AllTrue(e.res.fixpoint)
(* the re-imported chain answers every query about durable objects
   identically (modulo ZeroHeight in zero-height mode) ... *)
C12_Durable(e) ==
  (IsRT(e) /\ e.exported /\ e.accepted) => AllTrue(e.res.durable)
(* ... and keeps doing so while it executes the same blocks as its source *)
C12_Continuation(e) ==
  (IsCont(e) /\ ~e.halt) => AllTrue(e.res.durable)

-----------------------------------------------------------------------------
NoGen == [state |-> "none", mode |-> "", h |-> 0, data |-> [m \in Modules |-> ExportMod(m, <<>>, 0)]]
NoImp == [state |-> "none", c |-> EmptyChain]

Init ==
  /\ src = [EmptyChain EXCEPT !.h = 1]
  /\ gen = NoGen /\ imp = NoImp
  /\ ev = Ev("Init", "", 1)

ContinuationEv(s, i) ==
  [Ev("Continuation", "asis", s.h) EXCEPT
     !.res.durable = [m \in Modules |-> Durable(i.objs[m]) = Durable(s.objs[m])]]

Advance ==
  /\ gen.state = "none"
  /\ \E op \in EnabledOps(src) :
       LET s1 == ApplyOp(src, op)
           i1 == IF imp.state = "live" THEN ApplyOp(imp.c, op) ELSE imp.c
       IN /\ src' = s1
          /\ imp' = [imp EXCEPT !.c = i1]
          /\ ev' = IF imp.state = "live" THEN ContinuationEv(s1, i1) ELSE Ev("Block", "", s1.h)
  /\ UNCHANGED gen

Export(mode) ==
  /\ gen.state = "none"
  /\ gen' = [state |-> "exported", mode |-> mode, h |-> src.h,
             data |-> [m \in Modules |-> ExportMod(m, Prepared(m, src.objs[m], mode, src.h), src.seq[m])]]
  /\ imp' = NoImp
  /\ ev' = Ev("Export", mode, src.h)
  /\ UNCHANGED src

Import ==
  /\ gen.state = "exported"
  /\ LET ih == InitialHeight(gen.mode, gen.h)
         ok == \A m \in Modules : ValidateMod(m, gen.data[m], ih)
         parts == [m \in Modules |-> ImportMod(m, gen.data[m], ih)]
     IN imp' = IF ok
               THEN [state |-> "imported",
                     c |-> [h |-> ih - 1, objs |-> [m \in Modules |-> parts[m].objs],
                            seq |-> [m \in Modules |-> parts[m].seq],
                            queue |-> [m \in Modules |-> parts[m].queue]]]
               ELSE [state |-> "rejected", c |-> EmptyChain]
  /\ gen' = [gen EXCEPT !.state = "imported"]
  /\ ev' = Ev("Import", gen.mode, gen.h)
  /\ UNCHANGED src

RoundTripEv ==
  LET acc == imp.state = "imported"
      rh == ReExportHeight(gen.mode, gen.h)
  IN [Ev("GenesisRoundTrip", gen.mode, gen.h) EXCEPT
        !.accepted = acc,
        !.res.fixpoint = [m \in Modules |->
            acc /\ ExportMod(m, Prepared(m, imp.c.objs[m], gen.mode, rh), imp.c.seq[m]) = gen.data[m]],
        !.res.durable = [m \in Modules |->
            acc /\ Durable(imp.c.objs[m]) = Durable(Prepared(m, src.objs[m], gen.mode, gen.h))]]

ReExport ==
  /\ gen.state = "imported"
  /\ ev' = RoundTripEv
  /\ gen' = NoGen
  /\ imp' = IF imp.state = "imported" /\ gen.mode = "asis" THEN [imp EXCEPT !.state = "live"] ELSE NoImp
  /\ UNCHANGED src

Next == Advance \/ Export("asis") \/ Export("zeroheight") \/ Import \/ ReExport
Spec == Init /\ [][Next]_vars

-----------------------------------------------------------------------------
(* invariants of the design *)
Inv_C12_Accepted == C12_Accepted(ev)
Inv_C12_Fixpoint == C12_Fixpoint(ev)
Inv_C12_Durable == C12_Durable(ev)
Inv_C12_Continuation == C12_Continuation(ev)

(* what makes the clauses theorems of a correct design *)
TypeOK ==
  /\ src.h \in 1..MaxH
  /\ \A m \in Modules :
       /\ src.seq[m] \in 0..MaxIds
       /\ DOMAIN src.objs[m] \subseteq 1..src.seq[m]
       \* nothing is left over from the past, and the queue is exactly the due index
       /\ \A i \in DOMAIN src.objs[m] : src.objs[m][i].due = 0 \/ src.objs[m][i].due > src.h
       /\ src.queue[m] = {<<src.objs[m][i].due, i>> : i \in {j \in DOMAIN src.objs[m] : src.objs[m][j].due > 0}}
(* a continued as-is import is indistinguishable from its source *)
LiveEqual == (imp.state = "live" /\ Defect = "none") => imp.c = src

(* ev is not part of the view (it would only multiply states), but the verdict
   of the clauses on it is: a state whose event violates a clause is never
   identified with a state seen before, so TLC does evaluate the invariants
   on it *)
View == <<src, gen, imp, C12_Accepted(ev), C12_Fixpoint(ev), C12_Durable(ev), C12_Continuation(ev)>>
=============================================================================
