SPECIFICATION Spec
CONSTANTS
  RecordHist = FALSE
  TestMods = {"coinswap", "farm", "htlc", "service", "token"}
  KCoinswap = 4
  KFarm = 3
  KHtlc = 3
  KService = 3
  KToken = 5
VIEW View
INVARIANTS
  Inv_C16_StoredValid
PROPERTIES
  Act_C16_Authority
  Act_C16_GenesisValid
  Act_C16_NoAbort_ModF
CHECK_DEADLOCK FALSE
