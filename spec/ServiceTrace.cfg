SPECIFICATION TraceSpec
CONSTANTS
  RecordHist = FALSE
  FixF4 = FALSE
  FixF36 = TRUE
  Users = {}
  Consumers = {}
  Actors = {}
  MaxH = 0
  MaxCtx = 0
  InitBal = 0
  TaxNum = 0
  TaxDen = 1
  SlashNum = 0
  SlashDen = 1
  MaxTimeout = 1
  MinMult = 1
  MinDepP = 0
  Wait = 2
  FeeCaps = {}
  Timeouts = {}
  Freqs = {}
  Totals = {}
  RepeatedVals = {}
  Modules = FALSE
  BindOps = FALSE
  MDenoms = {"stake"}
  InitBtc = 0
  RateN = 0
  RateD = 1
  RateVals <- RateValsNone
  SetupSpec <- SetupA
  ProvSeqs <- ProvSeqsA
  UpdateSpecs <- UpdateSpecsNone
INVARIANTS
  Monitor
  Coverage
  Report
  DriftReport
POSTCONDITION TraceAccepted
CHECK_DEADLOCK FALSE
ALIAS Alias
