SPECIFICATION GenSpec
CONSTANTS
  Users = {"u1", "u2"}
  RDenoms = {"rw1"}
  LP = "lpt-1"
  FeeDenom = "stake"
  RecordHist = TRUE
  MaxH = 12
  MaxStake = 3
  MaxPools = 2
  Prec = 10
  InitLP = 3
  InitR = 20
  Fee = 5
  TaxNum = 2
  TaxDen = 5
  RewardTotals = {5, 7, 9}
  RewardRates = {1, 2, 3}
  MaxStart = 2
  TopUps = {1, 3}
  Donations = {1}
  Creators = {"u1", "u2"}
CONSTRAINT GenConstraint
CHECK_DEADLOCK FALSE
