------------------------------- MODULE Params -------------------------------
(***************************************************************************)
(* C16 — parameters of coinswap, farm, htlc, service and token change only  *)
(* by the authority, stay valid, and never break handlers.                  *)
(*                                                                         *)
(* The parameter record of each module is modelled over ABSTRACT domains   *)
(* (the harness concretises them, harness/cmd/params/abs.go):              *)
(*   decimals  unset neg zero tiny half almost1 one gt1 dflt               *)
(*             (LegacyDec{}, -0.5, 0, 10^-18, 0.5, 1-10^-18, 1, 2, default) *)
(*   coins     unset nilamt neg zero pos max baddenom nodenom other        *)
(*             (Coin{}, nil amount, -1, 0, the default coin, 2^256-1,       *)
(*              denom "1bad", denom "")                                    *)
(*   integers  neg zero one max dflt     (max = MaxInt64 / MaxUint)        *)
(*   math.Int  unset neg zero pos big max   (htlc; max = 2^256-1)          *)
(*                                                                         *)
(* Transcribed from the code, branch by branch:                            *)
(*   Validate_<m>      modules/<m>/types/params.go  Params.Validate        *)
(*                     result "ok" | "err" | "panic" (nil Dec / nil Int     *)
(*                     dereference inside the validator)                    *)
(*   DoUpdate          types/msgs.go MsgUpdateParams.ValidateBasic (runs    *)
(*                     Params.Validate — before the ante handler),          *)
(*                     keeper/msg_server.go UpdateParams (authority check), *)
(*                     keeper/params.go SetParams (Validate again, store).  *)
(*                     The legacy param-set validators (validateTaxRate,    *)
(*                     validateFee ...) are NOT on this path unless         *)
(*                     Params.Validate calls them: farm's Validate calls    *)
(*                     only validatePoolCreationFee.                        *)
(*   DoGenesis         <m>/genesis.go InitGenesis: ValidateGenesis +        *)
(*                     SetParams (+ token: base fee denom must be a token)  *)
(*   DoOp              the fixed operation suite of each module with the    *)
(*                     abort conditions of the arithmetic that consumes the *)
(*                     parameters (keeper/fees.go, swap.go, htlc.go ...)    *)
(*                                                                         *)
(* One behaviour concerns one module (st.mod); the parameters of all five  *)
(* are part of the state so that "nobody else's parameters change" is a    *)
(* frame condition.                                                        *)
(***************************************************************************)
EXTENDS Integers, Sequences, FiniteSets, TLC, Util, Json, IOUtils

CONSTANTS
  RecordHist,   \* BOOLEAN: keep the event history (generator configs)
  TestMods,     \* modules explored
  KCoinswap, KFarm, KHtlc, KService, KToken   \* max number of fields deviating from the baseline

VARIABLES st, ev, gh, hist
vars == <<st, ev, gh, hist>>

Modules == {"coinswap", "farm", "htlc", "service", "token"}
Senders == {"authority", "stranger", "forger"}

-----------------------------------------------------------------------------
(* Abstract values *)
DecV  == {"unset", "neg", "zero", "tiny", "half", "almost1", "one", "gt1", "dflt"}
CoinV == {"unset", "nilamt", "neg", "zero", "pos", "max", "baddenom", "nodenom", "other"}
I64V  == {"neg", "zero", "one", "max", "dflt"}
U64V  == {"zero", "one", "max", "dflt"}

DecNil(v) == v = "unset"
DecGT0(v) == v \in {"tiny", "half", "almost1", "one", "gt1", "dflt"}
DecLT0(v) == v = "neg"
DecLT1(v) == v \in {"neg", "zero", "tiny", "half", "almost1", "dflt"}
DecGT1(v) == v = "gt1"

CoinAmtNil(c) == c \in {"unset", "nilamt"}
CoinAmtPos(c) == c \in {"pos", "max", "baddenom", "nodenom", "other"}
CoinAmtNeg(c) == c = "neg"
CoinDenomOK(c) == c \notin {"unset", "baddenom", "nodenom"}

(* first result that is not "ok" in a sequence of sequential checks *)
FirstBad(seq) ==
  IF \A i \in DOMAIN seq : seq[i] = "ok" THEN "ok"
  ELSE seq[CHOOSE i \in DOMAIN seq : seq[i] # "ok" /\ \A j \in DOMAIN seq : j < i => seq[j] = "ok"]

(* if cond-with-nil-operand: panic; elsif bad: err *)
Chk(nil, bad) == IF nil THEN "panic" ELSE IF bad THEN "err" ELSE "ok"

-----------------------------------------------------------------------------
(* Representatives of math.Int values (htlc).  MaxRep stands for 2^256-1:  *)
(* adding anything positive to it overflows (math.Int panics), nothing     *)
(* else in the suite does.                                                 *)
MaxRep == 2000000000
IntRep(v, pos, big) ==
  CASE v = "neg" -> 0 - 1 [] v = "zero" -> 0 [] v = "pos" -> pos [] v = "big" -> big [] v = "max" -> MaxRep
    [] OTHER -> 0
LockRep(v) == CASE v = "low" -> 49 [] v = "min" -> 50 [] v = "mid" -> 60 [] v = "top" -> 34560 [] v = "high" -> 34561
MinTimeLock == 50
MaxTimeLock == 34560

-----------------------------------------------------------------------------
(* Findings of this specification that have been repaired in /repo.  The
   transcriptions below follow the UNREPAIRED code for ids not listed here and
   the patches proposed in findings/params.md for ids listed — edit this one
   line when a fix: commit lands (strict mode reports the difference as drift
   until then). *)
Fixed == {"F14", "F18", "F19", "F21"}

-----------------------------------------------------------------------------
(* Params.Validate per module *)

(* coinswap/types/params.go *)
Validate_coinswap(p) == FirstBad(<<
  Chk(DecNil(p.fee), ~(DecGT0(p.fee) /\ DecLT1(p.fee))),
  IF "F18" \in Fixed
  THEN (IF CoinDenomOK(p.pcf) /\ CoinAmtPos(p.pcf) THEN "ok" ELSE "err")   \* !IsValid() || !IsPositive()
  ELSE Chk(CoinAmtNil(p.pcf), ~CoinAmtPos(p.pcf)),                  \* IsPositive only: denom unchecked (F18)
  Chk(DecNil(p.tax), ~(DecGT0(p.tax) /\ DecLT1(p.tax))),
  Chk(DecNil(p.uni), ~(~DecLT0(p.uni) /\ DecLT1(p.uni))) >>)

(* farm/types/params.go: only validatePoolCreationFee (Coin.IsValid); tax rate
   and max reward categories are not looked at (F14) *)
Validate_farm(p) ==
  IF ~(CoinDenomOK(p.fee) /\ ~CoinAmtNil(p.fee) /\ ~CoinAmtNeg(p.fee)) THEN "err"
  ELSE IF "F14" \in Fixed /\ ~(DecGT0(p.tax) /\ DecLT1(p.tax)) THEN "err"   \* validateTaxRate with a nil guard
  ELSE "ok"

(* token/types/v1/params.go *)
Validate_token(p) == FirstBad(<<
  Chk(DecNil(p.tax), DecGT1(p.tax) \/ DecLT0(p.tax)),
  Chk(DecNil(p.ratio), DecGT1(p.ratio) \/ DecLT0(p.ratio)),
  IF "F19" \in Fixed
  THEN (IF CoinDenomOK(p.fee) /\ ~CoinAmtNil(p.fee) /\ ~CoinAmtNeg(p.fee) THEN "ok" ELSE "err")   \* !IsValid()
  ELSE Chk(CoinAmtNil(p.fee), CoinAmtNeg(p.fee)),                    \* IsNegative only: denom unchecked (F19)
  IF p.beacon = "bad" THEN "err" ELSE "ok" >>)

(* service/types/params.go; sdk.Coins.IsValid for one coin: denom, then IsPositive *)
MinDepValid(c) ==
  IF c \in {"empty", "other"} THEN "ok"
  ELSE IF ~CoinDenomOK(c) THEN "err"
  ELSE Chk(CoinAmtNil(c), ~CoinAmtPos(c))
Validate_service(p) == FirstBad(<<
  IF p.maxreq \in {"neg", "zero"} THEN "err" ELSE "ok",
  IF p.mult \in {"neg", "zero"} THEN "err" ELSE "ok",
  MinDepValid(p.mindep),
  Chk(DecNil(p.slash), DecLT0(p.slash) \/ DecGT1(p.slash)),
  Chk(DecNil(p.tax), DecLT0(p.tax) \/ ~DecLT1(p.tax)),
  IF p.complaint \in {"neg", "zero"} THEN "err" ELSE "ok",
  IF p.arbitration \in {"neg", "zero"} THEN "err" ELSE "ok",
  IF p.txsize = "zero" THEN "err" ELSE "ok",
  IF p.denom \in {"bad", "empty"} THEN "err" ELSE "ok" >>)

(* htlc/types/params.go validateAssetParams: per asset, in list order *)
LimitRep(a)  == IntRep(a.limit, 1000, 1000000000)
TLimitRep(a) == IntRep(a.tlimit, 500, 1000000000)
FeeRep(a)    == IntRep(a.fee, 1, 1000000)
MinSwapRep(a) == IntRep(a.minswap, 2, 1000000)
MaxSwapRep(a) == IntRep(a.maxswap, 100, 1000000)
ValidateAsset(a, seen) == FirstBad(<<
  IF a.denom \in {"ok", "ok2"} THEN "ok" ELSE "err",
  Chk(a.limit = "unset", a.limit = "neg"),
  Chk(a.tlimit = "unset", a.tlimit = "neg"),
  IF TLimitRep(a) > LimitRep(a) THEN "err" ELSE "ok",
  IF a.denom \in seen THEN "err" ELSE "ok",
  IF a.deputy # "ok" THEN "err" ELSE "ok",
  Chk(a.fee = "unset", a.fee = "neg"),                               \* no upper bound on the fixed fee
  IF LockRep(a.minlock) < MinTimeLock THEN "err" ELSE "ok",
  IF LockRep(a.maxlock) > MaxTimeLock THEN "err" ELSE "ok",
  IF LockRep(a.minlock) > LockRep(a.maxlock) THEN "err" ELSE "ok",
  Chk(a.minswap = "unset", MinSwapRep(a) <= 0),
  Chk(a.maxswap = "unset", MaxSwapRep(a) <= 0),
  IF MinSwapRep(a) > MaxSwapRep(a) THEN "err" ELSE "ok" >>)
Validate_htlc(p) ==
  FirstBad([i \in DOMAIN p.assets |->
              ValidateAsset(p.assets[i], {p.assets[j].denom : j \in 1..(i-1)})])

ValidateM(m, p) ==
  CASE m = "coinswap" -> Validate_coinswap(p)
    [] m = "farm" -> Validate_farm(p)
    [] m = "htlc" -> Validate_htlc(p)
    [] m = "service" -> Validate_service(p)
    [] m = "token" -> Validate_token(p)

(* what the store holds after cdc.Marshal / Unmarshal of an accepted record:
   a nil decimal is written as "0" (only farm's tax rate can be nil and accepted) *)
Norm(m, p) == IF m = "farm" /\ p.tax = "unset" THEN [p EXCEPT !.tax = "zero"] ELSE p

-----------------------------------------------------------------------------
(* Baseline parameters (the module defaults; htlc: one supported asset) *)
OkAsset == [denom |-> "ok", limit |-> "pos", tlimit |-> "zero", timed |-> FALSE, active |-> TRUE, deputy |-> "ok",
            fee |-> "pos", minswap |-> "pos", maxswap |-> "pos", minlock |-> "min", maxlock |-> "mid"]
BaseParams ==
  [coinswap |-> [fee |-> "dflt", tax |-> "dflt", uni |-> "dflt", pcf |-> "pos"],
   farm |-> [fee |-> "pos", tax |-> "dflt", maxcat |-> "dflt"],
   htlc |-> [assets |-> <<OkAsset>>],
   service |-> [maxreq |-> "dflt", mult |-> "dflt", mindep |-> "pos", tax |-> "dflt", slash |-> "dflt",
                complaint |-> "dflt", arbitration |-> "dflt", txsize |-> "dflt", denom |-> "stake", restricted |-> FALSE],
   token |-> [tax |-> "dflt", ratio |-> "dflt", fee |-> "pos", erc20 |-> TRUE, beacon |-> "empty"]]
(* a default chain (no htlc asset) — the state before an InitChain genesis *)
DefaultParams == [BaseParams EXCEPT !.htlc = [assets |-> <<>>]]

Suite(m) ==
  CASE m = "coinswap" -> <<"cs_create", "cs_sell", "cs_create2", "cs_add", "cs_sell2", "cs_buy", "cs_addu", "cs_remu", "cs_rem">>
    [] m = "farm" -> <<"fm_create", "fm_stake", "fm_create2", "fm_stake2", "fm_harvest", "fm_adjust", "fm_unstake", "fm_destroy2", "fm_expire">>
    [] m = "htlc" -> <<"ht_create", "ht_in", "ht_claimin", "ht_claim", "ht_in2", "ht_claimin2", "ht_out", "ht_claimout",
                       "ht_out2", "ht_create2", "ht_in3", "ht_expire">>
    [] m = "service" -> <<"sv_define", "sv_bind", "sv_call", "sv_respond", "sv_define2", "sv_bind2", "sv_update", "sv_call2",
                          "sv_respond2", "sv_withdraw", "sv_call3", "sv_expire", "sv_disable", "sv_refund">>
    [] m = "token" -> <<"tk_issue", "tk_mint", "tk_issue2", "tk_mint2", "tk_edit", "tk_burn", "tk_deploy", "tk_toerc20", "tk_transfer", "tk_issue3">>
Mid(m) == CASE m = "coinswap" -> 2 [] m = "farm" -> 2 [] m = "htlc" -> 3 [] m = "service" -> 4 [] m = "token" -> 2

-----------------------------------------------------------------------------
(* Arithmetic that consumes the parameters.                                *)
(* MulTrunc(a, r): class of  NewDecFromInt(amount a).Mul(rate r).TruncateInt() *)
(*   relative to a:  "neg" "zero" "lt" (0 < x < a) "eq" "gt" "ovf" (LegacyDec overflow panic) *)
AmtClass(c) == IF c = "zero" THEN "zero" ELSE IF c = "max" THEN "max" ELSE "pos"   \* for coins with amount >= 0
MulTrunc(a, r) ==
  IF a = "zero" \/ r \in {"zero", "unset"} THEN "zero"
  ELSE IF r = "neg" THEN "neg"
  ELSE IF a = "max" /\ r \in {"almost1", "one", "gt1"} THEN "ovf" \* (2^256-1)*10^18 has 316 bits; a LegacyDec result
                                                                     \* of more than 315 bits panics "Int overflow"
  ELSE IF r = "one" THEN "eq"
  ELSE IF r = "gt1" THEN "gt"
  ELSE IF r = "tiny" THEN (IF a = "max" THEN "lt" ELSE "zero")     \* 5000 * 10^-18 truncates to 0
  ELSE "lt"                                                          \* half, almost1, dflt
(* fee split of coinswap / farm / token:  tax := NewCoin(denom, MulTrunc); burned := fee.Sub(tax) *)
SplitAbort(denomOK, a, r) ==
  LET t == MulTrunc(a, r) IN
  IF t = "ovf" THEN "ovf"
  ELSE IF ~denomOK THEN "denom"                 \* sdk.NewCoin validates the denom
  ELSE IF t = "neg" THEN "neg"                   \* sdk.NewCoin: negative coin amount
  ELSE IF t = "gt" THEN "gt1"                    \* Coin.Sub: negative coin amount
  ELSE "none"

R(okc, why) == [okc |-> okc, why |-> why]
OkR == R("ok", "")
Rej == R("rej", "")
Unk == R("any", "")
Pan(why) == R("panic", why)

(* ---- coinswap (keeper/fees.go DeductPoolCreationFee, keeper/swap.go, keeper/keeper.go) ---- *)
CsPoolFee(p) ==
  LET ab == SplitAbort(CoinDenomOK(p.pcf), AmtClass(p.pcf), p.tax) IN
  IF ab = "ovf" THEN Pan("coinswap:pcf:max")
  ELSE IF ab = "denom" THEN Pan("coinswap:pcf:baddenom")            \* denom "1bad" or ""
  ELSE IF ab # "none" THEN Pan("coinswap:tax:" \o p.tax)
  ELSE IF p.pcf = "other" THEN Unk      \* a valid fee coin of another denom: charged if the sender holds it (not predicted)
  ELSE IF p.pcf = "max" THEN Rej ELSE OkR
CsOp(p, op, done) ==
  LET pool == "cs_create" \in done \/ "cs_add" \in done IN
  CASE op \in {"cs_create", "cs_create2"} -> CsPoolFee(p)
    [] op = "cs_add" -> IF pool THEN OkR ELSE CsPoolFee(p)
    [] op \in {"cs_sell", "cs_sell2", "cs_buy"} -> IF pool /\ p.fee # "almost1" THEN OkR ELSE Rej
    [] op \in {"cs_addu", "cs_remu"} -> IF pool /\ p.uni # "almost1" THEN OkR ELSE Rej
    [] op = "cs_rem" -> IF pool THEN OkR ELSE Rej

(* ---- farm (keeper/msg_server.go CreatePool, keeper/fees.go) ---- *)
MaxCatRep(v) == CASE v = "zero" -> 0 [] v = "one" -> 1 [] v = "dflt" -> 2 [] v = "max" -> 1000
FmCreate(p, cats) ==
  IF cats > MaxCatRep(p.maxcat) THEN Rej
  ELSE LET ab == SplitAbort(TRUE, AmtClass(p.fee), p.tax) IN
       IF ab = "neg" THEN Pan("farm:taxrate:neg")
       ELSE IF ab = "gt1" \/ (ab = "ovf" /\ p.tax = "gt1") THEN Pan("farm:taxrate:gt1")
       ELSE IF ab = "ovf" THEN Pan("farm:fee:max")
       ELSE IF p.fee = "other" THEN Unk
       ELSE IF p.fee = "max" THEN Rej ELSE OkR
FmOp(p, op, done) ==
  LET poolA == "fm_create" \in done
      staked == "fm_stake" \in done \/ "fm_stake2" \in done IN
  CASE op = "fm_create" -> FmCreate(p, 1)
    [] op = "fm_create2" -> FmCreate(p, 2)
    [] op \in {"fm_stake", "fm_stake2", "fm_adjust"} -> IF poolA THEN OkR ELSE Rej
    [] op \in {"fm_harvest", "fm_unstake"} -> IF poolA /\ staked THEN OkR ELSE Rej
    [] op = "fm_destroy2" -> IF "fm_create2" \in done THEN OkR ELSE Rej
    [] op = "fm_expire" -> OkR

(* ---- token (keeper/fees.go) ---- *)
(* symbols of more than three letters pay base fee / factor (factor > 4): the
   LegacyDec products stay below the overflow bound even for the largest fee *)
TkAmt(p) == IF p.fee = "zero" THEN "zero" ELSE "pos"
TkIssue(p) ==
  IF ~CoinDenomOK(p.fee) THEN Pan("token:issuefee:baddenom")        \* calcTokenIssueFee: sdk.NewCoin(denom, ...)
  ELSE IF p.fee = "other" THEN Rej      \* GetTokenIssueFee: the fee denom is not an issued token
  ELSE IF SplitAbort(TRUE, TkAmt(p), p.tax) # "none" THEN Pan("token:taxrate:" \o p.tax)
  ELSE IF p.fee = "max" THEN Rej ELSE OkR
TkMint(p) ==
  IF ~CoinDenomOK(p.fee) THEN Pan("token:issuefee:baddenom")
  ELSE IF p.fee = "other" THEN Rej
  ELSE IF SplitAbort(TRUE, TkAmt(p), p.tax) # "none" THEN Pan("token:taxrate:" \o p.tax)
  ELSE IF p.fee = "max" /\ p.ratio # "zero" THEN Rej ELSE OkR
(* a three-letter symbol pays the undivided base fee: NewDecFromInt(fee).Quo(1.00) *)
TkIssue3(p) ==
  IF CoinDenomOK(p.fee) /\ p.fee = "max" THEN Pan("token:issuefee:max") ELSE TkIssue(p)
TkOp(p, op, done) ==
  LET kitty == "tk_issue" \in done IN
  CASE op \in {"tk_issue", "tk_issue2"} -> TkIssue(p)
    [] op = "tk_issue3" -> TkIssue3(p)
    [] op \in {"tk_mint", "tk_mint2"} -> IF kitty THEN TkMint(p) ELSE Rej
    [] op \in {"tk_edit", "tk_burn", "tk_transfer"} -> IF kitty THEN OkR ELSE Rej
    [] op = "tk_deploy" -> IF ~p.erc20 \/ p.beacon # "hex" THEN Rej ELSE IF kitty THEN OkR ELSE Unk
    [] op = "tk_toerc20" -> IF p.erc20 /\ kitty /\ "tk_deploy" \in done THEN OkR ELSE Rej

(* ---- service: every field is validated; no abort predicted.  Outcomes are
   predicted where the parameters leave the suite's enabledness alone. ---- *)
SvBenign(p) == p.mult # "max" /\ p.mindep # "max" /\ p.denom = "stake" /\ p.slash \notin {"almost1", "one"}
SvOp(p, op, done) ==
  IF op \in {"sv_define", "sv_define2"} THEN OkR
  ELSE IF ~SvBenign(p) THEN Unk
  ELSE IF op = "sv_refund" THEN (IF p.complaint = "one" /\ p.arbitration = "one" THEN Unk ELSE Rej)
  ELSE IF op \in {"sv_bind", "sv_bind2"} THEN OkR
  ELSE IF op = "sv_expire" THEN OkR
  ELSE IF "sv_bind" \in done THEN OkR ELSE Unk

(* ---- htlc (keeper/htlc.go createHTLT / claimHTLT, keeper/asset.go) ---- *)
AssetOf(p, d) ==
  IF \E i \in DOMAIN p.assets : p.assets[i].denom = d
  THEN p.assets[CHOOSE i \in DOMAIN p.assets : p.assets[i].denom = d] ELSE [denom |-> "none"]
InRange(a, amt) == MinSwapRep(a) <= amt /\ amt <= MaxSwapRep(a)
LimitOK(a) == a.limit # "zero" /\ (~a.timed \/ a.tlimit # "zero")
HtIn(p, amt) ==
  LET a == AssetOf(p, "ok") IN
  IF a.denom = "none" \/ ~a.active \/ ~InRange(a, amt) \/ ~LimitOK(a) THEN Rej ELSE OkR
HtOut(p, amt, lock, supply) ==
  LET a == AssetOf(p, "ok") IN
  IF a.denom = "none" \/ ~a.active \/ ~InRange(a, amt) THEN Rej
  ELSE IF lock < LockRep(a.minlock) \/ lock > LockRep(a.maxlock) THEN Rej
  ELSE IF "F21" \notin Fixed /\ FeeRep(a) + MinSwapRep(a) > MaxRep
       THEN Pan("htlc:fixedfee:" \o a.fee)                          \* asset.FixedFee.Add(asset.MinSwapAmount)
  ELSE IF amt - MinSwapRep(a) < FeeRep(a) \/ ~supply THEN Rej ELSE OkR
HtClaimIn(p, created) ==
  LET a == AssetOf(p, "ok") IN
  IF ~created \/ a.denom = "none" \/ ~LimitOK(a) THEN Rej ELSE OkR
HtOp(p, op, done) ==
  LET supply == "ht_claimin" \in done \/ "ht_claimin2" \in done IN
  CASE op \in {"ht_create", "ht_create2", "ht_expire"} -> OkR
    [] op = "ht_claim" -> IF "ht_create" \in done THEN OkR ELSE Rej
    [] op = "ht_in" -> HtIn(p, 50)
    [] op = "ht_in2" -> HtIn(p, 30)
    [] op = "ht_in3" -> HtIn(p, 10)
    [] op = "ht_claimin" -> HtClaimIn(p, "ht_in" \in done)
    [] op = "ht_claimin2" -> HtClaimIn(p, "ht_in2" \in done)
    [] op = "ht_out" -> HtOut(p, 20, 55, supply)
    [] op = "ht_out2" -> HtOut(p, 10, 55, supply)
    [] op = "ht_claimout" -> IF "ht_out" \in done THEN OkR ELSE Rej

OpResult(m, p, op, done) ==
  CASE m = "coinswap" -> CsOp(p, op, done)
    [] m = "farm" -> FmOp(p, op, done)
    [] m = "htlc" -> HtOp(p, op, done)
    [] m = "service" -> SvOp(p, op, done)
    [] m = "token" -> TkOp(p, op, done)

-----------------------------------------------------------------------------
(* Events.  Input fields: name module sender via op p; result fields: ok
   panic halt (+ why, the specification's explanation of an abort). *)
NoEv == [name |-> "Init", module |-> "", sender |-> "", via |-> "", op |-> "", p |-> <<>>,
         ok |-> TRUE, panic |-> FALSE, halt |-> FALSE, why |-> ""]
EvUpdate(m, sender, p) == [NoEv EXCEPT !.name = "UpdateParams", !.module = m, !.sender = sender, !.p = p]
EvGenesis(m, via, p) == [NoEv EXCEPT !.name = "GenesisParams", !.module = m, !.via = via, !.p = p]
EvOp(m, op) == [NoEv EXCEPT !.name = "Op", !.module = m, !.op = op]

(* result record: okc "ok" | "rej" | "panic" | "any" (not predicted), st, why *)
Res(okc, s, why) == [okc |-> okc, st |-> s, why |-> why]

(* MsgUpdateParams: ValidateBasic (Params.Validate) -> [ante: signature] ->
   msg server authority check -> SetParams (Validate, store) *)
DoUpdate(s, e) ==
  LET m == e.module
      v == ValidateM(m, e.p) IN
  IF v = "panic" THEN Res("panic", s, m \o ":validate:nil")
  ELSE IF v = "err" \/ e.sender # "authority" THEN Res("rej", s, "")
  ELSE IF m = "token" /\ e.p.fee = "other" THEN Res("rej", s, "")   \* msg server: the fee denom must be an issued token (F38)
  ELSE Res("ok", [s EXCEPT !.params[m] = Norm(m, e.p)], "")

(* InitGenesis: refused (panic -> InitChain error) unless Validate accepts;
   token additionally requires the base fee denom to be an issued symbol.
   via "module": the import runs on a scratch store, the chain is untouched. *)
GenesisAccepts(m, p) ==
  ValidateM(m, p) = "ok" /\ (m = "token" => (CoinDenomOK(p.fee) /\ p.fee # "other"))
DoGenesis(s, e) ==
  LET m == e.module IN
  IF ~GenesisAccepts(m, e.p) THEN Res("rej", s, "")
  ELSE IF e.via = "initchain" THEN Res("ok", [s EXCEPT !.params[m] = Norm(m, e.p)], "")
  ELSE Res("ok", s, "")

DoOp(s, g, e) ==
  LET r == OpResult(e.module, s.params[e.module], e.op, g.done) IN Res(r.okc, s, r.why)

Apply(s, g, e) ==
  CASE e.name = "UpdateParams" -> DoUpdate(s, e)
    [] e.name = "GenesisParams" -> DoGenesis(s, e)
    [] e.name = "Op" -> DoOp(s, g, e)
    [] OTHER -> Res("ok", s, "")

-----------------------------------------------------------------------------
(* Ghosts: computed from OBSERVED events only *)
GhostInit == [done |-> {}, pc |-> 0, nupd |-> 0, events |-> 0, dead |-> FALSE, todo |-> <<>>]
GhostStep(g, s, e, t) ==
  [done |-> IF e.name = "Op" /\ e.ok THEN g.done \cup {e.op} ELSE g.done,
   pc |-> IF e.name = "Op" THEN g.pc + 1 ELSE g.pc,
   nupd |-> IF t.params # s.params THEN g.nupd + 1 ELSE g.nupd,
   events |-> 1,                                    \* 0 = nothing happened yet
   dead |-> g.dead \/ e.halt \/ (e.name = "GenesisParams" /\ e.via = "initchain" /\ ~e.ok),
   todo |-> IF g.todo = <<>> THEN <<>> ELSE Tail(g.todo)]      \* generator script (empty elsewhere)

-----------------------------------------------------------------------------
(* Property clauses (C16) over observed (pre-state, event, post-state) *)

(* Only the authority changes parameters: an accepted update comes from the
   authority; anything else — strangers, forged authority fields, rejected
   updates, genesis probes, ordinary operations, blocks — leaves every
   module's parameters as they were; an accepted update changes only the
   addressed module. *)
C16_Authority(s, e, t) ==
  /\ (e.name = "UpdateParams" /\ e.ok) => e.sender = "authority"
  /\ (e.name = "UpdateParams" /\ (e.sender # "authority" \/ ~e.ok)) => t.params = s.params
  /\ e.name = "UpdateParams" => \A m \in DOMAIN s.params : m # e.module => t.params[m] = s.params[m]
  /\ (e.name = "Op" \/ (e.name = "GenesisParams" /\ e.via # "initchain")) => t.params = s.params

(* The stored record of every module satisfies the specification's
   transcription of Validate (model checking); on traces the harness logs the
   module's OWN Validate() on what is stored (obs.valid). *)
C16_StoredValid_Model(t) == \A m \in DOMAIN t.params : ValidateM(m, t.params[m]) = "ok"

(* Every operation ends in success or an ordinary rejection *)
C16_NoAbort(e) == e.name = "Op" => ~e.panic /\ ~e.halt

(* aborts the specification itself predicts from accepted parameters: the
   known findings (findings/params.md); masked in the MC configs only *)
KnownWhys == {"farm:taxrate:gt1", "farm:taxrate:neg",          \* F14
              "coinswap:pcf:baddenom",                          \* F18
              "token:issuefee:baddenom",                        \* F19
              "htlc:fixedfee:max",                              \* F21
              "coinswap:pcf:max", "farm:fee:max", "token:issuefee:max"}   \* F22

-----------------------------------------------------------------------------
(* Parameter spaces: all records that differ from the baseline in at most k fields *)
RECURSIVE Variants(_, _, _, _)
Variants(F, dom, base, k) ==
  IF F = {} THEN {<<>>}
  ELSE LET f == CHOOSE x \in F : TRUE
           rest == F \ {f}
       IN {r @@ (f :> base[f]) : r \in Variants(rest, dom, base, k)}
          \cup (IF k = 0 THEN {}
                ELSE UNION {{r @@ (f :> v) : r \in Variants(rest, dom, base, k - 1)} : v \in dom[f] \ {base[f]}})

DomCoinswap == [fee |-> DecV, tax |-> DecV, uni |-> DecV, pcf |-> CoinV]
DomFarm == [fee |-> CoinV, tax |-> DecV, maxcat |-> U64V]
DomToken == [tax |-> DecV, ratio |-> DecV, fee |-> CoinV, erc20 |-> BOOLEAN, beacon |-> {"empty", "hex", "bad"}]
DomService == [maxreq |-> I64V, mult |-> I64V, mindep |-> (CoinV \cup {"empty", "other"}), tax |-> DecV, slash |-> DecV,
               complaint |-> I64V, arbitration |-> I64V, txsize |-> U64V, denom |-> {"stake", "other", "bad", "empty"},
               restricted |-> BOOLEAN]
IntV == {"unset", "neg", "zero", "pos", "big", "max"}
LockV == {"low", "min", "mid", "top", "high"}
DomAsset == [denom |-> {"ok", "ok2", "noprefix", "upper", "short", "bad"}, limit |-> IntV \ {"big"}, tlimit |-> IntV \ {"max"},
             timed |-> BOOLEAN, active |-> BOOLEAN, deputy |-> {"ok", "bad"}, fee |-> IntV, minswap |-> IntV, maxswap |-> IntV,
             minlock |-> LockV, maxlock |-> LockV]

SpaceOf(dom, base, k) == Variants(DOMAIN dom, dom, base, k)
AssetSpace(k) == SpaceOf(DomAsset, OkAsset, k)
(* htlc: no asset; one asset (<= k deviations); the asset twice; the asset
   plus a second one (<= 1 deviation, other denom unless it deviates there) *)
HtlcSpace(k) ==
  {[assets |-> <<>>]} \cup {[assets |-> <<a>>] : a \in AssetSpace(k)}
  \cup {[assets |-> <<OkAsset, a>>] : a \in AssetSpace(IF k > 1 THEN 1 ELSE 0)}
  \cup {[assets |-> <<OkAsset, [a EXCEPT !.denom = "ok2"]>>] : a \in AssetSpace(IF k > 1 THEN 1 ELSE 0)}

SpaceCoinswap == SpaceOf(DomCoinswap, BaseParams.coinswap, KCoinswap)
SpaceFarm == SpaceOf(DomFarm, BaseParams.farm, KFarm)
SpaceToken == SpaceOf(DomToken, BaseParams.token, KToken)
SpaceService == SpaceOf(DomService, BaseParams.service, KService)
SpaceHtlc == HtlcSpace(KHtlc)
Space(m) ==
  CASE m = "coinswap" -> SpaceCoinswap [] m = "farm" -> SpaceFarm [] m = "token" -> SpaceToken
    [] m = "service" -> SpaceService [] m = "htlc" -> SpaceHtlc
(* the baseline and every single-field deviation *)
StarCoinswap == SpaceOf(DomCoinswap, BaseParams.coinswap, 1)
StarFarm == SpaceOf(DomFarm, BaseParams.farm, 1)
StarToken == SpaceOf(DomToken, BaseParams.token, 1)
StarService == SpaceOf(DomService, BaseParams.service, 1)
StarHtlc == HtlcSpace(1)
Star(m) ==
  CASE m = "coinswap" -> StarCoinswap [] m = "farm" -> StarFarm [] m = "token" -> StarToken
    [] m = "service" -> StarService [] m = "htlc" -> StarHtlc

-----------------------------------------------------------------------------
(* Transition system *)
Init0(m) == [mod |-> m, params |-> BaseParams]
Init == \E m \in TestMods : st = Init0(m) /\ ev = NoEv /\ gh = GhostInit /\ hist = <<>>

Step(e) ==
  LET r == Apply(st, gh, e)
      \* an unpredicted outcome ("any") is explored as success
      e2 == [e EXCEPT !.ok = r.okc \in {"ok", "any"}, !.panic = (r.okc = "panic"), !.why = r.why]
  IN /\ st' = r.st
     /\ ev' = e2
     /\ gh' = GhostStep(gh, st, e2, r.st)
     /\ hist' = IF RecordHist THEN Append(hist, e2) ELSE hist

CanUpdate == ~gh.dead /\ gh.nupd = 0 /\ gh.pc \in {0, Mid(st.mod)}

Update(sender, p) == Step(EvUpdate(st.mod, sender, p))
GenesisProbe(p) == Step(EvGenesis(st.mod, "module", p))
(* a chain whose genesis carries p: only as the first event; the state before
   it is the default chain *)
GenesisChain(p) ==
  LET s0 == [st EXCEPT !.params = DefaultParams]
      e == EvGenesis(st.mod, "initchain", p)
      r == Apply(s0, gh, e)
      e2 == [e EXCEPT !.ok = (r.okc = "ok"), !.why = r.why]
  IN /\ st' = r.st /\ ev' = e2 /\ gh' = GhostStep(gh, s0, e2, r.st)
     /\ hist' = IF RecordHist THEN Append(hist, e2) ELSE hist
DoSuite ==
  /\ ~gh.dead /\ gh.pc < Len(Suite(st.mod))
  /\ Step(EvOp(st.mod, Suite(st.mod)[gh.pc + 1]))

(* guards first: the parameter space is enumerated only where an update is possible *)
Next ==
  \/ /\ CanUpdate
     /\ \E p \in Space(st.mod) :
          \/ \E sender \in Senders : Update(sender, p)
          \/ (gh.pc = 0 /\ GenesisProbe(p))
          \/ (gh.events = 0 /\ GenesisChain(p))
  \/ DoSuite

Spec == Init /\ [][Next]_vars

-----------------------------------------------------------------------------
(* Model-checking wrappers *)
Inv_C16_StoredValid == C16_StoredValid_Model(st)
Act_C16_Authority == [][(ev'.name = "GenesisParams" /\ ev'.via = "initchain") \/ C16_Authority(st, ev', st')]_vars
Act_C16_GenesisValid == [][(ev'.name = "GenesisParams" /\ ev'.ok) => ValidateM(ev'.module, ev'.p) = "ok"]_vars
Act_C16_NoAbort == [][C16_NoAbort(ev')]_vars
Act_C16_NoAbort_ModF == [][C16_NoAbort(ev') \/ ev'.why \in KnownWhys]_vars

View == <<st, gh>>

-----------------------------------------------------------------------------
(* Generator: per parameter record one scripted behaviour — the stranger
   tries it, a genesis carries it, the authority submits it (before the suite
   or mid-life), and the suite runs if it was accepted. *)
GenMods == IF "PARAMS_MOD" \in DOMAIN IOEnv THEN {IOEnv.PARAMS_MOD} ELSE TestMods
Ops(m, from, to) == [i \in 1..(to - from) |-> EvOp(m, Suite(m)[from + i])]
Script(m, p, pos, who) ==
  LET acc == ValidateM(m, p) = "ok"
      k == IF pos = 1 THEN Mid(m) ELSE 0
      head == <<EvUpdate(m, who, p), EvGenesis(m, "module", p), EvUpdate(m, "authority", p)>>
  IN IF acc THEN Ops(m, 0, k) \o head \o Ops(m, k, Len(Suite(m))) ELSE head
Scripts(m) ==
  {Script(m, p, 0, "stranger") : p \in Space(m)}
  \cup {Script(m, p, 1, "forger") : p \in {q \in Space(m) : ValidateM(m, q) = "ok"}}
  \cup {<<EvGenesis(m, "initchain", p), EvUpdate(m, "stranger", p)>> : p \in Star(m)}

GenInit == \E m \in GenMods : \E sc \in Scripts(m) :
  /\ st = Init0(m) /\ ev = NoEv /\ gh = [GhostInit EXCEPT !.todo = sc] /\ hist = <<>>
GenNext ==
  /\ gh.todo # <<>> /\ ~gh.dead
  /\ LET e == Head(gh.todo) IN
     IF e.name = "GenesisParams" /\ e.via = "initchain" THEN GenesisChain(e.p) ELSE Step(e)
GenSpec == GenInit /\ [][GenNext]_vars
GenConstraint ==
  (gh.todo = <<>> \/ gh.dead) => PrintT(<<"BEHAVIOUR", ToJson(hist)>>)
=============================================================================
