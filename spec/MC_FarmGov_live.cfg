SPECIFICATION LiveSpec
CONSTANTS
  Users = {"u1"}
  RDenoms = {"rw1"}
  LP = "lpt-1"
  FeeDenom = "stake"
  RecordHist = FALSE
  MaxH = 11
  MaxStake = 1
  MaxPools = 0
  Prec = 10
  InitLP = 1
  InitR = 6
  Fee = 5
  TaxNum = 2
  TaxDen = 5
  RewardTotals = {}
  RewardRates = {2}
  MaxStart = 0
  TopUps = {}
  Donations = {}
  Creators = {}
  Proposers = {"g1"}
  GovOn = TRUE
  InitCP = 4
  MaxProps = 1
  CPTotals = {4}
  Deposits = {2, 4}
  GovMinDep = 4
  GovThr = 2
  GovDP = 2
  GovVP = 1
  CancelNum = 1
  CancelDen = 2
  BurnPre = FALSE
  BurnQ = FALSE
  BurnV = TRUE
  LiveMode <- LiveOn
PROPERTIES
  Live_PoolEnds
  Live_EscrowResolved
CHECK_DEADLOCK FALSE
