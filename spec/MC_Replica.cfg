SPECIFICATION Spec
CONSTANTS
  Replicas = {"r1", "r2", "r3"}
  NBlocks = 6
  MaxRestarts = 2
  MaxExports = 1
  RecordHist = FALSE
VIEW View
INVARIANT TypeOK
PROPERTY HeightMonotone
CHECK_DEADLOCK FALSE
