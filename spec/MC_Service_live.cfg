SPECIFICATION LiveSpec
CONSTANTS
  RecordHist = FALSE
  FixF4 = FALSE
  FixF36 = TRUE
  Users = {"u1", "u2", "u3"}
  Consumers = {"u3"}
  Actors = {"u3"}
  MaxH = 5
  MaxCtx = 1
  InitBal = 12
  TaxNum = 1
  TaxDen = 2
  SlashNum = 1
  SlashDen = 2
  MaxTimeout = 2
  MinMult = 1
  MinDepP = 2
  Wait = 2
  FeeCaps = {4}
  Timeouts = {1}
  Freqs = {0, 2}
  Totals = {2}
  RepeatedVals = {TRUE, FALSE}
  Modules = FALSE
  BindOps = FALSE
  MDenoms = {"stake"}
  InitBtc = 0
  RateN = 0
  RateD = 1
  RateVals <- RateValsNone
  SetupSpec <- SetupA
  ProvSeqs <- ProvSeqsA
  UpdateSpecs <- UpdateSpecsNone
PROPERTIES
  Live_NextBatch
CHECK_DEADLOCK FALSE
