SPECIFICATION MathSpec
CONSTANTS
  Users = {"u1", "u2", "u3"}
  MinUnitsC = {"maa"}
  RecordHist = FALSE
  Owners = {"u1"}
  Symbols = {"aaa"}
  Scales = {1}
  Initials = {0, 2}
  Maxes = {3}
  Amounts = {5, 10}
  EditMaxes = {0, 1, 3}
  EditMint = {"", "true", "false"}
  MintTo = {"", "u3"}
  TransferTo = {"u2", "feepool"}
  MaxTokens = 1
  InitStake = 9
  BaseFee = 5
  TaxNum = 2
  TaxDen = 5
  MintNum = 1
  MintDen = 2
  TaxNums = {2}
  Acts = {"Issue", "Edit", "TransferOwner", "Mint", "Burn"}
  Prologue = "none"
  PScaleA = 1
  PScaleB = 0
  ConvAmounts = {}
  ConvTo = {}
  RegIn = ""
  RegOut = ""
  RegRn = 1
  RegRd = 1
  SwapAmounts = {}
  MaxRej = 2
  Sample = FALSE
  InitIbc = 0
  DeployExtra = {}
  HookVariants = {}
  UpgradeTo = {}
  MathMaxIn = 200
  MathScales = {0, 1, 2, 3}
VIEW MathView
INVARIANTS
  Inv_Math_Report
  Inv_Math_Exact
  Inv_Math_NoOverBurn
  Inv_Math_Worth
  Inv_Math_ExactAtOne
  Inv_Math_Dust
CHECK_DEADLOCK FALSE
