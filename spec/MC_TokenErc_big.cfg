SPECIFICATION Spec
CONSTANTS
  Users = {"u1", "u2", "evrevert", "evshort"}
  MinUnitsC = {"maa", "mbb"}
  RecordHist = FALSE
  Owners = {}
  Symbols = {}
  Scales = {}
  Initials = {}
  Maxes = {}
  Amounts = {}
  EditMaxes = {}
  EditMint = {}
  MintTo = {}
  TransferTo = {}
  MaxTokens = 2
  InitStake = 9
  BaseFee = 5
  TaxNum = 2
  TaxDen = 5
  MintNum = 1
  MintDen = 2
  TaxNums = {2}
  Acts = {"SwapFee", "Deploy", "ToERC20", "FromERC20", "Hook", "SetParams"}
  Prologue = "erc"
  PScaleA = 1
  PScaleB = 0
  ConvAmounts = {0, 10, 20}
  ConvTo = {"u2", "evshort", "feepool"}
  RegIn = "maa"
  RegOut = "mbb"
  RegRn = 3
  RegRd = 2
  SwapAmounts = {3, 7, 10}
  MaxRej = 2
  Sample = FALSE
  MathMaxIn = 0
  MathScales = {0}
VIEW View
PROPERTIES
  Act_C09_IdentityGh
  Act_C09_Identity
  Act_Rejected_NoEffect
  Act_C10_ToERC20
  Act_C10_FromERC20
  Act_C10_Hook
  Act_C10_SumConst
  Act_C10_FailAtomic
  Act_C10_SwapSettle
  Act_C10_ExactAtOne
  Act_C10_NoOverBurn
  Act_C10_Worth
  Act_C10_Dust
CHECK_DEADLOCK FALSE
