---------------------------- MODULE SwapClauses ----------------------------
(* C10 fee-token swap clauses as pure integer arithmetic over explicit decimal
   weights, shared by TokenMath.tla (TLC, weights computed by Pow10) and the
   generated big-number modules (Apalache/Z3, weights are literals).
   One input min-unit is worth rn*wOut/(rd*wIn) output min-units, where
   wIn = 10^max(0,sIn-sOut), wOut = 10^max(0,sOut-sIn). *)
EXTENDS Integers

\* @type: (Int, Int, Int) => Bool;
Swap_NoOverBurnW(input, burn, mint) == 0 <= burn /\ burn <= input /\ mint >= 0
\* @type: (Int, Int, Int, Int, Int, Int) => Bool;
Swap_WorthW(burn, mint, rn, rd, wIn, wOut) == mint * rd * wIn <= burn * rn * wOut
\* @type: (Int, Int, Int, Int, Int, Int) => Bool;
Swap_ExactAtOneW(burn, mint, rn, rd, wIn, wOut) == (rn = rd) => burn * wOut = mint * wIn
\* @type: (Int, Int, Int, Int, Int, Int) => Bool;
Swap_DustW(input, burn, rn, rd, wIn, wOut) == (input - burn) * rn * wOut < rd * wIn
=============================================================================
