---------------------------- MODULE OracleTrace ----------------------------
(***************************************************************************)
(* Validation of traces recorded from the real oracle module (and the      *)
(* service module underneath) against Oracle.tla.  See RandomTrace.tla.    *)
(***************************************************************************)
EXTENDS Oracle

VARIABLES l, pre, drift, driftAt,
          pgh      \* the ghosts before the event (the history-based twins C17_*H read them with the event)
tvars == <<st, ev, gh, hist, l, pre, drift, driftAt, pgh>>

Trace == ndJsonDeserialize(IOEnv.TRACE_FILE)

FromLog(r) ==
  [h |-> r.h, inb |-> r.inb, now |-> r.now,
   feeds |-> r.feeds, values |-> r.values, vb |-> r.vb, idx |-> r.idx,
   ctx |-> r.ctx, nctx |-> r.nctx, bind |-> r.bind, earned |-> r.earned, bal |-> r.bal,
   params |-> r.params, xbind |-> r.xbind, qBad |-> r.qBad, gvBad |-> r.gvBad, fmtBad |-> r.fmtBad]

TraceInit ==
  /\ Trace[1].ev.name = "Init"
  /\ st = FromLog(Trace[1].st) /\ pre = FromLog(Trace[1].st)
  /\ ev = Trace[1].ev /\ gh = GhostInit /\ pgh = GhostInit /\ hist = <<>>
  /\ l = 2 /\ drift = 0 /\ driftAt = 0

Predicted(s, e) ==
  LET r == Apply(s, e) IN [st |-> r.st, ok |-> r.ok, panic |-> r.panic, code |-> r.code]

Observed(e, t) == [st |-> t, ok |-> e.ok, panic |-> e.panic, code |-> e.code]

TraceNext ==
  /\ l <= Len(Trace)
  /\ LET e == Trace[l].ev
         t == FromLog(Trace[l].st)
     IN /\ ev' = e /\ st' = t
        /\ IF e.name = "Init"
           THEN /\ gh' = GhostInit /\ pgh' = GhostInit /\ pre' = t
                /\ UNCHANGED <<drift, driftAt>>
           ELSE /\ gh' = GhostStep(gh, st, e, t) /\ pgh' = gh /\ pre' = st
                /\ LET d == (~e.halt) /\ Predicted(st, e) # Observed(e, t) IN
                   /\ drift' = drift + (IF d THEN 1 ELSE 0)
                   /\ driftAt' = IF d /\ driftAt = 0 THEN l ELSE driftAt
  /\ l' = l + 1
  /\ UNCHANGED hist

TraceSpec == TraceInit /\ [][TraceNext]_tvars

-----------------------------------------------------------------------------
Clauses ==
  [C17_Append |-> C17_Append(pre, ev, st),
   C17_Aggregate |-> C17_Aggregate(pre, ev, st),
   C17_History |-> C17_History(pre, ev, st),
   C17_StateMirror |-> C17_StateMirror(st),
   C17_Authority |-> C17_Authority(pre, ev),
   C17_AppendH |-> C17_AppendH(pgh, pre, ev, st),
   C17_AggregateH |-> C17_AggregateH(pgh, pre, ev, st),
   C17_HistoryH |-> C17_HistoryH(pgh, pre, ev, st),
   C17_StateMirrorH |-> C17_StateMirrorH(gh, ev, st),
   C17_AuthorityH |-> C17_AuthorityH(pgh, ev),
   C13_NoHalt |-> C13_NoHalt(ev),
   Rejected_NoEffect |-> Rejected_NoEffect(pre, ev, st),
   X17_PriceService |-> X17_PriceService(pre, ev),
   X17_RateGate |-> X17_RateGate(pre, ev, st),
   X17_EditApplied |-> X17_EditApplied(pre, ev, st),
   X17_EditRejects |-> X17_EditRejects(pre, ev),
   X17_Restart |-> X17_Restart(pre, ev, st)]

Failing == IF ev.name = "Init" \/ ev.halt
           THEN (IF ev.halt THEN {"C13_NoHalt"} ELSE {})
           ELSE {c \in DOMAIN Clauses : ~Clauses[c]}

Monitor == Failing = {} \/ PrintT(<<"CLAUSE-FAIL", l - 1, Failing, Apply(pre, ev).why>>)

AppendingBy(agg) == {f \in Appending(pre, ev, st) : pre.feeds[f].agg = agg}
Exercised ==
  IF ev.name = "Init" THEN {} ELSE
  {c \in {"append_respond", "append_expiry", "agg_max", "agg_min", "agg_avg", "agg_negative", "below_threshold",
          "trim", "edit_shrink", "edit_grow", "edit_ok", "start_ok", "pause_ok", "auto_pause", "unauthorized",
          "reject", "some_invalid", "create_ok", "svc_direct",
          "price_200", "price_400", "price_401", "price_402", "bindx_ok", "bindx_norate", "edit_context",
          "edit_invalid", "restart_after_autopause"} :
     CASE c = "append_respond" -> ev.name = "Respond" /\ Appending(pre, ev, st) # {}
       [] c = "append_expiry" -> ev.name = "EndBlock" /\ Appending(pre, ev, st) # {}
       [] c = "agg_max" -> AppendingBy("max") # {}
       [] c = "agg_min" -> AppendingBy("min") # {}
       [] c = "agg_avg" -> \E f \in AppendingBy("avg") : Cardinality(DOMAIN ValidOut(pre, ev, pre.feeds[f].ctx)) >= 2
       [] c = "agg_negative" -> \E f \in Appending(pre, ev, st) :
                                  \E x \in ValsOf(ValidOut(pre, ev, pre.feeds[f].ctx)) : x < 0
       [] c = "some_invalid" -> \E f \in Appending(pre, ev, st) :
                                  Cardinality(DOMAIN ValidOut(pre, ev, pre.feeds[f].ctx)) < pre.ctx[pre.feeds[f].ctx].reqN
       [] c = "below_threshold" -> \E f \in DOMAIN pre.feeds :
                                  Completed(pre, st, pre.feeds[f].ctx) /\ ~MetThreshold(pre, ev, pre.feeds[f].ctx)
                                  /\ pre.ctx[pre.feeds[f].ctx].reqN > 0
       [] c = "trim" -> \E f \in Appending(pre, ev, st) : Len(pre.values[f]) = pre.feeds[f].lh
       [] c = "edit_shrink" -> ev.name = "EditFeed" /\ ev.ok /\ Len(st.values[ev.feed]) < Len(pre.values[ev.feed])
       [] c = "edit_grow" -> ev.name = "EditFeed" /\ ev.ok /\ st.feeds[ev.feed].lh > pre.feeds[ev.feed].lh
       [] c = "edit_ok" -> ev.name = "EditFeed" /\ ev.ok
       [] c = "start_ok" -> ev.name = "StartFeed" /\ ev.ok
       [] c = "pause_ok" -> ev.name = "PauseFeed" /\ ev.ok
       [] c = "create_ok" -> ev.name = "CreateFeed" /\ ev.ok
       [] c = "auto_pause" -> ev.name = "EndBlock" /\ \E f \in DOMAIN pre.feeds :
                                  pre.ctx[pre.feeds[f].ctx].state = "running" /\ st.ctx[st.feeds[f].ctx].state = "paused"
       [] c = "unauthorized" -> ev.name \in {"StartFeed", "PauseFeed", "EditFeed"} /\ ~ev.ok
                                  /\ ev.feed \in DOMAIN pre.feeds /\ ev.who # pre.feeds[ev.feed].creator
       [] c = "svc_direct" -> ev.name = "SvcDirect" /\ ev.feed \in DOMAIN pre.feeds
       [] c = "price_200" -> ev.name = "CallPrice" /\ ev.code = 200
       [] c = "price_400" -> ev.name = "CallPrice" /\ ev.code = 400
       [] c = "price_401" -> ev.name = "CallPrice" /\ ev.code = 401
       [] c = "price_402" -> ev.name = "CallPrice" /\ ev.code = 402
       [] c = "bindx_ok" -> ev.name = "BindX" /\ ev.ok
       [] c = "bindx_norate" -> ev.name = "BindX" /\ ~ev.ok /\ Apply(pre, ev).why = "no_rate"
       [] c = "edit_context" -> ev.name = "EditFeed" /\ ev.ok
                                  /\ (ev.timeout # 0 \/ ev.freq # 0 \/ ev.cap # 0 \/ ev.thr # 0 \/ Len(ev.provs) # 0)
       [] c = "edit_invalid" -> ev.name = "EditFeed" /\ ~ev.ok /\ ev.feed \in DOMAIN pre.feeds
                                  /\ ev.who = pre.feeds[ev.feed].creator
       [] c = "restart_after_autopause" -> gh.restart
       [] c = "reject" -> ~ev.ok}
(***************************************************************************)
(* Round 7 (negative probing): every feed command x the state of the feed  *)
(* it addresses x the sender's role, as "m_<cmd>_<state>_<role>", and the  *)
(* unusual inputs.  States of a feed before the event: paused (by its      *)
(* creator, or never started), autop (paused for lack of funds), idle      *)
(* (running, no batch), open0 / openN (batch in flight with no / some      *)
(* answers), full (every provider asked has answered, the batch waits for  *)
(* its expiration height).  Roles: creator, prov (a bound provider), other.*)
(***************************************************************************)
FeedClass(f) ==
  LET cx == pre.ctx[pre.feeds[f].ctx] IN
  IF cx.state = "paused"
  THEN (IF f \in gh.autop \/ (ev.name = "StartFeed" /\ ev.ok /\ gh.restart) THEN "autop" ELSE "paused")
  ELSE IF cx.reqN > 0 /\ ~cx.bdone THEN (IF cx.respN = 0 THEN "open0" ELSE "openN")
  ELSE IF cx.reqN > 0 /\ cx.expAt # 0 THEN "full"
  ELSE "idle"
RoleOf(f) ==
  IF ev.who = pre.feeds[f].creator THEN "creator" ELSE IF ev.who \in DOMAIN pre.bind THEN "prov" ELSE "other"
CmdOf == CASE ev.name = "StartFeed" -> "start" [] ev.name = "PauseFeed" -> "pause" [] OTHER -> "edit"
Matrix ==
  IF ev.name \in {"StartFeed", "PauseFeed", "EditFeed"} /\ ev.feed \in DOMAIN pre.feeds
       /\ pre.feeds[ev.feed].ctx \in DOMAIN pre.ctx
  THEN {"m_" \o CmdOf \o "_" \o FeedClass(ev.feed) \o "_" \o RoleOf(ev.feed)}
  ELSE {}
OddProv(q) == \E i \in DOMAIN q : ProvOf(q[i]) # q[i]
(* (guards: the antecedents must be evaluable on whatever state a broken tree produces) *)
HasCtx(f) == f \in DOMAIN pre.feeds /\ pre.feeds[f].ctx \in DOMAIN pre.ctx
ReqsOf(f) == pre.ctx[pre.feeds[f].ctx].reqs
Probes ==
  IF ev.name = "Init" THEN {} ELSE
  (IF ev.name = "Respond" /\ ev.pay # "" THEN {"pay_" \o ev.pay} ELSE {}) \cup
  {c \in {"pay_zero_counts", "odd_prov_ok", "odd_prov_rej", "bad_prov_create_rej", "bad_prov_edit_rej", "bad_name_rej", "case_twin_ok", "unknown_name_cmd",
          "cap_denom_rej", "respond_stranger", "respond_expiry_block", "respond_late", "respond_twice",
          "complete_after_edit", "nested_path", "index_path", "create_invalid", "create_by_prov",
          "svc_name_rej", "agg_case_rej", "nan_skipped"} :
     CASE c = "pay_zero_counts" -> ev.name = "Respond" /\ ev.pay \in ZeroPays /\ ev.feed \in Appending(pre, ev, st)
       [] c = "odd_prov_ok" -> ev.name \in {"CreateFeed", "EditFeed"} /\ ev.ok /\ OddProv(ev.provs)
       [] c = "odd_prov_rej" -> ev.name \in {"CreateFeed", "EditFeed"} /\ ~ev.ok /\ OddProv(ev.provs)
                                  /\ Apply(pre, ev).why = "duplicate_providers"
       [] c = "bad_prov_create_rej" -> ev.name = "CreateFeed" /\ ~ev.ok /\ HasBadProv(ev.provs)
       [] c = "bad_prov_edit_rej" -> ev.name = "EditFeed" /\ ~ev.ok /\ HasBadProv(ev.provs)
                                  /\ ev.feed \in DOMAIN pre.feeds /\ ev.who = pre.feeds[ev.feed].creator
       [] c = "bad_name_rej" -> ev.name = "CreateFeed" /\ ev.feed \in BadFeedNames
       [] c = "case_twin_ok" -> ev.name = "CreateFeed" /\ ev.ok /\ ev.feed = "FA" /\ "fa" \in DOMAIN pre.feeds
       [] c = "unknown_name_cmd" -> ev.name \in {"StartFeed", "PauseFeed", "EditFeed", "Respond", "SvcDirect"}
                                  /\ ev.feed \notin DOMAIN pre.feeds /\ pre.feeds # <<>>
       [] c = "cap_denom_rej" -> ev.name \in {"CreateFeed", "EditFeed"} /\ ev.pay \in CapPays /\ ev.cap > 0
       [] c = "respond_stranger" -> ev.name = "Respond" /\ HasCtx(ev.feed) /\ ev.who \notin DOMAIN pre.bind
                                  /\ DOMAIN ReqsOf(ev.feed) # {}
       [] c = "respond_expiry_block" -> ev.name = "Respond" /\ ev.ok /\ HasCtx(ev.feed)
                                  /\ ev.who \in DOMAIN ReqsOf(ev.feed) /\ ReqsOf(ev.feed)[ev.who].exp = pre.h
       [] c = "respond_late" -> ev.name = "Respond" /\ HasCtx(ev.feed) /\ ev.who \in DOMAIN pre.bind
                                  /\ DOMAIN ReqsOf(ev.feed) = {} /\ pre.ctx[pre.feeds[ev.feed].ctx].bcount > 0
       [] c = "respond_twice" -> ev.name = "Respond" /\ HasCtx(ev.feed)
                                  /\ ev.who \in DOMAIN ReqsOf(ev.feed) /\ ~ReqsOf(ev.feed)[ev.who].act
       [] c = "complete_after_edit" -> \E f \in Appending(pre, ev, st) :
                                  pre.ctx[pre.feeds[f].ctx].bthr # pre.ctx[pre.feeds[f].ctx].thr
       [] c = "nested_path" -> ev.name = "CreateFeed" /\ ev.ok /\ ev.pay = "nested"
       [] c = "index_path" -> ev.name = "CreateFeed" /\ ev.ok /\ ev.pay = "index"
       [] c = "create_invalid" -> ev.name = "CreateFeed" /\ ~ev.ok /\ ev.feed \notin DOMAIN pre.feeds
                                  /\ ev.feed \notin BadFeedNames
       [] c = "nan_skipped" -> \E f \in Appending(pre, ev, st) :
                                  NaNOut(pre, ev, pre.feeds[f].ctx) # {} /\ DOMAIN ValidOut(pre, ev, pre.feeds[f].ctx) # {}
       [] c = "svc_name_rej" -> ev.name = "CreateFeed" /\ ev.pay \in SvcPays
       [] c = "agg_case_rej" -> ev.name = "CreateFeed" /\ ev.agg = "MAX"
       [] c = "create_by_prov" -> ev.name = "CreateFeed" /\ ev.ok /\ ev.who \in DOMAIN pre.bind}
AllExercised == Exercised \cup Matrix \cup Probes
Coverage == AllExercised = {} \/ PrintT(<<"EXERCISED", AllExercised>>)

Report == (l = Len(Trace) + 1) => PrintT(<<"TRACE-END", Len(Trace), drift, driftAt>>)

DriftReport == (drift > 0 /\ driftAt = l - 1) =>
  PrintT(<<"DRIFT", driftAt, ev.name, [who |-> ev.who, feed |-> ev.feed, kind |-> ev.kind, x |-> ev.x, ok |-> ev.ok]>>)

TraceAccepted == TLCGet("stats").diameter = Len(Trace)

Alias == [l |-> l, ev |-> ev]
=============================================================================
