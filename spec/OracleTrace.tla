---------------------------- MODULE OracleTrace ----------------------------
(***************************************************************************)
(* Validation of traces recorded from the real oracle module (and the      *)
(* service module underneath) against Oracle.tla.  See RandomTrace.tla.    *)
(***************************************************************************)
EXTENDS Oracle

VARIABLES l, pre, drift, driftAt
tvars == <<st, ev, gh, hist, l, pre, drift, driftAt>>

Trace == ndJsonDeserialize(IOEnv.TRACE_FILE)

FromLog(r) ==
  [h |-> r.h, inb |-> r.inb, now |-> r.now,
   feeds |-> r.feeds, values |-> r.values, vb |-> r.vb, idx |-> r.idx,
   ctx |-> r.ctx, nctx |-> r.nctx, bind |-> r.bind, earned |-> r.earned, bal |-> r.bal,
   params |-> r.params, xbind |-> r.xbind, qBad |-> r.qBad, gvBad |-> r.gvBad, fmtBad |-> r.fmtBad]

TraceInit ==
  /\ Trace[1].ev.name = "Init"
  /\ st = FromLog(Trace[1].st) /\ pre = FromLog(Trace[1].st)
  /\ ev = Trace[1].ev /\ gh = GhostInit /\ hist = <<>>
  /\ l = 2 /\ drift = 0 /\ driftAt = 0

Predicted(s, e) ==
  LET r == Apply(s, e) IN [st |-> r.st, ok |-> r.ok, panic |-> r.panic, code |-> r.code]

Observed(e, t) == [st |-> t, ok |-> e.ok, panic |-> e.panic, code |-> e.code]

TraceNext ==
  /\ l <= Len(Trace)
  /\ LET e == Trace[l].ev
         t == FromLog(Trace[l].st)
     IN /\ ev' = e /\ st' = t
        /\ IF e.name = "Init"
           THEN /\ gh' = GhostInit /\ pre' = t
                /\ UNCHANGED <<drift, driftAt>>
           ELSE /\ gh' = GhostStep(gh, st, e, t) /\ pre' = st
                /\ LET d == (~e.halt) /\ Predicted(st, e) # Observed(e, t) IN
                   /\ drift' = drift + (IF d THEN 1 ELSE 0)
                   /\ driftAt' = IF d /\ driftAt = 0 THEN l ELSE driftAt
  /\ l' = l + 1
  /\ UNCHANGED hist

TraceSpec == TraceInit /\ [][TraceNext]_tvars

-----------------------------------------------------------------------------
Clauses ==
  [C17_Append |-> C17_Append(pre, ev, st),
   C17_Aggregate |-> C17_Aggregate(pre, ev, st),
   C17_History |-> C17_History(pre, ev, st),
   C17_StateMirror |-> C17_StateMirror(st),
   C17_Authority |-> C17_Authority(pre, ev),
   C13_NoHalt |-> C13_NoHalt(ev),
   Rejected_NoEffect |-> Rejected_NoEffect(pre, ev, st),
   X17_PriceService |-> X17_PriceService(pre, ev),
   X17_RateGate |-> X17_RateGate(pre, ev, st),
   X17_EditApplied |-> X17_EditApplied(pre, ev, st),
   X17_EditRejects |-> X17_EditRejects(pre, ev),
   X17_Restart |-> X17_Restart(pre, ev, st)]

Failing == IF ev.name = "Init" \/ ev.halt
           THEN (IF ev.halt THEN {"C13_NoHalt"} ELSE {})
           ELSE {c \in DOMAIN Clauses : ~Clauses[c]}

Monitor == Failing = {} \/ PrintT(<<"CLAUSE-FAIL", l - 1, Failing, Apply(pre, ev).why>>)

AppendingBy(agg) == {f \in Appending(pre, ev, st) : pre.feeds[f].agg = agg}
Exercised ==
  IF ev.name = "Init" THEN {} ELSE
  {c \in {"append_respond", "append_expiry", "agg_max", "agg_min", "agg_avg", "agg_negative", "below_threshold",
          "trim", "edit_shrink", "edit_grow", "edit_ok", "start_ok", "pause_ok", "auto_pause", "unauthorized",
          "reject", "some_invalid", "create_ok", "svc_direct",
          "price_200", "price_400", "price_401", "price_402", "bindx_ok", "bindx_norate", "edit_context",
          "edit_invalid", "restart_after_autopause"} :
     CASE c = "append_respond" -> ev.name = "Respond" /\ Appending(pre, ev, st) # {}
       [] c = "append_expiry" -> ev.name = "EndBlock" /\ Appending(pre, ev, st) # {}
       [] c = "agg_max" -> AppendingBy("max") # {}
       [] c = "agg_min" -> AppendingBy("min") # {}
       [] c = "agg_avg" -> \E f \in AppendingBy("avg") : Cardinality(DOMAIN ValidOut(pre, ev, pre.feeds[f].ctx)) >= 2
       [] c = "agg_negative" -> \E f \in Appending(pre, ev, st) :
                                  \E x \in ValsOf(ValidOut(pre, ev, pre.feeds[f].ctx)) : x < 0
       [] c = "some_invalid" -> \E f \in Appending(pre, ev, st) :
                                  Cardinality(DOMAIN ValidOut(pre, ev, pre.feeds[f].ctx)) < pre.ctx[pre.feeds[f].ctx].reqN
       [] c = "below_threshold" -> \E f \in DOMAIN pre.feeds :
                                  Completed(pre, st, pre.feeds[f].ctx) /\ ~MetThreshold(pre, ev, pre.feeds[f].ctx)
                                  /\ pre.ctx[pre.feeds[f].ctx].reqN > 0
       [] c = "trim" -> \E f \in Appending(pre, ev, st) : Len(pre.values[f]) = pre.feeds[f].lh
       [] c = "edit_shrink" -> ev.name = "EditFeed" /\ ev.ok /\ Len(st.values[ev.feed]) < Len(pre.values[ev.feed])
       [] c = "edit_grow" -> ev.name = "EditFeed" /\ ev.ok /\ st.feeds[ev.feed].lh > pre.feeds[ev.feed].lh
       [] c = "edit_ok" -> ev.name = "EditFeed" /\ ev.ok
       [] c = "start_ok" -> ev.name = "StartFeed" /\ ev.ok
       [] c = "pause_ok" -> ev.name = "PauseFeed" /\ ev.ok
       [] c = "create_ok" -> ev.name = "CreateFeed" /\ ev.ok
       [] c = "auto_pause" -> ev.name = "EndBlock" /\ \E f \in DOMAIN pre.feeds :
                                  pre.ctx[pre.feeds[f].ctx].state = "running" /\ st.ctx[st.feeds[f].ctx].state = "paused"
       [] c = "unauthorized" -> ev.name \in {"StartFeed", "PauseFeed", "EditFeed"} /\ ~ev.ok
                                  /\ ev.feed \in DOMAIN pre.feeds /\ ev.who # pre.feeds[ev.feed].creator
       [] c = "svc_direct" -> ev.name = "SvcDirect" /\ ev.feed \in DOMAIN pre.feeds
       [] c = "price_200" -> ev.name = "CallPrice" /\ ev.code = 200
       [] c = "price_400" -> ev.name = "CallPrice" /\ ev.code = 400
       [] c = "price_401" -> ev.name = "CallPrice" /\ ev.code = 401
       [] c = "price_402" -> ev.name = "CallPrice" /\ ev.code = 402
       [] c = "bindx_ok" -> ev.name = "BindX" /\ ev.ok
       [] c = "bindx_norate" -> ev.name = "BindX" /\ ~ev.ok /\ Apply(pre, ev).why = "no_rate"
       [] c = "edit_context" -> ev.name = "EditFeed" /\ ev.ok
                                  /\ (ev.timeout # 0 \/ ev.freq # 0 \/ ev.cap # 0 \/ ev.thr # 0 \/ Len(ev.provs) # 0)
       [] c = "edit_invalid" -> ev.name = "EditFeed" /\ ~ev.ok /\ ev.feed \in DOMAIN pre.feeds
                                  /\ ev.who = pre.feeds[ev.feed].creator
       [] c = "restart_after_autopause" -> gh.restart
       [] c = "reject" -> ~ev.ok}
Coverage == Exercised = {} \/ PrintT(<<"EXERCISED", Exercised>>)

Report == (l = Len(Trace) + 1) => PrintT(<<"TRACE-END", Len(Trace), drift, driftAt>>)

DriftReport == (drift > 0 /\ driftAt = l - 1) =>
  PrintT(<<"DRIFT", driftAt, ev.name, [who |-> ev.who, feed |-> ev.feed, kind |-> ev.kind, x |-> ev.x, ok |-> ev.ok]>>)

TraceAccepted == TLCGet("stats").diameter = Len(Trace)

Alias == [l |-> l, ev |-> ev]
=============================================================================
