SPECIFICATION GenSpec
CONSTANTS
  Users = {"u1", "u2", "evrevert", "evshort", "evnokey"}
  MinUnitsC = {"maa", "mbb", "ibc/x1"}
  RecordHist = TRUE
  Owners = {}
  Symbols = {}
  Scales = {}
  Initials = {}
  Maxes = {}
  Amounts = {5, 10}
  EditMaxes = {}
  EditMint = {}
  MintTo = {"", "u2", "evrevert", "evshort"}
  TransferTo = {}
  MaxTokens = 2
  InitStake = 40
  BaseFee = 5
  TaxNum = 2
  TaxDen = 5
  MintNum = 1
  MintDen = 2
  TaxNums = {2}
  Acts = {"SwapFee", "Deploy", "ToERC20", "FromERC20", "Hook", "SetParams", "Mint", "Burn", "Upgrade"}
  Prologue = "erc"
  PScaleA = 1
  PScaleB = 0
  ConvAmounts = {0, 3, 10, 20}
  ConvTo = {"u1", "u2", "evshort", "feepool"}
  RegIn = "maa"
  RegOut = "mbb"
  RegRn = 3
  RegRd = 2
  SwapAmounts = {1, 3, 7, 10, 20}
  MaxRej = 5
  Sample = TRUE
  InitIbc = 20
  DeployExtra = {"stake", "ibc/x1", "nope"}
  HookVariants = {"unbound", "topics2", "otherevent", "badto", "baddata"}
  UpgradeTo = {"u1", "x1", "evrevert"}
  MathMaxIn = 0
  MathScales = {0}
CONSTRAINT GenConstraint
CHECK_DEADLOCK FALSE
