--------------------------- MODULE GenesisTrace ---------------------------
(***************************************************************************)
(* Validation of genesis round-trip traces of the real code (C12).         *)
(* One ndjson line per event, written by harness/cmd/genesis:              *)
(*   Init              a new history (rec = recording / scenario)          *)
(*   Block             the source chain executed block h                   *)
(*   GenesisRoundTrip  at height h, in mode (asis | zeroheight): exported, *)
(*                     accepted (InitChain + first block of a fresh        *)
(*                     application built from the export), invariants_ok   *)
(*                     (the registered module invariants on the imported   *)
(*                     state), res.fixpoint[m] (export(import(export)) =   *)
(*                     export, canonical JSON, per irismod module),        *)
(*                     res.durable[m] (every gRPC query about every        *)
(*                     durable object of the source answered identically   *)
(*                     by the imported chain, modulo the documented        *)
(*                     zero-height transformation — Genesis!ZeroHeight),   *)
(*                     res.lost / res.diff (ids), res.nobj (objects)       *)
(*   Continuation      the as-is import taken at h0 executed the recorded  *)
(*                     blocks h0+1..h; res.durable[m] compares it with the *)
(*                     source at h                                         *)
(* monitor: the clauses of Genesis.tla evaluated on every event — the      *)
(*          verdicts come from here.                                       *)
(* strict:  the events must follow the history position (a round trip is   *)
(*          taken at the height of the last block, blocks are consecutive, *)
(*          a continuation ends at the source's height); a mismatch is     *)
(*          DRIFT (harness bookkeeping), never a verdict.                  *)
(***************************************************************************)
EXTENDS Genesis, Json, IOUtils

VARIABLES l, cur, pos, drift, driftAt
tvars == <<src, gen, imp, ev, l, cur, pos, drift, driftAt>>

Trace == ndJsonDeserialize(IOEnv.TRACE_FILE)

TraceInit ==
  /\ Trace[1].ev.name = "Init"
  /\ l = 2 /\ cur = Trace[1].ev /\ ev = Trace[1].ev /\ pos = 0
  /\ drift = 0 /\ driftAt = 0
  /\ src = EmptyChain /\ gen = NoGen /\ imp = NoImp

(* strict mode: does the event fit the position in the history? *)
Fits(e, p) ==
  CASE e.name = "Init" -> TRUE
    [] e.name = "Block" -> p = 0 \/ e.h = p + 1
    [] e.name = "GenesisRoundTrip" -> e.h = p /\ e.mode \in {"asis", "zeroheight"}
    [] e.name = "Continuation" -> e.h = p /\ e.h0 < e.h /\ e.nblocks = e.h - e.h0
    [] OTHER -> FALSE

TraceNext ==
  /\ l <= Len(Trace)
  /\ LET e == Trace[l].ev IN
     /\ cur' = e /\ ev' = e
     /\ pos' = IF e.name = "Init" THEN 0 ELSE IF e.name = "Block" /\ ~e.halt THEN e.h ELSE pos
     /\ LET d == ~Fits(e, pos) IN
        /\ drift' = drift + (IF d THEN 1 ELSE 0)
        /\ driftAt' = IF d /\ driftAt = 0 THEN l ELSE driftAt
  /\ l' = l + 1
  /\ UNCHANGED <<src, gen, imp>>

TraceSpec == TraceInit /\ [][TraceNext]_tvars

-----------------------------------------------------------------------------
Clauses == [C12_Accepted |-> C12_Accepted(cur),
            C12_Fixpoint |-> C12_Fixpoint(cur),
            C12_Durable |-> C12_Durable(cur),
            C12_Continuation |-> C12_Continuation(cur)]
Failing == {c \in DOMAIN Clauses : ~Clauses[c]}

(* module:mode of the first failing module (fixed module order); for a
   rejected import the module whose genesis section makes InitChain fail *)
FirstFalse(f) ==
  LET idx == {k \in DOMAIN ModOrder : ModOrder[k] \in DOMAIN f /\ ~f[ModOrder[k]]}
  IN IF idx = {} THEN "" ELSE ModOrder[CHOOSE k \in idx : \A j \in idx : k <= j]
Why(e) ==
  IF ~C12_Accepted(e)
  THEN (IF e.culprit # "" THEN e.culprit ELSE IF e.stage # "" THEN e.stage ELSE "invariants") \o ":" \o e.mode
  ELSE IF ~C12_Fixpoint(e) THEN FirstFalse(e.res.fixpoint) \o ":" \o e.mode
  ELSE FirstFalse(e.res.durable) \o ":" \o e.mode

Monitor == Failing = {} \/ PrintT(<<"CLAUSE-FAIL", l - 1, Failing, Why(cur)>>)

(* vacuity: which modes ran, and which modules had objects to preserve *)
NonEmpty(e) == {m \in DOMAIN e.res.nobj : e.res.nobj[m] > 0}
Exercised ==
  IF IsRT(cur)
  THEN {cur.mode} \cup {"nonempty_" \o m : m \in NonEmpty(cur)}
                  \cup {"nonempty_" \o m \o "_" \o cur.mode : m \in NonEmpty(cur)}
  ELSE IF IsCont(cur)
  THEN {"continuation"} \cup {"continued_" \o m : m \in NonEmpty(cur)}
  ELSE {}
Coverage == Exercised = {} \/ PrintT(<<"EXERCISED", Exercised>>)

Report == (l = Len(Trace) + 1) => PrintT(<<"TRACE-END", Len(Trace), drift, driftAt>>)
DriftReport == (drift > 0 /\ driftAt = l - 1) => PrintT(<<"DRIFT", driftAt, cur.name, cur.h>>)
TraceAccepted == TLCGet("stats").diameter = Len(Trace)
=============================================================================
