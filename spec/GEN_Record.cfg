SPECIFICATION GenSpec
CONSTANTS
  Users = {"u1", "u2"}
  Contents = {"a", "b"}
  MaxMsgs = 3
  MaxRec = 40
  MaxTx = 40
  IdScheme = "counter"
  RecordHist = TRUE
CONSTRAINT GenConstraint
CHECK_DEADLOCK FALSE
