SPECIFICATION GenSpec
CONSTANTS
  Users = {"u1", "u2"}
  Contents = {"a", "a~1", "a+a~1", "a+a", "a^md5+a", "b+a", "a+b", "b~e+b~L+b+b^md5", "a~w+a", "b~c+b~w"}
  MaxMsgs = 2
  MaxRec = 40
  MaxTx = 40
  IdScheme = "counter"
  RecordHist = TRUE
CONSTRAINT GenConstraint
CHECK_DEADLOCK FALSE
