---------------------------- MODULE RecordTrace ----------------------------
(***************************************************************************)
(* Validation of traces recorded from the real record module against       *)
(* Record.tla.  One ndjson line per event (= one transaction, or the end   *)
(* of a block): {"ev": <event+result>, "st": <projected state>}.           *)
(*                                                                         *)
(* After EVERY event the harness reads back every id ever returned.  It    *)
(* logs explicitly (st.rec) the records whose index satisfies Keep — the   *)
(* first win.first and every win.mod-th — and, for the others ("rest", in  *)
(* order of creation), a rolling hash over (id, contents digest, creator,  *)
(* tx hash) as read back now: restH over all of them, restPrevH over those *)
(* that already existed before the event.  created = what is read back     *)
(* under the ids this event returned.                                      *)
(***************************************************************************)
EXTENDS Record

VARIABLES l, pre, obs, pobs, drift, driftAt
tvars == <<st, ev, gh, hist, l, pre, obs, pobs, drift, driftAt>>

Trace == ndJsonDeserialize(IOEnv.TRACE_FILE)

FromLog(r) == [cnt |-> r.cnt, rec |-> r.rec, win |-> r.win]
ObsOf(r) == [restN |-> r.restN, restH |-> r.restH, restPrevH |-> r.restPrevH,
             created |-> r.created, orphans |-> r.orphans]

TraceInit ==
  /\ Trace[1].ev.name = "Init"
  /\ st = FromLog(Trace[1].st) /\ pre = FromLog(Trace[1].st)
  /\ obs = ObsOf(Trace[1].st) /\ pobs = ObsOf(Trace[1].st)
  /\ ev = Trace[1].ev /\ gh = GhostOf(FromLog(Trace[1].st)) /\ hist = <<>>
  /\ l = 2 /\ drift = 0 /\ driftAt = 0

Predicted(s, e) ==
  LET r == Apply(s, e) IN [st |-> r.st, ok |-> r.ok, panic |-> r.panic, ids |-> r.ids]
Observed(e, t) == [st |-> t, ok |-> e.ok, panic |-> e.panic, ids |-> e.ids]

TraceNext ==
  /\ l <= Len(Trace)
  /\ LET e == Trace[l].ev
         t == FromLog(Trace[l].st)
     IN /\ ev' = e /\ st' = t /\ obs' = ObsOf(Trace[l].st)
        /\ IF e.name = "Init"
           THEN /\ gh' = GhostOf(t) /\ pre' = t /\ pobs' = ObsOf(Trace[l].st)
                /\ UNCHANGED <<drift, driftAt>>
           ELSE /\ gh' = GhostStep(gh, st, e, t) /\ pre' = st /\ pobs' = obs
                /\ LET d == Predicted(st, e) # Observed(e, t) IN
                   /\ drift' = drift + (IF d THEN 1 ELSE 0)
                   /\ driftAt' = IF d /\ driftAt = 0 THEN l ELSE driftAt
  /\ l' = l + 1
  /\ UNCHANGED hist

TraceSpec == TraceInit /\ [][TraceNext]_tvars

-----------------------------------------------------------------------------
(* the records outside the explicit window, in aggregate: what is read back
   now under the ids that existed before equals what was read back then *)
C19_ImmutableRest == obs.restPrevH = pobs.restH /\ obs.restN >= pobs.restN

Clauses ==
  [C19_Fresh |-> C19_Fresh(pre, ev, obs.created),
   C19_Immutable |-> C19_Immutable(pre, st),
   C19_ImmutableRest |-> C19_ImmutableRest,
   C19_Unique |-> C19_Unique(gh),
   C19_Permanent |-> C19_Permanent(st, gh),
   Rejected_NoEffect |-> Rejected_NoEffect(pre, ev, st) /\ ((~ev.ok) => obs.restH = pobs.restH),
   X19_NoOrphans |-> obs.orphans = 0]

Failing == IF ev.name = "Init" THEN {} ELSE {c \in DOMAIN Clauses : ~Clauses[c]}

Monitor == Failing = {} \/ PrintT(<<"CLAUSE-FAIL", l - 1, Failing, Apply(pre, ev).why>>)

(* antecedent counters (vacuity) *)
SameIn(q) == \E i, j \in DOMAIN q : i < j /\ q[i] = q[j]
Exercised ==
  IF ev.name # "CreateRecord" THEN {} ELSE
  {c \in {"create_ok", "multi_msg", "identical_in_tx", "identical_in_block", "identical_later",
          "invalid_rej", "poison_rej", "rest_nonempty", "after_rollback",
          "fid_multi_entry", "fid_four_entries", "fid_share_digest", "fid_identical_entries",
          "fid_algo_only", "fid_empty_meta", "fid_long_meta", "fid_long_digest", "fid_reordered",
          "fid_padded", "fid_mixed_case"} :
     CASE c = "create_ok" -> ev.ok
       [] c = "multi_msg" -> ev.ok /\ Len(ev.digests) > 1
       [] c = "identical_in_tx" -> ev.ok /\ SameIn(ev.digests)
       [] c = "identical_in_block" -> gh.sameBlk
       [] c = "identical_later" -> gh.sameOld
       [] c = "invalid_rej" -> ~ev.ok /\ ~ev.poison
       [] c = "poison_rej" -> ~ev.ok /\ ev.poison
       [] c = "rest_nonempty" -> ev.ok /\ obs.restN > 0
       [] c = "after_rollback" -> gh.afterRb
       \* fidelity: shapes of the submitted entry lists (ev.shape, from the harness)
       [] c = "fid_multi_entry" -> ev.ok /\ "multi_entry" \in Range(ev.shape)
       [] c = "fid_four_entries" -> ev.ok /\ "four_entries" \in Range(ev.shape)
       [] c = "fid_share_digest" -> ev.ok /\ "share_digest" \in Range(ev.shape)
       [] c = "fid_identical_entries" -> ev.ok /\ "identical_entries" \in Range(ev.shape)
       [] c = "fid_algo_only" -> ev.ok /\ "algo_only" \in Range(ev.shape)
       [] c = "fid_empty_meta" -> ev.ok /\ "empty_meta" \in Range(ev.shape)
       [] c = "fid_long_meta" -> ev.ok /\ "long_meta" \in Range(ev.shape)
       [] c = "fid_long_digest" -> ev.ok /\ "long_digest" \in Range(ev.shape)
       [] c = "fid_reordered" -> ev.ok /\ "reordered" \in Range(ev.shape)
       [] c = "fid_padded" -> ev.ok /\ "padded" \in Range(ev.shape)
       [] c = "fid_mixed_case" -> ev.ok /\ "mixed_case" \in Range(ev.shape)}
Coverage == Exercised = {} \/ PrintT(<<"EXERCISED", Exercised>>)

Report == (l = Len(Trace) + 1) => PrintT(<<"TRACE-END", Len(Trace), drift, driftAt>>)

DriftReport == (drift > 0 /\ driftAt = l - 1) =>
  PrintT(<<"DRIFT", driftAt, ev.name, ev>>)

TraceAccepted == TLCGet("stats").diameter = Len(Trace)

Alias == [l |-> l, ev |-> ev]
=============================================================================
