----------------------------- MODULE NFTTrace -----------------------------
(***************************************************************************)
(* Validation of traces recorded from the real nft module against NFT.tla. *)
(* One ndjson line per event: {"ev": <event+result>, "st": <projected      *)
(* abstract state after the event>}.  Traces are concatenated; an "Init"   *)
(* event starts a new one.                                                 *)
(*   monitor: st' is the logged state; every property clause is evaluated  *)
(*            on (pre, ev, st); failures are printed as CLAUSE-FAIL lines. *)
(*   strict:  Apply(pre, ev) must give the logged result and state; a      *)
(*            mismatch is DRIFT, reported but never a verdict.             *)
(***************************************************************************)
EXTENDS NFT

(* pgh = the ghosts before the last event (the history's ledger the C14_Hist* step clauses judge it by) *)
VARIABLES l, pre, pgh, obs, drift, driftAt
tvars == <<st, ev, gh, hist, l, pre, pgh, obs, drift, driftAt>>

Trace == ndJsonDeserialize(IOEnv.TRACE_FILE)

SetOf(q) == {q[i] : i \in DOMAIN q}

(* logged state -> specification state (JSON arrays -> sets) *)
FromLog(r) ==
  [cls |-> r.cls, nft |-> r.nft, sup |-> r.sup, coll |-> r.coll, bal |-> r.bal,
   idx |-> [a \in DOMAIN r.idx |-> [c \in DOMAIN r.idx[a] |-> SetOf(r.idx[a][c])]]]

(* what the harness observes besides the query results of the specification's
   state: the module's registered invariant, the raw store, two more read paths *)
SetsOf(f) == [c \in DOMAIN f |-> SetOf(f[c])]
ObsOf(r) ==
  [invBroken |-> r.invBroken, exportBroken |-> r.exportBroken,
   raw |-> [cls |-> SetOf(r.raw.cls), tok |-> r.raw.tok, own |-> SetsOf(r.raw.own), sup |-> r.raw.sup,
            idx |-> [a \in DOMAIN r.raw.idx |-> SetsOf(r.raw.idx[a])]],
   q |-> [denoms |-> SetOf(r.q.denoms), idxc |-> [a \in DOMAIN r.q.idxc |-> SetsOf(r.q.idxc[a])]]]

TraceInit ==
  /\ Trace[1].ev.name = "Init"
  /\ st = FromLog(Trace[1].st) /\ pre = FromLog(Trace[1].st)
  /\ obs = ObsOf(Trace[1].st)
  /\ ev = Trace[1].ev /\ gh = GhostOf(FromLog(Trace[1].st)) /\ pgh = GhostOf(FromLog(Trace[1].st)) /\ hist = <<>>
  /\ l = 2 /\ drift = 0 /\ driftAt = 0

Predicted(s, e) ==
  LET r == Apply(s, e) IN [st |-> r.st, ok |-> r.ok, panic |-> r.panic]

Observed(e, t) == [st |-> t, ok |-> e.ok, panic |-> e.panic]

TraceNext ==
  /\ l <= Len(Trace)
  /\ LET e == Trace[l].ev
         t == FromLog(Trace[l].st)
     IN /\ ev' = e /\ st' = t /\ obs' = ObsOf(Trace[l].st)
        /\ IF e.name = "Init"
           THEN /\ gh' = GhostOf(t) /\ pgh' = GhostOf(t) /\ pre' = t
                /\ UNCHANGED <<drift, driftAt>>
           ELSE /\ gh' = CovStep(gh, st, e, t) /\ pgh' = gh /\ pre' = st
                /\ LET d == Predicted(st, e) # Observed(e, t) IN
                   /\ drift' = drift + (IF d THEN 1 ELSE 0)
                   /\ driftAt' = IF d /\ driftAt = 0 THEN l ELSE driftAt
  /\ l' = l + 1
  /\ UNCHANGED hist

TraceSpec == TraceInit /\ [][TraceNext]_tvars

-----------------------------------------------------------------------------
(* the module's own registered invariant (nft "supply"), run by the harness
   after every event *)
Crisis_Invariant == ~obs.invBroken
(* the module's own genesis validation accepts the module's own export (diagnostic; the
   statement belongs to C12) *)
Export_Valid == ~obs.exportBroken

Clauses ==
  [C14_Owner |-> C14_Owner(st),
   C14_ActOnlyOwner |-> C14_ActOnlyOwner(pre, ev),
   C14_OthersUntouched |-> C14_OthersUntouched(pre, ev, st),
   C14_MintRestricted |-> C14_MintRestricted(pre, ev),
   C14_UpdateRestricted |-> C14_UpdateRestricted(pre, ev, st),
   C14_ClassHandover |-> C14_ClassHandover(pre, ev, st),
   C14_Ids |-> C14_Ids(pre, ev, st),
   C14_Supply |-> C14_Supply(st),
   C14_StoreOwner |-> C14_StoreOwner(obs.raw),
   C14_StoreSupply |-> C14_StoreSupply(st, obs.raw),
   C14_HistOwner |-> C14_HistOwner(st, gh),
   C14_HistAct |-> C14_HistAct(ev, pgh),
   C14_HistRestricted |-> C14_HistRestricted(pre, st, pgh),
   C14_HistSupply |-> C14_HistSupply(st, gh),
   X14_StoreTidy |-> X14_StoreTidy(obs.raw),
   X14_ReadBack |-> X14_ReadBack(st, obs.raw, obs.q),
   Rejected_NoEffect |-> Rejected_NoEffect(pre, ev, st),
   X14_Recipient |-> X14_Recipient(pre, ev, st),
   X14_Collection |-> X14_Collection(st),
   X14_Fidelity |-> X14_Fidelity(pre, ev, st),
   X14_CrisisInvariant |-> Crisis_Invariant,
   X14_ExportValid |-> Export_Valid]

Failing == IF ev.name = "Init" THEN {} ELSE {c \in DOMAIN Clauses : ~Clauses[c]}

(* Evaluated by TLC in every state; always TRUE, reports as a side effect *)
Monitor == Failing = {} \/ PrintT(<<"CLAUSE-FAIL", l - 1, Failing, Apply(pre, ev).why>>)

(* antecedent counters (vacuity) *)
IsOp(n) == ev.name = n
Chg == ev.n # KEEP \/ ev.u # KEEP \/ ev.h # KEEP \/ ev.d # KEEP
SomeKeep == ev.n = KEEP \/ ev.u = KEEP \/ ev.h = KEEP \/ ev.d = KEEP
PreOwner == OwnerOf(pre, ev.cls, ev.id)
PreCls == pre.cls[ev.cls]
(* negative probing / unusual inputs (round 7) *)
TokOp == ev.name \in TokenOps
Rej(n) == IsOp(n) /\ ~ev.ok
Acc(n) == IsOp(n) /\ ev.ok
PreHasCls == HasClass(pre, ev.cls)
PreHasTok == HasNFT(pre, ev.cls, ev.id)
WasBurned == <<ev.cls, ev.id>> \in gh.burned /\ ~PreHasTok
ExOwner == <<ev.cls, ev.id, ev.who>> \in gh.exOwner
ExCreator == <<ev.cls, ev.who>> \in gh.exCreator
ProbeNames ==
  {"issue_bad_id_rej", "issue_keyword_rej", "issue_sentinel_id_rej", "issue_len101_ok", "issue_len102_rej",
   "issue_case_variant_ok", "issue_prefix_ok", "mint_ibc_rej", "ibc_edit_ok", "ibc_transfer_ok", "ibc_burn_ok",
   "ibc_handover_ok", "ibc_stranger_rej", "mint_bad_token_id_rej", "mint_sentinel_token_id_rej",
   "mint_len101_token_ok", "mint_len102_token_rej", "mint_uri256_ok", "mint_uri257_rej", "edit_uri257_rej",
   "transfer_uri257_rej", "mint_badjson_rej", "edit_badjson_rej", "transfer_badjson_rej",
   "mint_sentinel_name_ok", "mint_to_module_ok", "transfer_to_module_ok", "handover_to_module_ok",
   "module_sender_rej", "module_owned_token_rej", "mint_prefix_token_ok", "mint_case_token_ok",
   "mint_token_named_as_class_ok", "op_prefix_token_rej", "op_case_token_rej", "op_prefix_class_rej",
   "op_case_class_rej", "op_other_class_token_rej", "edit_burned_rej", "transfer_burned_rej",
   "burn_burned_rej", "exowner_on_burned_rej", "exowner_on_moved_rej", "edit_never_minted_rej",
   "transfer_never_minted_rej", "burn_never_minted_rej", "op_no_class_rej", "mint_no_class_rej",
   "handover_no_class_rej", "creator_on_foreign_token_rej", "token_owner_handover_rej",
   "excreator_handover_rej", "remint_other_owner", "remint_after_handover", "mint_restricted_empty_rej",
   "edit_each_field", "edit_all_keep_ok", "transfer_keep_all_restricted_ok", "handover_to_self_ok",
   "issue_by_module_rej", "probe_state_rej"}
(* a token that exists under an id related to the one named: the named one
   does not exist in this class *)
SiblingExists(ids) == PreHasCls /\ ~PreHasTok /\ \E i \in ids : HasNFT(pre, ev.cls, i)
ProbeEx(c) ==
  CASE c = "issue_bad_id_rej" -> Rej("IssueDenom") /\ BadClassId(ev.cls)
    [] c = "issue_keyword_rej" -> Rej("IssueDenom") /\ ev.cls \in KeywordIds
    [] c = "issue_sentinel_id_rej" -> Rej("IssueDenom") /\ ev.cls = "SENT"
    [] c = "issue_len101_ok" -> Acc("IssueDenom") /\ ev.cls = "L101"
    [] c = "issue_len102_rej" -> Rej("IssueDenom") /\ ev.cls = "L102"
    [] c = "issue_case_variant_ok" -> Acc("IssueDenom") /\ ev.cls = "clA" /\ HasClass(pre, "cla")
    [] c = "issue_prefix_ok" -> Acc("IssueDenom") /\ ((ev.cls = "clab" /\ HasClass(pre, "cla")) \/ (ev.cls = "cla" /\ HasClass(pre, "clab")))
    [] c = "mint_ibc_rej" -> Rej("MintNFT") /\ ev.cls \in IbcIds /\ PreHasCls /\ PreCls.creator = ev.who
    [] c = "ibc_edit_ok" -> Acc("EditNFT") /\ ev.cls \in IbcIds /\ Chg
    [] c = "ibc_transfer_ok" -> Acc("TransferNFT") /\ ev.cls \in IbcIds
    [] c = "ibc_burn_ok" -> Acc("BurnNFT") /\ ev.cls \in IbcIds
    [] c = "ibc_handover_ok" -> Acc("TransferDenom") /\ ev.cls \in IbcIds
    [] c = "ibc_stranger_rej" -> TokOp /\ ~ev.ok /\ ev.cls \in IbcIds /\ PreHasTok /\ PreOwner # ev.who
    [] c = "mint_bad_token_id_rej" -> Rej("MintNFT") /\ PreHasCls /\ BadTokenId(ev.id)
    [] c = "mint_sentinel_token_id_rej" -> Rej("MintNFT") /\ PreHasCls /\ ev.id = "SENT"
    [] c = "mint_len101_token_ok" -> Acc("MintNFT") /\ ev.id = "L101"
    [] c = "mint_len102_token_rej" -> Rej("MintNFT") /\ PreHasCls /\ ev.id = "L102"
    [] c = "mint_uri256_ok" -> Acc("MintNFT") /\ ev.u = URI256
    [] c = "mint_uri257_rej" -> Rej("MintNFT") /\ PreHasCls /\ ev.u = URI257
    [] c = "edit_uri257_rej" -> Rej("EditNFT") /\ PreHasTok /\ PreOwner = ev.who /\ ~PreCls.updateR /\ ev.u = URI257
    [] c = "transfer_uri257_rej" -> ev.name = "TransferNFT" /\ ~ev.ok /\ ev.u = URI257
    [] c = "mint_badjson_rej" -> Rej("MintNFT") /\ PreHasCls /\ ev.d = BADJSON
    [] c = "edit_badjson_rej" -> Rej("EditNFT") /\ PreHasTok /\ PreOwner = ev.who /\ ~PreCls.updateR /\ ev.d = BADJSON
    [] c = "transfer_badjson_rej" -> Rej("TransferNFT") /\ PreHasTok /\ PreOwner = ev.who /\ ~PreCls.updateR /\ ev.d = BADJSON
    [] c = "mint_sentinel_name_ok" -> Acc("MintNFT") /\ ev.n = KEEP
    [] c = "mint_to_module_ok" -> Acc("MintNFT") /\ ev.to \in Unsignable
    [] c = "transfer_to_module_ok" -> Acc("TransferNFT") /\ ev.to \in Unsignable
    [] c = "handover_to_module_ok" -> Acc("TransferDenom") /\ ev.to \in Unsignable
    [] c = "module_sender_rej" -> ~ev.ok /\ ev.who \in Unsignable
    [] c = "module_owned_token_rej" -> TokOp /\ ~ev.ok /\ PreHasTok /\ PreOwner \in Unsignable
    [] c = "mint_prefix_token_ok" -> Acc("MintNFT") /\ ev.id = "tkab" /\ HasNFT(pre, ev.cls, "tka")
    [] c = "mint_case_token_ok" -> Acc("MintNFT") /\ ev.id = "tkA" /\ HasNFT(pre, ev.cls, "tka")
    [] c = "mint_token_named_as_class_ok" -> Acc("MintNFT") /\ ev.id = ev.cls
    [] c = "op_prefix_token_rej" -> TokOp /\ ~ev.ok /\ ((ev.id = "tka" /\ SiblingExists({"tkab"})) \/ (ev.id = "tkab" /\ SiblingExists({"tka"})))
    [] c = "op_case_token_rej" -> TokOp /\ ~ev.ok /\ ((ev.id = "tka" /\ SiblingExists({"tkA"})) \/ (ev.id = "tkA" /\ SiblingExists({"tka"})))
    [] c = "op_prefix_class_rej" -> ~ev.ok /\ ~PreHasCls /\ ((ev.cls = "cla" /\ HasClass(pre, "clab")) \/ (ev.cls = "clab" /\ HasClass(pre, "cla")))
    [] c = "op_case_class_rej" -> ~ev.ok /\ ~PreHasCls /\ ((ev.cls = "cla" /\ HasClass(pre, "clA")) \/ (ev.cls = "clA" /\ HasClass(pre, "cla")))
    [] c = "op_other_class_token_rej" -> TokOp /\ ~ev.ok /\ PreHasCls /\ ~PreHasTok
                                          /\ \E d \in DOMAIN pre.nft : d # ev.cls /\ HasNFT(pre, d, ev.id) /\ pre.nft[d][ev.id].owner = ev.who
    [] c = "edit_burned_rej" -> Rej("EditNFT") /\ WasBurned
    [] c = "transfer_burned_rej" -> Rej("TransferNFT") /\ WasBurned
    [] c = "burn_burned_rej" -> Rej("BurnNFT") /\ WasBurned
    [] c = "exowner_on_burned_rej" -> TokOp /\ ~ev.ok /\ WasBurned /\ ExOwner
    [] c = "exowner_on_moved_rej" -> TokOp /\ ~ev.ok /\ PreHasTok /\ PreOwner # ev.who /\ ExOwner
    [] c = "edit_never_minted_rej" -> Rej("EditNFT") /\ PreHasCls /\ ~PreHasTok /\ <<ev.cls, ev.id>> \notin gh.burned /\ ~BadTokenId(ev.id)
    [] c = "transfer_never_minted_rej" -> Rej("TransferNFT") /\ PreHasCls /\ ~PreHasTok /\ <<ev.cls, ev.id>> \notin gh.burned /\ ~BadTokenId(ev.id)
    [] c = "burn_never_minted_rej" -> Rej("BurnNFT") /\ PreHasCls /\ ~PreHasTok /\ <<ev.cls, ev.id>> \notin gh.burned /\ ~BadTokenId(ev.id)
    [] c = "op_no_class_rej" -> TokOp /\ ~ev.ok /\ ~PreHasCls /\ ~BadClassId(ev.cls) /\ ~BadTokenId(ev.id)
    [] c = "mint_no_class_rej" -> Rej("MintNFT") /\ ~PreHasCls /\ ~BadClassId(ev.cls) /\ ev.cls \notin IbcIds
    [] c = "handover_no_class_rej" -> Rej("TransferDenom") /\ ~PreHasCls /\ ~BadClassId(ev.cls)
    [] c = "creator_on_foreign_token_rej" -> TokOp /\ ~ev.ok /\ PreHasTok /\ PreOwner # ev.who /\ PreCls.creator = ev.who
    [] c = "token_owner_handover_rej" -> Rej("TransferDenom") /\ PreHasCls /\ PreCls.creator # ev.who
                                          /\ \E i \in DOMAIN pre.nft[ev.cls] : pre.nft[ev.cls][i].owner = ev.who
    [] c = "excreator_handover_rej" -> Rej("TransferDenom") /\ PreHasCls /\ PreCls.creator # ev.who /\ ExCreator
    [] c = "remint_other_owner" -> Acc("MintNFT") /\ <<ev.cls, ev.id>> \in gh.burned /\ <<ev.cls, ev.id, ev.to>> \notin gh.exOwner
    [] c = "remint_after_handover" -> Acc("MintNFT") /\ <<ev.cls, ev.id>> \in gh.burned /\ ev.cls \in gh.handed
    [] c = "mint_restricted_empty_rej" -> Rej("MintNFT") /\ PreHasCls /\ PreCls.mintR /\ PreCls.creator # ev.who
                                           /\ DOMAIN pre.nft[ev.cls] = {}
    [] c = "edit_each_field" -> Acc("EditNFT") /\ Cardinality({f \in {"n", "u", "h", "d"} : ev[f] # KEEP}) = 1
    [] c = "edit_all_keep_ok" -> Acc("EditNFT") /\ ~Chg
    [] c = "transfer_keep_all_restricted_ok" -> Acc("TransferNFT") /\ ~Chg /\ PreHasCls /\ PreCls.updateR /\ ev.to # ev.who
    [] c = "handover_to_self_ok" -> Acc("TransferDenom") /\ ev.to = ev.who
    [] c = "issue_by_module_rej" -> Rej("IssueDenom") /\ ev.who \in Unsignable
    [] c = "probe_state_rej" -> ~ev.ok /\ ev.name # "TxFailed" /\ Apply(pre, ev).why \notin BasicWhys \cup {"unknown"}
    [] OTHER -> FALSE
Exercised ==
  IF ev.name \in {"Init", "EndBlock"} THEN {} ELSE
  {c \in {"issue_ff", "issue_ft", "issue_tf", "issue_tt", "issue_dup_rej",
          "mint_ok", "mint_restricted_ok", "mint_restricted_rej", "mint_exists_rej", "remint",
          "edit_ok", "edit_stranger_rej", "edit_restricted_rej", "edit_keep",
          "transfer_ok", "transfer_changes_ok", "transfer_restricted_changes_rej",
          "transfer_restricted_plain_ok", "transfer_self", "transfer_stranger_rej",
          "burn_ok", "burn_stranger_rej", "handover_ok", "handover_stranger_rej",
          "handover_then_mint", "old_creator_mint_rej", "reject"} \cup ProbeNames :
     CASE c = "issue_ff" -> IsOp("IssueDenom") /\ ev.ok /\ ~ev.mintR /\ ~ev.updateR
       [] c = "issue_ft" -> IsOp("IssueDenom") /\ ev.ok /\ ~ev.mintR /\ ev.updateR
       [] c = "issue_tf" -> IsOp("IssueDenom") /\ ev.ok /\ ev.mintR /\ ~ev.updateR
       [] c = "issue_tt" -> IsOp("IssueDenom") /\ ev.ok /\ ev.mintR /\ ev.updateR
       [] c = "issue_dup_rej" -> IsOp("IssueDenom") /\ ~ev.ok /\ HasClass(pre, ev.cls)
       [] c = "mint_ok" -> IsOp("MintNFT") /\ ev.ok
       [] c = "mint_restricted_ok" -> IsOp("MintNFT") /\ ev.ok /\ HasClass(pre, ev.cls) /\ PreCls.mintR
       [] c = "mint_restricted_rej" -> IsOp("MintNFT") /\ ~ev.ok /\ HasClass(pre, ev.cls)
                                        /\ PreCls.mintR /\ PreCls.creator # ev.who
       [] c = "mint_exists_rej" -> IsOp("MintNFT") /\ ~ev.ok /\ HasNFT(pre, ev.cls, ev.id)
       [] c = "remint" -> IsOp("MintNFT") /\ ev.ok /\ <<ev.cls, ev.id>> \in gh.burned
       [] c = "edit_ok" -> IsOp("EditNFT") /\ ev.ok /\ Chg
       [] c = "edit_keep" -> ev.name \in {"EditNFT", "TransferNFT"} /\ ev.ok /\ Chg /\ SomeKeep
       [] c = "edit_stranger_rej" -> IsOp("EditNFT") /\ ~ev.ok /\ HasNFT(pre, ev.cls, ev.id)
                                      /\ PreOwner # ev.who /\ ~PreCls.updateR
       [] c = "edit_restricted_rej" -> IsOp("EditNFT") /\ ~ev.ok /\ HasNFT(pre, ev.cls, ev.id)
                                        /\ PreOwner = ev.who /\ PreCls.updateR
       [] c = "transfer_ok" -> IsOp("TransferNFT") /\ ev.ok
       [] c = "transfer_changes_ok" -> IsOp("TransferNFT") /\ ev.ok /\ Chg
       [] c = "transfer_restricted_changes_rej" -> IsOp("TransferNFT") /\ ~ev.ok /\ Chg
                                        /\ HasNFT(pre, ev.cls, ev.id) /\ PreOwner = ev.who /\ PreCls.updateR
       [] c = "transfer_restricted_plain_ok" -> IsOp("TransferNFT") /\ ev.ok /\ ~Chg
                                        /\ HasClass(pre, ev.cls) /\ PreCls.updateR
       [] c = "transfer_self" -> IsOp("TransferNFT") /\ ev.ok /\ ev.to = ev.who
       [] c = "transfer_stranger_rej" -> IsOp("TransferNFT") /\ ~ev.ok /\ HasNFT(pre, ev.cls, ev.id)
                                          /\ PreOwner # ev.who
       [] c = "burn_ok" -> IsOp("BurnNFT") /\ ev.ok
       [] c = "burn_stranger_rej" -> IsOp("BurnNFT") /\ ~ev.ok /\ HasNFT(pre, ev.cls, ev.id)
                                      /\ PreOwner # ev.who
       [] c = "handover_ok" -> IsOp("TransferDenom") /\ ev.ok
       [] c = "handover_stranger_rej" -> IsOp("TransferDenom") /\ ~ev.ok /\ HasClass(pre, ev.cls)
                                          /\ PreCls.creator # ev.who
       [] c = "handover_then_mint" -> IsOp("MintNFT") /\ ev.ok /\ ev.cls \in gh.handed
                                       /\ HasClass(pre, ev.cls) /\ PreCls.mintR
       [] c = "old_creator_mint_rej" -> IsOp("MintNFT") /\ ~ev.ok /\ ev.cls \in gh.handed
                                         /\ HasClass(pre, ev.cls) /\ PreCls.mintR /\ PreCls.creator # ev.who
       [] c = "reject" -> ~ev.ok
       [] OTHER -> ProbeEx(c)}
Coverage == Exercised = {} \/ PrintT(<<"EXERCISED", Exercised>>)

Report == (l = Len(Trace) + 1) => PrintT(<<"TRACE-END", Len(Trace), drift, driftAt>>)

DriftReport == (drift > 0 /\ driftAt = l - 1) =>
  PrintT(<<"DRIFT", driftAt, ev.name, ev>>)

TraceAccepted == TLCGet("stats").diameter = Len(Trace)

Alias == [l |-> l, ev |-> ev]
=============================================================================
