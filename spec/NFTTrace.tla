----------------------------- MODULE NFTTrace -----------------------------
(***************************************************************************)
(* Validation of traces recorded from the real nft module against NFT.tla. *)
(* One ndjson line per event: {"ev": <event+result>, "st": <projected      *)
(* abstract state after the event>}.  Traces are concatenated; an "Init"   *)
(* event starts a new one.                                                 *)
(*   monitor: st' is the logged state; every property clause is evaluated  *)
(*            on (pre, ev, st); failures are printed as CLAUSE-FAIL lines. *)
(*   strict:  Apply(pre, ev) must give the logged result and state; a      *)
(*            mismatch is DRIFT, reported but never a verdict.             *)
(***************************************************************************)
EXTENDS NFT

VARIABLES l, pre, obs, drift, driftAt
tvars == <<st, ev, gh, hist, l, pre, obs, drift, driftAt>>

Trace == ndJsonDeserialize(IOEnv.TRACE_FILE)

SetOf(q) == {q[i] : i \in DOMAIN q}

(* logged state -> specification state (JSON arrays -> sets) *)
FromLog(r) ==
  [cls |-> r.cls, nft |-> r.nft, sup |-> r.sup, coll |-> r.coll, bal |-> r.bal,
   idx |-> [a \in DOMAIN r.idx |-> [c \in DOMAIN r.idx[a] |-> SetOf(r.idx[a][c])]]]

ObsOf(r) == [invBroken |-> r.invBroken]

TraceInit ==
  /\ Trace[1].ev.name = "Init"
  /\ st = FromLog(Trace[1].st) /\ pre = FromLog(Trace[1].st)
  /\ obs = ObsOf(Trace[1].st)
  /\ ev = Trace[1].ev /\ gh = GhostInit /\ hist = <<>>
  /\ l = 2 /\ drift = 0 /\ driftAt = 0

Predicted(s, e) ==
  LET r == Apply(s, e) IN [st |-> r.st, ok |-> r.ok, panic |-> r.panic]

Observed(e, t) == [st |-> t, ok |-> e.ok, panic |-> e.panic]

TraceNext ==
  /\ l <= Len(Trace)
  /\ LET e == Trace[l].ev
         t == FromLog(Trace[l].st)
     IN /\ ev' = e /\ st' = t /\ obs' = ObsOf(Trace[l].st)
        /\ IF e.name = "Init"
           THEN /\ gh' = GhostInit /\ pre' = t
                /\ UNCHANGED <<drift, driftAt>>
           ELSE /\ gh' = GhostStep(gh, st, e, t) /\ pre' = st
                /\ LET d == Predicted(st, e) # Observed(e, t) IN
                   /\ drift' = drift + (IF d THEN 1 ELSE 0)
                   /\ driftAt' = IF d /\ driftAt = 0 THEN l ELSE driftAt
  /\ l' = l + 1
  /\ UNCHANGED hist

TraceSpec == TraceInit /\ [][TraceNext]_tvars

-----------------------------------------------------------------------------
(* the module's own registered invariant (nft "supply"), run by the harness
   after every event *)
Crisis_Invariant == ~obs.invBroken

Clauses ==
  [C14_Owner |-> C14_Owner(st),
   C14_ActOnlyOwner |-> C14_ActOnlyOwner(pre, ev),
   C14_OthersUntouched |-> C14_OthersUntouched(pre, ev, st),
   C14_MintRestricted |-> C14_MintRestricted(pre, ev),
   C14_UpdateRestricted |-> C14_UpdateRestricted(pre, ev, st),
   C14_ClassHandover |-> C14_ClassHandover(pre, ev, st),
   C14_Ids |-> C14_Ids(pre, ev, st),
   C14_Supply |-> C14_Supply(st),
   Rejected_NoEffect |-> Rejected_NoEffect(pre, ev, st),
   X14_Recipient |-> X14_Recipient(pre, ev, st),
   X14_Collection |-> X14_Collection(st),
   X14_Fidelity |-> X14_Fidelity(pre, ev, st),
   X14_CrisisInvariant |-> Crisis_Invariant]

Failing == IF ev.name = "Init" THEN {} ELSE {c \in DOMAIN Clauses : ~Clauses[c]}

(* Evaluated by TLC in every state; always TRUE, reports as a side effect *)
Monitor == Failing = {} \/ PrintT(<<"CLAUSE-FAIL", l - 1, Failing, Apply(pre, ev).why>>)

(* antecedent counters (vacuity) *)
IsOp(n) == ev.name = n
Chg == ev.n # KEEP \/ ev.u # KEEP \/ ev.h # KEEP \/ ev.d # KEEP
SomeKeep == ev.n = KEEP \/ ev.u = KEEP \/ ev.h = KEEP \/ ev.d = KEEP
PreOwner == OwnerOf(pre, ev.cls, ev.id)
PreCls == pre.cls[ev.cls]
Exercised ==
  IF ev.name \in {"Init", "EndBlock"} THEN {} ELSE
  {c \in {"issue_ff", "issue_ft", "issue_tf", "issue_tt", "issue_dup_rej",
          "mint_ok", "mint_restricted_ok", "mint_restricted_rej", "mint_exists_rej", "remint",
          "edit_ok", "edit_stranger_rej", "edit_restricted_rej", "edit_keep",
          "transfer_ok", "transfer_changes_ok", "transfer_restricted_changes_rej",
          "transfer_restricted_plain_ok", "transfer_self", "transfer_stranger_rej",
          "burn_ok", "burn_stranger_rej", "handover_ok", "handover_stranger_rej",
          "handover_then_mint", "old_creator_mint_rej", "reject"} :
     CASE c = "issue_ff" -> IsOp("IssueDenom") /\ ev.ok /\ ~ev.mintR /\ ~ev.updateR
       [] c = "issue_ft" -> IsOp("IssueDenom") /\ ev.ok /\ ~ev.mintR /\ ev.updateR
       [] c = "issue_tf" -> IsOp("IssueDenom") /\ ev.ok /\ ev.mintR /\ ~ev.updateR
       [] c = "issue_tt" -> IsOp("IssueDenom") /\ ev.ok /\ ev.mintR /\ ev.updateR
       [] c = "issue_dup_rej" -> IsOp("IssueDenom") /\ ~ev.ok /\ HasClass(pre, ev.cls)
       [] c = "mint_ok" -> IsOp("MintNFT") /\ ev.ok
       [] c = "mint_restricted_ok" -> IsOp("MintNFT") /\ ev.ok /\ HasClass(pre, ev.cls) /\ PreCls.mintR
       [] c = "mint_restricted_rej" -> IsOp("MintNFT") /\ ~ev.ok /\ HasClass(pre, ev.cls)
                                        /\ PreCls.mintR /\ PreCls.creator # ev.who
       [] c = "mint_exists_rej" -> IsOp("MintNFT") /\ ~ev.ok /\ HasNFT(pre, ev.cls, ev.id)
       [] c = "remint" -> IsOp("MintNFT") /\ ev.ok /\ <<ev.cls, ev.id>> \in gh.burned
       [] c = "edit_ok" -> IsOp("EditNFT") /\ ev.ok /\ Chg
       [] c = "edit_keep" -> ev.name \in {"EditNFT", "TransferNFT"} /\ ev.ok /\ Chg /\ SomeKeep
       [] c = "edit_stranger_rej" -> IsOp("EditNFT") /\ ~ev.ok /\ HasNFT(pre, ev.cls, ev.id)
                                      /\ PreOwner # ev.who /\ ~PreCls.updateR
       [] c = "edit_restricted_rej" -> IsOp("EditNFT") /\ ~ev.ok /\ HasNFT(pre, ev.cls, ev.id)
                                        /\ PreOwner = ev.who /\ PreCls.updateR
       [] c = "transfer_ok" -> IsOp("TransferNFT") /\ ev.ok
       [] c = "transfer_changes_ok" -> IsOp("TransferNFT") /\ ev.ok /\ Chg
       [] c = "transfer_restricted_changes_rej" -> IsOp("TransferNFT") /\ ~ev.ok /\ Chg
                                        /\ HasNFT(pre, ev.cls, ev.id) /\ PreOwner = ev.who /\ PreCls.updateR
       [] c = "transfer_restricted_plain_ok" -> IsOp("TransferNFT") /\ ev.ok /\ ~Chg
                                        /\ HasClass(pre, ev.cls) /\ PreCls.updateR
       [] c = "transfer_self" -> IsOp("TransferNFT") /\ ev.ok /\ ev.to = ev.who
       [] c = "transfer_stranger_rej" -> IsOp("TransferNFT") /\ ~ev.ok /\ HasNFT(pre, ev.cls, ev.id)
                                          /\ PreOwner # ev.who
       [] c = "burn_ok" -> IsOp("BurnNFT") /\ ev.ok
       [] c = "burn_stranger_rej" -> IsOp("BurnNFT") /\ ~ev.ok /\ HasNFT(pre, ev.cls, ev.id)
                                      /\ PreOwner # ev.who
       [] c = "handover_ok" -> IsOp("TransferDenom") /\ ev.ok
       [] c = "handover_stranger_rej" -> IsOp("TransferDenom") /\ ~ev.ok /\ HasClass(pre, ev.cls)
                                          /\ PreCls.creator # ev.who
       [] c = "handover_then_mint" -> IsOp("MintNFT") /\ ev.ok /\ ev.cls \in gh.handed
                                       /\ HasClass(pre, ev.cls) /\ PreCls.mintR
       [] c = "old_creator_mint_rej" -> IsOp("MintNFT") /\ ~ev.ok /\ ev.cls \in gh.handed
                                         /\ HasClass(pre, ev.cls) /\ PreCls.mintR /\ PreCls.creator # ev.who
       [] c = "reject" -> ~ev.ok}
Coverage == Exercised = {} \/ PrintT(<<"EXERCISED", Exercised>>)

Report == (l = Len(Trace) + 1) => PrintT(<<"TRACE-END", Len(Trace), drift, driftAt>>)

DriftReport == (drift > 0 /\ driftAt = l - 1) =>
  PrintT(<<"DRIFT", driftAt, ev.name, ev>>)

TraceAccepted == TLCGet("stats").diameter = Len(Trace)

Alias == [l |-> l, ev |-> ev]
=============================================================================
