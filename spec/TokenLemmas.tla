----------------------------- MODULE TokenLemmas -----------------------------
(* Unbounded lemma for the repaired LossLessSwap (DESIGN 4.4), in exact rational
   arithmetic (the 18-decimal roundings of the implementation are what the
   big-number tier checks on real outputs): for ALL natural inputs, ratios rn/rd
   and decimal weights, mint = floor(input * rn * wOut / (rd * wIn)) and
   burn = input when nothing is lost, else ceil(mint * rd * wIn / (rn * wOut))
   satisfy the four C10 swap clauses. *)
EXTENDS Integers, SwapClauses

VARIABLES
  \* @type: Int;
  input,
  \* @type: Int;
  rn,
  \* @type: Int;
  rd,
  \* @type: Int;
  wIn,
  \* @type: Int;
  wOut

Init ==
  /\ input \in Nat /\ rn \in Nat /\ rd \in Nat /\ wIn \in Nat /\ wOut \in Nat
  /\ rn > 0 /\ rd > 0 /\ wIn > 0 /\ wOut > 0 /\ (wIn = 1 \/ wOut = 1)
Next == UNCHANGED <<input, rn, rd, wIn, wOut>>

Num == input * rn * wOut
Den == rd * wIn
Mint == Num \div Den
Burn == IF Num % Den = 0 THEN input
        ELSE (Mint * Den + rn * wOut - 1) \div (rn * wOut)

Lemma_LossLess ==
  /\ Swap_NoOverBurnW(input, Burn, Mint)
  /\ Swap_WorthW(Burn, Mint, rn, rd, wIn, wOut)
  /\ Swap_ExactAtOneW(Burn, Mint, rn, rd, wIn, wOut)
  /\ Swap_DustW(input, Burn, rn, rd, wIn, wOut)
=============================================================================
