--------------------------- MODULE CoinswapLemmas ---------------------------
(* Unbounded lemmas (DESIGN 4.4): for ALL natural reserves, amounts and fees the
   price functions of keeper/swap.go satisfy the C01 leg clauses.  Checked by
   Apalache at length 0 over `Init` with unbounded integers (Z3); a timeout is
   "not proved", never a failure of the property check. *)
EXTENDS Integers, CoinswapClauses

VARIABLES
  \* @type: Int;
  rin,
  \* @type: Int;
  rout,
  \* @type: Int;
  x,
  \* @type: Int;
  fn,
  \* @type: Int;
  fd

Init ==
  /\ rin \in Nat /\ rout \in Nat /\ x \in Nat /\ fn \in Nat /\ fd \in Nat
  /\ rin > 0 /\ rout > 0 /\ x > 0 /\ fd > 0 /\ fn < fd
Next == UNCHANGED <<rin, rout, x, fn, fd>>

(* swap.go GetInputPrice: sold x, bought floor(x*g*rout / (rin*fd + x*g)) *)
InputPrice == (x * (fd - fn) * rout) \div (rin * fd + x * (fd - fn))
Lemma_InputPrice ==
  /\ InputPrice < rout
  /\ LegRuleW(rin, rout, x, InputPrice, fn, fd)
  /\ LegInMaxW(rin, rout, x, InputPrice, fn, fd)

(* swap.go GetOutputPrice: bought x < rout, sold floor(rin*x*fd / ((rout-x)*g)) + 1 *)
OutputPrice == (rin * x * fd) \div ((rout - x) * (fd - fn)) + 1
Lemma_OutputPrice ==
  (x < rout) =>
    /\ LegRuleW(rin, rout, OutputPrice, x, fn, fd)
    /\ LegOutTightW(rin, rout, OutputPrice, x, fn, fd)
=============================================================================
