SPECIFICATION GenSpecP
CONSTANTS
  RecordHist = TRUE
  Users = {"u1", "u2"}
  Deputy = "dep"
  PlainDenoms = {"aaa", "bbb", "htltonex", "htlton", "HTLTONE"}
  Assets = {"htltone", "htlttwo"}
  Templates <- TemplatesGen
  Locks = {0, 1, 2}
  Dts = {0, 1, 2, 3, 7}
  Params0 <- ParamsA
  ParamAlts <- ParamAltsProbe
  MaxH = 14
  Claimants = {"u1", "u2", "dep"}
  ClaimSecrets = {"s1", "s2", "s3", "s4", "s5", "s6", "s7", "s8", "junk"}
  InitBal = 5
  MaxUpdates = 3
CONSTRAINT GenConstraint
CHECK_DEADLOCK FALSE
