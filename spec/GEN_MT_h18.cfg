SPECIFICATION GenSpec
CONSTANTS
  Users = {"u1", "u2", "u3"}
  Issuers = {"u1", "u2"}
  MaxD = 2
  MaxM = 3
  MaxU = 536870911
  Amounts = {0, 1, 2, 5, 262143, 262144, 262145, 786437, 536608765, 536870906, 536870911}
  DataVals = {"a", "b"}
  RecordHist = TRUE
CONSTRAINT GenConstraint
CHECK_DEADLOCK FALSE
