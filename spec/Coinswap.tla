------------------------------ MODULE Coinswap ------------------------------
(***************************************************************************)
(* irismod/modules/coinswap — constant-product pools against one standard  *)
(* coin.  Transcribed branch by branch from                                *)
(*   keeper/msg_server.go (deadline, blocked recipient),                   *)
(*   keeper/keeper.go (AddLiquidity incl. pool creation, RemoveLiquidity,  *)
(*     AddUnilateralLiquidity, RemoveUnilateralLiquidity),                 *)
(*   keeper/swap.go (single / double hop, sell / buy orders,               *)
(*     GetInputPrice, GetOutputPrice), keeper/pool.go (registry),          *)
(*   keeper/fees.go (pool creation fee: tax to the fee collector, rest     *)
(*     burned), types/msgs.go + validation.go (ValidateBasic).             *)
(*                                                                         *)
(* Every handler is an operator  state, args -> [ok, panic, st, why,       *)
(* minted, wd]; the same operators drive Next (model checking, behaviour   *)
(* generation) and CoinswapTrace.tla (validation of real-code traces).     *)
(*                                                                         *)
(* Numbers.  Fees are rationals feeNum/feeDen, uniNum/uniDen, taxNum/taxDen*)
(* whose denominators divide 10^18; the harness puts exactly these         *)
(* decimals on chain, and then the 18-decimal mantissas of the code cancel *)
(* (DESIGN.md 4.2): all quotients below are bit-exact.                     *)
(*                                                                         *)
(* State  st = [now, seq, std, params, pools, bal, supply]:                *)
(*   now     time of the block in which the next message executes          *)
(*   seq     next pool sequence (lpt-<seq> is the next liquidity denom)    *)
(*   std     the standard denom                                            *)
(*   pools   counterparty denom -> [lpt, esc]   (pool id = "pool-"+denom)  *)
(*   bal     full balance sheet: users, pool escrows "esc-lpt-N",          *)
(*           "module" (coinswap module account), "feepool"                 *)
(*   blocked accounts that may not receive funds (sequence of names)          *)
(*   supply  total supply per denom (offset so that it equals the sum of   *)
(*           the tracked balances initially)                               *)
(* The denoms of bal / supply are the closed universe: the standard coin,  *)
(* the tokens, the ODD coins (ordinary coins of an unusual shape, e.g.     *)
(* "voucher-1", which parses as a liquidity denom), and one liquidity      *)
(* denom per coin a pool may be opened on (tokens and odd coins).          *)
(***************************************************************************)
EXTENDS Integers, Sequences, FiniteSets, TLC, Util, Json, IOUtils, CoinswapClauses

CONSTANTS
  Users,        \* user accounts
  Tokens,       \* non-standard denoms (each may get one pool)
  Std,          \* the standard denom
  Odd,          \* further plain coins of the closed universe that users hold (e.g. "voucher-1": an
                \* ordinary coin whose denom is SHAPED like a liquidity denom); anybody may open a pool on one
  RecordHist    \* BOOLEAN: keep the event history (generator configs)

VARIABLES st, ev, gh, hist
vars == <<st, ev, gh, hist>>

MOD == "module"           \* coinswap module account (mints / burns)
FEEP == "feepool"         \* fee collector + distribution account
(* accounts that may not receive funds (bank's blocked addresses; application
   wiring, logged by the harness as st.blocked) *)
BlockedOf(s) == {s.blocked[i] : i \in DOMAIN s.blocked}

LptOf(n) == "lpt-" \o ToString(n)
EscOf(lpt) == "esc-" \o lpt
(* Denom kinds.  The code has TWO notions of "liquidity denom":
     validation.go ValidateToken / ValidateInput / ValidateOutput:  strings.HasPrefix(denom, "lpt")
     utils.go ParseLptDenom (ValidateWithdrawLiquidity):            <anything>-<number>, exactly one "-"
   On the denoms the drivers use: IsLpt = the first, ParsesLpt = the second ("voucher-N", an
   ordinary bank coin, parses as a liquidity denom but is none). *)
IsLpt(d) == d \in {LptOf(n) : n \in 1..9}
ShareShaped(d) == d \in {"voucher-" \o ToString(n) : n \in 1..9}
ParsesLpt(d) == IsLpt(d) \/ ShareShaped(d)

NoEv == [name |-> "Init", who |-> "", to |-> "", denom |-> "", tok |-> "",
         inDenom |-> "", outDenom |-> "", amt |-> 0, amt2 |-> 0, min1 |-> 0,
         min2 |-> 0, deadline |-> 0, isBuy |-> FALSE, hops |-> 0,
         ok |-> TRUE, panic |-> FALSE, minted |-> 0, wd |-> EmptyF]

-----------------------------------------------------------------------------
(* Results *)
Fail(s, w) == [ok |-> FALSE, panic |-> FALSE, st |-> s, why |-> w, minted |-> 0, wd |-> EmptyF]
Panic(s, w) == [ok |-> FALSE, panic |-> TRUE, st |-> s, why |-> w, minted |-> 0, wd |-> EmptyF]
Done(s, m, wd, w) == [ok |-> TRUE, panic |-> FALSE, st |-> s, why |-> w, minted |-> m, wd |-> wd]

(* swap.go: GetInputPrice / GetOutputPrice with fee n/d, d | 10^18 *)
InputPrice(x, rin, rout, p) ==
  (x * (p.feeDen - p.feeNum) * rout) \div (rin * p.feeDen + x * (p.feeDen - p.feeNum))
OutputPrice(y, rin, rout, p) ==
  (rin * y * p.feeDen) \div ((rout - y) * (p.feeDen - p.feeNum)) + 1

(* floor square root of n, searching upwards from a lower bound r *)
RECURSIVE SqrtUp(_, _)
SqrtUp(n, r) == IF (r + 1) * (r + 1) > n THEN r ELSE SqrtUp(n, r + 1)

(* pool.go: GetPoolBalances(...).IsZero(): no coin of any denom *)
EscEmpty(s, esc) == \A d \in DOMAIN s.bal[esc] : s.bal[esc][d] = 0

PoolByLpt(s, lpt) == {p \in DOMAIN s.pools : s.pools[p].lpt = lpt}

Coin(d, a) == (d :> a)
Coins2(d1, a1, d2, a2) == (d1 :> a1) @@ (d2 :> a2)

-----------------------------------------------------------------------------
(* fees.go: DeductPoolCreationFee.  [ok, st] *)
TaxOf(p) == (p.fee * p.taxNum) \div p.taxDen
DeductFee(s, who) ==
  LET p == s.params
      tax == TaxOf(p)
      burned == p.fee - tax
  IN
  IF s.bal[who][p.feeDenom] < p.fee THEN [ok |-> FALSE, st |-> s]
  ELSE [ok |-> TRUE,
        st |-> [s EXCEPT
          !.bal = Move(Debit(s.bal, who, Coin(p.feeDenom, burned)), who, FEEP, Coin(p.feeDenom, tax)),
          !.supply = SubSupply(s.supply, Coin(p.feeDenom, burned))]]

(* keeper.go: addLiquidity — deposit both coins, mint to the sender.
   s0 is the state to fall back to on failure (atomic rollback). *)
AddLiq(s0, s, who, esc, stdAmt, denom, tokAmt, lpt, mint, w) ==
  LET dep == Coins2(s.std, stdAmt, denom, tokAmt) IN
  IF ~CanPay(s.bal, who, dep) THEN Fail(s0, "funds")
  ELSE Done([s EXCEPT !.bal = Credit(Move(s.bal, who, esc, dep), who, Coin(lpt, mint)),
                      !.supply = AddSupply(s.supply, Coin(lpt, mint))],
            mint, EmptyF, w)

(* msg_server.go AddLiquidity + keeper.go AddLiquidity *)
DoAddLiquidity(s, who, denom, exact, maxTok, minLiq, deadline) ==
  IF maxTok <= 0 \/ exact <= 0 \/ minLiq < 0 \/ IsLpt(denom) THEN Fail(s, "validate")
  ELSE IF s.now > deadline THEN Fail(s, "deadline")
  ELSE IF denom = s.std THEN Fail(s, "std_denom")
  ELSE IF denom \notin DOMAIN s.pools THEN
    \* pool missing: creation fee, then the first deposit fixes the ratio
    LET f == DeductFee(s, who) IN
    IF ~f.ok THEN Fail(s, "fee_funds")
    ELSE IF exact < minLiq THEN Fail(s, "min_liquidity")
    ELSE
      LET lpt == LptOf(s.seq)
          esc == EscOf(lpt)
          s1 == [f.st EXCEPT !.seq = s.seq + 1,
                             !.pools = Put(s.pools, denom, [lpt |-> lpt, esc |-> esc])]
      IN AddLiq(s, s1, who, esc, exact, denom, maxTok, lpt, exact, "create")
  ELSE
    LET lpt == s.pools[denom].lpt
        esc == s.pools[denom].esc
    IN
    IF EscEmpty(s, esc) THEN
      \* pool exists but holds nothing: as a first deposit, without the fee
      IF exact < minLiq THEN Fail(s, "min_liquidity")
      ELSE AddLiq(s, s, who, esc, exact, denom, maxTok, lpt, exact, "refund_empty")
    ELSE
      LET S == s.bal[esc][s.std]
          T == s.bal[esc][denom]
          L == s.supply[lpt]
      IN
      IF S = 0 \/ T = 0 \/ L = 0 THEN Fail(s, "pool_invalid")
      ELSE
        LET mint == (L * exact) \div S
            dep == (T * exact) \div S + 1
        IN
        IF mint < minLiq THEN Fail(s, "min_liquidity")
        ELSE IF dep > maxTok THEN Fail(s, "max_token")
        ELSE AddLiq(s, s, who, esc, exact, denom, dep, lpt, mint, "")

(* msg_server.go RemoveLiquidity + keeper.go RemoveLiquidity *)
DoRemoveLiquidity(s, who, lpt, amt, minStd, minTok, deadline) ==
  IF amt <= 0 \/ minStd < 0 \/ minTok < 0 \/ ~ParsesLpt(lpt) THEN Fail(s, "validate")
  ELSE IF s.now > deadline THEN Fail(s, "deadline")
  ELSE IF PoolByLpt(s, lpt) = {} THEN Fail(s, "no_pool")
  ELSE
    LET denom == CHOOSE p \in PoolByLpt(s, lpt) : TRUE
        esc == s.pools[denom].esc
        S == s.bal[esc][s.std]
        T == s.bal[esc][denom]
        L == s.supply[lpt]
    IN
    IF S < minStd \/ T < minTok \/ L < amt THEN Fail(s, "insufficient")
    ELSE
      LET ws == (amt * S) \div L
          wt == (amt * T) \div L
          out == Pos(Coins2(s.std, ws, denom, wt))
      IN
      IF ws < minStd \/ wt < minTok THEN Fail(s, "min_withdraw")
      ELSE IF s.bal[who][lpt] < amt THEN Fail(s, "funds")
      ELSE Done([s EXCEPT !.bal = Move(Debit(s.bal, who, Coin(lpt, amt)), esc, who, out),
                          !.supply = SubSupply(s.supply, Coin(lpt, amt))],
                0, out, IF amt = L THEN "emptied" ELSE "")

(* keeper.go AddUnilateralLiquidity *)
DoAddUnilateral(s, who, denom, tok, amt, minLiq, deadline) ==
  IF denom = "" \/ amt <= 0 \/ IsLpt(tok) \/ minLiq < 0 THEN Fail(s, "validate")
  ELSE IF s.now > deadline THEN Fail(s, "deadline")
  ELSE IF denom \notin DOMAIN s.pools THEN Fail(s, "no_pool")
  ELSE IF tok # denom /\ tok # s.std THEN Fail(s, "denom")
  ELSE
    LET lpt == s.pools[denom].lpt
        esc == s.pools[denom].esc
    IN
    IF EscEmpty(s, esc) THEN Fail(s, "empty_pool")
    ELSE
      LET T == s.bal[esc][tok]
          L == s.supply[lpt]
          p == s.params
      IN
      IF T = 0 THEN Panic(s, "div_by_zero")          \* Quo(denominator * 0)
      ELSE
        LET sq == ((p.uniDen * T + (p.uniDen - p.uniNum) * amt) * L * L) \div (p.uniDen * T)
            mint == SqrtUp(sq, L) - L
        IN
        IF mint < minLiq THEN Fail(s, "min_liquidity")
        ELSE IF s.bal[who][tok] < amt THEN Fail(s, "funds")
        ELSE Done([s EXCEPT !.bal = Credit(Move(s.bal, who, esc, Coin(tok, amt)), who, Coin(lpt, mint)),
                            !.supply = AddSupply(s.supply, Coin(lpt, mint))],
                  mint, EmptyF, "")

(* keeper.go RemoveUnilateralLiquidity *)
DoRemoveUnilateral(s, who, denom, tok, minTok, amt, deadline) ==
  IF denom = "" \/ minTok <= 0 \/ IsLpt(tok) \/ amt < 0 THEN Fail(s, "validate")
  ELSE IF s.now > deadline THEN Fail(s, "deadline")
  ELSE IF denom \notin DOMAIN s.pools THEN Fail(s, "no_pool")
  ELSE IF tok # denom /\ tok # s.std THEN Fail(s, "denom")
  ELSE
    LET lpt == s.pools[denom].lpt
        esc == s.pools[denom].esc
        T == s.bal[esc][tok]
        L == s.supply[lpt]
        p == s.params
    IN
    IF L < amt THEN Fail(s, "insufficient")
    ELSE IF L = amt THEN Fail(s, "all_liquidity")
    ELSE IF T < minTok THEN Fail(s, "insufficient")
    ELSE
      LET target == ((L + L - amt) * amt * T * (p.uniDen - p.uniNum)) \div (L * L * p.uniDen) IN
      IF target < minTok THEN Fail(s, "min_withdraw")
      ELSE IF s.bal[who][lpt] < amt THEN Fail(s, "funds")
      ELSE Done([s EXCEPT !.bal = Move(Debit(s.bal, who, Coin(lpt, amt)), esc, who, Coin(tok, target)),
                          !.supply = SubSupply(s.supply, Coin(lpt, amt))],
                0, Coin(tok, target), "")

-----------------------------------------------------------------------------
(* swap.go *)

(* GetLptDenomFromDenoms for a pair with exactly one standard denom *)
PoolOfPair(s, d1, d2) == IF d1 = s.std THEN d2 ELSE d1

(* swapCoins: sender -> pool (sold), pool -> recipient (bought).  [ok, bal] *)
SwapCoins(bal, esc, sender, recipient, soldD, sold, boughtD, bought) ==
  IF bal[sender][soldD] < sold THEN [ok |-> FALSE, bal |-> bal]
  ELSE LET b1 == Move(bal, sender, esc, Coin(soldD, sold)) IN
       IF b1[esc][boughtD] < bought THEN [ok |-> FALSE, bal |-> bal]
       ELSE [ok |-> TRUE, bal |-> Move(b1, esc, recipient, Coin(boughtD, bought))]

(* calculateWithExactInput: [ok, amt] *)
CalcIn(s, soldD, sold, boughtD) ==
  LET p == PoolOfPair(s, soldD, boughtD) IN
  IF p \notin DOMAIN s.pools THEN [ok |-> FALSE, amt |-> 0]
  ELSE LET esc == s.pools[p].esc
           rin == s.bal[esc][soldD]
           rout == s.bal[esc][boughtD]
       IN IF rin <= 0 \/ rout <= 0 THEN [ok |-> FALSE, amt |-> 0]
          ELSE [ok |-> TRUE, amt |-> InputPrice(sold, rin, rout, s.params)]

(* calculateWithExactOutput: [ok, amt] *)
CalcOut(s, boughtD, bought, soldD) ==
  LET p == PoolOfPair(s, boughtD, soldD) IN
  IF p \notin DOMAIN s.pools THEN [ok |-> FALSE, amt |-> 0]
  ELSE LET esc == s.pools[p].esc
           rout == s.bal[esc][boughtD]
           rin == s.bal[esc][soldD]
       IN IF rin <= 0 \/ rout <= 0 \/ bought >= rout THEN [ok |-> FALSE, amt |-> 0]
          ELSE [ok |-> TRUE, amt |-> OutputPrice(bought, rin, rout, s.params)]

EscOfPair(s, d1, d2) == s.pools[PoolOfPair(s, d1, d2)].esc

(* TradeExactInputForOutput *)
SellSingle(s, who, to, inD, inAmt, outD, minOut) ==
  LET c == CalcIn(s, inD, inAmt, outD) IN
  IF ~c.ok THEN Fail(s, "pool")
  ELSE IF c.amt < minOut THEN Fail(s, "bound")
  ELSE LET m == SwapCoins(s.bal, EscOfPair(s, inD, outD), who, to, inD, inAmt, outD, c.amt) IN
       IF ~m.ok THEN Fail(s, "funds") ELSE Done([s EXCEPT !.bal = m.bal], 0, EmptyF, "")

(* TradeInputForExactOutput *)
BuySingle(s, who, to, inD, maxIn, outD, outAmt) ==
  LET c == CalcOut(s, outD, outAmt, inD) IN
  IF ~c.ok THEN Fail(s, "pool")
  ELSE IF c.amt > maxIn THEN Fail(s, "bound")
  ELSE LET m == SwapCoins(s.bal, EscOfPair(s, inD, outD), who, to, inD, c.amt, outD, outAmt) IN
       IF ~m.ok THEN Fail(s, "funds") ELSE Done([s EXCEPT !.bal = m.bal], 0, EmptyF, "")

(* First leg: the intermediate standard coin goes to the SENDER, who pays it
   into the second pool (fix of finding F1: before it both legs used
   (inputAddress, outputAddress), so with recipient # sender the recipient
   received the standard coin and the sender was debited for it). *)
F1Why(who, to, stdAmt) == ""

(* doubleTradeExactInputForOutput *)
SellDouble(s, who, to, inD, inAmt, outD, minOut) ==
  LET c1 == CalcIn(s, inD, inAmt, s.std) IN
  IF ~c1.ok THEN Fail(s, "pool")
  ELSE
    LET m1 == SwapCoins(s.bal, s.pools[inD].esc, who, who, inD, inAmt, s.std, c1.amt) IN
    IF ~m1.ok THEN Fail(s, "funds")
    ELSE
      LET s1 == [s EXCEPT !.bal = m1.bal]
          c2 == CalcIn(s1, s.std, c1.amt, outD)
      IN
      IF ~c2.ok THEN Fail(s, "pool")
      ELSE IF c2.amt < minOut THEN Fail(s, "bound")
      ELSE LET m2 == SwapCoins(s1.bal, s.pools[outD].esc, who, to, s.std, c1.amt, outD, c2.amt) IN
           IF ~m2.ok THEN Fail(s, "funds_std")
           ELSE Done([s EXCEPT !.bal = m2.bal], 0, EmptyF, F1Why(who, to, c1.amt))

(* doubleTradeInputForExactOutput *)
BuyDouble(s, who, to, inD, maxIn, outD, outAmt) ==
  LET c2 == CalcOut(s, outD, outAmt, s.std) IN
  IF ~c2.ok THEN Fail(s, "pool")
  ELSE
    LET c1 == CalcOut(s, s.std, c2.amt, inD) IN
    IF ~c1.ok THEN Fail(s, "pool")
    ELSE IF c1.amt > maxIn THEN Fail(s, "bound")
    ELSE
      LET m1 == SwapCoins(s.bal, s.pools[inD].esc, who, who, inD, c1.amt, s.std, c2.amt) IN
      IF ~m1.ok THEN Fail(s, "funds")
      ELSE LET m2 == SwapCoins(m1.bal, s.pools[outD].esc, who, to, s.std, c2.amt, outD, outAmt) IN
           IF ~m2.ok THEN Fail(s, "funds_std")
           ELSE Done([s EXCEPT !.bal = m2.bal], 0, EmptyF, F1Why(who, to, c2.amt))

IsDouble(s, inD, outD) == inD # s.std /\ outD # s.std

(* msg_server.go SwapCoin + keeper.go Swap *)
DoSwap(s, who, to, inD, inAmt, outD, outAmt, isBuy, deadline) ==
  IF inAmt <= 0 \/ outAmt <= 0 \/ IsLpt(inD) \/ IsLpt(outD) \/ inD = outD THEN Fail(s, "validate")
  ELSE IF s.now > deadline THEN Fail(s, "deadline")
  ELSE IF to \in BlockedOf(s) THEN Fail(s, "blocked")
  ELSE IF isBuy /\ IsDouble(s, inD, outD) THEN BuyDouble(s, who, to, inD, inAmt, outD, outAmt)
  ELSE IF isBuy THEN BuySingle(s, who, to, inD, inAmt, outD, outAmt)
  ELSE IF IsDouble(s, inD, outD) THEN SellDouble(s, who, to, inD, inAmt, outD, outAmt)
  ELSE SellSingle(s, who, to, inD, inAmt, outD, outAmt)

(* Environment: a plain bank send to a pool escrow address (or any account) *)
DoDonate(s, who, to, d, amt) ==
  IF amt <= 0 \/ to \in BlockedOf(s) \/ to \notin DOMAIN s.bal THEN Fail(s, "validate")
  ELSE IF s.bal[who][d] < amt THEN Fail(s, "funds")
  ELSE Done([s EXCEPT !.bal = Move(s.bal, who, to, Coin(d, amt))], 0, EmptyF, "")

(* the block ends; the next one is dt ticks later (coinswap has no block handlers) *)
DtOf(e) == IF e.amt > 0 THEN e.amt ELSE 1
DoEndBlock(s, dt) == Done([s EXCEPT !.now = s.now + dt], 0, EmptyF, "")

(* every registered pool names an escrow account and a liquidity denom of the
   tracked universe (always true for the real registry; a trace that breaks it
   is reported through the clauses instead of a TLC evaluation error) *)
WellFormed(s) ==
  \A p \in DOMAIN s.pools :
    /\ s.pools[p].esc \in DOMAIN s.bal /\ s.pools[p].lpt \in DOMAIN s.supply
    /\ p \in DOMAIN s.bal[s.pools[p].esc] /\ s.std \in DOMAIN s.bal[s.pools[p].esc]

MsgNames == {"AddLiquidity", "RemoveLiquidity", "AddUnilateral", "RemoveUnilateral", "Swap"}
(* the denom-valued fields of a message *)
DenomFields(e) ==
  CASE e.name \in {"AddLiquidity", "RemoveLiquidity", "Donate"} -> {e.denom}
    [] e.name \in {"AddUnilateral", "RemoveUnilateral"} -> {e.denom, e.tok}
    [] e.name = "Swap" -> {e.inDenom, e.outDenom}
    [] OTHER -> {}
(* A message naming a denom outside the tracked universe (a coin nobody holds and no pool is
   named after: "BTC", "lpt-9") or an account outside it: every handler rejects it today - an
   unknown pool, an unpayable deposit.  Stated once, here, so that Apply is total. *)
Untracked(s, e) ==
  \/ \E d \in DenomFields(e) : d \notin DOMAIN s.supply
  \/ e.name \in MsgNames \cup {"Donate"} /\ e.who \notin DOMAIN s.bal
  \/ e.name = "Swap" /\ e.to \notin DOMAIN s.bal

Apply(s, e) ==
  IF ~WellFormed(s) THEN Fail(s, "malformed_registry") ELSE
  IF "" \in DenomFields(e) THEN Fail(s, "validate") ELSE
  IF Untracked(s, e) THEN Fail(s, "untracked") ELSE
  CASE e.name = "AddLiquidity" -> DoAddLiquidity(s, e.who, e.denom, e.amt, e.amt2, e.min1, e.deadline)
    [] e.name = "RemoveLiquidity" -> DoRemoveLiquidity(s, e.who, e.denom, e.amt, e.min1, e.min2, e.deadline)
    [] e.name = "AddUnilateral" -> DoAddUnilateral(s, e.who, e.denom, e.tok, e.amt, e.min1, e.deadline)
    [] e.name = "RemoveUnilateral" -> DoRemoveUnilateral(s, e.who, e.denom, e.tok, e.min1, e.amt, e.deadline)
    [] e.name = "Swap" -> DoSwap(s, e.who, e.to, e.inDenom, e.amt, e.outDenom, e.amt2, e.isBuy, e.deadline)
    [] e.name = "Donate" -> DoDonate(s, e.who, e.to, e.denom, e.amt)
    [] e.name = "EndBlock" -> DoEndBlock(s, DtOf(e))
    [] OTHER -> Fail(s, "unknown")

-----------------------------------------------------------------------------
(* Ghost state: defined after the clause helpers below (GhostInit, GhostStep). *)

-----------------------------------------------------------------------------
(***************************************************************************)
(* Property clauses over (s, e, t): observed pre-state, event with result, *)
(* observed post-state.  Nothing below uses the operators above.           *)
(***************************************************************************)
CsMsgs == {"AddLiquidity", "RemoveLiquidity", "AddUnilateral", "RemoveUnilateral", "Swap"}
Dl(s, t, a, d) == t.bal[a][d] - s.bal[a][d]
DSup(s, t, d) == t.supply[d] - s.supply[d]

PoolS(t, p) == t.bal[t.pools[p].esc][t.std]
PoolT(t, p) == t.bal[t.pools[p].esc][p]
PoolL(t, p) == t.supply[t.pools[p].lpt]

(* C01: reserves product per squared share supply never falls — every event,
   including donations, block ends and rejected messages *)
C01_ShareValue(s, e, t) ==
  /\ WellFormed(s) /\ WellFormed(t)
  /\ \A p \in (DOMAIN s.pools) \cap (DOMAIN t.pools) :
       ShareValueW(PoolS(s, p), PoolT(s, p), PoolL(s, p), PoolS(t, p), PoolT(t, p), PoolL(t, p))

(* swap legs, reconstructed from the pools' balance deltas *)
SwapOK(s, e) == e.name = "Swap" /\ e.ok
SwapKnown(s, e) ==
  /\ WellFormed(s)
  /\ e.inDenom # e.outDenom
  /\ \A d \in {e.inDenom, e.outDenom} \ {s.std} : d \in DOMAIN s.pools
Leg(s, t, p, inD, outD) ==
  LET esc == s.pools[p].esc IN
  [esc |-> esc, inD |-> inD, outD |-> outD,
   rin |-> s.bal[esc][inD], rout |-> s.bal[esc][outD],
   paid |-> t.bal[esc][inD] - s.bal[esc][inD],
   recv |-> s.bal[esc][outD] - t.bal[esc][outD]]
Legs(s, e, t) ==
  IF IsDouble(s, e.inDenom, e.outDenom)
  THEN <<Leg(s, t, e.inDenom, e.inDenom, s.std), Leg(s, t, e.outDenom, s.std, e.outDenom)>>
  ELSE <<Leg(s, t, PoolOfPair(s, e.inDenom, e.outDenom), e.inDenom, e.outDenom)>>

(* the arithmetic is in CoinswapClauses.tla, shared with the big-number tier *)
LegRuleOK(g, p) == LegRuleW(g.rin, g.rout, g.paid, g.recv, p.feeNum, p.feeDen)
LegInMax(g, p) == LegInMaxW(g.rin, g.rout, g.paid, g.recv, p.feeNum, p.feeDen)
LegOutTight(g, p) == LegOutTightW(g.rin, g.rout, g.paid, g.recv, p.feeNum, p.feeDen)

C01_LegRule(s, e, t) ==
  SwapOK(s, e) => /\ SwapKnown(s, e)
                  /\ \A i \in DOMAIN Legs(s, e, t) :
                       LET g == Legs(s, e, t)[i] IN
                       g.paid >= 0 /\ g.recv >= 0 /\ g.recv < g.rout /\ LegRuleOK(g, s.params)
C01_ExactInMax(s, e, t) ==
  (SwapOK(s, e) /\ SwapKnown(s, e) /\ ~e.isBuy) =>
    \A i \in DOMAIN Legs(s, e, t) : LegInMax(Legs(s, e, t)[i], s.params)
C01_ExactOutTight(s, e, t) ==
  (SwapOK(s, e) /\ SwapKnown(s, e) /\ e.isBuy) =>
    \A i \in DOMAIN Legs(s, e, t) : LegOutTight(Legs(s, e, t)[i], s.params)

(* C02 *)
SwapPaid(s, e, t) == Legs(s, e, t)[1].paid
SwapRecv(s, e, t) == LET ls == Legs(s, e, t) IN ls[Len(ls)].recv

C02_SwapSender(s, e, t) ==
  (SwapOK(s, e) /\ SwapKnown(s, e)) =>
    t.bal[e.who][e.inDenom] = s.bal[e.who][e.inDenom] - SwapPaid(s, e, t)
C02_SwapRecipient(s, e, t) ==
  (SwapOK(s, e) /\ SwapKnown(s, e)) =>
    t.bal[e.to][e.outDenom] = s.bal[e.to][e.outDenom] + SwapRecv(s, e, t)

C02_Bounds(s, e, t) ==
  (SwapOK(s, e) /\ SwapKnown(s, e)) =>
    /\ IF e.isBuy THEN SwapRecv(s, e, t) = e.amt2 /\ SwapPaid(s, e, t) <= e.amt
                  ELSE SwapPaid(s, e, t) = e.amt /\ SwapRecv(s, e, t) >= e.amt2
    /\ s.now <= e.deadline

(* the pool a successful liquidity message worked on *)
LiqPool(s, e, t) ==
  IF e.name = "RemoveLiquidity"
  THEN (IF PoolByLpt(s, e.denom) = {} THEN "" ELSE CHOOSE p \in PoolByLpt(s, e.denom) : TRUE)
  ELSE e.denom
Created(s, t) == (DOMAIN t.pools) \ (DOMAIN s.pools)

(* (account, denom) cells a successful message may change *)
Cells(s, e, t) ==
  IF e.name = "Swap" THEN
    {<<e.who, e.inDenom>>, <<e.to, e.outDenom>>}
    \cup UNION {{<<Legs(s, e, t)[i].esc, Legs(s, e, t)[i].inD>>, <<Legs(s, e, t)[i].esc, Legs(s, e, t)[i].outD>>}
                : i \in DOMAIN Legs(s, e, t)}
  ELSE
    LET p == LiqPool(s, e, t)
        pool == t.pools[p]
        both == {<<e.who, pool.lpt>>, <<e.who, s.std>>, <<e.who, p>>, <<pool.esc, s.std>>, <<pool.esc, p>>}
        one == {<<e.who, pool.lpt>>, <<e.who, e.tok>>, <<pool.esc, e.tok>>}
    IN CASE e.name = "AddLiquidity" ->
              both \cup (IF p \in Created(s, t)
                         THEN {<<e.who, s.params.feeDenom>>, <<FEEP, s.params.feeDenom>>} ELSE {})
         [] e.name = "RemoveLiquidity" -> both
         [] OTHER -> one

MsgOK(s, e, t) ==
  /\ e.name \in CsMsgs /\ e.ok
  /\ WellFormed(s) /\ WellFormed(t)
  /\ IF e.name = "Swap" THEN SwapKnown(s, e) ELSE LiqPool(s, e, t) \in DOMAIN t.pools

FrameOver(s, t, cells) ==
  /\ DOMAIN t.bal = DOMAIN s.bal
  /\ \A a \in DOMAIN s.bal : \A d \in DOMAIN s.bal[a] :
       (<<a, d>> \notin cells) => t.bal[a][d] = s.bal[a][d]

C02_Frame(s, e, t) ==
  (e.name \in CsMsgs /\ e.ok) => /\ MsgOK(s, e, t)
                                 /\ FrameOver(s, t, Cells(s, e, t))

(* the same with the two standard-coin cells of finding F1 exempted, as long
   as the intermediate coin only moves from the sender to the recipient *)
C02_Frame_ModF1(s, e, t) ==
  \/ C02_Frame(s, e, t)
  \/ /\ SwapOK(s, e) /\ SwapKnown(s, e) /\ IsDouble(s, e.inDenom, e.outDenom) /\ e.to # e.who
     /\ FrameOver(s, t, Cells(s, e, t) \cup {<<e.who, s.std>>, <<e.to, s.std>>})
     /\ Dl(s, t, e.who, s.std) + Dl(s, t, e.to, s.std) = 0

FeeShare(s, e, t, d) ==
  IF e.name = "AddLiquidity" /\ e.denom \in Created(s, t) /\ d = s.params.feeDenom
  THEN s.params.fee ELSE 0

C02_AddTakesAtMost(s, e, t) ==
  /\ (e.name = "AddLiquidity" /\ MsgOK(s, e, t)) =>
       LET p == e.denom
           pool == t.pools[p]
           paidStd == 0 - Dl(s, t, e.who, s.std) - FeeShare(s, e, t, s.std)
           paidTok == 0 - Dl(s, t, e.who, p) - FeeShare(s, e, t, p)
           minted == Dl(s, t, e.who, pool.lpt)
       IN /\ paidStd = e.amt
          /\ paidTok >= 0 /\ paidTok <= e.amt2
          /\ minted >= e.min1 /\ minted = DSup(s, t, pool.lpt)
          /\ Dl(s, t, pool.esc, s.std) = paidStd /\ Dl(s, t, pool.esc, p) = paidTok
  /\ (e.name = "AddUnilateral" /\ MsgOK(s, e, t)) =>
       LET pool == t.pools[e.denom]
           minted == Dl(s, t, e.who, pool.lpt)
       IN /\ Dl(s, t, e.who, e.tok) = 0 - e.amt
          /\ Dl(s, t, pool.esc, e.tok) = e.amt
          /\ minted >= e.min1 /\ minted = DSup(s, t, pool.lpt)

C02_RemoveGivesAtLeast(s, e, t) ==
  /\ (e.name = "RemoveLiquidity" /\ MsgOK(s, e, t)) =>
       LET p == LiqPool(s, e, t)
           pool == t.pools[p]
       IN /\ Dl(s, t, e.who, pool.lpt) = 0 - e.amt /\ DSup(s, t, pool.lpt) = 0 - e.amt
          /\ Dl(s, t, e.who, s.std) >= e.min1 /\ Dl(s, t, e.who, p) >= e.min2
          /\ Dl(s, t, e.who, s.std) >= 0 /\ Dl(s, t, e.who, p) >= 0
          /\ Dl(s, t, pool.esc, s.std) = 0 - Dl(s, t, e.who, s.std)
          /\ Dl(s, t, pool.esc, p) = 0 - Dl(s, t, e.who, p)
  /\ (e.name = "RemoveUnilateral" /\ MsgOK(s, e, t)) =>
       LET pool == t.pools[e.denom] IN
       /\ Dl(s, t, e.who, pool.lpt) = 0 - e.amt /\ DSup(s, t, pool.lpt) = 0 - e.amt
       /\ Dl(s, t, e.who, e.tok) >= e.min1
       /\ Dl(s, t, pool.esc, e.tok) = 0 - Dl(s, t, e.who, e.tok)

(* supplies: liquidity tokens only through the message's own pool; the fee
   denom only when a pool is created: burned = fee - floor(fee * tax) *)
C02_Supply(s, e, t) ==
  /\ DOMAIN t.supply = DOMAIN s.supply
  /\ \A d \in DOMAIN s.supply :
       IF e.name \in CsMsgs \ {"Swap"} /\ MsgOK(s, e, t) /\ d = t.pools[LiqPool(s, e, t)].lpt
       THEN TRUE                                   \* C02_AddTakesAtMost / C02_RemoveGivesAtLeast
       ELSE IF FeeShare(s, e, t, d) > 0 /\ e.ok
       THEN /\ DSup(s, t, d) = 0 - (s.params.fee - TaxOf(s.params))
            /\ Dl(s, t, FEEP, d) = TaxOf(s.params)
       ELSE DSup(s, t, d) = 0

C02_Conservation(t) ==
  \A d \in DOMAIN t.supply : TotalOf(t.bal, d) = t.supply[d]

Rejected_NoEffect(s, e, t) == (~e.ok) => t = s

-----------------------------------------------------------------------------
(***************************************************************************)
(* Ghost state, from the observed (s, e, t) only.                          *)
(*   steps, created  counters                                              *)
(*   blk    the successful single-pool swaps of the current block, in      *)
(*          order: [who, to, inD, outD, paid, recv] (sandwich detection)   *)
(*   last   the previous event when it was such a swap with to = who,      *)
(*          else NoLast (round trips)                                      *)
(*   gift   coins sent to the coinswap module account by donations and by  *)
(*          swaps naming it as recipient                                   *)
(***************************************************************************)
NoLast == [who |-> "", to |-> "", inD |-> "", outD |-> "", paid |-> 0, recv |-> 0]
SwapSummary(s, e, t) ==
  LET g == Legs(s, e, t)[1] IN
  [who |-> e.who, to |-> e.to, inD |-> e.inDenom, outD |-> e.outDenom, paid |-> g.paid, recv |-> g.recv]
IsSingleSwapOK(s, e) ==
  SwapOK(s, e) /\ SwapKnown(s, e) /\ ~IsDouble(s, e.inDenom, e.outDenom)

GhostInit == [steps |-> 0, created |-> 0, blk |-> <<>>, last |-> NoLast, gift |-> EmptyF,
              reg |-> EmptyF, par |-> EmptyF]
(* a history starts in state s: the pools it finds and the configured parameters *)
GhostInitOf(s) == [GhostInit EXCEPT !.reg = s.pools, !.par = s.params]
GhostStep(g, s, e, t) ==
  [\* reg: the registry ACCORDING TO THE HISTORY - every pool ever seen, with the liquidity denom and
   \* the escrow it had when it first appeared; never rewritten, never forgotten, whatever the
   \* module's own registry says later.  par: the parameters the history started with (no driver
   \* changes them: a parameter change would be an event of its own and would update this ghost)
   reg |-> [p \in DOMAIN g.reg \cup DOMAIN t.pools |-> IF p \in DOMAIN g.reg THEN g.reg[p] ELSE t.pools[p]],
   par |-> g.par,
   steps |-> g.steps + 1,
   created |-> g.created + Cardinality(DOMAIN t.pools \ DOMAIN s.pools),
   blk |-> IF e.name = "EndBlock" THEN <<>>
           ELSE IF IsSingleSwapOK(s, e) THEN Append(g.blk, SwapSummary(s, e, t))
           ELSE g.blk,
   last |-> IF IsSingleSwapOK(s, e) /\ e.to = e.who THEN SwapSummary(s, e, t) ELSE NoLast,
   gift |-> IF e.ok /\ e.to = MOD /\ e.name = "Donate"
            THEN Put(g.gift, e.denom, Amt(g.gift, e.denom) + e.amt)
            ELSE IF e.ok /\ e.to = MOD /\ e.name = "Swap"
            THEN Put(g.gift, e.outDenom, Amt(g.gift, e.outDenom)
                                           + (IF SwapKnown(s, e) THEN SwapRecv(s, e, t) ELSE 0))
            ELSE g.gift]

(* A sells, B sells the same way, A sells back — all in one block *)
Sandwich(g) ==
  LET n == Len(g.blk) IN
  /\ n >= 3
  /\ LET a == g.blk[n - 2]
         b == g.blk[n - 1]
         c == g.blk[n]
     IN /\ a.who = c.who /\ a.who # b.who
        /\ a.inD = b.inD /\ a.outD = b.outD
        /\ c.inD = a.outD /\ c.outD = a.inD

-----------------------------------------------------------------------------
(***************************************************************************)
(* HISTORY TWINS (official clauses).  Every clause above finds "the pool's  *)
(* escrow", "the pool's liquidity denom" and "the configured fee" in the    *)
(* module's OWN bookkeeping as projected in the state (s.pools, s.params).  *)
(* A defect that rewrites, drops or duplicates a registry entry, or touches *)
(* the stored parameters, makes them judge the step by the corrupted entry: *)
(* domain empty (C01_ShareValue over the pools still registered), both      *)
(* sides equally wrong (C02_Frame allowing the cells of the WRONG escrow),  *)
(* an exempted supply (C02_Supply).  The twins evaluate the SAME clause     *)
(* text on the observed bank state (balances, supplies) with the registry   *)
(* and the parameters ACCORDING TO THE HISTORY (ghosts reg, par): a pool is *)
(* what it was when it first appeared, for ever.  gp / g: ghosts before /   *)
(* after the step.  On a tree whose registry never changes an entry the     *)
(* twins coincide with the originals.                                       *)
(***************************************************************************)
HV(s, g) == [s EXCEPT !.pools = g.reg, !.params = g.par]

C01_ShareValueH(s, e, t, gp, g) == C01_ShareValue(HV(s, gp), e, HV(t, g))
C01_LegRuleH(s, e, t, gp, g) == C01_LegRule(HV(s, gp), e, HV(t, g))
C01_ExactInMaxH(s, e, t, gp, g) == C01_ExactInMax(HV(s, gp), e, HV(t, g))
C01_ExactOutTightH(s, e, t, gp, g) == C01_ExactOutTight(HV(s, gp), e, HV(t, g))
C02_SwapSenderH(s, e, t, gp, g) == C02_SwapSender(HV(s, gp), e, HV(t, g))
C02_SwapRecipientH(s, e, t, gp, g) == C02_SwapRecipient(HV(s, gp), e, HV(t, g))
C02_BoundsH(s, e, t, gp, g) == C02_Bounds(HV(s, gp), e, HV(t, g))
C02_FrameH(s, e, t, gp, g) == C02_Frame(HV(s, gp), e, HV(t, g))
C02_AddTakesAtMostH(s, e, t, gp, g) == C02_AddTakesAtMost(HV(s, gp), e, HV(t, g))
C02_RemoveGivesAtLeastH(s, e, t, gp, g) == C02_RemoveGivesAtLeast(HV(s, gp), e, HV(t, g))
C02_SupplyH(s, e, t, gp, g) == C02_Supply(HV(s, gp), e, HV(t, g))

(* C01 / C02 speak of "its two reserves", "the outstanding liquidity-token supply" of every pool
   and of liquidity tokens "minted only against deposits": every pool has a liquidity denom and an
   escrow OF ITS OWN - no two pools that ever existed share one (a pool opened with the sequence
   number of an earlier one would mint that pool's shares against deposits into that pool's
   escrow), and an accepted message opens at most the one pool it names. *)
C02_PoolFresh(s, e, t, gp, g) ==
  /\ \A p, q \in DOMAIN g.reg :
       (p # q) => (g.reg[p].lpt # g.reg[q].lpt /\ g.reg[p].esc # g.reg[q].esc)
  /\ (DOMAIN g.reg # DOMAIN gp.reg) =>
       /\ e.name = "AddLiquidity" /\ e.ok
       /\ DOMAIN g.reg \ DOMAIN gp.reg = {e.denom}

(* the module's registry is the history's (diagnostic: a registry entry that is rewritten or lost
   breaks no listed property by itself; what it leads to is judged by the twins above) *)
X02_RegistryStable(t, g) == t.pools = g.reg /\ t.params = g.par

-----------------------------------------------------------------------------
(***************************************************************************)
(* DIAGNOSTIC clauses (X01_ / X02_): behaviour beyond the listed           *)
(* properties.  They never decide a verdict; a failure is logged with the  *)
(* line that reached it ("clause failures outside this property").         *)
(***************************************************************************)

(* Pool life cycle.  A pool is WEDGED when no liquidity token exists but its
   escrow holds coins (all liquidity removed, then any bank send to the
   escrow): AddLiquidity takes the funded branch and rejects with "liquidity
   pool invalid" because the supply is zero, one-sided additions mint
   isqrt(0) - 0 = 0 — nobody can ever own a share of that pool again. *)
Wedged(t, p) ==
  /\ t.pools[p].esc \in DOMAIN t.bal /\ t.pools[p].lpt \in DOMAIN t.supply
  /\ PoolL(t, p) = 0 /\ ~EscEmpty(t, t.pools[p].esc)
(* liveness of pools as a state predicate: fails in exactly the states (and
   therefore on exactly the histories) in which some pool is wedged *)
X01_PoolNotWedged(t) == \A p \in DOMAIN t.pools : ~Wedged(t, p)
(* ... and the state is absorbing: no message or donation leaves it *)
X01_WedgedForever(s, e, t) ==
  \A p \in DOMAIN s.pools : Wedged(s, p) => (p \in DOMAIN t.pools /\ Wedged(t, p))
(* nobody is ever turned away because "the pool is invalid" *)
X01_AddNeverLockedOut(s, e) ==
  (e.name = "AddLiquidity" /\ ~e.ok /\ WellFormed(s)) => Apply(s, e).why # "pool_invalid"
(* no handler panics (AddUnilateralLiquidity divides by a zero reserve) *)
X01_NoPanic(e) == ~e.panic

(* Several pools on one standard denom: what leaves the first pool of a
   routed order is what enters the second *)
X02_RouteBalanced(s, e, t) ==
  (SwapOK(s, e) /\ SwapKnown(s, e) /\ IsDouble(s, e.inDenom, e.outDenom)) =>
    Legs(s, e, t)[1].recv = Legs(s, e, t)[2].paid
(* selling and immediately selling back at most the proceeds never returns
   more than was paid (no free round trip; the fee and the floors stay in the
   pool) — the sandwich only pays through the victim's trade in between *)
X02_RoundTripNoGain(s, e, t, g) ==
  (IsSingleSwapOK(s, e) /\ e.to = e.who /\ g.last.who = e.who
     /\ e.inDenom = g.last.outD /\ e.outDenom = g.last.inD
     /\ Legs(s, e, t)[1].paid <= g.last.recv)
  => Legs(s, e, t)[1].recv <= g.last.paid
(* blocked accounts receive nothing except the tax share of a creation fee *)
X02_BlockedUntouched(s, e, t) ==
  \A a \in BlockedOf(s) \cap DOMAIN s.bal : \A d \in DOMAIN s.bal[a] :
    (Dl(s, t, a, d) # 0) =>
      /\ e.name = "AddLiquidity" /\ e.ok /\ Created(s, t) # {}
      /\ d = s.params.feeDenom /\ Dl(s, t, a, d) = TaxOf(s.params)
(* the coinswap module account holds only what was sent to it on purpose *)
X02_ModuleOnlyGifts(t, g) ==
  (MOD \in DOMAIN t.bal) => \A d \in DOMAIN t.bal[MOD] : t.bal[MOD][d] = Amt(g.gift, d)
(* a donation moves exactly the donated coin between the two parties *)
X02_DonateFrame(s, e, t) ==
  (e.name = "Donate" /\ e.ok) =>
    /\ FrameOver(s, t, {<<e.who, e.denom>>, <<e.to, e.denom>>})
    /\ t.pools = s.pools
    /\ (e.to # e.who => /\ Dl(s, t, e.who, e.denom) = 0 - e.amt
                        /\ Dl(s, t, e.to, e.denom) = e.amt)

(* a one-sided message that succeeds names one of the two reserves of its pool (not some other
   coin the escrow happens to hold: a foreign donation, a share token) *)
X02_OneSidedReserve(s, e) ==
  (e.name \in {"AddUnilateral", "RemoveUnilateral"} /\ e.ok) => e.tok \in {s.std, e.denom}

-----------------------------------------------------------------------------
(* Model-checking universe *)
CONSTANTS InitStd, InitTok, CFee, FeeNum, FeeDen, UniNum, UniDen, TaxNum, TaxDen,
          Amts, Mins, Liqs, Donations, DlOffs, MaxNow, Senders, Recipients, MaxSteps,
          WithUni,
          DonateAlso,    \* further donation targets (module account, blocked fee pool)
          InitOdd,       \* what every user holds of each odd coin
          WrongKind      \* BOOLEAN: every denom-valued field of every message (and donations) ranges over
                         \* EVERY denom: the standard coin, tokens, odd coins, liquidity denoms, strange ones

(* every non-liquidity coin other than the standard one may get a pool: the tokens and the odd coins *)
Poolable == Tokens \cup Odd
NPool == Cardinality(Poolable)
Lpts == {LptOf(n) : n \in 1..NPool}
Escs == {EscOf(l) : l \in Lpts}
Accts == Users \cup Escs \cup {MOD, FEEP}
Denoms == {Std} \cup Poolable \cup Lpts
(* valid denoms outside the tracked universe: nobody holds any, no pool is named after them
   (different case; a liquidity denom whose sequence is never reached) *)
Strange == {"BTC", "lpt-9"}
AnyDenoms == Denoms \cup Strange

InitOf(d) == IF d = Std THEN InitStd ELSE IF d \in Tokens THEN InitTok ELSE IF d \in Odd THEN InitOdd ELSE 0
Init0 ==
  [now |-> 1, seq |-> 1, std |-> Std, blocked |-> <<FEEP, MOD>>,
   params |-> [feeNum |-> FeeNum, feeDen |-> FeeDen, uniNum |-> UniNum, uniDen |-> UniDen,
               taxNum |-> TaxNum, taxDen |-> TaxDen, fee |-> CFee, feeDenom |-> Std],
   pools |-> EmptyF,
   bal |-> [a \in Accts |-> [d \in Denoms |-> IF a \in Users THEN InitOf(d) ELSE 0]],
   supply |-> [d \in Denoms |-> Cardinality(Users) * InitOf(d)]]

Init == st = Init0 /\ ev = NoEv /\ gh = GhostInitOf(Init0) /\ hist = <<>>

Step(e) ==
  LET r == Apply(st, e)
      e2 == [e EXCEPT !.ok = r.ok, !.panic = r.panic, !.minted = r.minted, !.wd = r.wd]
  IN /\ st' = r.st
     /\ ev' = e2
     /\ gh' = GhostStep(gh, st, e2, r.st)
     /\ hist' = IF RecordHist THEN Append(hist, e2) ELSE hist

Ev(name, who) == [NoEv EXCEPT !.name = name, !.who = who]
Deadlines == {st.now - 1 + k : k \in DlOffs}
(* what the denom-valued fields range over *)
TradeDenoms == {Std} \cup Poolable
F_Pool == IF WrongKind THEN AnyDenoms ELSE Poolable        \* max_token, counterparty_denom
F_Lpt == IF WrongKind THEN AnyDenoms ELSE Lpts             \* withdraw_liquidity
F_Trade == IF WrongKind THEN AnyDenoms ELSE TradeDenoms    \* input / output coin
F_One(d) == IF WrongKind THEN AnyDenoms ELSE {d, Std}      \* exact_token / min_token of the one-sided messages
F_Don == IF WrongKind THEN Denoms ELSE TradeDenoms         \* plain bank sends to the escrows
HopsOf(i, o) == IF i # Std /\ o # Std THEN 2 ELSE 1

AddLiquidity ==
  \E who \in Senders, d \in F_Pool, x \in Amts, m \in Amts, lo \in Mins, dl \in Deadlines :
    Step([Ev("AddLiquidity", who) EXCEPT !.denom = d, !.amt = x, !.amt2 = m, !.min1 = lo, !.deadline = dl])
RemoveLiquidity ==
  \E who \in Senders, l \in F_Lpt, x \in Liqs, lo1 \in Mins, lo2 \in Mins, dl \in Deadlines :
    Step([Ev("RemoveLiquidity", who) EXCEPT !.denom = l, !.amt = x, !.min1 = lo1, !.min2 = lo2, !.deadline = dl])
AddUnilateral ==
  WithUni /\
  \E who \in Senders, d \in F_Pool, x \in Amts, lo \in Mins, dl \in Deadlines :
    \E tk \in F_One(d) :
      Step([Ev("AddUnilateral", who) EXCEPT !.denom = d, !.tok = tk, !.amt = x, !.min1 = lo, !.deadline = dl])
RemoveUnilateral ==
  WithUni /\
  \E who \in Senders, d \in F_Pool, x \in Liqs, lo \in Mins \ {0}, dl \in Deadlines :
    \E tk \in F_One(d) :
      Step([Ev("RemoveUnilateral", who) EXCEPT !.denom = d, !.tok = tk, !.amt = x, !.min1 = lo, !.deadline = dl])
Swap ==
  \E who \in Senders, to \in Recipients, i \in F_Trade, o \in F_Trade,
     x \in Amts, y \in Amts, buy \in BOOLEAN, dl \in Deadlines :
    /\ (i # o \/ WrongKind)
    /\ Step([Ev("Swap", who) EXCEPT !.to = to, !.inDenom = i, !.outDenom = o, !.amt = x, !.amt2 = y,
               !.isBuy = buy, !.deadline = dl,
               !.hops = IF i # Std /\ o # Std THEN 2 ELSE 1])
Donate ==
  \E who \in Senders, to \in Escs \cup DonateAlso, d \in F_Don, a \in Donations :
    Step([Ev("Donate", who) EXCEPT !.to = to, !.denom = d, !.amt = a])
EndBlock ==
  /\ st.now < MaxNow
  /\ Step([Ev("EndBlock", "") EXCEPT !.amt = 1])

Next == AddLiquidity \/ RemoveLiquidity \/ AddUnilateral \/ RemoveUnilateral \/ Swap
        \/ Donate \/ EndBlock

Spec == Init /\ [][Next]_vars

(* bounded-depth exploration for the wide two-pool universe: every behaviour
   of at most MaxSteps events (the event count is part of ViewDepth, so the
   bound is exact and independent of the number of workers) *)
NextBounded == gh.steps < MaxSteps /\ Next
SpecBounded == Init /\ [][NextBounded]_vars

(* Generator: TLC as a source of behaviours to replay on the real code.  In
   simulation mode every step enumerates all successors, so the dimensions that
   do not shape the arithmetic (sender, recipient, deadline, minima) are drawn
   with RandomElement and only denominations and amounts are enumerated. *)
Rejects(h) == Cardinality({i \in DOMAIN h : ~h[i].ok})
GenDonate(who) ==
  \E d \in F_Don, a \in Donations :
    Step([Ev("Donate", who) EXCEPT !.to = RandomElement(Escs \cup DonateAlso), !.denom = d, !.amt = a])
GenActs(who, to, dl, lo, lo2) ==
  \/ \E d \in Poolable, x \in Amts, m \in Amts :
       Step([Ev("AddLiquidity", who) EXCEPT !.denom = d, !.amt = x, !.amt2 = m, !.min1 = lo, !.deadline = dl])
  \/ \E l \in Lpts, x \in Liqs :
       Step([Ev("RemoveLiquidity", who) EXCEPT !.denom = l, !.amt = x, !.min1 = lo, !.min2 = lo2, !.deadline = dl])
  \/ \E d \in Poolable, x \in Amts : \E tk \in {d, Std} :
       Step([Ev("AddUnilateral", who) EXCEPT !.denom = d, !.tok = tk, !.amt = x, !.min1 = lo, !.deadline = dl])
  \/ \E d \in Poolable, x \in Liqs : \E tk \in {d, Std} :
       Step([Ev("RemoveUnilateral", who) EXCEPT !.denom = d, !.tok = tk, !.amt = x, !.min1 = lo + 1, !.deadline = dl])
  \/ \E i \in TradeDenoms, o \in TradeDenoms, x \in Amts, y \in Amts, buy \in BOOLEAN :
       /\ i # o
       /\ Step([Ev("Swap", who) EXCEPT !.to = to, !.inDenom = i, !.outDenom = o, !.amt = x, !.amt2 = y,
                  !.isBuy = buy, !.deadline = dl, !.hops = HopsOf(i, o)])
  \/ GenDonate(who)
  \/ EndBlock
GenNext ==
  /\ GenActs(RandomElement(Senders), RandomElement(Recipients), RandomElement(Deadlines),
             RandomElement(Mins), RandomElement(Mins))
  /\ (ev'.ok \/ 4 * (Rejects(hist) + 1) <= Len(hist) + 1)   \* at most a quarter rejected
GenSpec == Init /\ [][GenNext]_vars
GenDepth == atoi(IOEnv.GEN_DEPTH)
GenConstraint ==
  /\ Len(hist) <= GenDepth
  /\ (Len(hist) = GenDepth) => PrintT(<<"BEHAVIOUR", ToJson(hist)>>)

(***************************************************************************)
(* Second generator mode: NEGATIVE PROBING.  The prefix is an ordinary     *)
(* behaviour in which plain bank sends to the escrows - of every denom:    *)
(* foreign tokens, odd coins, liquidity tokens - are frequent (every       *)
(* fourth step) and pools are opened on the odd coins too.  The deep state *)
(* it reaches is then probed with a TAIL of messages that the              *)
(* specification REJECTS: every message type, every denom-valued field     *)
(* drawn from every kind of denom (often one that the pool's escrow or the *)
(* sender really holds: an identifier that belongs to another object),     *)
(* every role, bounds mostly wide open, deadlines mostly valid - so that   *)
(* code which wrongly accepts one of them goes through with it and is      *)
(* judged by the clauses.  A rejected message changes nothing, so the      *)
(* whole tail is computed against the one state reached (no stepping); the *)
(* real code executes it in one block, followed by the driver's epilogue   *)
(* (withdraw everything, probe the emptied pools, fund them again), which  *)
(* is computed from the REAL state.                                        *)
(***************************************************************************)
GenNextP ==
  /\ IF RandomElement(1..4) = 1
     THEN GenDonate(RandomElement(Senders))
     ELSE GenActs(RandomElement(Senders), RandomElement(Recipients), RandomElement(Deadlines),
                  RandomElement(Mins), RandomElement(Mins))
  /\ (ev'.ok \/ 4 * (Rejects(hist) + 1) <= Len(hist) + 1)
GenSpecP == Init /\ [][GenNextP]_vars

Wt(seq) == seq[RandomElement(1..Len(seq))]                 \* weighted choice
HeldBy(s, a) == {d \in DOMAIN s.bal[a] : s.bal[a][d] > 0}
ProbeDenoms(s) == DOMAIN s.supply \cup Strange
PickPool(s) ==
  IF DOMAIN s.pools = {} \/ RandomElement(1..4) = 1 THEN RandomElement(ProbeDenoms(s))
  ELSE RandomElement(DOMAIN s.pools)
(* a denom for a field that names one side of a pool / a share: often one that the account really holds *)
PickHeld(s, a) ==
  IF a \in DOMAIN s.bal /\ HeldBy(s, a) # {} /\ RandomElement(1..2) = 1 THEN RandomElement(HeldBy(s, a))
  ELSE RandomElement(ProbeDenoms(s))
EscOrNone(s, p) == IF p \in DOMAIN s.pools THEN s.pools[p].esc ELSE ""
RandProbe(s) ==
  LET who == RandomElement(Senders)
      dl == Wt(<<s.now + 1, s.now + 1, s.now + 1, s.now + 1, s.now, s.now - 1>>)
      lo == Wt(<<0, 0, 0, 1, 4>>)
      x == RandomElement(Amts \cup Liqs)
      y == RandomElement(Amts)
      p == PickPool(s)
      k == RandomElement(1..5)
  IN CASE k = 1 ->
            [Ev("AddLiquidity", who) EXCEPT !.denom = p, !.amt = x, !.amt2 = y, !.min1 = lo, !.deadline = dl]
       [] k = 2 ->
            [Ev("RemoveLiquidity", who) EXCEPT !.denom = PickHeld(s, who), !.amt = x, !.min1 = lo, !.min2 = 0,
                                                !.deadline = dl]
       [] k = 3 ->
            [Ev("AddUnilateral", who) EXCEPT !.denom = p, !.tok = PickHeld(s, EscOrNone(s, p)), !.amt = x,
                                              !.min1 = lo, !.deadline = dl]
       [] k = 4 ->
            [Ev("RemoveUnilateral", who) EXCEPT !.denom = p, !.tok = PickHeld(s, EscOrNone(s, p)), !.amt = x,
                                                 !.min1 = lo + 1, !.deadline = dl]
       [] OTHER ->
            LET i == RandomElement(ProbeDenoms(s))
                o == RandomElement(ProbeDenoms(s))
            IN [Ev("Swap", who) EXCEPT !.to = RandomElement(Recipients), !.inDenom = i, !.outDenom = o,
                                       !.amt = x, !.amt2 = y, !.isBuy = RandomElement(BOOLEAN), !.deadline = dl,
                                       !.hops = HopsOf(i, o)]
RECURSIVE ProbeTail(_, _)
ProbeTail(s, n) ==
  IF n = 0 THEN <<>>
  ELSE LET e == RandProbe(s)
           r == Apply(s, e)
       IN (IF r.ok THEN <<>> ELSE <<[e EXCEPT !.ok = FALSE, !.panic = r.panic]>>) \o ProbeTail(s, n - 1)
ProbeN == 14          \* candidates drawn per behaviour (the accepted ones are dropped)
GenConstraintP ==
  /\ Len(hist) <= GenDepth
  /\ (Len(hist) = GenDepth /\ RandomElement(1..10) = 1)
       => PrintT(<<"BEHAVIOUR", ToJson(hist \o ProbeTail(st, ProbeN))>>)

-----------------------------------------------------------------------------
(* Clauses in checkable form *)
Inv_C02_Conservation == C02_Conservation(st)

Act_C01_ShareValue == [][C01_ShareValue(st, ev', st')]_vars
Act_C01_LegRule == [][C01_LegRule(st, ev', st')]_vars
Act_C01_ExactInMax == [][C01_ExactInMax(st, ev', st')]_vars
Act_C01_ExactOutTight == [][C01_ExactOutTight(st, ev', st')]_vars
Act_C02_SwapSender == [][C02_SwapSender(st, ev', st')]_vars
Act_C02_SwapRecipient == [][C02_SwapRecipient(st, ev', st')]_vars
Act_C02_Bounds == [][C02_Bounds(st, ev', st')]_vars
Act_C02_Frame == [][C02_Frame(st, ev', st')]_vars
(* modulo known finding F1 (findings/coinswap.md) *)
Act_C02_Frame_ModF1 == [][C02_Frame_ModF1(st, ev', st')]_vars
Act_C02_AddTakesAtMost == [][C02_AddTakesAtMost(st, ev', st')]_vars
Act_C02_RemoveGivesAtLeast == [][C02_RemoveGivesAtLeast(st, ev', st')]_vars
Act_C02_Supply == [][C02_Supply(st, ev', st')]_vars
Act_Rejected_NoEffect == [][Rejected_NoEffect(st, ev', st')]_vars

(* history twins: in the model the registry is never rewritten, so one cheap action property
   (the module's registry and parameters ARE the history's) makes every twin equal to its original;
   C02_PoolFresh is checked as it stands *)
Act_X02_RegistryStable == [][X02_RegistryStable(st', gh')]_vars
Act_C02_PoolFresh == [][C02_PoolFresh(st, ev', st', gh, gh')]_vars

(* diagnostic clauses that the design satisfies (X01_PoolNotWedged,
   X01_AddNeverLockedOut and X01_NoPanic do not: the model reaches them) *)
Act_X01_WedgedForever == [][X01_WedgedForever(st, ev', st')]_vars
Act_X02_RouteBalanced == [][X02_RouteBalanced(st, ev', st')]_vars
Act_X02_RoundTripNoGain == [][X02_RoundTripNoGain(st, ev', st', gh)]_vars
Act_X02_BlockedUntouched == [][X02_BlockedUntouched(st, ev', st')]_vars
Act_X02_ModuleOnlyGifts == [][X02_ModuleOnlyGifts(st', gh')]_vars
Act_X02_DonateFrame == [][X02_DonateFrame(st, ev', st')]_vars
Act_X02_OneSidedReserve == [][X02_OneSidedReserve(st, ev')]_vars

(* the absolute time never matters (deadlines are chosen relative to it) *)
View == [st EXCEPT !.now = 0]
ViewDepth == <<[st EXCEPT !.now = 0], gh.steps>>
=============================================================================
