SPECIFICATION TraceSpec
CONSTANTS
  Users = {}
  Provs = {}
  RecordHist = FALSE
  MaxH = 0
  MaxFeeds = 0
  FeedNames = {}
  Creators = {}
  Aggs = {}
  Limits = {}
  ProvLists = {}
  Thresholds = {}
  Caps = {}
  Freqs = {}
  Xs = {}
  Prices = {}
  Funds = 0
  MaxTimeout = 1
  TaxNum = 0
  TaxDen = 1
  MaxEdits = 0
  DTs = {}
  EditTFs = {}
  EditCaps = {}
  MaxCalls = 0
  Sends = {}
INVARIANTS
  Monitor
  Coverage
  Report
  DriftReport
POSTCONDITION TraceAccepted
CHECK_DEADLOCK FALSE
ALIAS Alias
