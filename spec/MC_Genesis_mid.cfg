SPECIFICATION Spec
CONSTANTS
  Modules = {"htlc", "service", "farm"}
  MaxIds = 2
  Vals = {1}
  MaxH = 3
  MaxDue = 2
  Defect = "none"
  DefectMod = "none"
VIEW View
INVARIANTS
  TypeOK
  LiveEqual
  Inv_C12_Accepted
  Inv_C12_Fixpoint
  Inv_C12_Durable
  Inv_C12_Continuation
CHECK_DEADLOCK FALSE
