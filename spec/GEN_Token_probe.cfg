SPECIFICATION GenSpecP
CONSTANTS
  Users = {"u1", "u2", "u3", "evrevert", "evshort", "evnokey"}
  MinUnitsC = {"maa", "mbb", "mcc", "ibc/x1", "MAA", "htltmaa", "qaaaaaaaaaaaaaaaaaaaaaaaaaaaaaaaaaaaaaaaaaaaaaaaaaaaaaaaaaaaaaaa"}
  RecordHist = TRUE
  Owners = {"u1", "u2", "u3"}
  Symbols = {"aaa", "bbb", "ccc", "maa"}
  Scales = {0, 1, 2}
  Initials = {0, 1, 2, 5}
  Maxes = {0, 2, 3, 6}
  Amounts = {1, 5, 10, 15, 100}
  EditMaxes = {0, 1, 2, 3, 6}
  EditMint = {"", "true", "false"}
  MintTo = {"", "u3", "feepool"}
  TransferTo = {"u1", "u2", "u3", "feepool"}
  MaxTokens = 3
  InitStake = 60
  BaseFee = 5
  TaxNum = 2
  TaxDen = 5
  MintNum = 1
  MintDen = 2
  TaxNums = {0, 2, 5}
  Acts = {"Issue", "Edit", "TransferOwner", "Mint", "Burn", "SetParams", "SwapFee", "Deploy", "ToERC20",
          "FromERC20", "Hook", "Upgrade", "Probe"}
  Prologue = "erc"
  PScaleA = 1
  PScaleB = 0
  ConvAmounts = {0, 3, 10, 20}
  ConvTo = {"u1", "u2", "evshort", "feepool"}
  RegIn = "maa"
  RegOut = "mbb"
  RegRn = 3
  RegRd = 2
  SwapAmounts = {1, 3, 7, 10, 20}
  MaxRej = 3
  Sample = TRUE
  InitIbc = 20
  DeployExtra = {"stake", "ibc/x1", "nope"}
  HookVariants = {"unbound", "topics2", "otherevent", "badto", "baddata", "emptyto", "zeroamt"}
  UpgradeTo = {"u1", "x1", "evrevert"}
  MathMaxIn = 0
  MathScales = {0}
CONSTRAINT GenConstraint
CHECK_DEADLOCK FALSE
