--------------------------- MODULE ServiceClauses ---------------------------
(* The arithmetic of the C07 clauses (service: deposits and fees conserved) as
   pure integer operators, shared by Service.tla (TLC; small universes) and the
   generated big-number module ServiceBig (Apalache/Z3; rows recorded from the
   real chain with fees, deposits and balances up to ~2^129 and arbitrary
   18-decimal tax / slash fractions).  ONE statement of each piece of
   arithmetic.  A rate is num/den; the code holds it as an 18-decimal number
   (den = 10^18) and LegacyNewDecFromInt(x).Mul(rate).TruncateInt() is exactly
   floor(x * num / den). *)
EXTENDS Integers

\* @type: (Int, Int, Int) => Int;
MulFloorW(x, num, den) == (x * num) \div den

(* an answered request: the tax is floor(fee * rate), the provider (and its
   owner) earn the rest *)
\* @type: (Int, Int, Int, Int, Int) => Bool;
TaxW(fee, tn, td, tax, earned) ==
  /\ tax = MulFloorW(fee, tn, td)
  /\ earned = fee - tax
(* ... the tax goes to the fee pool, the request escrow gives up the tax only *)
\* @type: (Int, Int, Int) => Bool;
AnswerMoveW(tax, dFeePool, dReqEscrow) ==
  /\ dFeePool = tax
  /\ dReqEscrow = 0 - tax

(* one slash: the binding's deposit loses floor(deposit * fraction) *)
\* @type: (Int, Int, Int) => Int;
SlashOnceW(dep, sn, sd) == dep - MulFloorW(dep, sn, sd)
\* @type: (Int, Int, Int, Int) => Bool;
SlashW(dep, sn, sd, dep2) == dep2 = SlashOnceW(dep, sn, sd)
(* ... moved from the deposit escrow to the fee pool *)
\* @type: (Int, Int, Int) => Bool;
SlashMoveW(slashed, dDepEscrow, dFeePool) ==
  /\ dDepEscrow = 0 - slashed
  /\ dFeePool = slashed

(* end-block settlement of an account: it gets back the fees of its expired
   requests and pays the fees recorded on the requests issued for it *)
\* @type: (Int, Int, Int) => Bool;
ChargeW(delta, refunds, charges) == delta = refunds - charges
(* ... modulo finding F4: plus exactly (list price - recorded fee) of the issued requests *)
\* @type: (Int, Int, Int, Int) => Bool;
ChargeF4W(delta, refunds, charges, over) == delta = refunds - charges - over

(* an escrow account holds exactly the recorded liabilities *)
\* @type: (Int, Int) => Bool;
EscrowW(bal, liabilities) == bal = liabilities

(* a withdrawal of a provider's tally: the owner tally shrinks by it, the
   request escrow pays it *)
\* @type: (Int, Int, Int, Int) => Bool;
WithdrawW(paid, own, own2, dReqEscrow) ==
  /\ own2 = own - paid
  /\ dReqEscrow = 0 - paid

(* a deposit (bind, update, enable) moves exactly the stated amount from the
   owner to the deposit escrow; a refund returns the whole recorded deposit *)
\* @type: (Int, Int, Int, Int, Int) => Bool;
DepositMoveW(add, dep, dep2, dOwner, dDepEscrow) ==
  /\ dep2 = dep + add
  /\ dOwner = 0 - add
  /\ dDepEscrow = add
\* @type: (Int, Int, Int, Int) => Bool;
RefundDepositW(dep, dep2, dOwner, dDepEscrow) ==
  /\ dep2 = 0
  /\ dOwner = dep
  /\ dDepEscrow = 0 - dep
=============================================================================
