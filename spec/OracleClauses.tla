---------------------------- MODULE OracleClauses ----------------------------
(* C17 aggregate clauses as pure integer arithmetic, shared by Oracle.tla (TLC;
   answers within +-3.4, tight tolerance) and the generated big-number module
   OracleBig (Apalache/Z3; rows recorded from the real chain with answers up to
   2^129, whole numbers and decimals of either sign).  ONE statement of each
   clause.  Everything is an integer in units of 10^-8 (the 8 decimals feed
   values are stored with); up to four valid answers v1..v4, the first n count.

   Tolerances.  The module documents its aggregates as float64 arithmetic, so
   what C17 can demand of the stored average is the exact quotient sum/n up to
     (a) the rounding to 8 decimals: half a unit, i.e. n/2 units of stored*n, and
     (b) the error of summing n float64 numbers and dividing once, which is at
         most (n+1) * 2^-53 * (|v1| + ... + |vn|) — relative to the sum of the
         ABSOLUTE values, not to the sum (answers of mixed sign may cancel).
   Both enter as the caller's tol2 (twice the tolerance on |stored*n - sum|):
   Oracle.tla passes n (term (a) only; (b) is 0 below 2^31), the big-number tier
   passes 2n + 8*abssum/2^50 (generous for n <= 4: it accepts float64 on every
   stratum and is still 15 decimal orders below a wrapped or sign-flipped sum).
   Maximum and minimum involve no arithmetic: the rows' answers are exactly
   representable float64 numbers with at most 8 fractional digits, so the stored
   value must be the largest / smallest answer itself (tol 0). *)
EXTENDS Integers

\* @type: (Int) => Int;
AbsW(a) == IF a >= 0 THEN a ELSE -a

\* @type: (Int, Int, Int, Int, Int) => Int;
SumW(v1, v2, v3, v4, n) ==
  v1 + (IF n >= 2 THEN v2 ELSE 0) + (IF n >= 3 THEN v3 ELSE 0) + (IF n >= 4 THEN v4 ELSE 0)

\* @type: (Int, Int, Int, Int, Int) => Int;
AbsSumW(v1, v2, v3, v4, n) ==
  AbsW(v1) + (IF n >= 2 THEN AbsW(v2) ELSE 0) + (IF n >= 3 THEN AbsW(v3) ELSE 0) + (IF n >= 4 THEN AbsW(v4) ELSE 0)

\* @type: (Int, Int) => Int;
Max2W(a, b) == IF a >= b THEN a ELSE b
\* @type: (Int, Int) => Int;
Min2W(a, b) == IF a <= b THEN a ELSE b

\* @type: (Int, Int, Int, Int, Int) => Int;
MaxOfW(v1, v2, v3, v4, n) ==
  Max2W(v1, IF n >= 2 THEN Max2W(v2, IF n >= 3 THEN Max2W(v3, IF n >= 4 THEN v4 ELSE v3) ELSE v2) ELSE v1)

\* @type: (Int, Int, Int, Int, Int) => Int;
MinOfW(v1, v2, v3, v4, n) ==
  Min2W(v1, IF n >= 2 THEN Min2W(v2, IF n >= 3 THEN Min2W(v3, IF n >= 4 THEN v4 ELSE v3) ELSE v2) ELSE v1)

(* x * n, written so that the solver sees a linear term for the usual n <= 4 *)
\* @type: (Int, Int) => Int;
TimesW(x, n) ==
  IF n = 1 THEN x ELSE IF n = 2 THEN 2 * x ELSE IF n = 3 THEN 3 * x ELSE IF n = 4 THEN 4 * x ELSE x * n

(* the stored average: |stored*n - sum| <= tol2/2 *)
\* @type: (Int, Int, Int, Int) => Bool;
AvgW(sum, n, stored, tol2) == n >= 1 /\ 2 * AbsW(TimesW(stored, n) - sum) <= tol2

(* the stored maximum / minimum: the extreme answer m up to tol *)
\* @type: (Int, Int, Int) => Bool;
MaxW(m, stored, tol) == AbsW(stored - m) <= tol
\* @type: (Int, Int, Int) => Bool;
MinW(m, stored, tol) == AbsW(stored - m) <= tol
=============================================================================
