SPECIFICATION TraceSpec
CONSTANTS
  Users = {}
  Tokens = {}
  Std = "stake"
  RecordHist = FALSE
  InitStd = 0
  InitTok = 0
  CFee = 3
  FeeNum = 3
  FeeDen = 10
  UniNum = 2
  UniDen = 10
  TaxNum = 2
  TaxDen = 5
  Amts = {}
  Mins = {}
  Liqs = {}
  Donations = {}
  DlOffs = {}
  MaxNow = 0
  Senders = {}
  Recipients = {}
  MaxSteps = 0
  DonateAlso = {}
  Odd = {}
  InitOdd = 0
  WrongKind = FALSE
  WithUni = TRUE
INVARIANTS
  Monitor
  Coverage
  Report
  DriftReport
POSTCONDITION TraceAccepted
CHECK_DEADLOCK FALSE
ALIAS Alias
