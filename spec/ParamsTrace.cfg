SPECIFICATION TraceSpec
CONSTANTS
  RecordHist = FALSE
  TestMods = {}
  KCoinswap = 0
  KFarm = 0
  KHtlc = 0
  KService = 0
  KToken = 0
INVARIANTS
  Monitor
  Coverage
  Report
  DriftReport
POSTCONDITION TraceAccepted
CHECK_DEADLOCK FALSE
ALIAS Alias
