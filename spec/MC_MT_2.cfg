SPECIFICATION Spec
CONSTANTS
  Users = {"u1", "u2"}
  Issuers = {"u1"}
  MaxD = 2
  MaxM = 2
  MaxU = 3
  Amounts = {0, 1, 2, 3}
  DataVals = {"a", "b"}
  RecordHist = FALSE
VIEW View
INVARIANTS
  Inv_C15_Sum
  Inv_C15_HistOwner
  Inv_X15_Counters
PROPERTIES
  Act_C15_Transfer
  Act_C15_Burn
  Act_C15_Range
  Act_C15_Authority
  Act_C15_HistAuthority
  Act_C15_FreshIds
  Act_Rejected_NoEffect
  Act_X15_Records
  Act_X15_Fidelity
CHECK_DEADLOCK FALSE
