SPECIFICATION TraceSpec
CONSTANTS
  Modules = {}
  MaxIds = 0
  Vals = {0}
  MaxH = 0
  MaxDue = 0
  Defect = "none"
  DefectMod = "none"
INVARIANTS
  Monitor
  Coverage
  Report
  DriftReport
POSTCONDITION TraceAccepted
CHECK_DEADLOCK FALSE
