----------------------------- MODULE HTLCTrace -----------------------------
(***************************************************************************)
(* Validation of traces recorded from the real htlc module against         *)
(* HTLC.tla.  One ndjson line per event: {"ev": <event+result>, "st":      *)
(* <projected abstract state after the event>}.  Traces are concatenated;  *)
(* an "Init" event starts a new one.                                       *)
(*                                                                         *)
(* monitor:  st' is the logged state, ghosts advance by their equations,   *)
(*           every property clause is evaluated on (pre, ev, st); failing  *)
(*           clauses are reported as CLAUSE-FAIL lines — the verdicts.     *)
(* strict:   Apply(pre, ev) — the specification's own step — must give the *)
(*           logged result and state; a mismatch is DRIFT, never a verdict.*)
(***************************************************************************)
EXTENDS HTLC

VARIABLES l, pre, obs, drift, driftAt
tvars == <<st, ev, gh, hist, l, pre, obs, drift, driftAt>>

Trace == ndJsonDeserialize(IOEnv.TRACE_FILE)

(* logged state -> specification state *)
FromLog(r) ==
  [h |-> r.h, now |-> r.now, prev |-> r.prev, inBlock |-> r.inBlock,
   minLock |-> r.minLock, maxLock |-> r.maxLock,
   blocked |-> {r.blocked[i] : i \in DOMAIN r.blocked},
   htlc |-> r.htlc,
   q |-> {<<r.q[i][1], r.q[i][2]>> : i \in DOMAIN r.q},
   sup |-> r.sup, params |-> r.params, bal |-> r.bal, supply |-> r.supply]

(* scaleBits: bit length of the magnitude-tier scale K the harness multiplied
   every amount with (1 = unscaled); the logged amounts are real / K *)
ObsOf(r) == [inexact |-> r.inexact, scaleBits |-> r.scaleBits]

TraceInit ==
  /\ Trace[1].ev.name = "Init"
  /\ st = FromLog(Trace[1].st) /\ pre = FromLog(Trace[1].st)
  /\ obs = ObsOf(Trace[1].st)
  /\ ev = Trace[1].ev /\ gh = GhostInit /\ hist = <<>>
  /\ l = 2 /\ drift = 0 /\ driftAt = 0

Predicted(s, e) ==
  LET r == Apply(s, e) IN [st |-> r.st, ok |-> r.ok, panic |-> r.panic]

Observed(e, t) == [st |-> t, ok |-> e.ok, panic |-> e.panic]

TraceNext ==
  /\ l <= Len(Trace)
  /\ LET e == Trace[l].ev
         t == FromLog(Trace[l].st)
     IN /\ ev' = e /\ st' = t /\ obs' = ObsOf(Trace[l].st)
        /\ IF e.name = "Init"
           THEN /\ gh' = GhostInit /\ pre' = t
                /\ UNCHANGED <<drift, driftAt>>
           ELSE /\ gh' = GhostStep(gh, st, e, t) /\ pre' = st
                /\ LET d == (~e.halt) /\ Predicted(st, e) # Observed(e, t) IN
                   /\ drift' = drift + (IF d THEN 1 ELSE 0)
                   /\ driftAt' = IF d /\ driftAt = 0 THEN l ELSE driftAt
  /\ l' = l + 1
  /\ UNCHANGED hist

TraceSpec == TraceInit /\ [][TraceNext]_tvars

-----------------------------------------------------------------------------
(* every logged number was an exact integer of the model's range *)
Scale_Exact == obs.inexact = 0

Clauses ==
  [C03_StateOrder |-> C03_StateOrder(pre, st),
   C03_ClaimSound |-> C03_ClaimSound(pre, ev, st),
   C03_ClaimComplete |-> C03_ClaimComplete(pre, ev) /\ C03_ClaimCompleteH(pre, ev, gh),
   C03_RejectionsInert |-> C03_RejectionsInert(pre, ev, st),
   C03_RefundAtExpiry |-> C03_RefundAtExpiry(pre, ev, st) /\ C03_RefundAtExpiryH(pre, ev, st, gh),
   C03_ExactlyOnce |-> C03_ExactlyOnce(pre, ev, st, gh),
   C03_ScaleExact |-> Scale_Exact,
   C04_Escrow |-> C04_Escrow(st),
   C04_InOut |-> C04_InOut(st),
   C04_Current |-> C04_Current(st, gh),
   C04_Limit |-> C04_Limit(pre, st, gh),
   C04_Window |-> C04_Window(pre, ev, st),
   C04_ScaleExact |-> Scale_Exact,
   C13_QueueSound |-> C13_QueueSound(st),
   C13_QueueComplete |-> C13_QueueComplete(st) /\ C13_QueueCompleteH(st, gh),
   C13_OnceOnTime |-> C13_OnceOnTime(pre, ev, st, gh),
   C13_NoHalt |-> C13_NoHalt(ev),
   X03_CreateRecord |-> X03_CreateRecord(pre, ev, st),
   X04_Admission |-> X04_Admission(pre, ev, st),
   X04_InFlight |-> X04_InFlight(pre, ev),
   X04_ParamsStored |-> X04_ParamsStored(pre, ev, st),
   X12_HTLC_Queue |-> X12_HTLC_Queue(st),
   X12_HTLC_ZeroQueue |-> X12_HTLC_ZeroQueue(st)]

Failing == IF ev.name = "Init" \/ ev.halt
           THEN (IF ev.halt THEN {"C13_NoHalt"} ELSE {})
           ELSE {c \in DOMAIN Clauses : ~Clauses[c]}

(* Known finding H1 (F28): coins stranded in escrow by claims of contracts
   whose recipient is the module account.  The discriminator is exact: the
   line is attributed to H1 iff every failing clause among C04_Escrow /
   C03_ExactlyOnce holds once gh.stranded is subtracted from the escrow
   balance (resp. counted as released); any other discrepancy keeps the
   specification's own reason and is a violation. *)
H1Clauses == {"C04_Escrow", "C03_ExactlyOnce"}
H1Only ==
  /\ Failing \cap H1Clauses # {}
  /\ ("C04_Escrow" \in Failing) => C04_Escrow_ModH1(st, gh)
  /\ ("C03_ExactlyOnce" \in Failing) => C03_ExactlyOnce_ModH1(pre, ev, st, gh)
Why == IF H1Only THEN "to_escrow" ELSE Apply(pre, ev).why

(* Evaluated by TLC in every state; always TRUE, reports as a side effect *)
Monitor == Failing = {} \/ PrintT(<<"CLAUSE-FAIL", l - 1, Failing, Why>>)

(* antecedent counters (vacuity) *)
IsClaim == ev.name = "Claim"
ClaimOn(P(_)) == IsClaim /\ ev.id \in Ids(pre) /\ P(pre.htlc[ev.id])
Plain(c) == ~c.transfer
Incoming(c) == c.transfer /\ c.dir = "in"
Outgoing(c) == c.transfer /\ c.dir = "out"
RefundedNow == IF ev.name \in BlockEvents THEN ClosedIn(pre, st, "refunded") ELSE {}
CreatedNow(P(_)) == ev.name = "Create" /\ ev.ok /\ ev.id \in Ids(st) /\ P(st.htlc[ev.id])

(* the contract an identifier of the wrong kind was manufactured from ("hl:c1"
   -> the event's secret is c1's): some open contract has that secret *)
OpenTwin == \E i \in Ids(pre) : pre.htlc[i].state = "open" /\ pre.htlc[i].sec = ev.sec
DupOf(state) ==
  ev.name = "Create" /\ \E i \in Ids(pre) : SameTuple(pre.htlc[i], ev) /\ pre.htlc[i].state = state

(* the event and the two before it are rejected messages *)
RejRun3 ==
  l - 1 >= 4 /\ \A k \in 1..3 : LET e == Trace[l - k].ev IN e.name \in MsgEvents /\ ~e.ok

ExNames ==
  {"create_plain_ok", "create_in_ok", "create_out_ok", "create_multicoin", "create_dup",
   "create_rej", "claim_plain_ok", "claim_in_ok", "claim_out_ok", "claim_by_third_party",
   "claim_wrong_secret", "claim_other_ts", "claim_other_contract", "claim_second",
   "claim_after_refund", "claim_in_expiry_block", "claim_last_block", "claim_in_rej",
   "refund_plain", "refund_in", "refund_out", "refund_many", "refund_none_due",
   "window_reset", "window_accum", "limit_rej", "time_limit_rej", "params_update",
   "limit_after_update", "asset_removed_inflight", "skip", "reject", "create_to_module_rej",
   "refund_dozens", "dt_zero", "dt_beyond_period", "inactive_rej", "amount_range_rej", "asset_lock_range_rej",
   "below_fee_rej", "changed_inflight", "deputy_changed_inflight", "claim_inactive_ok", "refund_unsupported",
   "claim_new_deputy",
   "probe_id_upper_ok", "probe_sec_upper_ok", "probe_id_hashlock", "probe_id_prefix", "probe_id_swapped",
   "probe_sec_hashlock", "probe_sec_id", "claim_closed_by_recipient", "claim_closed_by_sender",
   "claim_closed_by_stranger", "create_dup_open", "create_dup_completed", "create_dup_refunded",
   "create_dup_flipped", "create_same_lock_other_amt", "htlt_plain_coin_rej", "htlt_shaped_coin_rej",
   "htlt_shaped_while_supply", "create_shaped_plain_ok", "claim_shaped_plain_ok", "refund_shaped_plain",
   "htlt_multicoin_rej", "create_zero_rej", "create_to_foreign_escrow_ok", "claim_to_foreign_escrow_ok",
   "deputy_unsignable", "no_assets_block", "asset_relisted", "asset_kind_toggled", "limit_at_supply",
   "window_exact_end", "window_one_before_end", "available_rej", "closing_claim_rej", "probe_tail",
   "scaled_create_ok", "scaled_limit_rej", "scaled_claim", "scaled_refund", "scaled_sum64_rej", "scaled_sum64_ok",
   "mag_2p31_32", "mag_2p32_53", "mag_2p53_63", "mag_2p63_64", "mag_2p64_65", "mag_2p96", "mag_2p127_129"}

Exercised ==
  {c \in ExNames :
     CASE c = "create_plain_ok" -> CreatedNow(Plain)
       [] c = "create_in_ok" -> CreatedNow(Incoming)
       [] c = "create_out_ok" -> CreatedNow(Outgoing)
       [] c = "create_multicoin" -> ev.name = "Create" /\ ev.ok /\ Cardinality(DOMAIN ev.amt) > 1
       [] c = "create_dup" -> ev.name = "Create" /\ \E i \in Ids(pre) : SameTuple(pre.htlc[i], ev)
       [] c = "create_rej" -> ev.name = "Create" /\ ~ev.ok
       [] c = "claim_plain_ok" -> ev.ok /\ ClaimOn(Plain)
       [] c = "claim_in_ok" -> ev.ok /\ ClaimOn(Incoming)
       [] c = "claim_out_ok" -> ev.ok /\ ClaimOn(Outgoing)
       [] c = "claim_by_third_party" ->
            LET P(x) == ev.who # x.to /\ ev.who # x.sender IN ev.ok /\ ClaimOn(P)
       [] c = "claim_wrong_secret" ->
            LET P(x) == x.state = "open" /\ ev.sec # x.sec IN ClaimOn(P)
       [] c = "claim_other_ts" ->
            LET P(x) == x.state = "open" /\ ev.sec = x.sec /\ x.lts # x.ts IN ClaimOn(P)
       [] c = "claim_other_contract" ->
            LET P(x) == x.state = "open" /\ ev.sec # x.sec
                        /\ \E j \in Ids(pre) : pre.htlc[j].sec = ev.sec IN ClaimOn(P)
       [] c = "claim_second" -> LET P(x) == x.state = "completed" IN ClaimOn(P)
       [] c = "claim_after_refund" -> LET P(x) == x.state = "refunded" IN ClaimOn(P)
       [] c = "claim_in_expiry_block" -> LET P(x) == x.expiry = pre.h IN ClaimOn(P)
       [] c = "claim_last_block" ->
            LET P(x) == x.expiry = pre.h + 1 /\ x.state = "open" IN ev.ok /\ ClaimOn(P)
       [] c = "claim_in_rej" -> LET P(x) == Incoming(x) /\ x.state = "open" /\ RightSecret(x, ev.sec)
                                IN ~ev.ok /\ ClaimOn(P)
       [] c = "refund_plain" -> \E i \in RefundedNow : Plain(pre.htlc[i])
       [] c = "refund_in" -> \E i \in RefundedNow : Incoming(pre.htlc[i])
       [] c = "refund_out" -> \E i \in RefundedNow : Outgoing(pre.htlc[i])
       [] c = "refund_many" -> ev.name = "BeginBlock" /\ Cardinality(RefundedNow) >= 2
       [] c = "refund_none_due" -> ev.name = "BeginBlock" /\ RefundedNow = {}
       [] c = "window_reset" ->
            ev.name = "BeginBlock" /\ \E d \in DOMAIN pre.params :
               pre.params[d].timeLimited /\ d \in DOMAIN pre.sup /\ pre.sup[d].tl > 0
               /\ d \in DOMAIN st.sup /\ st.sup[d].tl = 0
       [] c = "window_accum" ->
            ev.name = "BeginBlock" /\ \E d \in DOMAIN pre.params :
               pre.params[d].timeLimited /\ d \in DOMAIN pre.sup /\ pre.sup[d].tl > 0
               /\ d \in DOMAIN st.sup /\ st.sup[d].tl = pre.sup[d].tl
       [] c = "limit_rej" -> ev.name = "Create" /\ ~ev.ok /\ Apply(pre, ev).why = "limit"
       [] c = "time_limit_rej" -> ev.name = "Create" /\ ~ev.ok /\ Apply(pre, ev).why = "time_limit"
       [] c = "params_update" -> ev.name = "UpdateParams" /\ ev.ok
       [] c = "limit_after_update" -> gh.epoch > 0 /\ CreatedNow(Incoming)
       [] c = "asset_removed_inflight" ->
            ev.name = "UpdateParams" /\ ev.ok /\ \E i \in Ids(pre) :
               pre.htlc[i].state = "open" /\ pre.htlc[i].transfer
               /\ DOMAIN pre.htlc[i].amt \cap DOMAIN st.params = {}
       [] c = "create_to_module_rej" -> ev.name = "Create" /\ ev.to = MOD /\ ~ev.ok
       [] c = "refund_dozens" -> ev.name = "BeginBlock" /\ Cardinality(RefundedNow) >= 24
       [] c = "dt_zero" -> ev.name = "BeginBlock" /\ ev.dt = 0 /\ DOMAIN pre.params # {}
       [] c = "dt_beyond_period" ->
            ev.name = "BeginBlock" /\ \E d \in DOMAIN pre.params :
               pre.params[d].timeLimited /\ pre.params[d].period > 0 /\ ev.dt >= 3 * pre.params[d].period
               /\ d \in DOMAIN pre.sup /\ pre.sup[d].tl > 0
       [] c = "inactive_rej" -> ev.name = "Create" /\ ~ev.ok /\ Apply(pre, ev).why = "inactive"
       [] c = "amount_range_rej" -> ev.name = "Create" /\ ~ev.ok /\ Apply(pre, ev).why = "amount_range"
       [] c = "asset_lock_range_rej" -> ev.name = "Create" /\ ~ev.ok /\ Apply(pre, ev).why = "asset_lock_range"
       [] c = "below_fee_rej" -> ev.name = "Create" /\ ~ev.ok /\ Apply(pre, ev).why = "below_fee"
       [] c = "changed_inflight" ->
            ev.name = "UpdateParams" /\ ev.ok /\ \E i \in Ids(pre) :
               LET x == pre.htlc[i] IN
               x.state = "open" /\ x.transfer
               /\ \E d \in DOMAIN x.amt : d \in DOMAIN pre.params /\ d \in DOMAIN st.params
                     /\ [pre.params[d] EXCEPT !.limit = 0, !.tbl = 0, !.period = 0, !.timeLimited = FALSE]
                        # [st.params[d] EXCEPT !.limit = 0, !.tbl = 0, !.period = 0, !.timeLimited = FALSE]
       [] c = "deputy_changed_inflight" ->
            ev.name = "UpdateParams" /\ ev.ok /\ \E i \in Ids(pre) :
               LET x == pre.htlc[i] IN
               x.state = "open" /\ x.transfer
               /\ \E d \in DOMAIN x.amt : d \in DOMAIN pre.params /\ d \in DOMAIN st.params
                     /\ pre.params[d].deputy # st.params[d].deputy
       [] c = "claim_inactive_ok" ->
            LET P(x) == x.transfer /\ \E d \in DOMAIN x.amt : d \in DOMAIN pre.params /\ ~pre.params[d].active
            IN ev.ok /\ ClaimOn(P)
       [] c = "refund_unsupported" ->
            \E i \in RefundedNow : pre.htlc[i].transfer /\ \E d \in DOMAIN pre.htlc[i].amt :
               d \notin DOMAIN pre.params \/ ~pre.params[d].active
       [] c = "claim_new_deputy" ->
            LET P(x) == x.transfer /\ \E d \in DOMAIN x.amt : d \in DOMAIN pre.params
                           /\ pre.params[d].deputy \notin {x.sender, x.to}
            IN ev.ok /\ ClaimOn(P)
       \* --- negative probing / unusual inputs (round 7) ---
       [] c = "probe_id_upper_ok" -> IsClaim /\ ev.form = "idupper" /\ ev.ok
       [] c = "probe_sec_upper_ok" -> IsClaim /\ ev.form = "secupper" /\ ev.ok
       [] c = "probe_id_hashlock" -> IsClaim /\ ev.form = "idhl" /\ OpenTwin
       [] c = "probe_id_prefix" -> IsClaim /\ ev.form = "idpre" /\ OpenTwin
       [] c = "probe_id_swapped" -> IsClaim /\ ev.form = "idrev" /\ OpenTwin
       [] c = "probe_sec_hashlock" -> LET P(x) == x.state = "open" IN ev.form = "sechl" /\ ClaimOn(P)
       [] c = "probe_sec_id" -> LET P(x) == x.state = "open" IN ev.form = "secid" /\ ClaimOn(P)
       [] c = "claim_closed_by_recipient" ->
            LET P(x) == x.state # "open" /\ ev.who = x.to /\ RightSecret(x, ev.sec) IN ClaimOn(P)
       [] c = "claim_closed_by_sender" ->
            LET P(x) == x.state # "open" /\ ev.who = x.sender /\ RightSecret(x, ev.sec) IN ClaimOn(P)
       [] c = "claim_closed_by_stranger" ->
            LET P(x) == x.state # "open" /\ ev.who \notin {x.sender, x.to} /\ RightSecret(x, ev.sec) IN ClaimOn(P)
       [] c = "create_dup_open" -> DupOf("open")
       [] c = "create_dup_completed" -> DupOf("completed")
       [] c = "create_dup_refunded" -> DupOf("refunded")
       [] c = "create_dup_flipped" ->
            ev.name = "Create" /\ \E i \in Ids(pre) : SameTuple(pre.htlc[i], ev) /\ pre.htlc[i].transfer # ev.transfer
       [] c = "create_same_lock_other_amt" ->
            ev.name = "Create" /\ ev.ok /\ \E i \in Ids(pre) :
               LET x == pre.htlc[i] IN
               x.sender = ev.who /\ x.to = ev.to /\ x.sec = ev.sec /\ x.lts = ev.lts /\ x.amt # ev.amt
       [] c = "htlt_plain_coin_rej" ->
            ev.name = "Create" /\ ev.transfer /\ ~ev.ok /\ Apply(pre, ev).why = "no_asset"
            /\ DOMAIN ev.amt \cap ShapedDenoms = {}
       [] c = "htlt_shaped_coin_rej" ->
            ev.name = "Create" /\ ev.transfer /\ ~ev.ok /\ Apply(pre, ev).why = "no_asset"
            /\ DOMAIN ev.amt \cap ShapedDenoms # {}
       \* ... while the asset the denom resembles has coins an outgoing transfer could lock
       [] c = "htlt_shaped_while_supply" ->
            ev.name = "Create" /\ ev.transfer /\ DOMAIN ev.amt \cap ShapedDenoms # {}
            /\ ev.who \in DOMAIN pre.bal /\ CanPay(pre.bal, ev.who, ev.amt)
            /\ "htltone" \in DOMAIN pre.sup /\ "htltone" \in DOMAIN pre.params
            /\ pre.sup["htltone"].cur - pre.sup["htltone"].out >= SumOver(ev.amt, DOMAIN ev.amt)
            /\ ev.to = pre.params["htltone"].deputy
       [] c = "create_shaped_plain_ok" -> LET P(x) == ~x.transfer /\ DOMAIN x.amt \cap ShapedDenoms # {} IN CreatedNow(P)
       [] c = "claim_shaped_plain_ok" -> LET P(x) == ~x.transfer /\ DOMAIN x.amt \cap ShapedDenoms # {} IN ev.ok /\ ClaimOn(P)
       [] c = "refund_shaped_plain" -> \E i \in RefundedNow : DOMAIN pre.htlc[i].amt \cap ShapedDenoms # {}
       [] c = "htlt_multicoin_rej" -> ev.name = "Create" /\ ev.transfer /\ ~ev.ok /\ Cardinality(DOMAIN ev.amt) > 1
       [] c = "create_zero_rej" -> ev.name = "Create" /\ ~ev.ok /\ \E d \in DOMAIN ev.amt : ev.amt[d] = 0
       [] c = "create_to_foreign_escrow_ok" -> ev.name = "Create" /\ ev.ok /\ ev.to = "pool"
       [] c = "claim_to_foreign_escrow_ok" -> LET P(x) == x.to = "pool" IN ev.ok /\ ClaimOn(P)
       [] c = "deputy_unsignable" ->
            ev.name = "UpdateParams" /\ ev.ok /\ \E d \in DOMAIN st.params : st.params[d].deputy \in {MOD, "blk", "pool"}
       [] c = "no_assets_block" -> ev.name = "BeginBlock" /\ DOMAIN pre.params = {} /\ DOMAIN pre.sup # {}
       [] c = "asset_relisted" ->
            ev.name = "UpdateParams" /\ ev.ok /\ \E d \in DOMAIN st.params \ DOMAIN pre.params :
               d \in DOMAIN pre.sup /\ pre.sup[d].cur > 0
       [] c = "asset_kind_toggled" ->
            ev.name = "UpdateParams" /\ ev.ok /\ \E d \in DOMAIN st.params \cap DOMAIN pre.params :
               st.params[d].timeLimited # pre.params[d].timeLimited /\ d \in DOMAIN pre.sup /\ pre.sup[d].cur > 0
       [] c = "limit_at_supply" ->
            ev.name = "UpdateParams" /\ ev.ok /\ \E d \in DOMAIN st.params \cap DOMAIN pre.sup :
               pre.sup[d].cur > 0 /\ st.params[d].limit <= pre.sup[d].cur
       [] c = "window_exact_end" ->
            ev.name = "BeginBlock" /\ \E d \in DOMAIN pre.params \cap DOMAIN pre.sup :
               pre.params[d].timeLimited /\ pre.sup[d].elapsed + (st.now - pre.prev) = pre.params[d].period
       [] c = "window_one_before_end" ->
            ev.name = "BeginBlock" /\ \E d \in DOMAIN pre.params \cap DOMAIN pre.sup :
               pre.params[d].timeLimited /\ pre.sup[d].elapsed + (st.now - pre.prev) = pre.params[d].period - 1
       [] c = "available_rej" -> ev.name = "Create" /\ ~ev.ok /\ Apply(pre, ev).why = "available"
       [] c = "closing_claim_rej" -> IsClaim /\ ev.form = "closing" /\ ~ev.ok
       \* a rejected message that follows two other rejected messages (the tail of a probing behaviour)
       [] c = "probe_tail" -> RejRun3
       [] c = "scaled_create_ok" -> obs.scaleBits > 1 /\ (CreatedNow(Incoming) \/ CreatedNow(Outgoing))
       [] c = "scaled_limit_rej" -> obs.scaleBits > 1 /\ ev.name = "Create" /\ ~ev.ok
                                    /\ Apply(pre, ev).why \in {"limit", "time_limit"}
       [] c = "scaled_claim" -> obs.scaleBits > 1 /\ ev.ok /\ (ClaimOn(Incoming) \/ ClaimOn(Outgoing))
       [] c = "scaled_refund" -> obs.scaleBits > 1 /\ RefundedNow # {}
       \* limit, supply and amount each fit 64 bits on chain, their sum does not
       [] c = "scaled_sum64_rej" -> ev.mag = "sum64" /\ ~ev.ok
       [] c = "scaled_sum64_ok" -> ev.mag = "sum64" /\ ev.ok
       \* strata of the single amounts (1..8 units of K): by the bit length of K
       [] c = "mag_2p31_32" -> obs.scaleBits \in 29..32 /\ ev.name \in {"Create", "Claim"}
       [] c = "mag_2p32_53" -> obs.scaleBits \in 33..52 /\ ev.name \in {"Create", "Claim"}
       [] c = "mag_2p53_63" -> obs.scaleBits \in 53..61 /\ ev.name \in {"Create", "Claim"}
       [] c = "mag_2p63_64" -> obs.scaleBits \in 62..63 /\ ev.name \in {"Create", "Claim"}
       [] c = "mag_2p64_65" -> obs.scaleBits \in 64..70 /\ ev.name \in {"Create", "Claim"}
       [] c = "mag_2p96" -> obs.scaleBits \in 90..110 /\ ev.name \in {"Create", "Claim"}
       [] c = "mag_2p127_129" -> obs.scaleBits \in 120..130 /\ ev.name \in {"Create", "Claim"}
       [] c = "skip" -> ev.name = "Skip"
       [] c = "reject" -> ev.name \in MsgEvents /\ ~ev.ok}
Coverage == (ev.name = "Init" \/ Exercised = {}) \/ PrintT(<<"EXERCISED", Exercised>>)

Report == (l = Len(Trace) + 1) => PrintT(<<"TRACE-END", Len(Trace), drift, driftAt>>)

DriftReport == (drift > 0 /\ driftAt = l - 1) =>
  PrintT(<<"DRIFT", driftAt, ev.name, ev>>)

TraceAccepted == TLCGet("stats").diameter = Len(Trace)

Alias == [l |-> l, ev |-> ev]
=============================================================================
