SPECIFICATION GenSpec
CONSTANTS
  Users = {"u1", "u2"}
  RDenoms = {"rw1"}
  LP = "lpt-1"
  FeeDenom = "stake"
  RecordHist = TRUE
  MaxH = 12
  MaxStake = 3
  MaxPools = 2
  Prec = 10
  InitLP = 3
  InitR = 3000
  Fee = 5
  TaxNum = 2
  TaxDen = 5
  RewardTotals = {300, 430, 500}
  RewardRates = {60, 120}
  MaxStart = 2
  TopUps = {60, 100}
  Donations = {}
  Creators = {"u1", "u2"}
  Proposers = {}
  GovOn = FALSE
  InitCP = 0
  MaxProps = 0
  CPTotals = {}
  Deposits = {}
  GovMinDep = 0
  GovThr = 0
  GovDP = 0
  GovVP = 0
  CancelNum = 0
  CancelDen = 1
  BurnPre = FALSE
  BurnQ = FALSE
  BurnV = FALSE
CONSTRAINT GenConstraint
CHECK_DEADLOCK FALSE
