SPECIFICATION Spec
CONSTANTS
  RecordHist = FALSE
  Users = {"u1", "u2"}
  Deputy = "dep"
  PlainDenoms = {}
  Assets = {"htlttwo"}
  Templates <- TemplatesTwo
  Locks = {1, 2}
  Dts = {1, 2}
  Params0 <- ParamsTwo
  ParamAlts <- ParamAltsTwo
  MaxH = 5
  Claimants = {"u2"}
  ClaimSecrets = {"s6", "s7", "s8"}
  InitBal = 1
  MaxUpdates = 1
VIEW ViewGh
INVARIANTS
  Inv_C04_Escrow
  Inv_C04_InOut
  Inv_C13_QueueSound
  Inv_C13_QueueComplete
  Inv_X12_HTLC_Queue
  Inv_X12_HTLC_ZeroQueue
  Inv_X12_HTLC_Accepted_ModKnown
PROPERTIES
  Act_C03_StateOrder
  Act_C03_ClaimSound
  Act_C03_ClaimComplete
  Act_C03_ClaimCompleteH
  Act_C03_RefundAtExpiryH
  Act_C13_QueueCompleteH
  Act_C03_RejectionsInert
  Act_C03_RefundAtExpiry
  Act_C03_ExactlyOnce
  Act_C04_Current
  Act_C04_Limit
  Act_C04_Window
  Act_C13_OnceOnTime
  Act_RefundNeverFails
  Act_X03_CreateRecord
  Act_X04_Admission
  Act_X04_InFlight
  Act_X04_ParamsStored
CHECK_DEADLOCK FALSE
