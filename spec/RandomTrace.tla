---------------------------- MODULE RandomTrace ----------------------------
(***************************************************************************)
(* Validation of traces recorded from the real random module (and the      *)
(* service module underneath) against Random.tla.  One ndjson line per     *)
(* event: {"ev": <event+result>, "st": <projected state after the event>}. *)
(* An "Init" event starts a new trace.                                     *)
(*                                                                         *)
(* monitor: st' is the logged state, ghosts advance by their equations,    *)
(*          every property clause is evaluated on (pre, ev, st).           *)
(* strict:  Apply(pre, ev) must give the logged result and state, and the  *)
(*          generated values must agree with the harness's reference       *)
(*          implementation of the generator; a mismatch is DRIFT.          *)
(***************************************************************************)
EXTENDS Random

VARIABLES l, pre, drift, driftAt
tvars == <<st, ev, gh, hist, l, pre, drift, driftAt>>

Trace == ndJsonDeserialize(IOEnv.TRACE_FILE)

FromLog(r) ==
  [h |-> r.h, inb |-> r.inb,
   pending |-> {r.pending[i] : i \in DOMAIN r.pending},
   results |-> r.results, opend |-> r.opend, ctx |-> r.ctx, nctx |-> r.nctx,
   bind |-> r.bind, earned |-> r.earned, bal |-> r.bal, params |-> r.params,
   qBad |-> r.qBad, rbBad |-> r.rbBad]

TraceInit ==
  /\ Trace[1].ev.name = "Init"
  /\ st = FromLog(Trace[1].st) /\ pre = FromLog(Trace[1].st)
  /\ ev = Trace[1].ev /\ gh = GhostOf(FromLog(Trace[1].st)) /\ hist = <<>>
  /\ l = 2 /\ drift = 0 /\ driftAt = 0

Predicted(s, e) ==
  LET r == Apply(s, e) IN [st |-> r.st, ok |-> r.ok, panic |-> r.panic, ref |-> TRUE]

Observed(e, t) ==
  [st |-> t, ok |-> e.ok, panic |-> e.panic,
   ref |-> \A id \in DOMAIN e.gen : e.gen[id].ref]

TraceNext ==
  /\ l <= Len(Trace)
  /\ LET e == Trace[l].ev
         t == FromLog(Trace[l].st)
     IN /\ ev' = e /\ st' = t
        /\ IF e.name = "Init"
           THEN /\ gh' = GhostOf(t) /\ pre' = t
                /\ UNCHANGED <<drift, driftAt>>
           ELSE /\ gh' = GhostStep(gh, st, e, t) /\ pre' = st
                /\ LET d == (~e.halt) /\ Predicted(st, e) # Observed(e, t) IN
                   /\ drift' = drift + (IF d THEN 1 ELSE 0)
                   /\ driftAt' = IF d /\ driftAt = 0 THEN l ELSE driftAt
  /\ l' = l + 1
  /\ UNCHANGED hist

TraceSpec == TraceInit /\ [][TraceNext]_tvars

-----------------------------------------------------------------------------
Clauses ==
  [C18_Due |-> C18_Due(st, gh),
   C18_Once |-> C18_Once(pre, ev, st, gh),
   C18_Range |-> C18_Range(pre, ev, st),
   C18_Pure |-> C18_Pure(pre, ev, st),
   C18_Stable |-> C18_Stable(pre, st, gh),
   C13_QueueSound_Random |-> C13_QueueSound_Random(st, gh),
   C13_QueueComplete_Random |-> C13_QueueComplete_Random(st, gh),
   C13_OnceOnTime_Random |-> C13_OnceOnTime_Random(pre, ev, st, gh),
   C13_NoHalt |-> C13_NoHalt(ev),
   Rejected_NoEffect |-> Rejected_NoEffect(pre, ev, st),
   X18_ResultHeight |-> X18_ResultHeight(pre, ev, st),
   X18_DupReplace |-> X18_DupReplace(pre, ev, st),
   X18_DupOrphan |-> X18_DupOrphan(st, gh),
   X18_DupResult |-> X18_DupResult(pre, ev, st, gh),
   X18_LateAnswer |-> X18_LateAnswer(pre, ev, st),
   X18_WrapRejected |-> X18_WrapRejected(pre, ev),
   X18_ZeroHeightQueue |-> X18_ZeroHeightQueue(pre, ev, st)]

Failing == IF ev.name = "Init" \/ ev.halt
           THEN (IF ev.halt THEN {"C13_NoHalt"} ELSE {})
           ELSE {c \in DOMAIN Clauses : ~Clauses[c]}

Monitor == Failing = {} \/ PrintT(<<"CLAUSE-FAIL", l - 1, Failing, Apply(pre, ev).why>>)

(* antecedent counters (vacuity) *)
Exercised ==
  IF ev.name = "Init" THEN {} ELSE
  {c \in {"req_ok", "req_oracle_ok", "fulfil_block", "fulfil_oracle", "drop_err", "drop_bad",
          "drop_timeout", "drop_funds", "same_height_many", "dup_id", "reject", "skip_batch",
          "dup_replace", "dup_orphan", "dup_rewrite", "late_answer", "wrap", "zero_height"} :
     CASE c = "req_ok" -> ev.name = "RequestRandom" /\ ev.ok /\ ~ev.oracle
       [] c = "req_oracle_ok" -> ev.name = "RequestRandom" /\ ev.ok /\ ev.oracle
       [] c = "fulfil_block" -> ev.name = "BeginBlock" /\ Changed(pre, st) # {}
       [] c = "fulfil_oracle" -> ev.name = "Respond" /\ Changed(pre, st) # {}
       [] c = "same_height_many" -> ev.name = "BeginBlock" /\ Cardinality(Changed(pre, st)) >= 2
       [] c = "drop_err" -> ev.name = "Respond" /\ ev.ok /\ ev.kind = "err"
                              /\ ev.ctx \in DOMAIN pre.opend /\ ev.ctx \notin DOMAIN st.opend
       [] c = "drop_bad" -> ev.name = "Respond" /\ ev.ok /\ ev.kind = "bad" /\ ev.ctx \in DOMAIN pre.opend
       [] c = "drop_timeout" -> ev.name = "EndBlock" /\ \E x \in DOMAIN pre.opend :
                                  x \notin DOMAIN st.opend /\ x \in DOMAIN pre.ctx
                                  /\ pre.ctx[x].expAt = pre.h /\ pre.ctx[x].reqN > 0
       [] c = "skip_batch" -> ev.name = "EndBlock" /\ \E x \in DOMAIN st.ctx :
                                  x \in DOMAIN pre.ctx /\ st.ctx[x].bcount > pre.ctx[x].bcount /\ st.ctx[x].reqN = 0
       [] c = "drop_funds" -> ev.name = "EndBlock" /\ \E x \in DOMAIN pre.opend :
                                  x \notin DOMAIN st.opend /\ x \in DOMAIN st.ctx /\ st.ctx[x].state = "paused"
       [] c = "dup_id" -> ev.name = "RequestRandom" /\ ev.ok /\ ~Single(gh, ReqId(ev.who, pre.h))
       [] c = "dup_replace" -> Replaced(pre, ev) # {}
       [] c = "dup_orphan" -> \E q \in Replaced(pre, ev) : q.oracle
       [] c = "dup_rewrite" -> ev.name = "BeginBlock" /\ \E id \in Changed(pre, st) : id \in DOMAIN pre.results
       [] c = "late_answer" -> ev.name = "Respond" /\ ~ev.ok /\ ev.ctx \notin DOMAIN pre.ctx /\ ev.ctx # ""
       [] c = "wrap" -> ev.name = "RequestRandom" /\ ev.n < 0
       [] c = "zero_height" -> ev.name = "ZeroHeight" /\ ev.ok /\ pre.pending # {}
       [] c = "reject" -> ~ev.ok}
(* round 7 (negative probing): every way an answer is written down, as
   "ans_<kind>[_<pay>]", and the unusual requests / answers *)
Probes ==
  IF ev.name = "Init" THEN {} ELSE
  (IF ev.name = "Respond" THEN {"ans_" \o ev.kind \o (IF ev.pay = "" THEN "" ELSE "_" \o ev.pay)} ELSE {}) \cup
  {c \in {"seed_short_panic", "far_ok", "far_max", "far_rej", "cap_denom_rej", "cap_zero_rej", "insufficient_rej",
          "interval0_ok", "interval1_ok", "respond_before_start", "respond_in_start_block", "respond_consumer",
          "respond_wrong_provider", "respond_twice", "same_due_other_blocks", "same_due_consumers", "drop_badhex",
          "plain_with_cap"} :
     CASE c = "seed_short_panic" -> ev.name = "Respond" /\ ev.panic /\ ev.kind = "short"
       [] c = "far_ok" -> ev.name = "RequestRandom" /\ ev.ok /\ ev.n >= 536870912
       [] c = "far_max" -> ev.name = "RequestRandom" /\ ev.ok /\ pre.h + ev.n = FarMax
       [] c = "far_rej" -> ev.name = "RequestRandom" /\ ~ev.ok /\ pre.h + ev.n = FarMax + 1
       [] c = "cap_denom_rej" -> ev.name = "RequestRandom" /\ ev.oracle /\ ev.pay \in CapPays /\ ev.cap > 0
       [] c = "cap_zero_rej" -> ev.name = "RequestRandom" /\ ~ev.ok /\ Apply(pre, ev).why = "fee_cap" /\ ev.cap = 0
       [] c = "insufficient_rej" -> ev.name = "RequestRandom" /\ ~ev.ok /\ Apply(pre, ev).why = "insufficient_fee"
       [] c = "interval0_ok" -> ev.name = "RequestRandom" /\ ev.ok /\ ev.n = 0
       [] c = "interval1_ok" -> ev.name = "RequestRandom" /\ ev.ok /\ ev.n = 1
       [] c = "plain_with_cap" -> ev.name = "RequestRandom" /\ ev.ok /\ ~ev.oracle /\ ev.cap > 0
       [] c = "respond_before_start" -> ev.name = "Respond" /\ ev.ctx \in DOMAIN pre.ctx /\ pre.ctx[ev.ctx].state = "paused"
                                  /\ pre.ctx[ev.ctx].bcount = 0 /\ ev.who \in DOMAIN pre.bind
       [] c = "respond_in_start_block" -> ev.name = "Respond" /\ ev.ctx \in DOMAIN pre.ctx /\ pre.ctx[ev.ctx].state = "running"
                                  /\ pre.ctx[ev.ctx].bcount = 0 /\ ev.who \in DOMAIN pre.bind
       [] c = "respond_consumer" -> ev.name = "Respond" /\ ev.ctx \in DOMAIN pre.ctx /\ DOMAIN pre.ctx[ev.ctx].reqs # {}
                                  /\ ev.who = pre.ctx[ev.ctx].consumer
       [] c = "respond_wrong_provider" -> ev.name = "Respond" /\ ev.ctx \in DOMAIN pre.ctx /\ DOMAIN pre.ctx[ev.ctx].reqs # {}
                                  /\ ev.who \notin DOMAIN pre.ctx[ev.ctx].reqs /\ ev.who \in DOMAIN pre.earned
       [] c = "respond_twice" -> ev.name = "Respond" /\ ev.ctx \in DOMAIN pre.ctx /\ ev.who \in DOMAIN pre.ctx[ev.ctx].reqs
                                  /\ ~pre.ctx[ev.ctx].reqs[ev.who].act
       [] c = "same_due_other_blocks" -> ev.name = "BeginBlock" /\ ~ev.halt
                                  /\ Cardinality({q.reqH : q \in {x \in pre.pending : x.due = pre.h - 1}}) >= 2
       [] c = "same_due_consumers" -> ev.name = "BeginBlock" /\ ~ev.halt
                                  /\ Cardinality({q.consumer : q \in {x \in pre.pending : x.due = pre.h - 1}}) >= 2
       [] c = "drop_badhex" -> ev.name = "Respond" /\ ev.ok /\ ev.kind = "badhex" /\ ev.ctx \in DOMAIN pre.opend
                                  /\ ev.ctx \notin DOMAIN st.opend /\ Changed(pre, st) = {}}
AllExercised == Exercised \cup Probes
Coverage == AllExercised = {} \/ PrintT(<<"EXERCISED", AllExercised>>)

Report == (l = Len(Trace) + 1) => PrintT(<<"TRACE-END", Len(Trace), drift, driftAt>>)

DriftReport == (drift > 0 /\ driftAt = l - 1) =>
  PrintT(<<"DRIFT", driftAt, ev.name, [who |-> ev.who, n |-> ev.n, oracle |-> ev.oracle, cap |-> ev.cap,
                                       ctx |-> ev.ctx, kind |-> ev.kind, ok |-> ev.ok]>>)

TraceAccepted == TLCGet("stats").diameter = Len(Trace)

Alias == [l |-> l, ev |-> ev]
=============================================================================
