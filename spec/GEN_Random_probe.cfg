SPECIFICATION GenSpecP
CONSTANTS
  Users = {"u1", "u2"}
  Provs = {"p1", "p2"}
  RecordHist = TRUE
  MaxH = 14
  MaxReq = 7
  Intervals = {0, 1, 2}
  Caps = {9, 10}
  Bound = {"p1"}
  Price = 10
  Funds = 25
  Timeout = 2
  TaxNum = 1
  TaxDen = 10
  Kinds = {"seed", "err", "bad", "short"}
  MaxZH = 0
CONSTRAINT GenConstraint
CHECK_DEADLOCK FALSE
