------------------------------- MODULE Oracle -------------------------------
(***************************************************************************)
(* irismod/modules/oracle — feeds: repeated service request contexts whose *)
(* batches of provider answers are aggregated into a bounded history of    *)
(* values.                                                                 *)
(*                                                                         *)
(* Transcribed from                                                        *)
(*   oracle/keeper/keeper.go (CreateFeed, StartFeed, PauseFeed, EditFeed,  *)
(*     HandlerResponse, HandlerStateChanged), keeper/feed.go (SetFeedValue,*)
(*     deleteOldestFeedValue, GetFeedValues, the state index),             *)
(*   oracle/types/aggregate.go (Max, Min, Avg; 8 decimals),                *)
(*   oracle/types/msgs.go, validation.go (ValidateBasic),                  *)
(* and, for the slice of the service module a feed observes, from          *)
(*   service/keeper/invocation.go (CreateRequestContext,                   *)
(*     UpdateRequestContext, Start/PauseRequestContext, AddResponse,       *)
(*     Callback, FilterServiceProviders, InitiateRequests,                 *)
(*     SkipCurrentRequestBatch), keeper/state_change.go, keeper/fees.go,   *)
(*   service/abci.go (EndBlocker: expired batches, then new batches).      *)
(*                                                                         *)
(* Numbers.  Feed values are decimals with 8 fractional digits; here they  *)
(* are integers in units of 10^-8.  The code aggregates in float64 and     *)
(* formats with 8 decimals: max and min are exact in the driven range, the *)
(* average is the exact quotient rounded to a neighbouring unit — which    *)
(* neighbour at a tie depends on float error, so an event that completes a *)
(* batch carries the observed value (e.aggs) and the specification accepts *)
(* it when it is a correct rounding, and otherwise predicts its own.       *)
(*                                                                         *)
(* Heights, ids, ranks: as in Random.tla.  st.now is the block time in     *)
(* seconds since the start of the trace.                                   *)
(***************************************************************************)
EXTENDS Integers, Sequences, FiniteSets, TLC, Util, Json, IOUtils, OracleClauses

CONSTANTS
  Users,        \* feed creators / other senders
  Provs,        \* provider accounts
  RecordHist

VARIABLES st, ev, gh, hist
vars == <<st, ev, gh, hist>>

D == "stake"
SVCREQ == "svcreq"
SVCDEP == "svcdep"
SVCTAX == "svctax"
CtxId(n) == "c" \o ToString(n)
Coin(a) == (D :> a)

MaxLatestHistory == 100

NoEv == [name |-> "Init", who |-> "", feed |-> "", agg |-> "", lh |-> 0, provs |-> <<>>, thr |-> 0,
         cap |-> 0, timeout |-> 0, freq |-> 0, kind |-> "", pay |-> "", x |-> 0, dt |-> 0, rank |-> 0,
         aggs |-> EmptyF, code |-> 0, ok |-> TRUE, panic |-> FALSE, halt |-> FALSE]

(* code: the result code of the oracle-price module service (CallPrice), else 0 *)
FailW(s, w) == [ok |-> FALSE, panic |-> FALSE, st |-> s, why |-> w, code |-> 0]
Done(s) == [ok |-> TRUE, panic |-> FALSE, st |-> s, why |-> "", code |-> 0]

ORACLEP == "oraclep"        \* provider address of the oracle-price module service
PAIR == "btc-stake"         \* the feed the exchange rate btc -> stake is read from
MaxAge == 300               \* seconds (block time) after which a value is expired

NoDup(q) == \A i, j \in DOMAIN q : i # j => q[i] # q[j]

(***************************************************************************)
(* Unusual inputs (round 7).  What today's code makes of strings of the    *)
(* wrong kind; e.pay names how an input is written down.                   *)
(*                                                                         *)
(* Providers.  Since fix 8afa321 (finding R7-3) MsgCreateFeed / MsgEditFeed  *)
(* ValidateBasic refuse a provider string that is no account address       *)
(* ("?garbage", an address under the validator prefix "?valoper"); before  *)
(* it keeper.go converted such a string with `pd, _ := ...FromBech32` to   *)
(* the EMPTY address and stored it as provider "" - which the service      *)
(* module's genesis validation refuses, so every later export of the chain *)
(* was unimportable.  bech32 in upper case ("?upper", p1's address) is p1; *)
(* the address of the service request escrow ("?module") is an address     *)
(* like any other.                                                         *)
(*                                                                         *)
(* Feed names.  ValidateFeedName: ^[a-zA-Z][a-zA-Z0-9/_-]*$; names are     *)
(* case sensitive ("FA" is another feed than "fa").                        *)
(*                                                                         *)
(* Fee caps.  validateServiceFeeCap: exactly one coin of the base denom.   *)
(* Service names: CreateRequestContext needs a defined service (names are  *)
(* case sensitive).                                                        *)
(*                                                                         *)
(* Answers.  types/aggregate.go reads gjson(body.<path>).Float(): the      *)
(* number whether it is written plainly, with an exponent, with more       *)
(* digits, or inside a string; the FIRST of duplicate members; 1 for true; *)
(* 0 when there is no number (member or body missing, null, false, an      *)
(* object, an array, a string that holds no number, -0.0).  Every such     *)
(* output is a valid response for the service module and counts towards    *)
(* the threshold.  MsgRespondService.ValidateBasic refuses a result 200    *)
(* without output, another result with one, a result code outside the      *)
(* schema, an output without header, a request id of the wrong length.     *)
(***************************************************************************)
BadProvs == {"?garbage", "?valoper"}
HasBadProv(q) == \E i \in DOMAIN q : q[i] \in BadProvs
ProvOf(p) ==
  CASE p = "?upper" -> "p1"
    [] p = "?module" -> SVCREQ
    [] OTHER -> p
ProvsOf(q) == [i \in DOMAIN q |-> ProvOf(q[i])]

BadFeedNames == {"", "1fa", "fa b", "fa.x", "-fa", "_fa"}
CapPays == {"btccap", "twocap"}
SvcPays == {"nosvc", "svccase"}    \* CreateFeed on a service that is not defined / on "Price" for "price"
ZeroPays == {"missing", "null", "false", "obj", "arr", "strbad", "nobody", "negzero"}
RefusedAnswer(e) ==
  \/ e.pay = "ridshort"
  \/ e.kind = "val" /\ e.pay \in {"emptyout", "badresult", "nohdr"}
  \/ e.kind # "val" /\ e.pay = "errout"
(* A string that holds "NaN" (pay "nan"): gjson's Float() parses it to a NaN.  The   *)
(* output is a valid response (it counts towards the threshold); Max and Min *)
(* compare with < and >, which are false for a NaN: the answer is SKIPPED and  *)
(* the aggregate is the one of the other answers.  (Avg would be poisoned -    *)
(* findings R7-2; the drivers send "nan" to max / min feeds only, and only     *)
(* once another provider has answered the batch with a number.)               *)
AnsX(e) == IF e.pay \in ZeroPays THEN 0 ELSE IF e.pay = "true" THEN 100000000 ELSE e.x

-----------------------------------------------------------------------------
(* types/aggregate.go, on integers in units of 10^-8 *)
ValsOf(f) == {f[p] : p \in DOMAIN f}

CodeMax(f) == SetMax(ValsOf(f))   \* fix bb6c4a3 (F15): before it Max(0, ...), the loop started from the smallest positive float
CodeMin(f) == SetMin(ValsOf(f))

(* OracleClauses.AvgW with the tight tolerance: half a unit per answer (the
   8-decimal rounding); the float term is 0 for answers within +-3.4 *)
AvgOK(v, f) ==
  LET n == Cardinality(DOMAIN f) IN AvgW(SumF(f), n, v, n)

(* nearest unit, ties away from zero *)
AvgDefault(f) ==
  LET n == Cardinality(DOMAIN f)
      sum == SumF(f)
      q == (2 * Abs(sum) + n) \div (2 * n)
  IN IF sum >= 0 THEN q ELSE -q

Aggregate(agg, f, e, feed) ==
  CASE agg = "max" -> CodeMax(f)
    [] agg = "min" -> CodeMin(f)
    [] OTHER -> IF feed \in DOMAIN e.aggs /\ AvgOK(e.aggs[feed], f) THEN e.aggs[feed] ELSE AvgDefault(f)

-----------------------------------------------------------------------------
(* keeper/feed.go: SetFeedValue — delete the (count - limit + 1) oldest, then
   store under the batch counter; values are read newest first *)
SetFeedValue(s, feed, b, v) ==
  LET old == s.values[feed]
      oldb == s.vb[feed]
      lh == s.feeds[feed].lh
      keepN == IF Len(old) >= lh THEN lh - 1 ELSE Len(old)   \* count - (count - lh + 1)
  IN [s EXCEPT !.values[feed] = <<[v |-> v, t |-> s.now]>> \o SubSeq(old, 1, keepN),
               !.vb[feed] = <<b>> \o SubSeq(oldb, 1, keepN)]

FeedOfCtx(s, c) == {f \in DOMAIN s.feeds : s.feeds[f].ctx = c}

(* keeper.go: HandlerResponse; vals: provider -> answer for the valid outputs *)
OnResponse(s, e, c, vals, err) ==
  IF DOMAIN vals = {} \/ err THEN s
  ELSE IF FeedOfCtx(s, c) = {} \/ c \notin DOMAIN s.ctx THEN s
  ELSE
    LET feed == CHOOSE f \in FeedOfCtx(s, c) : TRUE
        v == Aggregate(s.feeds[feed].agg, vals, e, feed)
    IN SetFeedValue(s, feed, s.ctx[c].bcount, v)

(* keeper.go: HandlerStateChanged — move the feed in the state index *)
OnStateChanged(s, c) ==
  IF c \notin DOMAIN s.ctx \/ FeedOfCtx(s, c) = {} THEN s
  ELSE
    LET feed == CHOOSE f \in FeedOfCtx(s, c) : TRUE IN
    CASE s.ctx[c].state = "paused"  -> [s EXCEPT !.idx[feed] = [run |-> FALSE, pause |-> TRUE]]
      [] s.ctx[c].state = "running" -> [s EXCEPT !.idx[feed] = [run |-> TRUE, pause |-> FALSE]]
      [] OTHER -> s

(* service: Callback — the non-empty outputs of the current batch *)
BatchVals(cx) ==
  [p \in {q \in DOMAIN cx.reqs : cx.reqs[q].kind = "val"} |-> cx.reqs[p].x]
(* ... and the providers whose output holds no number at all (NaN) *)
BatchNaNs(cx) == {q \in DOMAIN cx.reqs : cx.reqs[q].kind = "nan"}

Callback(s, e, c) ==
  LET vals == BatchVals(s.ctx[c]) IN
  OnResponse(s, e, c, vals, Cardinality(DOMAIN vals) + Cardinality(BatchNaNs(s.ctx[c])) < s.ctx[c].bthr)

-----------------------------------------------------------------------------
(* msgs.go ValidateBasic + keeper.go CreateFeed + service CreateRequestContext *)
DoCreateFeed(s, e) ==
  IF e.feed \in BadFeedNames THEN FailW(s, "feed_name")
  ELSE IF HasBadProv(e.provs) THEN FailW(s, "provider")
  ELSE IF e.pay \in SvcPays THEN FailW(s, "unknown_service")
  ELSE IF e.lh < 1 \/ e.lh > MaxLatestHistory THEN FailW(s, "latest_history")
  ELSE IF e.timeout <= 0 \/ e.freq < e.timeout THEN FailW(s, "timeout")
  ELSE IF Len(e.provs) = 0 THEN FailW(s, "providers")
  ELSE IF e.agg \notin {"max", "min", "avg"} THEN FailW(s, "aggregate")
  ELSE IF e.cap < 0 THEN FailW(s, "fee_cap")
  ELSE IF e.thr < 1 \/ e.thr > Len(e.provs) THEN FailW(s, "threshold")
  ELSE IF e.feed \in DOMAIN s.feeds THEN FailW(s, "exists")
  ELSE IF ~NoDup(ProvsOf(e.provs)) THEN FailW(s, "duplicate_providers")
  ELSE IF e.cap = 0 \/ e.pay \in CapPays THEN FailW(s, "fee_cap")
  ELSE IF e.timeout > s.params.timeout THEN FailW(s, "max_timeout")
  ELSE
    LET cid == CtxId(s.nctx + 1)
        cx == [consumer |-> e.who, provs |-> ProvsOf(e.provs), state |-> "paused", cap |-> e.cap,
               timeout |-> e.timeout, rep |-> TRUE, freq |-> e.freq, thr |-> e.thr,
               bdone |-> TRUE, bcount |-> 0, reqN |-> 0, respN |-> 0, bthr |-> e.thr,
               newAt |-> 0, expAt |-> 0, rank |-> e.rank, reqs |-> EmptyF]
    IN Done([s EXCEPT !.nctx = s.nctx + 1, !.ctx = Put(s.ctx, cid, cx),
                      !.feeds = Put(s.feeds, e.feed, [agg |-> e.agg, lh |-> e.lh, ctx |-> cid, creator |-> e.who]),
                      !.values = Put(s.values, e.feed, <<>>), !.vb = Put(s.vb, e.feed, <<>>),
                      !.idx = Put(s.idx, e.feed, [run |-> FALSE, pause |-> TRUE])])

(* keeper.go StartFeed + service StartRequestContext *)
DoStartFeed(s, e) ==
  IF e.feed \notin DOMAIN s.feeds THEN FailW(s, "unknown_feed")
  ELSE
    LET fd == s.feeds[e.feed]
        c == fd.ctx IN
    IF e.who # fd.creator THEN FailW(s, "unauthorized")
    ELSE IF c \notin DOMAIN s.ctx THEN FailW(s, "unknown_feed")
    ELSE IF s.ctx[c].state = "running" THEN FailW(s, "state")
    ELSE IF s.ctx[c].state # "paused" THEN FailW(s, "state")
    ELSE
      LET cx == s.ctx[c]
          cx1 == [cx EXCEPT !.state = "running",
                            !.newAt = IF cx.expAt = 0 /\ cx.newAt = 0 THEN s.h ELSE @]
      IN Done([s EXCEPT !.ctx[c] = cx1, !.idx[e.feed] = [run |-> TRUE, pause |-> FALSE]])

(* keeper.go PauseFeed + service PauseRequestContext *)
DoPauseFeed(s, e) ==
  IF e.feed \notin DOMAIN s.feeds THEN FailW(s, "unknown_feed")
  ELSE
    LET fd == s.feeds[e.feed]
        c == fd.ctx IN
    IF e.who # fd.creator THEN FailW(s, "unauthorized")
    ELSE IF c \notin DOMAIN s.ctx THEN FailW(s, "unknown_feed")
    ELSE IF s.ctx[c].state # "running" THEN FailW(s, "state")
    ELSE Done([s EXCEPT !.ctx[c].state = "paused", !.idx[e.feed] = [run |-> FALSE, pause |-> TRUE]])

(* keeper.go EditFeed + service UpdateRequestContext.  0 / <<>> = unchanged *)
DoEditFeed(s, e) ==
  IF HasBadProv(e.provs) THEN FailW(s, "provider")
  ELSE IF e.lh # 0 /\ (e.lh < 1 \/ e.lh > MaxLatestHistory) THEN FailW(s, "latest_history")
  ELSE IF e.cap < 0 THEN FailW(s, "fee_cap")
  ELSE IF e.timeout # 0 /\ e.freq # 0 /\ e.freq < e.timeout THEN FailW(s, "timeout")
  ELSE IF e.thr # 0 /\ Len(e.provs) # 0 /\ e.thr > Len(e.provs) THEN FailW(s, "threshold")
  ELSE IF e.feed \notin DOMAIN s.feeds THEN FailW(s, "unknown_feed")
  ELSE
    LET fd == s.feeds[e.feed]
        c == fd.ctx IN
    IF e.who # fd.creator THEN FailW(s, "unauthorized")
    ELSE IF c \notin DOMAIN s.ctx THEN FailW(s, "unknown_context")
    ELSE
      LET cx == s.ctx[c]
          thr == IF e.thr = 0 THEN cx.thr ELSE e.thr
          pds == IF Len(e.provs) = 0 THEN cx.provs ELSE ProvsOf(e.provs)
          timeout == IF e.timeout = 0 THEN cx.timeout ELSE e.timeout
          freq == IF e.freq = 0 THEN cx.freq ELSE e.freq
      IN
      IF e.timeout < 0 THEN FailW(s, "timeout")
      ELSE IF ~NoDup(ProvsOf(e.provs)) THEN FailW(s, "duplicate_providers")
      ELSE IF thr > Len(pds) THEN FailW(s, "threshold")
      ELSE IF e.cap > 0 /\ e.pay \in CapPays THEN FailW(s, "fee_cap")
      ELSE IF e.timeout > s.params.timeout THEN FailW(s, "max_timeout")
      ELSE IF freq < timeout THEN FailW(s, "frequency")
      ELSE
        LET cx1 == [cx EXCEPT !.thr = thr, !.provs = pds, !.timeout = timeout, !.freq = freq,
                              !.cap = IF e.cap > 0 THEN e.cap ELSE @]
            old == s.values[e.feed]
            keepN == IF e.lh > 0 THEN Min(Len(old), e.lh) ELSE Len(old)
        IN Done([s EXCEPT !.ctx[c] = cx1,
                          !.feeds[e.feed].lh = IF e.lh > 0 THEN e.lh ELSE @,
                          !.values[e.feed] = SubSeq(old, 1, keepN),
                          !.vb[e.feed] = SubSeq(s.vb[e.feed], 1, keepN)])

(* service RespondService / AddResponse; the request is the one of e.who in the
   current batch of the feed's context *)
DoRespond(s, e) ==
  IF RefusedAnswer(e) THEN FailW(s, "invalid_response")
  ELSE IF e.feed \notin DOMAIN s.feeds THEN FailW(s, "unknown_request")
  ELSE
    LET c == s.feeds[e.feed].ctx IN
    IF c \notin DOMAIN s.ctx \/ DOMAIN s.ctx[c].reqs = {} THEN FailW(s, "unknown_request")
    ELSE
      LET cx == s.ctx[c]
          who == e.who IN
      IF who \notin DOMAIN cx.reqs THEN FailW(s, "wrong_provider")
      ELSE IF ~cx.reqs[who].act THEN FailW(s, "not_active")
      ELSE
        LET fee == cx.reqs[who].fee
            tax == (fee * s.params.taxNum) \div s.params.taxDen
            kind == IF e.kind = "val" THEN (IF e.pay = "nan" THEN "nan" ELSE "val") ELSE "err"
            x == IF kind = "val" THEN AnsX(e) ELSE 0
            cx1 == [cx EXCEPT !.reqs[who] = [@ EXCEPT !.act = FALSE, !.kind = kind, !.x = x],
                              !.respN = @ + 1]
            complete == cx1.respN = cx1.reqN
            s1 == [s EXCEPT !.bal = Move(s.bal, SVCREQ, SVCTAX, Coin(tax)),
                            !.earned[who] = @ + fee - tax,
                            !.ctx[c] = cx1]
            s2 == IF complete THEN Callback(s1, e, c) ELSE s1
        IN Done([s2 EXCEPT !.ctx[c] = IF complete THEN [cx1 EXCEPT !.bdone = TRUE] ELSE cx1])

(***************************************************************************)
(* keeper.go ModuleServiceRequest — the "oracle-price" module service:     *)
(* 400 feed not found, 401 no value, 402 newest value older than five      *)
(* minutes of BLOCK time (fix 5ef61dc; before it the host clock), 200 and  *)
(* the newest value as rate.                                               *)
(***************************************************************************)
PriceCode(s, pair) ==
  IF pair \notin DOMAIN s.feeds THEN 400
  ELSE IF Len(s.values[pair]) = 0 THEN 401
  ELSE IF s.now - s.values[pair][1].t > MaxAge THEN 402
  ELSE 200

(* service msg_server.go CallService on a module service: a one-shot context
   (no module name, state RUNNING then COMPLETED), one request to the module
   provider answered in the same transaction, price 0.  The context stays in
   the store for good; its new-batch marker is dropped by the end-blocker of
   the block. *)
DoCallPrice(s, e) ==
  IF e.cap <= 0 THEN FailW(s, "fee_cap")
  ELSE
    LET code == PriceCode(s, e.feed)
        cid == CtxId(s.nctx + 1)
        \* RequestModuleService writes back the copy of the context it read before
        \* the request was initiated and answered: batch counter and counts stay 0
        \* (the request and response of batch 1 stay in the store, unreferenced)
        cx == [consumer |-> e.who, provs |-> <<ORACLEP>>, state |-> "completed", cap |-> e.cap,
               timeout |-> 1, rep |-> FALSE, freq |-> 0, thr |-> 0,
               bdone |-> TRUE, bcount |-> 0, reqN |-> 0, respN |-> 0, bthr |-> 0,
               newAt |-> s.h, expAt |-> 0, rank |-> e.rank, reqs |-> EmptyF]
    IN [Done([s EXCEPT !.nctx = s.nctx + 1, !.ctx = Put(s.ctx, cid, cx)]) EXCEPT !.code = code]

(* service keeper GetExchangeRate(btc, stake): usable iff the module service
   answers 200 with a rate the oracle-price schema accepts (unsigned decimal)
   that is not zero *)
RateUsable(s) == PriceCode(s, PAIR) = 200 /\ s.values[PAIR][1].v > 0

(* service AddServiceBinding of a service priced in btc (service "price2", no
   feed uses it): GetMinDeposit converts the price through the exchange rate *)
DoBindX(s, e) ==
  IF e.cap <= 0 \/ e.x <= 0 THEN FailW(s, "invalid")
  ELSE IF e.who \in DOMAIN s.xbind THEN FailW(s, "exists")
  ELSE IF ~RateUsable(s) THEN FailW(s, "no_rate")
  ELSE
    LET base0 == (e.x * s.values[PAIR][1].v) \div 100000000
        base == IF base0 = 0 THEN 1 ELSE base0
    IN IF e.cap < base THEN FailW(s, "deposit")
       ELSE IF s.bal[e.who][D] < e.cap THEN FailW(s, "funds")
       ELSE Done([s EXCEPT !.bal = Move(s.bal, e.who, SVCDEP, Coin(e.cap)),
                           !.xbind = Put(s.xbind, e.who, [price |-> e.x, deposit |-> e.cap])])

(* bank MsgSend between tracked accounts (environment) *)
DoSend(s, e) ==
  IF e.x <= 0 \/ e.feed \notin DOMAIN s.bal \/ s.bal[e.who][D] < e.x THEN FailW(s, "funds")
  ELSE Done([s EXCEPT !.bal = Move(s.bal, e.who, e.feed, Coin(e.x))])

(* service MsgPause/Start/KillRequestContext sent to a feed's context: the
   service module refuses direct operations on module-owned contexts
   (CheckAuthority with checkModule) *)
DoSvcDirect(s, e) == FailW(s, "module_context")

DoBeginBlock(s, e) == Done([s EXCEPT !.inb = TRUE, !.now = s.now + e.dt])

(* service/abci.go EndBlocker *)
MinRank(s, cs) == CHOOSE c \in cs : \A d \in cs : s.ctx[c].rank <= s.ctx[d].rank

ExpireOne(s, e, c) ==
  LET cx == s.ctx[c]
      act == {p \in DOMAIN cx.reqs : cx.reqs[p].act}
      refund == SumOver([p \in act |-> cx.reqs[p].fee], act)
      cxa == [cx EXCEPT !.reqs = [p \in DOMAIN cx.reqs |-> [cx.reqs[p] EXCEPT !.act = FALSE]]]
      s1 == IF cx.bdone THEN s
            ELSE Callback([s EXCEPT !.bal = Move(s.bal, SVCREQ, cx.consumer, Coin(refund)),
                                    !.ctx[c] = cxa], e, c)
      cx2 == [cxa EXCEPT !.bdone = TRUE, !.expAt = 0, !.reqs = EmptyF]
  IN
  IF cx.state = "running" /\ ~cx.rep
  THEN [s1 EXCEPT !.ctx = Del(s1.ctx, c)]
  ELSE IF cx.state = "running"
  THEN [s1 EXCEPT !.ctx[c] = [cx2 EXCEPT !.newAt = s.h - cx.timeout + cx.freq]]
  ELSE [s1 EXCEPT !.ctx[c] = cx2]

RECURSIVE ExpireAll(_, _, _)
ExpireAll(s, e, cs) ==
  IF cs = {} THEN s
  ELSE LET c == MinRank(s, cs) IN ExpireAll(ExpireOne(s, e, c), e, cs \ {c})

NewOne(s, c) ==
  LET cx == s.ctx[c]
      elig == SelectSeq(cx.provs, LAMBDA p :
                p \in DOMAIN s.bind /\ s.bind[p].avail /\ s.bind[p].qos <= cx.timeout
                /\ s.bind[p].price <= cx.cap)
      total == SumOver([i \in DOMAIN elig |-> s.bind[elig[i]].price], DOMAIN elig)
  IN
  IF cx.state # "running" THEN [s EXCEPT !.ctx[c].newAt = 0]
  ELSE IF Len(elig) > 0 /\ Len(elig) >= cx.thr
  THEN IF s.bal[cx.consumer][D] < total
       THEN OnStateChanged([s EXCEPT !.ctx[c] = [cx EXCEPT !.bdone = TRUE, !.state = "paused", !.newAt = 0]], c)
       ELSE [s EXCEPT
               !.bal = Move(s.bal, cx.consumer, SVCREQ, Coin(total)),
               !.ctx[c] = [cx EXCEPT
                  !.bcount = @ + 1, !.bdone = FALSE, !.respN = 0, !.reqN = Len(elig),
                  !.bthr = cx.thr, !.newAt = 0, !.expAt = s.h + cx.timeout,
                  !.reqs = [p \in Range(elig) |->
                              [fee |-> s.bind[p].price, act |-> TRUE, kind |-> "none", x |-> 0,
                               exp |-> s.h + cx.timeout]]]]
  ELSE [s EXCEPT !.ctx[c] = [cx EXCEPT !.bcount = @ + 1, !.bdone = FALSE, !.respN = 0, !.reqN = 0,
                                       !.bthr = cx.thr, !.newAt = 0, !.expAt = s.h + cx.timeout]]

RECURSIVE NewAll(_, _)
NewAll(s, cs) ==
  IF cs = {} THEN s
  ELSE LET c == MinRank(s, cs) IN NewAll(NewOne(s, c), cs \ {c})

DoEndBlock(s, e) ==
  LET s1 == ExpireAll(s, e, {c \in DOMAIN s.ctx : s.ctx[c].expAt = s.h})
      s2 == NewAll(s1, {c \in DOMAIN s1.ctx : s1.ctx[c].newAt = s.h})
  IN Done([s2 EXCEPT !.h = s.h + 1, !.inb = FALSE])

Apply0(s, e) ==
  CASE e.name = "CreateFeed" -> DoCreateFeed(s, e)
    [] e.name = "StartFeed"  -> DoStartFeed(s, e)
    [] e.name = "PauseFeed"  -> DoPauseFeed(s, e)
    [] e.name = "EditFeed"   -> DoEditFeed(s, e)
    [] e.name = "Respond"    -> DoRespond(s, e)
    [] e.name = "SvcDirect"  -> DoSvcDirect(s, e)
    [] e.name = "CallPrice"  -> DoCallPrice(s, e)
    [] e.name = "BindX"      -> DoBindX(s, e)
    [] e.name = "Send"       -> DoSend(s, e)
    [] e.name = "BeginBlock" -> DoBeginBlock(s, e)
    [] e.name = "EndBlock"   -> DoEndBlock(s, e)
    [] OTHER -> FailW(s, "unknown")

-----------------------------------------------------------------------------
(***************************************************************************)
(* What the observed step (s, e, t) did to the batches, judged from the    *)
(* states only: the batch of context c completed in this step, and its     *)
(* valid outputs are the answers recorded before plus the one in e.        *)
(***************************************************************************)
Completed(s, t, c) ==
  /\ c \in DOMAIN s.ctx /\ ~s.ctx[c].bdone
  /\ \/ c \notin DOMAIN t.ctx
     \/ t.ctx[c].bdone
     \/ t.ctx[c].bcount > s.ctx[c].bcount

ValidOut(s, e, c) ==
  LET before == BatchVals(s.ctx[c]) IN
  IF e.name = "Respond" /\ e.ok /\ e.kind = "val" /\ e.pay # "nan" /\ e.feed \in DOMAIN s.feeds /\ s.feeds[e.feed].ctx = c
  THEN Put(before, e.who, AnsX(e)) ELSE before

(* valid responses whose output holds no number (NaN): they count, max / min skip them *)
NaNOut(s, e, c) ==
  BatchNaNs(s.ctx[c]) \cup
  (IF e.name = "Respond" /\ e.ok /\ e.kind = "val" /\ e.pay = "nan" /\ e.feed \in DOMAIN s.feeds /\ s.feeds[e.feed].ctx = c
   THEN {e.who} ELSE {})

MetThreshold(s, e, c) ==
  LET n == Cardinality(DOMAIN ValidOut(s, e, c)) + Cardinality(NaNOut(s, e, c)) IN n > 0 /\ n >= s.ctx[c].bthr

(* feeds whose batch completed with enough valid answers in this step *)
Appending(s, e, t) ==
  {f \in DOMAIN s.feeds : Completed(s, t, s.feeds[f].ctx) /\ MetThreshold(s, e, s.feeds[f].ctx)}

Apply(s, e) == Apply0(s, e)

(* ghosts: counters that bound the model (successful edits, module-service
   calls / binds / sends) and the feeds currently paused for lack of funds
   (autop; restart = this step restarted one of them) *)
(* History ghosts (audit round): what HAPPENED to every feed created in this trace,
   taken from the accepted events and from the service module's state — never from
   the oracle module's own records (feed record, state index, value store):
     creator[f]  the signer of the accepted CreateFeed
     fctx[f]     the request context that appeared in the service module in that step
     lh[f]       latest-history of the accepted CreateFeed / of the last accepted
                 EditFeed that names one
     ans[f]      the valid answers the harness submitted and the service module
                 accepted for the batch in flight (provider -> units of 10^-8) *)
GhostInit == [edits |-> 0, calls |-> 0, autop |-> {}, restart |-> FALSE,
              creator |-> EmptyF, fctx |-> EmptyF, lh |-> EmptyF, ans |-> EmptyF]

(* (an answer that holds no number - pay "nan" - is kept under NaNMark: it counts
   towards the threshold, max / min skip it) *)
NaNMark == 2000000000
NumOnly(xs) == [p \in {q \in DOMAIN xs : xs[q] # NaNMark} |-> xs[p]]
(* the valid answers of feed f's batch in flight once e has been processed *)
AnsWith(g, e, f) ==
  LET old == Get(g.ans, f, EmptyF) IN
  IF e.name = "Respond" /\ e.ok /\ e.kind = "val" /\ e.feed = f
  THEN Put(old, e.who, IF e.pay = "nan" THEN NaNMark ELSE AnsX(e)) ELSE old

(* the batch of feed f's context (as the history knows it) completed in this step *)
CompletedH(g, s, t, f) ==
  f \in DOMAIN g.fctx /\ g.fctx[f] \in DOMAIN s.ctx /\ Completed(s, t, g.fctx[f])

GhostStep(g, s, e, t) ==
  LET auto == IF e.name = "EndBlock"
              THEN {f \in DOMAIN s.feeds : s.ctx[s.feeds[f].ctx].state = "running"
                                            /\ f \in DOMAIN t.feeds /\ t.feeds[f].ctx \in DOMAIN t.ctx
                                            /\ t.ctx[t.feeds[f].ctx].state = "paused"}
              ELSE {}
      started == IF e.name = "StartFeed" /\ e.ok THEN {e.feed} ELSE {}
      created == e.name = "CreateFeed" /\ e.ok
      newctx == DOMAIN t.ctx \ DOMAIN s.ctx
      fctx2 == IF created
               THEN Put(g.fctx, e.feed, IF Cardinality(newctx) = 1 THEN CHOOSE c \in newctx : TRUE ELSE "")
               ELSE g.fctx
  IN [edits |-> g.edits + (IF e.name = "EditFeed" /\ e.ok THEN 1 ELSE 0),
      calls |-> g.calls + (IF e.name \in {"CallPrice", "BindX", "Send"} THEN 1 ELSE 0),
      autop |-> (g.autop \cup auto) \ started,
      restart |-> started \cap g.autop # {},
      creator |-> IF created THEN Put(g.creator, e.feed, e.who) ELSE g.creator,
      fctx |-> fctx2,
      lh |-> IF created \/ (e.name = "EditFeed" /\ e.ok /\ e.lh > 0 /\ e.feed \in DOMAIN g.lh)
             THEN Put(g.lh, e.feed, e.lh) ELSE g.lh,
      ans |-> [f \in DOMAIN fctx2 |->
                 IF created /\ f = e.feed THEN EmptyF
                 ELSE IF CompletedH(g, s, t, f) THEN EmptyF ELSE AnsWith(g, e, f)]]

-----------------------------------------------------------------------------
(* Property clauses *)

(* C17 append: a completed batch that met its threshold puts exactly one value,
   stamped with the block time, in front; nothing else adds a value *)
C17_Append(s, e, t) ==
  \A f \in DOMAIN s.feeds :
    /\ f \in DOMAIN t.values
    /\ IF f \in Appending(s, e, t)
       THEN /\ Len(t.values[f]) >= 1
            /\ t.values[f][1].t = t.now
            /\ Len(t.values[f]) <= Len(s.values[f]) + 1
            /\ Tail(t.values[f]) = SubSeq(s.values[f], 1, Len(t.values[f]) - 1)
       ELSE /\ Len(t.values[f]) <= Len(s.values[f])
            /\ t.values[f] = SubSeq(s.values[f], 1, Len(t.values[f]))

(* C17 aggregate: the new value is the configured aggregate of the valid answers *)
C17_Aggregate(s, e, t) ==
  \A f \in Appending(s, e, t) :
    (f \in DOMAIN t.values /\ Len(t.values[f]) >= 1) =>
      LET xs == ValidOut(s, e, s.feeds[f].ctx)
          v == t.values[f][1].v
      IN CASE s.feeds[f].agg = "max" -> MaxW(SetMax(ValsOf(xs)), v, 0)
           [] s.feeds[f].agg = "min" -> MinW(SetMin(ValsOf(xs)), v, 0)
           [] OTHER -> AvgOK(v, xs)

(* C17 history: never more than latest-history values, newest first, and always
   as many of the previous ones as the limit allows — also across edits *)
C17_History(s, e, t) ==
  \A f \in DOMAIN t.feeds :
    LET vs == t.values[f]
        lh == t.feeds[f].lh
    IN /\ Len(vs) <= lh
       /\ \A i \in 1..(Len(vs) - 1) : vs[i].t >= vs[i + 1].t
       /\ t.fmtBad = 0
       /\ f \in DOMAIN s.feeds =>
            LET new == IF f \in Appending(s, e, t) THEN 1 ELSE 0
                kept == Len(vs) - new
            IN kept = Min(Len(s.values[f]), lh - new)

(* C17 state mirror: the feed's index state is its context's state *)
C17_StateMirror(t) ==
  \A f \in DOMAIN t.feeds :
    LET c == t.feeds[f].ctx IN
    /\ c \in DOMAIN t.ctx
    /\ t.idx[f].run <=> (t.ctx[c].state = "running")
    /\ t.idx[f].pause <=> (t.ctx[c].state = "paused")

(* C17 authority: only the creator starts, pauses or edits *)
C17_Authority(s, e) ==
  (e.name \in {"StartFeed", "PauseFeed", "EditFeed"} /\ e.ok) =>
    (e.feed \in DOMAIN s.feeds /\ e.who = s.feeds[e.feed].creator)

(***************************************************************************)
(* History-based twins (audit round).  The clauses above read the feed's   *)
(* context id, creator and latest-history from the feed RECORD and the     *)
(* answers of a batch from the service module's response records: a defect *)
(* that writes one of them wrongly moves both sides of the comparison.  The *)
(* twins below judge every feed created in the trace by what happened:     *)
(* g is the ghost BEFORE the step (s, e, t).                               *)
(***************************************************************************)
(* the feeds the history knows: created in this trace, with the one context that appeared *)
HFeeds(g) == {f \in DOMAIN g.fctx : g.fctx[f] # "" /\ f \in DOMAIN g.lh}

MetThresholdH(g, s, e, f) ==
  LET n == Cardinality(DOMAIN AnsWith(g, e, f)) IN n > 0 /\ n >= s.ctx[g.fctx[f]].bthr

(* feeds whose batch completed in this step with enough answers accepted from the harness *)
AppendingH(g, s, e, t) ==
  {f \in HFeeds(g) : CompletedH(g, s, t, f) /\ MetThresholdH(g, s, e, f)}

(* latest-history after the step, from the accepted events *)
LhH(g, e, f) ==
  IF e.name = "EditFeed" /\ e.ok /\ e.lh > 0 /\ e.feed = f THEN e.lh ELSE g.lh[f]

C17_AppendH(g, s, e, t) ==
  \A f \in HFeeds(g) :
    /\ f \in DOMAIN t.values /\ f \in DOMAIN s.values
    /\ IF f \in AppendingH(g, s, e, t)
       THEN /\ Len(t.values[f]) >= 1
            /\ t.values[f][1].t = t.now
            /\ Len(t.values[f]) <= Len(s.values[f]) + 1
            /\ Tail(t.values[f]) = SubSeq(s.values[f], 1, Len(t.values[f]) - 1)
       ELSE /\ Len(t.values[f]) <= Len(s.values[f])
            /\ t.values[f] = SubSeq(s.values[f], 1, Len(t.values[f]))

(* the aggregate function is the one named by the accepted CreateFeed: it cannot be edited *)
C17_AggregateH(g, s, e, t) ==
  \A f \in AppendingH(g, s, e, t) :
    (f \in DOMAIN t.values /\ Len(t.values[f]) >= 1 /\ f \in DOMAIN s.feeds) =>
      LET xs == NumOnly(AnsWith(g, e, f))
          v == t.values[f][1].v
      IN CASE s.feeds[f].agg = "max" -> MaxW(SetMax(ValsOf(xs)), v, 0)
           [] s.feeds[f].agg = "min" -> MinW(SetMin(ValsOf(xs)), v, 0)
           [] OTHER -> AvgOK(v, xs)

C17_HistoryH(g, s, e, t) ==
  \A f \in HFeeds(g) :
    (f \in DOMAIN t.values /\ f \in DOMAIN s.values) =>
      LET vs == t.values[f]
          lh == LhH(g, e, f)
          new == IF f \in AppendingH(g, s, e, t) THEN 1 ELSE 0
      IN /\ Len(vs) <= lh
         /\ Len(vs) - new = Min(Len(s.values[f]), lh - new)

(* the state the feed shows (state index) is the state of the context that was
   created with it; an accepted start / pause shows at once *)
C17_StateMirrorH(g, e, t) ==
  /\ \A f \in DOMAIN g.fctx : g.fctx[f] # "" =>
        LET c == g.fctx[f] IN
        /\ f \in DOMAIN t.idx /\ c \in DOMAIN t.ctx
        /\ t.idx[f].run <=> (t.ctx[c].state = "running")
        /\ t.idx[f].pause <=> (t.ctx[c].state = "paused")
  /\ (e.name = "StartFeed" /\ e.ok /\ e.feed \in DOMAIN t.idx) => (t.idx[e.feed].run /\ ~t.idx[e.feed].pause)
  /\ (e.name = "PauseFeed" /\ e.ok /\ e.feed \in DOMAIN t.idx) => (t.idx[e.feed].pause /\ ~t.idx[e.feed].run)

(* only the signer of the accepted CreateFeed starts, pauses or edits *)
C17_AuthorityH(g, e) ==
  (e.name \in {"StartFeed", "PauseFeed", "EditFeed"} /\ e.ok /\ e.feed \in DOMAIN g.creator) =>
    e.who = g.creator[e.feed]

-----------------------------------------------------------------------------
(* Diagnostic clauses (beyond C17's text; reported, never a verdict) *)

(* the oracle-price module service answers 200 exactly for an existing feed
   whose newest value is at most five minutes of block time old *)
X17_PriceService(s, e) ==
  (e.name = "CallPrice" /\ e.ok) =>
    /\ e.code \in {200, 400, 401, 402}
    /\ (e.code = 200) <=> (e.feed \in DOMAIN s.feeds /\ Len(s.values[e.feed]) > 0
                              /\ s.now - s.values[e.feed][1].t <= MaxAge)
    /\ (e.code = 402) => (e.feed \in DOMAIN s.feeds /\ Len(s.values[e.feed]) > 0)

(* a service priced in btc can only be bound while the btc-stake feed gives a
   fresh positive rate, and the deposit covers the converted price *)
X17_RateGate(s, e, t) ==
  (e.name = "BindX" /\ e.ok) =>
    /\ PAIR \in DOMAIN s.feeds /\ Len(s.values[PAIR]) > 0
    /\ s.now - s.values[PAIR][1].t <= MaxAge /\ s.values[PAIR][1].v > 0
    /\ e.cap * 100000000 > e.x * s.values[PAIR][1].v - 100000000
    /\ t.bal[SVCDEP][D] = s.bal[SVCDEP][D] + e.cap /\ t.bal[e.who][D] = s.bal[e.who][D] - e.cap

(* an accepted edit sets exactly the given settings of the underlying context
   (0 / empty = unchanged) and never touches its state or running batch *)
X17_EditApplied(s, e, t) ==
  (e.name = "EditFeed" /\ e.ok) =>
    LET c == s.feeds[e.feed].ctx
        a == s.ctx[c]
        b == t.ctx[c]
    IN /\ b.thr = (IF e.thr = 0 THEN a.thr ELSE e.thr)
       /\ b.provs = (IF Len(e.provs) = 0 THEN a.provs ELSE ProvsOf(e.provs))
       /\ b.timeout = (IF e.timeout = 0 THEN a.timeout ELSE e.timeout)
       /\ b.freq = (IF e.freq = 0 THEN a.freq ELSE e.freq)
       /\ b.cap = (IF e.cap = 0 THEN a.cap ELSE e.cap)
       /\ t.feeds[e.feed].lh = (IF e.lh = 0 THEN s.feeds[e.feed].lh ELSE e.lh)
       /\ b.state = a.state /\ b.reqs = a.reqs /\ b.bthr = a.bthr /\ b.bcount = a.bcount
       /\ b.newAt = a.newAt /\ b.expAt = a.expAt
       /\ t.bal = s.bal

(* settings that would leave the context inconsistent are refused *)
X17_EditRejects(s, e) ==
  (e.name = "EditFeed" /\ e.feed \in DOMAIN s.feeds /\ s.feeds[e.feed].ctx \in DOMAIN s.ctx) =>
    LET a == s.ctx[s.feeds[e.feed].ctx]
        thr == IF e.thr = 0 THEN a.thr ELSE e.thr
        n == IF Len(e.provs) = 0 THEN Len(a.provs) ELSE Len(e.provs)
        timeout == IF e.timeout = 0 THEN a.timeout ELSE e.timeout
        freq == IF e.freq = 0 THEN a.freq ELSE e.freq
    IN (thr > n \/ freq < timeout \/ timeout > s.params.timeout \/ ~NoDup(e.provs)) => ~e.ok

(* a paused feed (also one paused for lack of funds) is restarted by its creator
   and, unless a batch is still open, issues its next batch in the same block *)
X17_Restart(s, e, t) ==
  (e.name = "StartFeed" /\ e.feed \in DOMAIN s.feeds /\ e.who = s.feeds[e.feed].creator
     /\ s.ctx[s.feeds[e.feed].ctx].state = "paused") =>
    LET c == s.feeds[e.feed].ctx IN
    /\ e.ok /\ t.ctx[c].state = "running"
    /\ (s.ctx[c].newAt = 0 /\ s.ctx[c].expAt = 0) => t.ctx[c].newAt = s.h

C13_NoHalt(e) == ~e.halt

Rejected_NoEffect(s, e, t) ==
  (~e.ok /\ e.name \notin {"BeginBlock", "EndBlock"}) => t = s

-----------------------------------------------------------------------------
(* Model-checking universe *)
CONSTANTS MaxH, MaxFeeds, FeedNames, Creators, Aggs, Limits, ProvLists, Thresholds, Caps,
          Freqs, Xs, Prices, Funds, MaxTimeout, TaxNum, TaxDen, MaxEdits, DTs,
          EditTFs,    \* <<timeout, frequency>> pairs offered to EditFeed
          EditCaps,   \* fee caps offered to EditFeed
          MaxCalls,   \* module-service calls, btc binds and sends per behaviour (0: none)
          Sends       \* amounts of plain bank sends between users

(* constants the cfg syntax cannot express (functions, negative numbers, tuples) *)
PricesDef == ("p1" :> 10) @@ ("p2" :> 12)
PricesDef3 == ("p1" :> 10) @@ ("p2" :> 12) @@ ("p3" :> 14)
XsDef == {-3, -1, 2}
XsDefBig == {-3, -2, 1, 3}
XsDef2 == {-3, 2}
EditTFsDef == {<<1, 1>>, <<1, 2>>, <<2, 2>>, <<2, 1>>}
ProvListsDef == {<<"p1">>, <<"p1", "p2">>}
ProvLists1Def == {<<"p1">>}
ProvListsOdd == {<<"p1">>, <<"p1", "p2">>, <<"p1", "?garbage">>, <<"?upper">>, <<"?module", "p2">>, <<"p2", "u2">>}
ProvListsDef3 == {<<"p1">>, <<"p2", "p1">>, <<"p1", "p2", "p3">>}

Accts == Users \cup Provs \cup {SVCREQ, SVCDEP, SVCTAX}

Init0 ==
  [h |-> 3, inb |-> FALSE, now |-> 0,
   feeds |-> EmptyF, values |-> EmptyF, vb |-> EmptyF, idx |-> EmptyF,
   ctx |-> EmptyF, nctx |-> 0,
   bind |-> [p \in DOMAIN Prices |-> [avail |-> TRUE, price |-> Prices[p], qos |-> 1]],
   earned |-> [p \in Provs |-> 0],
   \* as the harness sets it up: every provider holds 20 and has deposited 20
   bal |-> [a \in Accts |-> Coin(IF a \in Users THEN Funds
                                 ELSE IF a \in Provs THEN 20
                                 ELSE IF a = SVCDEP THEN 20 * Cardinality(Provs) ELSE 0)],
   params |-> [timeout |-> MaxTimeout, taxNum |-> TaxNum, taxDen |-> TaxDen],
   xbind |-> EmptyF, qBad |-> 0, gvBad |-> 0, fmtBad |-> 0]

Init == st = Init0 /\ ev = NoEv /\ gh = GhostInit /\ hist = <<>>

Step(e) ==
  LET r == Apply(st, e)
      e2 == [e EXCEPT !.ok = r.ok, !.panic = r.panic, !.code = r.code]
  IN /\ st' = r.st
     /\ ev' = e2
     /\ gh' = GhostStep(gh, st, e2, r.st)
     /\ hist' = IF RecordHist THEN Append(hist, e2) ELSE hist

FreeRanks == (1..MaxFeeds) \ {st.ctx[c].rank : c \in DOMAIN st.ctx}

BeginBlock == ~st.inb /\ st.h <= MaxH /\ \E dt \in DTs : Step([NoEv EXCEPT !.name = "BeginBlock", !.dt = dt])
EndBlock == st.inb /\ Step([NoEv EXCEPT !.name = "EndBlock"])
CreateFeed ==
  /\ st.inb /\ st.nctx < MaxFeeds
  /\ \E who \in Creators, f \in FeedNames, agg \in Aggs, lh \in Limits, ps \in ProvLists,
        thr \in Thresholds, cap \in Caps, fr \in Freqs, rk \in FreeRanks :
       Step([NoEv EXCEPT !.name = "CreateFeed", !.who = who, !.feed = f, !.agg = agg, !.lh = lh,
                         !.provs = ps, !.thr = thr, !.cap = cap, !.timeout = 1, !.freq = fr, !.rank = rk])
StartFeed ==
  st.inb /\ \E who \in Users, f \in DOMAIN st.feeds : Step([NoEv EXCEPT !.name = "StartFeed", !.who = who, !.feed = f])
PauseFeed ==
  st.inb /\ \E who \in Users, f \in DOMAIN st.feeds : Step([NoEv EXCEPT !.name = "PauseFeed", !.who = who, !.feed = f])
EditFeed ==
  /\ st.inb /\ gh.edits < MaxEdits
  /\ \E who \in Users, f \in DOMAIN st.feeds :
       \/ \E lh \in Limits : Step([NoEv EXCEPT !.name = "EditFeed", !.who = who, !.feed = f, !.lh = lh])
       \/ \E thr \in Thresholds : Step([NoEv EXCEPT !.name = "EditFeed", !.who = who, !.feed = f, !.thr = thr])
       \/ \E ps \in ProvLists : Step([NoEv EXCEPT !.name = "EditFeed", !.who = who, !.feed = f, !.provs = ps])
       \/ \E tf \in EditTFs : Step([NoEv EXCEPT !.name = "EditFeed", !.who = who, !.feed = f,
                                                !.timeout = tf[1], !.freq = tf[2]])
       \/ \E cap \in EditCaps : Step([NoEv EXCEPT !.name = "EditFeed", !.who = who, !.feed = f, !.cap = cap])
Respond ==
  /\ st.inb
  /\ \E who \in Provs, f \in DOMAIN st.feeds :
       \/ \E x \in Xs : Step([NoEv EXCEPT !.name = "Respond", !.who = who, !.feed = f, !.kind = "val", !.x = x])
       \/ Step([NoEv EXCEPT !.name = "Respond", !.who = who, !.feed = f, !.kind = "err"])

SvcDirect ==
  st.inb /\ \E who \in Users, f \in DOMAIN st.feeds, k \in {"pause", "start", "kill"} :
    Step([NoEv EXCEPT !.name = "SvcDirect", !.who = who, !.feed = f, !.kind = k])

CallPrice ==
  /\ st.inb /\ gh.calls < MaxCalls
  /\ \E who \in Users, f \in FeedNames \cup {"nofeed"} :
       \* the id rank of a finished one-shot context never matters: take the least free one
       LET free == (1..(MaxFeeds + MaxCalls)) \ {st.ctx[c].rank : c \in DOMAIN st.ctx} IN
       Step([NoEv EXCEPT !.name = "CallPrice", !.who = who, !.feed = f, !.cap = 1, !.rank = SetMin(free)])
BindX ==
  /\ st.inb /\ gh.calls < MaxCalls
  /\ \E p \in Provs, x \in {1, 3}, dep \in {1, 5} :
       Step([NoEv EXCEPT !.name = "BindX", !.who = p, !.x = x, !.cap = dep])
Send ==
  /\ st.inb /\ gh.calls < MaxCalls
  /\ \E who \in Users : \E to \in Users \ {who}, a \in Sends :
       Step([NoEv EXCEPT !.name = "Send", !.who = who, !.feed = to, !.x = a])

Next == BeginBlock \/ EndBlock \/ CreateFeed \/ StartFeed \/ PauseFeed \/ EditFeed \/ Respond \/ SvcDirect
        \/ CallPrice \/ BindX \/ Send
Spec == Init /\ [][Next]_vars

Rejects(h) == Cardinality({i \in DOMAIN h : ~h[i].ok})
GenNext == Next /\ (ev'.ok \/ Rejects(hist) < 2)
GenSpec == Init /\ [][GenNext]_vars
GenDepth == atoi(IOEnv.GEN_DEPTH)

(***************************************************************************)
(* Probe generator (round 7, negative probing).  A behaviour first gets    *)
(* somewhere — accepted events only, among them answers written down in    *)
(* unusual ways and feeds with provider strings of the wrong kind (NextP)  *)
(* — and then ends with ProbeLen events that the specification REJECTS,    *)
(* aimed at the state reached and sent in the block of the last accepted   *)
(* messages: every feed command by the creator in the wrong state, by      *)
(* another user, by a provider; answers by users, by providers that were   *)
(* not asked or have answered, answers that ValidateBasic must refuse;     *)
(* commands on names of the wrong kind (another case, a prefix, a longer   *)
(* name, a context id); feeds that must not be created.  The replay's      *)
(* epilogue is computed from the REAL chain state (the feeds the chain     *)
(* has): each is restarted by its recorded creator, every request the      *)
(* chain holds is answered, the batches run out — so whatever the code     *)
(* wrongly accepted is followed up and judged by the clauses.              *)
(***************************************************************************)
ValuePays == {"exp", "zeros", "str", "dupfirst", "dupbody", "extra", "ridlower"}
RefusedPays == {"emptyout", "badresult", "nohdr", "ridshort"}
OddNames == {"FA", "f", "fa/1", "c1", "Btc-stake", "1fa"}
Everybody == Users \cup Provs

(* (the families are kept small: in simulation mode TLC enumerates every successor) *)
X1 == CHOOSE x \in Xs : x # 0
U1 == CHOOSE u \in Users : TRUE
P1 == CHOOSE p \in Provs : TRUE
RespondPay ==
  /\ st.inb
  /\ \E who \in Provs, f \in DOMAIN st.feeds :
       \/ \E x \in Xs, pay \in ValuePays :
            Step([NoEv EXCEPT !.name = "Respond", !.who = who, !.feed = f, !.kind = "val", !.x = x, !.pay = pay])
       \/ \E pay \in ZeroPays \cup {"true"} :
            Step([NoEv EXCEPT !.name = "Respond", !.who = who, !.feed = f, !.kind = "val", !.x = X1, !.pay = pay])
RespondNaN ==
  /\ st.inb
  /\ \E who \in Provs, f \in DOMAIN st.feeds :
       /\ st.feeds[f].agg \in {"max", "min"} /\ st.feeds[f].ctx \in DOMAIN st.ctx
       /\ \E q \in DOMAIN st.ctx[st.feeds[f].ctx].reqs : q # who /\ st.ctx[st.feeds[f].ctx].reqs[q].kind = "val"
       /\ Step([NoEv EXCEPT !.name = "Respond", !.who = who, !.feed = f, !.kind = "val", !.x = X1, !.pay = "nan"])
NextP == Next \/ RespondPay \/ RespondNaN

OddFeed ==
  /\ st.inb
  /\ \E who \in {U1, P1}, f \in OddNames \ DOMAIN st.feeds :
       \/ \E nm \in {"StartFeed", "PauseFeed"} : Step([NoEv EXCEPT !.name = nm, !.who = who, !.feed = f])
       \/ Step([NoEv EXCEPT !.name = "EditFeed", !.who = who, !.feed = f, !.lh = 1])
       \/ Step([NoEv EXCEPT !.name = "Respond", !.who = who, !.feed = f, !.kind = "val", !.x = X1])
       \/ \E k \in {"pause", "start", "kill"} : Step([NoEv EXCEPT !.name = "SvcDirect", !.who = who, !.feed = f, !.kind = k])
StrangerOps ==
  /\ st.inb
  /\ \E f \in DOMAIN st.feeds :
       \/ \E who \in Provs, nm \in {"StartFeed", "PauseFeed"} : Step([NoEv EXCEPT !.name = nm, !.who = who, !.feed = f])
       \/ \E who \in Provs, lh \in Limits : Step([NoEv EXCEPT !.name = "EditFeed", !.who = who, !.feed = f, !.lh = lh])
       \/ \E who \in Provs : Step([NoEv EXCEPT !.name = "EditFeed", !.who = who, !.feed = f, !.provs = <<who>>])
       \/ \E who \in Users, x \in Xs : Step([NoEv EXCEPT !.name = "Respond", !.who = who, !.feed = f, !.kind = "val", !.x = x])
       \/ \E who \in Users : Step([NoEv EXCEPT !.name = "Respond", !.who = who, !.feed = f, !.kind = "err"])
OddAnswer ==
  /\ st.inb
  /\ \E who \in Provs, f \in DOMAIN st.feeds :
       \/ \E pay \in RefusedPays :
            Step([NoEv EXCEPT !.name = "Respond", !.who = who, !.feed = f, !.kind = "val", !.x = X1, !.pay = pay])
       \/ \E pay \in {"errout", "ridshort"} :
            Step([NoEv EXCEPT !.name = "Respond", !.who = who, !.feed = f, !.kind = "err", !.pay = pay])
OddCreate ==
  /\ st.inb
  /\ LET agg == CHOOSE a \in Aggs : TRUE
         cap == CHOOSE c \in Caps : TRUE
         fr == CHOOSE x \in Freqs : TRUE
         fn == CHOOSE f \in FeedNames : f \notin DOMAIN st.feeds
         Ev(who, f) == [NoEv EXCEPT !.name = "CreateFeed", !.who = who, !.feed = f, !.agg = agg, !.lh = 1,
                                   !.provs = <<P1>>, !.thr = 1, !.cap = cap, !.timeout = 1, !.freq = fr]
     IN \E who \in Users :
       \/ \E f \in BadFeedNames \cup DOMAIN st.feeds : Step(Ev(who, f))
       \/ \E pay \in CapPays \cup SvcPays : Step([Ev(who, fn) EXCEPT !.pay = pay])
       \/ Step([Ev(who, fn) EXCEPT !.agg = "MAX"])
       \/ \E qs \in {<<"p1", "?upper">>, <<"?garbage", "?valoper">>, <<"p1", "p1">>} : Step([Ev(who, fn) EXCEPT !.provs = qs])
       \/ Step([Ev(who, fn) EXCEPT !.agg = "sum"])
       \/ \E lh \in {0, 101} : Step([Ev(who, fn) EXCEPT !.lh = lh])
       \/ \E thr \in {0, 9} : Step([Ev(who, fn) EXCEPT !.thr = thr])
       \/ Step([Ev(who, fn) EXCEPT !.cap = 0])
       \/ Step([Ev(who, fn) EXCEPT !.timeout = 0])
       \/ Step([Ev(who, fn) EXCEPT !.timeout = MaxTimeout + 1, !.freq = MaxTimeout + 1])
       \/ Step([Ev(who, fn) EXCEPT !.timeout = 2, !.freq = 1])
OddEdit ==
  /\ st.inb
  /\ \E f \in DOMAIN st.feeds :
       LET who == st.feeds[f].creator
           cap == CHOOSE c \in Caps : TRUE IN
       \/ \E pay \in CapPays : Step([NoEv EXCEPT !.name = "EditFeed", !.who = who, !.feed = f, !.cap = cap, !.pay = pay])
       \/ \E qs \in {<<"p1", "?upper">>, <<"?garbage", "?valoper">>, <<"p1", "p1">>} :
            Step([NoEv EXCEPT !.name = "EditFeed", !.who = who, !.feed = f, !.provs = qs])
       \/ Step([NoEv EXCEPT !.name = "EditFeed", !.who = who, !.feed = f, !.lh = 101])
       \/ Step([NoEv EXCEPT !.name = "EditFeed", !.who = who, !.feed = f, !.thr = 9])
       \/ Step([NoEv EXCEPT !.name = "EditFeed", !.who = who, !.feed = f, !.timeout = MaxTimeout + 1, !.freq = MaxTimeout + 1])
OddCall ==
  /\ st.inb
  /\ \E who \in Users, f \in FeedNames : Step([NoEv EXCEPT !.name = "CallPrice", !.who = who, !.feed = f, !.cap = 0])

ProbeLen == 4
InProbe == Len(hist) + ProbeLen >= GenDepth
ProbeNext == StartFeed \/ PauseFeed \/ EditFeed \/ Respond \/ SvcDirect \/ BindX
             \/ OddFeed \/ StrangerOps \/ OddAnswer \/ OddCreate \/ OddEdit \/ OddCall
(* at most ProbeBurst messages per block on the way, so that the behaviour gets deep *)
ProbeBurst == 3
RECURSIVE SinceBegin(_)
SinceBegin(h) == IF h = <<>> \/ h[Len(h)].name = "BeginBlock" THEN 0 ELSE 1 + SinceBegin(SubSeq(h, 1, Len(h) - 1))
GenNextP ==
  \/ (~InProbe /\ NextP /\ ev'.ok /\ (ev'.name \in {"BeginBlock", "EndBlock"} \/ SinceBegin(hist) < ProbeBurst))
  \/ (InProbe /\ ~st.inb /\ BeginBlock)
  \/ (InProbe /\ ProbeNext /\ ~ev'.ok)
GenSpecP == Init /\ [][GenNextP]_vars
GenConstraint ==
  /\ Len(hist) <= GenDepth
  /\ (Len(hist) = GenDepth) => PrintT(<<"BEHAVIOUR", ToJson(hist)>>)

-----------------------------------------------------------------------------
Inv_C17_StateMirror == C17_StateMirror(st)
Inv_Conserved == TotalOf(st.bal, D) = Cardinality(Users) * Funds + 40 * Cardinality(Provs)
Act_C17_Append == [][C17_Append(st, ev', st')]_vars
Act_C17_Aggregate == [][C17_Aggregate(st, ev', st')]_vars
Act_C17_History == [][C17_History(st, ev', st')]_vars
Act_C17_Authority == [][C17_Authority(st, ev')]_vars
Act_C17_AppendH == [][C17_AppendH(gh, st, ev', st')]_vars
Act_C17_AggregateH == [][C17_AggregateH(gh, st, ev', st')]_vars
Act_C17_HistoryH == [][C17_HistoryH(gh, st, ev', st')]_vars
Act_C17_StateMirrorH == [][C17_StateMirrorH(gh', ev', st')]_vars
Act_C17_AuthorityH == [][C17_AuthorityH(gh, ev')]_vars
Act_Rejected_NoEffect == [][Rejected_NoEffect(st, ev', st')]_vars
Act_X17_PriceService == [][X17_PriceService(st, ev')]_vars
Act_X17_RateGate == [][X17_RateGate(st, ev', st')]_vars
Act_X17_EditApplied == [][X17_EditApplied(st, ev', st')]_vars
Act_X17_EditRejects == [][X17_EditRejects(st, ev')]_vars
Act_X17_Restart == [][X17_Restart(st, ev', st')]_vars

View == <<st, gh>>
=============================================================================
