SPECIFICATION GenSpec
CONSTANTS
  RecordHist = TRUE
  TestMods = {"coinswap", "farm", "htlc", "service", "token"}
  KCoinswap = 2
  KFarm = 3
  KHtlc = 1
  KService = 1
  KToken = 2
CONSTRAINT GenConstraint
CHECK_DEADLOCK FALSE
