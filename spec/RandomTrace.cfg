SPECIFICATION TraceSpec
CONSTANTS
  Users = {}
  Provs = {}
  RecordHist = FALSE
  MaxH = 0
  MaxReq = 0
  Intervals = {}
  Caps = {}
  Bound = {}
  Price = 0
  Funds = 0
  Timeout = 1
  TaxNum = 0
  TaxDen = 1
  Kinds = {}
  MaxZH = 0
INVARIANTS
  Monitor
  Coverage
  Report
  DriftReport
POSTCONDITION TraceAccepted
CHECK_DEADLOCK FALSE
ALIAS Alias
