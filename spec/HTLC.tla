-------------------------------- MODULE HTLC --------------------------------
(***************************************************************************)
(* irismod/modules/htlc — hash-time-locked contracts and cross-chain       *)
(* transfers (HTLT) with per-asset supply accounting.                      *)
(*                                                                         *)
(* Transcribed branch by branch from                                       *)
(*   types/msgs.go, types/validation.go   (ValidateBasic),                 *)
(*   keeper/msg_server.go                 (blocked recipient),             *)
(*   keeper/htlc.go   (CreateHTLC/createHTLT, ClaimHTLC/claimHTLT,         *)
(*                     RefundHTLC/refundHTLT, expiry queue),               *)
(*   keeper/asset.go  (Increment/Decrement{Incoming,Outgoing,Current},     *)
(*                     UpdateTimeBasedSupplyLimits),                       *)
(*   keeper/params.go, types/params.go (asset params, Validate),           *)
(*   abci.go          (BeginBlocker: refund everything queued at the       *)
(*                     current height, errors discarded, then windows).    *)
(*                                                                         *)
(* Hashing is outside TLA+ (DESIGN.md C03).  A contract is created from an *)
(* abstract secret name `sec`, the timestamp `lts` that went into the hash *)
(* lock (0 = none) and the timestamp `ts` carried by the message.  The     *)
(* code recomputes sha256(secret || be64(ts)) (sha256(secret) if ts = 0)   *)
(* at claim time, so a presented secret p opens the contract iff           *)
(* p = sec /\ lts = ts.  The id is sha256(hashlock||sender||to||amount):   *)
(* the duplicate check is tuple equality on (sender, to, amt, sec, lts);   *)
(* ids themselves are opaque names supplied with the event.                *)
(*                                                                         *)
(* Heights and times are the real ones (seconds since genesis).  The       *)
(* message-level time-lock range [minLock, maxLock] is part of the state   *)
(* (50 / 34560 on chain, 1 / small in the exhaustive configs — DESIGN 4.2  *)
(* height compression); a `Skip` event stands for n consecutive empty      *)
(* blocks and is specified as the n-fold BeginBlock.                       *)
(***************************************************************************)
EXTENDS Integers, Sequences, FiniteSets, TLC, Util, Json, IOUtils

CONSTANTS RecordHist     \* BOOLEAN: keep the event history (generator configs)

VARIABLES st, ev, gh, hist
vars == <<st, ev, gh, hist>>

MOD == "htlc"            \* the htlc module account (escrow; minter/burner)
TSOFF == 10000           \* logged timestamp = real - genesis + TSOFF; 0 = none
PastLimit == 900         \* createHTLT: timestamp in [now - 15 min, now + 30 min)
FutureLimit == 1800
MaxTimeLockC == 34560    \* types.MaxTimeLock (params validation)

NoEv == [name |-> "Init", who |-> "", id |-> "", to |-> "", amt |-> EmptyF,
         sec |-> "", lts |-> 0, ts |-> 0, lock |-> 0, transfer |-> FALSE,
         dt |-> 0, n |-> 0, params |-> EmptyF,
         ok |-> TRUE, panic |-> FALSE, halt |-> FALSE, form |-> ""]

BlockEvents == {"BeginBlock", "Skip"}
MsgEvents == {"Create", "Claim", "UpdateParams"}

-----------------------------------------------------------------------------
(* Results: why = reason for a rejection (diagnostics, known-finding keys) *)
FailW(s, w) == [ok |-> FALSE, panic |-> FALSE, st |-> s, why |-> w]
Done(s) == [ok |-> TRUE, panic |-> FALSE, st |-> s, why |-> ""]

OnlyDenom(amt) == CHOOSE d \in DOMAIN amt : TRUE
ValidAmt(amt) == DOMAIN amt # {} /\ \A d \in DOMAIN amt : amt[d] > 0
KnownDenoms(s, amt) == DOMAIN amt \subseteq DOMAIN s.supply

(* bank *)
Mint(s, to, coins) == [s EXCEPT !.bal = Credit(s.bal, to, coins),
                                !.supply = AddSupply(s.supply, coins)]
Burn(s, from, coins) == [s EXCEPT !.bal = Debit(s.bal, from, coins),
                                  !.supply = SubSupply(s.supply, coins)]

(* types/htlc.go GetHashLock + ClaimHTLC comparison *)
RightSecret(c, p) == p = c.sec /\ c.lts = c.ts

-----------------------------------------------------------------------------
(* keeper/asset.go *)
HasSup(s, d) == d \in DOMAIN s.sup
HasAsset(s, d) == d \in DOMAIN s.params

IncIncoming(s, d, a) ==
  IF ~HasSup(s, d) THEN FailW(s, "no_supply")
  ELSE IF ~HasAsset(s, d) THEN FailW(s, "no_asset")
  ELSE LET su == s.sup[d]
           p == s.params[d] IN
    IF p.limit < su.cur + su.inc + a THEN FailW(s, "limit")
    ELSE IF p.timeLimited /\ p.tbl < su.tl + su.inc + a THEN FailW(s, "time_limit")
    ELSE Done([s EXCEPT !.sup[d].inc = @ + a])

DecIncoming(s, d, a) ==
  IF ~HasSup(s, d) THEN FailW(s, "no_supply")
  ELSE IF s.sup[d].inc - a < 0 THEN FailW(s, "incoming_negative")
  ELSE Done([s EXCEPT !.sup[d].inc = @ - a])

IncOutgoing(s, d, a) ==
  IF ~HasSup(s, d) THEN FailW(s, "no_supply")
  ELSE IF s.sup[d].cur < s.sup[d].out + a THEN FailW(s, "available")
  ELSE Done([s EXCEPT !.sup[d].out = @ + a])

DecOutgoing(s, d, a) ==
  IF ~HasSup(s, d) THEN FailW(s, "no_supply")
  ELSE IF s.sup[d].out - a < 0 THEN FailW(s, "outgoing_negative")
  ELSE Done([s EXCEPT !.sup[d].out = @ - a])

IncCurrent(s, d, a) ==
  IF ~HasSup(s, d) THEN FailW(s, "no_supply")
  ELSE IF ~HasAsset(s, d) THEN FailW(s, "no_asset")
  ELSE LET su == s.sup[d]
           p == s.params[d] IN
    IF p.limit < su.cur + a THEN FailW(s, "limit")
    ELSE IF p.timeLimited /\ p.tbl < su.tl + a THEN FailW(s, "time_limit")
    ELSE Done([s EXCEPT !.sup[d].cur = @ + a,
                        !.sup[d].tl = IF p.timeLimited THEN @ + a ELSE @])

DecCurrent(s, d, a) ==
  IF ~HasSup(s, d) THEN FailW(s, "no_supply")
  ELSE IF s.sup[d].cur - a < 0 THEN FailW(s, "current_negative")
  ELSE Done([s EXCEPT !.sup[d].cur = @ - a])

ZeroSup == [inc |-> 0, out |-> 0, cur |-> 0, tl |-> 0, elapsed |-> 0]

(* asset.go UpdateTimeBasedSupplyLimits, one asset: p = params, su = supply
   record, te = time since the previous block.  A pure rule, also quoted by
   C04_Window. *)
WinStep(p, su, te) ==
  LET ne == su.elapsed + te IN
  IF p.timeLimited /\ ne < p.period
  THEN [su EXCEPT !.elapsed = ne]
  ELSE [su EXCEPT !.elapsed = 0, !.tl = 0]

UpdateWindows(s) ==
  IF DOMAIN s.params = {} THEN s        \* GetAssets: not found -> return
  ELSE
    LET te == s.now - s.prev IN
    [s EXCEPT !.sup = [d \in (DOMAIN s.sup) \cup (DOMAIN s.params) |->
                         IF d \in DOMAIN s.params
                         THEN WinStep(s.params[d], Get(s.sup, d, ZeroSup), te)
                         ELSE s.sup[d]],
              !.prev = s.now]

-----------------------------------------------------------------------------
(* msgs.go ValidateBasic + msg_server.go + keeper/htlc.go CreateHTLC *)
SameTuple(c, e) ==
  c.sender = e.who /\ c.to = e.to /\ c.amt = e.amt /\ c.sec = e.sec /\ c.lts = e.lts

TsValid(s, ts) ==
  ts # 0 /\ ts - TSOFF >= s.now - PastLimit /\ ts - TSOFF < s.now + FutureLimit

CreatePlain(s, e) ==
  IF ~KnownDenoms(s, e.amt) \/ ~CanPay(s.bal, e.who, e.amt) THEN FailW(s, "funds")
  ELSE [ok |-> TRUE, panic |-> FALSE, why |-> "", dir |-> "none",
        st |-> [s EXCEPT !.bal = Move(s.bal, e.who, MOD, e.amt)]]

CreateHTLT(s, e) ==
  LET d == OnlyDenom(e.amt)
      a == e.amt[d]
      F(w) == [ok |-> FALSE, panic |-> FALSE, why |-> w, dir |-> "none", st |-> s]
  IN
  IF ~HasAsset(s, d) THEN F("no_asset")
  ELSE LET p == s.params[d] IN
    IF ~p.active THEN F("inactive")
    ELSE IF a < p.minAmt \/ a > p.maxAmt THEN F("amount_range")
    ELSE IF ~TsValid(s, e.ts) THEN F("timestamp")
    ELSE IF e.who = p.deputy /\ e.to = p.deputy THEN F("deputy_both")
    ELSE IF e.who # p.deputy /\ e.to # p.deputy THEN F("deputy_missing")
    ELSE IF e.who = p.deputy THEN
      \* incoming: nothing is escrowed, only the counter moves
      LET r == IncIncoming(s, d, a) IN
      IF ~r.ok THEN F(r.why)
      ELSE [ok |-> TRUE, panic |-> FALSE, why |-> "", dir |-> "in", st |-> r.st]
    ELSE
      \* outgoing
      IF e.lock < p.minLock \/ e.lock > p.maxLock THEN F("asset_lock_range")
      ELSE IF a < p.fee + p.minAmt THEN F("below_fee")
      ELSE LET r == IncOutgoing(s, d, a) IN
        IF ~r.ok THEN F(r.why)
        ELSE IF ~KnownDenoms(s, e.amt) \/ ~CanPay(r.st.bal, e.who, e.amt) THEN F("funds")
        ELSE [ok |-> TRUE, panic |-> FALSE, why |-> "", dir |-> "out",
              st |-> [r.st EXCEPT !.bal = Move(r.st.bal, e.who, MOD, e.amt)]]

DoCreate(s, e) ==
  IF ~ValidAmt(e.amt) \/ (e.transfer /\ Cardinality(DOMAIN e.amt) # 1)
    THEN FailW(s, "basic_amount")
  ELSE IF e.lock < s.minLock \/ e.lock > s.maxLock THEN FailW(s, "basic_lock")
  ELSE IF e.to \in s.blocked THEN FailW(s, "blocked")
  ELSE IF \E i \in DOMAIN s.htlc : SameTuple(s.htlc[i], e) THEN FailW(s, "exists")
  ELSE
    LET r == IF e.transfer THEN CreateHTLT(s, e) ELSE CreatePlain(s, e) IN
    IF ~r.ok THEN FailW(s, r.why)
    ELSE
      LET exp == s.h + e.lock
          rec == [sender |-> e.who, to |-> e.to, amt |-> e.amt, state |-> "open",
                  expiry |-> exp, transfer |-> e.transfer, dir |-> r.dir,
                  sec |-> e.sec, lts |-> e.lts, ts |-> e.ts]
      IN Done([r.st EXCEPT !.htlc = Put(r.st.htlc, e.id, rec),
                           !.q = r.st.q \cup {<<exp, e.id>>}])

(* keeper/htlc.go ClaimHTLC *)
DoClaim(s, e) ==
  IF e.id \notin DOMAIN s.htlc THEN FailW(s, "unknown")
  ELSE
    LET c == s.htlc[e.id] IN
    IF c.state # "open" THEN FailW(s, "not_open")
    ELSE IF ~RightSecret(c, e.sec) THEN FailW(s, "secret")
    ELSE
      LET closed(x) == [x EXCEPT !.htlc[e.id].state = "completed",
                                 !.q = x.q \ {<<c.expiry, e.id>>}]
      IN
      IF ~c.transfer THEN
        IF c.to \in s.blocked \/ ~CanPay(s.bal, MOD, c.amt) THEN FailW(s, "escrow_short")
        ELSE Done(closed([s EXCEPT !.bal = Move(s.bal, MOD, c.to, c.amt)]))
      ELSE
        LET d == OnlyDenom(c.amt)
            a == c.amt[d] IN
        IF c.dir = "in" THEN
          LET r1 == DecIncoming(s, d, a) IN
          IF ~r1.ok THEN FailW(s, r1.why)
          ELSE LET r2 == IncCurrent(r1.st, d, a) IN
            IF ~r2.ok THEN FailW(s, r2.why)
            ELSE IF c.to \in s.blocked THEN FailW(s, "blocked")
            ELSE Done(closed([Mint(r2.st, MOD, c.amt) EXCEPT
                                !.bal = Move(Credit(r2.st.bal, MOD, c.amt), MOD, c.to, c.amt)]))
        ELSE IF c.dir = "out" THEN
          LET r1 == DecOutgoing(s, d, a) IN
          IF ~r1.ok THEN FailW(s, r1.why)
          ELSE LET r2 == DecCurrent(r1.st, d, a) IN
            IF ~r2.ok THEN FailW(s, r2.why)
            ELSE IF ~CanPay(r2.st.bal, MOD, c.amt) THEN FailW(s, "escrow_short")
            ELSE Done(closed(Burn(r2.st, MOD, c.amt)))
        ELSE FailW(s, "direction")

(* keeper/htlc.go RefundHTLC as called from the begin blocker: no state
   check, no cache context — the state reached when an error is returned
   stays.  Returns [ok, st]. *)
RefundOne(s, id) ==
  IF id \notin DOMAIN s.htlc THEN [ok |-> FALSE, st |-> s]     \* empty sender
  ELSE
    LET c == s.htlc[id]
        close(x) == [x EXCEPT !.htlc[id].state = "refunded"]
        pay(x) == IF c.sender \in x.blocked \/ ~CanPay(x.bal, MOD, c.amt)
                  THEN [ok |-> FALSE, st |-> x]
                  ELSE [ok |-> TRUE,
                        st |-> close([x EXCEPT !.bal = Move(x.bal, MOD, c.sender, c.amt)])]
    IN
    IF ~c.transfer THEN pay(s)
    ELSE
      LET d == OnlyDenom(c.amt)
          a == c.amt[d] IN
      IF c.dir = "in" THEN
        LET r == DecIncoming(s, d, a) IN
        IF ~r.ok THEN [ok |-> FALSE, st |-> s] ELSE [ok |-> TRUE, st |-> close(r.st)]
      ELSE IF c.dir = "out" THEN
        LET r == DecOutgoing(s, d, a) IN
        IF ~r.ok THEN [ok |-> FALSE, st |-> s] ELSE pay(r.st)
      ELSE [ok |-> FALSE, st |-> s]

(* abci.go BeginBlocker: every queue entry of the current height is refunded
   (error ignored) and deleted; refunds of distinct contracts commute unless
   the escrow is short, which C04_Escrow excludes. *)
RECURSIVE RefundAll(_, _)
RefundAll(s, ids) ==
  IF ids = {} THEN s
  ELSE LET id == CHOOSE x \in ids : TRUE
           r == RefundOne(s, id)
       IN RefundAll([r.st EXCEPT !.q = @ \ {<<s.h, id>>}], ids \ {id})

DueAt(s, h) == {x[2] : x \in {y \in s.q : y[1] = h}}

BeginBlockSt(s, dt) ==
  LET s0 == [s EXCEPT !.h = @ + 1, !.now = @ + dt, !.inBlock = TRUE]
      s1 == RefundAll(s0, DueAt(s0, s0.h))
  IN UpdateWindows(s1)

DoBeginBlock(s, dt) == Done(BeginBlockSt(s, dt))

(* the module has no end blocker; the event marks the block boundary *)
DoEndBlock(s) == Done([s EXCEPT !.inBlock = FALSE])

RECURSIVE SkipSt(_, _, _)
SkipSt(s, n, dt) ==
  IF n <= 0 THEN s
  ELSE SkipSt([BeginBlockSt(s, dt) EXCEPT !.inBlock = FALSE], n - 1, dt)

DoSkip(s, n, dt) == Done(SkipSt(s, n, dt))

(* types/params.go Validate (denoms and addresses are valid by construction
   of the drivers) + keeper SetParams *)
ValidParams(s, ps) ==
  \A d \in DOMAIN ps :
    LET p == ps[d] IN
    /\ p.limit >= 0 /\ p.tbl >= 0 /\ p.tbl <= p.limit
    /\ p.fee >= 0
    /\ p.minLock >= s.minLock /\ p.maxLock <= MaxTimeLockC /\ p.minLock <= p.maxLock
    /\ p.minAmt > 0 /\ p.maxAmt > 0 /\ p.minAmt <= p.maxAmt

DoUpdateParams(s, ps) ==
  IF ~ValidParams(s, ps) THEN FailW(s, "invalid_params")
  ELSE Done([s EXCEPT !.params = ps])

(***************************************************************************)
(* Fault injection (driver cfg fault=1, default off; never part of a       *)
(* registered check).  The errors the begin blocker discards cannot arise  *)
(* through transactions on the code as it stands (Act_RefundNeverFails);   *)
(* to bind the transcription of those paths to the code all the same, the  *)
(* harness can damage the committed state between two blocks the way a     *)
(* defect elsewhere might:                                                  *)
(*   drain    e.amt leaves the escrow for e.who (a later refund / claim    *)
(*            finds the escrow short: SendCoins fails after the supply     *)
(*            counter was already decremented)                              *)
(*   dropsup  the supply records of the denoms of e.amt disappear          *)
(*            (Decrement*AssetSupply fails first: nothing changes)         *)
(*   ghostq   a queue entry <<e.lock, e.id>> without a contract (GetHTLC   *)
(*            finds nothing, RefundHTLC fails on the empty sender)         *)
(* In every case the begin blocker swallows the error and deletes the      *)
(* queue entry: the contract stays open for ever -- RefundOne / RefundAll  *)
(* above say exactly that, and strict mode checks it (drift 0).            *)
(***************************************************************************)
DoFault(s, e) ==
  CASE e.form = "drain" ->
         IF e.who \in DOMAIN s.bal /\ KnownDenoms(s, e.amt) /\ CanPay(s.bal, MOD, e.amt)
         THEN Done([s EXCEPT !.bal = Move(s.bal, MOD, e.who, e.amt)])
         ELSE FailW(s, "fault_funds")
    [] e.form = "dropsup" ->
         Done([s EXCEPT !.sup = [d \in (DOMAIN s.sup) \ (DOMAIN e.amt) |-> s.sup[d]]])
    [] e.form = "ghostq" -> Done([s EXCEPT !.q = @ \cup {<<e.lock, e.id>>}])
    [] OTHER -> FailW(s, "unknown_fault")

(* Dispatch on an event record: the deterministic step function *)
Apply(s, e) ==
  CASE e.name = "Create"       -> DoCreate(s, e)
    [] e.name = "Claim"        -> DoClaim(s, e)
    [] e.name = "BeginBlock"   -> DoBeginBlock(s, e.dt)
    [] e.name = "EndBlock"     -> DoEndBlock(s)
    [] e.name = "Skip"         -> DoSkip(s, e.n, e.dt)
    [] e.name = "UpdateParams" -> DoUpdateParams(s, e.params)
    [] e.name = "Fault"        -> DoFault(s, e)
    [] OTHER -> FailW(s, "unknown_event")

-----------------------------------------------------------------------------
(***************************************************************************)
(* Observations shared by ghosts and clauses — functions of the OBSERVED   *)
(* pre-state s, event e (with result) and post-state t only.               *)
(***************************************************************************)
Ids(t) == DOMAIN t.htlc
Accts(t) == DOMAIN t.bal
DenomsOf(t) == DOMAIN t.supply
AmtOf(c, d) == Amt(c.amt, d)
Escrowed(c) == c.dir # "in"        \* plain and outgoing contracts hold coins

(* sum over contracts satisfying P of their amount of denom d *)
SumAmt(t, P(_), d) ==
  SumOver([i \in Ids(t) |-> IF P(t.htlc[i]) THEN AmtOf(t.htlc[i], d) ELSE 0], Ids(t))

(* contracts whose state was seen to change in the step *)
ClosedIn(s, t, to) ==
  {i \in Ids(s) \cap Ids(t) : s.htlc[i].state = "open" /\ t.htlc[i].state = to}
CreatedIn(s, t) == Ids(t) \ Ids(s)

(* queue entries that disappeared / heights a block event covered *)
Dequeued(s, t) == s.q \ t.q
Covered(s, t) == (s.h + 1)..t.h

(* window reset seen for asset d in a block event: the counter did not
   simply accumulate the elapsed time *)
ResetSeen(s, t, d) ==
  d \in DOMAIN s.sup /\ d \in DOMAIN t.sup
  /\ \/ t.sup[d].elapsed # s.sup[d].elapsed + (t.now - s.prev)
     \/ t.sup[d].tl < s.sup[d].tl      \* equal block times: only the counter shows the reset

ParamsSame(s, t, d) ==
  d \in DOMAIN s.params /\ d \in DOMAIN t.params /\ s.params[d] = t.params[d]

-----------------------------------------------------------------------------
(***************************************************************************)
(* Ghost state (history-determined, from observations only):               *)
(*   out[id]     none | toRecipient | toSender | twice                      *)
(*   done[id]    number of begin-block processings of id's queue entry     *)
(*   doneAt[id]  height of the last one                                    *)
(*   escIn/escOut[d]   cumulative escrow inflow / outflow                  *)
(*   minted/burned[d]  cumulative bank-supply increase / decrease          *)
(*   epoch       number of successful UpdateParams                         *)
(*   windowSum[d]  incoming claims completed since the last seen reset     *)
(*   stranded[d]   coins left in escrow by successful claims of ordinary   *)
(*                 contracts whose recipient is the module account itself  *)
(*                 (known finding H1 / F28: the "payment" is escrow ->     *)
(*                 escrow); only used by the _ModH1 clause variants         *)
(***************************************************************************)
GhostInit == [out |-> EmptyF, done |-> EmptyF, doneAt |-> EmptyF,
              escIn |-> EmptyF, escOut |-> EmptyF, minted |-> EmptyF, burned |-> EmptyF,
              epoch |-> 0, windowSum |-> EmptyF, stranded |-> EmptyF, made |-> EmptyF]

GhostStep(g, s, e, t) ==
  LET old(f, k, dflt) == IF k \in DOMAIN f THEN f[k] ELSE dflt
      claimed == IF e.name = "Claim" /\ e.ok /\ e.id \in Ids(t) THEN {e.id} ELSE {}
      refunded == ClosedIn(s, t, "refunded")
      outcome(i) == IF i \in claimed THEN "toRecipient"
                    ELSE IF i \in refunded THEN "toSender" ELSE "none"
      processed == IF e.name \in BlockEvents
                   THEN {x \in Dequeued(s, t) : x[1] \in Covered(s, t)} ELSE {}
      procIds == {x[2] : x \in processed}
      dE(d) == t.bal[MOD][d] - s.bal[MOD][d]
      dS(d) == t.supply[d] - s.supply[d]
      claimIn(d) == IF e.name = "Claim" /\ e.ok /\ e.id \in Ids(s)
                       /\ s.htlc[e.id].dir = "in" THEN AmtOf(s.htlc[e.id], d) ELSE 0
  IN
  [out |-> [i \in Ids(t) |->
              LET o == old(g.out, i, "none") IN
              IF outcome(i) = "none" THEN o
              ELSE IF o = "none" THEN outcome(i) ELSE "twice"],
   done |-> [i \in Ids(t) \cup procIds |->
               old(g.done, i, 0) + Cardinality({x \in processed : x[2] = i})],
   doneAt |-> [i \in Ids(t) \cup procIds |->
                 IF i \in procIds THEN (CHOOSE x \in processed : x[2] = i)[1]
                 ELSE old(g.doneAt, i, 0)],
   escIn |-> [d \in DenomsOf(t) |-> old(g.escIn, d, 0) + (IF dE(d) > 0 THEN dE(d) ELSE 0)],
   escOut |-> [d \in DenomsOf(t) |-> old(g.escOut, d, 0) + (IF dE(d) < 0 THEN 0 - dE(d) ELSE 0)],
   minted |-> [d \in DenomsOf(t) |-> old(g.minted, d, 0) + (IF dS(d) > 0 THEN dS(d) ELSE 0)],
   burned |-> [d \in DenomsOf(t) |-> old(g.burned, d, 0) + (IF dS(d) < 0 THEN 0 - dS(d) ELSE 0)],
   epoch |-> g.epoch + (IF e.name = "UpdateParams" /\ e.ok THEN 1 ELSE 0),
   stranded |-> [d \in DenomsOf(t) |->
                   old(g.stranded, d, 0)
                   + (IF e.name = "Claim" /\ e.ok /\ e.id \in Ids(s)
                         /\ ~s.htlc[e.id].transfer /\ s.htlc[e.id].to = MOD
                      THEN AmtOf(s.htlc[e.id], d) ELSE 0)],
   \* made[id]: the accepted Create messages as they HAPPENED (height of acceptance, time
   \* lock, parties, amount, secret binding) - the ledger the history twins of the clauses
   \* below are judged from, instead of the module's own record / queue of the contract
   made |-> LET new == IF e.name = "Create" /\ e.ok THEN {e.id} ELSE {} IN
            [i \in DOMAIN g.made \cup new |->
               IF i \in DOMAIN g.made THEN g.made[i]
               ELSE [h |-> s.h, lock |-> e.lock, who |-> e.who, to |-> e.to, amt |-> e.amt,
                     sec |-> e.sec, lts |-> e.lts, ts |-> e.ts, transfer |-> e.transfer]],
   windowSum |-> [d \in DOMAIN t.sup |->
                    IF e.name = "UpdateParams" /\ e.ok /\ ~ParamsSame(s, t, d)
                      THEN t.sup[d].tl                       \* re-based with the new parameters
                    ELSE IF e.name \in BlockEvents /\ ResetSeen(s, t, d) THEN 0
                    ELSE IF d \notin DOMAIN s.sup THEN 0
                    ELSE old(g.windowSum, d, 0)
                         + (IF d \in DOMAIN t.params /\ t.params[d].timeLimited
                            THEN claimIn(d) ELSE 0)]]

-----------------------------------------------------------------------------
(***************************************************************************)
(* Property clauses.  State clauses take (t) or (t, g); step clauses take  *)
(* (s, e, t): pre-state, event with result, post-state.                    *)
(***************************************************************************)

(* bal changes of the step are exactly `delta` (a function acct -> denom ->
   Int given as an operator) and the bank supply changes exactly by dsup *)
Frame(s, t, delta(_, _), dsup(_)) ==
  /\ \A a \in Accts(t) : \A d \in DenomsOf(t) : t.bal[a][d] - s.bal[a][d] = delta(a, d)
  /\ \A d \in DenomsOf(t) : t.supply[d] - s.supply[d] = dsup(d)

(* C03: the set of contracts only grows, new ones are open, the state moves
   only open -> completed | refunded, nothing else in a record ever changes *)
C03_StateOrder(s, t) ==
  /\ Ids(s) \subseteq Ids(t)
  /\ \A i \in CreatedIn(s, t) : t.htlc[i].state = "open"
  /\ \A i \in Ids(s) :
       /\ [t.htlc[i] EXCEPT !.state = "x"] = [s.htlc[i] EXCEPT !.state = "x"]
       /\ \/ t.htlc[i].state = s.htlc[i].state
          \/ s.htlc[i].state = "open" /\ t.htlc[i].state \in {"completed", "refunded"}

(* C03: a successful claim was on an open contract with the right secret and
   moved exactly what that kind of contract prescribes, to the recipient *)
C03_ClaimSound(s, e, t) ==
  (e.name = "Claim" /\ e.ok) =>
    /\ e.id \in Ids(s)
    /\ s.htlc[e.id].state = "open"
    /\ RightSecret(s.htlc[e.id], e.sec)
    /\ e.id \in Ids(t) /\ t.htlc[e.id].state = "completed"
    /\ LET c == s.htlc[e.id]
           plain(a, d) == (IF a = c.to THEN AmtOf(c, d) ELSE 0) - (IF a = MOD THEN AmtOf(c, d) ELSE 0)
           inc(a, d) == IF a = c.to THEN AmtOf(c, d) ELSE 0
           outg(a, d) == IF a = MOD THEN 0 - AmtOf(c, d) ELSE 0
           zero(d) == 0
           plus(d) == AmtOf(c, d)
           minus(d) == 0 - AmtOf(c, d)
       IN CASE ~c.transfer -> Frame(s, t, plain, zero)
            [] c.transfer /\ c.dir = "in" -> Frame(s, t, inc, plus)
            [] c.transfer /\ c.dir = "out" -> Frame(s, t, outg, minus)
            [] OTHER -> FALSE

(* C03: an open ordinary contract can always be claimed with its secret *)
C03_ClaimComplete(s, e) ==
  (e.name = "Claim" /\ e.id \in Ids(s) /\ s.htlc[e.id].state = "open"
     /\ ~s.htlc[e.id].transfer /\ RightSecret(s.htlc[e.id], e.sec))
  => e.ok

(* history twins (audit round 8).  DueOf: the expiration height of an accepted create =
   the height it was accepted at + the time lock it asked for.  NoOutcome: no accepted
   claim and no observed refund so far (g.out, from the history). *)
DueOf(m) == m.h + m.lock
NoOutcome(g, i) == Get(g.out, i, "none") = "none"

(* C03 "to the recipient iff a claim presents the preimage while the contract is still
   open", the if-direction judged from the history: the contract of an accepted create
   that nobody has claimed yet and whose expiration height is still ahead is claimable
   with its secret - whatever became of its record or its queue entry *)
C03_ClaimCompleteH(s, e, g) ==
  (e.name = "Claim" /\ ~e.ok /\ e.id \in DOMAIN g.made) =>
    LET m == g.made[e.id] IN
    ~(/\ ~m.transfer /\ e.sec = m.sec /\ m.lts = m.ts
      /\ NoOutcome(g, e.id) /\ s.h < DueOf(m))

(* C03 "otherwise back to the sender in the first block whose height equals the
   expiration height", judged from the history: once a block at or beyond the
   expiration height of an accepted create has begun, the contract has had its outcome
   (claimed before, or refunded); refunds are seen in the block of that height only *)
C03_RefundAtExpiryH(s, e, t, g) ==
  (e.name \in BlockEvents) =>
    /\ \A i \in DOMAIN g.made : (DueOf(g.made[i]) <= t.h) => ~NoOutcome(g, i)
    /\ \A i \in ClosedIn(s, t, "refunded") \cap DOMAIN g.made :
         /\ DueOf(g.made[i]) \in Covered(s, t)
         /\ (e.name = "BeginBlock") => DueOf(g.made[i]) = t.h

(* C13, judged from the history: every accepted create without an outcome has exactly
   one queue entry, at its due height *)
C13_QueueCompleteH(t, g) ==
  \A i \in DOMAIN g.made : NoOutcome(g, i) =>
    {x \in t.q : x[2] = i} = {<<DueOf(g.made[i]), i>>}

(* C03: wrong secret, second claim, claim after refund, duplicate create are
   rejected; a rejected message moves nothing *)
MustReject(s, e) ==
  \/ e.name = "Claim" /\ e.id \notin Ids(s)
  \/ e.name = "Claim" /\ e.id \in Ids(s)
       /\ (s.htlc[e.id].state # "open" \/ ~RightSecret(s.htlc[e.id], e.sec))
  \/ e.name = "Create" /\ \E i \in Ids(s) : SameTuple(s.htlc[i], e)

C03_RejectionsInert(s, e, t) ==
  /\ MustReject(s, e) => ~e.ok
  /\ (e.name \in MsgEvents /\ ~e.ok) => t = s

(* C03: refund exactly in the block whose height is the expiration height,
   to the sender; nobody else's balance moves in a block event *)
C03_RefundAtExpiry(s, e, t) ==
  LET R == ClosedIn(s, t, "refunded")
      RE == {i \in R : Escrowed(s.htlc[i])}
      delta(a, d) ==
        SumOver([i \in RE |-> IF s.htlc[i].sender = a THEN AmtOf(s.htlc[i], d) ELSE 0], RE)
        - (IF a = MOD THEN SumOver([i \in RE |-> AmtOf(s.htlc[i], d)], RE) ELSE 0)
      zero(d) == 0
  IN
  IF e.name \in BlockEvents
  THEN /\ \A i \in Ids(t) : t.htlc[i].state = "open" => t.htlc[i].expiry > t.h
       /\ \A i \in R : s.htlc[i].expiry \in Covered(s, t)
       /\ (e.name = "BeginBlock") => \A i \in R : s.htlc[i].expiry = t.h
       /\ Frame(s, t, delta, zero)
  ELSE R = {}

NoStranded(d) == 0

(* C03: one outcome per contract, matching its state; the escrow received
   every escrowed contract's amount once (from the sender, at creation) and
   released it once (when the contract closed) *)
ExactlyOnceX(s, e, t, g, str(_)) ==
  /\ \A i \in Ids(t) :
       LET o == Get(g.out, i, "none") IN
       /\ o # "twice"
       /\ (o = "none") <=> (t.htlc[i].state = "open")
       /\ (o = "toRecipient") <=> (t.htlc[i].state = "completed")
       /\ (o = "toSender") <=> (t.htlc[i].state = "refunded")
  /\ \A d \in DenomsOf(t) :
       LET held(c) == Escrowed(c)
           gone(c) == Escrowed(c) /\ c.state # "open" IN
       /\ Get(g.escIn, d, 0) = SumAmt(t, held, d)
       /\ Get(g.escOut, d, 0) + str(d) = SumAmt(t, gone, d)
  \* contracts come into being by accepted creates only, one per create (audit round 8)
  /\ CreatedIn(s, t) \subseteq (IF e.name = "Create" /\ e.ok THEN {e.id} ELSE {})
  /\ (e.name = "Create" /\ e.ok) =>
       /\ e.id \in CreatedIn(s, t)
       /\ LET c == t.htlc[e.id]
              delta(a, d) == IF ~Escrowed(c) THEN 0
                             ELSE (IF a = MOD THEN AmtOf(c, d) ELSE 0)
                                  - (IF a = c.sender THEN AmtOf(c, d) ELSE 0)
              zero(d) == 0
          IN /\ c.sender = e.who /\ c.to = e.to /\ c.amt = e.amt
             /\ Frame(s, t, delta, zero)
  /\ (e.name \in {"UpdateParams", "EndBlock"}) =>
       (t.bal = s.bal /\ t.supply = s.supply /\ t.htlc = s.htlc)

C03_ExactlyOnce(s, e, t, g) == ExactlyOnceX(s, e, t, g, NoStranded)
(* the same modulo known finding H1 (F28): what successful claims of contracts
   payable to the module account left behind counts as released *)
C03_ExactlyOnce_ModH1(s, e, t, g) ==
  LET str(d) == Get(g.stranded, d, 0) IN ExactlyOnceX(s, e, t, g, str)

(* C04: escrow = open ordinary contracts + open outgoing transfers *)
EscrowX(t, str(_)) ==
  \A d \in DenomsOf(t) :
    LET P(c) == c.state = "open" /\ Escrowed(c) IN
    t.bal[MOD][d] - str(d) = SumAmt(t, P, d)
C04_Escrow(t) == EscrowX(t, NoStranded)
C04_Escrow_ModH1(t, g) == LET str(d) == Get(g.stranded, d, 0) IN EscrowX(t, str)

(* C04: recorded incoming / outgoing = sums over open transfers *)
C04_InOut(t) ==
  \A d \in DOMAIN t.sup :
    LET I(c) == c.state = "open" /\ c.transfer /\ c.dir = "in"
        O(c) == c.state = "open" /\ c.transfer /\ c.dir = "out" IN
    /\ t.sup[d].inc = SumAmt(t, I, d)
    /\ t.sup[d].out = SumAmt(t, O, d)

(* C04: current = minted by completed incoming - burned by completed
   outgoing = the denom's whole bank supply *)
C04_Current(t, g) ==
  \A d \in DOMAIN t.sup :
    LET CI(c) == c.state = "completed" /\ c.transfer /\ c.dir = "in"
        CO(c) == c.state = "completed" /\ c.transfer /\ c.dir = "out" IN
    /\ t.sup[d].cur = Get(g.minted, d, 0) - Get(g.burned, d, 0)
    /\ t.sup[d].cur = t.supply[d]
    /\ Get(g.minted, d, 0) = SumAmt(t, CI, d)
    /\ Get(g.burned, d, 0) = SumAmt(t, CO, d)

(* C04: while the asset's parameters are unchanged, current + incoming stays
   within the limit and the amount completed in the running period within the
   time-based limit *)
LimitHolds(t, d) ==
  /\ t.sup[d].cur + t.sup[d].inc <= t.params[d].limit
  /\ t.params[d].timeLimited => t.sup[d].tl <= t.params[d].tbl

C04_Limit(s, t, g) ==
  \A d \in (DOMAIN t.params) \cap (DOMAIN t.sup) :
    /\ (g.epoch = 0) => LimitHolds(t, d)
    /\ (ParamsSame(s, t, d) /\ d \in DOMAIN s.sup /\ LimitHolds(s, d)) => LimitHolds(t, d)
    /\ t.params[d].timeLimited => t.sup[d].tl = Get(g.windowSum, d, 0)

(* C04: the limit window advances by the block-time difference and resets
   (with the time-limited counter) when it reaches the period *)
RECURSIVE WinFold(_, _, _, _)
WinFold(p, su, te, n) ==
  IF n <= 0 THEN su ELSE WinFold(p, WinStep(p, su, te), te, n - 1)

C04_Window(s, e, t) ==
  /\ (e.name = "BeginBlock" /\ DOMAIN s.params # {}) =>
       /\ t.prev = t.now
       /\ \A d \in (DOMAIN s.params) \cap (DOMAIN s.sup) :
            LET w == WinStep(s.params[d], s.sup[d], t.now - s.prev) IN
            d \in DOMAIN t.sup /\ t.sup[d].elapsed = w.elapsed /\ t.sup[d].tl = w.tl
  /\ (e.name = "Skip" /\ DOMAIN s.params # {} /\ e.n >= 1) =>
       /\ t.prev = t.now
       /\ \A d \in (DOMAIN s.params) \cap (DOMAIN s.sup) :
            LET w1 == WinStep(s.params[d], s.sup[d], (s.now + e.dt) - s.prev)
                w == WinFold(s.params[d], w1, e.dt, e.n - 1) IN
            d \in DOMAIN t.sup /\ t.sup[d].elapsed = w.elapsed /\ t.sup[d].tl = w.tl
  /\ (e.name \notin BlockEvents) =>
       /\ \A d \in (DOMAIN s.sup) \cap (DOMAIN t.sup) : t.sup[d].elapsed = s.sup[d].elapsed
       \* the recorded previous block time, which the window steps above start from, is
       \* the block time of the last begin block: no message moves it (audit round 8)
       /\ t.prev = s.prev

(* C13 (expiry queue) *)
C13_QueueSound(t) ==
  \A x \in t.q :
    x[2] \in Ids(t) /\ t.htlc[x[2]].state = "open" /\ t.htlc[x[2]].expiry = x[1]

C13_QueueComplete(t) ==
  \A i \in Ids(t) : t.htlc[i].state = "open" =>
    {x \in t.q : x[2] = i} = {<<t.htlc[i].expiry, i>>}

C13_OnceOnTime(s, e, t, g) ==
  /\ \A i \in DOMAIN g.done : g.done[i] <= 1
  /\ (e.name \in BlockEvents) =>
       /\ \A x \in t.q : x[1] > t.h
       /\ \A x \in Dequeued(s, t) : x[1] \in Covered(s, t)
       /\ \A i \in ClosedIn(s, t, "refunded") : i \in DOMAIN g.doneAt /\ g.doneAt[i] = s.htlc[i].expiry
       \* due height from the history (acceptance height + time lock), not from the record
       /\ \A i \in ClosedIn(s, t, "refunded") \cap DOMAIN g.made :
            i \in DOMAIN g.doneAt /\ g.doneAt[i] = DueOf(g.made[i])
       /\ \A i \in DOMAIN g.made : (DueOf(g.made[i]) <= t.h /\ Get(g.out, i, "none") # "toRecipient")
                                       => (i \in DOMAIN g.done /\ g.done[i] = 1)
  /\ (e.name \notin BlockEvents) =>
       Dequeued(s, t) \subseteq
         (IF e.name = "Claim" /\ e.ok /\ e.id \in Ids(s)
          THEN {<<s.htlc[e.id].expiry, e.id>>} ELSE {})

C13_NoHalt(e) == ~e.halt


-----------------------------------------------------------------------------
(***************************************************************************)
(* DIAGNOSTIC clauses (X..): behaviour the specification fixes beyond the  *)
(* text of C03 / C04 — asset life cycle, record contents, parameter        *)
(* updates, genesis operators.  Reported, never part of a verdict.         *)
(***************************************************************************)

(* what a successful create recorded: the message's fields, expiry = height
   + time lock, message-level admission (time-lock range, recipient) *)
X03_CreateRecord(s, e, t) ==
  (e.name = "Create" /\ e.ok) =>
    /\ e.lock >= s.minLock /\ e.lock <= s.maxLock
    /\ e.to \notin s.blocked
    /\ ValidAmt(e.amt)
    /\ e.id \in Ids(t)
    /\ LET c == t.htlc[e.id] IN
       /\ c.expiry = s.h + e.lock
       /\ c.transfer = e.transfer /\ c.ts = e.ts /\ c.sec = e.sec /\ c.lts = e.lts
       /\ (~e.transfer) => c.dir = "none"

(* asset life cycle at creation: supported, active, amount within the swap
   range, the deputy on exactly one side (which fixes the direction), and for
   outgoing transfers the asset's block-lock range and amount - fee >= minimum;
   all judged by the parameters in force when the message executes *)
X04_Admission(s, e, t) ==
  (e.name = "Create" /\ e.ok /\ e.transfer /\ e.id \in Ids(t)) =>
    LET d == OnlyDenom(e.amt)
        a == e.amt[d] IN
    /\ Cardinality(DOMAIN e.amt) = 1
    /\ d \in DOMAIN s.params
    /\ LET p == s.params[d] IN
       /\ p.active
       /\ a >= p.minAmt /\ a <= p.maxAmt
       /\ TsValid(s, e.ts)
       /\ \/ e.who = p.deputy /\ e.to # p.deputy /\ t.htlc[e.id].dir = "in"
          \/ /\ e.who # p.deputy /\ e.to = p.deputy /\ t.htlc[e.id].dir = "out"
             /\ e.lock >= p.minLock /\ e.lock <= p.maxLock
             /\ a - p.fee >= p.minAmt

(* transfers in flight are not affected by later changes of active, deputy,
   swap range, lock range or fee: an outgoing one can always be claimed, an
   incoming one whenever the asset is still supported and the limits admit it *)
X04_InFlight(s, e) ==
  (e.name = "Claim" /\ e.id \in Ids(s) /\ s.htlc[e.id].state = "open"
     /\ s.htlc[e.id].transfer /\ RightSecret(s.htlc[e.id], e.sec)) =>
    LET c == s.htlc[e.id]
        d == OnlyDenom(c.amt)
        a == c.amt[d] IN
    IF c.dir = "out" THEN e.ok
    ELSE (d \in DOMAIN s.params /\ d \in DOMAIN s.sup
          /\ s.sup[d].cur + a <= s.params[d].limit
          /\ (s.params[d].timeLimited => s.sup[d].tl + a <= s.params[d].tbl)) <=> e.ok

(* a parameter update stores exactly the message's parameters (iff they are
   valid) and touches nothing else: supply records outlive removed assets *)
X04_ParamsStored(s, e, t) ==
  (e.name = "UpdateParams") =>
    /\ e.ok <=> ValidParams(s, e.params)
    /\ e.ok => t = [s EXCEPT !.params = e.params]

-----------------------------------------------------------------------------
(***************************************************************************)
(* Genesis at design level (diagnostic, X12): genesis.go ExportGenesis /    *)
(* InitGenesis / PrepForZeroHeightGenesis, types/genesis.go ValidateGenesis *)
(* and types/htlc.go HTLC.Validate as operators on the state.               *)
(* Export writes the OPEN contracts, all supply records, the parameters and *)
(* the previous block time — not the expiry queue, which InitGenesis        *)
(* rebuilds from the contracts' expiration heights.  The zero-height        *)
(* preparation rewrites expiry := expiry - height + 1 in the records (the   *)
(* supplies and the previous block time are left as they are: the TODO in   *)
(* PrepForZeroHeightGenesis).                                               *)
(***************************************************************************)
OpenIds(s) == {i \in Ids(s) : s.htlc[i].state = "open"}

ExportG(s) ==
  [htlcs |-> [i \in OpenIds(s) |-> s.htlc[i]], sup |-> s.sup, params |-> s.params, prev |-> s.prev]

ZeroHeightG(s) ==
  [ExportG(s) EXCEPT !.htlcs = [i \in OpenIds(s) |-> [s.htlc[i] EXCEPT !.expiry = @ - s.h + 1]]]

(* the reason InitGenesis (ValidateGenesis first) refuses g, "" if accepted *)
GenesisWhy(s, g) ==
  LET H == DOMAIN g.htlcs
      sumDir(dir, d) == SumOver([i \in H |-> IF g.htlcs[i].transfer /\ g.htlcs[i].dir = dir
                                             THEN AmtOf(g.htlcs[i], d) ELSE 0], H)
  IN
  IF ~ValidParams(s, g.params) THEN "params"
  ELSE IF \E i \in H : g.htlcs[i].expiry = 0 THEN "expiry0"
  ELSE IF \E i \in H : g.htlcs[i].ts = 0 THEN "ts0"                          \* HTLC.Validate (F9)
  ELSE IF \E i \in H : g.htlcs[i].transfer /\ OnlyDenom(g.htlcs[i].amt) \notin DOMAIN g.params
    THEN "asset_not_found"                                                   \* ValidateLiveAsset (F26)
  ELSE IF \E i \in H : g.htlcs[i].transfer /\ ~g.params[OnlyDenom(g.htlcs[i].amt)].active
    THEN "asset_inactive"
  ELSE IF \E d \in DOMAIN g.sup : g.sup[d].inc # sumDir("in", d) \/ g.sup[d].out # sumDir("out", d)
    THEN "supply_mismatch"
  ELSE IF \E d \in DOMAIN g.sup : d \notin DOMAIN g.params THEN "supply_asset_not_found"  \* GetSupplyLimit panics
  ELSE IF \E d \in DOMAIN g.sup :
            LET l == g.params[d].limit IN
            g.sup[d].cur > l \/ g.sup[d].inc > l \/ g.sup[d].inc + g.sup[d].cur > l \/ g.sup[d].out > l
    THEN "over_limit"
  ELSE ""

ImportQueue(g) == {<<g.htlcs[i].expiry, i>> : i \in DOMAIN g.htlcs}

(* the rebuilt expiry queue is the queue *)
X12_HTLC_Queue(s) == ImportQueue(ExportG(s)) = s.q
(* after the zero-height preparation every open contract is queued at
   expiry - h + 1 >= 2: none is due before the new chain's second block, none
   is lost (relative to the old chain every deadline moves by one block) *)
X12_HTLC_ZeroQueue(s) ==
  (~s.inBlock) =>
    /\ DOMAIN ZeroHeightG(s).htlcs = OpenIds(s)
    /\ \A x \in ImportQueue(ZeroHeightG(s)) : x[1] = s.htlc[x[2]].expiry - s.h + 1 /\ x[1] >= 2
(* a state reached through valid transactions and parameter updates exports to
   a genesis that InitGenesis accepts (as-is and zero-height alike: the
   preparation only rewrites expiries) *)
X12_HTLC_Accepted(s) == (~s.inBlock) => GenesisWhy(s, ExportG(s)) = ""
(* the same modulo the recorded ways a reachable state is refused: F9 (open
   contract without timestamp), F26 (asset removed: open transfer, or merely a
   supply record without parameters), and their siblings established in
   findings/htlc.md G1 (inactive asset with an open transfer, limit lowered
   below the recorded supplies) *)
KnownRefusals == {"", "ts0", "asset_not_found", "supply_asset_not_found", "asset_inactive", "over_limit"}
X12_HTLC_Accepted_ModKnown(s) == (~s.inBlock) => GenesisWhy(s, ExportG(s)) \in KnownRefusals

-----------------------------------------------------------------------------
(* Model-checking universe *)
CONSTANTS Users, Deputy, PlainDenoms, Assets, Templates, Locks, Dts,
          Params0, ParamAlts, MaxH, Claimants, ClaimSecrets, InitBal, MaxUpdates

BLK == "blk"     \* a blocked account (the fee collector on chain)
AcctsMC == Users \cup {Deputy, MOD, BLK}
DenomsMC == PlainDenoms \cup Assets
T0 == TSOFF      \* a timestamp that is valid throughout a model run

AP(limit, timeLimited, period, tbl, minAmt, maxAmt, fee) ==
  [limit |-> limit, timeLimited |-> timeLimited, period |-> period, tbl |-> tbl,
   active |-> TRUE, deputy |-> Deputy, fee |-> fee, minAmt |-> minAmt, maxAmt |-> maxAmt,
   minLock |-> 1, maxLock |-> 2]

(* asset life cycle (thorough configs): one asset, parameter sets that switch
   it off, tighten the swap range / the lock range, raise the fee, change the
   deputy — all with transfers in flight *)
APx(limit, active, deputy, fee, minAmt, maxAmt, minLock, maxLock) ==
  [limit |-> limit, timeLimited |-> FALSE, period |-> 0, tbl |-> 0,
   active |-> active, deputy |-> deputy, fee |-> fee, minAmt |-> minAmt, maxAmt |-> maxAmt,
   minLock |-> minLock, maxLock |-> maxLock]
ParamsLife == ("htltone" :> APx(6, TRUE, "dep", 0, 1, 3, 1, 2))
ParamAltsLife == {("htltone" :> APx(6, FALSE, "dep", 0, 1, 3, 1, 2)),     \* switched off
                  ("htltone" :> APx(6, TRUE, "dep", 0, 2, 2, 2, 2)),      \* swap range and lock range tightened
                  ("htltone" :> APx(6, TRUE, "dep", 1, 1, 3, 1, 2)),      \* fee raised
                  ("htltone" :> APx(6, TRUE, "u2", 0, 1, 3, 1, 2))}       \* deputy changed

(* parameter sets selectable from the configs *)
NoParams == <<>>
ParamsA == ("htltone" :> AP(4, FALSE, 0, 0, 1, 3, 0)) @@ ("htlttwo" :> AP(5, TRUE, 2, 3, 1, 3, 1))
ParamsB == ("htltone" :> AP(2, FALSE, 0, 0, 1, 3, 0)) @@ ("htlttwo" :> AP(5, TRUE, 2, 3, 1, 3, 1))
ParamsC == ("htlttwo" :> AP(5, TRUE, 3, 2, 1, 3, 1))                     \* asset one removed
ParamsD == ("htltone" :> AP(4, FALSE, 0, 0, 1, 3, 0)) @@ ("htlttwo" :> AP(6, TRUE, 2, 4, 1, 2, 0))
ParamsBad == ("htltone" :> AP(2, TRUE, 2, 3, 1, 3, 0))                   \* tbl > limit: invalid
ParamsOne == ("htltone" :> AP(4, FALSE, 0, 0, 1, 3, 0))
ParamsTwo == ("htlttwo" :> AP(5, TRUE, 2, 3, 1, 3, 1))
ParamsOff == ("htltone" :> APx(4, FALSE, "dep", 0, 1, 3, 1, 2)) @@ ("htlttwo" :> AP(5, TRUE, 2, 3, 1, 3, 1))
ParamsTight == ("htltone" :> APx(4, TRUE, "u2", 1, 2, 2, 2, 2)) @@ ("htlttwo" :> AP(5, TRUE, 2, 3, 1, 3, 1))
ParamAltsAll == {ParamsA, ParamsB, ParamsC, ParamsD, ParamsBad, ParamsOff, ParamsTight}
(* probe generator: every asset state a transfer in flight can meet -- all
   assets delisted (the window bookkeeping stops) and listed again with other
   limits, time-limited <-> not, the module account / a blocked account as
   deputy (nobody can then open a transfer of that asset) *)
ParamsSwapTL == ("htltone" :> AP(3, TRUE, 3, 2, 1, 3, 0)) @@ ("htlttwo" :> AP(6, FALSE, 0, 0, 1, 3, 1))
ParamsDepMod == ("htltone" :> APx(4, TRUE, MOD, 0, 1, 3, 1, 2)) @@ ("htlttwo" :> [AP(5, TRUE, 2, 3, 1, 3, 1) EXCEPT !.deputy = "blk"])
(* time-limited with a time-based limit of zero: valid; the inflow of that asset is paused *)
ParamsPause == ("htltone" :> AP(4, TRUE, 2, 0, 1, 3, 0)) @@ ("htlttwo" :> AP(5, TRUE, 2, 3, 1, 3, 1))
ParamAltsProbe == ParamAltsAll \cup {NoParams, ParamsSwapTL, ParamsDepMod, ParamsOne, ParamsPause}
ParamAltsFew == {ParamsB, ParamsC}
ParamAltsOne == {("htltone" :> AP(2, FALSE, 0, 0, 1, 3, 0)), NoParams}
ParamAltsTwo == {ParamsTwo, ("htlttwo" :> AP(3, TRUE, 3, 2, 1, 3, 1)), <<>>}

TP(id, sender, to, amt, sec, lts, ts, transfer) ==
  [id |-> id, sender |-> sender, to |-> to, amt |-> amt, sec |-> sec,
   lts |-> lts, ts |-> ts, transfer |-> transfer]

(* contract templates; the id is a function of (sender, to, amt, sec, lts) *)
TplMulti   == TP("c1", "u1", "u2", ("aaa" :> 2) @@ ("bbb" :> 1), "s1", T0, T0, FALSE)
TplSelf    == TP("c2", "u1", "u1", ("aaa" :> 1), "s2", 0, 0, FALSE)
TplOtherTs == TP("c3", "u2", "u1", ("aaa" :> 1), "s1", 0, T0, FALSE)    \* lock built without the timestamp
TplSame    == TP("c4", "u2", "u1", ("aaa" :> 1), "s1", T0, T0, FALSE)   \* same secret as c1
TplBlocked == TP("c5", "u1", BLK, ("aaa" :> 1), "s2", T0, T0, FALSE)
TplIn1     == TP("c6", "dep", "u1", ("htltone" :> 2), "s3", T0, T0, TRUE)
TplIn1b    == TP("c7", "dep", "u2", ("htltone" :> 3), "s4", T0, T0, TRUE)
TplOut1    == TP("c8", "u1", "dep", ("htltone" :> 1), "s5", T0, T0, TRUE)
TplIn2     == TP("c9", "dep", "u2", ("htlttwo" :> 2), "s6", T0, T0, TRUE)
TplIn2b    == TP("c10", "dep", "u1", ("htlttwo" :> 2), "s7", T0, T0, TRUE)
TplOut2    == TP("c11", "u2", "dep", ("htlttwo" :> 2), "s8", T0, T0, TRUE)
TplBadTs   == TP("c12", "dep", "u1", ("htltone" :> 1), "s9", 0, 0, TRUE)     \* transfer without timestamp
TplNoDep   == TP("c13", "u1", "u2", ("htltone" :> 1), "s9", T0, T0, TRUE)    \* deputy not involved
TplPlainAsset == TP("c14", "u1", "u2", ("htltone" :> 1), "s2", T0, T0, FALSE) \* ordinary contract in an asset denom

TplToMod   == TP("c15", "u2", MOD, ("aaa" :> 1) @@ ("bbb" :> 2), "s2", T0, T0, FALSE)   \* H1: recipient = escrow
TemplatesH1 == {TplMulti, TplSelf, TplToMod}
TplIn1c    == TP("c16", "u2", "u1", ("htltone" :> 1), "s6", T0, T0, TRUE)    \* incoming once u2 is the deputy
TplOut1c   == TP("c17", "u1", "u2", ("htltone" :> 2), "s7", T0, T0, TRUE)    \* outgoing once u2 is the deputy
TemplatesLife == {TplIn1, TplOut1, TplIn1c, TplOut1c}
TemplatesPlain == {TplMulti, TplSelf, TplOtherTs, TplSame}
TemplatesPlainBig == {TplMulti, TplSelf, TplOtherTs, TplSame, TplBlocked}
TemplatesOneBig == {TplIn1, TplIn1b, TplOut1, TplPlainAsset, TplBadTs, TplNoDep}
TemplatesAssets == {TplIn1, TplOut1, TplIn2, TplIn2b, TplPlainAsset}
TemplatesOne == {TplIn1, TplIn1b, TplOut1, TplPlainAsset}
TemplatesTwo == {TplIn2, TplIn2b, TplOut2}
TemplatesGen == {TplMulti, TplSelf, TplOtherTs, TplSame, TplBlocked, TplIn1, TplIn1b, TplOut1,
                 TplIn2, TplIn2b, TplOut2, TplBadTs, TplNoDep, TplPlainAsset, TplIn1c, TplOut1c, TplToMod}

Init0 ==
  [h |-> 1, now |-> 0, prev |-> 0, inBlock |-> FALSE,
   minLock |-> 1, maxLock |-> SetMax(Locks \cup {1}),
   blocked |-> {BLK, MOD},      \* application wiring since /repo 20cb755 (before it: {BLK}, finding H1)
   htlc |-> EmptyF, q |-> {},
   sup |-> [d \in DOMAIN Params0 |-> ZeroSup],
   params |-> Params0,
   bal |-> [a \in AcctsMC |-> [d \in DenomsMC |->
              IF a \in Users /\ d \in PlainDenoms THEN InitBal ELSE 0]],
   supply |-> [d \in DenomsMC |-> IF d \in PlainDenoms THEN Cardinality(Users) * InitBal ELSE 0]]

Init == st = Init0 /\ ev = NoEv /\ gh = GhostInit /\ hist = <<>>

Step(e) ==
  LET r == Apply(st, e)
      e2 == [e EXCEPT !.ok = r.ok, !.panic = r.panic]
  IN /\ st' = r.st
     /\ ev' = e2
     /\ gh' = GhostStep(gh, st, e2, r.st)
     /\ hist' = IF RecordHist THEN Append(hist, e2) ELSE hist

Create ==
  /\ st.inBlock
  /\ \E tp \in Templates, k \in Locks :
       Step([NoEv EXCEPT !.name = "Create", !.who = tp.sender, !.id = tp.id, !.to = tp.to,
                         !.amt = tp.amt, !.sec = tp.sec, !.lts = tp.lts, !.ts = tp.ts,
                         !.lock = k, !.transfer = tp.transfer])
Claim ==
  /\ st.inBlock
  /\ \E who \in Claimants, i \in DOMAIN st.htlc, p \in ClaimSecrets :
       Step([NoEv EXCEPT !.name = "Claim", !.who = who, !.id = i, !.sec = p])
ClaimUnknown ==
  /\ st.inBlock /\ st.htlc = EmptyF
  /\ \E who \in Claimants :
       Step([NoEv EXCEPT !.name = "Claim", !.who = who, !.id = "c0", !.sec = "junk"])
BeginBlock ==
  /\ ~st.inBlock /\ st.h < MaxH
  /\ \E dt \in Dts : Step([NoEv EXCEPT !.name = "BeginBlock", !.dt = dt])
EndBlock ==
  /\ st.inBlock
  /\ Step([NoEv EXCEPT !.name = "EndBlock"])
UpdateParams ==
  /\ ~st.inBlock /\ gh.epoch < MaxUpdates
  /\ \E ps \in ParamAlts : ps # st.params /\ Step([NoEv EXCEPT !.name = "UpdateParams", !.params = ps])

Next == Create \/ Claim \/ ClaimUnknown \/ BeginBlock \/ EndBlock \/ UpdateParams

Spec == Init /\ [][Next]_vars

(* Generator: TLC as a source of behaviours to replay on the real code *)
Rejects(h) == Cardinality({i \in DOMAIN h : ~h[i].ok})
GenNext == Next /\ (ev'.ok \/ Rejects(hist) < 5)
GenSpec == Init /\ [][GenNext]_vars
GenDepth == atoi(IOEnv.GEN_DEPTH)
GenConstraint ==
  /\ Len(hist) <= GenDepth
  /\ (Len(hist) = GenDepth) => PrintT(<<"BEHAVIOUR", ToJson(hist)>>)

(***************************************************************************)
(* Negative probing (second generator mode).  Unusual inputs the harness   *)
(* manufactures from the event's `form` (hashing and hex stay outside      *)
(* TLA+); the specification only says what they MEAN:                      *)
(*   idupper / secupper  the id / the secret in upper-case hex: the same   *)
(*                       bytes, hence the same contract / the same secret  *)
(*   idhl   id := the hash lock of contract i  (event id "hl:i")           *)
(*   idpre  id := the first half of i's id, zero padded (event id "pre:i") *)
(*   idrev  id := i's id with its two halves swapped    (event id "rev:i") *)
(*          -- three ids of the right shape that are nobody's id: unknown  *)
(*   sechl  secret := the hash lock of contract i (event sec "hl:i")       *)
(*   secid  secret := the id of contract i        (event sec "id:i")       *)
(*          -- two 32-byte values that are nobody's secret: wrong secret   *)
(* and creates with coins of the wrong kind: a transfer in an ordinary     *)
(* denom, in denoms SHAPED like an asset denom that are no assets (an      *)
(* asset denom plus a letter, a prefix of one, one in upper case), with    *)
(* two coins, with a zero coin; an ordinary contract in a shaped denom.    *)
(***************************************************************************)
ShapedDenoms == {"htltonex", "htlton", "HTLTONE"}
IdForms == [idhl |-> "hl:", idpre |-> "pre:", idrev |-> "rev:"]
SecForms == [sechl |-> "hl:", secid |-> "id:"]

TplTPlain   == TP("q1", "u1", "dep", ("aaa" :> 1), "s5", T0, T0, TRUE)        \* transfer in an ordinary denom
TplTPlainIn == TP("q2", "dep", "u1", ("bbb" :> 2), "s3", T0, T0, TRUE)
TplTShaped  == TP("q3", "u1", "dep", ("htltonex" :> 1), "s5", T0, T0, TRUE)   \* asset denom + a letter
TplTPrefix  == TP("q4", "dep", "u2", ("htlton" :> 2), "s4", T0, T0, TRUE)     \* prefix of an asset denom
TplTCase    == TP("q5", "u2", "dep", ("HTLTONE" :> 1), "s8", T0, T0, TRUE)    \* asset denom in upper case
TplTTwo     == TP("q6", "u1", "dep", ("htltone" :> 1) @@ ("aaa" :> 1), "s5", T0, T0, TRUE)
TplZero     == TP("q7", "u1", "u2", ("aaa" :> 0), "s2", T0, T0, FALSE)
TplShapedPlain == TP("q8", "u1", "u2", ("htltonex" :> 1) @@ ("HTLTONE" :> 2), "s1", T0, T0, FALSE)
TplToSelfT  == TP("q9", "dep", "dep", ("htltone" :> 1), "s3", T0, T0, TRUE)   \* deputy on both sides
ProbeTemplates == {TplTPlain, TplTPlainIn, TplTShaped, TplTPrefix, TplTCase, TplTTwo, TplZero,
                   TplShapedPlain, TplToSelfT}

ProbeCreate ==
  /\ st.inBlock
  /\ \E tp \in ProbeTemplates, k \in Locks \ {0} :
       Step([NoEv EXCEPT !.name = "Create", !.who = tp.sender, !.id = tp.id, !.to = tp.to,
                         !.amt = tp.amt, !.sec = tp.sec, !.lts = tp.lts, !.ts = tp.ts,
                         !.lock = k, !.transfer = tp.transfer])
(* a re-creation with the transfer flag flipped and another time lock: the id
   does not depend on either, so it still exists *)
ProbeRecreate ==
  /\ st.inBlock
  /\ \E i \in DOMAIN st.htlc, k \in Locks \ {0} :
       LET c == st.htlc[i] IN
       Step([NoEv EXCEPT !.name = "Create", !.who = c.sender, !.id = i, !.to = c.to, !.amt = c.amt,
                         !.sec = c.sec, !.lts = c.lts, !.ts = c.ts, !.lock = k,
                         !.transfer = IF Cardinality(DOMAIN c.amt) = 1 THEN ~c.transfer ELSE c.transfer,
                         !.form = "recreate"])
ProbeClaim ==
  /\ st.inBlock
  /\ \E who \in Claimants, i \in DOMAIN st.htlc :
       \/ \E f \in DOMAIN IdForms :
            Step([NoEv EXCEPT !.name = "Claim", !.who = who, !.id = IdForms[f] \o i,
                              !.sec = st.htlc[i].sec, !.form = f])
       \/ \E f \in DOMAIN SecForms :
            Step([NoEv EXCEPT !.name = "Claim", !.who = who, !.id = i,
                              !.sec = SecForms[f] \o i, !.form = f])
       \/ \E f \in {"idupper", "secupper"} :
            Step([NoEv EXCEPT !.name = "Claim", !.who = who, !.id = i,
                              !.sec = st.htlc[i].sec, !.form = f])

NextP == Next \/ ProbeCreate \/ ProbeRecreate \/ ProbeClaim

(* like GenNext, but every behaviour ends with ProbeLen events the
   specification REJECTS (a block is opened first if none is open): a deep
   state probed with operations that must fail.  Rejections for a time lock
   outside the message-level range say nothing about the state and are left
   to the first mode. *)
ProbeLen == 4
GenNextP ==
  /\ NextP
  /\ IF Len(hist) < GenDepth - ProbeLen
     THEN ev'.ok \/ Rejects(hist) < 5
     ELSE \/ ~ev'.ok /\ Apply(st, ev').why # "basic_lock"
          \/ ~st.inBlock /\ ev'.name = "BeginBlock"
GenSpecP == Init /\ [][GenNextP]_vars

-----------------------------------------------------------------------------
(* Clauses in checkable form *)
Inv_C04_Escrow == C04_Escrow(st)
Inv_C04_InOut == C04_InOut(st)
Inv_C04_Current == C04_Current(st, gh)
Inv_C13_QueueSound == C13_QueueSound(st)
Inv_C13_QueueComplete == C13_QueueComplete(st)
Inv_C13_NoHalt == C13_NoHalt(ev)

Act_C03_StateOrder == [][C03_StateOrder(st, st')]_vars
Act_C03_ClaimSound == [][C03_ClaimSound(st, ev', st')]_vars
Act_C03_ClaimComplete == [][C03_ClaimComplete(st, ev')]_vars
Act_C03_ClaimCompleteH == [][C03_ClaimCompleteH(st, ev', gh')]_vars
Act_C03_RefundAtExpiryH == [][C03_RefundAtExpiryH(st, ev', st', gh')]_vars
Act_C13_QueueCompleteH == [][C13_QueueCompleteH(st', gh')]_vars
Act_C03_RejectionsInert == [][C03_RejectionsInert(st, ev', st')]_vars
Act_C03_RefundAtExpiry == [][C03_RefundAtExpiry(st, ev', st')]_vars
Act_C03_ExactlyOnce == [][C03_ExactlyOnce(st, ev', st', gh')]_vars
(* ghost-dependent state clauses are checked as action properties: under the
   VIEW (which drops the ghosts) TLC evaluates an invariant only on the first
   path that reaches a state, an action property on every transition *)
Act_C04_Current == [][C04_Current(st', gh')]_vars
Inv_C04_Escrow_ModH1 == C04_Escrow_ModH1(st, gh)
Act_C03_ExactlyOnce_ModH1 == [][C03_ExactlyOnce_ModH1(st, ev', st', gh')]_vars
Act_C04_Limit == [][C04_Limit(st, st', gh')]_vars
Act_C04_Window == [][C04_Window(st, ev', st')]_vars
Act_C13_OnceOnTime == [][C13_OnceOnTime(st, ev', st', gh')]_vars

Act_X03_CreateRecord == [][X03_CreateRecord(st, ev', st')]_vars
Act_X04_Admission == [][X04_Admission(st, ev', st')]_vars
Act_X04_InFlight == [][X04_InFlight(st, ev')]_vars
Act_X04_ParamsStored == [][X04_ParamsStored(st, ev', st')]_vars
Inv_X12_HTLC_Queue == X12_HTLC_Queue(st)
Inv_X12_HTLC_ZeroQueue == X12_HTLC_ZeroQueue(st)
Inv_X12_HTLC_Accepted == X12_HTLC_Accepted(st)
Inv_X12_HTLC_Accepted_ModKnown == X12_HTLC_Accepted_ModKnown(st)

(* Design-level check that the error the begin blocker discards cannot
   occur: every due contract is open and its refund succeeds. *)
Act_RefundNeverFails ==
  [][(ev'.name = "BeginBlock") =>
       \A i \in DueAt(st, st.h + 1) :
         i \in DOMAIN st.htlc /\ st.htlc[i].state = "open"
         /\ st'.htlc[i].state = "refunded"]_vars

(* VIEW for the exhaustive configs: the last event, the ghosts and the
   history are functions of the path; absolute time only matters through
   now - prev (all model timestamps stay valid for the whole run). *)
View == [st EXCEPT !.now = 0, !.prev = st.prev - st.now]
ViewGh == <<View, gh>>
=============================================================================
