SPECIFICATION TraceSpec
CONSTANTS
  Replicas = {}
  NBlocks = 0
  MaxRestarts = 0
  MaxExports = 0
  RecordHist = FALSE
INVARIANTS
  Monitor
  Coverage
  Report
POSTCONDITION TraceAccepted
CHECK_DEADLOCK FALSE
