SPECIFICATION MathGenSpec
CONSTANTS
  Users = {}
  MinUnitsC = {}
  RecordHist = TRUE
  Owners = {}
  Symbols = {}
  Scales = {}
  Initials = {}
  Maxes = {}
  Amounts = {}
  EditMaxes = {}
  EditMint = {}
  MintTo = {}
  TransferTo = {}
  MaxTokens = 0
  InitStake = 0
  BaseFee = 0
  TaxNum = 0
  TaxDen = 1
  MintNum = 0
  MintDen = 1
  TaxNums = {}
  Acts = {}
  Prologue = "none"
  PScaleA = 0
  PScaleB = 0
  ConvAmounts = {}
  ConvTo = {}
  RegIn = ""
  RegOut = ""
  RegRn = 1
  RegRd = 1
  SwapAmounts = {}
  MaxRej = 0
  Sample = TRUE
  InitIbc = 0
  DeployExtra = {}
  HookVariants = {}
  UpgradeTo = {}
  MathMaxIn = 200
  MathScales = {0, 1, 2, 3}
CONSTRAINT GenConstraint
CHECK_DEADLOCK FALSE
