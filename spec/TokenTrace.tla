----------------------------- MODULE TokenTrace -----------------------------
(***************************************************************************)
(* Validation of traces recorded from the real token module (and from the  *)
(* real types.LossLessSwap function) against Token.tla.  One ndjson line   *)
(* per event: {"ev": <event + result>, "st": <projected abstract state     *)
(* after the event>}; traces are concatenated, an "Init" event starts a    *)
(* new one (with its own account / denom universe).                        *)
(*                                                                         *)
(* monitor: st' is the logged state, ghosts advance by their equations,    *)
(*          every property clause is evaluated on (pre, ev, st); failing   *)
(*          clauses are reported as CLAUSE-FAIL lines — verdicts come from *)
(*          here only.                                                     *)
(* strict:  Apply(pre, ev) must give the logged result and state; a        *)
(*          mismatch is DRIFT, reported, never a verdict.                  *)
(***************************************************************************)
EXTENDS Token

VARIABLES l, pre, obs, drift, driftAt
tvars == <<st, ev, gh, hist, l, pre, obs, drift, driftAt>>

Trace == ndJsonDeserialize(IOEnv.TRACE_FILE)

(* logged state -> specification state *)
FromLog(r) ==
  [tok |-> r.tok, byMinUnit |-> r.byMinUnit, burned |-> r.burned, bal |-> r.bal,
   supply |-> r.supply, params |-> r.params, erc |-> r.erc, nonce |-> r.nonce,
   registry |-> r.registry, native |-> r.native, impl |-> r.impl, feeq |-> r.feeq]

ObsOf(r) == [inexact |-> r.inexact, qdiff |-> r.qdiff]

TraceInit ==
  /\ Trace[1].ev.name = "Init"
  /\ st = FromLog(Trace[1].st) /\ pre = FromLog(Trace[1].st)
  /\ obs = ObsOf(Trace[1].st)
  /\ ev = Trace[1].ev /\ gh = GhostInit(FromLog(Trace[1].st)) /\ hist = <<>>
  /\ l = 2 /\ drift = 0 /\ driftAt = 0

Predicted(s, e) ==
  LET r == Apply(s, e) IN
  [st |-> r.st, ok |-> r.ok, panic |-> r.panic, burn |-> r.burn, mint |-> r.mint]

Observed(e, t) == [st |-> t, ok |-> e.ok, panic |-> e.panic, burn |-> e.burn, mint |-> e.mint]

TraceNext ==
  /\ l <= Len(Trace)
  /\ LET e == Trace[l].ev
         t == FromLog(Trace[l].st)
     IN /\ ev' = e /\ st' = t /\ obs' = ObsOf(Trace[l].st)
        /\ IF e.name = "Init"
           THEN /\ gh' = GhostInit(t) /\ pre' = t
                /\ UNCHANGED <<drift, driftAt>>
           ELSE /\ gh' = GhostStep(gh, st, e, t) /\ pre' = st
                /\ LET d == Predicted(st, e) # Observed(e, t) IN
                   /\ drift' = drift + (IF d THEN 1 ELSE 0)
                   /\ driftAt' = IF d /\ driftAt = 0 THEN l ELSE driftAt
  /\ l' = l + 1
  /\ UNCHANGED hist

TraceSpec == TraceInit /\ [][TraceNext]_tvars

-----------------------------------------------------------------------------
(* every number fitted TLC's range and every object was inside the logged
   universe *)
Scale_Exact == obs.inexact = 0

Clauses ==
  [C09_Identity |-> C09_Identity(pre, st, gh),
   C09_Authority |-> C09_Authority(pre, ev, st),
   C09_Cap |-> C09_Cap(pre, ev, st),
   C09_Burned |-> C09_Burned(pre, ev, st),
   C09_Fee |-> C09_Fee(pre, ev, st),
   C09_ScaleExact |-> Scale_Exact,
   Rejected_NoEffect |-> Rejected_NoEffect(pre, ev, st),
   C10_ToERC20 |-> C10_ToERC20(pre, ev, st),
   C10_FromERC20 |-> C10_FromERC20(pre, ev, st),
   C10_Hook |-> C10_Hook(pre, ev, st),
   C10_SumConst |-> C10_SumConst(pre, ev, st),
   C10_FailAtomic |-> C10_FailAtomic(pre, ev, st),
   C10_NoOverBurn |-> C10_NoOverBurn(pre, ev, st),
   C10_Worth |-> C10_Worth(pre, ev, st),
   C10_ExactAtOne |-> C10_ExactAtOne(pre, ev, st),
   C10_Dust |-> C10_Dust(pre, ev, st),
   C10_SwapSettle |-> C10_SwapSettle(pre, ev, st),
   C10_ScaleExact |-> Scale_Exact,
   \* diagnostics beyond the listed properties
   X09_SupplyLedger |-> X09_SupplyLedger(st, gh),
   X09_FeeQuote |-> X09_FeeQuote(pre, ev),
   X09_BurnQuery |-> obs.qdiff = 0,
   X10_ContractUnique |-> X10_ContractUnique(st),
   X10_DeployBinds |-> X10_DeployBinds(pre, ev, st),
   X10_HookIgnores |-> X10_HookIgnores(pre, ev, st),
   X10_Upgrade |-> X10_Upgrade(pre, ev, st),
   X12_Token_Accepted |-> X12_Token_Accepted_ModF12(st),
   X12_Token_RoundTrip |-> X12_Token_RoundTrip(st)]

Failing == IF ev.name = "Init" THEN {} ELSE {c \in DOMAIN Clauses : ~Clauses[c]}

(* Evaluated by TLC in every state; always TRUE, reports as a side effect *)
Monitor == Failing = {} \/ PrintT(<<"CLAUSE-FAIL", l - 1, Failing, Apply(pre, ev).why>>)

(* antecedent counters (vacuity) *)
FracBurn(s, e) ==
  /\ HasMinUnit(s, e.mu) /\ TokOf(s, e.mu).scale > 0
  /\ e.amt % Pow10(TokOf(s, e.mu).scale) # 0
OwnerOp(e) == e.name \in {"Edit", "TransferOwner"}
NotOwner(s, e) ==
  \/ (OwnerOp(e) /\ e.sym \in DOMAIN s.tok /\ s.tok[e.sym].owner # e.who)
  \/ (e.name = "Mint" /\ HasMinUnit(s, e.mu) /\ TokOf(s, e.mu).owner # e.who)

Exercised ==
  IF ev.name = "Init" THEN {} ELSE
  {c \in {"issue_ok", "edit_ok", "edit_max_ok", "edit_max_rej", "mint_ok", "mint_to_cap",
          "mint_over_cap_rej", "mint_not_mintable_rej", "burn_ok", "burn_frac", "transfer_ok",
          "old_owner_rej", "new_owner_ok", "not_owner_rej", "dup_symbol_rej", "dup_minunit_rej", "fee_tax_pos",
          "reject", "deploy_ok", "toerc_ok", "fromerc_ok", "conv_rej", "evm_fail_rej",
          "erc_disabled_rej", "blocked_rej", "hook_ok", "swapfee_ok", "swapfee_dust",
          "swapfee_panic", "lossless_row", "lossless_giveback", "lossless_ratio1",
          "deploy_native_ok", "deploy_ibc_ok", "deploy_twice_rej", "deploy_unknown_rej",
          "conv_native_ok", "hook_forged_ignored", "hook_forged_rej", "upgrade_ok", "upgrade_rej",
          "f12_shape", "fee_len_other", "issue_at_cap", "mint_room0_rej"} :
     CASE c = "issue_ok" -> ev.name = "Issue" /\ ev.ok
       [] c = "edit_ok" -> ev.name = "Edit" /\ ev.ok
       [] c = "edit_max_ok" -> ev.name = "Edit" /\ ev.ok /\ ev.max > 0
       [] c = "edit_max_rej" -> ev.name = "Edit" /\ ~ev.ok /\ Apply(pre, ev).why = "max_below_supply"
       [] c = "mint_ok" -> ev.name = "Mint" /\ ev.ok
       [] c = "mint_to_cap" -> ev.name = "Mint" /\ ev.ok /\ HasMinUnit(st, ev.mu)
                               /\ st.supply[ev.mu] = TokOf(st, ev.mu).max * Pow10(TokOf(st, ev.mu).scale)
       [] c = "mint_over_cap_rej" -> ev.name = "Mint" /\ ~ev.ok /\ Apply(pre, ev).why = "exceeds_cap"
       [] c = "mint_not_mintable_rej" -> ev.name = "Mint" /\ ~ev.ok /\ Apply(pre, ev).why = "not_mintable"
       [] c = "burn_ok" -> ev.name = "Burn" /\ ev.ok
       [] c = "burn_frac" -> ev.name = "Burn" /\ ev.ok /\ FracBurn(pre, ev)
       [] c = "transfer_ok" -> ev.name = "TransferOwner" /\ ev.ok
       [] c = "not_owner_rej" -> ~ev.ok /\ NotOwner(pre, ev)
       [] c = "old_owner_rej" -> ~ev.ok /\ NotOwner(pre, ev)
                                 /\ LET y == IF OwnerOp(ev) THEN ev.sym ELSE pre.byMinUnit[ev.mu]
                                    IN y \in DOMAIN gh.pastOwners /\ ev.who \in gh.pastOwners[y]
       [] c = "new_owner_ok" -> ev.ok /\ (OwnerOp(ev) \/ ev.name = "Mint")
                                /\ LET y == IF OwnerOp(ev) THEN ev.sym ELSE pre.byMinUnit[ev.mu]
                                   IN y \in DOMAIN gh.pastOwners /\ Cardinality(gh.pastOwners[y]) > 1
       [] c = "dup_symbol_rej" -> ev.name = "Issue" /\ ~ev.ok /\ ev.sym \in DOMAIN pre.tok
       [] c = "dup_minunit_rej" -> ev.name = "Issue" /\ ~ev.ok /\ ev.sym \notin DOMAIN pre.tok
                                   /\ HasMinUnit(pre, ev.mu)
       [] c = "fee_tax_pos" -> ev.name \in {"Issue", "Mint"} /\ ev.ok
                               /\ st.bal[FEEP][STAKE] > pre.bal[FEEP][STAKE]
                               /\ st.supply[STAKE] < pre.supply[STAKE]
       [] c = "reject" -> ~ev.ok
       [] c = "deploy_ok" -> ev.name = "Deploy" /\ ev.ok
       [] c = "toerc_ok" -> ev.name = "ToERC20" /\ ev.ok
       [] c = "fromerc_ok" -> ev.name = "FromERC20" /\ ev.ok
       [] c = "conv_rej" -> ev.name \in ConvMsgs /\ ~ev.ok
       [] c = "evm_fail_rej" -> ev.name \in ConvMsgs /\ ~ev.ok
                                /\ Apply(pre, ev).why \in {"evm_revert", "evm_postcheck", "unsupported_key"}
       [] c = "erc_disabled_rej" -> ev.name \in ConvMsgs /\ ~ev.ok /\ Apply(pre, ev).why = "erc20_disabled"
       [] c = "blocked_rej" -> ~ev.ok /\ Apply(pre, ev).why = "blocked"
       [] c = "hook_ok" -> GenuineHook(ev) /\ ev.ok
       [] c = "swapfee_ok" -> ev.name = "SwapFee" /\ ev.ok
       [] c = "swapfee_dust" -> ev.name = "SwapFee" /\ ev.ok /\ ev.burn < ev.amt
       [] c = "swapfee_panic" -> ev.name = "SwapFee" /\ ev.panic
       [] c = "deploy_native_ok" -> ev.name = "Deploy" /\ ev.ok /\ ev.mu = STAKE
       [] c = "deploy_ibc_ok" -> ev.name = "Deploy" /\ ev.ok /\ ev.mu # STAKE /\ ~HasMinUnit(pre, ev.mu)
       [] c = "deploy_twice_rej" -> ev.name = "Deploy" /\ ~ev.ok /\ Apply(pre, ev).why = "already_deployed"
       [] c = "deploy_unknown_rej" -> ev.name = "Deploy" /\ ~ev.ok
                                     /\ Apply(pre, ev).why \in {"no_token", "symbol_exists"}
       [] c = "conv_native_ok" -> ev.name \in ConvMsgs /\ ev.ok /\ ev.mu = STAKE /\ ev.sym = ""
       [] c = "hook_forged_ignored" -> ev.name = "Hook" /\ ev.sym # "" /\ ev.ok
       [] c = "hook_forged_rej" -> ev.name = "Hook" /\ ev.sym # "" /\ ~ev.ok
       [] c = "upgrade_ok" -> ev.name = "Upgrade" /\ ev.ok
       [] c = "upgrade_rej" -> ev.name = "Upgrade" /\ ~ev.ok
       [] c = "f12_shape" -> F12Shape(st)
       [] c = "fee_len_other" -> ev.name = "Issue" /\ ev.ok /\ Len(ev.sym) > 3
       [] c = "issue_at_cap" -> ev.name = "Issue" /\ ev.ok /\ ev.sym \in DOMAIN st.tok
                                /\ st.tok[ev.sym].mintable /\ st.tok[ev.sym].max = st.tok[ev.sym].initial
                                /\ st.tok[ev.sym].initial > 0
       [] c = "mint_room0_rej" -> ev.name = "Mint" /\ ~ev.ok /\ Apply(pre, ev).why = "exceeds_cap"
                                  /\ pre.supply[ev.mu] = TokOf(pre, ev.mu).max * Pow10(TokOf(pre, ev.mu).scale)
       [] c = "lossless_row" -> ev.name = "LossLess" /\ ev.ok
       [] c = "lossless_giveback" -> ev.name = "LossLess" /\ ev.ok /\ ev.burn # ev.amt
       [] c = "lossless_ratio1" -> ev.name = "LossLess" /\ ev.ok /\ ev.rn = ev.rd /\ ev.burn # ev.amt}
Coverage == Exercised = {} \/ PrintT(<<"EXERCISED", Exercised>>)

Report == (l = Len(Trace) + 1) => PrintT(<<"TRACE-END", Len(Trace), drift, driftAt>>)

DriftReport == (drift > 0 /\ driftAt = l - 1) =>
  PrintT(<<"DRIFT", driftAt, ev.name, ev, Apply(pre, ev).why>>)

TraceAccepted == TLCGet("stats").diameter = Len(Trace)

Alias == [l |-> l, ev |-> ev]
=============================================================================
