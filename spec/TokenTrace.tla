----------------------------- MODULE TokenTrace -----------------------------
(***************************************************************************)
(* Validation of traces recorded from the real token module (and from the  *)
(* real types.LossLessSwap function) against Token.tla.  One ndjson line   *)
(* per event: {"ev": <event + result>, "st": <projected abstract state     *)
(* after the event>}; traces are concatenated, an "Init" event starts a    *)
(* new one (with its own account / denom universe).                        *)
(*                                                                         *)
(* monitor: st' is the logged state, ghosts advance by their equations,    *)
(*          every property clause is evaluated on (pre, ev, st); failing   *)
(*          clauses are reported as CLAUSE-FAIL lines — verdicts come from *)
(*          here only.                                                     *)
(* strict:  Apply(pre, ev) must give the logged result and state; a        *)
(*          mismatch is DRIFT, reported, never a verdict.                  *)
(***************************************************************************)
EXTENDS Token

VARIABLES l, pre, ghPre, obs, drift, driftAt
tvars == <<st, ev, gh, hist, l, pre, ghPre, obs, drift, driftAt>>

Trace == ndJsonDeserialize(IOEnv.TRACE_FILE)

(* logged state -> specification state *)
FromLog(r) ==
  [tok |-> r.tok, byMinUnit |-> r.byMinUnit, burned |-> r.burned, bal |-> r.bal,
   supply |-> r.supply, params |-> r.params, erc |-> r.erc, nonce |-> r.nonce,
   registry |-> r.registry, native |-> r.native, impl |-> r.impl, feeq |-> r.feeq]

ObsOf(r) == [inexact |-> r.inexact, qdiff |-> r.qdiff]

TraceInit ==
  /\ Trace[1].ev.name = "Init"
  /\ st = FromLog(Trace[1].st) /\ pre = FromLog(Trace[1].st)
  /\ obs = ObsOf(Trace[1].st)
  /\ ev = Trace[1].ev /\ gh = GhostInit(FromLog(Trace[1].st)) /\ ghPre = GhostInit(FromLog(Trace[1].st))
  /\ hist = <<>>
  /\ l = 2 /\ drift = 0 /\ driftAt = 0

Predicted(s, e) ==
  LET r == Apply(s, e) IN
  [st |-> r.st, ok |-> r.ok, panic |-> r.panic, burn |-> r.burn, mint |-> r.mint]

Observed(e, t) == [st |-> t, ok |-> e.ok, panic |-> e.panic, burn |-> e.burn, mint |-> e.mint]

TraceNext ==
  /\ l <= Len(Trace)
  /\ LET e == Trace[l].ev
         t == FromLog(Trace[l].st)
     IN /\ ev' = e /\ st' = t /\ obs' = ObsOf(Trace[l].st)
        /\ IF e.name = "Init"
           THEN /\ gh' = GhostInit(t) /\ ghPre' = GhostInit(t) /\ pre' = t
                /\ UNCHANGED <<drift, driftAt>>
           ELSE /\ gh' = GhostStep(gh, st, e, t) /\ ghPre' = gh /\ pre' = st
                /\ LET d == Predicted(st, e) # Observed(e, t) IN
                   /\ drift' = drift + (IF d THEN 1 ELSE 0)
                   /\ driftAt' = IF d /\ driftAt = 0 THEN l ELSE driftAt
  /\ l' = l + 1
  /\ UNCHANGED hist

TraceSpec == TraceInit /\ [][TraceNext]_tvars

-----------------------------------------------------------------------------
(* every number fitted TLC's range and every object was inside the logged
   universe *)
Scale_Exact == obs.inexact = 0

(* An ACCEPTED message names accounts and coins of the logged universe in every
   field the clauses index the balance sheet by.  On the unchanged tree this always
   holds (the code refuses what is no address / no token's coin).  A tree that
   accepts such a message — a receiver that is no account, a coin that is no
   token's — fails the clause that talks about that account or coin, instead of
   leaving TLC with an expression it cannot evaluate (an inconclusive run). *)
InUniverse(s, e) ==
  e.ok =>
    LET rcpt == IF e.to = "" THEN e.who ELSE e.to IN
    /\ (e.name \in {"Mint", "Burn", "SwapFee", "ToERC20", "FromERC20"} \/ GenuineHook(e)) =>
         e.mu \in DOMAIN s.supply
    /\ (e.name \in {"Issue", "Mint", "Burn", "SwapFee", "ToERC20"}) => e.who \in DOMAIN s.bal
    /\ (e.name \in {"Mint", "SwapFee"}) => rcpt \in DOMAIN s.bal
    /\ (e.name = "FromERC20" \/ GenuineHook(e)) => e.to \in DOMAIN s.bal /\ e.who \in ErcAddrs(s)
    /\ (e.name = "ToERC20") => e.to \in ErcAddrs(s)
    /\ (e.name = "Issue") => e.mu \in DOMAIN s.supply
U(names) == (ev.name \in names) => InUniverse(pre, ev)    \* (reported under the clause about that message)

Clauses ==
  [C09_Identity |-> C09_Identity(pre, st, gh),
   C09_Authority |-> C09_Authority(pre, ev, st),
   C09_Cap |-> C09_Cap(pre, ev, st),
   C09_Burned |-> U({"Burn"}) /\ C09_Burned(pre, ev, st),
   C09_Fee |-> U({"Issue", "Mint"}) /\ C09_Fee(pre, ev, st),
   C09_ScaleExact |-> Scale_Exact,
   Rejected_NoEffect |-> Rejected_NoEffect(pre, ev, st),
   C10_ToERC20 |-> U({"ToERC20"}) /\ C10_ToERC20(pre, ev, st),
   C10_FromERC20 |-> U({"FromERC20"}) /\ C10_FromERC20(pre, ev, st),
   C10_Hook |-> U({"Hook"}) /\ C10_Hook(pre, ev, st),
   C10_SumConst |-> C10_SumConst(pre, ev, st),
   C10_FailAtomic |-> C10_FailAtomic(pre, ev, st),
   C10_NoOverBurn |-> C10_NoOverBurn(pre, ev, st),
   C10_Worth |-> C10_Worth(pre, ev, st),
   C10_ExactAtOne |-> C10_ExactAtOne(pre, ev, st),
   C10_Dust |-> C10_Dust(pre, ev, st),
   C10_SwapSettle |-> U({"SwapFee"}) /\ C10_SwapSettle(pre, ev, st),
   C10_ScaleExact |-> Scale_Exact,
   \* history twins: judged by the accepted messages (and the ERC20 ledger), not by the module's records
   C09_IssueFresh |-> C09_IssueFresh(ghPre.h, ev),
   C09_AuthorityH |-> C09_AuthorityH(ghPre.h, ev),
   C09_CapH |-> C09_CapH(pre, ev, st, ghPre.h, gh.h),
   C09_BurnedH |-> C09_BurnedH(st, gh.h),
   C09_FeeH |-> U({"Issue", "Mint"}) /\ C09_FeeH(pre, ev, st, ghPre.h),
   C10_ToERC20H |-> U({"ToERC20"}) /\ C10_ToERC20H(pre, ev, st, ghPre.h),
   C10_FromERC20H |-> U({"FromERC20"}) /\ C10_FromERC20H(pre, ev, st, ghPre.h),
   C10_SumConstH |-> C10_SumConstH(pre, ev, st, ghPre.h),
   X09_RecordsAsHistory |-> X09_RecordsAsHistory(st, gh.h),
   \* diagnostics beyond the listed properties
   X09_SupplyLedger |-> X09_SupplyLedger(st, gh),
   X09_FeeQuote |-> X09_FeeQuote(pre, ev),
   X09_BurnQuery |-> obs.qdiff = 0,
   X10_ContractUnique |-> X10_ContractUnique(st),
   X10_DeployBinds |-> X10_DeployBinds(pre, ev, st),
   X10_HookIgnores |-> X10_HookIgnores(pre, ev, st),
   X10_Upgrade |-> X10_Upgrade(pre, ev, st),
   X12_Token_Accepted |-> X12_Token_Accepted_ModF12(st),
   X12_Token_RoundTrip |-> X12_Token_RoundTrip(st)]

Failing == IF ev.name = "Init" THEN {} ELSE {c \in DOMAIN Clauses : ~Clauses[c]}

(* Evaluated by TLC in every state; always TRUE, reports as a side effect *)
Monitor == Failing = {} \/ PrintT(<<"CLAUSE-FAIL", l - 1, Failing, Apply(pre, ev).why>>)

(* antecedent counters (vacuity) *)
FracBurn(s, e) ==
  /\ HasMinUnit(s, e.mu) /\ TokOf(s, e.mu).scale > 0
  /\ e.amt % Pow10(TokOf(s, e.mu).scale) # 0
OwnerOp(e) == e.name \in {"Edit", "TransferOwner"}
NotOwner(s, e) ==
  \/ (OwnerOp(e) /\ e.sym \in DOMAIN s.tok /\ s.tok[e.sym].owner # e.who)
  \/ (e.name = "Mint" /\ HasMinUnit(s, e.mu) /\ TokOf(s, e.mu).owner # e.who)

(* negative probing: what kind of wrong input a rejected event carried *)
UpSeq == <<"A", "B", "C", "D", "E", "F", "G", "H", "I", "J", "K", "L", "M",
           "N", "O", "P", "Q", "R", "S", "T", "U", "V", "W", "X", "Y", "Z">>
LoSeq == <<"a", "b", "c", "d", "e", "f", "g", "h", "i", "j", "k", "l", "m",
           "n", "o", "p", "q", "r", "s", "t", "u", "v", "w", "x", "y", "z">>
LowerChar(c) == IF c \in UpperC THEN LoSeq[CHOOSE i \in 1..26 : UpSeq[i] = c] ELSE c
RECURSIVE ToLower(_)
ToLower(x) == IF Len(x) = 0 THEN "" ELSE LowerChar(CharAt(x, 1)) \o ToLower(SubSeq(x, 2, Len(x)))
MsgNames == {"Issue", "Edit", "TransferOwner", "Mint", "Burn", "SwapFee", "Deploy", "ToERC20", "FromERC20"}
CoinMsgs == {"Mint", "Burn", "SwapFee", "ToERC20", "FromERC20"}
Idents(e) == IF e.name \in MsgNames \/ GenuineHook(e) THEN {e.sym, e.mu} \ {""} ELSE {}
CaseTwin(s, x) == x # ToLower(x) /\ KnownDenom(s, ToLower(x))

Exercised ==
  IF ev.name = "Init" THEN {} ELSE
  LET w == Apply(pre, ev).why IN     \* (evaluated once per event)
  {c \in {"issue_ok", "edit_ok", "edit_max_ok", "edit_max_rej", "mint_ok", "mint_to_cap",
          "mint_over_cap_rej", "mint_not_mintable_rej", "burn_ok", "burn_frac", "transfer_ok",
          "old_owner_rej", "new_owner_ok", "not_owner_rej", "dup_symbol_rej", "dup_minunit_rej", "fee_tax_pos",
          "reject", "deploy_ok", "toerc_ok", "fromerc_ok", "conv_rej", "evm_fail_rej",
          "erc_disabled_rej", "blocked_rej", "hook_ok", "swapfee_ok", "swapfee_dust",
          "swapfee_panic", "lossless_row", "lossless_giveback", "lossless_ratio1",
          "deploy_native_ok", "deploy_ibc_ok", "deploy_twice_rej", "deploy_unknown_rej",
          "conv_native_ok", "hook_forged_ignored", "hook_forged_rej", "upgrade_ok", "upgrade_rej",
          "f12_shape", "fee_len_other", "issue_at_cap", "mint_room0_rej",
          "case_twin_rej", "reserved_rej", "len_max_ok", "len_over_rej", "fee_denom_rej", "cross_kind_rej",
          "amt0_rej", "bad_addr_rej", "module_owned_rej", "stranger_rej", "issue_cap_below_initial_rej",
          "to_module_rej", "not_deployed_rej", "conv_no_token_rej", "swap_no_route_rej", "deploy_disabled_rej",
          "deploy_evm_rej", "evm_noeffect_rej", "odd_coin_rej", "burn_to_zero", "prefix_rej",
          "beacon_unset_rej", "hook_bad_receiver_rej"} :
     CASE c = "issue_ok" -> ev.name = "Issue" /\ ev.ok
       [] c = "edit_ok" -> ev.name = "Edit" /\ ev.ok
       [] c = "edit_max_ok" -> ev.name = "Edit" /\ ev.ok /\ ev.max > 0
       [] c = "edit_max_rej" -> ev.name = "Edit" /\ ~ev.ok /\ w = "max_below_supply"
       [] c = "mint_ok" -> ev.name = "Mint" /\ ev.ok
       [] c = "mint_to_cap" -> ev.name = "Mint" /\ ev.ok /\ HasMinUnit(st, ev.mu)
                               /\ st.supply[ev.mu] = TokOf(st, ev.mu).max * Pow10(TokOf(st, ev.mu).scale)
       [] c = "mint_over_cap_rej" -> ev.name = "Mint" /\ ~ev.ok /\ w = "exceeds_cap"
       [] c = "mint_not_mintable_rej" -> ev.name = "Mint" /\ ~ev.ok /\ w = "not_mintable"
       [] c = "burn_ok" -> ev.name = "Burn" /\ ev.ok
       [] c = "burn_frac" -> ev.name = "Burn" /\ ev.ok /\ FracBurn(pre, ev)
       [] c = "transfer_ok" -> ev.name = "TransferOwner" /\ ev.ok
       [] c = "not_owner_rej" -> ~ev.ok /\ NotOwner(pre, ev)
       [] c = "old_owner_rej" -> ~ev.ok /\ NotOwner(pre, ev)
                                 /\ LET y == IF OwnerOp(ev) THEN ev.sym ELSE pre.byMinUnit[ev.mu]
                                    IN y \in DOMAIN gh.pastOwners /\ ev.who \in gh.pastOwners[y]
       [] c = "new_owner_ok" -> ev.ok /\ (OwnerOp(ev) \/ ev.name = "Mint")
                                /\ LET y == IF OwnerOp(ev) THEN ev.sym ELSE pre.byMinUnit[ev.mu]
                                   IN y \in DOMAIN gh.pastOwners /\ Cardinality(gh.pastOwners[y]) > 1
       [] c = "dup_symbol_rej" -> ev.name = "Issue" /\ ~ev.ok /\ ev.sym \in DOMAIN pre.tok
       [] c = "dup_minunit_rej" -> ev.name = "Issue" /\ ~ev.ok /\ ev.sym \notin DOMAIN pre.tok
                                   /\ HasMinUnit(pre, ev.mu)
       [] c = "fee_tax_pos" -> ev.name \in {"Issue", "Mint"} /\ ev.ok
                               /\ st.bal[FEEP][STAKE] > pre.bal[FEEP][STAKE]
                               /\ st.supply[STAKE] < pre.supply[STAKE]
       [] c = "reject" -> ~ev.ok
       [] c = "deploy_ok" -> ev.name = "Deploy" /\ ev.ok
       [] c = "toerc_ok" -> ev.name = "ToERC20" /\ ev.ok
       [] c = "fromerc_ok" -> ev.name = "FromERC20" /\ ev.ok
       [] c = "conv_rej" -> ev.name \in ConvMsgs /\ ~ev.ok
       [] c = "evm_fail_rej" -> ev.name \in ConvMsgs /\ ~ev.ok
                                /\ w \in {"evm_revert", "evm_postcheck", "unsupported_key"}
       [] c = "erc_disabled_rej" -> ev.name \in ConvMsgs /\ ~ev.ok /\ w = "erc20_disabled"
       [] c = "blocked_rej" -> ~ev.ok /\ w = "blocked"
       [] c = "hook_ok" -> GenuineHook(ev) /\ ev.ok
       [] c = "swapfee_ok" -> ev.name = "SwapFee" /\ ev.ok
       [] c = "swapfee_dust" -> ev.name = "SwapFee" /\ ev.ok /\ ev.burn < ev.amt
       [] c = "swapfee_panic" -> ev.name = "SwapFee" /\ ev.panic
       [] c = "deploy_native_ok" -> ev.name = "Deploy" /\ ev.ok /\ ev.mu = STAKE
       [] c = "deploy_ibc_ok" -> ev.name = "Deploy" /\ ev.ok /\ ev.mu # STAKE /\ ~HasMinUnit(pre, ev.mu)
       [] c = "deploy_twice_rej" -> ev.name = "Deploy" /\ ~ev.ok /\ w = "already_deployed"
       [] c = "deploy_unknown_rej" -> ev.name = "Deploy" /\ ~ev.ok
                                     /\ w \in {"no_token", "symbol_exists"}
       [] c = "conv_native_ok" -> ev.name \in ConvMsgs /\ ev.ok /\ ev.mu = STAKE /\ ev.sym = ""
       [] c = "hook_forged_ignored" -> ev.name = "Hook" /\ ev.sym # "" /\ ev.ok
       [] c = "hook_forged_rej" -> ev.name = "Hook" /\ ev.sym # "" /\ ~ev.ok
       [] c = "upgrade_ok" -> ev.name = "Upgrade" /\ ev.ok
       [] c = "upgrade_rej" -> ev.name = "Upgrade" /\ ~ev.ok
       [] c = "f12_shape" -> F12Shape(st)
       [] c = "fee_len_other" -> ev.name = "Issue" /\ ev.ok /\ Len(ev.sym) > 3
       [] c = "issue_at_cap" -> ev.name = "Issue" /\ ev.ok /\ ev.sym \in DOMAIN st.tok
                                /\ st.tok[ev.sym].mintable /\ st.tok[ev.sym].max = st.tok[ev.sym].initial
                                /\ st.tok[ev.sym].initial > 0
       [] c = "mint_room0_rej" -> ev.name = "Mint" /\ ~ev.ok /\ w = "exceeds_cap"
                                  /\ pre.supply[ev.mu] = TokOf(pre, ev.mu).max * Pow10(TokOf(pre, ev.mu).scale)
       [] c = "case_twin_rej" -> ~ev.ok /\ \E x \in Idents(ev) : CaseTwin(pre, x)
       [] c = "reserved_rej" -> ~ev.ok /\ \E x \in Idents(ev) : Keyword(x) /\ x \notin IBCDenoms
       [] c = "prefix_rej" -> ~ev.ok /\ \E x \in Idents(ev) : ~KnownDenom(pre, x) /\
                                 \E y \in DOMAIN pre.tok \cup DOMAIN pre.byMinUnit :
                                   (HasPrefix(y, x) \/ HasPrefix(x, y)) /\ Len(x) # Len(y)
       [] c = "len_max_ok" -> ev.name = "Issue" /\ ev.ok /\ (Len(ev.sym) = 64 \/ Len(ev.mu) = 64)
       [] c = "len_over_rej" -> ev.name = "Issue" /\ ~ev.ok /\ (Len(ev.sym) > 64 \/ Len(ev.mu) > 64)
       [] c = "fee_denom_rej" -> ev.name = "Issue" /\ ~ev.ok /\ (ev.sym = STAKE \/ ev.mu = STAKE)
       [] c = "cross_kind_rej" -> ~ev.ok /\
            \/ (ev.name \in CoinMsgs /\ ev.mu \in DOMAIN pre.tok /\ ~HasMinUnit(pre, ev.mu))
            \/ (OwnerOp(ev) /\ HasMinUnit(pre, ev.sym) /\ ev.sym \notin DOMAIN pre.tok)
       [] c = "amt0_rej" -> ~ev.ok /\ ev.name \in CoinMsgs /\ ev.amt = 0
       [] c = "bad_addr_rej" -> ~ev.ok /\ ev.name \in {"Mint", "TransferOwner", "SwapFee", "FromERC20", "ToERC20"}
                                /\ ev.to # "" /\ ev.to \notin DOMAIN pre.bal \cup {EXT}
       [] c = "hook_bad_receiver_rej" -> GenuineHook(ev) /\ ~ev.ok /\ w = "bad_log"
       [] c = "module_owned_rej" -> ~ev.ok /\ OwnerOp(ev) /\ ev.sym \in DOMAIN pre.tok /\ pre.tok[ev.sym].owner = TOK
       [] c = "stranger_rej" -> ~ev.ok /\ NotOwner(pre, ev)
                                /\ LET y == IF OwnerOp(ev) THEN ev.sym ELSE pre.byMinUnit[ev.mu]
                                   IN y \in DOMAIN gh.pastOwners /\ ev.who \notin gh.pastOwners[y]
       [] c = "issue_cap_below_initial_rej" -> ev.name = "Issue" /\ ~ev.ok /\ ev.max > 0 /\ ev.max < ev.initial
                                               /\ ev.mintable = "false"
       [] c = "to_module_rej" -> ~ev.ok /\ ev.to = TOK /\ w = "blocked"
       [] c = "not_deployed_rej" -> ev.name \in ConvMsgs /\ ~ev.ok /\ w = "not_deployed"
       [] c = "conv_no_token_rej" -> ev.name \in ConvMsgs /\ ~ev.ok /\ w = "no_token"
       [] c = "swap_no_route_rej" -> ev.name = "SwapFee" /\ ~ev.ok /\ w = "no_swap"
       [] c = "deploy_disabled_rej" -> ev.name = "Deploy" /\ ~ev.ok /\ w = "erc20_disabled"
       [] c = "beacon_unset_rej" -> ev.name \in {"Deploy", "Upgrade"} /\ ~ev.ok /\ w = "no_beacon"
       [] c = "deploy_evm_rej" -> ev.name = "Deploy" /\ ~ev.ok /\ w = "evm_revert"
       [] c = "evm_noeffect_rej" -> ev.name \in ConvMsgs /\ ~ev.ok /\ w = "evm_postcheck" /\ ev.amt = 1
       [] c = "odd_coin_rej" -> ~ev.ok /\ ev.name \in CoinMsgs \cup {"Deploy", "Issue"} /\ ev.mu \in OddFunded
                                /\ ev.mu \in DOMAIN pre.supply
       [] c = "burn_to_zero" -> ev.name = "Burn" /\ ev.ok /\ HasMinUnit(pre, ev.mu) /\ st.supply[ev.mu] = 0
       [] c = "lossless_row" -> ev.name = "LossLess" /\ ev.ok
       [] c = "lossless_giveback" -> ev.name = "LossLess" /\ ev.ok /\ ev.burn # ev.amt
       [] c = "lossless_ratio1" -> ev.name = "LossLess" /\ ev.ok /\ ev.rn = ev.rd /\ ev.burn # ev.amt}
Coverage == Exercised = {} \/ PrintT(<<"EXERCISED", Exercised>>)

Report == (l = Len(Trace) + 1) => PrintT(<<"TRACE-END", Len(Trace), drift, driftAt>>)

DriftReport == (drift > 0 /\ driftAt = l - 1) =>
  PrintT(<<"DRIFT", driftAt, ev.name, ev, Apply(pre, ev).why>>)

TraceAccepted == TLCGet("stats").diameter = Len(Trace)

Alias == [l |-> l, ev |-> ev]
=============================================================================
