SPECIFICATION Spec
CONSTANTS
  Users = {"u1", "u2", "u3"}
  MinUnitsC = {"maa"}
  RecordHist = FALSE
  Owners = {"u1"}
  Symbols = {"aaa"}
  Scales = {1}
  Initials = {2}
  Maxes = {2, 3}
  Amounts = {5, 10}
  EditMaxes = {0, 1, 3}
  EditMint = {"", "true", "false"}
  MintTo = {"", "u3"}
  TransferTo = {"u2", "feepool"}
  MaxTokens = 1
  InitStake = 7
  BaseFee = 5
  TaxNum = 2
  TaxDen = 5
  MintNum = 1
  MintDen = 2
  TaxNums = {2}
  Acts = {"Issue", "Edit", "TransferOwner", "Mint", "Burn"}
  Prologue = "none"
  PScaleA = 1
  PScaleB = 0
  ConvAmounts = {}
  ConvTo = {}
  RegIn = ""
  RegOut = ""
  RegRn = 1
  RegRd = 1
  SwapAmounts = {}
  MaxRej = 2
  Sample = FALSE
  InitIbc = 0
  DeployExtra = {}
  HookVariants = {}
  UpgradeTo = {}
  MathMaxIn = 0
  MathScales = {0}
VIEW View
INVARIANTS
  Inv_X10_ContractUnique
  Inv_X12_Token_Accepted_ModF12
  Inv_X12_Token_RoundTrip
PROPERTIES
  Act_X09_SupplyLedger
  Act_X09_FeeQuote
  Act_X10_DeployBinds
  Act_X10_HookIgnores
  Act_X10_Upgrade
  Act_C09_IdentityGh
  Act_C09_Identity
  Act_C09_Authority
  Act_C09_Cap
  Act_C09_Burned
  Act_C09_Fee
  Act_C09_IssueFresh
  Act_C09_AuthorityH
  Act_C09_CapH
  Act_C09_BurnedH
  Act_C09_FeeH
  Act_X09_RecordsAsHistory
  Act_Rejected_NoEffect
CHECK_DEADLOCK FALSE
