SPECIFICATION Spec
CONSTANTS
  Users = {"u1"}
  RDenoms = {"rw1"}
  LP = "lpt-1"
  FeeDenom = "stake"
  RecordHist = FALSE
  MaxH = 7
  MaxStake = 1
  MaxPools = 0
  Prec = 10
  InitLP = 1
  InitR = 6
  Fee = 5
  TaxNum = 2
  TaxDen = 5
  RewardTotals = {}
  RewardRates = {2}
  MaxStart = 0
  TopUps = {}
  Donations = {}
  Creators = {}
  Proposers = {"g1"}
  GovOn = TRUE
  InitCP = 8
  MaxProps = 2
  CPTotals = {4}
  Deposits = {2, 4}
  GovMinDep = 4
  GovThr = 2
  GovDP = 2
  GovVP = 1
  CancelNum = 1
  CancelDen = 2
  BurnPre = FALSE
  BurnQ = FALSE
  BurnV = TRUE
VIEW View
INVARIANTS
  Inv_C12_Farm_Accepted
  Inv_C05_StakeSum
  Inv_C05_Escrow
  Inv_C06_Budget
  Inv_C06_Funded
  Inv_C06_ProRata
  Inv_C06_EndedEmpty
  Inv_C13_QueueSound
  Inv_C13_QueueComplete
  Inv_X05_EscrowConservation
  Inv_X05_DepositsBacked
  Inv_X05_SupplyClosed
  Inv_X12_Farm_Escrow
  Inv_X06_OneOutcome_ModCancel
PROPERTIES
  Act_Gh_C06_Budget
  Act_Gh_C06_Funded
  Act_Gh_C06_ProRata
  Act_Gh_C13_QueueComplete
  Act_C12_Farm_Queue
  Act_C05_UnstakeNeverFails_ModF2
  Act_Gh_C05_UnstakeNeverFailsH_ModF2
  Act_Gh_C05_StakeLedger
  Act_Gh_C06_RateSet
  Act_C05_UnstakeExact
  Act_C05_StakeExact
  Act_C05_OthersUntouched
  Act_Rejected_NoEffect
  Act_C06_Flows
  Act_C06_AdjustApplies
  Act_C06_Rate
  Act_C06_TouchAccrues
  Act_C06_RefundOnce
  Act_C13_OnceOnTime
  Act_Gh_X06_OneOutcome_ModCancel
  Act_X05_CommunityPool
  Act_X05_ProposerFrame
  Act_X06_ProposalRecorded
  Act_X06_GovPool
  Act_X06_VoteDecides
  Act_X12_Farm_RoundTrip
  Act_X06_CPNoPanic
  Act_X06_AdjustNoPanic
  Act_X06_AdjustGuard
CHECK_DEADLOCK FALSE
