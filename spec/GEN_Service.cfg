SPECIFICATION GenSpec
CONSTANTS
  RecordHist = TRUE
  FixF4 = FALSE
  FixF36 = TRUE
  Users = {"u1", "u2", "u3", "u4"}
  Consumers = {"u3", "u4"}
  Actors = {"u3", "u4", "u1"}
  MaxH = 16
  MaxCtx = 3
  InitBal = 30
  TaxNum = 1
  TaxDen = 2
  SlashNum = 1
  SlashDen = 2
  MaxTimeout = 3
  MinMult = 1
  MinDepP = 2
  Wait = 2
  FeeCaps = {2, 4, 9}
  Timeouts = {1, 2}
  Freqs = {0, 2, 3}
  Totals = {2, 3}
  RepeatedVals = {TRUE, FALSE}
  Modules = TRUE
  BindOps = TRUE
  MDenoms = {"stake"}
  InitBtc = 0
  RateN = 0
  RateD = 1
  RateVals <- RateValsNone
  SetupSpec <- SetupA
  ProvSeqs <- ProvSeqsB
  UpdateSpecs <- UpdateSpecsA
CONSTRAINT GenConstraint
CHECK_DEADLOCK FALSE
