-------------------------------- MODULE MT --------------------------------
(***************************************************************************)
(* irismod/modules/mt — multi-tokens: classes ("denoms") with fungible     *)
(* token types, uint64 balances and supplies.                              *)
(*                                                                         *)
(* Transcribed branch by branch from                                       *)
(*   keeper/msg_server.go (IssueDenom, MintMT new / existing, EditMT,      *)
(*     TransferMT, BurnMT, TransferDenom),                                 *)
(*   keeper/keeper.go (IssueDenom, IssueMT, MintMT, EditMT, TransferOwner, *)
(*     BurnMT, TransferDenomOwner), keeper/balance.go (AddBalance with its *)
(*     overflow guard, the UNCHECKED SubBalance / decreaseMTSupply,        *)
(*     Transfer, IncreaseMTSupply, IncreaseDenomSupply),                   *)
(*   keeper/denom.go, keeper/mt.go (Authorize, genDenomID, genMTID and the *)
(*     two sequences), types/msgs.go (ValidateBasic).                      *)
(*                                                                         *)
(* Numbers.  The code computes in uint64.  maxU (a field of the state) is  *)
(* the largest representable amount: MaxU = 7 in the exhaustive configs so *)
(* that every overflow / underflow guard is on a path; in traces of the    *)
(* real code the harness maps a real amount  a * 2^63 + v  (a in 0..2,     *)
(* |v| < 2^27) to  a * 2^28 + v  and logs maxU = 2 * 2^28 - 1, the image   *)
(* of 2^64 - 1.  The map is injective, monotone and additive on such       *)
(* amounts, and sums >= 2^64 map above maxU, so guards, comparisons and    *)
(* wrap-arounds of the code coincide with the model's (DESIGN.md 4.2).     *)
(* Unchecked uint64 subtraction wraps: Wrap(x) = x mod (maxU + 1).         *)
(*                                                                         *)
(* Ids.  Class and token ids are sha256 hashes of "mt-denom-<seq>" and     *)
(* "mt-<seq>"; they are opaque here: the harness names them d1, d2, ...    *)
(* and m1, m2, ... in order of appearance and logs the id each successful  *)
(* issue generated (ev.gen).  The model generates "d" \o seq, "m" \o seq.  *)
(***************************************************************************)
EXTENDS Integers, Sequences, FiniteSets, TLC, Util, Json, IOUtils

CONSTANTS
  Users,       \* accounts
  Issuers,     \* accounts that issue classes in the model
  MaxD, MaxM,  \* bounds on the number of classes / token types (model checking)
  MaxU,        \* the model's stand-in for 2^64 - 1
  Amounts,     \* amounts used as arguments
  DataVals,    \* metadata values
  RecordHist

VARIABLES st, ev, gh, hist
vars == <<st, ev, gh, hist>>

KEEP == "keep"          \* types.DoNotModify
UsersOf(t) == DOMAIN t.bal

DId(n) == "d" \o ToString(n)
MId(n) == "m" \o ToString(n)

NoEv == [name |-> "Init", who |-> "", cls |-> "", id |-> "", to |-> "", amt |-> 0,
         data |-> "", cname |-> "", ok |-> TRUE, panic |-> FALSE, gen |-> "", form |-> ""]

(***************************************************************************)
(* Unusual inputs (round 7).  ev.cls / ev.id name the object meant; ev.form *)
(* says how the message WRITES the two ids (the harness builds the strings):*)
(*   ""           as they are                                               *)
(*   "split"      DenomId = <class>/<first half of the token id>, Id = the  *)
(*                rest (store keys are the ids joined by "/", types/keys.go; *)
(*                generated ids are hex strings, so the re-split key is     *)
(*                another key: nothing there, and no such class)            *)
(*   "idupper" / "idprefix"   the token id in upper case / without its last *)
(*                character: another key, nothing there                     *)
(*   "idspace"    the token id between blanks: MsgMintMT trims the id       *)
(*                (msg_server.go), the other messages do not                *)
(*   "clsupper" / "clsprefix" / "clsspace"   the same for the class id (no  *)
(*                message trims it)                                         *)
(* An account that cannot sign ("mod": a module account in the harness) can *)
(* be named as recipient and hold tokens; a message naming it as sender is  *)
(* refused before it reaches the module.                                    *)
(***************************************************************************)
IdForms == {"idupper", "idprefix", "idspace"}
ClsForms == {"clsupper", "clsprefix", "clsspace"}
FormsAll == {"", "split"} \cup IdForms \cup ClsForms
FormsGen == {"", "idupper", "idspace", "clsprefix"}    \* the probe generator's choice
Unsignable == {"mod"}
(* does the written class id name the class (lookups by the messages that authorize)? *)
ClsFound(f) == f \notin ClsForms \cup {"split"}
(* do the written ids address the balance / supply entries of (cls, id)? *)
SameEntry(f) == f = ""

-----------------------------------------------------------------------------
Fail(s, w) == [ok |-> FALSE, panic |-> FALSE, st |-> s, why |-> w, gen |-> ""]
Done(s, g) == [ok |-> TRUE, panic |-> FALSE, st |-> s, why |-> "", gen |-> g]

HasDenom(s, c) == c \in DOMAIN s.cls
HasMT(s, c, m) == c \in DOMAIN s.mts /\ m \in DOMAIN s.mts[c]
(* GetBalance / GetMTSupply: 0 when there is no entry *)
BalOf(s, a, c, m) ==
  IF a \in DOMAIN s.bal /\ c \in DOMAIN s.bal[a] /\ m \in DOMAIN s.bal[a][c] THEN s.bal[a][c][m] ELSE 0
SupOf(s, c, m) == IF HasMT(s, c, m) THEN s.mts[c][m].supply ELSE 0

Wrap(s, x) == x % (s.maxU + 1)         \* uint64 arithmetic

(* keeper/mt.go Authorize *)
AuthErr(s, c, who) ==
  IF ~HasDenom(s, c) THEN "no_class"
  ELSE IF s.cls[c].owner # who THEN "unauthorized" ELSE ""

(* balance.go AddBalance: [ok, bal] *)
AddBal(s, bal, a, c, m, amt) ==
  LET cur == IF a \in DOMAIN bal /\ c \in DOMAIN bal[a] /\ m \in DOMAIN bal[a][c] THEN bal[a][c][m] ELSE 0 IN
  IF s.maxU - cur < amt THEN [ok |-> FALSE, bal |-> bal]
  ELSE [ok |-> TRUE, bal |-> [bal EXCEPT ![a][c] = Put(@, m, cur + amt)]]
(* balance.go SubBalance: unchecked *)
SubBal(s, bal, a, c, m, amt) ==
  LET cur == IF a \in DOMAIN bal /\ c \in DOMAIN bal[a] /\ m \in DOMAIN bal[a][c] THEN bal[a][c][m] ELSE 0 IN
  [bal EXCEPT ![a][c] = Put(@, m, Wrap(s, cur - amt))]

(* msg_server.go IssueDenom: ValidateBasic (name required), genDenomID, SetDenom *)
DoIssueDenom(s, who, cname, data) ==
  IF who \in Unsignable THEN Fail(s, "unsignable")
  ELSE IF cname \in {"", " "} THEN Fail(s, "invalid")
  ELSE
    LET id == DId(s.seqD) IN
    Done([s EXCEPT
            !.seqD = @ + 1,
            !.cls = Put(@, id, [owner |-> who, name |-> cname, data |-> data]),
            !.mts = IF id \in DOMAIN @ THEN @ ELSE Put(@, id, EmptyF),
            !.supC = IF id \in DOMAIN @ THEN @ ELSE Put(@, id, 0),
            !.bal = [a \in DOMAIN @ |-> IF id \in DOMAIN @[a] THEN @[a] ELSE Put(@[a], id, EmptyF)]],
         id)

(* msg_server.go MintMT -> keeper.go IssueMT / MintMT *)
DoMintMT(s, who, c, m, amt, data, to, f) ==
  IF who \in Unsignable THEN Fail(s, "unsignable")
  ELSE IF c = "" \/ amt <= 0 \/ (m # "" /\ data # "") THEN Fail(s, "invalid")      \* ValidateBasic
  ELSE
    LET rcpt == IF to = "" THEN who ELSE to
        auth == IF ClsFound(f) THEN AuthErr(s, c, who) ELSE "no_class"
    IN
    IF auth # "" THEN Fail(s, auth)
    ELSE IF m # "" THEN
      IF ~HasMT(s, c, m) \/ f \in {"idupper", "idprefix"} THEN Fail(s, "no_mt")   \* the id is trimmed first
      ELSE IF s.maxU - SupOf(s, c, m) < amt THEN Fail(s, "overflow")          \* IncreaseMTSupply
      ELSE
        LET a == AddBal(s, s.bal, rcpt, c, m, amt) IN
        IF ~a.ok THEN Fail(s, "overflow")
        ELSE Done([s EXCEPT !.mts[c][m].supply = @ + amt, !.bal = a.bal], "")
    ELSE
      LET id == MId(s.seqM)                                                    \* genMTID
          sup0 == SupOf(s, c, id)
      IN
      IF s.maxU - sup0 < amt THEN Fail(s, "overflow")
      ELSE
        LET s1 == [s EXCEPT
                     !.seqM = @ + 1,
                     !.mts[c] = Put(@, id, [data |-> data, supply |-> sup0 + amt]),   \* SetMT, IncreaseMTSupply
                     !.supC[c] = @ + 1,                                                \* IncreaseDenomSupply
                     !.bal = [a \in DOMAIN @ |-> [@[a] EXCEPT ![c] =
                                IF id \in DOMAIN @ THEN @ ELSE Put(@, id, 0)]]]
            a == AddBal(s1, s1.bal, rcpt, c, id, amt)
        IN IF ~a.ok THEN Fail(s, "overflow") ELSE Done([s1 EXCEPT !.bal = a.bal], id)

(* msg_server.go EditMT -> keeper.go EditMT *)
DoEditMT(s, who, c, m, data, f) ==
  IF who \in Unsignable THEN Fail(s, "unsignable")
  ELSE IF c = "" \/ m = "" THEN Fail(s, "invalid")
  ELSE
    LET auth == IF ClsFound(f) THEN AuthErr(s, c, who) ELSE "no_class" IN
    IF auth # "" THEN Fail(s, auth)
    ELSE IF ~HasMT(s, c, m) \/ f \in IdForms THEN Fail(s, "no_mt")
    ELSE IF data = KEEP THEN Done(s, "")
    ELSE Done([s EXCEPT !.mts[c][m].data = data], "")

(* msg_server.go TransferMT -> keeper.go TransferOwner -> balance.go Transfer *)
DoTransferMT(s, who, c, m, amt, to, f) ==
  IF who \in Unsignable THEN Fail(s, "unsignable")
  ELSE IF c = "" \/ m = "" \/ amt <= 0 THEN Fail(s, "invalid")
  ELSE IF ~SameEntry(f) \/ BalOf(s, who, c, m) < amt THEN Fail(s, "insufficient")
  ELSE
    LET b1 == SubBal(s, s.bal, who, c, m, amt)
        a == AddBal(s, b1, to, c, m, amt)
    IN IF ~a.ok THEN Fail(s, "overflow") ELSE Done([s EXCEPT !.bal = a.bal], "")

(* msg_server.go BurnMT -> keeper.go BurnMT *)
DoBurnMT(s, who, c, m, amt, f) ==
  IF who \in Unsignable THEN Fail(s, "unsignable")
  ELSE IF c = "" \/ m = "" \/ amt <= 0 THEN Fail(s, "invalid")
  ELSE IF ~SameEntry(f) \/ BalOf(s, who, c, m) < amt THEN Fail(s, "insufficient")
  ELSE Done([s EXCEPT !.bal = SubBal(s, s.bal, who, c, m, amt),
                      !.mts[c][m].supply = Wrap(s, @ - amt)], "")             \* decreaseMTSupply

(* msg_server.go TransferDenom -> keeper.go TransferDenomOwner *)
DoTransferDenom(s, who, c, to, f) ==
  IF who \in Unsignable THEN Fail(s, "unsignable")
  ELSE IF c = "" THEN Fail(s, "invalid")
  ELSE
    LET auth == IF ClsFound(f) THEN AuthErr(s, c, who) ELSE "no_class" IN
    IF auth # "" THEN Fail(s, auth)
    ELSE Done([s EXCEPT !.cls[c].owner = to], "")

Apply(s, e) ==
  CASE e.name = "IssueDenom"    -> DoIssueDenom(s, e.who, e.cname, e.data)
    [] e.name = "MintMT"        -> DoMintMT(s, e.who, e.cls, e.id, e.amt, e.data, e.to, e.form)
    [] e.name = "EditMT"        -> DoEditMT(s, e.who, e.cls, e.id, e.data, e.form)
    [] e.name = "TransferMT"    -> DoTransferMT(s, e.who, e.cls, e.id, e.amt, e.to, e.form)
    [] e.name = "BurnMT"        -> DoBurnMT(s, e.who, e.cls, e.id, e.amt, e.form)
    [] e.name = "TransferDenom" -> DoTransferDenom(s, e.who, e.cls, e.to, e.form)
    [] e.name = "EndBlock"      -> Done(s, "")
    [] OTHER -> Fail(s, "unknown")

-----------------------------------------------------------------------------
(* Ghosts, from the observed (s, e, t) only: every class / token id seen so
   far, and whether the id generated by the last event had been seen before *)
AllMTs(t) == UNION {DOMAIN t.mts[c] : c \in DOMAIN t.mts}
(* hown (audit after round 7; read by the C15_Hist* clauses): the owner of every
   class according to the ACCEPTED MESSAGES - the sender of the accepted issue
   that generated the id, then the recipient of every accepted handover - never
   what the class record says.  Starts from the state a history starts in. *)
GhostInit == [everD |-> {}, everM |-> {}, reused |-> FALSE, handed |-> {}, exOwner |-> {}, exHolder |-> {},
              hown |-> EmptyF]
GhostOf(t) == [everD |-> DOMAIN t.cls, everM |-> AllMTs(t), reused |-> FALSE, handed |-> {}, exOwner |-> {}, exHolder |-> {},
               hown |-> [c \in DOMAIN t.cls |-> t.cls[c].owner]]

IsIssue(e) == e.name = "IssueDenom" /\ e.ok
IsMintNew(e) == e.name = "MintMT" /\ e.ok /\ e.id = ""

HistOwn(hown, e) ==
  IF IsIssue(e) THEN Put(hown, e.gen, e.who)
  ELSE IF e.name = "TransferDenom" /\ e.ok /\ e.cls \in DOMAIN hown THEN [hown EXCEPT ![e.cls] = e.to]
  ELSE hown

GhostStep(g, s, e, t) ==
  [everD |-> g.everD \cup DOMAIN t.cls \cup (IF IsIssue(e) THEN {e.gen} ELSE {}),
   everM |-> g.everM \cup AllMTs(t) \cup (IF IsMintNew(e) THEN {e.gen} ELSE {}),
   reused |-> \/ IsIssue(e) /\ e.gen \in (g.everD \cup DOMAIN s.cls)
              \/ IsMintNew(e) /\ e.gen \in (g.everM \cup AllMTs(s)),
   handed |-> g.handed \cup {c \in DOMAIN s.cls : c \in DOMAIN t.cls /\ t.cls[c].owner # s.cls[c].owner},
   exOwner |-> g.exOwner, exHolder |-> g.exHolder,
   hown |-> HistOwn(g.hown, e)]
(* coverage ghosts, maintained by the trace specification only (never read by a
   clause): <<c, a>>: a owned class c before; <<a, c, m>>: a held token (c, m) before *)
CovStep(g, s, e, t) ==
  [GhostStep(g, s, e, t) EXCEPT
     !.exOwner = g.exOwner \cup
       {<<c, s.cls[c].owner>> : c \in {d \in DOMAIN s.cls : d \in DOMAIN t.cls /\ t.cls[d].owner # s.cls[d].owner}},
     !.exHolder = g.exHolder \cup
       {x \in UsersOf(s) \X (DOMAIN s.cls) \X AllMTs(s) : BalOf(s, x[1], x[2], x[3]) > 0}]

-----------------------------------------------------------------------------
(***************************************************************************)
(* Property clauses (C15)                                                  *)
(***************************************************************************)
Rcpt(e) == IF e.to = "" THEN e.who ELSE e.to

(* the holdings: every (account, class, token) triple that has an entry *)
Triples(t) == {x \in UsersOf(t) \X (DOMAIN t.cls) \X AllMTs(t) :
                 x[2] \in DOMAIN t.bal[x[1]] /\ x[3] \in DOMAIN t.bal[x[1]][x[2]]}
Pairs(t) == {x \in (DOMAIN t.mts) \X AllMTs(t) : x[2] \in DOMAIN t.mts[x[1]]}

(* For every multi-token the sum of all holders' balances = recorded supply;
   nobody holds a token type that has no record *)
C15_Sum(t) ==
  /\ \A c \in DOMAIN t.mts : \A m \in DOMAIN t.mts[c] :
       SumOver([a \in UsersOf(t) |-> BalOf(t, a, c, m)], UsersOf(t)) = t.mts[c][m].supply
  /\ \A a \in UsersOf(t) : \A c \in DOMAIN t.bal[a] : \A m \in DOMAIN t.bal[a][c] :
       t.bal[a][c][m] # 0 => HasMT(t, c, m)

(* nothing but the named balances / supplies changes *)
BalSame(s, t, except) ==
  /\ \A x \in Triples(s) : x \notin except => BalOf(t, x[1], x[2], x[3]) = BalOf(s, x[1], x[2], x[3])
  /\ \A x \in Triples(t) : x \notin except => BalOf(t, x[1], x[2], x[3]) = BalOf(s, x[1], x[2], x[3])
SupSame(s, t, except) ==
  /\ \A x \in Pairs(s) : x \notin except => SupOf(t, x[1], x[2]) = SupOf(s, x[1], x[2])
  /\ \A x \in Pairs(t) : x \notin except => SupOf(t, x[1], x[2]) = SupOf(s, x[1], x[2])

(* A transfer requires the sender to hold the amount and moves exactly it;
   a transfer to oneself changes nothing; no other holding, no supply moves *)
C15_Transfer(s, e, t) ==
  (e.name = "TransferMT" /\ e.ok) =>
    /\ e.amt > 0 /\ BalOf(s, e.who, e.cls, e.id) >= e.amt
    /\ IF e.to = e.who
       THEN BalOf(t, e.who, e.cls, e.id) = BalOf(s, e.who, e.cls, e.id)
       ELSE /\ BalOf(t, e.who, e.cls, e.id) = BalOf(s, e.who, e.cls, e.id) - e.amt
            /\ BalOf(t, e.to, e.cls, e.id) = BalOf(s, e.to, e.cls, e.id) + e.amt
    /\ BalSame(s, t, {<<e.who, e.cls, e.id>>, <<e.to, e.cls, e.id>>})
    /\ SupSame(s, t, {})

(* A burn reduces the burner's balance and the supply by the same amount *)
C15_Burn(s, e, t) ==
  (e.name = "BurnMT" /\ e.ok) =>
    /\ e.amt > 0 /\ BalOf(s, e.who, e.cls, e.id) >= e.amt
    /\ BalOf(t, e.who, e.cls, e.id) = BalOf(s, e.who, e.cls, e.id) - e.amt
    /\ SupOf(t, e.cls, e.id) = SupOf(s, e.cls, e.id) - e.amt
    /\ BalSame(s, t, {<<e.who, e.cls, e.id>>})
    /\ SupSame(s, t, {<<e.cls, e.id>>})

(* No balance or supply ever wraps around: all of them stay in 0..maxU and
   every change is exactly the stated amount — a mint adds the amount to the
   recipient and to the supply (a new token type starts from nothing), and no
   other kind of step changes any balance or supply *)
C15_Range(s, e, t) ==
  /\ \A x \in Triples(t) : t.bal[x[1]][x[2]][x[3]] >= 0 /\ t.bal[x[1]][x[2]][x[3]] <= t.maxU
  /\ \A x \in Pairs(t) : t.mts[x[1]][x[2]].supply >= 0 /\ t.mts[x[1]][x[2]].supply <= t.maxU
  /\ (e.name = "MintMT" /\ e.ok) =>
       LET m == IF e.id = "" THEN e.gen ELSE e.id IN
       /\ e.amt > 0
       /\ BalOf(t, Rcpt(e), e.cls, m) = BalOf(s, Rcpt(e), e.cls, m) + e.amt
       /\ SupOf(t, e.cls, m) = SupOf(s, e.cls, m) + e.amt
       /\ BalSame(s, t, {<<Rcpt(e), e.cls, m>>})
       /\ SupSame(s, t, {<<e.cls, m>>})
  /\ (~(e.ok /\ e.name \in {"MintMT", "TransferMT", "BurnMT"})) =>
       BalSame(s, t, {}) /\ SupSame(s, t, {})

(* Only the owner of a class creates or mints its tokens, edits their
   metadata or hands the class over — as results of messages, and as frame:
   no token type appears, no metadata changes, no class changes hands in any
   other way *)
C15_Authority(s, e, t) ==
  /\ (e.name \in {"MintMT", "EditMT", "TransferDenom"} /\ e.ok) =>
       HasDenom(s, e.cls) /\ s.cls[e.cls].owner = e.who
  /\ \A c \in DOMAIN s.cls :
       (c \in DOMAIN t.cls /\ t.cls[c].owner # s.cls[c].owner) =>
         e.name = "TransferDenom" /\ e.ok /\ e.cls = c
  /\ \A x \in Pairs(t) :
       /\ (~HasMT(s, x[1], x[2])) =>
            e.name = "MintMT" /\ e.ok /\ e.cls = x[1] /\ e.id = "" /\ e.gen = x[2]
       /\ (HasMT(s, x[1], x[2]) /\ t.mts[x[1]][x[2]].data # s.mts[x[1]][x[2]].data) =>
            e.name = "EditMT" /\ e.ok /\ e.cls = x[1] /\ e.id = x[2]
       /\ (SupOf(t, x[1], x[2]) > SupOf(s, x[1], x[2])) =>
            e.name = "MintMT" /\ e.ok /\ e.cls = x[1] /\ (e.id = x[2] \/ (e.id = "" /\ e.gen = x[2]))

(* Generated class and token ids are never reused: the id a successful issue
   generates was never seen before, and it names the new object *)
C15_FreshIds(s, e, t, g) ==
  /\ ~g.reused
  /\ IsIssue(e) => e.gen \notin DOMAIN s.cls /\ e.gen \in DOMAIN t.cls
  /\ IsMintNew(e) => e.gen \notin AllMTs(s) /\ HasMT(t, e.cls, e.gen)
  /\ \A c \in DOMAIN t.cls : c \notin DOMAIN s.cls => IsIssue(e) /\ e.gen = c

Rejected_NoEffect(s, e, t) ==
  (~e.ok \/ e.name = "EndBlock") => t = s

(***************************************************************************)
(* The authority statement judged from the HISTORY (audit after round 7).   *)
(* C15_Authority reads "the owner of a class" from the class record; a      *)
(* defect that writes that record wrongly (an issue that records another    *)
(* owner, a handover that records somebody else than the named recipient)   *)
(* makes it equally wrong on both sides.  Here the owner is the one the     *)
(* accepted messages made (ghost hown): g = the ledger BEFORE the event in  *)
(* C15_HistAuthority, AFTER it in C15_HistOwner.                            *)
(***************************************************************************)
(* an accepted mint (new or existing token) / edit / handover comes from the
   account the accepted messages made the owner of the class *)
C15_HistAuthority(e, g) ==
  (e.name \in {"MintMT", "EditMT", "TransferDenom"} /\ e.ok) =>
    e.cls \in DOMAIN g.hown /\ g.hown[e.cls] = e.who
(* every class is in the hands the accepted messages put it in: its issuer's,
   or the named recipient's of its last accepted handover *)
C15_HistOwner(t, g) ==
  \A c \in DOMAIN g.hown : HasDenom(t, c) /\ t.cls[c].owner = g.hown[c]

(***************************************************************************)
(* The same statements on the RAW STORE (round 7).  The harness scans the   *)
(* mt store after every event and logs, next to the query results above,   *)
(*   r.cls           the class keys                                        *)
(*   r.mts[c]        the ids of the token records of class c               *)
(*   r.sup[c][m]     the token supply entries                              *)
(*   r.bal[a][c][m]  the balance entries of EVERY address a (account names *)
(*                   for the tracked accounts, the address otherwise)      *)
(* and what the user-facing queries answer: q.sup[c][m] (MTSupply),        *)
(* q.bal[a][c][m] (Balances, page by page) for the tracked accounts.  The  *)
(* state's own balances are the keeper's getter, its supplies the MT query.*)
(* In the model queries are functions of the store: traces only.           *)
(***************************************************************************)
RawPairs(r) ==
  UNION {{<<c, m>> : m \in r.mts[c]} : c \in DOMAIN r.mts}
    \cup UNION {{<<c, m>> : m \in DOMAIN r.sup[c]} : c \in DOMAIN r.sup}
    \cup UNION {UNION {{<<c, m>> : m \in DOMAIN r.bal[a][c]} : c \in DOMAIN r.bal[a]} : a \in DOMAIN r.bal}
RawBal(r, a, c, m) ==
  IF a \in DOMAIN r.bal /\ c \in DOMAIN r.bal[a] /\ m \in DOMAIN r.bal[a][c] THEN r.bal[a][c][m] ELSE 0
RawSup(r, c, m) == IF c \in DOMAIN r.sup /\ m \in DOMAIN r.sup[c] THEN r.sup[c][m] ELSE 0

(* For every multi-token the sum of the balances of ALL holders in the store
   (not only the tracked accounts) equals the recorded supply; nobody holds,
   and no supply is recorded for, a token without a record *)
C15_StoreSum(r) ==
  \A x \in RawPairs(r) :
    /\ SumOver([a \in DOMAIN r.bal |-> RawBal(r, a, x[1], x[2])], DOMAIN r.bal) = RawSup(r, x[1], x[2])
    /\ (RawSup(r, x[1], x[2]) # 0 \/ \E a \in DOMAIN r.bal : RawBal(r, a, x[1], x[2]) # 0) =>
         x[1] \in DOMAIN r.mts /\ x[2] \in r.mts[x[1]]

(* What users are told is what the store holds: the supply of every token
   (MT query = the state's supply, MTSupply query) and the balances of the
   tracked accounts (Balances query, keeper getter = the state's balances) *)
C15_Reported(t, r, q) ==
  /\ \A x \in RawPairs(r) \cup Pairs(t) :
       /\ SupOf(t, x[1], x[2]) = RawSup(r, x[1], x[2])
       /\ (x[1] \in DOMAIN q.sup /\ x[2] \in DOMAIN q.sup[x[1]]) => q.sup[x[1]][x[2]] = RawSup(r, x[1], x[2])
       /\ \A a \in UsersOf(t) :
            /\ BalOf(t, a, x[1], x[2]) = RawBal(r, a, x[1], x[2])
            /\ RawBal(q, a, x[1], x[2]) = RawBal(r, a, x[1], x[2])
  /\ \A x \in Pairs(t) : x[1] \in DOMAIN q.sup /\ x[2] \in DOMAIN q.sup[x[1]]

(* diagnostics: class list and token lists of the queries = the store's *)
X15_ReadBack(t, r, q) ==
  /\ DOMAIN t.cls = r.cls
  /\ \A c \in r.cls : c \in DOMAIN t.mts /\ DOMAIN t.mts[c] = (IF c \in DOMAIN r.mts THEN r.mts[c] ELSE {})
  /\ DOMAIN r.mts \subseteq r.cls

(* Diagnostics outside the statement: class token-type counter, sequences,
   class records keep name/data, objects never disappear, named recipient of
   a handover becomes the owner *)
X15_Counters(t) ==
  /\ \A c \in DOMAIN t.cls : t.supC[c] = Cardinality(DOMAIN t.mts[c])
  /\ DOMAIN t.mts = DOMAIN t.cls
X15_Records(s, e, t) ==
  /\ \A c \in DOMAIN s.cls : c \in DOMAIN t.cls /\ t.cls[c].name = s.cls[c].name /\ t.cls[c].data = s.cls[c].data
  /\ \A x \in Pairs(s) : HasMT(t, x[1], x[2])
  /\ (e.name = "TransferDenom" /\ e.ok /\ HasDenom(t, e.cls)) => t.cls[e.cls].owner = e.to
  /\ t.seqD >= s.seqD /\ t.seqM >= s.seqM

(* read-back fidelity (C15 does not state it): class name / data / owner and
   token metadata are stored as submitted; the sentinel keeps the metadata *)
X15_Fidelity(s, e, t) ==
  /\ (IsIssue(e) /\ HasDenom(t, e.gen)) =>
       t.cls[e.gen] = [owner |-> e.who, name |-> e.cname, data |-> e.data]
  /\ (IsMintNew(e) /\ HasMT(t, e.cls, e.gen)) => t.mts[e.cls][e.gen].data = e.data
  /\ (e.name = "EditMT" /\ e.ok /\ HasMT(s, e.cls, e.id) /\ HasMT(t, e.cls, e.id)) =>
       t.mts[e.cls][e.id].data = (IF e.data = KEEP THEN s.mts[e.cls][e.id].data ELSE e.data)

-----------------------------------------------------------------------------
(* Model-checking universe *)
Init0 ==
  [maxU |-> MaxU, seqD |-> 1, seqM |-> 1, cls |-> EmptyF, mts |-> EmptyF, supC |-> EmptyF,
   bal |-> [a \in Users |-> EmptyF]]

Init == st = Init0 /\ ev = NoEv /\ gh = GhostInit /\ hist = <<>>

E(name, who, c, id, to, amt, data, cname) ==
  [name |-> name, who |-> who, cls |-> c, id |-> id, to |-> to, amt |-> amt,
   data |-> data, cname |-> cname, ok |-> TRUE, panic |-> FALSE, gen |-> "", form |-> ""]
EF(name, who, c, id, to, amt, data, cname, f) == [E(name, who, c, id, to, amt, data, cname) EXCEPT !.form = f]
(* how ids are written: plain in the exhaustive and first generator configs;
   the probe generator config overrides Forms with FormsAll *)
Forms == {""}

Step(e) ==
  \* the singleton quantifier makes TLC evaluate Apply once per transition
  \E r \in {Apply(st, e)} :
    LET e2 == [e EXCEPT !.ok = r.ok, !.panic = r.panic, !.gen = r.gen] IN
    /\ st' = r.st
    /\ ev' = e2
    /\ gh' = GhostStep(gh, st, e2, r.st)
    /\ hist' = IF RecordHist THEN Append(hist, e2) ELSE hist

DenomIds == {DId(n) : n \in 1..MaxD}
MTIds == {MId(n) : n \in 1..MaxM}
Data1 == CHOOSE d \in DataVals : TRUE

IssueDenom ==
  /\ st.seqD <= MaxD
  /\ \E who \in Issuers : Step(E("IssueDenom", who, "", "", "", 0, Data1, "n"))
MintNew ==
  /\ st.seqM <= MaxM
  /\ \E who \in Users, c \in DenomIds, a \in Amounts, to \in Users \cup {""}, f \in Forms :
       Step(EF("MintMT", who, c, "", to, a, Data1, "", f))
MintMore ==
  \E who \in Users, c \in DenomIds, m \in MTIds, a \in Amounts, to \in Users, f \in Forms :
    Step(EF("MintMT", who, c, m, to, a, "", "", f))
EditMT ==
  \E who \in Users, c \in DenomIds, m \in MTIds, d \in DataVals \cup {KEEP}, f \in Forms :
    Step(EF("EditMT", who, c, m, "", 0, d, "", f))
TransferMT ==
  \E who \in Users, c \in DenomIds, m \in MTIds, a \in Amounts, to \in Users, f \in Forms :
    Step(EF("TransferMT", who, c, m, to, a, "", "", f))
BurnMT ==
  \E who \in Users, c \in DenomIds, m \in MTIds, a \in Amounts, f \in Forms :
    Step(EF("BurnMT", who, c, m, "", a, "", "", f))
TransferDenom ==
  \E who \in Users, c \in DenomIds, to \in Users, f \in Forms :
    Step(EF("TransferDenom", who, c, "", to, 0, "", "", f))

Next == IssueDenom \/ MintNew \/ MintMore \/ EditMT \/ TransferMT \/ BurnMT \/ TransferDenom

Spec == Init /\ [][Next]_vars

Rejects(h) == Cardinality({i \in DOMAIN h : ~h[i].ok})
GenNext == Next /\ (ev'.ok \/ 3 * Rejects(hist) <= Len(hist) + 2)
GenSpec == Init /\ [][GenNext]_vars
GenDepth == atoi(IOEnv.GEN_DEPTH)
(* Second generator mode (negative probing): like GenNext, but the last
   ProbeLen events of every behaviour are events the specification REJECTS -
   a deep state (classes handed over, tokens with holders at zero, supplies
   burned to nothing or minted to the top) probed with operations that must
   fail; the first two of them are refusals that depend on the state (not on
   the shape of the message or the way an id is written).  The driver appends
   its epilogue, computed from the REAL chain state. *)
ProbeLen == 4
BasicWhys == {"unsignable", "invalid"}
GenNextP ==
  /\ Next
  /\ IF Len(hist) < GenDepth - ProbeLen
     THEN ev'.ok \/ 4 * Rejects(hist) <= Len(hist) + 2
     ELSE /\ ~ev'.ok
          /\ (Len(hist) < GenDepth - 2) => (Apply(st, ev').why \notin BasicWhys /\ ev'.form = "")
          \* TLC prints every successor of the last state (and the orchestrator keeps three of
          \* them): the very last probe stays with the sender, class and token of the one before
          /\ (Len(hist) = GenDepth - 1) =>
               /\ ev'.who = hist[Len(hist)].who /\ ev'.cls = hist[Len(hist)].cls
               /\ ev'.id \in {hist[Len(hist)].id, ""} /\ ev'.form = ""
GenSpecP == Init /\ [][GenNextP]_vars
GenConstraint ==
  /\ Len(hist) <= GenDepth
  /\ (Len(hist) = GenDepth) => PrintT(<<"BEHAVIOUR", ToJson(hist)>>)

-----------------------------------------------------------------------------
Inv_C15_Sum == C15_Sum(st)
Inv_X15_Counters == X15_Counters(st)
Act_C15_Transfer == [][C15_Transfer(st, ev', st')]_vars
Act_C15_Burn == [][C15_Burn(st, ev', st')]_vars
Act_C15_Range == [][C15_Range(st, ev', st')]_vars
Act_C15_Authority == [][C15_Authority(st, ev', st')]_vars
Act_C15_FreshIds == [][C15_FreshIds(st, ev', st', gh')]_vars
Act_Rejected_NoEffect == [][Rejected_NoEffect(st, ev', st')]_vars
Act_C15_HistAuthority == [][C15_HistAuthority(ev', gh)]_vars
Inv_C15_HistOwner == C15_HistOwner(st, gh)
Act_X15_Records == [][X15_Records(st, ev', st')]_vars
Act_X15_Fidelity == [][X15_Fidelity(st, ev', st')]_vars

View == st
=============================================================================
