SPECIFICATION GenSpecP
CONSTANTS
  Users = {"u1", "u2", "u3"}
  Tokens = {"btc", "eth"}
  Odd = {"voucher-1"}
  Std = "stake"
  RecordHist = TRUE
  InitStd = 20
  InitTok = 20
  InitOdd = 9
  CFee = 3
  FeeNum = 3
  FeeDen = 10
  UniNum = 2
  UniDen = 10
  TaxNum = 2
  TaxDen = 5
  Amts = {1, 2, 3, 5}
  Mins = {0, 1, 2, 4}
  Liqs = {1, 2, 3, 5}
  Donations = {1, 2}
  DlOffs = {0, 1, 2}
  MaxNow = 60
  Senders = {"u1", "u2", "u3"}
  Recipients = {"u1", "u2", "u3", "feepool", "module"}
  MaxSteps = 100
  DonateAlso = {"module", "feepool"}
  WithUni = TRUE
  WrongKind = TRUE
CONSTRAINT GenConstraintP
CHECK_DEADLOCK FALSE
