---------------------------- MODULE ParamsTrace ----------------------------
(***************************************************************************)
(* Validation of traces recorded by harness-params from the real modules   *)
(* against Params.tla.  One ndjson line per event:                         *)
(*   {"ev": <event + what the code did>, "st": {mod, params, valid}}       *)
(* params = the abstract parameter record of all five modules as read back *)
(* through the keepers; valid[m] = the module's own Params.Validate() on   *)
(* what is stored.  Traces are concatenated; "Init" starts a new chain.    *)
(*                                                                         *)
(* monitor: the C16 clauses are evaluated on (pre, ev, st) as observed —   *)
(*          failures are printed as CLAUSE-FAIL lines (verdicts).          *)
(* strict:  Apply(pre, gh, ev) — the specification's prediction of         *)
(*          acceptance, stored record, validity and operation outcome —    *)
(*          must agree with the log; a mismatch is DRIFT, never a verdict. *)
(***************************************************************************)
EXTENDS Params

VARIABLES l, pre, obs, preObs, drift, driftAt
tvars == <<st, ev, gh, hist, l, pre, obs, preObs, drift, driftAt>>

Trace == ndJsonDeserialize(IOEnv.TRACE_FILE)

FromLog(r) == [mod |-> r.mod, params |-> r.params]
ObsOf(r) == [valid |-> r.valid]

TraceInit ==
  /\ Trace[1].ev.name = "Init"
  /\ st = FromLog(Trace[1].st) /\ pre = FromLog(Trace[1].st)
  /\ obs = ObsOf(Trace[1].st) /\ preObs = ObsOf(Trace[1].st)
  /\ ev = Trace[1].ev @@ [why |-> ""] /\ gh = GhostInit /\ hist = <<>>
  /\ l = 2 /\ drift = 0 /\ driftAt = 0

(* does the log differ from what the specification predicts? *)
Drifts(s, g, e, t, o) ==
  LET r == Apply(s, g, e)
      v == IF e.name \in {"UpdateParams", "GenesisParams"} THEN ValidateM(e.module, e.p) ELSE "ok"
  IN \/ e.panic # (r.okc = "panic")
     \/ r.okc \in {"ok", "rej", "panic"} /\ e.ok # (r.okc = "ok")
     \/ t.params # r.st.params
     \/ e.name \in {"UpdateParams", "GenesisParams"} /\ (e.valid # (v = "ok") \/ e.vpanic # (v = "panic"))
     \/ \E m \in DOMAIN t.params : o.valid[m] # (ValidateM(m, t.params[m]) = "ok")

TraceNext ==
  /\ l <= Len(Trace)
  /\ LET e == Trace[l].ev
         t == FromLog(Trace[l].st)
         o == ObsOf(Trace[l].st)
     IN /\ st' = t /\ obs' = o
        /\ IF e.name = "Init"
           THEN /\ ev' = e @@ [why |-> ""]
                /\ gh' = GhostInit /\ pre' = t /\ preObs' = o
                /\ UNCHANGED <<drift, driftAt>>
           ELSE /\ ev' = e @@ [why |-> Apply(st, gh, e).why]
                /\ gh' = GhostStep(gh, st, e, t) /\ pre' = st /\ preObs' = obs
                /\ LET d == (~e.halt) /\ Drifts(st, gh, e, t, o) IN
                   /\ drift' = drift + (IF d THEN 1 ELSE 0)
                   /\ driftAt' = IF d /\ driftAt = 0 THEN l ELSE driftAt
  /\ l' = l + 1
  /\ UNCHANGED hist

TraceSpec == TraceInit /\ [][TraceNext]_tvars

-----------------------------------------------------------------------------
(* Clauses on the observed behaviour.  Besides the abstract records the
   harness compares the raw stored bytes (stored_changed), so a change in a
   field the abstraction does not name is seen as well. *)
IsUpd == ev.name = "UpdateParams"
IsGen == ev.name = "GenesisParams"
IsChain == IsGen /\ ev.via = "initchain"

T_Authority ==
  /\ IsChain \/ C16_Authority(pre, ev, st)
  /\ (IsUpd /\ (ev.sender # "authority" \/ ~ev.ok)) => ~ev.stored_changed

(* never stored unless the module's own validation accepts it — by message
   or by genesis; what is stored passes the module's own Validate() *)
T_StoredValid ==
  /\ (\A m \in DOMAIN preObs.valid : preObs.valid[m]) => (\A m \in DOMAIN obs.valid : obs.valid[m])
  /\ ((IsUpd \/ IsGen) /\ ev.ok) => (ev.valid /\ ev.stored_valid)
  /\ ((IsUpd \/ IsGen) /\ ~ev.valid /\ ~IsChain) => ~ev.stored_changed

(* each operation that does not abort under the baseline parameters ends in
   success or an ordinary rejection under every stored parameter set *)
T_NoAbort == (ev.name = "Op" /\ ev.base \notin {"panic", "halt"}) => C16_NoAbort(ev)

Clauses ==
  [C16_Authority |-> T_Authority,
   C16_StoredValid |-> T_StoredValid,
   C16_NoAbort |-> T_NoAbort]

Failing == IF ev.name = "Init" THEN {} ELSE {c \in DOMAIN Clauses : ~Clauses[c]}

(* names module + parameter class (Op), or the path (update / genesis) *)
Why ==
  IF ev.name = "Op"
  THEN (IF ev.why # "" THEN ev.why ELSE ev.module \o ":unpredicted:" \o ev.op)
  ELSE IF IsUpd THEN ev.module \o ":update:" \o ev.sender
  ELSE ev.module \o ":genesis:" \o ev.via

Monitor == Failing = {} \/ PrintT(<<"CLAUSE-FAIL", l - 1, Failing, Why>>)

Mods5 == {"coinswap", "farm", "htlc", "service", "token"}
Exercised ==
  IF ev.name = "Init" THEN {} ELSE
  {c \in {"auth_ok", "auth_rej", "stranger_rej", "forger_rej", "genesis_ok", "genesis_refused", "chain_ok", "chain_refused",
          "nil_validate", "op_ok", "op_rej", "op_abort"} :
     CASE c = "auth_ok" -> IsUpd /\ ev.sender = "authority" /\ ev.ok
       [] c = "auth_rej" -> IsUpd /\ ev.sender = "authority" /\ ~ev.ok
       [] c = "stranger_rej" -> IsUpd /\ ev.sender = "stranger" /\ ev.valid /\ ~ev.ok   \* reached the authority check
       [] c = "forger_rej" -> IsUpd /\ ev.sender = "forger" /\ ev.valid /\ ~ev.ok
       [] c = "genesis_ok" -> IsGen /\ ~IsChain /\ ev.ok
       [] c = "genesis_refused" -> IsGen /\ ~IsChain /\ ~ev.ok
       [] c = "chain_ok" -> IsChain /\ ev.ok
       [] c = "chain_refused" -> IsChain /\ ~ev.ok
       [] c = "nil_validate" -> (IsUpd \/ IsGen) /\ ev.vpanic
       [] c = "op_ok" -> ev.name = "Op" /\ ev.ok
       [] c = "op_rej" -> ev.name = "Op" /\ ~ev.ok /\ ~ev.panic /\ ~ev.halt
       [] c = "op_abort" -> ev.name = "Op" /\ (ev.panic \/ ev.halt)}
  \cup {"suite_" \o m : m \in {x \in Mods5 : ev.name = "Op" /\ ev.module = x /\ pre.params[x] # BaseParams[x]}}
  \cup {"update_" \o m : m \in {x \in Mods5 : IsUpd /\ ev.module = x /\ ev.ok}}
Coverage == Exercised = {} \/ PrintT(<<"EXERCISED", Exercised>>)

Report == (l = Len(Trace) + 1) => PrintT(<<"TRACE-END", Len(Trace), drift, driftAt>>)

DriftReport == (drift > 0 /\ driftAt = l - 1) =>
  PrintT(<<"DRIFT", driftAt, ev.name, ev>>)

TraceAccepted == TLCGet("stats").diameter = Len(Trace)

Alias == [l |-> l, ev |-> ev]
=============================================================================
