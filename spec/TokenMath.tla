------------------------------ MODULE TokenMath ------------------------------
(***************************************************************************)
(* Pure arithmetic of irismod/modules/token (operators only).              *)
(*                                                                         *)
(*  - LossLess: types/types.go LossLessSwap, transcribed step by step,     *)
(*    including the LegacyDec semantics of cosmossdk.io/math v1.3.0        *)
(*    (dec.go): Mul = multiply mantissas, chopPrecisionAndRound (round     *)
(*    half to even); TruncateDec / TruncateInt = big.Int.Quo by the        *)
(*    precision (truncation toward zero).                                  *)
(*  - the four C10 clauses on (input, burn, mint).                         *)
(*  - the fee split of keeper/fees.go feeHandler.                          *)
(*                                                                         *)
(* NUMBERS.  The code computes with mantissas over P = 10^18; TLC has      *)
(* 32-bit integers.  Two exact devices (DESIGN 4.2) make the operator      *)
(* bit-exact on the rows TLC is given:                                     *)
(*                                                                         *)
(* (1) Decimals that cancel.  Every multiplier of LossLessSwap is a        *)
(*     decimal n/d with d | P whose mantissa is exactly n*P/d (scale       *)
(*     multipliers 10^-sf and 10^sf; the ratio rn/rd with rd | 10^k).      *)
(*     Go computes Round(x * (n*P/d) / P); the rational inside is          *)
(*     x*n/d, so the result is RoundHE(x*n, d) = MulQ(x, n, d): same       *)
(*     number, same rounding, no 10^36 intermediate.                       *)
(*                                                                         *)
(* (2) Precision as a parameter.  LossLess takes the precision PK = 10^k   *)
(*     (k <= 18) instead of P.  Claim: if no MulQ of an evaluation with    *)
(*     precision PK has a non-zero remainder (field `exact`), then the     *)
(*     evaluation with P gives the same (burn, mint).  Proof by induction  *)
(*     over the steps, invariant  mantissa_P = mantissa_PK * P/PK:         *)
(*       NewDecFromInt: input*P = (input*PK)*(P/PK);                       *)
(*       Mul: x_P*n/d = (x_PK*n/d)*(P/PK) is an integer because x_PK*n/d   *)
(*            is, so chopPrecisionAndRound does not round and the          *)
(*            invariant holds for the product;                             *)
(*       TruncateDec / TruncateInt: Quo(m_P, P) = Quo(m_PK, PK) (same      *)
(*            real value truncated toward zero);                           *)
(*       Sub, Equal: linear / invariant under the common factor.  QED      *)
(*     For a row (input, rn/rd, sIn, sOut) with rd | 10^kr the precision   *)
(*     PK = 10^(kr + |sIn-sOut|) is always exact (RowPK below; TLC         *)
(*     re-checks `exact` on every row it evaluates, Inv_Math_Exact).       *)
(*                                                                         *)
(* Rows that do not fit: the largest intermediate is about                 *)
(*   input * 10^max(0,sOut-sIn) * PK * max(rn, rd);                        *)
(* RowFits bounds it by 2*10^9 and the table / the harness leave the       *)
(* other rows out (they are counted, MathSkipped).  Ratios whose           *)
(* denominator does not divide 10^3 (e.g. 0.333333333333333333, where the  *)
(* 18th digit matters) cannot be represented and are left to the           *)
(* big-number tier.                                                        *)
(***************************************************************************)
EXTENDS Integers, Sequences, FiniteSets, TLC, SwapClauses

RECURSIVE Pow10(_)
Pow10(n) == IF n <= 0 THEN 1 ELSE 10 * Pow10(n - 1)

AbsI(a) == IF a >= 0 THEN a ELSE -a
SgnMul(a, x) == IF a >= 0 THEN x ELSE -x

(* big.Int.Quo: truncated division (toward zero), b > 0 *)
QuoT(a, b) == SgnMul(a, AbsI(a) \div b)

(* dec.go chopPrecisionAndRound generalised to a denominator b > 0:
   a/b rounded half to even; negative values are rounded by magnitude *)
RoundHE(a, b) ==
  LET m == AbsI(a)
      q == m \div b
      r == m % b
      up == IF 2 * r < b THEN 0
            ELSE IF 2 * r > b THEN 1
            ELSE IF q % 2 = 0 THEN 0 ELSE 1
  IN SgnMul(a, q + up)

(* LegacyDec.Mul by a decimal whose mantissa is n*P/d, see (1) *)
MulQ(x, n, d) == RoundHE(x * n, d)
ExactQ(x, n, d) == (x * n) % d = 0

(***************************************************************************)
(* types/types.go:77-102 LossLessSwap(input, ratio, inputScale,            *)
(* outputScale) with ratio = rn/rd and precision PK.                       *)
(***************************************************************************)
LossLess(input, rn, rd, sIn, sOut, PK) ==
  LET inputDec == input * PK                       \* LegacyNewDecFromInt(input)
      scaleFactor == sIn - sOut
      \* scaleMultipler = smN/smD, scaleReverseMultipler = smD/smN
      smN == IF scaleFactor >= 0 THEN 1 ELSE Pow10(-scaleFactor)
      smD == IF scaleFactor >= 0 THEN Pow10(scaleFactor) ELSE 1
      \* outputDec := inputDec.Mul(scaleMultipler).Mul(ratio)
      x1 == MulQ(inputDec, smN, smD)
      outputDec == MulQ(x1, rn, rd)
      \* outputInt := outputDec.TruncateDec()
      outputInt == QuoT(outputDec, PK) * PK
      mint == QuoT(outputInt, PK)                  \* outputInt.TruncateInt()
      ex12 == ExactQ(inputDec, smN, smD) /\ ExactQ(x1, rn, rd)
  IN
  IF outputDec = outputInt
  THEN [burn |-> input, mint |-> mint, giveback |-> FALSE, exact |-> ex12]
  ELSE
    \* fix (F6, 49417f5): need := outputInt.QuoRoundUp(ratio).QuoRoundUp(scaleMultipler);
    \* input = need.Ceil().TruncateInt().
    \* dec.go QuoRoundUp(a, b) = ceil(floor(a.i * P^2 / b.i) / P): it is the ceiling
    \* of X = a.i*P/b.i unless 0 < frac(X) < 1/P.  On the rows TLC evaluates
    \* (RowFits: rd | 10^3, mantissa of the ratio = rn*P/rd) the two quotients are
    \*   X1 = mint*P*rd/rn          (fractional part a multiple of 1/rn >= 1/P)
    \*   X2 = ceil(X1)*smD/smN      (smN | 10^7, fractional part >= 1/P)
    \* so both round up exactly, and  Ceil(ceil(ceil(X1)*smD/smN)/P)  equals
    \* ceil(mint*rd*smD/(rn*smN)): ceil(ceil(x)/n) = ceil(x/n) for integer n, and
    \* multiplying ceil(X1) by smD adds less than smD/P to the quotient while
    \* a non-integer mint*rd*smD/rn is at least 1/rn away from the next integer
    \* (rn*smD < P).  Hence the exact rational ceiling below; no precision
    \* parameter is involved in this branch.  (For 18-digit ratios with
    \* mantissa > P the first QuoRoundUp can fail to round up by one 10^-18:
    \* big-number tier.)
    LET num == mint * rd * smD
        den == rn * smN
        burn == (num + den - 1) \div den
    IN [burn |-> burn, mint |-> mint, giveback |-> TRUE, exact |-> ex12]

(* smallest kr with rd | 10^kr, or 99 *)
DecDigits(rd) ==
  IF rd = 1 THEN 0
  ELSE IF 10 % rd = 0 THEN 1
  ELSE IF 100 % rd = 0 THEN 2
  ELSE IF 1000 % rd = 0 THEN 3 ELSE 99

RowPK(rd, sIn, sOut) == Pow10(DecDigits(rd) + AbsI(sIn - sOut))

(* the row can be evaluated within 32 bits (see header) *)
RowFits(input, rn, rd, sIn, sOut) ==
  /\ rn > 0 /\ rd > 0 /\ input >= 0
  /\ DecDigits(rd) <= 3
  /\ DecDigits(rd) + AbsI(sIn - sOut) <= 7
  /\ LET up == IF sOut > sIn THEN Pow10(sOut - sIn) ELSE 1
         big == IF rn > rd THEN rn ELSE rd
         unit == up * RowPK(rd, sIn, sOut)
     IN /\ unit <= 200000000
        /\ big <= 2000000000 \div unit
        /\ input <= 2000000000 \div (unit * big)

LossLessRow(input, rn, rd, sIn, sOut) ==
  LossLess(input, rn, rd, sIn, sOut, RowPK(rd, sIn, sOut))

-----------------------------------------------------------------------------
(***************************************************************************)
(* C10 clauses on one swap: `input` offered, `burn` taken, `mint` given,   *)
(* ratio rn/rd output units per input unit, decimal scales sIn, sOut.      *)
(* One input min-unit is worth  rn * 10^sOut / (rd * 10^sIn)  output       *)
(* min-units; everything is cross-multiplied, the common power of ten      *)
(* cancelled.                                                              *)
(***************************************************************************)
WIn(sIn, sOut) == IF sIn >= sOut THEN Pow10(sIn - sOut) ELSE 1    \* weight on the mint side
WOut(sIn, sOut) == IF sOut > sIn THEN Pow10(sOut - sIn) ELSE 1   \* weight on the burn side

(* The clauses themselves are in SwapClauses.tla (shared with the big-number
   tier, where Z3 evaluates the same operators on 128-bit values); here the
   decimal weights are computed from the scales. *)
Swap_NoOverBurn(input, burn, mint) == Swap_NoOverBurnW(input, burn, mint)
Swap_Worth(burn, mint, rn, rd, sIn, sOut) ==
  Swap_WorthW(burn, mint, rn, rd, WIn(sIn, sOut), WOut(sIn, sOut))
Swap_ExactAtOne(burn, mint, rn, rd, sIn, sOut) ==
  Swap_ExactAtOneW(burn, mint, rn, rd, WIn(sIn, sOut), WOut(sIn, sOut))
Swap_Dust(input, burn, rn, rd, sIn, sOut) ==
  Swap_DustW(input, burn, rn, rd, WIn(sIn, sOut), WOut(sIn, sOut))

(* Finding F6: the give-back branch multiplies the output fraction by the
   reverse scale only (not divided by the ratio) and truncates the burn.
   The discriminator names exactly the rows on which the transcribed code
   itself breaks a clause. *)
LossLessWhy(input, rn, rd, sIn, sOut) ==
  LET r == LossLessRow(input, rn, rd, sIn, sOut) IN
  IF r.giveback /\ ~(/\ Swap_NoOverBurn(input, r.burn, r.mint)
                     /\ Swap_Worth(r.burn, r.mint, rn, rd, sIn, sOut)
                     /\ Swap_Dust(input, r.burn, rn, rd, sIn, sOut))
  THEN "f6_giveback" ELSE ""

-----------------------------------------------------------------------------
(* keeper/fees.go feeHandler: communityTax = Dec(fee).Mul(taxRate).TruncateInt().
   With taxRate = n/d, d | 10^18, Mul is exact or rounds at the 18th digit and
   the truncation gives floor(fee*n/d) for every fee < 10^17. *)
TaxOf(fee, n, d) == (fee * n) \div d

(* keeper/fees.go GetTokenMintFee: Dec(issueFee).Mul(ratio).TruncateInt() *)
MintFeeOf(issueFee, n, d) == (issueFee * n) \div d
=============================================================================
