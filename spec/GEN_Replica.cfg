SPECIFICATION Spec
CONSTANTS
  Replicas = {"r1", "r2", "r3"}
  NBlocks = 8
  MaxRestarts = 3
  MaxExports = 2
  RecordHist = TRUE
CONSTRAINT GenConstraint
CHECK_DEADLOCK FALSE
