SPECIFICATION Spec
CONSTANTS
  Users = {"u1", "u2"}
  Provs = {"p1", "p2"}
  RecordHist = FALSE
  MaxH = 4
  MaxFeeds = 2
  FeedNames = {"fa", "fb"}
  Creators = {"u1"}
  Aggs = {"avg"}
  Limits = {1}
  ProvLists <- ProvListsDef
  Thresholds = {1, 2}
  Caps = {12}
  Freqs = {1}
  Xs <- XsDef2
  Prices <- PricesDef
  Funds = 30
  MaxTimeout = 1
  TaxNum = 1
  TaxDen = 10
  MaxEdits = 1
  DTs = {1}
  EditTFs = {}
  EditCaps = {}
  MaxCalls = 0
  Sends = {}
VIEW View
INVARIANTS
  Inv_C17_StateMirror
  Inv_Conserved
PROPERTIES
  Act_C17_Append
  Act_C17_Aggregate
  Act_C17_History
  Act_C17_Authority
  Act_C17_AppendH
  Act_C17_AggregateH
  Act_C17_HistoryH
  Act_C17_StateMirrorH
  Act_C17_AuthorityH
  Act_Rejected_NoEffect
CHECK_DEADLOCK FALSE
