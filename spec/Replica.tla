------------------------------ MODULE Replica ------------------------------
(***************************************************************************)
(* C11 — determinism of the whole application.                             *)
(*                                                                         *)
(* A fixed history (genesis + blocks of raw transactions with their block  *)
(* times) is executed by several replicas.  Each replica may be restarted  *)
(* between any two blocks (a new application object on the same database:  *)
(* everything not in the store is rebuilt), may export genesis at any      *)
(* height, any number of times, and replicas progress in any interleaving  *)
(* (they share one OS process in the harness, so package-level state is    *)
(* shared — interleavings matter for exactly the bugs C11 is about).       *)
(*                                                                         *)
(* The design obligation: what a replica computes at height h is a         *)
(* function of the history prefix only.  In the specification the digest   *)
(* is therefore the height itself; the implementation's digests are        *)
(* opaque strings and ReplicaTrace.tla checks that they behave like a      *)
(* function of the height.  TLC's contribution is the schedule space.      *)
(***************************************************************************)
EXTENDS Integers, Sequences, FiniteSets, TLC, Json, IOUtils

CONSTANTS Replicas, NBlocks, MaxRestarts, MaxExports, RecordHist

VARIABLES height, restarts, exports, ev, hist
vars == <<height, restarts, exports, ev, hist>>

NoEv == [name |-> "Init", r |-> "", h |-> 0]

Init ==
  /\ height = [r \in Replicas |-> 0]
  /\ restarts = [r \in Replicas |-> 0]
  /\ exports = [r \in Replicas |-> 0]
  /\ ev = NoEv /\ hist = <<>>

Rec(e) == /\ ev' = e
          /\ hist' = IF RecordHist THEN Append(hist, e) ELSE hist

Exec(r) ==
  /\ height[r] < NBlocks
  /\ height' = [height EXCEPT ![r] = @ + 1]
  /\ UNCHANGED <<restarts, exports>>
  /\ Rec([name |-> "Exec", r |-> r, h |-> height[r] + 1])

Restart(r) ==
  /\ restarts[r] < MaxRestarts
  /\ height[r] > 0 /\ height[r] < NBlocks
  /\ restarts' = [restarts EXCEPT ![r] = @ + 1]
  /\ UNCHANGED <<height, exports>>
  /\ Rec([name |-> "Restart", r |-> r, h |-> height[r]])

Export(r) ==
  /\ exports[r] < MaxExports
  /\ height[r] > 0
  /\ exports' = [exports EXCEPT ![r] = @ + 1]
  /\ UNCHANGED <<height, restarts>>
  /\ Rec([name |-> "Export", r |-> r, h |-> height[r]])

Next == \E r \in Replicas : Exec(r) \/ Restart(r) \/ Export(r)
Spec == Init /\ [][Next]_vars

Done == \A r \in Replicas : height[r] = NBlocks

(* design-level sanity: restarts and exports never move a replica *)
TypeOK == /\ \A r \in Replicas : height[r] \in 0..NBlocks
          /\ \A r \in Replicas : restarts[r] \in 0..MaxRestarts
HeightMonotone == [][\A r \in Replicas : height'[r] >= height[r]]_vars

(* Generator: print every complete schedule reached *)
GenConstraint == (Done /\ ev.name = "Exec") => PrintT(<<"BEHAVIOUR", ToJson(hist)>>)
View == <<height, restarts, exports>>
=============================================================================
