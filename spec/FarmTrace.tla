----------------------------- MODULE FarmTrace -----------------------------
(***************************************************************************)
(* Validation of traces recorded from the real farm module against         *)
(* Farm.tla.  One ndjson line per event: {"ev": <event+result>, "st":      *)
(* <projected abstract state after the event>}.  Traces are concatenated;  *)
(* an "Init" event starts a new one.                                       *)
(*                                                                         *)
(* monitor:  st' is the logged state, ghosts advance by their equations,   *)
(*           and every property clause is evaluated on (pre, ev, st).  A   *)
(*           failing clause is reported as a CLAUSE-FAIL line (all of      *)
(*           them, not only the first) — the verdicts come from here.      *)
(* strict:   Apply(pre, ev) — the specification's own step — must give the *)
(*           logged result and state; a mismatch is DRIFT, reported but    *)
(*           never a verdict.                                              *)
(***************************************************************************)
EXTENDS Farm, Json, IOUtils

VARIABLES l, pre, obs, drift, driftAt
tvars == <<st, ev, gh, hist, l, pre, obs, drift, driftAt>>

Trace == ndJsonDeserialize(IOEnv.TRACE_FILE)

(* the account / denom universe is the one the trace was recorded with *)
TraceUsers == DOMAIN Trace[1].st.bal \ {FARM, COLL, FEEP}
TraceRDenoms == DOMAIN Trace[1].st.bal[FARM] \ {LP, FeeDenom}

(* logged state -> specification state *)
FromLog(r) ==
  [h |-> r.h, prec |-> r.prec, seq |-> r.seq, params |-> r.params,
   pools |-> r.pools, fi |-> r.fi,
   queue |-> {<<r.queue[i][1], r.queue[i][2]>> : i \in DOMAIN r.queue},
   bal |-> r.bal, supply |-> r.supply, donated |-> r.donated,
   wired |-> r.wired, gbal |-> r.gbal, cp |-> r.cp, gov |-> r.gov,
   pseq |-> r.pseq, props |-> r.props, esc |-> r.esc]

ObsOf(r) == [inexact |-> r.inexact, invBroken |-> r.invBroken]

TraceInit ==
  /\ Trace[1].ev.name = "Init"
  /\ st = FromLog(Trace[1].st) /\ pre = FromLog(Trace[1].st)
  /\ obs = ObsOf(Trace[1].st)
  /\ ev = Trace[1].ev /\ gh = GhostInit /\ hist = <<>>
  /\ l = 2 /\ drift = 0 /\ driftAt = 0

Predicted(s, e) ==
  LET r == Apply(s, e) IN
  [st |-> r.st, ok |-> r.ok, panic |-> r.panic, reward |-> r.reward]

Observed(e, t) == [st |-> t, ok |-> e.ok, panic |-> e.panic, reward |-> e.reward]

TraceNext ==
  /\ l <= Len(Trace)
  /\ LET e == Trace[l].ev
         t == FromLog(Trace[l].st)
     IN /\ ev' = e /\ st' = t /\ obs' = ObsOf(Trace[l].st)
        /\ IF e.name = "Init"
           THEN /\ gh' = GhostInit /\ pre' = t
                /\ UNCHANGED <<drift, driftAt>>
           ELSE /\ gh' = GhostStep(gh, st, e, t) /\ pre' = st
                /\ LET d == (~e.halt) /\ Predicted(st, e) # Observed(e, t) IN
                   /\ drift' = drift + (IF d THEN 1 ELSE 0)
                   /\ driftAt' = IF d /\ driftAt = 0 THEN l ELSE driftAt
  /\ l' = l + 1
  /\ UNCHANGED hist

TraceSpec == TraceInit /\ [][TraceNext]_tvars

-----------------------------------------------------------------------------
(* Scaling guard: every LP quantity was an exact multiple of the unit and
   every number fitted the model's range (DESIGN.md 4.2). *)
Scale_Exact == obs.inexact = 0
(* the module's own registered invariant, run by the harness after each event *)
Crisis_Invariant == ~obs.invBroken

Clauses ==
  [C05_StakeSum |-> C05_StakeSum(st),
   C05_Escrow |-> C05_Escrow(st),
   C05_UnstakeNeverFails |-> C05_UnstakeNeverFails(pre, ev) /\ C05_UnstakeNeverFailsH(ev, gh),
   C05_StakeLedger |-> C05_StakeLedger(st, gh),
   C05_UnstakeExact |-> C05_UnstakeExact(pre, ev, st),
   C05_StakeExact |-> C05_StakeExact(pre, ev, st),
   C05_OthersUntouched |-> C05_OthersUntouched(pre, ev, st),
   C05_ScaleExact |-> Scale_Exact,
   C05_CrisisInvariant |-> Crisis_Invariant,
   Rejected_NoEffect |-> Rejected_NoEffect(pre, ev, st),
   C06_Budget |-> C06_Budget(st, gh),
   C06_Funded |-> C06_Funded(st, gh),
   C06_AdjustApplies |-> C06_AdjustApplies(pre, ev, st),
   C06_Covered |-> C06_Covered(st, gh),
   C06_ProRata |-> C06_ProRata(st, gh),
   C06_Flows |-> C06_Flows(pre, ev, st),
   C06_Rate |-> C06_Rate(pre, ev, st),
   C06_TouchAccrues |-> C06_TouchAccrues(pre, ev, st),
   C06_RefundOnce |-> C06_RefundOnce(pre, ev, st, gh) /\ C06_EndedEmpty(st),
   C06_RateSet |-> C06_RateSet(st, gh),
   C13_QueueSound |-> C13_QueueSound(st),
   C13_QueueComplete |-> C13_QueueComplete(st, gh),
   C13_OnceOnTime |-> C13_OnceOnTime(pre, ev, st, gh),
   C13_NoHalt |-> C13_NoHalt(ev),
   \* diagnostic clauses (governance-funded pools, AdjustPool corners)
   X05_EscrowConservation |-> X05_EscrowConservation(st),
   X05_DepositsBacked |-> X05_DepositsBacked(st),
   X05_SupplyClosed |-> X05_SupplyClosed(st),
   X05_CommunityPool |-> X05_CommunityPool(pre, ev, st),
   X05_ProposerFrame |-> X05_ProposerFrame(pre, ev, st),
   X06_ProposalRecorded |-> X06_ProposalRecorded(pre, ev, st),
   X06_GovPool |-> X06_GovPool(pre, ev, st),
   X06_VoteDecides |-> X06_VoteDecides(pre, ev, st),
   X06_OneOutcome |-> X06_OneOutcomeStep(pre, ev, st, gh),
   X06_CPNoPanic |-> X06_CPNoPanic(ev),
   X06_AdjustNoPanic |-> X06_AdjustNoPanic(ev),
   X06_AdjustGuard |-> X06_AdjustGuard(pre, ev, st),
   X05_OtherDenomRejected |-> X05_OtherDenomRejected(ev),
   X12_Farm_Escrow |-> X12_Farm_Escrow(st),
   X12_Farm_RoundTrip |-> X12_Farm_RoundTrip(pre, ev, st)]

Failing == IF ev.name = "Init" \/ ev.halt
           THEN (IF ev.halt THEN {"C13_NoHalt"} ELSE {})
           ELSE {c \in DOMAIN Clauses : ~Clauses[c]}

(* Evaluated by TLC in every state; always TRUE, reports as a side effect *)
Monitor == Failing = {} \/ PrintT(<<"CLAUSE-FAIL", l - 1, Failing, Apply(pre, ev).why>>)

(* life-cycle state of the pool an event names, in the observed pre-state *)
Known(e) == e.pool \in DOMAIN pre.pools
QueuedP(p) == <<pre.pools[p].end, p>> \in pre.queue
NotStartedP(p) == QueuedP(p) /\ pre.pools[p].start > pre.h
OverP(p) == ~QueuedP(p)                       \* refunded: ended or destroyed
NeverRanP(p) == OverP(p) /\ pre.pools[p].end = pre.pools[p].start   \* destroyed at or before its start
SameBlockP(p) == OverP(p) /\ pre.pools[p].end = pre.h              \* destroyed earlier in this very block
LastBlockP(p) == QueuedP(p) /\ pre.pools[p].end = pre.h
PoolOps == FarmerOps \cup {"AdjustPool", "DestroyPool"}
RoleOf(e) == IF pre.pools[e.pool].creator = e.who THEN "creator"
             ELSE IF e.who \in DOMAIN pre.fi[e.pool] THEN "staker" ELSE "stranger"
(* what an end-block handed back for pool p, per denom *)
RefundAmt(p, d) == Drop(pre, st, p, d) - RateDue(pre, st, p, d)
ZeroRefund(p) == \A d \in DOMAIN pre.pools[p].rules : RefundAmt(p, d) = 0

(* antecedent counters (vacuity): which clauses were exercised non-trivially *)
Exercised ==
  {c \in {"stake_notstarted", "stake_over", "stake_neverran", "stake_sameblock", "stake_lastblock",
          "harvest_over", "harvest_neverran", "harvest_sameblock", "harvest_nostake",
          "unstake_over_ok", "unstake_sameblock_ok", "unstake_nostake", "unstake_toomuch",
          "adjust_over", "adjust_neverran", "adjust_sameblock", "adjust_notstarted_ok",
          "destroy_over", "destroy_neverran", "destroy_notstarted_ok", "destroy_stranger", "destroy_staked_ok",
          "destroy_nothing_left", "create_second",
          "role_creator", "role_staker", "role_stranger",
          "refund_many", "refund_zero", "refund_many_one_zero", "refund_and_destroy_sameblock", "refund_part_zero",
          "odd_start",
          "other_denom", "other_denom_staker", "odd_pool", "odd_lpt", "odd_adjust",
          "unstake_ok", "unstake_rej", "stake_ok", "harvest_ok", "refund", "release",
          "adjust_ok", "destroy_ok", "create_ok", "reject", "payout",
          "adjust_rej", "adjust_expired", "adjust_stranger", "adjust_lastblock",
          "cp_create_ok", "cp_create_rej", "cp_unwired", "cp_deposit", "cp_vote", "cp_cancel",
          "cp_pass", "cp_back", "cp_dropped", "cp_stake", "cp_payout", "cp_pool_refund",
          "cp_two_pending", "reimport", "reimport_pending", "reimport_pools"} :
     CASE c = "stake_notstarted" -> ev.name = "Stake" /\ Known(ev) /\ NotStartedP(ev.pool)
       [] c = "stake_over" -> ev.name = "Stake" /\ Known(ev) /\ OverP(ev.pool)
       [] c = "stake_neverran" -> ev.name = "Stake" /\ Known(ev) /\ NeverRanP(ev.pool) /\ pre.h > pre.pools[ev.pool].end
       [] c = "stake_sameblock" -> ev.name = "Stake" /\ Known(ev) /\ SameBlockP(ev.pool)
       [] c = "stake_lastblock" -> ev.name = "Stake" /\ ev.ok /\ LastBlockP(ev.pool)
       [] c = "harvest_over" -> ev.name = "Harvest" /\ Known(ev) /\ OverP(ev.pool) /\ ev.who \in DOMAIN pre.fi[ev.pool]
       [] c = "harvest_neverran" -> ev.name = "Harvest" /\ Known(ev) /\ NeverRanP(ev.pool)
       [] c = "harvest_sameblock" -> ev.name = "Harvest" /\ Known(ev) /\ SameBlockP(ev.pool)
                                     /\ ev.who \in DOMAIN pre.fi[ev.pool]
       [] c = "harvest_nostake" -> ev.name = "Harvest" /\ Known(ev) /\ ~OverP(ev.pool)
                                   /\ ev.who \notin DOMAIN pre.fi[ev.pool]
       [] c = "unstake_over_ok" -> ev.name = "Unstake" /\ ev.ok /\ OverP(ev.pool) /\ pre.h > pre.pools[ev.pool].end
       [] c = "unstake_sameblock_ok" -> ev.name = "Unstake" /\ ev.ok /\ SameBlockP(ev.pool)
       [] c = "unstake_nostake" -> ev.name = "Unstake" /\ Known(ev) /\ ev.who \notin DOMAIN pre.fi[ev.pool]
       [] c = "unstake_toomuch" -> ev.name = "Unstake" /\ Known(ev) /\ ev.who \in DOMAIN pre.fi[ev.pool]
                                   /\ ev.amt > pre.fi[ev.pool][ev.who].locked
       [] c = "adjust_over" -> ev.name = "AdjustPool" /\ Known(ev) /\ OverP(ev.pool) /\ RoleOf(ev) = "creator"
                               /\ pre.pools[ev.pool].editable
       [] c = "adjust_neverran" -> ev.name = "AdjustPool" /\ Known(ev) /\ NeverRanP(ev.pool) /\ RoleOf(ev) = "creator"
       [] c = "adjust_sameblock" -> ev.name = "AdjustPool" /\ Known(ev) /\ SameBlockP(ev.pool) /\ RoleOf(ev) = "creator"
       [] c = "adjust_notstarted_ok" -> ev.name = "AdjustPool" /\ ev.ok /\ NotStartedP(ev.pool)
       [] c = "destroy_over" -> ev.name = "DestroyPool" /\ Known(ev) /\ OverP(ev.pool) /\ RoleOf(ev) = "creator"
                                /\ pre.pools[ev.pool].editable
       [] c = "destroy_neverran" -> ev.name = "DestroyPool" /\ Known(ev) /\ NeverRanP(ev.pool) /\ RoleOf(ev) = "creator"
       [] c = "destroy_notstarted_ok" -> ev.name = "DestroyPool" /\ ev.ok /\ NotStartedP(ev.pool)
       [] c = "destroy_stranger" -> ev.name = "DestroyPool" /\ Known(ev) /\ ~OverP(ev.pool) /\ RoleOf(ev) # "creator"
                                    /\ pre.pools[ev.pool].editable
       [] c = "destroy_staked_ok" -> ev.name = "DestroyPool" /\ ev.ok /\ pre.pools[ev.pool].total > 0
       [] c = "destroy_nothing_left" -> ev.name = "DestroyPool" /\ ~ev.ok /\ Known(ev) /\ QueuedP(ev.pool)
                                        /\ RoleOf(ev) = "creator" /\ pre.pools[ev.pool].editable
       [] c = "create_second" -> ev.name = "CreatePool" /\ ev.ok /\ pre.pools # <<>>
       [] c = "role_creator" -> ev.name \in PoolOps /\ Known(ev) /\ RoleOf(ev) = "creator"
       [] c = "role_staker" -> ev.name \in PoolOps /\ Known(ev) /\ RoleOf(ev) = "staker"
       [] c = "role_stranger" -> ev.name \in PoolOps /\ Known(ev) /\ RoleOf(ev) = "stranger"
       [] c = "refund_many" -> ev.name = "EndBlock" /\ Cardinality(RefundedIn(pre, ev, st)) >= 2
       [] c = "refund_zero" -> ev.name = "EndBlock" /\ \E p \in RefundedIn(pre, ev, st) : ZeroRefund(p)
       [] c = "refund_many_one_zero" -> ev.name = "EndBlock" /\ \E p, q \in RefundedIn(pre, ev, st) :
                                          ZeroRefund(p) /\ ~ZeroRefund(q)
       [] c = "refund_and_destroy_sameblock" -> ev.name = "EndBlock" /\ RefundedIn(pre, ev, st) # {}
                                          /\ \E p \in DOMAIN pre.pools : SameBlockP(p)
       [] c = "refund_part_zero" -> ev.name = "EndBlock" /\ \E p \in RefundedIn(pre, ev, st) :
                                      /\ ~ZeroRefund(p)
                                      /\ \E d \in DOMAIN pre.pools[p].rules : RefundAmt(p, d) = 0
       [] c = "odd_start" -> ev.name = "CreatePoolFar" \/ (ev.name = "CreatePool" /\ ev.lpt = LP /\ ev.start < pre.h)
       [] c = "other_denom" -> ev.name \in OtherDenomOps /\ Known(ev) /\ ~OverP(ev.pool) /\ ~NotStartedP(ev.pool)
       [] c = "other_denom_staker" -> ev.name = "UnstakeOther" /\ Known(ev) /\ ev.who \in DOMAIN pre.fi[ev.pool]
       [] c = "odd_pool" -> ev.name \in PoolOps /\ ~Known(ev)
       [] c = "odd_lpt" -> ev.name = "CreatePool" /\ ev.lpt # LP
       [] c = "odd_adjust" -> ev.name = "AdjustPool" /\ Known(ev) /\ RoleOf(ev) = "creator"
                              /\ ~((DOMAIN ev.total \cup DOMAIN ev.rpb) \subseteq DOMAIN pre.pools[ev.pool].rules)
       [] c = "unstake_ok" -> ev.name = "Unstake" /\ ev.ok
       [] c = "unstake_rej" -> ev.name = "Unstake" /\ ~ev.ok
       [] c = "stake_ok" -> ev.name = "Stake" /\ ev.ok
       [] c = "harvest_ok" -> ev.name = "Harvest" /\ ev.ok
       [] c = "adjust_ok" -> ev.name = "AdjustPool" /\ ev.ok
       [] c = "destroy_ok" -> ev.name = "DestroyPool" /\ ev.ok
       [] c = "create_ok" -> ev.name = "CreatePool" /\ ev.ok
       [] c = "reject" -> ~ev.ok
       [] c = "payout" -> ev.reward # <<>>
       [] c = "adjust_rej" -> ev.name = "AdjustPool" /\ ~ev.ok
       [] c = "adjust_expired" -> ev.name = "AdjustPool" /\ ev.pool \in DOMAIN pre.pools
                                  /\ Expired(pre, ev.pool)
       [] c = "adjust_stranger" -> ev.name = "AdjustPool" /\ ev.pool \in DOMAIN pre.pools
                                   /\ pre.pools[ev.pool].creator # ev.who
       [] c = "adjust_lastblock" -> ev.name = "AdjustPool" /\ ev.ok /\ pre.pools[ev.pool].end = pre.h
       [] c = "cp_create_ok" -> ev.name = "CreatePoolCP" /\ ev.ok
       [] c = "cp_create_rej" -> ev.name = "CreatePoolCP" /\ ~ev.ok /\ ~ev.panic
       [] c = "cp_unwired" -> ev.name = "CreatePoolCP" /\ ev.panic
       [] c = "cp_deposit" -> ev.name = "Deposit" /\ ev.ok
       [] c = "cp_vote" -> ev.name = "Vote" /\ ev.ok
       [] c = "cp_cancel" -> ev.name = "CancelProposal" /\ ev.ok
       [] c = "cp_pass" -> ev.name # "Init" /\ PassedIn(pre, ev, st) # {}
       [] c = "cp_back" -> ev.name # "Init" /\ EscBackIn(pre, ev, st) # {}
       [] c = "cp_dropped" -> ev.name = "EndBlock" /\ \E i \in DOMAIN pre.props :
                                pre.props[i].status = "deposit" /\ i \notin DOMAIN st.props
       [] c = "cp_stake" -> ev.name = "Stake" /\ ev.ok /\ pre.pools[ev.pool].creator = FEEP
       [] c = "cp_payout" -> ev.name \in FarmerOps /\ ev.ok /\ ev.reward # <<>>
                             /\ pre.pools[ev.pool].creator = FEEP
       [] c = "cp_pool_refund" -> ev.name # "Init" /\ \E p \in RefundedIn(pre, ev, st) :
                                    pre.pools[p].creator = FEEP
       [] c = "cp_two_pending" -> Cardinality(DOMAIN st.esc) >= 2
       [] c = "reimport" -> ev.name = "Reimport" /\ ev.ok
       [] c = "reimport_pending" -> ev.name = "Reimport" /\ ev.ok /\ DOMAIN pre.esc # {}
       [] c = "reimport_pools" -> ev.name = "Reimport" /\ ev.ok /\ pre.queue # {}
       [] c = "refund" -> ev.name # "Init" /\ RefundedIn(pre, ev, st) # {}
       [] c = "release" -> ev.name # "Init" /\ \E p \in DOMAIN pre.pools :
                              \E d \in DOMAIN pre.pools[p].rules : RateDue(pre, st, p, d) > 0}
Coverage == Exercised = {} \/ PrintT(<<"EXERCISED", Exercised>>)

Report == (l = Len(Trace) + 1) => PrintT(<<"TRACE-END", Len(Trace), drift, driftAt>>)

DriftReport == (drift > 0 /\ driftAt = l - 1) =>
  PrintT(<<"DRIFT", driftAt, ev.name, ev>>)

TraceAccepted == TLCGet("stats").diameter = Len(Trace)

Alias == [l |-> l, ev |-> ev]
=============================================================================
