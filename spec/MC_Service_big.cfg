SPECIFICATION Spec
CONSTANTS
  RecordHist = FALSE
  FixF4 = FALSE
  FixF36 = TRUE
  Users = {"u1", "u2", "u3"}
  Consumers = {"u3"}
  Actors = {"u3", "u1"}
  MaxH = 9
  MaxCtx = 1
  InitBal = 12
  TaxNum = 1
  TaxDen = 2
  SlashNum = 1
  SlashDen = 2
  MaxTimeout = 2
  MinMult = 1
  MinDepP = 2
  Wait = 2
  FeeCaps = {2, 4}
  Timeouts = {1, 2}
  Freqs = {0, 2}
  Totals = {2}
  RepeatedVals = {TRUE, FALSE}
  Modules = TRUE
  BindOps = FALSE
  MDenoms = {"stake"}
  InitBtc = 0
  RateN = 0
  RateD = 1
  RateVals <- RateValsNone
  SetupSpec <- SetupA
  ProvSeqs <- ProvSeqsA
  UpdateSpecs <- UpdateSpecsA
VIEW View
INVARIANTS
  Inv_C13_QueueSound
  Inv_C07_DepositEscrow
  Inv_C07_OwnerTally
  Inv_C13_QueueComplete
PROPERTIES
  Act_SetupOK
  Act_C07_RequestEscrow_ModF4
  Act_C13_NoHalt
  Act_C07_Charge_ModF4
  Act_C07_Answer
  Act_C07_Expire
  Act_C07_Withdraw
  Act_C07_Frame
  Act_Rejected_NoEffect
  Act_C08_OneOutcome
  Act_C08_RespondGuards
  Act_C08_OneShot
  Act_C08_CallFresh
  Act_C08_Schedule_ModF21
  Act_C08_Authority
  Act_C08_Callback
  Act_C08_Funds
  Act_C13_OnceOnTime
  Act_C07_RequestRecords
  Act_C07_WithdrawTo
  Act_C08_OneOutcomeH
  Act_C08_AuthorityH
  Act_C08_ScheduleH
  Act_C08_BatchDue
  Act_C13_QueueH
  Act_X07_RefundTiming
  Act_X07_EnableDisable
  Act_X07_MinDeposit
  Act_X07_Eligible
  Act_X07_WithdrawAll
  Act_X08_Update
  Act_X08_Create
  Act_X08_ModuleCall
CHECK_DEADLOCK FALSE
