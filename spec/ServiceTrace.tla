---------------------------- MODULE ServiceTrace ----------------------------
(***************************************************************************)
(* Validation of traces recorded from the real service module against      *)
(* Service.tla.  One ndjson line per event: {"ev": <event+result>, "st":   *)
(* <projected abstract state after the event>}; an "Init" event starts a   *)
(* new trace.                                                              *)
(*   monitor: st' = logged state, ghosts by their equations, every clause  *)
(*            evaluated on (pre, ev, st); failures are CLAUSE-FAIL lines.  *)
(*   strict:  Apply(pre, ev) must give the logged result, callbacks and    *)
(*            state; a mismatch is DRIFT, never a verdict.                 *)
(***************************************************************************)
EXTENDS Service

VARIABLES l, pre, gpre, obs, drift, driftAt
tvars == <<st, ev, gh, hist, l, pre, gpre, obs, drift, driftAt>>

Trace == ndJsonDeserialize(IOEnv.TRACE_FILE)

Pairs(q) == {<<q[i][1], q[i][2]>> : i \in DOMAIN q}

(* logged state -> specification state *)
FromLog(r) ==
  [h |-> r.h, now |-> r.now, seq |-> r.seq, rate |-> r.rate, params |-> r.params,
   defs |-> r.defs, bind |-> r.bind, owner |-> r.owner, ownerProv |-> Pairs(r.ownerProv),
   withdraw |-> r.withdraw, vol |-> r.vol, ctx |-> r.ctx, req |-> r.req,
   active |-> Range(r.active),
   activeB |-> {<<r.activeB[i][1], r.activeB[i][2], r.activeB[i][3]>> : i \in DOMAIN r.activeB},
   resp |-> r.resp, earned |-> r.earned, ownerEarned |-> r.ownerEarned,
   newQ |-> Pairs(r.newQ), expQ |-> Pairs(r.expQ), newH |-> r.newH, expH |-> r.expH,
   bal |-> r.bal, supply |-> r.supply]

ObsOf(r) == [inexact |-> r.inexact]

TraceInit ==
  /\ Trace[1].ev.name = "Init"
  /\ st = FromLog(Trace[1].st) /\ pre = FromLog(Trace[1].st)
  /\ obs = ObsOf(Trace[1].st)
  /\ ev = Trace[1].ev /\ gh = GhostInit /\ gpre = GhostInit /\ hist = <<>>
  /\ l = 2 /\ drift = 0 /\ driftAt = 0

Predicted(s, e) ==
  LET r == Apply(s, e) IN
  [st |-> r.st, ok |-> r.ok, panic |-> r.panic, cbs |-> r.cbs, scbs |-> r.scbs]

Observed(e, t) == [st |-> t, ok |-> e.ok, panic |-> e.panic, cbs |-> e.cbs, scbs |-> e.scbs]

TraceNext ==
  /\ l <= Len(Trace)
  /\ LET e == Trace[l].ev
         t == FromLog(Trace[l].st)
     IN /\ ev' = e /\ st' = t /\ obs' = ObsOf(Trace[l].st)
        /\ IF e.name = "Init"
           THEN /\ gh' = GhostInit /\ gpre' = GhostInit /\ pre' = t
                /\ UNCHANGED <<drift, driftAt>>
           ELSE /\ gh' = GhostStep(gh, st, e, t) /\ gpre' = gh /\ pre' = st
                /\ LET d == (~e.halt) /\ Predicted(st, e) # Observed(e, t) IN
                   /\ drift' = drift + (IF d THEN 1 ELSE 0)
                   /\ driftAt' = IF d /\ driftAt = 0 THEN l ELSE driftAt
  /\ l' = l + 1
  /\ UNCHANGED hist

TraceSpec == TraceInit /\ [][TraceNext]_tvars

-----------------------------------------------------------------------------
(* every number fitted the model's range and every rational was exact *)
Scale_Exact == obs.inexact = 0
(* the two active-request indexes agree (internal, diagnostic) *)
Idx_Active == {x[1] : x \in st.activeB} = st.active

Clauses ==
  [C07_DepositEscrow |-> C07_DepositEscrow(st),
   C07_RequestEscrow |-> C07_RequestEscrow(st),
   C07_OwnerTally |-> C07_OwnerTally(st),
   C07_Charge |-> C07_Charge(pre, ev, st),
   C07_Answer |-> C07_Answer(pre, ev, st),
   C07_Expire |-> C07_Expire(pre, ev, st),
   C07_Withdraw |-> C07_Withdraw(pre, ev, st),
   C07_Frame |-> C07_Frame(pre, ev, st),
   C07_ScaleExact |-> Scale_Exact,
   Rejected_NoEffect |-> Rejected_NoEffect(pre, ev, st),
   C08_OneOutcome |-> C08_OneOutcome(pre, ev, st, gh),
   C08_RespondGuards |-> C08_RespondGuards(pre, ev),
   C08_OneShot |-> C08_OneShot(pre, ev, st),
   C08_CallFresh |-> C08_CallFresh(pre, ev, st),
   C08_Schedule |-> C08_Schedule(pre, ev, st, gpre),
   C08_Authority |-> C08_Authority(pre, ev),
   C08_Callback |-> C08_Callback(pre, ev, st, gh),
   C08_Funds |-> C08_Funds(pre, ev, st),
   C13_QueueSound |-> C13_QueueSound(st),
   C13_QueueComplete |-> C13_QueueComplete(st),
   C13_OnceOnTime |-> C13_OnceOnTime(pre, ev, st, gh),
   C13_NoHalt |-> C13_NoHalt(ev),
   C07_RequestRecords |-> C07_RequestRecords(st, gh),
   C07_WithdrawTo |-> C07_WithdrawTo(pre, ev, st, gpre),
   C08_OneOutcomeH |-> C08_OneOutcomeH(pre, ev, st, gpre, gh),
   C08_AuthorityH |-> C08_AuthorityH(ev, st, gpre, gh),
   C08_ScheduleH |-> C08_ScheduleH(pre, ev, st, gpre, gh),
   C08_BatchDue |-> C08_BatchDue(pre, ev, st, gpre, gh),
   C13_QueueH |-> C13_QueueH(st, gh),
   X07_RefundTiming |-> X07_RefundTiming(pre, ev, st),
   X07_EnableDisable |-> X07_EnableDisable(pre, ev, st),
   X07_MinDeposit |-> X07_MinDeposit(pre, ev, st),
   X07_Eligible |-> X07_Eligible(pre, ev, st),
   X07_WithdrawAll |-> X07_WithdrawAll(pre, ev, st),
   X08_Update |-> X08_Update(pre, ev, st),
   X08_Create |-> X08_Create(pre, ev, st),
   X08_ModuleCall |-> X08_ModuleCall(pre, ev, st),
   Idx_Active |-> Idx_Active]

Failing == IF ev.name = "Init" \/ ev.halt
           THEN (IF ev.halt THEN {"C13_NoHalt"} ELSE {})
           ELSE {c \in DOMAIN Clauses : ~Clauses[c]}

(* Discriminator printed with a failure: f4 = every failing fee clause is
   exactly the F4 pattern (the _ModF4 variants hold); f21 = the failing
   schedule clause is exactly the F21 pattern (known finding F23); spec = the
   specification's own reason for the step. *)
IsF4 == /\ Failing \cap {"C07_Charge", "C07_RequestEscrow"} # {}
        /\ C07_Charge_ModF4(pre, ev, st) /\ C07_RequestEscrow_ModF4(st, gh)
IsF21 == "C08_Schedule" \in Failing /\ C08_Schedule_ModF21(pre, ev, st, gpre)
(* a record, so that known-finding entries can match on "why.f4" etc. *)
IsF36 == "C07_OwnerTally" \in Failing /\ NONE \in DOMAIN st.ownerEarned /\ C07_OwnerTally_ModF36(st)
WhyOf == [f4 |-> IsF4, f21 |-> IsF21, f36 |-> IsF36, spec |-> Apply(pre, ev).why]

(* Evaluated by TLC in every state; always TRUE, reports as a side effect *)
Monitor == Failing = {} \/ PrintT(<<"CLAUSE-FAIL", l - 1, Failing, WhyOf>>)

(* antecedent counters (vacuity) *)
ExNames == {"respond_ok", "respond_wrong_provider", "respond_not_active", "expire", "slash", "unavailable",
            "charge", "discount", "withdraw_ok", "bind_ok", "enable_ok", "disable_ok", "refund_ok",
            "update_binding_ok", "pause_ok", "start_ok", "kill_ok", "update_ok", "unauthorized",
            "callback", "callback_err", "callback_ok", "funds_pause", "batch_repeat", "oneshot_removed",
            "skip", "modcall_ok", "call_ok", "reject", "two_due", "tax", "total_reached", "norate_pause",
            \* round 7: error paths of the end-blocker, objects in unusual life-cycle states, unusual inputs
            "slash_norate", "expire_unavailable", "expire_refunded", "rate_gone_inflight", "rate_changed_inflight",
            "probe_gone_ctx", "probe_gone_req", "cmd_on_completed", "cmd_on_oneshot", "pause_inflight",
            "kill_inflight", "start_inflight", "binding_nonowner", "refund_again", "refund_early",
            "enable_available", "disable_disabled", "update_disabled_deposit", "bind_existing",
            "bind_foreign_provider", "withdraw_nonowner", "setwithdraw_module", "wrong_denom", "id_lower",
            "id_badlen", "txfailed"}
CtxCmdNames == {"Pause", "Start", "Kill", "Update", "ModPause", "ModStart", "ModKill", "ModUpdate"}
BindCmdNames == {"Disable", "Enable", "RefundDeposit", "UpdateBinding"}
(* the binding an expiring request was addressed to, as it stood before the block ended *)
ExpiringOn(P(_)) ==
  \E r \in ExpiredNow(pre, ev, st) :
    /\ r \in DOMAIN pre.req /\ HasBind(pre, SvcOfReq(pre, r), pre.req[r].provider)
    /\ P(pre.bind[SvcOfReq(pre, r)][pre.req[r].provider])
InflightOther == \E r \in pre.active : r \in DOMAIN pre.req /\ pre.req[r].fdenom # D
InflightOf(id) == \E r \in pre.active : r \in DOMAIN pre.req /\ pre.req[r].ctx = id
EvBind == pre.bind[ev.svc][ev.prov]
Exercised ==
  IF ev.name = "Init" THEN {}
  ELSE
  {c \in ExNames :
     CASE c = "respond_ok" -> ev.name = "Respond" /\ ev.ok
       [] c = "respond_wrong_provider" -> ev.name = "Respond" /\ ev.req \in DOMAIN pre.req
                                          /\ ev.who # pre.req[ev.req].provider
       [] c = "respond_not_active" -> ev.name = "Respond" /\ ev.req \in DOMAIN pre.req
                                      /\ ev.req \notin pre.active /\ ev.who = pre.req[ev.req].provider
       [] c = "expire" -> ExpiredNow(pre, ev, st) # {}
       [] c = "slash" -> ev.name = "EndBlock" /\ BalOf(st, DEP) < BalOf(pre, DEP)
       [] c = "unavailable" -> ev.name = "EndBlock" /\ \E b \in Bindings(pre) :
                                 pre.bind[b[1]][b[2]].available /\ ~st.bind[b[1]][b[2]].available
       [] c = "charge" -> ev.name = "EndBlock" /\ NewReqs(pre, st) # {}
       [] c = "discount" -> ev.name = "EndBlock" /\ \E r \in NewReqs(pre, st) :
                              st.req[r].fee < ListPrice(pre, st, r)
       [] c = "tax" -> ev.name = "Respond" /\ ev.ok /\ BalOf(st, FEEP) > BalOf(pre, FEEP)
       [] c = "withdraw_ok" -> ev.name = "Withdraw" /\ ev.ok /\ BalOf(st, REQ) < BalOf(pre, REQ)
       [] c = "bind_ok" -> ev.name = "Bind" /\ ev.ok
       [] c = "enable_ok" -> ev.name = "Enable" /\ ev.ok
       [] c = "disable_ok" -> ev.name = "Disable" /\ ev.ok
       [] c = "refund_ok" -> ev.name = "RefundDeposit" /\ ev.ok
       [] c = "update_binding_ok" -> ev.name = "UpdateBinding" /\ ev.ok
       [] c = "pause_ok" -> ev.name \in {"Pause", "ModPause"} /\ ev.ok
       [] c = "start_ok" -> ev.name \in {"Start", "ModStart"} /\ ev.ok
       [] c = "kill_ok" -> ev.name \in {"Kill", "ModKill"} /\ ev.ok
       [] c = "update_ok" -> ev.name \in {"Update", "ModUpdate"} /\ ev.ok
       [] c = "unauthorized" -> ev.name \in {"Pause", "Start", "Kill", "Update"} /\ ev.ctx \in DOMAIN pre.ctx
                                /\ (ev.who # pre.ctx[ev.ctx].consumer \/ pre.ctx[ev.ctx].module # "")
       [] c = "callback" -> ev.cbs # <<>>
       [] c = "callback_err" -> \E i \in DOMAIN ev.cbs : ev.cbs[i].err
       [] c = "callback_ok" -> \E i \in DOMAIN ev.cbs : ~ev.cbs[i].err
       [] c = "funds_pause" -> ev.name = "EndBlock" /\ \E id \in DOMAIN pre.ctx \cap DOMAIN st.ctx :
                                 pre.ctx[id].state = "running" /\ st.ctx[id].state = "paused"
       [] c = "norate_pause" -> ev.name = "EndBlock" /\ \E id \in DOMAIN pre.ctx \cap DOMAIN st.ctx :
                                  pre.ctx[id].state = "running" /\ st.ctx[id].state = "paused"
                                  /\ RateError(pre, pre.ctx[id])
       [] c = "batch_repeat" -> ev.name = "EndBlock" /\ \E id \in DOMAIN pre.ctx :
                                  Issued(pre, st, id) /\ pre.ctx[id].batch >= 1
                                  /\ ~Get(gpre.intr, id, FALSE) /\ ~Get(gpre.modified, id, FALSE)
       [] c = "oneshot_removed" -> \E id \in DOMAIN pre.ctx \ DOMAIN st.ctx : ~pre.ctx[id].repeated
       [] c = "total_reached" -> \E id \in DOMAIN pre.ctx \ DOMAIN st.ctx :
                                   pre.ctx[id].repeated /\ pre.ctx[id].state = "running"
       [] c = "skip" -> ev.name = "EndBlock" /\ \E id \in DOMAIN pre.ctx :
                          Issued(pre, st, id) /\ st.ctx[id].reqCount = 0
       [] c = "modcall_ok" -> ev.name = "ModCall" /\ ev.ok
       [] c = "call_ok" -> ev.name = "Call" /\ ev.ok
       [] c = "reject" -> ~ev.ok
       [] c = "slash_norate" -> ExpiringOn(LAMBDA b : b.available /\ MinDepErr(pre, b))
       [] c = "expire_unavailable" -> ExpiringOn(LAMBDA b : ~b.available)
       [] c = "expire_refunded" -> ExpiringOn(LAMBDA b : b.deposit = 0)
       [] c = "rate_gone_inflight" -> ev.name = "SetRate" /\ ev.ok /\ ev.rn = 0 /\ pre.rate.n > 0 /\ InflightOther
       [] c = "rate_changed_inflight" -> ev.name = "SetRate" /\ ev.ok /\ ev.rn > 0 /\ pre.rate.n > 0
                                         /\ ev.rn * pre.rate.d # pre.rate.n * ev.rd /\ InflightOther
       [] c = "probe_gone_ctx" -> ev.name \in CtxCmdNames /\ ev.ctx \notin DOMAIN pre.ctx
                                  /\ ev.ctx \in DOMAIN gpre.batchAt
       [] c = "probe_gone_req" -> ev.name = "Respond" /\ ev.req \notin DOMAIN pre.req /\ ev.req \in DOMAIN gpre.ans
       [] c = "cmd_on_completed" -> ev.name \in CtxCmdNames /\ ev.ctx \in DOMAIN pre.ctx
                                    /\ pre.ctx[ev.ctx].state = "completed"
       [] c = "cmd_on_oneshot" -> ev.name \in CtxCmdNames /\ ev.ctx \in DOMAIN pre.ctx /\ ~pre.ctx[ev.ctx].repeated
       [] c = "pause_inflight" -> ev.name \in {"Pause", "ModPause"} /\ ev.ok /\ InflightOf(ev.ctx)
       [] c = "kill_inflight" -> ev.name \in {"Kill", "ModKill"} /\ ev.ok /\ InflightOf(ev.ctx)
       [] c = "start_inflight" -> ev.name \in {"Start", "ModStart"} /\ ev.ok /\ InflightOf(ev.ctx)
       [] c = "binding_nonowner" -> ev.name \in BindCmdNames /\ HasBind(pre, ev.svc, ev.prov) /\ ev.who # EvBind.owner
       [] c = "refund_again" -> ev.name = "RefundDeposit" /\ HasBind(pre, ev.svc, ev.prov) /\ ev.who = EvBind.owner
                                /\ ~EvBind.available /\ EvBind.deposit = 0
       [] c = "refund_early" -> ev.name = "RefundDeposit" /\ HasBind(pre, ev.svc, ev.prov) /\ ev.who = EvBind.owner
                                /\ ~EvBind.available /\ EvBind.deposit > 0 /\ pre.now < EvBind.disabledAt + pre.params.wait
       [] c = "enable_available" -> ev.name = "Enable" /\ HasBind(pre, ev.svc, ev.prov) /\ ev.who = EvBind.owner
                                    /\ EvBind.available
       [] c = "disable_disabled" -> ev.name = "Disable" /\ HasBind(pre, ev.svc, ev.prov) /\ ev.who = EvBind.owner
                                    /\ ~EvBind.available
       [] c = "update_disabled_deposit" -> ev.name = "UpdateBinding" /\ ev.ok /\ ev.amt > 0 /\ ~EvBind.available
       [] c = "bind_existing" -> ev.name = "Bind" /\ HasBind(pre, ev.svc, ev.prov)
       [] c = "bind_foreign_provider" -> ev.name = "Bind" /\ ev.prov \in DOMAIN pre.owner /\ pre.owner[ev.prov] # ev.who
       [] c = "withdraw_nonowner" -> ev.name = "Withdraw" /\ ev.prov \in DOMAIN pre.owner /\ pre.owner[ev.prov] # ev.who
       [] c = "setwithdraw_module" -> ev.name = "SetWithdraw" /\ ev.to \in {DEP, REQ, FEEP}
       [] c = "wrong_denom" -> ev.name \in {"Bind", "UpdateBinding", "Enable", "Call", "ModCall", "Update", "ModUpdate"}
                               /\ ev.amt > 0 /\ ev.ddenom # D
       [] c = "id_lower" -> ev.name \in CtxCmdNames \cup {"Respond"} /\ ev.idv = "lc" /\ ev.ok
       [] c = "id_badlen" -> ev.name \in CtxCmdNames \cup {"Respond"} /\ ev.idv \in {"pfx", "pad"}
       [] c = "txfailed" -> ev.name = "TxFailed"
       [] c = "two_due" -> ev.name = "EndBlock"
                           /\ Cardinality(DueIn(pre.expQ, pre.h) \cup DueIn(pre.newQ, pre.h)) >= 2}
Coverage == Exercised = {} \/ PrintT(<<"EXERCISED", Exercised>>)

Report == (l = Len(Trace) + 1) => PrintT(<<"TRACE-END", Len(Trace), drift, driftAt>>)

DriftReport == (drift > 0 /\ driftAt = l - 1) =>
  PrintT(<<"DRIFT", driftAt, ev.name, ev>>)

TraceAccepted == TLCGet("stats").diameter = Len(Trace)

Alias == [l |-> l, ev |-> ev]
=============================================================================
