SPECIFICATION Spec
CONSTANTS
  Users = {"u1", "u2"}
  Provs = {"p1"}
  RecordHist = FALSE
  MaxH = 6
  MaxReq = 3
  Intervals = {0, 1, 2}
  Caps = {10}
  Bound = {}
  Price = 10
  Funds = 15
  Timeout = 2
  TaxNum = 1
  TaxDen = 10
  Kinds = {"seed"}
  MaxZH = 1
VIEW View
INVARIANTS
  Inv_C18_Due
  Inv_C13_QueueSound
  Inv_C13_QueueComplete
  Inv_Conserved
PROPERTIES
  Act_C18_Once
  Act_C18_Stable
  Act_C13_OnceOnTime
  Act_Rejected_NoEffect
  Act_X18_ResultHeight
  Act_X18_DupReplace
  Act_X18_DupOrphan
  Act_X18_DupResult
  Act_X18_LateAnswer
  Act_X18_WrapRejected
  Act_X18_ZeroHeightQueue
CHECK_DEADLOCK FALSE
