------------------------------- MODULE Service -------------------------------
(***************************************************************************)
(* irismod/modules/service — service definitions, bindings (deposits,      *)
(* pricing with discounts), request contexts with the end-block scheduler  *)
(* (new-batch / expired-batch queues), requests, responses, fees.          *)
(*                                                                         *)
(* Transcribed branch by branch from                                       *)
(*   keeper/definition.go, keeper/binding.go, keeper/invocation.go,        *)
(*   keeper/fees.go, keeper/state_change.go, keeper/msg_server.go,         *)
(*   keeper/params.go, abci.go (EndBlocker), types/msgs.go +               *)
(*   types/validation.go (ValidateBasic), types/binding.go (discounts).    *)
(*                                                                         *)
(* Style as Farm.tla: every handler is an operator                          *)
(*   st, event -> [ok, panic, st, why, cbs, scbs, over]                    *)
(* the end-blocker is ONE atomic action: a deterministic fold of the       *)
(* per-context handlers over the due queue entries in store-key order      *)
(* (context ids are hashes: every context carries an integer rank =        *)
(* position of its id in byte order; DESIGN.md section 3).                 *)
(*                                                                         *)
(* Numbers: a single denom; discounts are n/4 (n in 1..3, 4 = none), tax   *)
(* and slash fractions num/den with den | 10^18, so that every 18-decimal  *)
(* Mul of the code is exact and TruncateInt is the integer floor used here *)
(* (DESIGN.md 4.2, C07).  Time is counted in ticks (5 s); tick 0 = the zero *)
(* time.                                                                   *)
(***************************************************************************)
EXTENDS Integers, Sequences, FiniteSets, TLC, Util, Json, IOUtils, ServiceClauses

CONSTANTS
  RecordHist,   \* BOOLEAN: keep the event history (generator configs)
  FixF36,       \* BOOLEAN: FALSE = the code as it is (a module-service call credits the
                \* empty owner with the sum of all owner tallies, finding F36)
  FixF4         \* BOOLEAN: FALSE = the code as it is (FilterServiceProviders
                \* sums the undiscounted price, finding F4); TRUE = after the
                \* fix "sum GetPrice"

VARIABLES st, ev, gh, hist
vars == <<st, ev, gh, hist>>

D    == "stake"            \* the base denom
DEP  == "deposit"          \* service_deposit_account
REQ  == "request"          \* service_request_account
FEEP == "feepool"          \* service_fee_collector (tax + slashed deposits)
MOD  == "verif"            \* the harness-owned callback module
BadNames == {"", "9bad"}   \* service names rejected by ValidateServiceName
OSVC == "oracle-price"     \* the service name of the "oracle" module service (types/oracle_price.go)
OPROV == "oracle"          \* its provider address (crypto.AddressHash("oracle"))
NONE == "none"             \* the empty address as an "owner" (finding F36)
PriceDenoms == {D, "btc"}  \* denoms with a positive supply (binding.go validatePricing)

UsersOf(t) == DOMAIN t.bal \ {DEP, REQ, FEEP}

(* Unusual inputs (round 7).
   ddenom: the denom of the coin a message carries as deposit / service fee cap: "stake" (the base
           denom, the only one validateDeposit / validateServiceFeeCap accept), another real denom
           ("btc"), or "both" = two coins (stake and btc).
   idv:    the spelling of the context / request id a message carries: "" = upper-case hex, "lc" =
           lower-case hex (hex.DecodeString: the same id), "pfx" / "pad" = one byte short / long
           (ValidateContextID / ValidateRequestID: wrong length). *)
BadDenom(e) == e.ddenom # D
BadId(e) == e.idv \in {"pfx", "pad"}

CtxId(n) == "c" \o ToString(n)
ReqId(c, n, i) == c \o "-" \o ToString(n) \o "-" \o ToString(i)

NoEv == [name |-> "Init", who |-> "", svc |-> "", prov |-> "", provs |-> <<>>, ctx |-> "", req |-> "",
         amt |-> 0, price |-> 0, tStart |-> 0, tEnd |-> 0, tDisc |-> 4, vVol |-> 0, vDisc |-> 4,
         setp |-> FALSE, pdenom |-> "stake", ddenom |-> "stake", idv |-> "", qos |-> 0, timeout |-> 0, repeated |-> FALSE, freq |-> 0, total |-> 0,
         thr |-> 0, paused0 |-> FALSE, okres |-> TRUE, to |-> "", dt |-> 1, rank |-> 0, rn |-> 0, rd |-> 1,
         ok |-> TRUE, panic |-> FALSE, halt |-> FALSE, cbs |-> <<>>, scbs |-> <<>>]

-----------------------------------------------------------------------------
(* Results.  cbs: response-callback firings <<[ctx, batch, outs, err]>>,
   scbs: state-callback firings <<ctx>>, over: F4 overcharge of the step *)
FailW(s, w) == [ok |-> FALSE, panic |-> FALSE, st |-> s, why |-> w, cbs |-> <<>>, scbs |-> <<>>, over |-> EmptyF]
Fail(s) == FailW(s, "rejected")
Panic(s) == [ok |-> FALSE, panic |-> TRUE, st |-> s, why |-> "panic", cbs |-> <<>>, scbs |-> <<>>, over |-> EmptyF]
DoneC(s, c) == [ok |-> TRUE, panic |-> FALSE, st |-> s, why |-> "", cbs |-> c, scbs |-> <<>>, over |-> EmptyF]
Done(s) == DoneC(s, <<>>)

-----------------------------------------------------------------------------
(* Small helpers *)
DenomsOf(t) == DOMAIN t.supply
BalD(s, a, d) == s.bal[a][d]
BalOf(s, a) == BalD(s, a, D)
PayD(s, from, to, d, n) ==
  IF n <= 0 THEN s ELSE [s EXCEPT !.bal = Move(s.bal, from, to, (d :> n))]
Pay(s, from, to, n) == PayD(s, from, to, D, n)

(* sdk.Coins: functions denom -> positive amount *)
Coin(d, n) == IF n > 0 THEN (d :> n) ELSE EmptyF
AddC(a, b) == Pos([d \in DOMAIN a \cup DOMAIN b |-> Amt(a, d) + Amt(b, d)])
SubC(a, b) == Pos([d \in DOMAIN a |-> a[d] - Amt(b, d)])
GeC(a, b) == \A d \in DOMAIN b : Amt(a, d) >= b[d]
PayC(s, from, to, c) == [s EXCEPT !.bal = Move(s.bal, from, to, c)]
CanPayC(s, a, c) == \A d \in DOMAIN c : d \in DOMAIN s.bal[a] /\ s.bal[a][d] >= c[d]
(* f[k] += coins; empty entries are never stored *)
AddToC(f, k, c) == IF c = EmptyF THEN f ELSE Put(f, k, AddC(Get(f, k, EmptyF), c))

HasBind(s, svc, p) == svc \in DOMAIN s.bind /\ p \in DOMAIN s.bind[svc]
PutBind(s, svc, p, b) ==
  [s EXCEPT !.bind = Put(s.bind, svc, Put(Get(s.bind, svc, EmptyF), p, b))]

(* f[k] += n where absent = 0 and zero entries are never stored (sdk.Coins) *)
AddTo(f, k, n) == IF n = 0 THEN f ELSE Put(f, k, Get(f, k, 0) + n)

VolOf(s, svc, p, c) == Get(Get(Get(s.vol, svc, EmptyF), p, EmptyF), c, 0)
IncVol(s, svc, p, c) ==
  LET a == Get(s.vol, svc, EmptyF)
      b == Get(a, p, EmptyF)
  IN [s EXCEPT !.vol = Put(s.vol, svc, Put(a, p, Put(b, c, Get(b, c, 0) + 1)))]

NoDup(q) == \A i, j \in DOMAIN q : i # j => q[i] # q[j]

(* binding.go: GetMinDeposit = max(price * multiple, MinDeposit), but an empty
   product (price 0) stays empty *)
MinDep(s, price) ==
  LET m == price * s.params.minMult IN
  IF m = 0 THEN 0 ELSE IF m < s.params.minDep THEN s.params.minDep ELSE m

(* types/binding.go: GetDiscountByTime / GetDiscountByVolume (at most one
   promotion of each kind), in quarters *)
DiscT(b, now) == IF b.tDisc # 4 /\ now >= b.tStart /\ now < b.tEnd THEN b.tDisc ELSE 4
DiscV(b, vol) == IF b.vDisc # 4 /\ vol >= b.vVol THEN b.vDisc ELSE 4
(* invocation.go: GetPrice = TruncateInt(price * dT * dV) *)
FeeOf(b, now, vol) == (b.price * DiscT(b, now) * DiscV(b, vol)) \div 16

(* msgs.go ValidateBasic of a pricing: schema + CheckPricing *)
PricingOK(e) ==
  /\ e.price >= 0
  /\ e.tDisc = 4 \/ (e.tDisc \in 1..3 /\ e.tStart >= 0 /\ e.tEnd > e.tStart)
  /\ e.vDisc = 4 \/ (e.vDisc \in 1..3 /\ e.vVol >= 1)
(* A price in another denom needs the exchange rate of the "oracle" module
   service (oracle_price.go GetExchangeRate).  The harness owns that module
   service: s.rate = [n, d] is the rate n/d it answers with (d in {1,2,4}: every
   product below is exact), n = 0 means no usable rate ("feed not found"; a zero
   rate is refused by the code as well).  GetMinDeposit skips the lookup for a
   zero price. *)
NeedsRate(pr) == pr.pdenom # D
NoRate(s) == s.rate.n = 0
MinDepErr(s, pr) == pr.pdenom # D /\ pr.price # 0 /\ NoRate(s)
(* binding.go GetMinDeposit: the price in the base denom, at least 1 *)
BasePrice(s, pr) ==
  IF pr.pdenom = D \/ pr.price = 0 THEN pr.price
  ELSE Max(1, (pr.price * s.rate.n) \div s.rate.d)

PricingOf(e) ==
  [price |-> e.price, pdenom |-> e.pdenom,
   tStart |-> IF e.tDisc = 4 THEN 0 ELSE e.tStart, tEnd |-> IF e.tDisc = 4 THEN 0 ELSE e.tEnd,
   tDisc |-> e.tDisc, vVol |-> IF e.vDisc = 4 THEN 0 ELSE e.vVol, vDisc |-> e.vDisc]

(* queues: entry + per-context height marker *)
AddNew(s, id, h) == [s EXCEPT !.newQ = @ \cup {<<h, id>>}, !.newH = Put(@, id, h)]
DelNew(s, id, h) == [s EXCEPT !.newQ = @ \ {<<h, id>>}, !.newH = Del(@, id)]
AddExp(s, id, h) == [s EXCEPT !.expQ = @ \cup {<<h, id>>}, !.expH = Put(@, id, h)]
DelExp(s, id, h) == [s EXCEPT !.expQ = @ \ {<<h, id>>}, !.expH = Del(@, id)]

-----------------------------------------------------------------------------
(* definition.go *)
DoDefine(s, e) ==
  IF e.svc \in BadNames THEN FailW(s, "validate_basic")
  ELSE IF e.svc \in DOMAIN s.defs THEN Fail(s)
  ELSE Done([s EXCEPT !.defs = Put(s.defs, e.svc, [author |-> e.who])])

(* binding.go: AddServiceBinding (signer = owner) *)
DoBind(s, e) ==
  LET o == e.who
      p == e.prov IN
  IF e.svc \in BadNames \/ e.qos <= 0 \/ ~PricingOK(e) THEN FailW(s, "validate_basic")
  ELSE IF e.svc = OSVC THEN FailW(s, "module_service")     \* msg_server.go: ErrBindModuleService
  ELSE IF e.svc \notin DOMAIN s.defs THEN Fail(s)
  ELSE IF HasBind(s, e.svc, p) THEN Fail(s)
  ELSE IF p \in DOMAIN s.owner /\ s.owner[p] # o THEN Fail(s)
  ELSE IF e.amt <= 0 \/ BadDenom(e) THEN Fail(s)        \* validateDeposit: one coin of the base denom
  ELSE IF e.qos > s.params.maxTimeout THEN Fail(s)
  ELSE IF e.pdenom \notin PriceDenoms THEN Fail(s)         \* validatePricing
  ELSE IF MinDepErr(s, PricingOf(e)) THEN FailW(s, "no_rate")
  ELSE IF e.amt < MinDep(s, BasePrice(s, PricingOf(e))) THEN Fail(s)
  ELSE IF BalOf(s, o) < e.amt THEN Fail(s)
  ELSE
    LET b == [deposit |-> e.amt, available |-> TRUE, disabledAt |-> 0, owner |-> o, qos |-> e.qos]
               @@ PricingOf(e)
        s1 == Pay(PutBind(s, e.svc, p, b), o, DEP, e.amt)
    IN Done(IF p \in DOMAIN s.owner THEN s1
            ELSE [s1 EXCEPT !.owner = Put(s.owner, p, o), !.ownerProv = @ \cup {<<o, p>>}])

(* binding.go: UpdateServiceBinding *)
DoUpdateBinding(s, e) ==
  IF e.svc \in BadNames \/ (e.setp /\ ~PricingOK(e)) THEN FailW(s, "validate_basic")
  ELSE IF ~HasBind(s, e.svc, e.prov) THEN Fail(s)
  ELSE
    LET b == s.bind[e.svc][e.prov] IN
    IF e.who # b.owner THEN FailW(s, "unauthorized")
    ELSE IF e.qos # 0 /\ e.qos > s.params.maxTimeout THEN Fail(s)
    ELSE IF e.amt > 0 /\ BadDenom(e) THEN Fail(s)          \* validateDeposit
    ELSE
      LET add == IF e.amt > 0 THEN e.amt ELSE 0
          b1 == [b EXCEPT !.qos = IF e.qos # 0 THEN e.qos ELSE @, !.deposit = @ + add]
          b2 == IF e.setp
                THEN [x \in DOMAIN b1 |-> IF x \in DOMAIN PricingOf(e) THEN PricingOf(e)[x] ELSE b1[x]]
                ELSE b1
          updated == e.qos # 0 \/ add > 0 \/ e.setp
      IN
      IF e.setp /\ e.pdenom \notin PriceDenoms THEN Fail(s)
      ELSE IF b.available /\ updated /\ MinDepErr(s, b2) THEN FailW(s, "no_rate")
      ELSE IF b.available /\ updated /\ b2.deposit < MinDep(s, BasePrice(s, b2)) THEN Fail(s)
      ELSE IF BalOf(s, e.who) < add THEN Fail(s)
      ELSE Done(Pay(PutBind(s, e.svc, e.prov, b2), e.who, DEP, add))

(* msg_server.go: SetWithdrawAddress (blocked addresses are refused: the SDK fee collector and,
   since 20cb755, the service module's own three accounts) *)
BlockedNames == {"blocked", DEP, REQ, FEEP}
DoSetWithdraw(s, e) ==
  IF e.to \in BlockedNames THEN Fail(s)
  ELSE Done([s EXCEPT !.withdraw = Put(s.withdraw, e.who, e.to)])

(* binding.go: DisableServiceBinding *)
DoDisable(s, e) ==
  IF e.svc \in BadNames THEN FailW(s, "validate_basic")
  ELSE IF ~HasBind(s, e.svc, e.prov) THEN Fail(s)
  ELSE
    LET b == s.bind[e.svc][e.prov] IN
    IF e.who # b.owner THEN FailW(s, "unauthorized")
    ELSE IF ~b.available THEN Fail(s)
    ELSE Done(PutBind(s, e.svc, e.prov, [b EXCEPT !.available = FALSE, !.disabledAt = s.now]))

(* binding.go: EnableServiceBinding *)
DoEnable(s, e) ==
  IF e.svc \in BadNames THEN FailW(s, "validate_basic")
  ELSE IF ~HasBind(s, e.svc, e.prov) THEN Fail(s)
  ELSE
    LET b == s.bind[e.svc][e.prov]
        add == IF e.amt > 0 THEN e.amt ELSE 0 IN
    IF e.who # b.owner THEN FailW(s, "unauthorized")
    ELSE IF b.available THEN Fail(s)
    ELSE IF e.amt > 0 /\ BadDenom(e) THEN Fail(s)          \* validateDeposit
    ELSE IF MinDepErr(s, b) THEN FailW(s, "no_rate")
    ELSE IF b.deposit + add < MinDep(s, BasePrice(s, b)) THEN Fail(s)
    ELSE IF BalOf(s, e.who) < add THEN Fail(s)
    ELSE Done(Pay(PutBind(s, e.svc, e.prov,
                          [b EXCEPT !.deposit = @ + add, !.available = TRUE, !.disabledAt = 0]),
                  e.who, DEP, add))

(* binding.go: RefundDeposit *)
DoRefundDeposit(s, e) ==
  IF e.svc \in BadNames THEN FailW(s, "validate_basic")
  ELSE IF ~HasBind(s, e.svc, e.prov) THEN Fail(s)
  ELSE
    LET b == s.bind[e.svc][e.prov] IN
    IF e.who # b.owner THEN FailW(s, "unauthorized")
    ELSE IF b.available THEN Fail(s)
    ELSE IF b.deposit = 0 THEN Fail(s)
    ELSE IF s.now < b.disabledAt + s.params.wait THEN FailW(s, "too_early")
    ELSE IF BalOf(s, DEP) < b.deposit THEN FailW(s, "escrow_short")
    ELSE Done(Pay(PutBind(s, e.svc, e.prov, [b EXCEPT !.deposit = 0]), DEP, e.who, b.deposit))

-----------------------------------------------------------------------------
(* validation.go: ValidateRequest (ValidateBasic of MsgCallService; called by
   the keeper itself for module callers) *)
ValidRequest(e) ==
  /\ e.svc \notin BadNames
  /\ Len(e.provs) >= 1 /\ Len(e.provs) <= 10 /\ NoDup(e.provs)
  /\ e.timeout > 0
  /\ e.repeated => /\ ~(e.freq > 0 /\ e.freq < e.timeout)
                   /\ ~(e.total < (0 - 1) \/ e.total = 0)

(* invocation.go: CreateRequestContext after the module-specific checks *)
Create(s, e, mod, thr, state0) ==
  IF e.svc \notin DOMAIN s.defs THEN Fail(s)
  ELSE IF e.amt <= 0 \/ BadDenom(e) THEN Fail(s)        \* validateServiceFeeCap: one coin of the base denom
  ELSE IF e.timeout > s.params.maxTimeout THEN Fail(s)
  ELSE
    LET id == CtxId(s.seq + 1)
        c == [svc |-> e.svc, consumer |-> e.who, providers |-> e.provs, feeCap |-> e.amt,
              timeout |-> e.timeout, repeated |-> e.repeated,
              freq |-> IF e.repeated THEN (IF e.freq = 0 THEN e.timeout ELSE e.freq) ELSE 0,
              total |-> IF e.repeated THEN e.total ELSE 0,
              batch |-> 0, bstate |-> "completed", reqCount |-> 0, respCount |-> 0,
              bthreshold |-> thr, threshold |-> thr, state |-> state0, module |-> mod,
              rank |-> e.rank]
        s1 == [s EXCEPT !.seq = @ + 1, !.ctx = Put(s.ctx, id, c)]
    IN Done(IF state0 = "running" THEN AddNew(s1, id, s.h) ELSE s1)

(* msg_server.go CallService for the service of a registered module service +
   module_service.go RequestModuleService: the context is created with the
   module's provider, timeout 1, not repeated; the request is issued, answered
   by the module synchronously and the context completed in the same message.
   Nobody can bind the module service (DoBind), so no binding is found: nothing
   is charged and the fee is empty.  The handler finally stores the context
   copy it read BEFORE the request was issued (state COMPLETED, batch counter
   0): the stored batch fields are those of the fresh context.  The new-batch
   entry queued by CreateRequestContext is dropped by the end-blocker; context,
   request and response stay in the store for ever (no expiration entry). *)
CallModule(s, e) ==
  LET e1 == [e EXCEPT !.provs = <<OPROV>>, !.timeout = 1, !.repeated = FALSE, !.freq = 0, !.total = 0]
      r == Create(s, e1, "", 0, "running")
  IN
  IF ~r.ok THEN r
  ELSE
    LET id == CtxId(s.seq + 1)
        rid == ReqId(id, 1, 0)
        s1 == r.st
        s2 == [s1 EXCEPT
                 !.ctx[id].state = "completed",
                 !.req = Put(s1.req, rid, [ctx |-> id, batch |-> 1, provider |-> OPROV, fee |-> 0, fdenom |-> D,
                                           reqH |-> s.h, expH |-> s.h + 1, idx |-> 0]),
                 !.resp = Put(s1.resp, rid, [ctx |-> id, batch |-> 1, provider |-> OPROV, consumer |-> e.who,
                                             out |-> ~NoRate(s)])]
        \* AddEarnedFee(module provider, empty fee): the provider has no owner, GetOwner
        \* returns the empty address, GetOwnerEarnedFees(empty) iterates the prefix of ALL
        \* owners and SetOwnerEarnedFees(empty, that sum) stores it under the empty owner
        \* (finding F36; nothing is written when no owner tally exists)
        all == [d \in DenomsOf(s) |->
                  SumOver([o \in DOMAIN s.ownerEarned |-> Amt(s.ownerEarned[o], d)], DOMAIN s.ownerEarned)]
        s3 == IF FixF36 \/ Pos(all) = EmptyF THEN s2
              ELSE [s2 EXCEPT !.ownerEarned = Put(s2.ownerEarned, NONE,
                       [d \in DOMAIN Pos(all) \cup DOMAIN Get(s2.ownerEarned, NONE, EmptyF) |->
                          IF d \in DOMAIN Pos(all) THEN all[d] ELSE s2.ownerEarned[NONE][d]])]
    IN Done(IncVol(s3, OSVC, OPROV, e.who))

DoCall(s, e) ==
  IF ~ValidRequest(e) THEN FailW(s, "validate_basic")
  ELSE IF e.svc = OSVC THEN CallModule(s, e)
  ELSE Create(s, e, "", 0, "running")

DoModCall(s, e) ==
  IF ~ValidRequest(e) THEN FailW(s, "validate_basic")
  ELSE IF e.thr < 1 \/ e.thr > Len(e.provs) THEN Fail(s)
  ELSE Create(s, e, MOD, e.thr, IF e.paused0 THEN "paused" ELSE "running")

(* msg_server.go CheckAuthority(…, true) for messages; the keeper entry points
   check the consumer only for module-owned contexts *)
AuthFail(s, e, viaMsg) ==
  LET c == s.ctx[e.ctx] IN
  IF viaMsg THEN e.who # c.consumer \/ c.module # ""
  ELSE c.module # "" /\ e.who # c.consumer

DoPause(s, e, viaMsg) ==
  IF viaMsg /\ BadId(e) THEN FailW(s, "validate_basic")
  ELSE IF e.ctx \notin DOMAIN s.ctx THEN Fail(s)
  ELSE IF AuthFail(s, e, viaMsg) THEN FailW(s, "unauthorized")
  ELSE IF ~s.ctx[e.ctx].repeated THEN Fail(s)
  ELSE IF s.ctx[e.ctx].state # "running" THEN Fail(s)
  ELSE Done([s EXCEPT !.ctx[e.ctx].state = "paused"])

DoStart(s, e, viaMsg) ==
  IF viaMsg /\ BadId(e) THEN FailW(s, "validate_basic")
  ELSE IF e.ctx \notin DOMAIN s.ctx THEN Fail(s)
  ELSE IF AuthFail(s, e, viaMsg) THEN FailW(s, "unauthorized")
  ELSE IF s.ctx[e.ctx].state # "paused" THEN Fail(s)
  ELSE
    LET s1 == [s EXCEPT !.ctx[e.ctx].state = "running"] IN
    Done(IF e.ctx \notin DOMAIN s.expH /\ e.ctx \notin DOMAIN s.newH
         THEN AddNew(s1, e.ctx, s.h) ELSE s1)

DoKill(s, e, viaMsg) ==
  IF viaMsg /\ BadId(e) THEN FailW(s, "validate_basic")
  ELSE IF e.ctx \notin DOMAIN s.ctx THEN Fail(s)
  ELSE IF AuthFail(s, e, viaMsg) THEN FailW(s, "unauthorized")
  ELSE IF ~s.ctx[e.ctx].repeated THEN Fail(s)
  ELSE Done([s EXCEPT !.ctx[e.ctx].state = "completed"])

(* validation.go: ValidateRequestContextUpdating *)
ValidUpdating(e) ==
  /\ Len(e.provs) <= 10 /\ NoDup(e.provs)
  /\ e.timeout >= 0
  /\ ~(e.timeout # 0 /\ e.freq # 0 /\ e.freq < e.timeout)
  /\ e.total >= 0 - 1

(* invocation.go: UpdateRequestContext *)
DoUpdate(s, e, viaMsg) ==
  IF viaMsg /\ (~ValidUpdating(e) \/ BadId(e)) THEN FailW(s, "validate_basic")
  ELSE IF e.ctx \notin DOMAIN s.ctx THEN Fail(s)
  ELSE IF AuthFail(s, e, viaMsg) THEN FailW(s, "unauthorized")
  ELSE
    LET c == s.ctx[e.ctx]
        isMod == c.module # ""
        thr == IF e.thr = 0 \/ viaMsg THEN c.threshold ELSE e.thr
        pds == IF isMod /\ Len(e.provs) = 0 THEN c.providers ELSE e.provs
        timeout == IF e.timeout = 0 THEN c.timeout ELSE e.timeout
        freq == IF e.freq = 0 THEN c.freq ELSE e.freq
    IN
    IF c.state = "completed" THEN Fail(s)
    ELSE IF isMod /\ ~ValidUpdating(e) THEN Fail(s)
    ELSE IF isMod /\ thr > Len(pds) THEN Fail(s)
    ELSE IF e.amt > 0 /\ BadDenom(e) THEN Fail(s)          \* validateServiceFeeCap
    ELSE IF e.timeout > s.params.maxTimeout THEN Fail(s)
    ELSE IF freq < timeout THEN Fail(s)
    ELSE IF e.total >= 1 /\ e.total < c.batch THEN Fail(s)
    ELSE Done([s EXCEPT !.ctx[e.ctx] =
                 [c EXCEPT !.threshold = IF isMod /\ thr > 0 THEN thr ELSE @,
                           !.feeCap = IF e.amt > 0 THEN e.amt ELSE @,
                           !.providers = IF Len(pds) > 0 THEN pds ELSE @,
                           !.timeout = IF timeout > 0 THEN timeout ELSE @,
                           !.freq = IF freq > 0 THEN freq ELSE @,
                           !.total = IF e.total # 0 THEN e.total ELSE @]])

-----------------------------------------------------------------------------
(* number of responses with an output stored for batch n of context id *)
OutputsIn(resp, id, n) ==
  Cardinality({r \in DOMAIN resp : resp[r].ctx = id /\ resp[r].batch = n /\ resp[r].out})

(* invocation.go Callback: fired from CompleteBatch for module contexts *)
CbOf(c, id, outs) ==
  IF c.module = "" THEN <<>>
  ELSE << [ctx |-> id, batch |-> c.batch, outs |-> outs, err |-> outs < c.bthreshold] >>

(* invocation.go: AddResponse (+ fees.go AddEarnedFee) *)
DoRespond(s, e) ==
  IF BadId(e) THEN FailW(s, "validate_basic")
  ELSE IF e.req \notin DOMAIN s.req THEN FailW(s, "unknown_request")
  ELSE
    LET r == s.req[e.req] IN
    IF r.ctx \notin DOMAIN s.ctx THEN FailW(s, "unknown_request")
    ELSE IF e.who # r.provider THEN FailW(s, "wrong_provider")
    ELSE IF e.req \notin s.active THEN FailW(s, "not_active")
    ELSE
      LET c == s.ctx[r.ctx]
          tax == MulFloorW(r.fee, s.params.taxNum, s.params.taxDen)
          net == Coin(r.fdenom, r.fee - tax)
          p == r.provider
          o == Get(s.owner, p, "")
      IN
      IF BalD(s, REQ, r.fdenom) < tax THEN FailW(s, "escrow_short")
      ELSE
        LET s1 == [PayD(s, REQ, FEEP, r.fdenom, tax) EXCEPT
                     !.earned = AddToC(s.earned, p, net),
                     !.ownerEarned = AddToC(s.ownerEarned, o, net),
                     !.resp = Put(s.resp, e.req, [ctx |-> r.ctx, batch |-> r.batch, provider |-> p,
                                                  consumer |-> c.consumer, out |-> e.okres]),
                     !.active = @ \ {e.req},
                     !.activeB = {x \in @ : x[1] # e.req}]
            s2 == IncVol(s1, c.svc, p, c.consumer)
            done == c.respCount + 1 = c.reqCount
            c2 == [c EXCEPT !.respCount = @ + 1,
                            !.bstate = IF done THEN "completed" ELSE @]
        IN DoneC([s2 EXCEPT !.ctx[r.ctx] = c2],
                 IF done THEN CbOf(c, r.ctx, OutputsIn(s2.resp, r.ctx, c.batch)) ELSE <<>>)

(* fees.go: WithdrawEarnedFees (the message always names a provider: the
   handler parses msg.Provider with AccAddressFromBech32, "" is an error) *)
DoWithdraw(s, e) ==
  IF e.prov = "" THEN Fail(s)
  ELSE IF ~(e.prov \in DOMAIN s.owner /\ s.owner[e.prov] = e.who) THEN FailW(s, "unauthorized")
  ELSE
    LET own == Get(s.ownerEarned, e.who, EmptyF)
        earned == Get(s.earned, e.prov, EmptyF)
        to == Get(s.withdraw, e.who, e.who)
        left == SubC(own, earned)
    IN
    IF earned # own /\ ~GeC(own, earned) THEN Panic(s)   \* Coins.Sub panics
    ELSE IF ~CanPayC(s, REQ, earned) THEN FailW(s, "escrow_short")
    ELSE IF to \notin DOMAIN s.bal THEN Fail(s)
    ELSE Done([PayC(s, REQ, to, earned) EXCEPT
                 !.earned = Del(s.earned, e.prov),
                 \* DeleteOwnerEarnedFees, then SetOwnerEarnedFees(own - earned) unless the
                 \* two tallies are equal (fix a72912e; before it the stored entry of a denom
                 \* that dropped to zero survived: finding F35)
                 !.ownerEarned = IF left = EmptyF THEN Del(s.ownerEarned, e.who)
                                 ELSE Put(s.ownerEarned, e.who, left)])

(* fees.go: WithdrawEarnedFees with an empty provider: everything the owner's
   providers earned.  Not reachable through MsgWithdrawEarnedFees (see above);
   the harness calls the keeper as a module would (event ModWithdrawAll). *)
DoWithdrawAll(s, e) ==
  LET own == Get(s.ownerEarned, e.who, EmptyF)
      to == Get(s.withdraw, e.who, e.who)
      mine == {x[2] : x \in {y \in s.ownerProv : y[1] = e.who}}
  IN
  IF ~CanPayC(s, REQ, own) THEN FailW(s, "escrow_short")
  ELSE IF to \notin DOMAIN s.bal THEN Fail(s)
  ELSE Done([PayC(s, REQ, to, own) EXCEPT
               !.earned = [p \in DOMAIN s.earned \ mine |-> s.earned[p]],
               !.ownerEarned = Del(s.ownerEarned, e.who)])

(* the harness' exchange-rate module service: environment *)
DoSetRate(s, e) ==
  IF e.rn < 0 \/ e.rd \notin {1, 2, 4} THEN Fail(s)
  ELSE Done([s EXCEPT !.rate = [n |-> e.rn, d |-> e.rd]])

-----------------------------------------------------------------------------
(***************************************************************************)
(* abci.go: EndBlocker.  Per-item handlers, then the fold.                 *)
(***************************************************************************)

(* expiredRequestHandler: Slash (invocation.go), RefundServiceFee (fees.go),
   DeleteActiveRequest.  Errors of the first two are discarded by the caller;
   each leaves the state untouched when it fails. *)
ExpireReq(s, rid) ==
  LET r == s.req[rid]
      c == s.ctx[r.ctx]
      p == r.provider
      s1 == IF ~HasBind(s, c.svc, p) THEN s
            ELSE
              LET b == s.bind[c.svc][p]
                  sl == MulFloorW(b.deposit, s.params.slashNum, s.params.slashDen)
                  dep == b.deposit - sl
                  off == b.available /\ (MinDepErr(s, b) \/ dep < MinDep(s, BasePrice(s, b)))
              IN IF BalOf(s, DEP) < sl THEN s
                 ELSE PutBind(Pay(s, DEP, FEEP, sl), c.svc, p,
                              [b EXCEPT !.deposit = dep,
                                        !.available = IF off THEN FALSE ELSE @,
                                        !.disabledAt = IF off THEN s.now ELSE @])
      s2 == IF BalD(s1, REQ, r.fdenom) < r.fee THEN s1 ELSE PayD(s1, REQ, c.consumer, r.fdenom, r.fee)
  IN [s2 EXCEPT !.active = @ \ {rid}, !.activeB = {x \in @ : x[1] # rid}]

RECURSIVE ExpireReqs(_, _)
ExpireReqs(s, rids) ==
  IF rids = {} THEN s
  ELSE LET r == CHOOSE x \in rids : \A y \in rids : s.req[x].idx <= s.req[y].idx
       IN ExpireReqs(ExpireReq(s, r), rids \ {r})

(* expiredRequestBatchHandler.  Returns [st, cbs]. *)
ExpireBatch(s, id) ==
  IF id \notin DOMAIN s.ctx THEN [st |-> DelExp(s, id, s.h), cbs |-> <<>>]
  ELSE
    LET c == s.ctx[id]
        running == c.bstate # "completed"
        rids == {r \in s.active : r \in DOMAIN s.req /\ s.req[r].ctx = id /\ s.req[r].batch = c.batch}
        s1 == IF running THEN ExpireReqs(s, rids) ELSE s
        cbs == IF running THEN CbOf(c, id, OutputsIn(s.resp, id, c.batch)) ELSE <<>>
        c1 == [c EXCEPT !.bstate = "completed"]
        s2 == [DelExp(s1, id, s.h) EXCEPT !.ctx[id] = c1]
        again == c1.repeated /\ (c1.total < 0 \/ c1.batch < c1.total)
        s3 == IF c1.state = "completed" THEN [s2 EXCEPT !.ctx = Del(s2.ctx, id)]
              ELSE IF c1.state = "running"
                   THEN (IF again THEN AddNew(s2, id, s.h - c1.timeout + c1.freq)
                         ELSE [s2 EXCEPT !.ctx = Del(s2.ctx, id)])
                   ELSE s2
        gone(r, f) == f[r].ctx = id /\ f[r].batch = c1.batch
        \* CleanBatch: responses are deleted under the keys of the batch's requests
        s4 == [s3 EXCEPT !.req = [r \in {x \in DOMAIN s3.req : ~gone(x, s3.req)} |-> s3.req[r]],
                         !.resp = [r \in {x \in DOMAIN s3.resp : ~(x \in DOMAIN s3.req /\ gone(x, s3.req))} |-> s3.resp[r]]]
    IN [st |-> s4, cbs |-> cbs]

(* invocation.go: FilterServiceProviders — the providers of the context that
   are bound, available, fast enough and not above the fee cap, in the
   context's order *)
(* oracle_price.go GetExchangedPrice: the discounted price in the base denom,
   TruncateInt(price * dT * dV * rate) *)
Exchanged(s, b, vol) ==
  IF b.pdenom = D THEN FeeOf(b, s.now, vol)
  ELSE (b.price * DiscT(b, s.now) * DiscV(b, vol) * s.rate.n) \div (16 * s.rate.d)

Eligible(s, c) ==
  SelectSeq(c.providers,
            LAMBDA p : /\ HasBind(s, c.svc, p)
                       /\ s.bind[c.svc][p].available
                       /\ s.bind[c.svc][p].qos <= c.timeout
                       /\ Exchanged(s, s.bind[c.svc][p], VolOf(s, c.svc, p, c.consumer)) <= c.feeCap)

SumSeq(q) == SumOver(q, DOMAIN q)
(* coins of a sequence of amounts with their denoms *)
CoinsOfSeq(amts, dens) ==
  Pos([d \in Range(dens) |->
         SumOver([i \in DOMAIN amts |-> IF dens[i] = d THEN amts[i] ELSE 0], DOMAIN amts)])

(* FilterServiceProviders fails as soon as it meets a usable provider whose
   price needs an exchange rate that does not exist *)
RateError(s, c) ==
  /\ NoRate(s)
  /\ \E i \in DOMAIN c.providers :
       LET p == c.providers[i] IN
       /\ HasBind(s, c.svc, p) /\ s.bind[c.svc][p].available
       /\ s.bind[c.svc][p].qos <= c.timeout /\ NeedsRate(s.bind[c.svc][p])

(* newRequestBatchHandler.  Returns [st, scbs, over]. *)
NewBatch(s, id) ==
  IF id \notin DOMAIN s.ctx THEN [st |-> DelNew(s, id, s.h), scbs |-> <<>>, over |-> EmptyF]
  ELSE
    LET c == s.ctx[id] IN
    IF c.state # "running" THEN [st |-> DelNew(s, id, s.h), scbs |-> <<>>, over |-> EmptyF]
    \* no exchange rate (fix 6da0f9d, was finding F20): DeleteNewRequestBatch, then
    \* OnRequestContextPaused exactly as for insufficient balances
    ELSE IF RateError(s, c)
    THEN [st |-> DelNew([s EXCEPT !.ctx[id].bstate = "completed", !.ctx[id].state = "paused"], id, s.h),
          scbs |-> IF c.module # "" THEN <<id>> ELSE <<>>, over |-> EmptyF]
    ELSE
      LET el == Eligible(s, c)
          fees == [i \in DOMAIN el |-> FeeOf(s.bind[c.svc][el[i]], s.now, VolOf(s, c.svc, el[i], c.consumer))]
          raws == [i \in DOMAIN el |-> s.bind[c.svc][el[i]].price]
          dens == [i \in DOMAIN el |-> s.bind[c.svc][el[i]].pdenom]
          feeC == CoinsOfSeq(fees, dens)
          \* F4: the consumer is charged the sum of the undiscounted prices
          charge == IF FixF4 THEN feeC ELSE CoinsOfSeq(raws, dens)
          n == c.batch + 1
      IN
      IF Len(el) > 0 /\ Len(el) >= c.threshold
      THEN
        IF ~CanPayC(s, c.consumer, charge)
        THEN \* OnRequestContextPaused
          [st |-> DelNew([s EXCEPT !.ctx[id].bstate = "completed", !.ctx[id].state = "paused"], id, s.h),
           scbs |-> IF c.module # "" THEN <<id>> ELSE <<>>, over |-> EmptyF]
        ELSE \* DeductServiceFees, InitiateRequests, AddRequestBatchExpiration
          LET newReq == [i \in DOMAIN el |->
                           [ctx |-> id, batch |-> n, provider |-> el[i], fee |-> fees[i],
                            fdenom |-> IF fees[i] = 0 THEN D ELSE dens[i],
                            reqH |-> s.h, expH |-> s.h + c.timeout, idx |-> i - 1]]
              ids == [i \in DOMAIN el |-> ReqId(id, n, i - 1)]
              s1 == PayC(s, c.consumer, REQ, charge)
              s2 == [s1 EXCEPT
                       !.req = [r \in DOMAIN s1.req \cup Range(ids) |->
                                  IF r \in Range(ids)
                                  THEN newReq[CHOOSE i \in DOMAIN ids : ids[i] = r] ELSE s1.req[r]],
                       !.active = @ \cup Range(ids),
                       !.activeB = @ \cup {<<ids[i], s.h + c.timeout, el[i]>> : i \in DOMAIN el},
                       !.ctx[id] = [c EXCEPT !.batch = n, !.bstate = "running", !.respCount = 0,
                                             !.reqCount = Len(el), !.bthreshold = c.threshold]]
          IN [st |-> DelNew(AddExp(s2, id, s.h + c.timeout), id, s.h), scbs |-> <<>>,
              over |-> SubC(charge, feeC)]
      ELSE \* SkipCurrentRequestBatch
        LET s1 == [s EXCEPT !.ctx[id] = [c EXCEPT !.batch = n, !.bstate = "running", !.respCount = 0,
                                                  !.reqCount = 0, !.bthreshold = c.threshold]]
        IN [st |-> DelNew(AddExp(s1, id, s.h + c.timeout), id, s.h), scbs |-> <<>>, over |-> EmptyF]

RankOf(s, id) == IF id \in DOMAIN s.ctx THEN s.ctx[id].rank ELSE 0
First(s, ids) == CHOOSE x \in ids : \A y \in ids : RankOf(s, x) <= RankOf(s, y)

RECURSIVE FoldExp(_, _, _)
FoldExp(s, ids, cbs) ==
  IF ids = {} THEN [st |-> s, cbs |-> cbs]
  ELSE LET id == First(s, ids)
           r == ExpireBatch(s, id)
       IN FoldExp(r.st, ids \ {id}, cbs \o r.cbs)

RECURSIVE FoldNew(_, _, _, _)
FoldNew(s, ids, scbs, over) ==
  IF ids = {} THEN [st |-> s, scbs |-> scbs, over |-> over]
  ELSE LET id == First(s, ids)
           r == NewBatch(s, id)
       IN FoldNew(r.st, ids \ {id}, scbs \o r.scbs, AddC(over, r.over))

DueIn(q, h) == {x[2] : x \in {y \in q : y[1] = h}}

(* EndBlocker: expired batches first, then new batches (entries the first
   phase adds for this very height are picked up by the second) *)
DoEndBlock(s, e) ==
  LET r1 == FoldExp(s, DueIn(s.expQ, s.h), <<>>)
      r2 == FoldNew(r1.st, DueIn(r1.st.newQ, s.h), <<>>, EmptyF)
  IN [ok |-> TRUE, panic |-> FALSE,
      st |-> [r2.st EXCEPT !.h = @ + 1, !.now = @ + e.dt],
      why |-> IF r2.over # EmptyF THEN "f4_discount" ELSE "",
      cbs |-> r1.cbs, scbs |-> r2.scbs, over |-> r2.over]

(* Dispatch on an event record: the deterministic step function *)
Apply(s, e) ==
  CASE e.name = "Define"        -> DoDefine(s, e)
    [] e.name = "Bind"          -> DoBind(s, e)
    [] e.name = "UpdateBinding" -> DoUpdateBinding(s, e)
    [] e.name = "SetWithdraw"   -> DoSetWithdraw(s, e)
    [] e.name = "Disable"       -> DoDisable(s, e)
    [] e.name = "Enable"        -> DoEnable(s, e)
    [] e.name = "RefundDeposit" -> DoRefundDeposit(s, e)
    [] e.name = "Call"          -> DoCall(s, e)
    [] e.name = "ModCall"       -> DoModCall(s, e)
    [] e.name = "Respond"       -> DoRespond(s, e)
    [] e.name = "Pause"         -> DoPause(s, e, TRUE)
    [] e.name = "Start"         -> DoStart(s, e, TRUE)
    [] e.name = "Kill"          -> DoKill(s, e, TRUE)
    [] e.name = "Update"        -> DoUpdate(s, e, TRUE)
    [] e.name = "ModPause"      -> DoPause(s, e, FALSE)
    [] e.name = "ModStart"      -> DoStart(s, e, FALSE)
    [] e.name = "ModKill"       -> DoKill(s, e, FALSE)
    [] e.name = "ModUpdate"     -> DoUpdate(s, e, FALSE)
    [] e.name = "Withdraw"      -> DoWithdraw(s, e)
    [] e.name = "ModWithdrawAll" -> DoWithdrawAll(s, e)
    [] e.name = "SetRate"       -> DoSetRate(s, e)
    [] e.name = "EndBlock"      -> DoEndBlock(s, e)
    [] OTHER -> Fail(s)

-----------------------------------------------------------------------------
(***************************************************************************)
(* Ghost state, computed from the OBSERVED (s, e, t) only.                 *)
(*   ans[r], exp[r]   times request r was answered / observed expiring     *)
(*   batchAt[c][n]    height at which batch n of context c was issued      *)
(*   modified[c]      some Update succeeded on c                           *)
(*   intr[c]          c was seen not running since its last batch          *)
(*   cbn[c][n]        response-callback firings for batch n of c           *)
(*   expd[c][n]       times batch n of c was observed completing           *)
(*   f4               cumulative overcharge attributable to finding F4:    *)
(*                    sum over created requests of (list price - fee)      *)
(***************************************************************************)
ExpiredNow(s, e, t) == IF e.name = "EndBlock" THEN s.active \ t.active ELSE {}
NewReqs(s, t) == DOMAIN t.req \ DOMAIN s.req
Issued(s, t, id) == id \in DOMAIN s.ctx /\ id \in DOMAIN t.ctx /\ t.ctx[id].batch > s.ctx[id].batch
(* the batch of id that was running in s is no longer running (or id is gone) *)
Completes(s, t, id) ==
  /\ id \in DOMAIN s.ctx /\ s.ctx[id].bstate = "running"
  /\ \/ id \notin DOMAIN t.ctx
     \/ t.ctx[id].bstate = "completed"
     \/ t.ctx[id].batch > s.ctx[id].batch

SvcOfReq(s, r) == IF s.req[r].ctx \in DOMAIN s.ctx THEN s.ctx[s.req[r].ctx].svc ELSE ""
ConsOfReq(s, r) == IF s.req[r].ctx \in DOMAIN s.ctx THEN s.ctx[s.req[r].ctx].consumer ELSE ""
ListPrice(s, t, r) ==
  LET svc == SvcOfReq(t, r)
      p == t.req[r].provider
  IN IF HasBind(s, svc, p) THEN s.bind[svc][p].price ELSE t.req[r].fee
(* the denom the request was priced (and, under F4, charged) in *)
PriceDenom(s, t, r) ==
  LET svc == SvcOfReq(t, r)
      p == t.req[r].provider
  IN IF HasBind(s, svc, p) THEN s.bind[svc][p].pdenom ELSE t.req[r].fdenom

F4Step(s, e, t, d) ==
  IF e.name = "EndBlock"
  THEN LET rs == {r \in NewReqs(s, t) : PriceDenom(s, t, r) = d} IN
       SumOver([r \in rs |-> ListPrice(s, t, r) - t.req[r].fee], rs)
  ELSE 0

(* the request a module-service call creates and answers in one message *)
ModuleAnswered(s, e) ==
  IF e.name = "Call" /\ e.ok /\ e.svc = OSVC THEN {ReqId(CtxId(s.seq + 1), 1, 0)} ELSE {}

GhostInit == [ans |-> EmptyF, exp |-> EmptyF, batchAt |-> EmptyF, modified |-> EmptyF,
              intr |-> EmptyF, cbn |-> EmptyF, expd |-> EmptyF, f4 |-> EmptyF,
              born |-> EmptyF, open |-> EmptyF, lastEnd |-> 0, dueAt |-> EmptyF,
              pausedH |-> EmptyF, cmd |-> EmptyF, wd |-> EmptyF]

(* History ghosts of the audit (DESIGN 13.12, lead): what HAPPENED, never read from the
   module's own queues / indexes / flags.
     born[c]     the accepted Call / ModCall that created context c: who called, in which
                 block, running or paused, the settings AS THE MESSAGE GAVE THEM
     open[r]     request r as it was first seen (fee, provider, expiration height ...)
     lastEnd     height of the last end-block observed
     dueAt[c][n] the height at which batch n of c expires = the height it was issued at +
                 the timeout in force then
     pausedH[c]  the last accepted Pause / Start on c was a Pause (or c was created paused)
     cmd[c]      some Pause or Kill on c was accepted
     wd[o]       the withdraw address owner o last set with an accepted SetWithdraw *)
NewCtx(s, t) == DOMAIN t.ctx \ DOMAIN s.ctx
CallAccepted(e) == e.name \in {"Call", "ModCall"} /\ e.ok
BornRec(s, e) ==
  [who |-> e.who, h |-> s.h, run |-> ~(e.name = "ModCall" /\ e.paused0),
   mod |-> IF e.name = "ModCall" THEN MOD ELSE "",
   osvc |-> (e.name = "Call" /\ e.svc = OSVC),
   repeated |-> e.repeated,
   freq |-> IF e.repeated THEN (IF e.freq = 0 THEN e.timeout ELSE e.freq) ELSE 0,
   total |-> IF e.repeated THEN e.total ELSE 0,
   timeout |-> e.timeout]
OpenRec(t, r) ==
  [ctx |-> t.req[r].ctx, batch |-> t.req[r].batch, provider |-> t.req[r].provider,
   fee |-> t.req[r].fee, fdenom |-> t.req[r].fdenom, expH |-> t.req[r].expH]
PauseNames == {"Pause", "ModPause"}
StartNames == {"Start", "ModStart"}
KillNames == {"Kill", "ModKill"}
(* the requests that, by the history alone, still await their outcome: seen created, never
   answered, the end-block of their expiration height not yet observed *)
LiveH(g) == {r \in DOMAIN g.open : Get(g.ans, r, 0) = 0 /\ g.open[r].expH > g.lastEnd}

CountCbs(e, id, n) == Cardinality({i \in DOMAIN e.cbs : e.cbs[i].ctx = id /\ e.cbs[i].batch = n})

GhostStep(g, s, e, t) ==
  LET rs == DOMAIN g.ans \cup DOMAIN t.req
      cs == DOMAIN g.batchAt \cup DOMAIN t.ctx
      gone == ExpiredNow(s, e, t)
      bump(f, id, n, k) == IF k = 0 THEN f ELSE Put(f, n, Get(f, n, 0) + k)
  IN
  [ans |-> [r \in rs |-> Get(g.ans, r, 0)
                         + (IF e.name = "Respond" /\ e.ok /\ e.req = r THEN 1 ELSE 0)
                         + (IF r \in ModuleAnswered(s, e) THEN 1 ELSE 0)],
   exp |-> [r \in rs |-> Get(g.exp, r, 0) + (IF r \in gone THEN 1 ELSE 0)],
   batchAt |-> [id \in cs |->
                  IF Issued(s, t, id)
                  THEN Put(Get(g.batchAt, id, EmptyF), t.ctx[id].batch, s.h)
                  ELSE Get(g.batchAt, id, EmptyF)],
   modified |-> [id \in cs |-> Get(g.modified, id, FALSE)
                               \/ (e.name \in {"Update", "ModUpdate"} /\ e.ok /\ e.ctx = id)],
   intr |-> [id \in cs |->
               IF id \notin DOMAIN t.ctx THEN TRUE
               ELSE IF Issued(s, t, id) THEN t.ctx[id].state # "running"
               ELSE Get(g.intr, id, FALSE) \/ t.ctx[id].state # "running"],
   cbn |-> [id \in cs |->
              LET f == Get(g.cbn, id, EmptyF)
                  ns == {e.cbs[i].batch : i \in {j \in DOMAIN e.cbs : e.cbs[j].ctx = id}}
              IN [n \in DOMAIN f \cup ns |-> Get(f, n, 0) + CountCbs(e, id, n)]],
   expd |-> [id \in cs |->
               IF Completes(s, t, id)
               THEN bump(Get(g.expd, id, EmptyF), id, s.ctx[id].batch, 1)
               ELSE Get(g.expd, id, EmptyF)],
   f4 |-> [d \in DenomsOf(t) |-> Amt(g.f4, d) + F4Step(s, e, t, d)],
   born |-> LET new == IF CallAccepted(e) THEN NewCtx(s, t) \ DOMAIN g.born ELSE {} IN
            [id \in DOMAIN g.born \cup new |-> IF id \in DOMAIN g.born THEN g.born[id] ELSE BornRec(s, e)],
   open |-> LET new == DOMAIN t.req \ DOMAIN g.open IN
            [r \in DOMAIN g.open \cup new |-> IF r \in DOMAIN g.open THEN g.open[r] ELSE OpenRec(t, r)],
   lastEnd |-> IF e.name = "EndBlock" THEN s.h ELSE g.lastEnd,
   dueAt |-> LET iss == {id \in DOMAIN t.ctx : Issued(s, t, id)} IN
             [id \in DOMAIN g.dueAt \cup iss |->
                IF id \in iss
                THEN Put(Get(g.dueAt, id, EmptyF), t.ctx[id].batch, s.h + s.ctx[id].timeout)
                ELSE g.dueAt[id]],
   pausedH |-> LET new == IF CallAccepted(e) THEN NewCtx(s, t) \ DOMAIN g.pausedH ELSE {}
                   hit == IF e.name \in PauseNames \cup StartNames /\ e.ok THEN {e.ctx} ELSE {} IN
               [id \in DOMAIN g.pausedH \cup new \cup hit |->
                  IF id \in hit THEN e.name \in PauseNames
                  ELSE IF id \in DOMAIN g.pausedH THEN g.pausedH[id]
                  ELSE ~BornRec(s, e).run],
   cmd |-> LET hit == IF e.name \in PauseNames \cup KillNames /\ e.ok THEN {e.ctx} ELSE {} IN
           [id \in DOMAIN g.cmd \cup hit |-> TRUE],
   wd |-> IF e.name = "SetWithdraw" /\ e.ok THEN Put(g.wd, e.who, e.to) ELSE g.wd]

-----------------------------------------------------------------------------
(***************************************************************************)
(* Property clauses.  State clauses take the state (and ghosts); step       *)
(* clauses take (s, e, t) = pre-state, event with result, post-state, and   *)
(* g = the ghost state AFTER the step.                                      *)
(***************************************************************************)
DeltaD(s, t, a, d) == BalD(t, a, d) - BalD(s, a, d)
Delta(s, t, a) == DeltaD(s, t, a, D)
(* every (account, denom) pair except those in X is unchanged *)
OthersSame(s, t, X) ==
  \A a \in DOMAIN t.bal : \A d \in DenomsOf(t) : (<<a, d>> \notin X) => DeltaD(s, t, a, d) = 0
EarnedOf(t, p, d) == Amt(Get(t.earned, p, EmptyF), d)
OwnerEarnedOf(t, o, d) == Amt(Get(t.ownerEarned, o, EmptyF), d)
AllBindings(t) == {<<svc, p>> : svc \in DOMAIN t.bind, p \in UNION {DOMAIN t.bind[x] : x \in DOMAIN t.bind}}
Bindings(t) == {b \in AllBindings(t) : HasBind(t, b[1], b[2])}
DepositSum(t) == SumOver([b \in Bindings(t) |-> t.bind[b[1]][b[2]].deposit], Bindings(t))
Liabilities(t, d) ==
  LET rs == {r \in t.active : r \in DOMAIN t.req /\ t.req[r].fdenom = d} IN
  SumOver([r \in rs |-> t.req[r].fee], rs)
  + SumOver([p \in DOMAIN t.earned |-> EarnedOf(t, p, d)], DOMAIN t.earned)

(* C07: deposit escrow = sum of the recorded deposits (deposits are in the base
   denom; the escrow holds nothing else) *)
(* the arithmetic of the C07 clauses is stated once, in ServiceClauses.tla
   (shared with the big-number tier) *)
C07_DepositEscrow(t) ==
  /\ EscrowW(BalOf(t, DEP), DepositSum(t))
  /\ \A d \in DenomsOf(t) \ {D} : BalD(t, DEP, d) = 0

(* C07: request escrow = fees of the requests awaiting a response + earned fees *)
C07_RequestEscrow(t) == \A d \in DenomsOf(t) : EscrowW(BalD(t, REQ, d), Liabilities(t, d))
(* ... modulo finding F4: exactly the recorded discount overcharges are stuck *)
C07_RequestEscrow_ModF4(t, g) ==
  \A d \in DenomsOf(t) : EscrowW(BalD(t, REQ, d), Liabilities(t, d) + Amt(g.f4, d))

(* C07: provider-side and owner-side tallies agree.  relax = TRUE: modulo
   finding F36 (the tally stored under the empty owner is ignored) *)
OwnerTallyX(t, relax) ==
  /\ DOMAIN t.earned \subseteq DOMAIN t.owner
  /\ \A o \in (DOMAIN t.ownerEarned \cup Range(t.owner)) \ (IF relax THEN {NONE} ELSE {}) : \A d \in DenomsOf(t) :
       LET ps == {p \in DOMAIN t.owner : t.owner[p] = o} IN
       OwnerEarnedOf(t, o, d) = SumOver([p \in ps |-> EarnedOf(t, p, d)], ps)
C07_OwnerTally(t) == OwnerTallyX(t, FALSE)
C07_OwnerTally_ModF36(t) == OwnerTallyX(t, TRUE)

(* C07: in the end-blocker every account pays exactly the fees recorded on the
   requests issued for it and gets back exactly the fees of its requests that
   expire *)
Refunds(s, e, t, a, d) ==
  LET rs == {r \in ExpiredNow(s, e, t) : r \in DOMAIN s.req /\ ConsOfReq(s, r) = a /\ s.req[r].fdenom = d} IN
  SumOver([r \in rs |-> s.req[r].fee], rs)
Charges(s, t, a, d) ==
  LET rs == {r \in NewReqs(s, t) : ConsOfReq(t, r) = a /\ t.req[r].fdenom = d} IN
  SumOver([r \in rs |-> t.req[r].fee], rs)
Overcharge(s, t, a, d) ==
  LET rs == {r \in NewReqs(s, t) : ConsOfReq(t, r) = a /\ PriceDenom(s, t, r) = d} IN
  SumOver([r \in rs |-> ListPrice(s, t, r) - t.req[r].fee], rs)

C07_Charge(s, e, t) ==
  (e.name = "EndBlock") =>
    \A a \in UsersOf(t) : \A d \in DenomsOf(t) :
      ChargeW(DeltaD(s, t, a, d), Refunds(s, e, t, a, d), Charges(s, t, a, d))
C07_Charge_ModF4(s, e, t) ==
  (e.name = "EndBlock") =>
    \A a \in UsersOf(t) : \A d \in DenomsOf(t) :
      ChargeF4W(DeltaD(s, t, a, d), Refunds(s, e, t, a, d), Charges(s, t, a, d), Overcharge(s, t, a, d))

(* C07: an answered request's fee goes to the provider minus the tax, the tax
   to the fee pool *)
C07_Answer(s, e, t) ==
  (e.name = "Respond" /\ e.ok /\ e.req \in DOMAIN s.req) =>
    LET r == s.req[e.req]
        fd == r.fdenom
        tax == MulFloorW(r.fee, s.params.taxNum, s.params.taxDen)
    IN /\ TaxW(r.fee, s.params.taxNum, s.params.taxDen, tax,
               EarnedOf(t, r.provider, fd) - EarnedOf(s, r.provider, fd))
       /\ \A p \in DOMAIN s.earned \cup DOMAIN t.earned : \A d \in DenomsOf(t) :
            (p # r.provider \/ d # fd) => EarnedOf(t, p, d) = EarnedOf(s, p, d)
       /\ AnswerMoveW(tax, DeltaD(s, t, FEEP, fd), DeltaD(s, t, REQ, fd))
       /\ OthersSame(s, t, {<<FEEP, fd>>, <<REQ, fd>>})

(* C07: expiry slashes floor(deposit * fraction) per expired request from the
   deposit escrow to the fee pool (refunds are in C07_Charge) *)
RECURSIVE SlashN(_, _, _, _)
SlashN(d, k, sn, sd) == IF k = 0 THEN d ELSE SlashN(SlashOnceW(d, sn, sd), k - 1, sn, sd)

C07_Expire(s, e, t) ==
  (e.name = "EndBlock") =>
    LET gone == ExpiredNow(s, e, t)
        hit(b) == Cardinality({r \in gone : r \in DOMAIN s.req /\ s.req[r].provider = b[2]
                                            /\ SvcOfReq(s, r) = b[1]})
        slashed == SumOver([b \in Bindings(s) |->
                              s.bind[b[1]][b[2]].deposit
                              - (IF HasBind(t, b[1], b[2]) THEN t.bind[b[1]][b[2]].deposit ELSE 0)],
                           Bindings(s))
    IN /\ \A b \in Bindings(s) :
            /\ HasBind(t, b[1], b[2])
            /\ t.bind[b[1]][b[2]].deposit =
                 SlashN(s.bind[b[1]][b[2]].deposit, hit(b), s.params.slashNum, s.params.slashDen)
       /\ SlashMoveW(slashed, Delta(s, t, DEP), Delta(s, t, FEEP))
       /\ \A d \in DenomsOf(t) \ {D} : DeltaD(s, t, DEP, d) = 0 /\ DeltaD(s, t, FEEP, d) = 0

(* C07: a withdrawal pays exactly the deleted tallies to the withdraw address *)
C07_Withdraw(s, e, t) ==
  (e.name = "Withdraw" /\ e.ok) =>
    LET to == Get(s.withdraw, e.who, e.who) IN
    /\ e.prov \notin DOMAIN t.earned
    /\ to \in DOMAIN t.bal
    /\ \A p \in (DOMAIN s.earned \cup DOMAIN t.earned) \ {e.prov} : \A d \in DenomsOf(t) :
         EarnedOf(t, p, d) = EarnedOf(s, p, d)
    /\ \A d \in DenomsOf(t) :
         LET paid == EarnedOf(s, e.prov, d) IN
         /\ WithdrawW(paid, OwnerEarnedOf(s, e.who, d), OwnerEarnedOf(t, e.who, d), DeltaD(s, t, REQ, d))
         /\ (to # REQ) => DeltaD(s, t, to, d) = paid
    /\ OthersSame(s, t, {<<REQ, d>> : d \in DenomsOf(t)} \cup {<<to, d>> : d \in DenomsOf(t)})

(* C07 frame: nothing is minted or burnt, deposits move only between the owner
   and the deposit escrow and by exactly the stated amount, third parties are
   never touched *)
C07_Frame(s, e, t) ==
  LET dep(x, b) == IF HasBind(x, b[1], b[2]) THEN x.bind[b[1]][b[2]].deposit ELSE 0
      me == <<e.svc, e.prov>>
      add == IF e.amt > 0 THEN e.amt ELSE 0
  IN
  /\ t.supply = s.supply
  /\ \A d \in DenomsOf(t) :
       SumOver([a \in DOMAIN t.bal |-> BalD(t, a, d)], DOMAIN t.bal)
         = SumOver([a \in DOMAIN s.bal |-> BalD(s, a, d)], DOMAIN s.bal)
  /\ (e.name # "EndBlock") => \A b \in Bindings(t) \ {me} : dep(t, b) = dep(s, b)
  /\ (e.name \in {"Bind", "UpdateBinding", "Enable"} /\ e.ok) =>
       /\ DepositMoveW(add, dep(s, me), dep(t, me), Delta(s, t, e.who), Delta(s, t, DEP))
       /\ OthersSame(s, t, {<<e.who, D>>, <<DEP, D>>})
  /\ (e.name = "RefundDeposit" /\ e.ok) =>
       /\ RefundDepositW(dep(s, me), dep(t, me), Delta(s, t, e.who), Delta(s, t, DEP))
       /\ OthersSame(s, t, {<<e.who, D>>, <<DEP, D>>})
  /\ (e.name \notin {"Bind", "UpdateBinding", "Enable", "RefundDeposit", "Respond", "Withdraw",
                      "ModWithdrawAll", "EndBlock"}) =>
       t.bal = s.bal

(* a rejected message changes nothing *)
Rejected_NoEffect(s, e, t) ==
  (~e.ok /\ e.name # "EndBlock") => t = s

-----------------------------------------------------------------------------
(* C08: exactly one outcome per request *)
C08_OneOutcome(s, e, t, g) ==
  /\ \A r \in DOMAIN g.ans : g.ans[r] + g.exp[r] <= 1
  /\ (e.name = "Respond" /\ e.ok) =>
       /\ e.req \in DOMAIN s.req /\ e.who = s.req[e.req].provider
       /\ e.req \in s.active /\ e.req \notin t.active /\ e.req \in DOMAIN t.resp
  /\ (e.name # "EndBlock") =>
       /\ t.active = s.active \ (IF e.name = "Respond" /\ e.ok THEN {e.req} ELSE {})
       /\ DOMAIN t.resp = DOMAIN s.resp \cup (IF e.name = "Respond" /\ e.ok THEN {e.req} ELSE {})
                                        \cup ModuleAnswered(s, e)
  /\ (e.name = "EndBlock") =>
       /\ \A r \in s.active : r \in DOMAIN s.req =>
            ((s.req[r].expH = s.h) <=> (r \notin t.active))
       /\ \A r \in t.active : r \in DOMAIN t.req /\ t.req[r].expH > s.h
       /\ DOMAIN t.resp \subseteq DOMAIN s.resp
  /\ \A r \in DOMAIN s.req \ DOMAIN t.req : Get(g.ans, r, 0) + Get(g.exp, r, 0) = 1

(* C08: answers from anyone else, duplicate answers, answers after expiry *)
C08_RespondGuards(s, e) ==
  (e.name = "Respond"
   /\ (e.req \notin DOMAIN s.req \/ e.req \notin s.active \/ e.who # s.req[e.req].provider))
  => ~e.ok

(* C08: a one-shot context issues one batch and is removed when it expired *)
C08_OneShot(s, e, t) ==
  \A id \in DOMAIN s.ctx : (~s.ctx[id].repeated) =>
    /\ (id \in DOMAIN t.ctx) => t.ctx[id].batch <= 1 /\ ~t.ctx[id].repeated
    /\ (id \notin DOMAIN t.ctx) =>
         e.name = "EndBlock" /\ <<s.h, id>> \in s.expQ /\ s.ctx[id].batch = 1
    /\ (e.name = "EndBlock" /\ <<s.h, id>> \in s.expQ) => id \notin DOMAIN t.ctx

(* C08: an accepted call stands for a request context of its own.  "A one-shot
   context issues one batch and is then removed; a repeated one follows its schedule;
   only its consumer can pause/start/kill/update it": a context therefore never changes
   or disappears because somebody CALLS a service, and every accepted call has a context
   that did not exist before (seed C08-s5: two calls carried by one transaction received
   the same id, the second context replaced the first, whose batch was never issued) *)
C08_CallFresh(s, e, t) ==
  (e.name \in {"Call", "ModCall"} /\ e.ok) =>
    /\ \A id \in DOMAIN s.ctx : id \in DOMAIN t.ctx /\ t.ctx[id] = s.ctx[id]
    /\ (~(e.name = "Call" /\ e.svc = OSVC)) => (\E id \in DOMAIN t.ctx : id \notin DOMAIN s.ctx)

(* C08: schedule of a repeated context.  g0 = the ghost state BEFORE the step *)
(* relax = TRUE: modulo finding F21 (a context paused across the expiry of its
   last batch is not completed; Start then issues batches beyond the total) *)
ScheduleX(s, e, t, g0, relax) ==
  /\ \A id \in DOMAIN s.ctx \cap DOMAIN t.ctx :
       LET c == s.ctx[id]
           d == t.ctx[id]
           n == c.batch
           at == Get(g0.batchAt, id, EmptyF)
           steady == /\ c.repeated /\ c.state = "running" /\ n >= 1 /\ n \in DOMAIN at
                     /\ ~Get(g0.modified, id, FALSE) /\ ~Get(g0.intr, id, FALSE)
       IN /\ d.batch \in {n, n + 1}
          /\ (e.name # "EndBlock" \/ c.state # "running") => d.batch = n
          \* no batch beyond the total
          /\ (d.batch = n + 1 /\ c.total >= 1 /\ ~Get(g0.modified, id, FALSE)) =>
               \/ n < c.total
               \/ relax /\ Get(g0.intr, id, FALSE)
          \* batch n+1 exactly freq after batch n ...
          /\ (e.name = "EndBlock" /\ steady /\ d.batch = n + 1) => s.h = at[n] + c.freq
          \* ... and it is issued then (unless the consumer cannot pay)
          /\ (e.name = "EndBlock" /\ steady /\ (c.total < 0 \/ n < c.total) /\ s.h = at[n] + c.freq)
               => (d.batch = n + 1 \/ d.state = "paused")
          \* a queued new batch of a running context is issued at its height
          /\ (e.name = "EndBlock" /\ <<s.h, id>> \in s.newQ /\ c.state = "running")
               => (d.batch = n + 1 \/ d.state = "paused")
          \* the end-blocker changes the state only by pausing for lack of funds
          /\ (e.name = "EndBlock") => d.state \in {c.state, "paused"}
  \* after Start the next batch is queued for this very block unless one is scheduled
  /\ (e.name \in {"Start", "ModStart"} /\ e.ok) =>
       /\ e.ctx \in DOMAIN t.newH \cup DOMAIN t.expH
       /\ (e.ctx \notin DOMAIN s.newH \cup DOMAIN s.expH) => <<s.h, e.ctx>> \in t.newQ
  \* a repeated context disappears only at the expiry of a batch, killed or finished
  /\ \A id \in DOMAIN s.ctx \ DOMAIN t.ctx : s.ctx[id].repeated =>
       /\ e.name = "EndBlock" /\ <<s.h, id>> \in s.expQ
       /\ \/ s.ctx[id].state = "completed"
          \/ (s.ctx[id].state = "running" /\ s.ctx[id].total >= 0 /\ s.ctx[id].batch >= s.ctx[id].total)

C08_Schedule(s, e, t, g0) == ScheduleX(s, e, t, g0, FALSE)
C08_Schedule_ModF21(s, e, t, g0) == ScheduleX(s, e, t, g0, TRUE)

C08_Authority(s, e) ==
  /\ (e.name \in {"Pause", "Start", "Kill", "Update"} /\ e.ok) =>
       /\ e.ctx \in DOMAIN s.ctx
       /\ e.who = s.ctx[e.ctx].consumer /\ s.ctx[e.ctx].module = ""
  /\ (e.name \in {"ModPause", "ModStart", "ModKill", "ModUpdate"} /\ e.ok) =>
       /\ e.ctx \in DOMAIN s.ctx
       /\ s.ctx[e.ctx].module # "" => e.who = s.ctx[e.ctx].consumer

(* C08: a module callback fires exactly once per completed batch, without an
   error iff the number of outputs reaches the batch's threshold *)
OutsAt(s, e, id, n) ==
  OutputsIn(s.resp, id, n)
  + (IF e.name = "Respond" /\ e.ok /\ e.okres /\ e.req \in DOMAIN s.req
        /\ s.req[e.req].ctx = id /\ s.req[e.req].batch = n THEN 1 ELSE 0)

C08_Callback(s, e, t, g) ==
  /\ \A i \in DOMAIN e.cbs :
       LET f == e.cbs[i] IN
       /\ f.ctx \in DOMAIN s.ctx /\ s.ctx[f.ctx].module # ""
       /\ Completes(s, t, f.ctx) /\ f.batch = s.ctx[f.ctx].batch
       /\ f.outs = OutsAt(s, e, f.ctx, f.batch)
       /\ f.err <=> (f.outs < s.ctx[f.ctx].bthreshold)
  /\ \A id \in DOMAIN s.ctx :
       (s.ctx[id].module # "" /\ Completes(s, t, id)) => CountCbs(e, id, s.ctx[id].batch) = 1
  /\ \A id \in DOMAIN g.cbn : \A n \in DOMAIN g.cbn[id] : g.cbn[id][n] <= 1

(* C08: a consumer that cannot pay: context paused, no batch, no requests
   (nothing charged: C07_Charge) *)
C08_Funds(s, e, t) ==
  (e.name = "EndBlock") =>
    \A id \in DOMAIN s.ctx \cap DOMAIN t.ctx :
      (s.ctx[id].state = "running" /\ t.ctx[id].state = "paused") =>
        /\ t.ctx[id].batch = s.ctx[id].batch
        /\ t.ctx[id].bstate = "completed"
        /\ \A r \in NewReqs(s, t) : t.req[r].ctx # id
        /\ id \notin DOMAIN t.expH /\ id \notin DOMAIN t.newH

-----------------------------------------------------------------------------
(***************************************************************************)
(* History-based twins (audit, DESIGN 13.12 "lead"): the clauses above read *)
(* their antecedents / domains / expected values from the module's own     *)
(* bookkeeping (active markers, queue entries, state flags, the stored     *)
(* consumer, the stored withdraw address, the request records); a defect   *)
(* that drops, duplicates or overwrites such an entry makes them vacuous   *)
(* or lets both sides be equally wrong.  The twins below take the same     *)
(* sentences' antecedents from the history ghosts (accepted events, their  *)
(* arguments, heights) and from bank balances.  g0 = ghosts before the     *)
(* step, g = after.                                                        *)
(***************************************************************************)

(* C07: "the fees recorded on the requests issued": a request record never changes after
   it was issued (the fee charged to the consumer at creation - C07_Charge - is the fee
   that later goes to the provider or back to the consumer) *)
C07_RequestRecords(t, g) ==
  \A r \in DOMAIN t.req \cap DOMAIN g.open : OpenRec(t, r) = g.open[r]

(* C07: what a withdrawal takes out of the request escrow arrives at the address the
   owner last SET (accepted SetWithdraw events), else at the owner - not at whatever the
   module's withdraw-address store holds *)
C07_WithdrawTo(s, e, t, g0) ==
  (e.name \in {"Withdraw", "ModWithdrawAll"} /\ e.ok) =>
    LET to == Get(g0.wd, e.who, e.who) IN
    /\ to \in DOMAIN t.bal
    /\ \A d \in DenomsOf(t) : (to # REQ) => DeltaD(s, t, to, d) = 0 - DeltaD(s, t, REQ, d)
    /\ OthersSame(s, t, {<<REQ, d>> : d \in DenomsOf(t)} \cup {<<to, d>> : d \in DenomsOf(t)})

(* C08: exactly one outcome, judged from the history: the requests awaiting a response are
   exactly those seen created, not answered, whose expiration height has not passed; an
   accepted answer is for such a request and comes from the provider it was addressed to
   when it was created *)
C08_OneOutcomeH(s, e, t, g0, g) ==
  /\ t.active = LiveH(g)
  /\ (e.name = "Respond" /\ e.ok) =>
       /\ e.req \in LiveH(g0)
       /\ e.who = g0.open[e.req].provider
  \* requests appear only as part of a batch that is being issued (and carry its number)
  /\ \A r \in NewReqs(s, t) \ ModuleAnswered(s, e) :
       /\ e.name = "EndBlock"
       /\ LET c == t.req[r].ctx IN
          /\ c \in DOMAIN s.ctx /\ c \in DOMAIN t.ctx
          /\ t.ctx[c].batch = s.ctx[c].batch + 1 /\ t.req[r].batch = t.ctx[c].batch

(* C08: "only by its consumer" - the consumer is whoever made the accepted call that
   created the context, and stays so *)
C08_AuthorityH(e, t, g0, g) ==
  /\ (e.name \in {"Pause", "Start", "Kill", "Update"} /\ e.ok) =>
       /\ e.ctx \in DOMAIN g0.born
       /\ e.who = g0.born[e.ctx].who /\ g0.born[e.ctx].mod = ""
  /\ (e.name \in {"ModPause", "ModStart", "ModKill", "ModUpdate"} /\ e.ok) =>
       /\ e.ctx \in DOMAIN g0.born
       /\ g0.born[e.ctx].mod # "" => e.who = g0.born[e.ctx].who
  /\ \A id \in DOMAIN t.ctx :
       /\ id \in DOMAIN g.born
       /\ t.ctx[id].consumer = g.born[id].who /\ t.ctx[id].module = g.born[id].mod

(* C08: schedule, from the history *)
C08_ScheduleH(s, e, t, g0, g) ==
  \* issues nothing while paused: after an accepted Pause (or a creation in the paused state)
  \* and before the next accepted Start no batch is issued and no request created
  /\ \A id \in DOMAIN s.ctx \cap DOMAIN t.ctx :
       Get(g0.pausedH, id, FALSE) =>
         /\ t.ctx[id].batch = s.ctx[id].batch
         /\ \A r \in NewReqs(s, t) : t.req[r].ctx # id
  \* the context of a call accepted in this block, running and not paused / killed since,
  \* issues its first batch when the block ends (unless the consumer cannot pay)
  /\ (e.name = "EndBlock") =>
       \A id \in DOMAIN g0.born :
         LET b == g0.born[id] IN
         (b.h = s.h /\ b.run /\ ~b.osvc /\ ~Get(g0.cmd, id, FALSE)) =>
           /\ id \in DOMAIN t.ctx
           /\ (t.ctx[id].batch = 1 \/ t.ctx[id].state = "paused")
  \* "its frequency", "its total": while the settings are not modified they are the ones
  \* the accepted call gave
  /\ \A id \in DOMAIN t.ctx \cap DOMAIN g.born :
       LET b == g.born[id]
           c == t.ctx[id] IN
       (~b.osvc /\ ~Get(g.modified, id, FALSE)) =>
         /\ c.repeated = b.repeated /\ c.freq = b.freq /\ c.total = b.total /\ c.timeout = b.timeout

(* C08 / C13: every issued batch is over when the end-block of (issue height + timeout)
   has run - whatever the expiration queue says: a one-shot context is removed then, a
   module callback has fired exactly once for the batch by then; and a batch is closed by
   the end-blocker only at that height *)
C08_BatchDue(s, e, t, g0, g) ==
  (e.name = "EndBlock") =>
    /\ \A id \in DOMAIN g0.dueAt : \A n \in DOMAIN g0.dueAt[id] :
         (g0.dueAt[id][n] = s.h) =>
           /\ \/ id \notin DOMAIN t.ctx
              \/ t.ctx[id].batch > n
              \/ t.ctx[id].bstate = "completed"
           /\ (id \in DOMAIN g0.born /\ ~g0.born[id].repeated /\ ~g0.born[id].osvc) => id \notin DOMAIN t.ctx
           /\ (id \in DOMAIN g0.born /\ g0.born[id].mod # "") => Get(Get(g.cbn, id, EmptyF), n, 0) = 1
    /\ \A id \in DOMAIN s.ctx :
         Completes(s, t, id) =>
           /\ id \in DOMAIN g0.dueAt /\ s.ctx[id].batch \in DOMAIN g0.dueAt[id]
           /\ g0.dueAt[id][s.ctx[id].batch] = s.h

(* C13: queue entries, from the history: every issued batch whose due height has not been
   processed has its expiration entry exactly there, every expiration entry belongs to such
   a batch; the context of an accepted running call has its new-batch entry at the height of
   its block until that block ends *)
C13_QueueH(t, g) ==
  /\ \A id \in DOMAIN g.dueAt \cap DOMAIN t.ctx :
       LET n == t.ctx[id].batch IN
       (n \in DOMAIN g.dueAt[id] /\ g.dueAt[id][n] > g.lastEnd) => <<g.dueAt[id][n], id>> \in t.expQ
  /\ \A q \in t.expQ :
       /\ q[2] \in DOMAIN g.dueAt /\ q[1] > g.lastEnd
       /\ \E n \in DOMAIN g.dueAt[q[2]] :
            /\ g.dueAt[q[2]][n] = q[1]
            /\ (q[2] \in DOMAIN t.ctx) => t.ctx[q[2]].batch = n
  /\ \A id \in DOMAIN g.born :
       (g.born[id].run /\ g.born[id].h > g.lastEnd) => <<g.born[id].h, id>> \in t.newQ
  /\ \A q \in t.newQ : q[2] \in DOMAIN g.born /\ q[1] > g.lastEnd

-----------------------------------------------------------------------------
(* C13 for the service queues *)
C13_QueueSound(t) ==
  /\ \A q \in t.newQ :
       /\ q[2] \in DOMAIN t.ctx /\ q[1] >= t.h
       /\ q[2] \in DOMAIN t.newH /\ t.newH[q[2]] = q[1]
  /\ \A q \in t.expQ :
       /\ q[2] \in DOMAIN t.ctx /\ q[1] >= t.h
       /\ q[2] \in DOMAIN t.expH /\ t.expH[q[2]] = q[1]
       /\ t.ctx[q[2]].batch >= 1
       /\ \A r \in DOMAIN t.req :
            (t.req[r].ctx = q[2] /\ t.req[r].batch = t.ctx[q[2]].batch) => t.req[r].expH = q[1]
  /\ DOMAIN t.newH = {q[2] : q \in t.newQ}
  /\ DOMAIN t.expH = {q[2] : q \in t.expQ}
  /\ \A q1, q2 \in t.newQ : q1[2] = q2[2] => q1 = q2
  /\ \A q1, q2 \in t.expQ : q1[2] = q2[2] => q1 = q2
  /\ DOMAIN t.newH \cap DOMAIN t.expH = {}

C13_QueueComplete(t) ==
  /\ \A id \in DOMAIN t.ctx :
       /\ (t.ctx[id].bstate = "running") => id \in DOMAIN t.expH
       /\ (t.ctx[id].state = "running") => id \in DOMAIN t.newH \cup DOMAIN t.expH
  /\ \A r \in t.active :
       r \in DOMAIN t.req /\ <<t.req[r].expH, t.req[r].ctx>> \in t.expQ

C13_OnceOnTime(s, e, t, g) ==
  /\ (e.name = "EndBlock") =>
       /\ \A q \in t.newQ \cup t.expQ : q[1] > s.h
       /\ \A q \in s.expQ : q[1] # s.h => q \in t.expQ
       /\ \A q \in s.newQ : q[1] # s.h => q \in t.newQ
  /\ (e.name # "EndBlock") =>
       /\ t.expQ = s.expQ
       /\ s.newQ \subseteq t.newQ /\ \A q \in t.newQ \ s.newQ : q[1] = s.h
  /\ \A id \in DOMAIN s.ctx :
       /\ (Completes(s, t, id) /\ e.name = "EndBlock") => <<s.h, id>> \in s.expQ
       /\ Completes(s, t, id) => e.name \in {"EndBlock", "Respond"}
       /\ Issued(s, t, id) =>
            /\ e.name = "EndBlock" /\ t.ctx[id].batch = s.ctx[id].batch + 1
            /\ (<<s.h, id>> \in s.newQ \/ <<s.h, id>> \in s.expQ)
  /\ \A id \in DOMAIN g.expd : \A n \in DOMAIN g.expd[id] : g.expd[id][n] <= 1

C13_NoHalt(e) == ~e.halt

-----------------------------------------------------------------------------
(***************************************************************************)
(* Diagnostic clauses (X07_ / X08_): behaviour the specification covers    *)
(* beyond the listed properties.  Reported, never part of a verdict.       *)
(***************************************************************************)
BindOf(x, e) == x.bind[e.svc][e.prov]

(* RefundServiceDeposit succeeds exactly from disabledAt + ArbitrationTimeLimit
   + ComplaintRetrospect on, for the owner of a disabled binding with a deposit *)
X07_RefundTiming(s, e, t) ==
  (e.name = "RefundDeposit" /\ HasBind(s, e.svc, e.prov)) =>
    LET b == BindOf(s, e) IN
    e.ok <=> /\ e.who = b.owner /\ ~b.available /\ b.deposit > 0
             /\ s.now >= b.disabledAt + s.params.wait
             /\ BalOf(s, DEP) >= b.deposit

(* enable / disable: availability, disabled time, deposit top-up *)
X07_EnableDisable(s, e, t) ==
  /\ (e.name = "Disable" /\ e.ok) =>
       /\ BindOf(s, e).available /\ ~BindOf(t, e).available
       /\ BindOf(t, e).disabledAt = s.now /\ BindOf(t, e).deposit = BindOf(s, e).deposit
  /\ (e.name = "Enable" /\ e.ok) =>
       /\ ~BindOf(s, e).available /\ BindOf(t, e).available /\ BindOf(t, e).disabledAt = 0
       /\ BindOf(t, e).deposit = BindOf(s, e).deposit + (IF e.amt > 0 THEN e.amt ELSE 0)
  /\ (e.name \in {"Disable", "Enable"} /\ e.ok) => e.who = BindOf(s, e).owner

(* a binding that is (re)priced, topped up or enabled while available holds at
   least max(base price * multiple, MinDeposit); a price in another denom needs
   an exchange rate unless it is zero *)
X07_MinDeposit(s, e, t) ==
  (e.name \in {"Bind", "UpdateBinding", "Enable"} /\ e.ok /\ BindOf(t, e).available
   /\ (e.name = "UpdateBinding" => (e.qos # 0 \/ e.amt > 0 \/ e.setp))) =>
    /\ ~MinDepErr(s, BindOf(t, e))
    /\ BindOf(t, e).deposit >= MinDep(s, BasePrice(s, BindOf(t, e)))

(* only providers that are bound, available, fast enough and whose discounted
   price converted to the base denom is within the fee cap get a request; the
   recorded fee is the discounted price in the price denom *)
X07_Eligible(s, e, t) ==
  (e.name = "EndBlock") =>
    \A r \in NewReqs(s, t) :
      LET q == t.req[r]
          c == t.ctx[q.ctx]
      IN /\ HasBind(s, c.svc, q.provider)
         /\ LET b == s.bind[c.svc][q.provider]
                 vol == VolOf(s, c.svc, q.provider, c.consumer)
             IN /\ b.available /\ b.qos <= c.timeout
                /\ (b.pdenom # D) => ~NoRate(s)
                /\ Exchanged(s, b, vol) <= c.feeCap
                /\ q.fee = FeeOf(b, s.now, vol)
                /\ q.fdenom = (IF q.fee = 0 THEN D ELSE b.pdenom)
                /\ q.expH = s.h + c.timeout /\ q.reqH = s.h

(* the owner-wide withdrawal (keeper entry point only) pays the owner tally and
   deletes every tally of the owner's providers *)
X07_WithdrawAll(s, e, t) ==
  (e.name = "ModWithdrawAll" /\ e.ok) =>
    LET to == Get(s.withdraw, e.who, e.who)
        mine == {x[2] : x \in {y \in s.ownerProv : y[1] = e.who}}
    IN /\ e.who \notin DOMAIN t.ownerEarned
       /\ DOMAIN t.earned = DOMAIN s.earned \ mine
       /\ \A d \in DenomsOf(t) :
            /\ DeltaD(s, t, REQ, d) = 0 - OwnerEarnedOf(s, e.who, d)
            /\ (to # REQ) => DeltaD(s, t, to, d) = OwnerEarnedOf(s, e.who, d)

(* UpdateRequestContext: a given field replaces the stored one, an absent one
   (0 / empty) keeps it; nothing else in the state changes — in particular no
   queue entry, no batch state, no request *)
X08_Update(s, e, t) ==
  (e.name \in {"Update", "ModUpdate"} /\ e.ok /\ e.ctx \in DOMAIN s.ctx) =>
    LET c == s.ctx[e.ctx]
        isMod == c.module # "" /\ e.name = "ModUpdate"
        c2 == [c EXCEPT !.feeCap = IF e.amt > 0 THEN e.amt ELSE @,
                        !.providers = IF Len(e.provs) > 0 THEN e.provs ELSE @,
                        !.timeout = IF e.timeout > 0 THEN e.timeout ELSE @,
                        !.freq = IF e.freq > 0 THEN e.freq ELSE @,
                        !.total = IF e.total # 0 THEN e.total ELSE @,
                        !.threshold = IF isMod /\ e.thr > 0 THEN e.thr ELSE @]
    IN /\ t = [s EXCEPT !.ctx[e.ctx] = c2]
       /\ c.state # "completed"
       /\ c2.freq >= c2.timeout /\ c2.timeout <= s.params.maxTimeout
       /\ (e.total >= 1) => e.total >= c.batch
       /\ (c.module # "") => c2.threshold <= Len(c2.providers)

(* a call of the module service is answered by the module in the same message:
   one request, one response (with an output iff a rate exists), nothing
   active, nothing charged, the context completed *)
X08_ModuleCall(s, e, t) ==
  (e.name = "Call" /\ e.ok /\ e.svc = OSVC) =>
    LET id == CtxId(s.seq + 1)
        rid == ReqId(id, 1, 0) IN
    /\ id \in DOMAIN t.ctx /\ t.ctx[id].state = "completed" /\ t.ctx[id].providers = <<OPROV>>
    /\ rid \in DOMAIN t.req /\ rid \in DOMAIN t.resp /\ rid \notin t.active
    /\ t.req[rid].provider = OPROV /\ t.req[rid].fee = 0
    /\ t.resp[rid].out = ~NoRate(s)
    /\ t.bal = s.bal /\ t.earned = s.earned /\ t.expQ = s.expQ

(* a created context records exactly what was asked for; a repeated context
   without a frequency repeats at its timeout, a one-shot has no frequency / total *)
X08_Create(s, e, t) ==
  (e.name \in {"Call", "ModCall"} /\ e.ok /\ ~(e.name = "Call" /\ e.svc = OSVC)) =>
    LET id == CtxId(s.seq + 1) IN
    /\ id \notin DOMAIN s.ctx /\ id \in DOMAIN t.ctx /\ t.seq = s.seq + 1
    /\ LET c == t.ctx[id] IN
       /\ c.consumer = e.who /\ c.svc = e.svc /\ c.providers = e.provs /\ c.feeCap = e.amt
       /\ c.timeout = e.timeout /\ c.repeated = e.repeated /\ c.batch = 0 /\ c.bstate = "completed"
       /\ c.freq = (IF e.repeated THEN (IF e.freq = 0 THEN e.timeout ELSE e.freq) ELSE 0)
       /\ c.total = (IF e.repeated THEN e.total ELSE 0)
       /\ c.module = (IF e.name = "ModCall" THEN MOD ELSE "")
       /\ c.threshold = (IF e.name = "ModCall" THEN e.thr ELSE 0)
       /\ (c.state = "running") <=> (<<s.h, id>> \in t.newQ)
       /\ c.timeout >= 1 /\ c.timeout <= s.params.maxTimeout /\ c.feeCap >= 1
       /\ e.svc \in DOMAIN s.defs

-----------------------------------------------------------------------------
(* Model-checking universe *)
CONSTANTS Users, Consumers, Actors, MaxH, MaxCtx, InitBal,
          TaxNum, TaxDen, SlashNum, SlashDen, MaxTimeout, MinMult, MinDepP, Wait,
          FeeCaps, Timeouts, Freqs, Totals, RepeatedVals, Modules, BindOps,
          MDenoms, InitBtc, RateN, RateD, RateVals,   \* denoms of the universe, btc per user, initial rate, SetRate choices
          SetupSpec,     \* sequence of [p, o, dep, price, tDisc, tStart, tEnd, vDisc, vVol, qos]
          ProvSeqs,      \* provider lists a consumer may name
          UpdateSpecs    \* set of [amt, timeout, freq, total, provs, thr]

SVC == "s1"
Accts == Users \cup {DEP, REQ, FEEP}

Init0 ==
  [h |-> 2, now |-> 1, seq |-> 0, rate |-> [n |-> RateN, d |-> RateD],
   params |-> [taxNum |-> TaxNum, taxDen |-> TaxDen, slashNum |-> SlashNum, slashDen |-> SlashDen,
               maxTimeout |-> MaxTimeout, minMult |-> MinMult, minDep |-> MinDepP, wait |-> Wait],
   defs |-> EmptyF, bind |-> EmptyF, owner |-> EmptyF, ownerProv |-> {}, withdraw |-> EmptyF,
   vol |-> EmptyF, ctx |-> EmptyF, req |-> EmptyF, active |-> {}, activeB |-> {}, resp |-> EmptyF,
   earned |-> EmptyF, ownerEarned |-> EmptyF, newQ |-> {}, expQ |-> {}, newH |-> EmptyF, expH |-> EmptyF,
   bal |-> [a \in Accts |-> [d \in MDenoms |-> IF a \in Users THEN (IF d = D THEN InitBal ELSE InitBtc) ELSE 0]],
   supply |-> [d \in MDenoms |-> Cardinality(Users) * (IF d = D THEN InitBal ELSE InitBtc)]]

Init == st = Init0 /\ ev = NoEv /\ gh = GhostInit /\ hist = <<>>

E(name, who) == [NoEv EXCEPT !.name = name, !.who = who]

Step(e) ==
  LET r == Apply(st, e)
      e2 == [e EXCEPT !.ok = r.ok, !.panic = r.panic, !.cbs = r.cbs, !.scbs = r.scbs]
  IN /\ st' = r.st
     /\ ev' = e2
     /\ gh' = GhostStep(gh, st, e2, r.st)
     /\ hist' = IF RecordHist THEN Append(hist, e2) ELSE hist

(* the fixed prologue: define the service, bind the providers of SetupSpec *)
SetupDone(s) == SVC \in DOMAIN s.defs /\ \A i \in DOMAIN SetupSpec : HasBind(s, SVC, SetupSpec[i].p)
SetupEvent(s) ==
  IF SVC \notin DOMAIN s.defs THEN [E("Define", SetupSpec[1].o) EXCEPT !.svc = SVC]
  ELSE LET i == CHOOSE j \in DOMAIN SetupSpec :
                  /\ ~HasBind(s, SVC, SetupSpec[j].p)
                  /\ \A k \in 1..(j - 1) : HasBind(s, SVC, SetupSpec[k].p)
           b == SetupSpec[i]
       IN [E("Bind", b.o) EXCEPT !.svc = SVC, !.prov = b.p, !.amt = b.dep, !.price = b.price,
                                 !.tDisc = b.tDisc, !.tStart = b.tStart, !.tEnd = b.tEnd,
                                 !.vDisc = b.vDisc, !.vVol = b.vVol, !.qos = b.qos,
                                 !.pdenom = IF "pdenom" \in DOMAIN b THEN b.pdenom ELSE D]
Setup == ~SetupDone(st) /\ Step(SetupEvent(st))

Provs == {SetupSpec[i].p : i \in DOMAIN SetupSpec}
OwnersM == {SetupSpec[i].o : i \in DOMAIN SetupSpec}
FreeRanks(s) == (1..MaxCtx) \ {s.ctx[c].rank : c \in DOMAIN s.ctx}

Call ==
  /\ st.seq < MaxCtx
  /\ \E who \in Consumers, ps \in ProvSeqs, cap \in FeeCaps, to \in Timeouts, rep \in RepeatedVals,
        rk \in FreeRanks(st) :
       \E fr \in (IF rep THEN Freqs ELSE {0}), tot \in (IF rep THEN Totals ELSE {0}) :
         Step([E("Call", who) EXCEPT !.svc = SVC, !.provs = ps, !.amt = cap, !.timeout = to,
                                     !.repeated = rep, !.freq = fr, !.total = tot, !.rank = rk])
ModCall ==
  /\ Modules /\ st.seq < MaxCtx
  /\ \E who \in Consumers, ps \in ProvSeqs, cap \in FeeCaps, to \in Timeouts, rep \in RepeatedVals,
        rk \in FreeRanks(st), thr \in 1..2, p0 \in BOOLEAN :
       \E fr \in (IF rep THEN Freqs ELSE {0}), tot \in (IF rep THEN Totals ELSE {0}) :
         Step([E("ModCall", who) EXCEPT !.svc = SVC, !.provs = ps, !.amt = cap, !.timeout = to,
                                        !.repeated = rep, !.freq = fr, !.total = tot, !.rank = rk,
                                        !.thr = thr, !.paused0 = p0])

StaleReqs(s) ==
  {ReqId(CtxId(k), IF CtxId(k) \in DOMAIN s.ctx THEN Max(1, s.ctx[CtxId(k)].batch - 1) ELSE 1, 0) :
     k \in 1..s.seq}
Respond ==
  \E who \in Provs, r \in DOMAIN st.req \cup StaleReqs(st), okr \in (IF Modules THEN BOOLEAN ELSE {TRUE}) :
    Step([E("Respond", who) EXCEPT !.req = r, !.okres = okr])

Control ==
  \E who \in Actors, id \in DOMAIN st.ctx, nm \in {"Pause", "Start", "Kill"} :
    Step([E(IF st.ctx[id].module # "" /\ who = st.ctx[id].consumer THEN "Mod" \o nm ELSE nm, who)
            EXCEPT !.ctx = id])
Update ==
  \E who \in Actors, id \in DOMAIN st.ctx, u \in UpdateSpecs :
    Step([E(IF st.ctx[id].module # "" /\ who = st.ctx[id].consumer THEN "ModUpdate" ELSE "Update", who)
            EXCEPT !.ctx = id, !.amt = u.amt, !.timeout = u.timeout, !.freq = u.freq,
                   !.total = u.total, !.provs = u.provs, !.thr = u.thr])

BindingOps ==
  /\ BindOps
  /\ \E o \in OwnersM, p \in Provs :
       \/ Step([E("Disable", o) EXCEPT !.svc = SVC, !.prov = p])
       \/ \E a \in {0, 2} : Step([E("Enable", o) EXCEPT !.svc = SVC, !.prov = p, !.amt = a])
       \/ Step([E("RefundDeposit", o) EXCEPT !.svc = SVC, !.prov = p])
Withdraw ==
  \E o \in OwnersM, p \in Provs : Step([E("Withdraw", o) EXCEPT !.prov = p])
SetWithdraw ==
  /\ BindOps
  /\ \E o \in OwnersM, to \in Consumers \cup {"blocked"} : Step([E("SetWithdraw", o) EXCEPT !.to = to])

WithdrawAll == Modules /\ \E o \in OwnersM : Step(E("ModWithdrawAll", o))
SetRate == \E r \in RateVals : Step([E("SetRate", "") EXCEPT !.rn = r[1], !.rd = r[2]])

EndBlock == st.h < MaxH /\ Step(E("EndBlock", ""))

Next ==
  \/ Setup
  \/ /\ SetupDone(st)
     /\ (Call \/ ModCall \/ Respond \/ Control \/ Update \/ BindingOps \/ Withdraw \/ WithdrawAll \/ SetWithdraw
         \/ SetRate \/ EndBlock)

(* Named universes for the cfg files (cfg files cannot hold records) *)
BSpec(p, o, dep, price, tDisc, tStart, tEnd, vDisc, vVol, qos) ==
  [p |-> p, o |-> o, dep |-> dep, price |-> price, tDisc |-> tDisc, tStart |-> tStart, tEnd |-> tEnd,
   vDisc |-> vDisc, vVol |-> vVol, qos |-> qos]
USpec(amt, timeout, freq, total, provs, thr) ==
  [amt |-> amt, timeout |-> timeout, freq |-> freq, total |-> total, provs |-> provs, thr |-> thr]
(* u1: price 4, half price in a time window covering the run, own owner;
   u2: price 3, half price from the first answered request on *)
SetupA == << BSpec("u1", "u1", 8, 4, 2, 0, 1000, 4, 0, 1), BSpec("u2", "u2", 6, 3, 4, 0, 0, 2, 1, 1) >>
(* the same providers under one owner *)
SetupB == << BSpec("u1", "u1", 8, 4, 2, 0, 1000, 4, 0, 1), BSpec("u2", "u1", 3, 3, 4, 0, 0, 2, 1, 1) >>
(* no discounts (F4 cannot occur) *)
SetupC == << BSpec("u1", "u1", 8, 4, 4, 0, 0, 4, 0, 1), BSpec("u2", "u2", 6, 3, 4, 0, 0, 4, 0, 2) >>
(* u2 priced 0btc: needs the (absent) exchange rate (was finding F20, fixed) *)
SetupD == << BSpec("u1", "u1", 8, 4, 2, 0, 1000, 4, 0, 1),
             [pdenom |-> "btc"] @@ BSpec("u2", "u2", 6, 0, 4, 0, 0, 4, 0, 1) >>
(* two providers of ONE owner, u2 priced in btc (exchange rate needed): fees and
   tallies in two denoms (regression universe of finding F35, fixed by a72912e) *)
SetupE == << BSpec("u1", "u1", 8, 4, 4, 0, 0, 4, 0, 1),
             [pdenom |-> "btc"] @@ BSpec("u2", "u1", 4, 2, 4, 0, 0, 4, 0, 1) >>
(* the probing generator's universe: u1 priced in the base denom with a time discount, u2 (own
   owner) priced 2 btc: min deposit 4 at rate 2 (one slash of 1/2 takes the deposit of 6 below
   it), 2 at rate 1/2; rate 0 = no rate *)
SetupP == << BSpec("u1", "u1", 8, 4, 2, 0, 1000, 4, 0, 1),
             [pdenom |-> "btc"] @@ BSpec("u2", "u2", 6, 2, 4, 0, 0, 4, 0, 1) >>
RateValsP == { <<0, 1>>, <<1, 2>>, <<2, 1>> }
RateValsNone == {}
RateValsE == { <<0, 1>>, <<1, 2>> }
ProvSeqsE == { <<"u1", "u2">>, <<"u2">> }
ProvSeqsA == { <<"u1">>, <<"u1", "u2">> }
ProvSeqsB == { <<"u1">>, <<"u2", "u1">>, <<"u1", "u2">> }
UpdateSpecsNone == {}
UpdateSpecsA == { USpec(0, 0, 2, 0, <<>>, 0), USpec(2, 0, 0, 3, <<"u2">>, 0) }

Spec == Init /\ [][Next]_vars

(* Exploratory liveness (not in any tier; MC_Service_live.cfg): under weak fairness
   of EndBlock every running repeated context below its total eventually issues
   its next batch — or stops running / disappears / the height bound is reached *)
LiveSpec == Init /\ [][Next]_vars /\ WF_vars(EndBlock)
Awaiting(id, n) ==
  /\ id \in DOMAIN st.ctx /\ st.ctx[id].repeated /\ st.ctx[id].state = "running"
  /\ st.ctx[id].batch = n /\ (st.ctx[id].total < 0 \/ n < st.ctx[id].total)
Live_NextBatch ==
  \A k \in 1..MaxCtx : \A n \in 0..3 :
    [](Awaiting(CtxId(k), n) => <>(~Awaiting(CtxId(k), n) \/ st.h >= MaxH))

(* Generator *)
Rejects(h) == Cardinality({i \in DOMAIN h : ~h[i].ok})
GenNext == Next /\ (ev'.ok \/ Rejects(hist) < 3)
GenSpec == Init /\ [][GenNext]_vars
GenDepth == atoi(IOEnv.GEN_DEPTH)
GenConstraint ==
  /\ Len(hist) <= GenDepth
  /\ (Len(hist) = GenDepth) => PrintT(<<"BEHAVIOUR", ToJson(hist)>>)

-----------------------------------------------------------------------------
(***************************************************************************)
(* Probing generator (round 7: negative probing and unusual inputs).       *)
(*                                                                         *)
(* GenNext picks uniformly among ALL successor states, so the few hundred   *)
(* ways to call the service crowd out the one way to end a block, and it    *)
(* keeps rejections rare: its behaviours are shallow and polite.  GenNextP  *)
(* draws the KIND of the next event first (RandomElement, once per step):   *)
(* block ends, rate changes, answers, consumer commands, provider commands  *)
(* each get a fixed share, so that behaviours reach deep states (batches in *)
(* flight / expired / skipped, bindings disabled / slashed out / refunded,  *)
(* contexts paused / killed / removed, the exchange rate taken away between *)
(* issue and expiry).  The prefix consists of ACCEPTED events only; the     *)
(* last ProbeLen events are operations the specification REJECTS, drawn     *)
(* from Next plus the Probe* actions below: every message type on every     *)
(* object that ever existed (also removed contexts and settled requests),   *)
(* by every role, with ids spelt differently / of the wrong length and      *)
(* coins of the wrong denom.  The harness executes the closing probes in    *)
(* one block and then runs its epilogue from the REAL state, so whatever    *)
(* the code wrongly accepted unfolds under the clauses.                     *)
(***************************************************************************)
AllCtxIds(s) == {CtxId(k) : k \in 1..s.seq}
WrongDenoms == {"btc", "both"}
IdVariants == {"", "lc", "pfx", "pad"}

ProbeCtx ==
  \E who \in Actors, id \in AllCtxIds(st), nm \in {"Pause", "Start", "Kill", "Update"}, v \in IdVariants :
    LET mod == id \in DOMAIN st.ctx /\ st.ctx[id].module # "" /\ who = st.ctx[id].consumer IN
    Step([E(IF mod THEN "Mod" \o nm ELSE nm, who) EXCEPT !.ctx = id, !.idv = IF mod THEN "" ELSE v])

(* every request that ever existed (the ghost ans remembers them), by every provider *)
ProbeRespond ==
  \E who \in Provs, r \in DOMAIN gh.ans, v \in IdVariants :
    Step([E("Respond", who) EXCEPT !.req = r, !.idv = v])

ProbeBinding ==
  \E o \in Users, p \in Provs :
    \/ Step([E("Disable", o) EXCEPT !.svc = SVC, !.prov = p])
    \/ Step([E("RefundDeposit", o) EXCEPT !.svc = SVC, !.prov = p])
    \/ \E a \in {0, 2}, d \in {D} \cup WrongDenoms :
         \/ Step([E("Enable", o) EXCEPT !.svc = SVC, !.prov = p, !.amt = a, !.ddenom = d])
         \/ \E q \in {0, 1, MaxTimeout + 1} :
              Step([E("UpdateBinding", o) EXCEPT !.svc = SVC, !.prov = p, !.amt = a, !.ddenom = d, !.qos = q])
         \/ Step([E("Bind", o) EXCEPT !.svc = SVC, !.prov = p, !.amt = 6 + a, !.ddenom = d, !.price = 1, !.qos = 1])
    \/ \E pr \in {0, 3, 9}, pd \in MDenoms \cup {"nosupply"} :
         Step([E("UpdateBinding", o) EXCEPT !.svc = SVC, !.prov = p, !.setp = TRUE, !.price = pr, !.pdenom = pd])

ProbeCall ==
  \E who \in Consumers, ps \in ProvSeqs \cup {<<"u1", "u1">>}, svc \in {SVC, "nosuch", "9bad"}, cap \in {0, 4},
     d \in {D} \cup WrongDenoms, to \in {1, MaxTimeout + 1}, rk \in FreeRanks(st) \cup {0} :
    /\ Step([E("Call", who) EXCEPT !.svc = svc, !.provs = ps, !.amt = cap, !.ddenom = d, !.timeout = to, !.rank = rk])
    /\ ~ev'.ok \/ (st.seq < MaxCtx /\ rk # 0)

ProbeWithdraw ==
  \/ \E o \in Users, p \in Users : Step([E("Withdraw", o) EXCEPT !.prov = p])
  \/ \E o \in Users, to \in BlockedNames : Step([E("SetWithdraw", o) EXCEPT !.to = to])

NextP ==
  \/ Next
  \/ SetupDone(st) /\ (ProbeCtx \/ ProbeRespond \/ ProbeBinding \/ ProbeCall \/ ProbeWithdraw)

ProbeLen == 4
(* the kinds of events; drawing the kind first means only that kind's successors are enumerated *)
ActEnd == EndBlock
(* while a request priced in the second denom is in flight and a rate exists, a rate change takes the
   rate away (its expiry then slashes a binding whose minimum deposit cannot be computed) *)
ActRate ==
  IF ~NoRate(st) /\ <<0, 1>> \in RateVals /\ (\E r \in st.active : r \in DOMAIN st.req /\ st.req[r].fdenom # D)
  THEN Step([E("SetRate", "") EXCEPT !.rn = 0, !.rd = 1])
  ELSE SetRate
ActRespond == Respond \/ ProbeRespond
ActCtx == Control \/ Update \/ ProbeCtx
ActBind == BindingOps \/ ProbeBinding
ActCall == Call \/ ModCall \/ ProbeCall
ActWd == Withdraw \/ WithdrawAll \/ SetWithdraw \/ ProbeWithdraw
(* an accepted event of the prefix: kind by k (block ends 30 %, rate changes 8 %, answers 14 %, consumer
   commands 12 %, provider commands 10 %, calls 12 %, withdrawals 4 %, anything 10 %); a kind that has no
   accepted event in the current state falls back to anything accepted *)
OkOf(A) == A /\ ev'.ok
Prefix(A) == IF ENABLED OkOf(A) THEN OkOf(A) ELSE OkOf(NextP)
PrefixStep(k) ==
  IF k <= 30 THEN Prefix(ActEnd)
  ELSE IF k <= 38 THEN Prefix(ActRate)
  ELSE IF k <= 52 THEN Prefix(ActRespond)
  ELSE IF k <= 64 THEN Prefix(ActCtx)
  ELSE IF k <= 74 THEN Prefix(ActBind)
  ELSE IF k <= 86 THEN Prefix(ActCall)
  ELSE IF k <= 90 THEN Prefix(ActWd)
  ELSE OkOf(NextP)
(* a closing probe: a REJECTED event (never a block end); consumer commands 30 %, answers 20 %, provider
   commands 25 %, calls 15 %, withdrawals 10 % *)
RejOf(A) == A /\ ~ev'.ok /\ ev'.name # "EndBlock"
Closing(A) == IF ENABLED RejOf(A) THEN RejOf(A) ELSE RejOf(NextP)
ProbeStep(k) ==
  IF k <= 30 THEN Closing(ActCtx)
  ELSE IF k <= 50 THEN Closing(ActRespond)
  ELSE IF k <= 75 THEN Closing(ActBind)
  ELSE IF k <= 90 THEN Closing(ActCall)
  ELSE Closing(ActWd)

GenDepthP == atoi(IOEnv.GEN_DEPTH)
GenNextP ==
  \E k \in {RandomElement(1..(100 + 0 * st.h))} :
    IF ~SetupDone(st) THEN Next
    ELSE IF Len(hist) >= GenDepthP - ProbeLen THEN ProbeStep(k)
    ELSE PrefixStep(k)
GenSpecP == Init /\ [][GenNextP]_vars

-----------------------------------------------------------------------------
(* Clauses in checkable form *)
Inv_C07_DepositEscrow == C07_DepositEscrow(st)
Inv_C07_RequestEscrow == C07_RequestEscrow(st)
(* clauses that read ghosts are action properties over (st', gh'): under the
   ghost-free VIEW TLC evaluates state invariants only for the first path that
   reaches a state, action properties on every transition *)
Act_C07_RequestEscrow_ModF4 == [][C07_RequestEscrow_ModF4(st', gh')]_vars
Inv_C07_OwnerTally == C07_OwnerTally(st)
Inv_C13_QueueSound == C13_QueueSound(st)
Inv_C13_QueueComplete == C13_QueueComplete(st)
Act_C13_NoHalt == [][C13_NoHalt(ev')]_vars

(* the prologue of a configuration must go through (otherwise the run is vacuous) *)
Act_SetupOK == [][(~SetupDone(st)) => ev'.ok]_vars
Act_C07_Charge == [][C07_Charge(st, ev', st')]_vars
Act_C07_Charge_ModF4 == [][C07_Charge_ModF4(st, ev', st')]_vars
Act_C07_Answer == [][C07_Answer(st, ev', st')]_vars
Act_C07_Expire == [][C07_Expire(st, ev', st')]_vars
Act_C07_Withdraw == [][C07_Withdraw(st, ev', st')]_vars
Act_C07_Frame == [][C07_Frame(st, ev', st')]_vars
Act_Rejected_NoEffect == [][Rejected_NoEffect(st, ev', st')]_vars
Act_C08_OneOutcome == [][C08_OneOutcome(st, ev', st', gh')]_vars
Act_C08_RespondGuards == [][C08_RespondGuards(st, ev')]_vars
Act_C08_OneShot == [][C08_OneShot(st, ev', st')]_vars
Act_C08_CallFresh == [][C08_CallFresh(st, ev', st')]_vars
Act_C08_Schedule == [][C08_Schedule(st, ev', st', gh)]_vars
Act_C08_Schedule_ModF21 == [][C08_Schedule_ModF21(st, ev', st', gh)]_vars
Act_C08_Authority == [][C08_Authority(st, ev')]_vars
Act_C08_Callback == [][C08_Callback(st, ev', st', gh')]_vars
Act_C08_Funds == [][C08_Funds(st, ev', st')]_vars
Act_C13_OnceOnTime == [][C13_OnceOnTime(st, ev', st', gh')]_vars
Act_C07_RequestRecords == [][C07_RequestRecords(st', gh')]_vars
Act_C07_WithdrawTo == [][C07_WithdrawTo(st, ev', st', gh)]_vars
Act_C08_OneOutcomeH == [][C08_OneOutcomeH(st, ev', st', gh, gh')]_vars
Act_C08_AuthorityH == [][C08_AuthorityH(ev', st', gh, gh')]_vars
Act_C08_ScheduleH == [][C08_ScheduleH(st, ev', st', gh, gh')]_vars
Act_C08_BatchDue == [][C08_BatchDue(st, ev', st', gh, gh')]_vars
Act_C13_QueueH == [][C13_QueueH(st', gh')]_vars

Act_X08_ModuleCall == [][X08_ModuleCall(st, ev', st')]_vars
Act_X07_RefundTiming == [][X07_RefundTiming(st, ev', st')]_vars
Act_X07_EnableDisable == [][X07_EnableDisable(st, ev', st')]_vars
Act_X07_MinDeposit == [][X07_MinDeposit(st, ev', st')]_vars
Act_X07_Eligible == [][X07_Eligible(st, ev', st')]_vars
Act_X07_WithdrawAll == [][X07_WithdrawAll(st, ev', st')]_vars
Act_X08_Update == [][X08_Update(st, ev', st')]_vars
Act_X08_Create == [][X08_Create(st, ev', st')]_vars

(* VIEW for the exhaustive configs: ghosts and the last event are functions of
   the path *)
View == st
=============================================================================
