------------------------------- MODULE Record -------------------------------
(***************************************************************************)
(* irismod/modules/record — append-only records.                           *)
(*                                                                         *)
(* Transcribed from keeper/msg_server.go (CreateRecord), keeper/keeper.go  *)
(* (AddRecord, GetRecord, Get/SetIntraTxCounter), types/msgs.go and        *)
(* types/validation.go (ValidateBasic).                                    *)
(*                                                                         *)
(*   record    = [contents, creator, tx]  with tx = hash of the bytes of   *)
(*               the transaction that carries the message                  *)
(*   record id = tmhash(record bytes || counter), counter = a uint32 in    *)
(*               the store, incremented per record, never reset            *)
(*                                                                         *)
(* Ids.  The hash is idealised as injective.  Because the counter value is *)
(* different for every record ever added, so is the hashed string, and the *)
(* model names the id by it: "r" \o (counter + 1) — the harness names the  *)
(* real ids r1, r2, ... in the order in which the message responses return *)
(* them (a real id returned twice keeps its first name, which is what the  *)
(* clauses look for).  With IdScheme = "nocounter" the model hashes the    *)
(* record bytes only: the design variant whose collisions C19_Unique is    *)
(* about (used by MC_Record_nocounter.cfg to show that TLC finds them).    *)
(*                                                                         *)
(* One event = one TRANSACTION with Len(digests) MsgCreateRecord messages  *)
(* of one creator.  digests[i] is the abstract value of the i-th message's *)
(* contents: a LIST of content entries (digest, algo, uri, meta), written  *)
(* e1+e2+... with entries  base[~mirror][^algo]  — "a+a~1" are two entries *)
(* that share digest and algo and differ in uri/meta, "a+a" two identical  *)
(* entries, "a^md5+a" two that differ in the algo only.  The model treats  *)
(* the value as opaque (the code stores the list as it is); the harness    *)
(* compares every field of every entry, in order, between the submitted    *)
(* message and what is read back.  "" = no contents, "!" = a content       *)
(* without digest: refused by ValidateBasic.  ev.shape = coverage tags of  *)
(* the submitted lists, filled in by the harness.  poison = the transaction also carries a message that   *)
(* fails after the records were added (everything is rolled back).         *)
(*                                                                         *)
(* Long histories: st.rec holds the records the harness logs explicitly —  *)
(* those whose index i satisfies Keep(i) (the first win.first, then every  *)
(* win.mod-th); the others are covered by a rolling hash in the trace      *)
(* (RecordTrace.tla, C19_ImmutableRest).  In the model everything is kept. *)
(***************************************************************************)
EXTENDS Integers, Sequences, FiniteSets, TLC, Util, Json, IOUtils

CONSTANTS
  Users, Contents,   \* creators, abstract contents values
  MaxMsgs,           \* messages per transaction (model checking)
  MaxRec,            \* records per history (model checking)
  MaxTx,             \* transactions per history (model checking)
  IdScheme,          \* "counter" (the code) or "nocounter" (design variant)
  RecordHist

VARIABLES st, ev, gh, hist
vars == <<st, ev, gh, hist>>

NoEv == [name |-> "Init", who |-> "", digests |-> <<>>, tx |-> "", poison |-> FALSE,
         ok |-> TRUE, panic |-> FALSE, ids |-> <<>>, shape |-> <<>>]

Fail(s, w) == [ok |-> FALSE, panic |-> FALSE, st |-> s, why |-> w, ids |-> <<>>]
Done(s, ids) == [ok |-> TRUE, panic |-> FALSE, st |-> s, why |-> "", ids |-> ids]

Keep(s, i) == i <= s.win.first \/ i % s.win.mod = 0

(* tmhash(record bytes || counter), idealised *)
RecId(r, cnt) ==
  IF IdScheme = "counter" THEN "r" \o ToString(cnt + 1)
  ELSE r.digest \o "|" \o r.creator \o "|" \o r.tx

(* keeper.go AddRecord, k-th message of the transaction *)
RECURSIVE AddAll(_, _, _, _, _, _)
AddAll(s, who, digests, tx, k, ids) ==
  IF k > Len(digests) THEN [st |-> s, ids |-> ids]
  ELSE
    LET r == [digest |-> digests[k], creator |-> who, tx |-> tx]
        id == RecId(r, s.cnt)
        s1 == [s EXCEPT !.cnt = @ + 1,
                        !.rec = IF Keep(s, s.cnt + 1) \/ IdScheme # "counter" THEN Put(@, id, r) ELSE @]
    IN AddAll(s1, who, digests, tx, k + 1, Append(ids, id))

(* msg_server.go CreateRecord, once per message; ValidateBasic of every
   message runs before anything is delivered *)
DoCreate(s, who, digests, tx, poison) ==
  IF Len(digests) = 0 THEN Fail(s, "empty_tx")
  ELSE IF \E i \in DOMAIN digests : digests[i] \in {"", "!"} THEN Fail(s, "invalid")
  ELSE IF poison THEN Fail(s, "rolled_back")
  ELSE LET r == AddAll(s, who, digests, tx, 1, <<>>) IN Done(r.st, r.ids)

Apply(s, e) ==
  CASE e.name = "CreateRecord" -> DoCreate(s, e.who, e.digests, e.tx, e.poison)
    [] e.name = "EndBlock" -> Done(s, <<>>)
    [] OTHER -> Fail(s, "unknown")

-----------------------------------------------------------------------------
(* Ghosts from the observed events: every id a response ever returned, the
   number of transactions, and whether the last event returned an id that
   had been returned before (or the same id twice) *)
(* made (audit after round 7; read by C19_Permanent): what the ACCEPTED CREATIONS
   say can be read back - id returned by the i-th message's response |-> the
   contents that message submitted, its creator, the transaction's hash -,
   written once per id when the response returns it and never touched again;
   never what the store says.  Long histories: only the ids of the logged window
   (the k-th id ever returned is logged iff Keep(k); k counts the RESPONSES of
   the history, not the module's counter). *)
GhostInit == [issued |-> {}, ntx |-> 0, reused |-> FALSE,
              blk |-> {}, old |-> {}, sameBlk |-> FALSE, sameOld |-> FALSE, lastRb |-> FALSE, afterRb |-> FALSE,
              made |-> EmptyF]
GhostOf(t) == [GhostInit EXCEPT !.issued = DOMAIN t.rec, !.made = t.rec]
PairsOf(e) == {<<e.who, e.digests[i]>> : i \in DOMAIN e.digests}
HistMade(g, e, t) ==
  IF ~(e.name = "CreateRecord" /\ e.ok) THEN g.made
  ELSE
    LET n0 == Cardinality(g.issued)
        Fresh(i) == e.ids[i] \notin g.issued /\ \A j \in 1..(i - 1) : e.ids[j] # e.ids[i]
        Idx(i) == n0 + Cardinality({e.ids[j] : j \in 1..i} \ g.issued)
        I == {i \in DOMAIN e.ids : i <= Len(e.digests) /\ Fresh(i) /\ Keep(t, Idx(i))}
        new == {e.ids[i] : i \in I} \ DOMAIN g.made
    IN [id \in DOMAIN g.made \cup new |->
          IF id \in DOMAIN g.made THEN g.made[id]
          ELSE LET i == CHOOSE k \in I : e.ids[k] = id
               IN [digest |-> e.digests[i], creator |-> e.who, tx |-> e.tx]]
GhostStep(g, s, e, t) ==
  LET new == IF e.ok THEN Range(e.ids) ELSE {}
      isC == e.name = "CreateRecord"
  IN
  [issued |-> g.issued \cup new,
   ntx |-> g.ntx + (IF isC THEN 1 ELSE 0),
   reused |-> e.ok /\ (new \cap g.issued # {} \/ Cardinality(new) # Len(e.ids)),
   \* coverage only: same creator and contents as an earlier transaction of this
   \* block / of an earlier block; first success after a rolled-back transaction
   blk |-> IF e.name = "EndBlock" THEN {} ELSE IF isC /\ e.ok THEN g.blk \cup PairsOf(e) ELSE g.blk,
   old |-> IF e.name = "EndBlock" THEN g.old \cup g.blk ELSE g.old,
   sameBlk |-> isC /\ e.ok /\ PairsOf(e) \cap g.blk # {},
   sameOld |-> isC /\ e.ok /\ PairsOf(e) \cap g.old # {},
   lastRb |-> IF isC THEN (~e.ok /\ e.poison) ELSE g.lastRb,
   afterRb |-> isC /\ e.ok /\ g.lastRb,
   made |-> HistMade(g, e, t)]

-----------------------------------------------------------------------------
(***************************************************************************)
(* Property clauses (C19).  `created` is what can be read back under the   *)
(* returned ids after the event: t.rec in the model, the harness' re-query *)
(* in traces.                                                              *)
(***************************************************************************)
(* Creating returns, per message, an id under which nothing was stored, and
   exactly the submitted contents, the creator and the creating
   transaction's hash can be read back under it *)
C19_Fresh(s, e, created) ==
  (e.name = "CreateRecord" /\ e.ok) =>
    /\ Len(e.ids) = Len(e.digests)
    /\ \A i \in DOMAIN e.ids :
         /\ e.ids[i] \notin DOMAIN s.rec
         /\ e.ids[i] \in DOMAIN created
         /\ created[e.ids[i]] = [digest |-> e.digests[i], creator |-> e.who, tx |-> e.tx]

(* nothing alters or deletes a stored record, in any step *)
C19_Immutable(s, t) ==
  \A id \in DOMAIN s.rec : id \in DOMAIN t.rec /\ t.rec[id] = s.rec[id]

(* ... for ever after: under every id an accepted creation returned, exactly
   what that creation submitted - contents, creator, transaction hash - can be
   read back in every later state.  The expected value is the history's (ghost
   made), not the previous state's: C19_Immutable compares a state with its
   predecessor, so its quantifier ranges over what the store still shows *)
C19_Permanent(t, g) ==
  \A id \in DOMAIN g.made : id \in DOMAIN t.rec /\ t.rec[id] = g.made[id]

(* two creations never receive the same id *)
C19_Unique(g) == ~g.reused

Rejected_NoEffect(s, e, t) ==
  (~e.ok \/ e.name = "EndBlock") => t = s

-----------------------------------------------------------------------------
(* Model-checking universe *)
Init0 == [cnt |-> 0, rec |-> EmptyF, win |-> [first |-> 1000000, mod |-> 1]]
Init == st = Init0 /\ ev = NoEv /\ gh = GhostInit /\ hist = <<>>

Step(e) ==
  \* the singleton quantifier makes TLC evaluate Apply once per transition
  \E r \in {Apply(st, e)} :
    LET e2 == [e EXCEPT !.ok = r.ok, !.panic = r.panic, !.ids = r.ids] IN
    /\ st' = r.st
    /\ ev' = e2
    /\ gh' = GhostStep(gh, st, e2, r.st)
    /\ hist' = IF RecordHist THEN Append(hist, e2) ELSE hist

SeqsUpTo(S, n) == UNION {[1..k -> S] : k \in 1..n}

(* valid transactions (optionally poisoned) and two kinds refused by ValidateBasic *)
TxChoices ==
  {[ds |-> d, poison |-> p] : d \in SeqsUpTo(Contents, MaxMsgs), p \in BOOLEAN}
  \cup {[ds |-> <<"!">>, poison |-> FALSE]}
  \cup {[ds |-> <<c, "!">>, poison |-> FALSE] : c \in Contents}

CreateRecord ==
  /\ st.cnt < MaxRec /\ gh.ntx < MaxTx
  /\ \E who \in Users, c \in TxChoices :
       LET ds == c.ds  poison == c.poison IN
       Step([name |-> "CreateRecord", who |-> who, digests |-> ds,
             tx |-> "t" \o ToString(gh.ntx + 1), poison |-> poison,
             ok |-> TRUE, panic |-> FALSE, ids |-> <<>>, shape |-> <<>>])

Next == CreateRecord
Spec == Init /\ [][Next]_vars

Rejects(h) == Cardinality({i \in DOMAIN h : ~h[i].ok})
GenNext == Next /\ (ev'.ok \/ 4 * Rejects(hist) <= Len(hist) + 3)
GenSpec == Init /\ [][GenNext]_vars
GenDepth == atoi(IOEnv.GEN_DEPTH)
GenConstraint ==
  /\ Len(hist) <= GenDepth
  /\ (Len(hist) = GenDepth) => PrintT(<<"BEHAVIOUR", ToJson(hist)>>)

-----------------------------------------------------------------------------
Act_C19_Fresh == [][C19_Fresh(st, ev', st'.rec)]_vars
Act_C19_Immutable == [][C19_Immutable(st, st')]_vars
Inv_C19_Unique == C19_Unique(gh)
Inv_C19_Permanent == C19_Permanent(st, gh)
Act_Rejected_NoEffect == [][Rejected_NoEffect(st, ev', st')]_vars

(* transaction names make every history its own state; the ghosts ride along *)
View == <<st, gh>>
=============================================================================
