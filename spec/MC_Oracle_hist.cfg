SPECIFICATION Spec
CONSTANTS
  Users = {"u1"}
  Provs = {"p1", "p2"}
  RecordHist = FALSE
  MaxH = 8
  MaxFeeds = 1
  FeedNames = {"fa"}
  Creators = {"u1"}
  Aggs = {"min"}
  Limits = {1, 2, 3}
  ProvLists <- ProvLists1Def
  Thresholds = {1}
  Caps = {12}
  Freqs = {1}
  Xs = {1}
  Prices <- PricesDef
  Funds = 200
  MaxTimeout = 1
  TaxNum = 1
  TaxDen = 10
  MaxEdits = 3
  DTs = {1}
  EditTFs = {}
  EditCaps = {}
  MaxCalls = 0
  Sends = {}
VIEW View
INVARIANTS
  Inv_C17_StateMirror
  Inv_Conserved
PROPERTIES
  Act_C17_Append
  Act_C17_Aggregate
  Act_C17_History
  Act_C17_AppendH
  Act_C17_HistoryH
  Act_Rejected_NoEffect
  Act_X17_EditApplied
CHECK_DEADLOCK FALSE
