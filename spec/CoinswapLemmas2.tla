--------------------------- MODULE CoinswapLemmas2 ---------------------------
(* Unbounded lemmas for the liquidity operations of keeper/keeper.go (DESIGN 4.4):
   for ALL natural reserves, supplies and amounts the transcribed formulas keep the
   pool's share value from falling.  S, T: reserves; L: share supply; d: the
   amount of the operation; un/ud: 1 - one-sided fee as a rational; r: the integer
   square root, constrained by r^2 <= square < (r+1)^2.  Checked by Apalache at
   length 0 over unbounded integers. *)
EXTENDS Integers, CoinswapClauses

VARIABLES
  \* @type: Int;
  S,
  \* @type: Int;
  T,
  \* @type: Int;
  L,
  \* @type: Int;
  d,
  \* @type: Int;
  un,
  \* @type: Int;
  ud,
  \* @type: Int;
  r

Init ==
  /\ S \in Nat /\ T \in Nat /\ L \in Nat /\ d \in Nat /\ un \in Nat /\ ud \in Nat /\ r \in Nat
  /\ S > 0 /\ T > 0 /\ L > 0 /\ d > 0 /\ ud > 0 /\ un <= ud
Next == UNCHANGED <<S, T, L, d, un, ud, r>>

(* AddLiquidity into a funded pool: mint floor(L*d/S), deposit floor(T*d/S) + 1 *)
Lemma_AddLiquidity ==
  ShareValueW(S, T, L, S + d, T + (T * d) \div S + 1, L + (L * d) \div S)

(* RemoveLiquidity: burn d <= L, withdraw floor(d*S/L) and floor(d*T/L) *)
Lemma_RemoveLiquidity ==
  (d <= L) => ShareValueW(S, T, L, S - (d * S) \div L, T - (d * T) \div L, L - d)

(* AddUnilateralLiquidity of d units of the T side:
   square = floor((ud*T + un*d) * L^2 / (ud*T)), new supply r = isqrt(square) *)
Square == ((ud * T + un * d) * L * L) \div (ud * T)
Lemma_AddUnilateral ==
  (r * r <= Square /\ (r + 1) * (r + 1) > Square) => ShareValueW(S, T, L, S, T + d, r)

(* RemoveUnilateralLiquidity of d < L shares paid in the T side:
   payout = floor((2L - d) * d * T * un / (L^2 * ud)) *)
Payout == ((2 * L - d) * d * T * un) \div (L * L * ud)
Lemma_RemoveUnilateral ==
  (d < L) => ShareValueW(S, T, L, S, T - Payout, L - d)
=============================================================================
