SPECIFICATION Spec
CONSTANTS
  Users = {"u1", "u2"}
  MinUnitsC = {"maa", "mbb", "ibc/x1"}
  RecordHist = FALSE
  Owners = {}
  Symbols = {}
  Scales = {}
  Initials = {}
  Maxes = {}
  Amounts = {}
  EditMaxes = {}
  EditMint = {}
  MintTo = {}
  TransferTo = {}
  MaxTokens = 2
  InitStake = 9
  BaseFee = 5
  TaxNum = 2
  TaxDen = 5
  MintNum = 1
  MintDen = 2
  TaxNums = {2}
  Acts = {"Deploy", "Upgrade", "Hook", "ToERC20", "FromERC20", "SetParams"}
  Prologue = "life"
  PScaleA = 0
  PScaleB = 0
  ConvAmounts = {3}
  ConvTo = {"u1", "feepool"}
  RegIn = ""
  RegOut = "mbb"
  RegRn = 3
  RegRd = 2
  SwapAmounts = {7, 10}
  MaxRej = 2
  Sample = FALSE
  InitIbc = 3
  DeployExtra = {"stake", "ibc/x1", "nope"}
  HookVariants = {"unbound", "badto"}
  UpgradeTo = {"u1", "evrevert"}
  MathMaxIn = 0
  MathScales = {0}
VIEW View
INVARIANTS
  Inv_X10_ContractUnique
  Inv_X12_Token_Accepted_ModF12
  Inv_X12_Token_RoundTrip
PROPERTIES
  Act_X09_SupplyLedger
  Act_X09_FeeQuote
  Act_X10_DeployBinds
  Act_X10_HookIgnores
  Act_X10_Upgrade
  Act_C09_IdentityGh
  Act_C09_Identity
  Act_Rejected_NoEffect
  Act_C10_ToERC20
  Act_C10_FromERC20
  Act_C10_Hook
  Act_C10_SumConst
  Act_C10_ToERC20H
  Act_C10_FromERC20H
  Act_C10_SumConstH
  Act_X09_RecordsAsHistory
  Act_C10_FailAtomic
  Act_C10_SwapSettle
  Act_C10_ExactAtOne
  Act_C10_NoOverBurn
  Act_C10_Worth
  Act_C10_Dust
CHECK_DEADLOCK FALSE
