SPECIFICATION GenSpec
CONSTANTS
  Users = {"u1", "u2"}
  Provs = {"p1"}
  RecordHist = TRUE
  MaxH = 14
  MaxReq = 6
  Intervals = {0, 1, 2}
  Caps = {9, 10}
  Bound = {"p1"}
  Price = 10
  Funds = 25
  Timeout = 2
  TaxNum = 1
  TaxDen = 10
  Kinds = {"seed", "err", "bad"}
  MaxZH = 0
CONSTRAINT GenConstraint
CHECK_DEADLOCK FALSE
