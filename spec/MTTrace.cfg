SPECIFICATION TraceSpec
CONSTANTS
  Users = {}
  Issuers = {}
  MaxD = 0
  MaxM = 0
  MaxU = 7
  Amounts = {}
  DataVals = {"a"}
  RecordHist = FALSE
INVARIANTS
  Monitor
  Coverage
  Report
  DriftReport
POSTCONDITION TraceAccepted
CHECK_DEADLOCK FALSE
ALIAS Alias
