SPECIFICATION LiveSpec
CONSTANTS
  Users = {"u1"}
  RDenoms = {"rw1"}
  LP = "lpt-1"
  FeeDenom = "stake"
  RecordHist = FALSE
  MaxH = 12
  MaxStake = 1
  MaxPools = 1
  Prec = 10
  InitLP = 1
  InitR = 7
  Fee = 1
  TaxNum = 0
  TaxDen = 1
  RewardTotals = {4}
  RewardRates = {1, 2}
  MaxStart = 1
  TopUps = {2}
  Donations = {}
  Creators = {"u1"}
  Proposers = {}
  GovOn = FALSE
  InitCP = 0
  MaxProps = 0
  CPTotals = {}
  Deposits = {}
  GovMinDep = 0
  GovThr = 0
  GovDP = 0
  GovVP = 0
  CancelNum = 0
  CancelDen = 1
  BurnPre = FALSE
  BurnQ = FALSE
  BurnV = FALSE
  LiveMode <- LiveOn
PROPERTIES
  Live_PoolEnds
CHECK_DEADLOCK FALSE
