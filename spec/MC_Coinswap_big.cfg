SPECIFICATION Spec
CONSTANTS
  Users = {"u1"}
  Tokens = {"btc"}
  Std = "stake"
  RecordHist = FALSE
  InitStd = 24
  InitTok = 18
  CFee = 3
  FeeNum = 3
  FeeDen = 10
  UniNum = 2
  UniDen = 10
  TaxNum = 2
  TaxDen = 5
  Amts = {1, 2, 3, 5, 7}
  Mins = {0, 2}
  Liqs = {1, 3, 4}
  Donations = {1, 2}
  DlOffs = {0, 1}
  MaxNow = 2
  Senders = {"u1"}
  Recipients = {"u1", "feepool"}
  MaxSteps = 100
  DonateAlso = {}
  Odd = {}
  InitOdd = 0
  WrongKind = FALSE
  WithUni = TRUE
VIEW View
INVARIANTS
  Inv_C02_Conservation
PROPERTIES
  Act_C01_ShareValue
  Act_C01_LegRule
  Act_C01_ExactInMax
  Act_C01_ExactOutTight
  Act_C02_SwapSender
  Act_C02_SwapRecipient
  Act_C02_Bounds
  Act_C02_Frame
  Act_C02_AddTakesAtMost
  Act_C02_RemoveGivesAtLeast
  Act_C02_Supply
  Act_Rejected_NoEffect
  Act_X01_WedgedForever
  Act_X02_RouteBalanced
  Act_X02_RoundTripNoGain
  Act_X02_BlockedUntouched
  Act_X02_ModuleOnlyGifts
  Act_X02_DonateFrame
  Act_X02_RegistryStable
  Act_C02_PoolFresh
CHECK_DEADLOCK FALSE
