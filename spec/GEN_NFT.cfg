SPECIFICATION GenSpec
CONSTANTS
  Users = {"u1", "u2", "u3"}
  Recipients = {"u1", "u2", "u3"}
  Creators = {"u1", "u2"}
  Classes = {"cla", "clb"}
  Tokens <- Tokens_2x2
  NameVals = {"a", "b"}
  UriVals = {"x"}
  HashVals = {}
  DataVals = {}
  CMetaVals = {"m", "k"}
  RecordHist = TRUE
CONSTRAINT GenConstraint
CHECK_DEADLOCK FALSE
