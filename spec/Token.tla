-------------------------------- MODULE Token --------------------------------
(***************************************************************************)
(* irismod/modules/token — token registry, fees, burning, fee-token swaps  *)
(* and ERC20 conversions (properties C09, C10).                            *)
(*                                                                         *)
(* Transcribed action by action from                                       *)
(*   keeper/msg_server.go (IssueToken, EditToken, MintToken, BurnToken,    *)
(*     TransferTokenOwner, SwapFeeToken, DeployERC20, SwapToERC20,         *)
(*     SwapFromERC20, UpdateParams),                                       *)
(*   keeper/keeper.go, keeper/token.go (AddToken/assertTokenValid, burned  *)
(*     tally, indexes), keeper/fees.go (feeHandler), keeper/erc20.go,      *)
(*   keeper/evm_hook.go (PostTxProcessing), types/v1/msgs.go               *)
(*   (ValidateBasic), types/types.go (LossLessSwap -> TokenMath.tla).      *)
(*                                                                         *)
(* Style as Farm.tla: every handler is an operator                          *)
(*   st, args -> [ok, panic, st, why, burn, mint]                          *)
(* used by this module's own Next (exhaustive checking, generation) and by *)
(* TokenTrace.tla (validation of traces of the real code).                 *)
(*                                                                         *)
(* Not modelled (never produced by the TLC-fed drivers): the fee AMOUNT    *)
(* formula base/(ln len/ln 3)^4 (float arithmetic) — the event carries the *)
(* fee the chain's own query returned before the message (e.fee), the      *)
(* model generator uses the value that formula has for 3-letter symbols;   *)
(* token names; max supply 0 with mintable (MaxUint64); the native token   *)
(* record ("stake", scale 0, owner nobody) is a constant, not part of      *)
(* st.tok — only its ERC20 binding is state (st.native).                   *)
(*                                                                         *)
(* Beyond C09/C10 (diagnostic clauses X09_/X10_/X12_, strict mode): the    *)
(* ERC20 life cycle (deploy for a token, for the native token, for an IBC  *)
(* denom without a token, twice; UpgradeERC20; the hook on foreign and     *)
(* malformed logs), a supply ledger per token (issued + minted + converted *)
(* in - converted out - burned tally = supply), the fee-amount table for   *)
(* symbol lengths 3..8 (st.feeq, so a change of the float formula shows as *)
(* drift), and the genesis operators ExportG / ValidateG / ImportG.        *)
(*                                                                         *)
(* Negative probing: types/validation.go is transcribed character by       *)
(* character, so the step function is defined for ANY name, amount and     *)
(* receiver; with "Probe" in Acts the actions also draw inputs of the wrong *)
(* kind, and the generator mode GenNextP ends every behaviour with events  *)
(* the specification rejects (GEN_Token_probe.cfg).                        *)
(***************************************************************************)
EXTENDS Integers, Sequences, FiniteSets, TLC, Util, Json, IOUtils, TokenMath, CapClauses

CONSTANTS
  Users,        \* user accounts (strings)
  MinUnitsC,    \* min-unit universe of the model (bank denoms besides STAKE)
  RecordHist    \* BOOLEAN: keep the event history (generator configs)

VARIABLES st, ev, gh, hist
vars == <<st, ev, gh, hist>>

TOK   == "token"      \* token module account
FEEP  == "feepool"    \* fee collector + distribution account (blocked address)
STAKE == "stake"      \* native token: symbol = min unit = "stake", scale 0; fee denom
EXT   == "x1"         \* an ERC20 holder that is not a chain account
QREVERT == "evrevert" \* harness EVM: mint to / burn from this address reverts
QSHORT  == "evshort"  \* harness EVM: mint/burn moves amount-1 (post-balance check)
QNOKEY  == "evnokey"  \* harness EVM: SupportedKey(pubkey) = FALSE

IBCDenoms == {"ibc/x1", "ibc/x2"}   \* denoms the harness ICS20 keeper has a trace for
UsersOf(t) == DOMAIN t.bal \ {TOK, FEEP}
ErcAddrs(t) == UsersOf(t) \cup {EXT}
(* blocked recipients (bank keeper): the fee collector / distribution accounts
   and, since fix 20cb755 of the application wiring, the irismod module accounts
   — here the token module's own *)
Blocked(a) == a \in {FEEP, TOK}

NoEv == [name |-> "Init", who |-> "", sym |-> "", mu |-> "", scale |-> 0, initial |-> 0,
         max |-> 0, mintable |-> "", to |-> "", amt |-> 0, fee |-> 0,
         rn |-> 0, rd |-> 0, sin |-> 0, sout |-> 0, p |-> EmptyF,
         ok |-> TRUE, panic |-> FALSE, burn |-> 0, mint |-> 0]

-----------------------------------------------------------------------------
(* Results; why = reason (diagnostics and known-finding discriminators) *)
FailW(s, w)  == [ok |-> FALSE, panic |-> FALSE, st |-> s, why |-> w, burn |-> 0, mint |-> 0]
PanicW(s, w) == [ok |-> FALSE, panic |-> TRUE, st |-> s, why |-> w, burn |-> 0, mint |-> 0]
DoneW(s, w)  == [ok |-> TRUE, panic |-> FALSE, st |-> s, why |-> w, burn |-> 0, mint |-> 0]
Done(s) == DoneW(s, "")

TokOf(s, mu) == s.tok[s.byMinUnit[mu]]
HasMinUnit(s, mu) == mu \in DOMAIN s.byMinUnit
NoContract == ""
(* the ERC20 contract bound to the token whose coin is mu (getTokenByMinUnit);
   the native token's binding is st.native *)
(* types/validation.go, transcribed character by character (TLC evaluates Len,
   SubSeq and \o on strings):
     ValidateSymbol / ValidateMinUnit  ^[a-z][a-z0-9]{2,63}$ and no reserved
       prefix (peg, ibc, tibc, lpt, htlt) — ValidateBasic of Issue (both names),
       Edit / TransferOwner (symbol), Mint / Burn / SwapFeeToken (coin denom);
       an IBC denom ("ibc/...") is refused, so the token DeployERC20 creates for
       one can be converted but never minted, burned or fee-swapped here;
     ValidateERC20 (MsgDeployERC20, symbol and min unit)  ^[a-z][a-zA-Z0-9/]{2,100}$;
     sdk.Coin.IsValid (SwapToERC20 / SwapFromERC20)  [a-zA-Z][a-zA-Z0-9/:._-]{2,127}.
   Names are case sensitive everywhere: "AAA" is no spelling of "aaa". *)
LowerC == {"a", "b", "c", "d", "e", "f", "g", "h", "i", "j", "k", "l", "m",
           "n", "o", "p", "q", "r", "s", "t", "u", "v", "w", "x", "y", "z"}
UpperC == {"A", "B", "C", "D", "E", "F", "G", "H", "I", "J", "K", "L", "M",
           "N", "O", "P", "Q", "R", "S", "T", "U", "V", "W", "X", "Y", "Z"}
DigitC == {"0", "1", "2", "3", "4", "5", "6", "7", "8", "9"}
CharAt(x, i) == SubSeq(x, i, i)
HasPrefix(x, p) == Len(x) >= Len(p) /\ SubSeq(x, 1, Len(p)) = p
ReservedPrefixes == {"peg", "ibc", "tibc", "lpt", "htlt"}
Keyword(x) == \E p \in ReservedPrefixes : HasPrefix(x, p)
NameShape(x, lo, hi, first, rest) ==
  /\ Len(x) >= lo /\ Len(x) <= hi
  /\ CharAt(x, 1) \in first
  /\ \A i \in 2..Len(x) : CharAt(x, i) \in rest
ValidSymbol(x) == NameShape(x, 3, 64, LowerC, LowerC \cup DigitC) /\ ~Keyword(x)
ValidMinUnit(x) == ValidSymbol(x)            \* (same pattern, same reserved prefixes)
ValidERC20(x) == NameShape(x, 3, 101, LowerC, LowerC \cup UpperC \cup DigitC \cup {"/"})
SdkDenom(x) == NameShape(x, 3, 128, LowerC \cup UpperC,
                         LowerC \cup UpperC \cup DigitC \cup {"/", ":", ".", "_", "-"})
BadMinUnit(mu) == ~ValidMinUnit(mu)
(* an address field that is neither empty nor the address of an account of the
   universe: the drivers send the name itself, which is no bech32 address
   (ValidateBasic) *)
BadAddr(s, a) == a # "" /\ a \notin DOMAIN s.bal
HasTok(s, mu) == HasMinUnit(s, mu) \/ mu = STAKE
ContractOf(s, mu) == IF mu = STAKE THEN s.native
                     ELSE IF HasMinUnit(s, mu) THEN TokOf(s, mu).contract ELSE NoContract

(* keeper/fees.go calcFeeByBase: fee = base / round2((ln len / ln 3)^4), truncated,
   at least 1.  The factor is float arithmetic (math.Log, math.Pow, FormatFloat
   'f' 2); it is TABULATED here for symbol lengths 3..8 — not derived.  The
   harness logs the chain's own answers for the same lengths as st.feeq, so a
   change of the formula shows as drift (strict mode), never as a verdict. *)
FeeFactor100 == ("3" :> 100 @@ "4" :> 254 @@ "5" :> 461 @@ "6" :> 708 @@ "7" :> 984 @@ "8" :> 1284)
FeeOfLen(base, f100) == IF base * 100 > f100 THEN (base * 100) \div f100 ELSE 1
FeeTable(base) == [l \in DOMAIN FeeFactor100 |-> FeeOfLen(base, FeeFactor100[l])]
LenKey(x) == ToString(Len(x))

(* Symbols and min units are two separate key spaces (store prefixes 0x01 and
   0x02): a name may be the symbol of one token and the min unit of another.
   IssueToken checks each space on its own; EditToken / TransferTokenOwner
   resolve by SYMBOL; MintToken, BurnToken, DeployERC20, SwapToERC20,
   SwapFromERC20 and the burned side of SwapFeeToken resolve by MIN UNIT (the
   bank denom).  keeper/token.go GetToken(denom) tries the symbol first, then
   the min unit; calcFeeTokenMinted uses it for the MINTED side. *)
KnownDenom(s, d) == d \in DOMAIN s.tok \/ HasMinUnit(s, d) \/ d = STAKE
ScaleOf(s, d) == IF d \in DOMAIN s.tok THEN s.tok[d].scale
                 ELSE IF HasMinUnit(s, d) THEN TokOf(s, d).scale ELSE 0
(* the scale of the token whose coin the bank denom d is *)
ScaleOfMinUnit(s, d) == IF HasMinUnit(s, d) THEN TokOf(s, d).scale ELSE 0

(* keeper/fees.go feeHandler: fee -> module; tax -> fee collector; rest burned *)
DeductFee(s, who, fee) ==
  LET tax == TaxOf(fee, s.params.taxNum, s.params.taxDen)
      burned == fee - tax
  IN IF s.bal[who][STAKE] < fee THEN [ok |-> FALSE, st |-> s]
     ELSE [ok |-> TRUE,
           st |-> [s EXCEPT
             !.bal = Move(Debit(s.bal, who, (STAKE :> burned)), who, FEEP, (STAKE :> tax)),
             !.supply = SubSupply(s.supply, (STAKE :> burned))]]

MAXU == 20000000      \* stand-in for MaxUint64 (max supply 0 + mintable; never generated)

(* msg_server.go IssueToken; keeper.go IssueToken; token.go AddToken *)
DoIssue(s, who, sym, mu, scale, initial, max, mintable, fee) ==
  LET max2 == IF max = 0 THEN (IF mintable THEN MAXU ELSE initial) ELSE max IN
  IF max2 < initial \/ scale > 18 \/ BadMinUnit(mu) \/ ~ValidSymbol(sym)
  THEN FailW(s, "validate_basic")
  ELSE LET f == DeductFee(s, who, fee) IN
  IF ~f.ok THEN FailW(s, "fee_unpaid")
  ELSE IF sym \in DOMAIN s.tok \/ sym = STAKE THEN FailW(s, "symbol_exists")
  ELSE IF HasMinUnit(s, mu) \/ mu = STAKE THEN FailW(s, "minunit_exists")
  ELSE
    LET amt == initial * Pow10(scale)
        t == [minUnit |-> mu, scale |-> scale, max |-> max2, mintable |-> mintable,
              owner |-> who, initial |-> initial, contract |-> NoContract]
    IN Done([f.st EXCEPT !.tok = Put(@, sym, t),
                         !.byMinUnit = Put(@, mu, sym),
                         !.supply = AddSupply(@, (mu :> amt)),
                         !.bal = Credit(@, who, (mu :> amt))])

(* keeper.go EditToken.  The new maximum, in minimum units, is compared with
   the issued amount (fix of finding F5; before it the issued amount was first
   converted to main units by integer division, so a fractional part slipped
   under the new maximum). *)
DoEdit(s, who, sym, max, mintable) ==
  IF ~ValidSymbol(sym) THEN FailW(s, "validate_basic")
  ELSE IF sym \notin DOMAIN s.tok THEN FailW(s, "no_token")
  ELSE LET t == s.tok[sym] IN
  IF who # t.owner THEN FailW(s, "not_owner")
  ELSE
    IF max > 0 /\ max * Pow10(t.scale) < s.supply[t.minUnit] THEN FailW(s, "max_below_supply")
    ELSE
      LET t2 == [t EXCEPT !.max = IF max > 0 THEN max ELSE @,
                          !.mintable = IF mintable = "" THEN @ ELSE mintable = "true"]
      IN Done([s EXCEPT !.tok[sym] = t2])

(* msg_server.go TransferTokenOwner; keeper.go TransferTokenOwner *)
DoTransferOwner(s, who, sym, to) ==
  IF to = "" \/ who = to \/ BadAddr(s, to) \/ ~ValidSymbol(sym) THEN FailW(s, "validate_basic")
  ELSE IF Blocked(to) THEN FailW(s, "blocked")
  ELSE IF sym \notin DOMAIN s.tok THEN FailW(s, "no_token")
  ELSE IF who # s.tok[sym].owner THEN FailW(s, "not_owner")
  ELSE Done([s EXCEPT !.tok[sym].owner = to])

(* msg_server.go MintToken; keeper.go MintToken *)
DoMint(s, who, mu, amt, to, fee) ==
  LET rcpt == IF to = "" THEN who ELSE to IN
  IF amt <= 0 \/ BadMinUnit(mu) \/ BadAddr(s, to) THEN FailW(s, "validate_basic")
  ELSE IF Blocked(rcpt) THEN FailW(s, "blocked")
  ELSE IF ~HasMinUnit(s, mu) THEN FailW(s, "no_token")   \* (the native token: not its owner)
  ELSE LET f == DeductFee(s, who, fee) IN
  IF ~f.ok THEN FailW(s, "fee_unpaid")
  ELSE LET t == TokOf(s, mu) IN
  IF who # t.owner THEN FailW(s, "not_owner")
  ELSE IF ~t.mintable THEN FailW(s, "not_mintable")
  ELSE
    LET mintableAmt == t.max * Pow10(t.scale) - s.supply[mu] IN
    IF amt > mintableAmt THEN FailW(s, "exceeds_cap")
    ELSE Done([f.st EXCEPT !.supply = AddSupply(@, (mu :> amt)),
                           !.bal = Credit(@, rcpt, (mu :> amt))])

(* msg_server.go BurnToken; keeper.go BurnToken; token.go AddBurnCoin *)
DoBurn(s, who, mu, amt) ==
  IF amt <= 0 \/ BadMinUnit(mu) THEN FailW(s, "validate_basic")
  ELSE IF ~(HasMinUnit(s, mu) \/ mu = STAKE) THEN FailW(s, "no_token")
  ELSE IF s.bal[who][mu] < amt THEN FailW(s, "insufficient")
  ELSE Done([s EXCEPT !.bal = Debit(@, who, (mu :> amt)),
                      !.supply = SubSupply(@, (mu :> amt)),
                      !.burned = Put(@, mu, Amt(@, mu) + amt)])

(* msg_server.go SwapFeeToken; keeper.go SwapFeeToken, calcFeeTokenMinted.
   burn first, then mint; a negative burn panics in sdk.NewCoin (recovered). *)
DoSwapFee(s, who, mu, amt, to) ==
  IF amt <= 0 \/ BadMinUnit(mu) \/ BadAddr(s, to) THEN FailW(s, "validate_basic")
  ELSE IF to # "" /\ Blocked(to) THEN FailW(s, "blocked")
  ELSE IF ~(HasMinUnit(s, mu) \/ mu = STAKE) THEN FailW(s, "no_token")
  ELSE IF mu \notin DOMAIN s.registry THEN FailW(s, "no_swap")
  ELSE
    LET reg == s.registry[mu]
        out == reg.to
        sIn == IF HasMinUnit(s, mu) THEN TokOf(s, mu).scale ELSE 0
        \* fix c8ce377 (F27): the minted token is looked up by min unit, like the
        \* burned one (before: GetToken, symbol first - a token whose SYMBOL is
        \* `out` lent its scale to the swap)
        sOut == ScaleOfMinUnit(s, out)
        rcpt == IF to = "" THEN who ELSE to
    IN
    IF ~(HasMinUnit(s, out) \/ out = STAKE) THEN FailW(s, "no_token")
    ELSE IF ~RowFits(amt, reg.rn, reg.rd, sIn, sOut) THEN FailW(s, "unmodelled_row")
    ELSE
      LET r == LossLessRow(amt, reg.rn, reg.rd, sIn, sOut)
          why == LossLessWhy(amt, reg.rn, reg.rd, sIn, sOut)
      IN
      IF r.burn < 0 THEN PanicW(s, why)
      ELSE IF s.bal[who][mu] < r.burn THEN FailW(s, "insufficient")
      ELSE
        LET s1 == [s EXCEPT !.bal = Debit(@, who, (mu :> r.burn)),
                            !.supply = SubSupply(@, (mu :> r.burn))]
            s2 == [s1 EXCEPT !.supply = AddSupply(@, (out :> r.mint)),
                             !.bal = Credit(@, rcpt, (out :> r.mint))]
        IN [ok |-> TRUE, panic |-> FALSE, st |-> s2, why |-> why,
            burn |-> r.burn, mint |-> r.mint]

(* msg_server.go DeployERC20 (authority); erc20.go DeployERC20, buildERC20Token.
   The harness EVM bumps the module account's nonce on creation like a real
   EVM; the contract is named by the nonce it was created with.
   Three cases: the min unit has a token (the message's symbol / scale are
   ignored); it is the native token's; it has none — then a token is CREATED for
   it (owner = module account, mintable, max 0) provided the symbol is free and
   the ICS20 keeper knows a trace for the denom. *)
NewContract(s) == "c" \o ToString(s.nonce + 1)
Deployable(s) == IF ~s.params.erc20 THEN "erc20_disabled"
                 ELSE IF ~s.params.beacon THEN "no_beacon" ELSE ""
WithContract(s, c) == [s EXCEPT !.nonce = @ + 1, !.erc = Put(@, c, [a \in ErcAddrs(s) |-> 0])]

DoDeploy(s, sym0, mu, scale, quirk) ==
  LET sym == IF sym0 = "" THEN "zzz" ELSE sym0
      c == NewContract(s)
      \* the harness EVM reverts the creation of a contract NAMED evrevert (the
      \* message's name; result.Failed() in DeployERC20): nothing is bound
      evm == IF Deployable(s) # "" THEN Deployable(s)
             ELSE IF quirk = QREVERT THEN "evm_revert" ELSE ""
  IN
  IF scale > 18 \/ ~ValidERC20(mu) \/ ~ValidERC20(sym) THEN FailW(s, "validate_basic")
  ELSE IF mu = STAKE THEN
    IF s.native # NoContract THEN FailW(s, "already_deployed")
    ELSE IF evm # "" THEN FailW(s, evm)
    ELSE Done([WithContract(s, c) EXCEPT !.native = c])
  ELSE IF ~HasMinUnit(s, mu) THEN
    IF sym \in DOMAIN s.tok \/ sym = STAKE THEN FailW(s, "symbol_exists")
    ELSE IF mu \notin IBCDenoms THEN FailW(s, "no_token")
    ELSE IF evm # "" THEN FailW(s, evm)
    ELSE
      LET t == [minUnit |-> mu, scale |-> scale, max |-> 0, mintable |-> TRUE,
                owner |-> TOK, initial |-> 0, contract |-> c]
      IN Done([WithContract(s, c) EXCEPT !.tok = Put(@, sym, t),
                                         !.byMinUnit = Put(@, mu, sym)])
  ELSE
    LET sy == s.byMinUnit[mu] IN
    IF s.tok[sy].contract # NoContract THEN FailW(s, "already_deployed")
    ELSE IF evm # "" THEN FailW(s, evm)
    ELSE Done([WithContract(s, c) EXCEPT !.tok[sy].contract = c])

(* msg_server.go UpgradeERC20 (authority); erc20.go UpgradeERC20: the beacon's
   upgradeTo(implementation).  The harness EVM records the implementation and
   reverts for the quirk address. *)
DoUpgrade(s, impl) ==
  IF impl = "" \/ (impl \notin ErcAddrs(s) /\ impl # QREVERT) THEN FailW(s, "validate_basic")   \* (no hex address)
  ELSE IF ~s.params.erc20 THEN FailW(s, "erc20_disabled")
  ELSE IF ~s.params.beacon THEN FailW(s, "no_beacon")
  ELSE IF impl = QREVERT THEN FailW(s, "evm_revert")
  ELSE Done([s EXCEPT !.impl = impl])

(* msg_server.go SwapToERC20; erc20.go SwapToERC20, MintERC20 *)
DoToERC20(s, who, to, mu, amt) ==
  IF amt <= 0 \/ to \notin ErcAddrs(s) \/ ~SdkDenom(mu) THEN FailW(s, "validate_basic")
  ELSE IF ~s.params.erc20 THEN FailW(s, "erc20_disabled")
  ELSE IF to = QNOKEY THEN FailW(s, "unsupported_key")
  ELSE IF ~HasTok(s, mu) THEN FailW(s, "no_token")
  ELSE IF ContractOf(s, mu) = NoContract THEN FailW(s, "not_deployed")
  ELSE IF s.bal[who][mu] < amt THEN FailW(s, "insufficient")
  ELSE IF to = QREVERT THEN FailW(s, "evm_revert")
  ELSE IF to = QSHORT THEN FailW(s, "evm_postcheck")
  ELSE
    LET c == ContractOf(s, mu) IN
    Done([s EXCEPT !.bal = Debit(@, who, (mu :> amt)),
                   !.supply = SubSupply(@, (mu :> amt)),
                   !.erc[c][to] = @ + amt])

(* msg_server.go SwapFromERC20; erc20.go SwapFromERC20, BurnERC20 *)
DoFromERC20(s, who, to, mu, amt) ==
  IF amt <= 0 \/ to = "" \/ BadAddr(s, to) \/ ~SdkDenom(mu) THEN FailW(s, "validate_basic")
  ELSE IF ~s.params.erc20 THEN FailW(s, "erc20_disabled")
  ELSE IF ~HasTok(s, mu) THEN FailW(s, "no_token")
  ELSE IF ContractOf(s, mu) = NoContract THEN FailW(s, "not_deployed")
  ELSE
    LET c == ContractOf(s, mu) IN
    IF s.erc[c][who] < amt THEN FailW(s, "insufficient")
    ELSE IF who = QREVERT THEN FailW(s, "evm_revert")
    ELSE IF who = QSHORT THEN FailW(s, "evm_postcheck")
    ELSE IF Blocked(to) THEN FailW(s, "blocked")
    ELSE Done([s EXCEPT !.erc[c][who] = @ - amt,
                        !.supply = AddSupply(@, (mu :> amt)),
                        !.bal = Credit(@, to, (mu :> amt))])

(* A holder calls the contract's swapToNative(to, amount) (Token.sol: burn the
   caller's tokens, emit SwapToNative) and the EVM module runs the token
   keeper's hook on the receipt (evm_hook.go PostTxProcessing): mint the
   event's amount natively to the event's receiver.  Any error reverts both. *)
DoHook(s, who, to, mu, amt) ==
  IF ~HasTok(s, mu) THEN FailW(s, "no_token")
  ELSE IF ContractOf(s, mu) = NoContract THEN FailW(s, "not_deployed")
  ELSE
    LET c == ContractOf(s, mu) IN
    IF to = "" \/ who \notin ErcAddrs(s) THEN FailW(s, "evm_revert")
    ELSE IF s.erc[c][who] < amt THEN FailW(s, "evm_revert")
    ELSE IF ~s.params.erc20 THEN FailW(s, "erc20_disabled")
    ELSE IF BadAddr(s, to) THEN FailW(s, "bad_log")     \* the event's receiver is no bech32 address
    ELSE IF amt <= 0 THEN FailW(s, "zero_amount")
    ELSE IF Blocked(to) THEN FailW(s, "blocked")
    ELSE Done([s EXCEPT !.erc[c][who] = @ - amt,
                        !.supply = AddSupply(@, (mu :> amt)),
                        !.bal = Credit(@, to, (mu :> amt))])

(* The hook on receipts that no bound contract's swapToNative produced (the
   harness forges the log; no ERC20 balance moves).  evm_hook.go walks the logs:
     "unbound"     a well-formed SwapToNative log of a contract bound to no token
                   -> skipped (even while ERC20 is disabled);
     "topics2"     two topics -> skipped;   "otherevent"  unknown event id -> skipped;
     "badto"       bound contract, receiver not a bech32 address -> error;
     "baddata"     bound contract, data does not unpack -> error;
     "emptyto"     bound contract, empty receiver -> error;
     "zeroamt"     bound contract, amount 0 -> error.
   For the last four an unbound min unit makes the harness use the foreign
   address, so the log is skipped. *)
HookVariantsAll == {"unbound", "topics2", "otherevent", "badto", "baddata", "emptyto", "zeroamt"}
DoHookForged(s, variant, mu) ==
  IF variant \in {"unbound", "topics2", "otherevent"} THEN Done(s)
  ELSE IF ContractOf(s, mu) = NoContract THEN Done(s)
  ELSE IF ~s.params.erc20 THEN FailW(s, "erc20_disabled")
  ELSE FailW(s, "bad_log")

(* msg_server.go UpdateParams (authority); p is a valid parameter record *)
DoSetParams(s, p) ==
  IF p.taxNum < 0 \/ p.taxNum > p.taxDen \/ p.mintNum < 0 \/ p.mintNum > p.mintDen
     \/ p.baseFee < 0
  THEN FailW(s, "validate_basic")
  ELSE Done([s EXCEPT !.params = p, !.feeq = FeeTable(p.baseFee)])

(* types.LossLessSwap called as a pure function (C10 part i) *)
DoLossLess(s, input, rn, rd, sIn, sOut) ==
  IF ~RowFits(input, rn, rd, sIn, sOut) THEN FailW(s, "unmodelled_row")
  ELSE LET r == LossLessRow(input, rn, rd, sIn, sOut) IN
       [ok |-> TRUE, panic |-> FALSE, st |-> s,
        why |-> LossLessWhy(input, rn, rd, sIn, sOut), burn |-> r.burn, mint |-> r.mint]

(* Dispatch on an event record: the deterministic step function *)
Apply(s, e) ==
  CASE e.name = "Issue" -> DoIssue(s, e.who, e.sym, e.mu, e.scale, e.initial, e.max,
                                   e.mintable = "true", e.fee)
    [] e.name = "Edit" -> DoEdit(s, e.who, e.sym, e.max, e.mintable)
    [] e.name = "TransferOwner" -> DoTransferOwner(s, e.who, e.sym, e.to)
    [] e.name = "Mint" -> DoMint(s, e.who, e.mu, e.amt, e.to, e.fee)
    [] e.name = "Burn" -> DoBurn(s, e.who, e.mu, e.amt)
    [] e.name = "SwapFee" -> DoSwapFee(s, e.who, e.mu, e.amt, e.to)
    [] e.name = "Deploy" -> DoDeploy(s, e.sym, e.mu, e.scale, e.to)
    [] e.name = "Upgrade" -> DoUpgrade(s, e.to)
    [] e.name = "ToERC20" -> DoToERC20(s, e.who, e.to, e.mu, e.amt)
    [] e.name = "FromERC20" -> DoFromERC20(s, e.who, e.to, e.mu, e.amt)
    [] e.name = "Hook" -> IF e.sym = "" THEN DoHook(s, e.who, e.to, e.mu, e.amt)
                          ELSE DoHookForged(s, e.sym, e.mu)
    [] e.name = "SetParams" -> DoSetParams(s, e.p)
    [] e.name = "LossLess" -> DoLossLess(s, e.amt, e.rn, e.rd, e.sin, e.sout)
    [] OTHER -> FailW(s, "unknown_event")

-----------------------------------------------------------------------------
(***************************************************************************)
(* Ghost state, computed from the OBSERVED states only: the identities     *)
(* ever issued with the token they denote.                                 *)
(*   everSym[symbol]  = <<min unit, scale>> the symbol was first bound to   *)
(*   everMu[min unit] = the symbol the min unit was first bound to          *)
(*   inn[min unit]    = units that entered circulation: the supply found     *)
(*                      when the token appeared (an issue: none) + issued +  *)
(*                      minted + converted from ERC20 + minted by fee swaps  *)
(*   out[min unit]    = units that left other than through BurnToken:        *)
(*                      converted to ERC20, burned by fee swaps              *)
(***************************************************************************)
IdOf(t) == <<t.minUnit, t.scale>>

(***************************************************************************)
(* HISTORY ghosts (audit of round 7).  The clauses C09_Authority, C09_Cap,  *)
(* C09_Burned, C09_Fee, C10_ToERC20, C10_FromERC20, C10_SumConst read the   *)
(* owner, the maximum, the mintable flag, the tally, the tax rate and the   *)
(* bound contract from the module's OWN records as projected in the state.  *)
(* The ghosts below hold the same facts ACCORDING TO WHAT HAPPENED: the     *)
(* accepted messages and their arguments (and, for contracts, the ERC20     *)
(* ledger - an observation independent of the token records):              *)
(*   hOwner[symbol]   issuer of the accepted Issue, receiver of the last    *)
(*                    accepted TransferOwner                               *)
(*   hDecl[symbol]    [mu, scale, capped, max, mintable] declared by the    *)
(*                    accepted Issue, changed by accepted Edits only        *)
(*   hMuSym[min unit] the symbol the accepted Issue named with it           *)
(*   hBurned[coin]    the tally the history started with + every accepted   *)
(*                    Burn's amount                                        *)
(*   hTax             the tax rate of the last accepted SetParams           *)
(*   hContract[coin]  the contract that APPEARED IN THE LEDGER in the       *)
(*                    accepted Deploy naming the coin (first binding stays) *)
(* Objects that exist when a history starts, and tokens that appear through *)
(* no Issue (DeployERC20 creates one for an IBC denom), enter as found.     *)
(***************************************************************************)
DeclOfRec(r) == [mu |-> r.minUnit, scale |-> r.scale, capped |-> r.max > 0, max |-> r.max,
                 mintable |-> r.mintable]
IssueOK(e) == e.name = "Issue" /\ e.ok
DeclOfIssue(e) ==
  LET mt == e.mintable = "true" IN
  [mu |-> e.mu, scale |-> e.scale, capped |-> (e.max > 0 \/ ~mt),
   max |-> IF e.max > 0 THEN e.max ELSE e.initial, mintable |-> mt]
BoundAt(s) == {m \in DOMAIN s.byMinUnit \cup {STAKE} : ContractOf(s, m) # NoContract}
NoSuchContract == "?"

HistInit(s) ==
  [hOwner |-> [y \in DOMAIN s.tok |-> s.tok[y].owner],
   hDecl |-> [y \in DOMAIN s.tok |-> DeclOfRec(s.tok[y])],
   hMuSym |-> s.byMinUnit,
   hBurned |-> s.burned,
   hTax |-> [num |-> s.params.taxNum, den |-> s.params.taxDen],
   hContract |-> [m \in BoundAt(s) |-> ContractOf(s, m)]]

HistStep(g, s, e, t) ==
  LET syms == DOMAIN g.hOwner \cup DOMAIN t.tok \cup (IF IssueOK(e) THEN {e.sym} ELSE {})
      mus == DOMAIN g.hMuSym \cup DOMAIN t.byMinUnit \cup (IF IssueOK(e) THEN {e.mu} ELSE {})
      fresh == DOMAIN t.erc \ DOMAIN s.erc
  IN
  [hOwner |-> [y \in syms |->
       IF e.name = "TransferOwner" /\ e.ok /\ e.sym = y THEN e.to
       ELSE IF y \in DOMAIN g.hOwner THEN g.hOwner[y]
       ELSE IF IssueOK(e) /\ e.sym = y THEN e.who
       ELSE t.tok[y].owner],
   hDecl |-> [y \in syms |->
       IF y \in DOMAIN g.hDecl THEN
         (IF e.name = "Edit" /\ e.ok /\ e.sym = y
          THEN [g.hDecl[y] EXCEPT !.max = IF e.max > 0 THEN e.max ELSE @,
                                  !.capped = IF e.max > 0 THEN TRUE ELSE @,
                                  !.mintable = IF e.mintable = "" THEN @ ELSE e.mintable = "true"]
          ELSE g.hDecl[y])
       ELSE IF IssueOK(e) /\ e.sym = y THEN DeclOfIssue(e)
       ELSE DeclOfRec(t.tok[y])],
   hMuSym |-> [m \in mus |->
       IF m \in DOMAIN g.hMuSym THEN g.hMuSym[m]
       ELSE IF IssueOK(e) /\ e.mu = m THEN e.sym
       ELSE t.byMinUnit[m]],
   hBurned |-> IF e.name = "Burn" /\ e.ok THEN Put(g.hBurned, e.mu, Amt(g.hBurned, e.mu) + e.amt)
               ELSE g.hBurned,
   hTax |-> IF e.name = "SetParams" /\ e.ok THEN [num |-> e.p.taxNum, den |-> e.p.taxDen] ELSE g.hTax,
   hContract |-> IF e.name = "Deploy" /\ e.ok /\ e.mu \notin DOMAIN g.hContract
                 THEN Put(g.hContract, e.mu,
                          IF Cardinality(fresh) = 1 THEN CHOOSE c \in fresh : TRUE ELSE NoSuchContract)
                 ELSE g.hContract]

GhostInit(s) == [everSym |-> [y \in DOMAIN s.tok |-> IdOf(s.tok[y])],
                 everMu |-> s.byMinUnit,
                 pastOwners |-> [y \in DOMAIN s.tok |-> {s.tok[y].owner}],
                 inn |-> [m \in DOMAIN s.byMinUnit |-> s.supply[m] + Amt(s.burned, m)],
                 out |-> [m \in DOMAIN s.byMinUnit |-> 0],
                 h |-> HistInit(s)]

GenuineHook(e) == e.name = "Hook" /\ e.sym = ""
InOf(s, e, m) ==
  IF ~e.ok THEN 0
  ELSE IF e.name = "Issue" /\ e.mu = m THEN e.initial * Pow10(e.scale)
  ELSE IF e.name = "Mint" /\ e.mu = m THEN e.amt
  ELSE IF (e.name = "FromERC20" \/ GenuineHook(e)) /\ e.mu = m THEN e.amt
  ELSE IF e.name = "SwapFee" /\ e.mu \in DOMAIN s.registry /\ s.registry[e.mu].to = m THEN e.mint
  ELSE 0
OutOf(s, e, m) ==
  IF ~e.ok THEN 0
  ELSE IF e.name = "ToERC20" /\ e.mu = m THEN e.amt
  ELSE IF e.name = "SwapFee" /\ e.mu = m THEN e.burn
  ELSE 0

GhostStep(g, s, e, t) ==
  [h |-> HistStep(g.h, s, e, t),
   inn |-> [m \in DOMAIN t.byMinUnit |->
              (IF m \in DOMAIN g.inn THEN g.inn[m]
               ELSE IF e.name = "Issue" /\ e.ok /\ e.mu = m THEN 0
               ELSE s.supply[m])          \* a token created for coins that already circulate
              + InOf(s, e, m)],
   out |-> [m \in DOMAIN t.byMinUnit |->
              (IF m \in DOMAIN g.out THEN g.out[m] ELSE 0) + OutOf(s, e, m)],
   everSym |-> [y \in DOMAIN g.everSym \cup DOMAIN t.tok |->
                  IF y \in DOMAIN g.everSym THEN g.everSym[y] ELSE IdOf(t.tok[y])],
   everMu |-> [m \in DOMAIN g.everMu \cup DOMAIN t.byMinUnit |->
                  IF m \in DOMAIN g.everMu THEN g.everMu[m] ELSE t.byMinUnit[m]],
   \* owners a symbol has had (vacuity counters only)
   pastOwners |-> [y \in DOMAIN t.tok |->
                  (IF y \in DOMAIN g.pastOwners THEN g.pastOwners[y] ELSE {}) \cup {t.tok[y].owner}]]

-----------------------------------------------------------------------------
(***************************************************************************)
(* Property clauses.  (s, e, t) = pre-state, event with result, post-state *)
(***************************************************************************)
C09Msgs == {"Issue", "Edit", "Mint", "Burn", "TransferOwner"}
ConvMsgs == {"ToERC20", "FromERC20", "Hook"}

(* C09: symbol and min unit each identify at most one token, for ever *)
C09_IdentityState(t, g) ==
  /\ \A y \in DOMAIN g.everSym : y \in DOMAIN t.tok /\ IdOf(t.tok[y]) = g.everSym[y]
  /\ \A m \in DOMAIN g.everMu : m \in DOMAIN t.byMinUnit /\ t.byMinUnit[m] = g.everMu[m]
  /\ \A y \in DOMAIN t.tok :
       t.tok[y].minUnit \in DOMAIN t.byMinUnit /\ t.byMinUnit[t.tok[y].minUnit] = y
  /\ \A m \in DOMAIN t.byMinUnit :
       t.byMinUnit[m] \in DOMAIN t.tok /\ t.tok[t.byMinUnit[m]].minUnit = m

(* the same as a step condition (needs no ghosts: every step preserves every
   binding) *)
C09_IdentityStep(s, t) ==
  /\ \A y \in DOMAIN s.tok : y \in DOMAIN t.tok /\ IdOf(t.tok[y]) = IdOf(s.tok[y])
  /\ \A m \in DOMAIN s.byMinUnit : m \in DOMAIN t.byMinUnit /\ t.byMinUnit[m] = s.byMinUnit[m]

C09_Identity(s, t, g) == C09_IdentityState(t, g) /\ C09_IdentityStep(s, t)

(* C09: only the current owner edits, mints, hands over; non-mintable never mints *)
C09_Authority(s, e, t) ==
  /\ (e.name \in {"Edit", "TransferOwner"} /\ e.ok) =>
       e.sym \in DOMAIN s.tok /\ s.tok[e.sym].owner = e.who
  /\ (e.name = "Mint" /\ e.ok) =>
       /\ HasMinUnit(s, e.mu)
       /\ TokOf(s, e.mu).owner = e.who
       /\ TokOf(s, e.mu).mintable
  /\ (e.name = "TransferOwner" /\ e.ok) => t.tok[e.sym].owner = e.to
  /\ \A y \in DOMAIN s.tok \cap DOMAIN t.tok :
       /\ (t.tok[y].owner # s.tok[y].owner) =>
            (e.name = "TransferOwner" /\ e.ok /\ e.sym = y)
       /\ (t.tok[y].max # s.tok[y].max \/ t.tok[y].mintable # s.tok[y].mintable) =>
            (e.name = "Edit" /\ e.ok /\ e.sym = y)
  \* among the C09 messages only the owner's mint (and the issue) creates units
  /\ (e.name \in C09Msgs) =>
       \A m \in DOMAIN s.byMinUnit :
         (t.supply[m] > s.supply[m]) => (e.name = "Mint" /\ e.ok /\ e.mu = m)

(* C09: circulating amount <= max * 10^scale through issue/mint/edit/burn;
   the maximum is never lowered below what circulates *)
(* the arithmetic is stated once, in CapClauses.tla (shared with the big-number
   tier, where Z3 evaluates it on max supplies up to MaxUint64) *)
CircOf(x, y) == x.supply[x.tok[y].minUnit]
WOf(x, y) == Pow10(x.tok[y].scale)
CapOK(x, y) == CapW(CircOf(x, y), x.tok[y].max, WOf(x, y))

C09_Cap(s, e, t) ==
  /\ (e.name \in C09Msgs) =>
       \A y \in DOMAIN t.tok :
         IF y \in DOMAIN s.tok
         THEN CapKeptW(CircOf(s, y), s.tok[y].max, CircOf(t, y), t.tok[y].max, WOf(t, y))
         ELSE CapOK(t, y)
  /\ (e.name = "Edit" /\ e.sym \in DOMAIN t.tok) =>
       EditMaxW(e.ok, e.max, t.tok[e.sym].max, WOf(t, e.sym), CircOf(t, e.sym))

(* C09: burned amounts are tallied exactly *)
C09_Burned(s, e, t) ==
  /\ (e.name = "Burn" /\ e.ok) =>
       BurnExactW(e.amt, Amt(s.burned, e.mu), Amt(t.burned, e.mu),
                  s.supply[e.mu], t.supply[e.mu], s.bal[e.who][e.mu], t.bal[e.who][e.mu])
  /\ \A m \in DOMAIN s.burned \cup DOMAIN t.burned :
       TallyW(Amt(s.burned, m), Amt(t.burned, m), e.name = "Burn" /\ e.ok /\ e.mu = m)

(* C09: the issue/mint fee F (e.fee, the chain's own quote) is charged to the
   owner and split between the fee pool (the tax share, either rounding) and
   burning; nothing stays in the module account *)
C09_Fee(s, e, t) ==
  (e.name \in {"Issue", "Mint"} /\ e.ok) =>
    LET F == e.fee
        tax == t.bal[FEEP][STAKE] - s.bal[FEEP][STAKE]
        den == s.params.taxDen
    IN /\ s.bal[e.who][STAKE] - t.bal[e.who][STAKE] = F
       /\ tax >= 0 /\ tax <= F
       /\ tax * den - F * s.params.taxNum < den
       /\ F * s.params.taxNum - tax * den < den
       /\ s.supply[STAKE] - t.supply[STAKE] = F - tax
       /\ \A d \in DOMAIN t.bal[TOK] : t.bal[TOK][d] = s.bal[TOK][d]
       /\ \A a \in UsersOf(t) \ {e.who} : t.bal[a][STAKE] = s.bal[a][STAKE]

(* a rejected message changes nothing *)
Rejected_NoEffect(s, e, t) == (~e.ok) => t = s

(* C10 (ii): conversions *)
ErcTotal(x, c) == SumOver(x.erc[c], DOMAIN x.erc[c])

OthersSame(s, t, mu, acct) ==
  \A a \in DOMAIN s.bal : (a # acct) => t.bal[a][mu] = s.bal[a][mu]
ErcOthersSame(s, t, c, addr) ==
  /\ \A a \in DOMAIN s.erc[c] : (a # addr) => t.erc[c][a] = s.erc[c][a]
  /\ \A c2 \in DOMAIN s.erc : (c2 # c) => t.erc[c2] = s.erc[c2]

C10_ToERC20(s, e, t) ==
  (e.name = "ToERC20" /\ e.ok) =>
    /\ HasTok(s, e.mu) /\ ContractOf(s, e.mu) \in DOMAIN s.erc
    /\ LET c == ContractOf(s, e.mu) IN
       /\ s.supply[e.mu] - t.supply[e.mu] = e.amt
       /\ s.bal[e.who][e.mu] - t.bal[e.who][e.mu] = e.amt
       /\ t.erc[c][e.to] - s.erc[c][e.to] = e.amt
       /\ OthersSame(s, t, e.mu, e.who)
       /\ ErcOthersSame(s, t, c, e.to)

C10_FromERC20(s, e, t) ==
  (e.name = "FromERC20" /\ e.ok) =>
    /\ HasTok(s, e.mu) /\ ContractOf(s, e.mu) \in DOMAIN s.erc
    /\ LET c == ContractOf(s, e.mu) IN
       /\ t.supply[e.mu] - s.supply[e.mu] = e.amt
       /\ t.bal[e.to][e.mu] - s.bal[e.to][e.mu] = e.amt
       /\ s.erc[c][e.who] - t.erc[c][e.who] = e.amt
       /\ OthersSame(s, t, e.mu, e.to)
       /\ ErcOthersSame(s, t, c, e.who)

(* the SwapToNative hook mints exactly the event's amount to the event's receiver *)
C10_Hook(s, e, t) ==
  (GenuineHook(e) /\ e.ok) =>
    /\ HasTok(s, e.mu)
    /\ t.supply[e.mu] - s.supply[e.mu] = e.amt
    /\ t.bal[e.to][e.mu] - s.bal[e.to][e.mu] = e.amt
    /\ OthersSame(s, t, e.mu, e.to)

(* native supply + ERC20 supply is unchanged by every conversion; the ERC20
   side moves in conversions only *)
C10_SumConst(s, e, t) ==
  /\ \A c \in DOMAIN s.erc :
       (c \in DOMAIN t.erc /\ ErcTotal(t, c) # ErcTotal(s, c)) => (e.name \in ConvMsgs /\ e.ok)
  /\ (e.name \in ConvMsgs) =>
       \A m \in DOMAIN s.byMinUnit \cup {STAKE} :
         LET c == ContractOf(s, m) IN
         (c # NoContract /\ c \in DOMAIN s.erc /\ c \in DOMAIN t.erc) =>
           t.supply[m] + ErcTotal(t, c) = s.supply[m] + ErcTotal(s, c)

(* a conversion that fails changes neither side *)
C10_FailAtomic(s, e, t) ==
  (e.name \in ConvMsgs \cup {"SwapFee", "Deploy"} /\ ~e.ok) =>
    /\ t.supply = s.supply /\ t.bal = s.bal /\ t.erc = s.erc

(* C10 (i): what one swap did: from the LossLess call, or from the balance
   sheet around a SwapFeeToken message *)
IsSwap(s, e) == e.ok /\ (e.name = "LossLess"
                         \/ (e.name = "SwapFee" /\ e.mu \in DOMAIN s.registry))
SwapObs(s, e, t) ==
  IF e.name = "LossLess"
  THEN [input |-> e.amt, burn |-> e.burn, mint |-> e.mint,
        rn |-> e.rn, rd |-> e.rd, sin |-> e.sin, sout |-> e.sout]
  ELSE LET reg == s.registry[e.mu] IN
       [input |-> e.amt,
        burn |-> s.supply[e.mu] - t.supply[e.mu],
        mint |-> t.supply[reg.to] - s.supply[reg.to],
        rn |-> reg.rn, rd |-> reg.rd,
        \* the decimal scales of the coins actually burned and minted (bank denoms
        \* are min units), whatever lookup the handler used
        sin |-> ScaleOfMinUnit(s, e.mu),
        sout |-> ScaleOfMinUnit(s, reg.to)]

C10_NoOverBurn(s, e, t) ==
  IsSwap(s, e) => LET o == SwapObs(s, e, t) IN Swap_NoOverBurn(o.input, o.burn, o.mint)
C10_Worth(s, e, t) ==
  IsSwap(s, e) => LET o == SwapObs(s, e, t) IN
                  Swap_Worth(o.burn, o.mint, o.rn, o.rd, o.sin, o.sout)
C10_ExactAtOne(s, e, t) ==
  IsSwap(s, e) => LET o == SwapObs(s, e, t) IN
                  Swap_ExactAtOne(o.burn, o.mint, o.rn, o.rd, o.sin, o.sout)
C10_Dust(s, e, t) ==
  IsSwap(s, e) => LET o == SwapObs(s, e, t) IN
                  Swap_Dust(o.input, o.burn, o.rn, o.rd, o.sin, o.sout)

(* on chain: the sender pays exactly the burn, the recipient gets exactly the
   mint (the response's fee_got), nobody else moves *)
C10_SwapSettle(s, e, t) ==
  (e.name = "SwapFee" /\ e.ok /\ e.mu \in DOMAIN s.registry) =>
    LET o == SwapObs(s, e, t)
        out == s.registry[e.mu].to
        rcpt == IF e.to = "" THEN e.who ELSE e.to
    IN /\ out # e.mu
       /\ s.bal[e.who][e.mu] - t.bal[e.who][e.mu] = o.burn
       /\ t.bal[rcpt][out] - s.bal[rcpt][out] = o.mint
       /\ e.mint = o.mint /\ e.burn = o.burn
       /\ OthersSame(s, t, e.mu, e.who)
       /\ OthersSame(s, t, out, rcpt)
       /\ \A d \in DOMAIN s.supply : (d \notin {e.mu, out}) => t.supply[d] = s.supply[d]

-----------------------------------------------------------------------------
(***************************************************************************)
(* HISTORY TWINS (official clauses): the sentences of C09 / C10 judged by   *)
(* what happened (ghost h before the step: hp; after: hq) instead of by the *)
(* module's own records.  A record that is silently overwritten, an index   *)
(* entry never written, a tally or a binding that is rewritten cannot make  *)
(* them vacuous or wrong on both sides.                                     *)
(***************************************************************************)
(* C09: a symbol and a min unit each identify at most one token for ever: an accepted Issue names
   a symbol and a min unit that no token of this history ever had *)
C09_IssueFresh(hp, e) ==
  IssueOK(e) => /\ e.sym \notin DOMAIN hp.hOwner /\ e.sym # STAKE
                /\ e.mu \notin DOMAIN hp.hMuSym /\ e.mu # STAKE

(* C09: only the current owner - the issuer, or the receiver of the last accepted hand-over -
   edits, mints, hands over; a token declared (or last edited to be) non-mintable never mints *)
C09_AuthorityH(hp, e) ==
  /\ (e.name \in {"Edit", "TransferOwner"} /\ e.ok) =>
       e.sym \in DOMAIN hp.hOwner /\ hp.hOwner[e.sym] = e.who
  /\ (e.name = "Mint" /\ e.ok) =>
       /\ e.mu \in DOMAIN hp.hMuSym
       /\ LET y == hp.hMuSym[e.mu] IN
          y \in DOMAIN hp.hOwner /\ hp.hOwner[y] = e.who /\ hp.hDecl[y].mintable

(* C09: through issue, mint, edit, burn the circulating amount stays within the DECLARED maximum
   (the accepted Issue's, the last accepted Edit's); an accepted Edit that names a maximum names
   one that is not below what circulates *)
HCirc(x, d) == x.supply[d.mu]
C09_CapH(s, e, t, hp, hq) ==
  /\ (e.name \in C09Msgs) =>
       \A y \in DOMAIN hq.hDecl :
         LET d == hq.hDecl[y] IN
         (d.capped /\ d.mu \in DOMAIN t.supply) =>
           IF y \in DOMAIN hp.hDecl /\ hp.hDecl[y].capped /\ d.mu \in DOMAIN s.supply
           THEN CapKeptW(HCirc(s, d), hp.hDecl[y].max, HCirc(t, d), d.max, Pow10(d.scale))
           ELSE CapW(HCirc(t, d), d.max, Pow10(d.scale))
  /\ (e.name = "Edit" /\ e.ok /\ e.max > 0) =>
       /\ e.sym \in DOMAIN hp.hDecl
       /\ LET d == hp.hDecl[e.sym] IN
          d.mu \in DOMAIN t.supply /\ CapW(HCirc(t, d), e.max, Pow10(d.scale))

(* C09: burned amounts are tallied exactly: the tally IS what the history started with plus the
   amounts of the accepted burns *)
C09_BurnedH(t, hq) ==
  \A m \in DOMAIN hq.hBurned \cup DOMAIN t.burned : Amt(t.burned, m) = Amt(hq.hBurned, m)

(* C09: the fee is split at the tax rate of the last accepted parameter change *)
C09_FeeH(s, e, t, hp) ==
  (e.name \in {"Issue", "Mint"} /\ e.ok) =>
    LET F == e.fee
        tax == t.bal[FEEP][STAKE] - s.bal[FEEP][STAKE]
    IN /\ tax * hp.hTax.den - F * hp.hTax.num < hp.hTax.den
       /\ F * hp.hTax.num - tax * hp.hTax.den < hp.hTax.den

(* C10: "the bound contract" is the one that appeared in the ledger when the coin's deployment was
   accepted - whatever the token record says now *)
C10_ToERC20H(s, e, t, hp) ==
  (e.name = "ToERC20" /\ e.ok) =>
    /\ e.mu \in DOMAIN hp.hContract
    /\ LET c == hp.hContract[e.mu] IN
       /\ c \in DOMAIN s.erc /\ c \in DOMAIN t.erc
       /\ t.erc[c][e.to] - s.erc[c][e.to] = e.amt
       /\ ErcOthersSame(s, t, c, e.to)
C10_FromERC20H(s, e, t, hp) ==
  (e.name = "FromERC20" /\ e.ok) =>
    /\ e.mu \in DOMAIN hp.hContract
    /\ LET c == hp.hContract[e.mu] IN
       /\ c \in DOMAIN s.erc /\ c \in DOMAIN t.erc
       /\ s.erc[c][e.who] - t.erc[c][e.who] = e.amt
       /\ ErcOthersSame(s, t, c, e.who)
C10_SumConstH(s, e, t, hp) ==
  (e.name \in ConvMsgs) =>
    \A m \in DOMAIN hp.hContract :
      LET c == hp.hContract[m] IN
      (c \in DOMAIN s.erc /\ c \in DOMAIN t.erc /\ m \in DOMAIN s.supply) =>
        t.supply[m] + ErcTotal(t, c) = s.supply[m] + ErcTotal(s, c)

(* the module's records say what the history says (diagnostic; the twins judge the consequences) *)
X09_RecordsAsHistory(t, hq) ==
  /\ DOMAIN t.tok = DOMAIN hq.hOwner /\ DOMAIN t.byMinUnit = DOMAIN hq.hMuSym
  /\ \A y \in DOMAIN t.tok \cap DOMAIN hq.hOwner :
       /\ t.tok[y].owner = hq.hOwner[y]
       /\ t.tok[y].minUnit = hq.hDecl[y].mu /\ t.tok[y].scale = hq.hDecl[y].scale
       /\ t.tok[y].mintable = hq.hDecl[y].mintable
       /\ (hq.hDecl[y].capped => t.tok[y].max = hq.hDecl[y].max)
  /\ \A m \in DOMAIN t.byMinUnit \cap DOMAIN hq.hMuSym : t.byMinUnit[m] = hq.hMuSym[m]
  /\ BoundAt(t) = DOMAIN hq.hContract
  /\ \A m \in BoundAt(t) \cap DOMAIN hq.hContract : ContractOf(t, m) = hq.hContract[m]
  /\ t.params.taxNum * hq.hTax.den = hq.hTax.num * t.params.taxDen

-----------------------------------------------------------------------------
(***************************************************************************)
(* Beyond the listed properties: DIAGNOSTIC clauses (X..).  They are        *)
(* evaluated like the others, on the model and on every real trace, but    *)
(* belong to no listed property: a failure is reported as a diagnostic.    *)
(***************************************************************************)
(* X09: per token, what entered - what left - the burned tally = supply, at
   every moment (so the TotalBurn query, which returns the tally, is
   consistent with the bank supply over time) *)
X09_SupplyLedger(t, g) ==
  \A m \in DOMAIN t.byMinUnit :
    t.supply[m] = g.inn[m] - g.out[m] - Amt(t.burned, m)

(* X09: the quoted fee is the tabulated one (symbol lengths 3..8) *)
X09_FeeQuote(s, e) ==
  /\ (e.name = "Issue" /\ LenKey(e.sym) \in DOMAIN s.feeq) => e.fee = s.feeq[LenKey(e.sym)]
  /\ (e.name = "Mint" /\ HasMinUnit(s, e.mu) /\ LenKey(s.byMinUnit[e.mu]) \in DOMAIN s.feeq) =>
       e.fee = MintFeeOf(s.feeq[LenKey(s.byMinUnit[e.mu])], s.params.mintNum, s.params.mintDen)

(* X10: a contract is bound to at most one token, and every bound contract exists *)
BoundContracts(t) ==
  [m \in {x \in DOMAIN t.byMinUnit \cup {STAKE} : ContractOf(t, x) # NoContract} |-> ContractOf(t, m)]
X10_ContractUnique(t) ==
  LET b == BoundContracts(t) IN
  /\ \A m1, m2 \in DOMAIN b : (b[m1] = b[m2]) => m1 = m2
  /\ \A m \in DOMAIN b : b[m] \in DOMAIN t.erc

(* X10: a deployment binds a NEW contract to the token of the named min unit
   and to nothing else, moves no value; bindings never change afterwards *)
X10_DeployBinds(s, e, t) ==
  /\ (e.name = "Deploy" /\ e.ok) =>
       /\ ContractOf(s, e.mu) = NoContract
       /\ ContractOf(t, e.mu) \notin DOMAIN s.erc /\ ContractOf(t, e.mu) \in DOMAIN t.erc
       /\ t.bal = s.bal /\ t.supply = s.supply
       /\ \A c \in DOMAIN s.erc : t.erc[c] = s.erc[c]
  /\ \A m \in DOMAIN s.byMinUnit \cup {STAKE} :
       (ContractOf(t, m) # ContractOf(s, m)) =>
         (e.name = "Deploy" /\ e.ok /\ e.mu = m /\ ContractOf(s, m) = NoContract)
  /\ (DOMAIN t.erc # DOMAIN s.erc) => (e.name = "Deploy" /\ e.ok)

(* X10: the hook ignores logs of unbound contracts and malformed logs; an
   upgrade touches nothing but the beacon's implementation *)
X10_HookIgnores(s, e, t) == (e.name = "Hook" /\ e.sym # "") => t = s
X10_Upgrade(s, e, t) ==
  /\ (e.name = "Upgrade") => t = [s EXCEPT !.impl = t.impl]
  /\ (e.name = "Upgrade" /\ e.ok) => t.impl = e.to
  /\ (t.impl # s.impl) => (e.name = "Upgrade" /\ e.ok)

(***************************************************************************)
(* Genesis at model level (C12): genesis.go ExportGenesis / InitGenesis,    *)
(* types/v1/genesis.go ValidateGenesis, types/v1/token.go Validate.        *)
(* Export = params, every token record (the native one included: here its  *)
(* contract binding), the burned coins.  Import validates, then AddToken   *)
(* for every token (symbol, min unit and contract must be unused; the      *)
(* min-unit index is REBUILT from the records), then the burned coins.     *)
(* Balances, supply and the ERC20 ledger belong to other modules' genesis. *)
(***************************************************************************)
ExportG(s) == [params |-> s.params, tokens |-> s.tok, native |-> s.native, burned |-> s.burned]

TokenValid(t) == t.max >= t.initial /\ t.scale <= 18      \* Token.Validate (names apart)
ValidateG(g) ==
  /\ g.params.taxNum >= 0 /\ g.params.taxNum <= g.params.taxDen
  /\ g.params.mintNum >= 0 /\ g.params.mintNum <= g.params.mintDen
  /\ g.params.baseFee >= 0
  /\ \A y \in DOMAIN g.tokens : TokenValid(g.tokens[y])
  /\ \A m \in DOMAIN g.burned : g.burned[m] >= 0

(* AddToken in any order succeeds iff min units and contracts are pairwise distinct *)
ImportAccepted(g) ==
  /\ ValidateG(g)
  /\ \A y1, y2 \in DOMAIN g.tokens :
       (y1 # y2) => /\ g.tokens[y1].minUnit # g.tokens[y2].minUnit
                    /\ (g.tokens[y1].contract # NoContract =>
                          /\ g.tokens[y1].contract # g.tokens[y2].contract
                          /\ g.tokens[y1].contract # g.native)
  /\ \A y \in DOMAIN g.tokens : g.tokens[y].minUnit # STAKE /\ y # STAKE

ImportG(g) ==
  [tok |-> g.tokens,
   byMinUnit |-> [m \in {g.tokens[y].minUnit : y \in DOMAIN g.tokens} |->
                    CHOOSE y \in DOMAIN g.tokens : g.tokens[y].minUnit = m],
   native |-> g.native, burned |-> g.burned, params |-> g.params]

(* known finding F12: after burns the owner may lower the maximum below the
   INITIAL supply (EditToken only requires max >= circulating supply), and
   Token.Validate refuses max < initial supply on import *)
F12Shape(s) == \E y \in DOMAIN s.tok : s.tok[y].max < s.tok[y].initial
X12_Token_Accepted(s) == ImportAccepted(ExportG(s))
X12_Token_Accepted_ModF12(s) == F12Shape(s) \/ X12_Token_Accepted(s)
X12_Token_RoundTrip(s) ==
  LET i == ImportG(ExportG(s)) IN
  /\ i.tok = s.tok /\ i.byMinUnit = s.byMinUnit /\ i.native = s.native
  /\ i.burned = s.burned /\ i.params = s.params

-----------------------------------------------------------------------------
(* Model-checking universe *)
CONSTANTS Owners, Symbols, Scales, Initials, Maxes, Amounts, EditMaxes, EditMint, MintTo, TransferTo,
          MaxTokens, InitStake, BaseFee, TaxNum, TaxDen, MintNum, MintDen, TaxNums,
          Acts, Prologue, PScaleA, PScaleB, ConvAmounts, ConvTo,
          RegIn, RegOut, RegRn, RegRd, SwapAmounts, MaxRej, Sample,
          InitIbc, DeployExtra, HookVariants, UpgradeTo

Denoms == MinUnitsC \cup {STAKE}
(* coins the genesis hands to every user: the IBC denoms and (driver cfg, when it
   lists them among the tracked denoms) plain coins that are no token's and can
   never be — the upper-case twin of a min unit, a coin shaped like a liquidity
   share, a coin of the HTLC module's cross-chain kind (reserved prefix htlt; its
   shape is otherwise a valid min unit) *)
OddFunded == {"MAA", "lpt-1", "htltmaa"}
FundedDenoms == IBCDenoms \cup OddFunded
Accts == Users \cup {TOK, FEEP}

Params0 == [taxNum |-> TaxNum, taxDen |-> TaxDen, mintNum |-> MintNum, mintDen |-> MintDen,
            baseFee |-> BaseFee, erc20 |-> TRUE, beacon |-> TRUE]

Registry0 == IF RegIn = "" THEN EmptyF
             ELSE (RegIn :> [to |-> RegOut, rn |-> RegRn, rd |-> RegRd])

Init0 ==
  [tok |-> EmptyF, byMinUnit |-> EmptyF, burned |-> EmptyF,
   bal |-> [a \in Accts |-> [d \in Denoms |->
              IF a \in Users /\ d = STAKE THEN InitStake
              ELSE IF a \in Users /\ d \in FundedDenoms THEN InitIbc ELSE 0]],
   supply |-> [d \in Denoms |-> IF d = STAKE THEN Cardinality(Users) * InitStake
                                 ELSE IF d \in FundedDenoms THEN Cardinality(Users) * InitIbc ELSE 0],
   params |-> Params0, erc |-> EmptyF, nonce |-> 0, registry |-> Registry0,
   native |-> NoContract, impl |-> "", feeq |-> FeeTable(BaseFee)]

Init == st = Init0 /\ ev = NoEv /\ gh = GhostInit(Init0) /\ hist = <<>>

(* fee quotes for 3-letter symbols: (ln 3/ln 3)^4 = 1.00 -> the base fee
   (at least 1); the mint fee is its truncated mint-ratio share *)
IssueFee(s) == s.feeq["3"]
MintFee(s) == MintFeeOf(IssueFee(s), s.params.mintNum, s.params.mintDen)

Step(e) ==
  LET r == Apply(st, e)
      e2 == [e EXCEPT !.ok = r.ok, !.panic = r.panic, !.burn = r.burn, !.mint = r.mint]
  IN /\ st' = r.st
     /\ ev' = e2
     /\ gh' = GhostStep(gh, st, e2, r.st)
     /\ hist' = IF RecordHist THEN Append(hist, e2) ELSE hist

(* A fixed prologue (C10 configs): two tokens, one bound to a contract.  It is
   part of every behaviour (not of Init) so that generated behaviours and
   counterexamples replay from the chain's genesis.  Prologue events are
   issues and deploys, so the number done is |tok| + nonce. *)
PrologueSeq ==
  IF Prologue = "erc"
  THEN << [NoEv EXCEPT !.name = "Issue", !.who = "u1", !.sym = "aaa", !.mu = "maa",
                       !.scale = PScaleA, !.initial = 3, !.max = 6, !.mintable = "true"],
          [NoEv EXCEPT !.name = "Issue", !.who = "u2", !.sym = "bbb", !.mu = "mbb",
                       !.scale = PScaleB, !.initial = 3, !.max = 90, !.mintable = "true"],
          [NoEv EXCEPT !.name = "Deploy", !.sym = "aaa", !.mu = "maa", !.scale = PScaleA] >>
  ELSE IF Prologue = "life"     \* one token bound to a contract (life-cycle config)
  THEN << [NoEv EXCEPT !.name = "Issue", !.who = "u1", !.sym = "aaa", !.mu = "maa",
                       !.scale = PScaleA, !.initial = 3, !.max = 6, !.mintable = "true"],
          [NoEv EXCEPT !.name = "Deploy", !.sym = "aaa", !.mu = "maa", !.scale = PScaleA] >>
  ELSE << >>
PIdx(s) == Cardinality(DOMAIN s.tok) + s.nonce
InPrologue == PIdx(st) < Len(PrologueSeq)
PrologueStep ==
  LET e == PrologueSeq[PIdx(st) + 1] IN
  Step(IF e.name = "Issue" THEN [e EXCEPT !.fee = IssueFee(st)] ELSE e)

On(a) == a \in Acts

(* Generator configs (Sample = TRUE) draw one random value per quantifier instead
   of enumerating the product of all argument sets at every step of a simulation;
   exhaustive configs (Sample = FALSE) enumerate. *)
Pick(S) == IF Sample /\ S # {} THEN {RandomElement(S)} ELSE S

(* NEGATIVE PROBING (Acts contains "Probe"; generator configs only).  Every
   message may then also name an identifier of the wrong kind in every field that
   takes one — the symbol of a token where its min unit is expected and the other
   way round, spellings that differ only in case, prefixes and extensions of valid
   names, reserved prefixes, names at and beyond the length limits, the fee denom,
   an IBC denom, a plain coin that is no token's — amounts 0 and 1, and receivers
   that are blocked, module accounts or no address at all.  The specification says
   what the code does today for each (normally: a rejection without effect). *)
RECURSIVE Rep(_, _)
Rep(c, n) == IF n = 0 THEN "" ELSE c \o Rep(c, n - 1)
Name64 == "q" \o Rep("a", 63)      \* longest valid symbol / min unit
Name65 == "q" \o Rep("a", 64)
OddNames == {"AAA", "Aaa", "aaA", "MAA", "mAA", "aa", "ma", "aaaa", "maaa", "ibc/x1", "lptaaa", "lpt-1",
             "htltmaa", "pegaaa", "tibcmaa", "ibcmaa", STAKE, "nope", "", "9aa", "a-a", Name64, Name65}
NOADDR == "notanaddr"
Probing == On("Probe")
ProbeOf(S) == IF Probing THEN Pick(S) ELSE {}
\* while probing, every quantifier draws ONE sensible value and ONE odd one: each
\* message type then has about the same (small) number of successors per step, so
\* the uniformly drawn tail visits all of them
PickP(S) == IF Probing THEN Pick(S) ELSE S
SymPool == PickP(DOMAIN st.tok) \cup ProbeOf(DOMAIN st.byMinUnit \cup OddNames)
MuPool == PickP(DOMAIN st.byMinUnit) \cup ProbeOf(DOMAIN st.tok \cup OddNames)
AmtPool(S) == Pick(S) \cup ProbeOf({0, 1})
ToPool(S) == Pick(S) \cup ProbeOf({TOK, FEEP, NOADDR, "", EXT})

Issue ==
  /\ On("Issue") /\ (Cardinality(DOMAIN st.tok) < MaxTokens \/ Probing)
  /\ \E who \in PickP(Owners), sym \in PickP(Symbols) \cup ProbeOf(DOMAIN st.byMinUnit \cup OddNames),
        \* (a min unit outside the tracked denoms must be one the code refuses: the
        \* balance sheet is a closed universe)
        mu \in PickP(MinUnitsC) \cup ProbeOf({x \in DOMAIN st.tok \cup OddNames : x \in Denoms \/ ~ValidMinUnit(x)}), sc \in Pick(Scales \cup (IF Probing THEN {19} ELSE {})),
        ini \in Pick(Initials), mx \in Pick(Maxes), mt \in Pick({"true", "false"}) :
       /\ ~(mx = 0 /\ mt = "true")      \* MaxUint64 is not representable
       /\ Step([NoEv EXCEPT !.name = "Issue", !.who = who, !.sym = sym, !.mu = mu, !.scale = sc,
                         !.initial = ini, !.max = mx, !.mintable = mt, !.fee = IssueFee(st)])
(* who acts: exhaustive configs enumerate the users; while probing, three draws
   out of four take an actor for whom the message can succeed (the token's owner,
   a holder of the coin), so that the body of a behaviour builds up state, and the
   fourth takes anybody (former owners, strangers, the EVM quirk accounts) *)
Biased(pref, S) ==
  IF ~Probing \/ ~Sample THEN S
  ELSE IF pref # {} /\ RandomElement(1..4) > 1 THEN Pick(pref) ELSE Pick(S)
OwnerOfSym(y) == IF y \in DOMAIN st.tok THEN {st.tok[y].owner} \cap Users ELSE {}
OwnerOfMu(m) == IF HasMinUnit(st, m) THEN {TokOf(st, m).owner} \cap Users ELSE {}
Holders(m) == IF m \in Denoms THEN {a \in Users : st.bal[a][m] > 0} ELSE {}
ErcHolders(m) == LET c == ContractOf(st, m) IN
                 IF c # NoContract /\ c \in DOMAIN st.erc THEN {a \in ErcAddrs(st) : st.erc[c][a] > 0} ELSE {}
\* amounts at the bounds the code compares with: what may still be minted (+1), a whole balance (+1)
RoomOf(m) == IF HasMinUnit(st, m) THEN TokOf(st, m).max * Pow10(TokOf(st, m).scale) - st.supply[m] ELSE 0
Near(v) == IF Probing THEN Pick({x \in {v, v + 1} : x > 0 /\ x < 100000}) ELSE {}
BalOf(a, m) == IF m \in Denoms /\ a \in DOMAIN st.bal THEN st.bal[a][m] ELSE 0
ErcOf(a, m) == IF a \in ErcHolders(m) THEN st.erc[ContractOf(st, m)][a] ELSE 0

Edit ==
  /\ On("Edit")
  /\ \E sym \in SymPool : \E who \in Biased(OwnerOfSym(sym), Users) \cup ProbeOf(Users), mx \in Pick(EditMaxes), mt \in Pick(EditMint) :
       Step([NoEv EXCEPT !.name = "Edit", !.who = who, !.sym = sym, !.max = mx, !.mintable = mt])
TransferOwner ==
  /\ On("TransferOwner")
  /\ \E sym \in SymPool : \E who \in Biased(OwnerOfSym(sym), Users) \cup ProbeOf(Users), to \in ToPool(TransferTo) :
       Step([NoEv EXCEPT !.name = "TransferOwner", !.who = who, !.sym = sym, !.to = to])
Mint ==
  /\ On("Mint")
  /\ \E mu \in MuPool : \E who \in Biased(OwnerOfMu(mu), Users), a \in AmtPool(Amounts) \cup Near(RoomOf(mu)),
                            to \in ToPool(MintTo) :
       Step([NoEv EXCEPT !.name = "Mint", !.who = who, !.mu = mu, !.amt = a, !.to = to,
                         !.fee = MintFee(st)])
Burn ==
  /\ On("Burn")
  /\ \E mu \in MuPool : \E who \in Biased(Holders(mu), Users) \cup ProbeOf(Users) :
       \E a \in AmtPool(Amounts) \cup Near(BalOf(who, mu)) :
         Step([NoEv EXCEPT !.name = "Burn", !.who = who, !.mu = mu, !.amt = a])
SwapFee ==
  /\ On("SwapFee")
  /\ \E mu \in PickP(DOMAIN st.registry) \cup ProbeOf(DOMAIN st.byMinUnit \cup DOMAIN st.tok \cup OddNames) :
       \E who \in Biased(Holders(mu), Users), a \in AmtPool(SwapAmounts), to \in ToPool(ConvTo \cup {""}) :
         Step([NoEv EXCEPT !.name = "SwapFee", !.who = who, !.mu = mu, !.amt = a, !.to = to])
Deploy ==
  /\ On("Deploy")
  /\ \/ \E mu \in PickP(DOMAIN st.byMinUnit) :
          Step([NoEv EXCEPT !.name = "Deploy", !.mu = mu, !.sym = st.byMinUnit[mu],
                            !.scale = TokOf(st, mu).scale])
     \* the native token, an IBC denom without a token, a name without anything
     \/ \E mu \in DeployExtra \ DOMAIN st.byMinUnit, sy \in Pick({"ibx", "aaa"}) :
          Step([NoEv EXCEPT !.name = "Deploy", !.mu = mu, !.sym = sy, !.scale = 0])
     \* probing: names of the wrong kind (ValidateERC20 admits capitals and slashes),
     \* scale 19, an EVM that reverts the creation
     \/ \E mu \in ProbeOf(DOMAIN st.byMinUnit \cup DOMAIN st.tok \cup OddNames \cup (IBCDenoms \cap MinUnitsC)),
           sy \in ProbeOf(DOMAIN st.tok \cup OddNames \cup {"ibx", "iBX"}), sc \in ProbeOf({0, 19}),
           q \in ProbeOf({"", QREVERT}) :
          Step([NoEv EXCEPT !.name = "Deploy", !.mu = mu, !.sym = sy, !.scale = sc, !.to = q])
Upgrade ==
  /\ On("Upgrade")
  /\ \E to \in Pick(UpgradeTo) \cup ProbeOf({"", NOADDR}) : Step([NoEv EXCEPT !.name = "Upgrade", !.to = to])
(* coins that can be converted: every token's, and the native one's once bound *)
ConvMus == PickP(DOMAIN st.byMinUnit \cup (IF st.native # NoContract THEN {STAKE} ELSE {}))
           \cup ProbeOf(DOMAIN st.tok \cup OddNames)
ToERC20 ==
  /\ On("ToERC20")
  /\ \E mu \in ConvMus : \E who \in Biased(Holders(mu), Users), to \in ToPool(ErcAddrs(st)) :
       \E a \in AmtPool(ConvAmounts) \cup Near(BalOf(who, mu)) :
         Step([NoEv EXCEPT !.name = "ToERC20", !.who = who, !.to = to, !.mu = mu, !.amt = a])
FromERC20 ==
  /\ On("FromERC20")
  /\ \E mu \in ConvMus : \E who \in Biased(ErcHolders(mu) \cap Users, Users), to \in ToPool(ConvTo) :
       \E a \in AmtPool(ConvAmounts) \cup Near(ErcOf(who, mu)) :
         Step([NoEv EXCEPT !.name = "FromERC20", !.who = who, !.to = to, !.mu = mu, !.amt = a])
Hook ==
  /\ On("Hook")
  /\ \/ \E mu \in ConvMus : \E who \in Biased(ErcHolders(mu), ErcAddrs(st)), to \in ToPool(ConvTo) :
          \E a \in AmtPool(ConvAmounts) \cup Near(ErcOf(who, mu)) :
            Step([NoEv EXCEPT !.name = "Hook", !.who = who, !.to = to, !.mu = mu, !.amt = a])
     \/ \E v \in Pick(HookVariants), mu \in PickP(DOMAIN st.byMinUnit) :
          Step([NoEv EXCEPT !.name = "Hook", !.sym = v, !.who = EXT, !.to = "u1", !.mu = mu, !.amt = 1])
SetParams ==
  /\ On("SetParams")
  /\ \E b \in Pick(BOOLEAN), n \in Pick(TaxNums) :
       /\ (b # st.params.erc20 \/ n # st.params.taxNum)
       /\ Step([NoEv EXCEPT !.name = "SetParams",
                            !.p = [st.params EXCEPT !.erc20 = b, !.taxNum = n]])

Next == IF InPrologue THEN PrologueStep
        ELSE Issue \/ Edit \/ TransferOwner \/ Mint \/ Burn \/ SwapFee \/ Deploy
             \/ ToERC20 \/ FromERC20 \/ Hook \/ SetParams \/ Upgrade

Spec == Init /\ [][Next]_vars

(* Generator *)
Rejects(h) == Cardinality({i \in DOMAIN h : ~h[i].ok})
GenNext == Next /\ (ev'.ok \/ Rejects(hist) < MaxRej)
GenSpec == Init /\ [][GenNext]_vars
GenDepth == atoi(IOEnv.GEN_DEPTH)
(* Second generator mode (negative probing): like GenNext, but the last ProbeTail
   events of every generated behaviour must be events this specification REJECTS
   — every behaviour ends by probing the deep state its body has built with
   operations that must fail.  A rejected event changes nothing, so all the probes
   of one behaviour meet the same state; if the code wrongly accepts one, the
   following probes and the driver's epilogue (computed from the chain's real
   state) exercise the consequences, and the clauses judge them. *)
ProbeTail == 4
AdminEvs(h) == Cardinality({i \in DOMAIN h : h[i].name \in {"SetParams", "Upgrade"}})
GenNextP == Next /\ (IF Len(hist) >= GenDepth - ProbeTail THEN ~ev'.ok
                     \* the body builds state: events without effect are left out, rejections
                     \* and parameter changes / upgrades (always possible) are kept rare
                     ELSE /\ (st' # st \/ (~ev'.ok /\ Rejects(hist) < MaxRej))
                          /\ (ev'.name \in {"SetParams", "Upgrade"} => AdminEvs(hist) < 2))
GenSpecP == Init /\ [][GenNextP]_vars
GenConstraint ==
  /\ Len(hist) <= GenDepth
  /\ (Len(hist) = GenDepth) => PrintT(<<"BEHAVIOUR", ToJson(hist)>>)

-----------------------------------------------------------------------------
(***************************************************************************)
(* C10 (i): the finite LossLessSwap table.  MathSpec has one transition     *)
(* per representable row from the initial state; the clauses are           *)
(* invariants over the row's event.  MathGenSpec emits the same rows, in    *)
(* chunks of GenDepth events, as behaviours for the harness (which calls   *)
(* the real Go function on every row).                                     *)
(***************************************************************************)
CONSTANTS MathMaxIn, MathScales

MathRatioSeq == << <<1, 2>>, <<1, 1>>, <<3, 2>>, <<2, 1>>, <<10, 1>>,
                   <<3, 10>>, <<33, 100>>, <<5, 4>> >>
MathRatios == Range(MathRatioSeq)

RowEv(input, rn, rd, sIn, sOut) ==
  [NoEv EXCEPT !.name = "LossLess", !.amt = input, !.rn = rn, !.rd = rd,
               !.sin = sIn, !.sout = sOut]

MathRows == {<<i, r, a, b>> : i \in 0..MathMaxIn, r \in MathRatios, a \in MathScales, b \in MathScales}
MathFit == {x \in MathRows : RowFits(x[1], x[2][1], x[2][2], x[3], x[4])}

MathNext ==
  /\ ev.name = "Init"
  /\ \E x \in MathFit : Step(RowEv(x[1], x[2][1], x[2][2], x[3], x[4]))
MathSpec == Init /\ [][MathNext]_vars
MathView == ev

IsRow == ev.name = "LossLess" /\ ev.ok
Inv_Math_Exact ==
  IsRow => LossLessRow(ev.amt, ev.rn, ev.rd, ev.sin, ev.sout).exact
Inv_Math_NoOverBurn == IsRow => Swap_NoOverBurn(ev.amt, ev.burn, ev.mint)
Inv_Math_Worth == IsRow => Swap_Worth(ev.burn, ev.mint, ev.rn, ev.rd, ev.sin, ev.sout)
Inv_Math_ExactAtOne == IsRow => Swap_ExactAtOne(ev.burn, ev.mint, ev.rn, ev.rd, ev.sin, ev.sout)
Inv_Math_Dust == IsRow => Swap_Dust(ev.amt, ev.burn, ev.rn, ev.rd, ev.sin, ev.sout)
(* modulo finding F6 (known_findings.json) *)
RowF6 == LossLessWhy(ev.amt, ev.rn, ev.rd, ev.sin, ev.sout) = "f6_giveback"
Inv_Math_NoOverBurn_ModF6 == Inv_Math_NoOverBurn \/ RowF6
Inv_Math_Worth_ModF6 == Inv_Math_Worth \/ RowF6
Inv_Math_Dust_ModF6 == Inv_Math_Dust \/ RowF6
Inv_Math_Report ==
  (ev.name = "Init") =>
    PrintT(<<"MATH-ROWS", Cardinality(MathFit), Cardinality(MathRows) - Cardinality(MathFit),
             Cardinality({x \in MathFit :
                LossLessWhy(x[1], x[2][1], x[2][2], x[3], x[4]) = "f6_giveback"})>>)

(* generator: row number -> row, deterministic order *)
NRat == Len(MathRatioSeq)
NSc == Cardinality(MathScales)
ScSeq == LET RECURSIVE S(_) S(X) == IF X = {} THEN <<>> ELSE LET m == SetMin(X) IN <<m>> \o S(X \ {m})
         IN S(MathScales)
MathTotal == (MathMaxIn + 1) * NRat * NSc * NSc
RowAt(i) ==
  LET b == i % NSc
      a == (i \div NSc) % NSc
      r == (i \div (NSc * NSc)) % NRat
      inp == i \div (NSc * NSc * NRat)
  IN <<inp, MathRatioSeq[r + 1], ScSeq[a + 1], ScSeq[b + 1]>>
MathChunks == (MathTotal + GenDepth - 1) \div GenDepth

MathGenInit ==
  /\ st = Init0 /\ ev = NoEv /\ hist = <<>>
  /\ \E c \in 0..(MathChunks - 1) : gh = [chunk |-> c]
MathGenNext ==
  /\ Len(hist) < GenDepth
  /\ LET i == gh.chunk * GenDepth + Len(hist)
         x == RowAt(i)
         fits == i < MathTotal /\ RowFits(x[1], x[2][1], x[2][2], x[3], x[4])
         e == IF fits THEN RowEv(x[1], x[2][1], x[2][2], x[3], x[4])
              ELSE [NoEv EXCEPT !.name = "Skip"]
         r == Apply(st, e)
         e2 == [e EXCEPT !.ok = r.ok, !.panic = r.panic, !.burn = r.burn, !.mint = r.mint]
     IN /\ ev' = e2 /\ hist' = Append(hist, e2)
        /\ UNCHANGED <<st, gh>>
MathGenSpec == MathGenInit /\ [][MathGenNext]_vars

-----------------------------------------------------------------------------
(* Clauses in checkable form *)
(* TLC does not re-evaluate a state invariant on a state whose VIEW value it has
   already seen, and the exhaustive configs use VIEW = st: clauses that read ev
   or gh are therefore stated as action properties (evaluated on every
   transition).  Inv_C09_Identity is for configs without a VIEW only. *)
Inv_C09_Identity == C09_IdentityState(st, gh)
Act_C09_IdentityGh == [][C09_IdentityState(st', gh')]_vars
Act_C09_Identity == [][C09_IdentityStep(st, st')]_vars
Act_C09_Authority == [][C09_Authority(st, ev', st')]_vars
Act_C09_Cap == [][C09_Cap(st, ev', st')]_vars
(* the same modulo known finding F5: EditToken compares the new maximum with
   floor(supply / 10^scale).  Any other way to break the cap is still a
   violation of the design. *)
Act_C09_Cap_ModF5 ==
  [][C09_Cap(st, ev', st') \/ Apply(st, ev').why = "f5_edit_floor"]_vars
Act_C09_Burned == [][C09_Burned(st, ev', st')]_vars
(* history twins *)
Act_C09_IssueFresh == [][C09_IssueFresh(gh.h, ev')]_vars
Act_C09_AuthorityH == [][C09_AuthorityH(gh.h, ev')]_vars
Act_C09_CapH == [][C09_CapH(st, ev', st', gh.h, gh'.h)]_vars
Act_C09_Cap_ModF5H ==
  [][C09_CapH(st, ev', st', gh.h, gh'.h) \/ Apply(st, ev').why = "f5_edit_floor"]_vars
Act_C09_BurnedH == [][C09_BurnedH(st', gh'.h)]_vars
Act_C09_FeeH == [][C09_FeeH(st, ev', st', gh.h)]_vars
Act_C10_ToERC20H == [][C10_ToERC20H(st, ev', st', gh.h)]_vars
Act_C10_FromERC20H == [][C10_FromERC20H(st, ev', st', gh.h)]_vars
Act_C10_SumConstH == [][C10_SumConstH(st, ev', st', gh.h)]_vars
Act_X09_RecordsAsHistory == [][X09_RecordsAsHistory(st', gh'.h)]_vars
Act_X09_SupplyLedger == [][X09_SupplyLedger(st', gh')]_vars
Act_X09_FeeQuote == [][X09_FeeQuote(st, ev')]_vars
Act_X10_DeployBinds == [][X10_DeployBinds(st, ev', st')]_vars
Act_X10_HookIgnores == [][X10_HookIgnores(st, ev', st')]_vars
Act_X10_Upgrade == [][X10_Upgrade(st, ev', st')]_vars
Inv_X10_ContractUnique == X10_ContractUnique(st)
Inv_X12_Token_Accepted == X12_Token_Accepted(st)
Inv_X12_Token_Accepted_ModF12 == X12_Token_Accepted_ModF12(st)
Inv_X12_Token_RoundTrip == X12_Token_RoundTrip(st)
Act_C09_Fee == [][C09_Fee(st, ev', st')]_vars
Act_Rejected_NoEffect == [][Rejected_NoEffect(st, ev', st')]_vars
Act_C10_ToERC20 == [][C10_ToERC20(st, ev', st')]_vars
Act_C10_FromERC20 == [][C10_FromERC20(st, ev', st')]_vars
Act_C10_Hook == [][C10_Hook(st, ev', st')]_vars
Act_C10_SumConst == [][C10_SumConst(st, ev', st')]_vars
Act_C10_FailAtomic == [][C10_FailAtomic(st, ev', st')]_vars
Act_C10_SwapSettle == [][C10_SwapSettle(st, ev', st')]_vars
Act_C10_ExactAtOne == [][C10_ExactAtOne(st, ev', st')]_vars
F6Step == Apply(st, ev').why = "f6_giveback"
Act_C10_NoOverBurn_ModF6 == [][C10_NoOverBurn(st, ev', st') \/ F6Step]_vars
Act_C10_Worth_ModF6 == [][C10_Worth(st, ev', st') \/ F6Step]_vars
Act_C10_Dust_ModF6 == [][C10_Dust(st, ev', st') \/ F6Step]_vars
Act_C10_NoOverBurn == [][C10_NoOverBurn(st, ev', st')]_vars
Act_C10_Worth == [][C10_Worth(st, ev', st')]_vars
Act_C10_Dust == [][C10_Dust(st, ev', st')]_vars

View == st
=============================================================================
