SPECIFICATION Spec
CONSTANTS
  Users = {"u1"}
  Provs = {"p1", "p2"}
  RecordHist = FALSE
  MaxH = 5
  MaxFeeds = 1
  FeedNames = {"btc-stake"}
  Creators = {"u1"}
  Aggs = {"min"}
  Limits = {1}
  ProvLists <- ProvLists1Def
  Thresholds = {1}
  Caps = {12}
  Freqs = {1}
  Xs <- XsDef2
  Prices <- PricesDef
  Funds = 50
  MaxTimeout = 1
  TaxNum = 1
  TaxDen = 10
  MaxEdits = 0
  DTs = {1, 301}
  EditTFs = {}
  EditCaps = {}
  MaxCalls = 2
  Sends = {}
VIEW View
INVARIANTS
  Inv_C17_StateMirror
  Inv_Conserved
PROPERTIES
  Act_C17_Append
  Act_C17_Aggregate
  Act_C17_History
  Act_Rejected_NoEffect
  Act_X17_PriceService
  Act_X17_RateGate
CHECK_DEADLOCK FALSE
