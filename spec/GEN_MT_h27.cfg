SPECIFICATION GenSpec
CONSTANTS
  Users = {"u1", "u2", "u3"}
  Issuers = {"u1", "u2"}
  MaxD = 2
  MaxM = 3
  MaxU = 536870911
  Amounts = {0, 1, 2, 5, 134217727, 134217728, 134217729, 268435453, 402653181, 536870906, 536870911}
  DataVals = {"a", "b"}
  RecordHist = TRUE
CONSTRAINT GenConstraint
CHECK_DEADLOCK FALSE
