SPECIFICATION GenSpec
CONSTANTS
  Users = {"u1", "u2", "u3"}
  MinUnitsC = {"maa", "mbb"}
  RecordHist = TRUE
  Owners = {"u1", "u2"}
  Symbols = {"aaa", "bbb", "maa"}
  Scales = {0, 1, 2}
  Initials = {0, 1, 2}
  Maxes = {0, 2, 3, 6}
  Amounts = {1, 5, 10, 15, 100}
  EditMaxes = {0, 1, 2, 3}
  EditMint = {"", "true", "false"}
  MintTo = {"", "u3", "feepool"}
  TransferTo = {"u1", "u2", "u3", "feepool"}
  MaxTokens = 2
  InitStake = 40
  BaseFee = 5
  TaxNum = 2
  TaxDen = 5
  MintNum = 1
  MintDen = 2
  TaxNums = {0, 2, 5}
  Acts = {"Issue", "Edit", "TransferOwner", "Mint", "Burn", "SetParams"}
  Prologue = "none"
  PScaleA = 1
  PScaleB = 0
  ConvAmounts = {}
  ConvTo = {}
  RegIn = ""
  RegOut = ""
  RegRn = 1
  RegRd = 1
  SwapAmounts = {}
  MaxRej = 4
  Sample = TRUE
  InitIbc = 0
  DeployExtra = {}
  HookVariants = {}
  UpgradeTo = {}
  MathMaxIn = 0
  MathScales = {0}
CONSTRAINT GenConstraint
CHECK_DEADLOCK FALSE
