----------------------------- MODULE MTTrace -----------------------------
(***************************************************************************)
(* Validation of traces recorded from the real mt module against MT.tla.   *)
(* One ndjson line per event: {"ev": <event+result>, "st": <projected      *)
(* abstract state after the event>}; an "Init" event starts a new trace.   *)
(*   monitor: every property clause on (pre, ev, st) -> CLAUSE-FAIL lines  *)
(*   strict:  Apply(pre, ev) vs logged result and state -> DRIFT           *)
(***************************************************************************)
EXTENDS MT

VARIABLES l, pre, obs, drift, driftAt
tvars == <<st, ev, gh, hist, l, pre, obs, drift, driftAt>>

Trace == ndJsonDeserialize(IOEnv.TRACE_FILE)

FromLog(r) ==
  [maxU |-> r.maxU, seqD |-> r.seqD, seqM |-> r.seqM, cls |-> r.cls, mts |-> r.mts,
   supC |-> r.supC, bal |-> r.bal]

(* base / hunit: the history's amount map (harness): a real amount a * 2^base + v is
   logged as a' * hunit + v *)
ObsOf(r) == [inexact |-> r.inexact, invBroken |-> r.invBroken, base |-> r.base, hunit |-> r.hunit]

TraceInit ==
  /\ Trace[1].ev.name = "Init"
  /\ st = FromLog(Trace[1].st) /\ pre = FromLog(Trace[1].st)
  /\ obs = ObsOf(Trace[1].st)
  /\ ev = Trace[1].ev /\ gh = GhostOf(FromLog(Trace[1].st)) /\ hist = <<>>
  /\ l = 2 /\ drift = 0 /\ driftAt = 0

Predicted(s, e) ==
  LET r == Apply(s, e) IN [st |-> r.st, ok |-> r.ok, panic |-> r.panic, gen |-> r.gen]

Observed(e, t) == [st |-> t, ok |-> e.ok, panic |-> e.panic, gen |-> e.gen]

TraceNext ==
  /\ l <= Len(Trace)
  /\ LET e == Trace[l].ev
         t == FromLog(Trace[l].st)
     IN /\ ev' = e /\ st' = t /\ obs' = ObsOf(Trace[l].st)
        /\ IF e.name = "Init"
           THEN /\ gh' = GhostOf(t) /\ pre' = t
                /\ UNCHANGED <<drift, driftAt>>
           ELSE /\ gh' = GhostStep(gh, st, e, t) /\ pre' = st
                /\ LET d == Predicted(st, e) # Observed(e, t) IN
                   /\ drift' = drift + (IF d THEN 1 ELSE 0)
                   /\ driftAt' = IF d /\ driftAt = 0 THEN l ELSE driftAt
  /\ l' = l + 1
  /\ UNCHANGED hist

TraceSpec == TraceInit /\ [][TraceNext]_tvars

-----------------------------------------------------------------------------
(* every logged amount was of the form a * 2^base + v with |v| < hunit/2 (and, for
   bases below 2^53, a in one of the two representable zones) *)
Scale_Exact == obs.inexact = 0
(* the module's registered invariant (mt "supply") *)
Crisis_Invariant == ~obs.invBroken

Clauses ==
  [C15_Sum |-> C15_Sum(st),
   C15_Transfer |-> C15_Transfer(pre, ev, st),
   C15_Burn |-> C15_Burn(pre, ev, st),
   C15_Range |-> C15_Range(pre, ev, st),
   C15_Authority |-> C15_Authority(pre, ev, st),
   C15_FreshIds |-> C15_FreshIds(pre, ev, st, gh),
   Rejected_NoEffect |-> Rejected_NoEffect(pre, ev, st),
   X15_Counters |-> X15_Counters(st),
   X15_Records |-> X15_Records(pre, ev, st),
   X15_Fidelity |-> X15_Fidelity(pre, ev, st),
   X15_ScaleExact |-> Scale_Exact,
   X15_CrisisInvariant |-> Crisis_Invariant]

Failing == IF ev.name = "Init" THEN {} ELSE {c \in DOMAIN Clauses : ~Clauses[c]}

Monitor == Failing = {} \/ PrintT(<<"CLAUSE-FAIL", l - 1, Failing, Apply(pre, ev).why>>)

(* antecedent counters (vacuity) *)
IsOp(n) == ev.name = n
Big == obs.hunit - 1    \* an amount of at least one unit of the history's base 2^base
BaseOp(b, n) == obs.base = b /\ IsOp(n) /\ ev.ok /\ ev.amt > Big
BaseNames == {"base31", "base32", "base53", "base62", "base63"}
BaseNum(c) == CASE c = "base31" -> 31 [] c = "base32" -> 32 [] c = "base53" -> 53
                [] c = "base62" -> 62 [] c = "base63" -> 63
IsOwner == HasDenom(pre, ev.cls) /\ pre.cls[ev.cls].owner = ev.who
IsStranger == HasDenom(pre, ev.cls) /\ pre.cls[ev.cls].owner # ev.who
Exercised ==
  IF ev.name \in {"Init", "EndBlock"} THEN {} ELSE
  {c \in {"issue_ok", "mint_new_ok", "mint_more_ok", "mint_stranger_rej", "mint_overflow_rej",
          "mint_to_max", "mint_big", "edit_ok", "edit_keep", "edit_stranger_rej",
          "transfer_ok", "transfer_self", "transfer_insufficient_rej", "transfer_big", "transfer_all",
          "burn_ok", "burn_insufficient_rej", "burn_to_zero", "burn_big",
          "handover_ok", "handover_stranger_rej", "old_owner_mint_rej", "new_owner_mint_ok", "reject",
          "base31_mint", "base31_transfer", "base31_burn", "base31_overflow_rej",
          "base32_mint", "base32_transfer", "base32_burn", "base32_overflow_rej",
          "base53_mint", "base53_transfer", "base53_burn", "base53_overflow_rej",
          "base62_mint", "base62_transfer", "base62_burn", "base62_overflow_rej",
          "base63_mint", "base63_transfer", "base63_burn", "base63_overflow_rej"} :
     CASE c = "issue_ok" -> IsOp("IssueDenom") /\ ev.ok
       [] c = "mint_new_ok" -> IsOp("MintMT") /\ ev.ok /\ ev.id = ""
       [] c = "mint_more_ok" -> IsOp("MintMT") /\ ev.ok /\ ev.id # ""
       [] c = "mint_stranger_rej" -> IsOp("MintMT") /\ ~ev.ok /\ IsStranger /\ ev.amt > 0
       [] c = "mint_overflow_rej" -> IsOp("MintMT") /\ ~ev.ok /\ IsOwner /\ HasMT(pre, ev.cls, ev.id)
                                      /\ ev.amt > 0 /\ pre.maxU - SupOf(pre, ev.cls, ev.id) < ev.amt
       [] c = "mint_to_max" -> IsOp("MintMT") /\ ev.ok /\ ev.id # "" /\ SupOf(st, ev.cls, ev.id) = st.maxU
       [] c = "mint_big" -> IsOp("MintMT") /\ ev.ok /\ ev.amt > Big
       [] c = "edit_ok" -> IsOp("EditMT") /\ ev.ok /\ ev.data # KEEP
       [] c = "edit_keep" -> IsOp("EditMT") /\ ev.ok /\ ev.data = KEEP
       [] c = "edit_stranger_rej" -> IsOp("EditMT") /\ ~ev.ok /\ IsStranger /\ HasMT(pre, ev.cls, ev.id)
       [] c = "transfer_ok" -> IsOp("TransferMT") /\ ev.ok /\ ev.to # ev.who
       [] c = "transfer_self" -> IsOp("TransferMT") /\ ev.ok /\ ev.to = ev.who
       [] c = "transfer_insufficient_rej" -> IsOp("TransferMT") /\ ~ev.ok /\ HasMT(pre, ev.cls, ev.id)
                                              /\ ev.amt > BalOf(pre, ev.who, ev.cls, ev.id)
       [] c = "transfer_big" -> IsOp("TransferMT") /\ ev.ok /\ ev.amt > Big
       [] c = "transfer_all" -> IsOp("TransferMT") /\ ev.ok /\ ev.amt = BalOf(pre, ev.who, ev.cls, ev.id)
       [] c = "burn_ok" -> IsOp("BurnMT") /\ ev.ok
       [] c = "burn_insufficient_rej" -> IsOp("BurnMT") /\ ~ev.ok /\ HasMT(pre, ev.cls, ev.id)
                                          /\ ev.amt > BalOf(pre, ev.who, ev.cls, ev.id)
       [] c = "burn_to_zero" -> IsOp("BurnMT") /\ ev.ok /\ SupOf(st, ev.cls, ev.id) = 0
       [] c = "burn_big" -> IsOp("BurnMT") /\ ev.ok /\ ev.amt > Big
       [] c = "handover_ok" -> IsOp("TransferDenom") /\ ev.ok
       [] c = "handover_stranger_rej" -> IsOp("TransferDenom") /\ ~ev.ok /\ IsStranger
       [] c = "old_owner_mint_rej" -> IsOp("MintMT") /\ ~ev.ok /\ IsStranger /\ ev.cls \in gh.handed
       [] c = "new_owner_mint_ok" -> IsOp("MintMT") /\ ev.ok /\ ev.cls \in gh.handed
       [] c = "reject" -> ~ev.ok
       \* magnitude strata: operations with amounts >= 2^base, per base
       [] \E b \in BaseNames : c = b \o "_mint" ->
            \E b \in BaseNames : c = b \o "_mint" /\ BaseOp(BaseNum(b), "MintMT")
       [] \E b \in BaseNames : c = b \o "_transfer" ->
            \E b \in BaseNames : c = b \o "_transfer" /\ BaseOp(BaseNum(b), "TransferMT") /\ ev.to # ev.who
       [] \E b \in BaseNames : c = b \o "_burn" ->
            \E b \in BaseNames : c = b \o "_burn" /\ BaseOp(BaseNum(b), "BurnMT")
       [] \E b \in BaseNames : c = b \o "_overflow_rej" ->
            \E b \in BaseNames : c = b \o "_overflow_rej" /\ obs.base = BaseNum(b)
               /\ IsOp("MintMT") /\ ~ev.ok /\ IsOwner /\ HasMT(pre, ev.cls, ev.id)
               /\ ev.amt > 0 /\ pre.maxU - SupOf(pre, ev.cls, ev.id) < ev.amt}
Coverage == Exercised = {} \/ PrintT(<<"EXERCISED", Exercised>>)

Report == (l = Len(Trace) + 1) => PrintT(<<"TRACE-END", Len(Trace), drift, driftAt>>)

DriftReport == (drift > 0 /\ driftAt = l - 1) =>
  PrintT(<<"DRIFT", driftAt, ev.name, ev>>)

TraceAccepted == TLCGet("stats").diameter = Len(Trace)

Alias == [l |-> l, ev |-> ev]
=============================================================================
