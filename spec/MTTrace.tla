----------------------------- MODULE MTTrace -----------------------------
(***************************************************************************)
(* Validation of traces recorded from the real mt module against MT.tla.   *)
(* One ndjson line per event: {"ev": <event+result>, "st": <projected      *)
(* abstract state after the event>}; an "Init" event starts a new trace.   *)
(*   monitor: every property clause on (pre, ev, st) -> CLAUSE-FAIL lines  *)
(*   strict:  Apply(pre, ev) vs logged result and state -> DRIFT           *)
(***************************************************************************)
EXTENDS MT

(* pgh = the ghosts before the last event (the history's ledger C15_HistAuthority judges it by) *)
VARIABLES l, pre, pgh, obs, drift, driftAt
tvars == <<st, ev, gh, hist, l, pre, pgh, obs, drift, driftAt>>

Trace == ndJsonDeserialize(IOEnv.TRACE_FILE)

FromLog(r) ==
  [maxU |-> r.maxU, seqD |-> r.seqD, seqM |-> r.seqM, cls |-> r.cls, mts |-> r.mts,
   supC |-> r.supC, bal |-> r.bal]

(* base / hunit: the history's amount map (harness): a real amount a * 2^base + v is
   logged as a' * hunit + v *)
SetOf(sq) == {sq[i] : i \in DOMAIN sq}
ObsOf(r) == [inexact |-> r.inexact, invBroken |-> r.invBroken, base |-> r.base, hunit |-> r.hunit,
             raw |-> [cls |-> SetOf(r.raw.cls), mts |-> [c \in DOMAIN r.raw.mts |-> SetOf(r.raw.mts[c])],
                      sup |-> r.raw.sup, bal |-> r.raw.bal],
             q |-> r.q]

TraceInit ==
  /\ Trace[1].ev.name = "Init"
  /\ st = FromLog(Trace[1].st) /\ pre = FromLog(Trace[1].st)
  /\ obs = ObsOf(Trace[1].st)
  /\ ev = Trace[1].ev /\ gh = GhostOf(FromLog(Trace[1].st)) /\ pgh = GhostOf(FromLog(Trace[1].st)) /\ hist = <<>>
  /\ l = 2 /\ drift = 0 /\ driftAt = 0

Predicted(s, e) ==
  LET r == Apply(s, e) IN [st |-> r.st, ok |-> r.ok, panic |-> r.panic, gen |-> r.gen]

Observed(e, t) == [st |-> t, ok |-> e.ok, panic |-> e.panic, gen |-> e.gen]

TraceNext ==
  /\ l <= Len(Trace)
  /\ LET e == Trace[l].ev
         t == FromLog(Trace[l].st)
     IN /\ ev' = e /\ st' = t /\ obs' = ObsOf(Trace[l].st)
        /\ IF e.name = "Init"
           THEN /\ gh' = GhostOf(t) /\ pgh' = GhostOf(t) /\ pre' = t
                /\ UNCHANGED <<drift, driftAt>>
           ELSE /\ gh' = CovStep(gh, st, e, t) /\ pgh' = gh /\ pre' = st
                /\ LET d == Predicted(st, e) # Observed(e, t) IN
                   /\ drift' = drift + (IF d THEN 1 ELSE 0)
                   /\ driftAt' = IF d /\ driftAt = 0 THEN l ELSE driftAt
  /\ l' = l + 1
  /\ UNCHANGED hist

TraceSpec == TraceInit /\ [][TraceNext]_tvars

-----------------------------------------------------------------------------
(* every logged amount was of the form a * 2^base + v with |v| < hunit/2 (and, for
   bases below 2^53, a in one of the two representable zones) *)
Scale_Exact == obs.inexact = 0
(* the module's registered invariant (mt "supply") *)
Crisis_Invariant == ~obs.invBroken

Clauses ==
  [C15_Sum |-> C15_Sum(st),
   C15_Transfer |-> C15_Transfer(pre, ev, st),
   C15_Burn |-> C15_Burn(pre, ev, st),
   C15_Range |-> C15_Range(pre, ev, st),
   C15_Authority |-> C15_Authority(pre, ev, st),
   C15_FreshIds |-> C15_FreshIds(pre, ev, st, gh),
   Rejected_NoEffect |-> Rejected_NoEffect(pre, ev, st),
   C15_StoreSum |-> C15_StoreSum(obs.raw),
   C15_Reported |-> C15_Reported(st, obs.raw, obs.q),
   C15_HistAuthority |-> C15_HistAuthority(ev, pgh),
   C15_HistOwner |-> C15_HistOwner(st, gh),
   X15_ReadBack |-> X15_ReadBack(st, obs.raw, obs.q),
   X15_Counters |-> X15_Counters(st),
   X15_Records |-> X15_Records(pre, ev, st),
   X15_Fidelity |-> X15_Fidelity(pre, ev, st),
   X15_ScaleExact |-> Scale_Exact,
   X15_CrisisInvariant |-> Crisis_Invariant]

Failing == IF ev.name = "Init" THEN {} ELSE {c \in DOMAIN Clauses : ~Clauses[c]}

Monitor == Failing = {} \/ PrintT(<<"CLAUSE-FAIL", l - 1, Failing, Apply(pre, ev).why>>)

(* antecedent counters (vacuity) *)
IsOp(n) == ev.name = n
Big == obs.hunit - 1    \* an amount of at least one unit of the history's base 2^base
BaseOp(b, n) == obs.base = b /\ IsOp(n) /\ ev.ok /\ ev.amt > Big
BaseNames == {"base31", "base32", "base53", "base62", "base63"}
BaseNum(c) == CASE c = "base31" -> 31 [] c = "base32" -> 32 [] c = "base53" -> 53
                [] c = "base62" -> 62 [] c = "base63" -> 63
IsOwner == HasDenom(pre, ev.cls) /\ pre.cls[ev.cls].owner = ev.who
IsStranger == HasDenom(pre, ev.cls) /\ pre.cls[ev.cls].owner # ev.who
(* negative probing / unusual inputs (round 7) *)
Rej(n) == IsOp(n) /\ ~ev.ok
Acc(n) == IsOp(n) /\ ev.ok
Plain == ev.form = ""
PreHasMT == HasMT(pre, ev.cls, ev.id)
PreBal(a) == BalOf(pre, a, ev.cls, ev.id)
Holders == {a \in UsersOf(pre) : PreBal(a) > 0}
ExOwner == <<ev.cls, ev.who>> \in gh.exOwner
ExHolder == <<ev.who, ev.cls, ev.id>> \in gh.exHolder
ElsewhereOnly == ~PreHasMT /\ \E d \in DOMAIN pre.mts : ev.id \in DOMAIN pre.mts[d]
AmtOps == {"MintMT", "TransferMT", "BurnMT"}
ProbeNames ==
  {"form_split_rej", "form_idupper_rej", "form_idprefix_rej", "form_idspace_rej", "form_idspace_mint_ok",
   "form_idspace_mint_new_ok", "form_clsupper_rej", "form_clsprefix_rej", "form_clsspace_rej",
   "form_owner_mint_rej", "form_holder_transfer_rej", "form_holder_burn_rej",
   "other_class_mint_rej", "other_class_edit_rej", "other_class_transfer_rej", "other_class_burn_rej",
   "no_class_rej", "no_mt_mint_rej", "no_mt_edit_rej",
   "module_sender_rej", "mint_to_module_ok", "transfer_to_module_ok", "handover_to_module_ok",
   "module_held_rej", "zero_amount_mint_rej", "zero_amount_transfer_rej", "zero_amount_burn_rej",
   "transfer_one_above_rej", "burn_one_above_rej", "burn_all_ok", "transfer_all_to_holder_ok",
   "transfer_to_zero_holder_ok", "exholder_transfer_rej", "exholder_burn_rej", "never_holder_transfer_rej",
   "burned_out_mint_ok", "burned_out_edit_ok", "burned_out_transfer_rej", "burned_out_burn_rej",
   "holder_not_owner_mint_rej", "holder_not_owner_edit_rej", "holder_not_owner_handover_rej",
   "owner_not_holder_transfer_rej", "owner_not_holder_burn_rej", "exowner_edit_rej", "exowner_handover_rej",
   "exowner_still_holder_transfer_ok", "handover_to_self_ok", "mint_data_on_existing_rej", "issue_blank_name_rej",
   "mint_default_recipient_ok", "second_class_same_owner_ok", "probe_state_rej"}
ProbeEx(c) ==
  CASE c = "form_split_rej" -> ~ev.ok /\ ev.form = "split" /\ PreHasMT
    [] c = "form_idupper_rej" -> ~ev.ok /\ ev.form = "idupper" /\ PreHasMT
    [] c = "form_idprefix_rej" -> ~ev.ok /\ ev.form = "idprefix" /\ PreHasMT
    [] c = "form_idspace_rej" -> ~ev.ok /\ ev.form = "idspace" /\ PreHasMT /\ ev.name \in {"EditMT", "TransferMT", "BurnMT"}
    [] c = "form_idspace_mint_ok" -> Acc("MintMT") /\ ev.form = "idspace" /\ ev.id # ""
    [] c = "form_idspace_mint_new_ok" -> Acc("MintMT") /\ ev.form = "idspace" /\ ev.id = ""
    [] c = "form_clsupper_rej" -> ~ev.ok /\ ev.form = "clsupper" /\ HasDenom(pre, ev.cls)
    [] c = "form_clsprefix_rej" -> ~ev.ok /\ ev.form = "clsprefix" /\ HasDenom(pre, ev.cls)
    [] c = "form_clsspace_rej" -> ~ev.ok /\ ev.form = "clsspace" /\ HasDenom(pre, ev.cls)
    [] c = "form_owner_mint_rej" -> Rej("MintMT") /\ ~Plain /\ IsOwner /\ PreHasMT /\ ev.amt > 0 /\ ev.data = ""
    [] c = "form_holder_transfer_rej" -> Rej("TransferMT") /\ ~Plain /\ PreHasMT /\ ev.amt > 0 /\ PreBal(ev.who) >= ev.amt
    [] c = "form_holder_burn_rej" -> Rej("BurnMT") /\ ~Plain /\ PreHasMT /\ ev.amt > 0 /\ PreBal(ev.who) >= ev.amt
    [] c = "other_class_mint_rej" -> Rej("MintMT") /\ Plain /\ IsOwner /\ ElsewhereOnly /\ ev.amt > 0
    [] c = "other_class_edit_rej" -> Rej("EditMT") /\ Plain /\ IsOwner /\ ElsewhereOnly
    [] c = "other_class_transfer_rej" -> Rej("TransferMT") /\ Plain /\ HasDenom(pre, ev.cls) /\ ElsewhereOnly /\ ev.amt > 0
                                          /\ \E d \in DOMAIN pre.mts : BalOf(pre, ev.who, d, ev.id) >= ev.amt
    [] c = "other_class_burn_rej" -> Rej("BurnMT") /\ Plain /\ HasDenom(pre, ev.cls) /\ ElsewhereOnly /\ ev.amt > 0
                                      /\ \E d \in DOMAIN pre.mts : BalOf(pre, ev.who, d, ev.id) >= ev.amt
    [] c = "no_class_rej" -> ~ev.ok /\ Plain /\ ev.cls # "" /\ ~HasDenom(pre, ev.cls) /\ ev.name # "IssueDenom" /\ ev.name # "TxFailed"
    [] c = "no_mt_mint_rej" -> Rej("MintMT") /\ Plain /\ IsOwner /\ ev.id # "" /\ ~PreHasMT /\ ~ElsewhereOnly /\ ev.amt > 0
    [] c = "no_mt_edit_rej" -> Rej("EditMT") /\ Plain /\ IsOwner /\ ev.id # "" /\ ~PreHasMT /\ ~ElsewhereOnly
    [] c = "module_sender_rej" -> ~ev.ok /\ ev.who \in Unsignable
    [] c = "mint_to_module_ok" -> Acc("MintMT") /\ ev.to \in Unsignable
    [] c = "transfer_to_module_ok" -> Acc("TransferMT") /\ ev.to \in Unsignable
    [] c = "handover_to_module_ok" -> Acc("TransferDenom") /\ ev.to \in Unsignable
    [] c = "module_held_rej" -> ~ev.ok /\ ev.name \in {"TransferMT", "BurnMT"} /\ ev.who \in Unsignable /\ PreHasMT /\ PreBal(ev.who) >= ev.amt /\ ev.amt > 0
    [] c = "zero_amount_mint_rej" -> Rej("MintMT") /\ ev.amt = 0 /\ IsOwner
    [] c = "zero_amount_transfer_rej" -> Rej("TransferMT") /\ ev.amt = 0 /\ PreHasMT /\ PreBal(ev.who) > 0
    [] c = "zero_amount_burn_rej" -> Rej("BurnMT") /\ ev.amt = 0 /\ PreHasMT /\ PreBal(ev.who) > 0
    [] c = "transfer_one_above_rej" -> Rej("TransferMT") /\ Plain /\ PreHasMT /\ PreBal(ev.who) > 0 /\ ev.amt = PreBal(ev.who) + 1
    [] c = "burn_one_above_rej" -> Rej("BurnMT") /\ Plain /\ PreHasMT /\ PreBal(ev.who) > 0 /\ ev.amt = PreBal(ev.who) + 1
    [] c = "burn_all_ok" -> Acc("BurnMT") /\ ev.amt = PreBal(ev.who)
    [] c = "transfer_all_to_holder_ok" -> Acc("TransferMT") /\ ev.to # ev.who /\ ev.amt = PreBal(ev.who) /\ PreBal(ev.to) > 0
    [] c = "transfer_to_zero_holder_ok" -> Acc("TransferMT") /\ ev.to # ev.who /\ PreBal(ev.to) = 0 /\ <<ev.to, ev.cls, ev.id>> \in gh.exHolder
    [] c = "exholder_transfer_rej" -> Rej("TransferMT") /\ Plain /\ PreHasMT /\ ev.amt > 0 /\ PreBal(ev.who) = 0 /\ ExHolder
    [] c = "exholder_burn_rej" -> Rej("BurnMT") /\ Plain /\ PreHasMT /\ ev.amt > 0 /\ PreBal(ev.who) = 0 /\ ExHolder
    [] c = "never_holder_transfer_rej" -> Rej("TransferMT") /\ Plain /\ PreHasMT /\ ev.amt > 0 /\ PreBal(ev.who) = 0 /\ ~ExHolder
    [] c = "burned_out_mint_ok" -> Acc("MintMT") /\ ev.id # "" /\ PreHasMT /\ SupOf(pre, ev.cls, ev.id) = 0
    [] c = "burned_out_edit_ok" -> Acc("EditMT") /\ PreHasMT /\ SupOf(pre, ev.cls, ev.id) = 0
    [] c = "burned_out_transfer_rej" -> Rej("TransferMT") /\ Plain /\ PreHasMT /\ SupOf(pre, ev.cls, ev.id) = 0 /\ ev.amt > 0
    [] c = "burned_out_burn_rej" -> Rej("BurnMT") /\ Plain /\ PreHasMT /\ SupOf(pre, ev.cls, ev.id) = 0 /\ ev.amt > 0
    [] c = "holder_not_owner_mint_rej" -> Rej("MintMT") /\ Plain /\ IsStranger /\ PreHasMT /\ PreBal(ev.who) > 0 /\ ev.amt > 0
    [] c = "holder_not_owner_edit_rej" -> Rej("EditMT") /\ Plain /\ IsStranger /\ PreHasMT /\ PreBal(ev.who) > 0
    [] c = "holder_not_owner_handover_rej" -> Rej("TransferDenom") /\ Plain /\ IsStranger
                                               /\ \E m \in DOMAIN pre.mts[ev.cls] : BalOf(pre, ev.who, ev.cls, m) > 0
    [] c = "owner_not_holder_transfer_rej" -> Rej("TransferMT") /\ Plain /\ IsOwner /\ PreHasMT /\ PreBal(ev.who) = 0 /\ Holders # {} /\ ev.amt > 0
    [] c = "owner_not_holder_burn_rej" -> Rej("BurnMT") /\ Plain /\ IsOwner /\ PreHasMT /\ PreBal(ev.who) = 0 /\ Holders # {} /\ ev.amt > 0
    [] c = "exowner_edit_rej" -> Rej("EditMT") /\ Plain /\ IsStranger /\ PreHasMT /\ ExOwner
    [] c = "exowner_handover_rej" -> Rej("TransferDenom") /\ Plain /\ IsStranger /\ ExOwner
    [] c = "exowner_still_holder_transfer_ok" -> Acc("TransferMT") /\ ExOwner /\ IsStranger
    [] c = "handover_to_self_ok" -> Acc("TransferDenom") /\ ev.to = ev.who
    [] c = "mint_data_on_existing_rej" -> Rej("MintMT") /\ IsOwner /\ PreHasMT /\ ev.data # "" /\ ev.amt > 0
    [] c = "issue_blank_name_rej" -> Rej("IssueDenom") /\ ev.cname = " "
    [] c = "mint_default_recipient_ok" -> Acc("MintMT") /\ ev.to = ""
    [] c = "second_class_same_owner_ok" -> Acc("IssueDenom") /\ \E d \in DOMAIN pre.cls : pre.cls[d].owner = ev.who
    [] c = "probe_state_rej" -> ~ev.ok /\ ev.name # "TxFailed" /\ Plain /\ Apply(pre, ev).why \notin BasicWhys \cup {"unknown"}
    [] OTHER -> FALSE
Exercised ==
  IF ev.name \in {"Init", "EndBlock"} THEN {} ELSE
  {c \in {"issue_ok", "mint_new_ok", "mint_more_ok", "mint_stranger_rej", "mint_overflow_rej",
          "mint_to_max", "mint_big", "edit_ok", "edit_keep", "edit_stranger_rej",
          "transfer_ok", "transfer_self", "transfer_insufficient_rej", "transfer_big", "transfer_all",
          "burn_ok", "burn_insufficient_rej", "burn_to_zero", "burn_big",
          "handover_ok", "handover_stranger_rej", "old_owner_mint_rej", "new_owner_mint_ok", "reject",
          "base31_mint", "base31_transfer", "base31_burn", "base31_overflow_rej",
          "base32_mint", "base32_transfer", "base32_burn", "base32_overflow_rej",
          "base53_mint", "base53_transfer", "base53_burn", "base53_overflow_rej",
          "base62_mint", "base62_transfer", "base62_burn", "base62_overflow_rej",
          "base63_mint", "base63_transfer", "base63_burn", "base63_overflow_rej"} \cup ProbeNames :
     CASE c = "issue_ok" -> IsOp("IssueDenom") /\ ev.ok
       [] c = "mint_new_ok" -> IsOp("MintMT") /\ ev.ok /\ ev.id = ""
       [] c = "mint_more_ok" -> IsOp("MintMT") /\ ev.ok /\ ev.id # ""
       [] c = "mint_stranger_rej" -> IsOp("MintMT") /\ ~ev.ok /\ IsStranger /\ ev.amt > 0
       [] c = "mint_overflow_rej" -> IsOp("MintMT") /\ ~ev.ok /\ IsOwner /\ HasMT(pre, ev.cls, ev.id)
                                      /\ ev.amt > 0 /\ pre.maxU - SupOf(pre, ev.cls, ev.id) < ev.amt
       [] c = "mint_to_max" -> IsOp("MintMT") /\ ev.ok /\ ev.id # "" /\ SupOf(st, ev.cls, ev.id) = st.maxU
       [] c = "mint_big" -> IsOp("MintMT") /\ ev.ok /\ ev.amt > Big
       [] c = "edit_ok" -> IsOp("EditMT") /\ ev.ok /\ ev.data # KEEP
       [] c = "edit_keep" -> IsOp("EditMT") /\ ev.ok /\ ev.data = KEEP
       [] c = "edit_stranger_rej" -> IsOp("EditMT") /\ ~ev.ok /\ IsStranger /\ HasMT(pre, ev.cls, ev.id)
       [] c = "transfer_ok" -> IsOp("TransferMT") /\ ev.ok /\ ev.to # ev.who
       [] c = "transfer_self" -> IsOp("TransferMT") /\ ev.ok /\ ev.to = ev.who
       [] c = "transfer_insufficient_rej" -> IsOp("TransferMT") /\ ~ev.ok /\ HasMT(pre, ev.cls, ev.id)
                                              /\ ev.amt > BalOf(pre, ev.who, ev.cls, ev.id)
       [] c = "transfer_big" -> IsOp("TransferMT") /\ ev.ok /\ ev.amt > Big
       [] c = "transfer_all" -> IsOp("TransferMT") /\ ev.ok /\ ev.amt = BalOf(pre, ev.who, ev.cls, ev.id)
       [] c = "burn_ok" -> IsOp("BurnMT") /\ ev.ok
       [] c = "burn_insufficient_rej" -> IsOp("BurnMT") /\ ~ev.ok /\ HasMT(pre, ev.cls, ev.id)
                                          /\ ev.amt > BalOf(pre, ev.who, ev.cls, ev.id)
       [] c = "burn_to_zero" -> IsOp("BurnMT") /\ ev.ok /\ SupOf(st, ev.cls, ev.id) = 0
       [] c = "burn_big" -> IsOp("BurnMT") /\ ev.ok /\ ev.amt > Big
       [] c = "handover_ok" -> IsOp("TransferDenom") /\ ev.ok
       [] c = "handover_stranger_rej" -> IsOp("TransferDenom") /\ ~ev.ok /\ IsStranger
       [] c = "old_owner_mint_rej" -> IsOp("MintMT") /\ ~ev.ok /\ IsStranger /\ ev.cls \in gh.handed
       [] c = "new_owner_mint_ok" -> IsOp("MintMT") /\ ev.ok /\ ev.cls \in gh.handed
       [] c = "reject" -> ~ev.ok
       [] c \in ProbeNames -> ProbeEx(c)
       \* magnitude strata: operations with amounts >= 2^base, per base
       [] \E b \in BaseNames : c = b \o "_mint" ->
            \E b \in BaseNames : c = b \o "_mint" /\ BaseOp(BaseNum(b), "MintMT")
       [] \E b \in BaseNames : c = b \o "_transfer" ->
            \E b \in BaseNames : c = b \o "_transfer" /\ BaseOp(BaseNum(b), "TransferMT") /\ ev.to # ev.who
       [] \E b \in BaseNames : c = b \o "_burn" ->
            \E b \in BaseNames : c = b \o "_burn" /\ BaseOp(BaseNum(b), "BurnMT")
       [] \E b \in BaseNames : c = b \o "_overflow_rej" ->
            \E b \in BaseNames : c = b \o "_overflow_rej" /\ obs.base = BaseNum(b)
               /\ IsOp("MintMT") /\ ~ev.ok /\ IsOwner /\ HasMT(pre, ev.cls, ev.id)
               /\ ev.amt > 0 /\ pre.maxU - SupOf(pre, ev.cls, ev.id) < ev.amt}
Coverage == Exercised = {} \/ PrintT(<<"EXERCISED", Exercised>>)

Report == (l = Len(Trace) + 1) => PrintT(<<"TRACE-END", Len(Trace), drift, driftAt>>)

DriftReport == (drift > 0 /\ driftAt = l - 1) =>
  PrintT(<<"DRIFT", driftAt, ev.name, ev>>)

TraceAccepted == TLCGet("stats").diameter = Len(Trace)

Alias == [l |-> l, ev |-> ev]
=============================================================================
