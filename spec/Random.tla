------------------------------- MODULE Random -------------------------------
(***************************************************************************)
(* irismod/modules/random — random numbers on request, from the block      *)
(* hash or from an oracle seed delivered through the service module.       *)
(*                                                                         *)
(* Transcribed from                                                        *)
(*   keeper/keeper.go  (RequestRandom, the pending queue, results),        *)
(*   abci.go           (BeginBlocker: drains the queue of height h-1),     *)
(*   keeper/service.go (RequestService, HandlerResponse,                   *)
(*                      HandlerStateChanged),                              *)
(*   types/request.go  (GenerateRequestID: consumer + request height),     *)
(* and, for the slice of the service module that random observes, from     *)
(*   service/keeper/invocation.go (CreateRequestContext,                   *)
(*     StartRequestContext, AddResponse, Callback, FilterServiceProviders, *)
(*     InitiateRequests, SkipCurrentRequestBatch), keeper/state_change.go  *)
(*     (CompleteBatch, OnRequestContextPaused), keeper/fees.go             *)
(*     (AddEarnedFee, RefundServiceFee), abci.go (EndBlocker).             *)
(*                                                                         *)
(* Heights.  st.h is the height of the block being executed (st.inb) or    *)
(* of the next block (~st.inb).  BeginBlock(h) runs with st.h = h and sets *)
(* inb; EndBlock(h) clears it and moves to h+1.                            *)
(*                                                                         *)
(* Identifiers.  A request id is sha256(height, consumer) in the code and  *)
(* "<consumer>@<height>" here; service request contexts are "c1", "c2",    *)
(* ... in creation order.  The store iterates contexts in the order of     *)
(* their (hash) ids; every context carries a rank with that order.         *)
(*                                                                         *)
(* Values.  SHA-256 is not modelled.  A generated value is an opaque       *)
(* string; on traces of the real code the harness evaluates the generator  *)
(* in Go and the event carries, per generated value, the booleans          *)
(*   pure  (= exported PRNG of previous app hash, block time, requester,   *)
(*          oracle seed),  range (0 <= v < 1, 20 fractional digits) and    *)
(*   ref   (= an independent implementation; strict mode only).            *)
(***************************************************************************)
EXTENDS Integers, Sequences, FiniteSets, TLC, Util, Json, IOUtils

CONSTANTS
  Users,        \* consumers
  Provs,        \* provider accounts
  RecordHist    \* BOOLEAN: keep the event history (generator configs)

VARIABLES st, ev, gh, hist
vars == <<st, ev, gh, hist>>

D == "stake"              \* the service base denom
SVCREQ == "svcreq"        \* service request escrow (fees of open requests, earned fees)
SVCDEP == "svcdep"        \* service deposit escrow
SVCTAX == "svctax"        \* service fee collector (tax)

ReqId(who, h) == who \o "@" \o ToString(h)
CtxId(n) == "c" \o ToString(n)

NoEv == [name |-> "Init", who |-> "", n |-> 0, oracle |-> FALSE, cap |-> 0, ctx |-> "",
         kind |-> "", pay |-> "", seed |-> 0, dt |-> 0, prov |-> "", rank |-> 0, txh |-> "",
         ok |-> TRUE, panic |-> FALSE, halt |-> FALSE, gen |-> EmptyF]

-----------------------------------------------------------------------------
FailW(s, w) == [ok |-> FALSE, panic |-> FALSE, st |-> s, why |-> w]
Done(s) == [ok |-> TRUE, panic |-> FALSE, st |-> s, why |-> ""]

Coin(a) == (D :> a)
CapPays == {"btccap", "twocap"}     \* a fee cap named in another denomination / in two
FarMax == 1073741824                \* the logged image of MaxInt64 (see DoRequestRandom)

(* the value the generator produced: observed on traces, symbolic in the model *)
GenValue(e, id, h) ==
  IF id \in DOMAIN e.gen THEN e.gen[id].value ELSE "r:" \o id \o ":" \o ToString(h)

(* keeper.go: EnqueueRandomRequest — store.Set(due | id), an existing entry
   with the same key is overwritten *)
Enqueue(s, due, rq) ==
  LET entry == [due |-> due, id |-> rq.id, consumer |-> rq.consumer, reqH |-> rq.reqH,
                oracle |-> rq.oracle, ctx |-> rq.ctx, cap |-> rq.cap, txh |-> rq.txh]
  IN [s EXCEPT !.pending = {q \in s.pending : ~(q.due = due /\ q.id = rq.id)} \cup {entry}]

ReqOf(q) == [id |-> q.id, consumer |-> q.consumer, reqH |-> q.reqH, oracle |-> q.oracle,
             ctx |-> q.ctx, cap |-> q.cap, txh |-> q.txh]

(***************************************************************************)
(* msg_server.go RequestRandom, keeper.go RequestRandom, service.go        *)
(* RequestService, service CreateRequestContext (state PAUSED, one         *)
(* provider, threshold 1, timeout = MaxRequestTimeout, not repeated).      *)
(* The provider is picked by a PRNG over the bindings: e.prov / e.rank are *)
(* the observed (model: chosen) provider and id rank of the new context.   *)
(***************************************************************************)
DoRequestRandom(s, e) ==
  LET who == e.who
      base == [id |-> ReqId(who, s.h), consumer |-> who, reqH |-> s.h, oracle |-> e.oracle,
               ctx |-> "", cap |-> 0, txh |-> e.txh]
  IN
  \* e.n < 0 encodes a block interval of 2^64 + e.n (ValidateBasic admits every
  \* uint64).  Since fix beca1b5 the keeper refuses an interval whose due height
  \* overflows, before anything is written; before it int64(interval) wrapped and
  \* the request was queued under the past height s.h + e.n for good.
  IF e.cap < 0 THEN FailW(s, "invalid")
  ELSE IF e.n < 0 THEN FailW(s, "interval")              \* sdkerrors.ErrInvalidRequest
  \* heights next to MaxInt64 are logged minus MaxInt64 - 2^30 (additively, intervals
  \* too): the largest accepted interval is the one that is due at FarMax = MaxInt64
  ELSE IF s.h + e.n > FarMax THEN FailW(s, "interval")
  \* (a block-hash request carries no fee cap: whatever the message names is ignored)
  ELSE IF ~e.oracle THEN Done(Enqueue(s, s.h + e.n, base))
  ELSE IF DOMAIN s.bind = {} THEN FailW(s, "no_bindings")
  ELSE IF s.bal[who][D] < e.cap THEN FailW(s, "insufficient_fee")
  \* validateServiceFeeCap: exactly one coin, of the base denom (pay: the cap is named
  \* in another denomination / in two; without such coins SpendableCoins refuses first)
  ELSE IF e.cap = 0 \/ e.pay \in CapPays THEN FailW(s, "fee_cap")
  ELSE
    LET prov == IF e.prov \in DOMAIN s.bind THEN e.prov ELSE CHOOSE p \in DOMAIN s.bind : TRUE
        cid == CtxId(s.nctx + 1)
        cx == [consumer |-> who, provs |-> <<prov>>, state |-> "paused", cap |-> e.cap,
               timeout |-> s.params.timeout, rep |-> FALSE, freq |-> 0, thr |-> 1,
               bdone |-> TRUE, bcount |-> 0, reqN |-> 0, respN |-> 0, bthr |-> 1,
               newAt |-> 0, expAt |-> 0, rank |-> e.rank, reqs |-> EmptyF]
        s1 == [s EXCEPT !.nctx = s.nctx + 1, !.ctx = Put(s.ctx, cid, cx)]
    IN Done(Enqueue(s1, s.h + e.n, [base EXCEPT !.ctx = cid, !.cap = e.cap]))

(***************************************************************************)
(* random/keeper/service.go: HandlerResponse (outs: the non-empty outputs  *)
(* of the batch, as <<[kind, x]>>) and HandlerStateChanged.                *)
(***************************************************************************)
DropOracle(s, c) == [s EXCEPT !.opend = Del(s.opend, c)]

(***************************************************************************)
(* Answers (round 7: unusual payloads).  e.kind says what the code makes   *)
(* of an answer, e.pay how it is written down (harness payload.go):        *)
(*   seed    well-formed body, the seed is 32 bytes of hexadecimal digits  *)
(*           (either case; of duplicate members the FIRST is used)         *)
(*   bad     the body fails the random service's output schema (which,     *)
(*           reading it with a JSON decoder, sees the LAST of duplicate    *)
(*           members): HandlerResponse returns, the waiting request stays  *)
(*   badhex  the schema passes on the last "seed" member while the first   *)
(*           one — which gjson reads — is not hexadecimal: "invalid seed", *)
(*           the waiting request is dropped without a result               *)
(*   short   ... the first one is hexadecimal but not 32 bytes:            *)
(*           hex.DecodeString returns no error, the handler logs           *)
(*           err.Error() of a nil error and the transaction panics         *)
(*   err     an error result without output                                *)
(* MsgRespondService.ValidateBasic refuses a result 200 without output, an *)
(* error result with one, a result code outside the schema, an output      *)
(* without header, a request id of the wrong length.                       *)
(***************************************************************************)
OutKinds == {"seed", "bad", "badhex", "short"}
RefusedAnswer(e) ==
  \/ e.pay = "ridshort"
  \/ e.kind \in OutKinds /\ e.pay \in {"emptyout", "badresult", "nohdr"}
  \/ e.kind \notin OutKinds /\ e.pay = "errout"

OnResponse(s, e, c, outs, err) ==
  IF Len(outs) = 0 \/ err THEN DropOracle(s, c)
  ELSE IF c \notin DOMAIN s.ctx THEN DropOracle(s, c)
  ELSE IF c \notin DOMAIN s.opend THEN s
  ELSE IF outs[1].kind = "bad" THEN s         \* invalid body: returns, the entry stays
  ELSE IF outs[1].kind = "badhex" THEN DropOracle(s, c)     \* "invalid seed"
  ELSE IF outs[1].kind = "short" THEN s       \* (panics: DoRespond)
  ELSE
    LET rq == s.opend[c] IN
    DropOracle([s EXCEPT !.results = Put(s.results, rq.id,
                   [h |-> s.h - 1, value |-> GenValue(e, rq.id, s.h), txh |-> rq.txh])], c)

OnStateChanged(s, c) == IF c \in DOMAIN s.ctx THEN DropOracle(s, c) ELSE s

(* service: Callback — outputs of the current batch in request (provider index) order *)
Outputs(cx) ==
  LET ps == SelectSeq(cx.provs, LAMBDA p : p \in DOMAIN cx.reqs /\ cx.reqs[p].kind \in OutKinds)
  IN [i \in DOMAIN ps |-> [kind |-> cx.reqs[ps[i]].kind, x |-> cx.reqs[ps[i]].x]]

Callback(s, e, c) ==
  LET cx == s.ctx[c]
      outs == Outputs(cx)
  IN OnResponse(s, e, c, outs, Len(outs) < cx.bthr)

(***************************************************************************)
(* service msg_server.go RespondService / invocation.go AddResponse        *)
(***************************************************************************)
DoRespond(s, e) ==
  LET who == e.who
      c == e.ctx IN
  IF RefusedAnswer(e) THEN FailW(s, "invalid_response")
  ELSE IF c \notin DOMAIN s.ctx \/ DOMAIN s.ctx[c].reqs = {} THEN FailW(s, "unknown_request")
  ELSE
    LET cx == s.ctx[c] IN
    IF who \notin DOMAIN cx.reqs THEN FailW(s, "wrong_provider")
    ELSE IF ~cx.reqs[who].act THEN FailW(s, "not_active")
    ELSE
      LET fee == cx.reqs[who].fee
          tax == (fee * s.params.taxNum) \div s.params.taxDen
          kind == IF e.kind \in OutKinds THEN e.kind ELSE "err"
          x == IF kind = "seed" THEN e.seed ELSE 0
          cx1 == [cx EXCEPT !.reqs[who] = [@ EXCEPT !.act = FALSE, !.kind = kind, !.x = x],
                            !.respN = @ + 1]
          complete == cx1.respN = cx1.reqN
          cx2 == IF complete THEN [cx1 EXCEPT !.bdone = TRUE] ELSE cx1
          s1 == [s EXCEPT !.bal = Move(s.bal, SVCREQ, SVCTAX, Coin(tax)),
                          !.earned[who] = @ + fee - tax,
                          !.ctx[c] = cx1]
          \* CompleteBatch runs the callback before the context is written back
          s2 == IF complete THEN Callback(s1, e, c) ELSE s1
          outs == Outputs(cx1)
          \* service.go HandlerResponse "invalid seed": err.Error() of a nil error
          nilErr == /\ complete /\ Len(outs) > 0 /\ Len(outs) >= cx1.bthr /\ c \in DOMAIN s.opend
                    /\ outs[1].kind = "short"
      IN IF nilErr THEN [ok |-> FALSE, panic |-> TRUE, st |-> s, why |-> "nil_error"]
         ELSE Done([s2 EXCEPT !.ctx[c] = cx2])

(***************************************************************************)
(* random/abci.go BeginBlocker at height s.h: every request queued at      *)
(* height s.h - 1.                                                         *)
(***************************************************************************)
RECURSIVE StartAll(_, _)
StartAll(s, qs) ==
  IF qs = {} THEN s
  ELSE
    LET q == CHOOSE x \in qs : TRUE          \* distinct contexts: the order is immaterial
        c == q.ctx
        okStart == c \in DOMAIN s.ctx /\ s.ctx[c].consumer = q.consumer /\ s.ctx[c].state = "paused"
        s1 == IF okStart
              THEN [s EXCEPT !.ctx[c] = [@ EXCEPT !.state = "running",
                                             !.newAt = IF @ = 0 /\ s.ctx[c].expAt = 0 THEN s.h ELSE @],
                             !.opend = Put(s.opend, c, ReqOf(q))]
              ELSE s
    IN StartAll(s1, qs \ {q})

DoBeginBlock(s, e) ==
  LET due == {q \in s.pending : q.due = s.h - 1}
      normal == {q \in due : ~q.oracle}
      ids == {q.id : q \in normal}
      res2 == [id \in DOMAIN s.results \cup ids |->
                 IF id \in ids
                 THEN LET q == CHOOSE x \in normal : x.id = id IN
                      [h |-> s.h - 1, value |-> GenValue(e, id, s.h), txh |-> q.txh]
                 ELSE s.results[id]]
      s1 == [s EXCEPT !.inb = TRUE, !.results = res2, !.pending = s.pending \ due]
  IN Done(StartAll(s1, {q \in due : q.oracle}))

(***************************************************************************)
(* service/abci.go EndBlocker at height s.h: expired batches, then new     *)
(* batches, each in context-id (rank) order.                               *)
(***************************************************************************)
MinRank(s, cs) == CHOOSE c \in cs : \A d \in cs : s.ctx[c].rank <= s.ctx[d].rank

ExpireOne(s, e, c) ==
  LET cx == s.ctx[c]
      act == {p \in DOMAIN cx.reqs : cx.reqs[p].act}
      refund == SumOver([p \in act |-> cx.reqs[p].fee], act)
      \* expiredRequestHandler: slash (fraction 0), refund, deactivate
      cxa == [cx EXCEPT !.reqs = [p \in DOMAIN cx.reqs |-> [cx.reqs[p] EXCEPT !.act = FALSE]]]
      s1 == IF cx.bdone THEN s
            ELSE Callback([s EXCEPT !.bal = Move(s.bal, SVCREQ, cx.consumer, Coin(refund)),
                                    !.ctx[c] = cxa], e, c)
      cx2 == [cxa EXCEPT !.bdone = TRUE, !.expAt = 0, !.reqs = EmptyF]
  IN
  IF cx.state = "running" /\ ~cx.rep
  THEN [s1 EXCEPT !.ctx = Del(s1.ctx, c)]              \* CompleteServiceContext
  ELSE IF cx.state = "running"
  THEN [s1 EXCEPT !.ctx[c] = [cx2 EXCEPT !.newAt = s.h - cx.timeout + cx.freq]]
  ELSE [s1 EXCEPT !.ctx[c] = cx2]

RECURSIVE ExpireAll(_, _, _)
ExpireAll(s, e, cs) ==
  IF cs = {} THEN s
  ELSE LET c == MinRank(s, cs) IN ExpireAll(ExpireOne(s, e, c), e, cs \ {c})

NewOne(s, c) ==
  LET cx == s.ctx[c]
      elig == SelectSeq(cx.provs, LAMBDA p :
                p \in DOMAIN s.bind /\ s.bind[p].avail /\ s.bind[p].qos <= cx.timeout
                /\ s.bind[p].price <= cx.cap)
      total == SumOver([i \in DOMAIN elig |-> s.bind[elig[i]].price], DOMAIN elig)
  IN
  IF cx.state # "running" THEN [s EXCEPT !.ctx[c].newAt = 0]
  ELSE IF Len(elig) > 0 /\ Len(elig) >= cx.thr
  THEN IF s.bal[cx.consumer][D] < total
       THEN \* OnRequestContextPaused + state callback
            OnStateChanged([s EXCEPT !.ctx[c] = [cx EXCEPT !.bdone = TRUE, !.state = "paused", !.newAt = 0]], c)
       ELSE [s EXCEPT
               !.bal = Move(s.bal, cx.consumer, SVCREQ, Coin(total)),
               !.ctx[c] = [cx EXCEPT
                  !.bcount = @ + 1, !.bdone = FALSE, !.respN = 0, !.reqN = Len(elig),
                  !.bthr = cx.thr, !.newAt = 0, !.expAt = s.h + cx.timeout,
                  !.reqs = [p \in Range(elig) |->
                              [fee |-> s.bind[p].price, act |-> TRUE, kind |-> "none", x |-> 0,
                               exp |-> s.h + cx.timeout]]]]
  ELSE \* SkipCurrentRequestBatch
       [s EXCEPT !.ctx[c] = [cx EXCEPT !.bcount = @ + 1, !.bdone = FALSE, !.respN = 0, !.reqN = 0,
                                       !.bthr = cx.thr, !.newAt = 0, !.expAt = s.h + cx.timeout]]

RECURSIVE NewAll(_, _)
NewAll(s, cs) ==
  IF cs = {} THEN s
  ELSE LET c == MinRank(s, cs) IN NewAll(NewOne(s, c), cs \ {c})

DoEndBlock(s, e) ==
  LET s1 == ExpireAll(s, e, {c \in DOMAIN s.ctx : s.ctx[c].expAt = s.h})
      s2 == NewAll(s1, {c \in DOMAIN s1.ctx : s1.ctx[c].newAt = s.h})
  IN Done([s2 EXCEPT !.h = s.h + 1, !.inb = FALSE])

(***************************************************************************)
(* Restart from a zero-height export (genesis.go PrepForZeroHeightGenesis,  *)
(* ExportGenesis, InitGenesis) taken at the committed height H = s.h - 1,   *)
(* followed by the first (empty) block of the new chain: every queue entry  *)
(* moves from its height q to q - H + 1; only the queue is exported —       *)
(* generated numbers and oracle requests waiting for their seed are not.    *)
(* Modelled for states without service contexts (no oracle request in       *)
(* flight).                                                                 *)
(***************************************************************************)
ZeroHeightOK(s) ==
  /\ ~s.inb /\ DOMAIN s.ctx = {} /\ DOMAIN s.opend = {}
  /\ \A q \in s.pending : ~q.oracle /\ q.due >= s.h - 1

DoZeroHeight(s, e) ==
  IF ~ZeroHeightOK(s) THEN FailW(s, "not_modelled")
  ELSE LET H == s.h - 1 IN
       Done([s EXCEPT !.h = 2, !.nctx = 0, !.results = EmptyF,
                      !.pending = {[q EXCEPT !.due = q.due - H + 1] : q \in s.pending}])

Apply(s, e) ==
  CASE e.name = "RequestRandom" -> DoRequestRandom(s, e)
    [] e.name = "ZeroHeight"    -> DoZeroHeight(s, e)
    [] e.name = "Respond"       -> DoRespond(s, e)
    [] e.name = "BeginBlock"    -> DoBeginBlock(s, e)
    [] e.name = "EndBlock"      -> DoEndBlock(s, e)
    [] OTHER -> FailW(s, "unknown")

-----------------------------------------------------------------------------
(***************************************************************************)
(* Ghosts, from observed (s, e, t) only.                                   *)
(*   req[id]  the accepted requests with that id: how many (the id scheme  *)
(*            gives requests of one consumer in one block the same id; the *)
(*            property excludes them: cnt > 1), and of the first one its   *)
(*            due height, oracle flag and context                          *)
(*   ful[id]  how often a result for id was written or changed             *)
(***************************************************************************)
(*   lost     accepted requests whose queue entry a later request of the same   *)
(*            consumer, block and due height overwrote; lostO: their contexts *)
GhostInit == [req |-> EmptyF, ful |-> EmptyF, lost |-> 0, lostO |-> {}, zh |-> 0]

(* a trace may start (and a restart continues) with requests already queued *)
GhostOf(s) ==
  LET ids == {q.id : q \in s.pending} IN
  [req |-> [id \in ids |->
              LET qs == {q \in s.pending : q.id = id}
                  q1 == CHOOSE q \in qs : TRUE
              IN [cnt |-> Cardinality(qs), due |-> q1.due, oracle |-> q1.oracle, ctx |-> q1.ctx, ctxH |-> q1.ctx]],
   ful |-> EmptyF, lost |-> 0, lostO |-> {}, zh |-> 0]

Changed(s, t) ==
  {id \in DOMAIN t.results : id \notin DOMAIN s.results \/ t.results[id] # s.results[id]}

(* queue entries (of the pre-state) that an accepted request overwrites *)
Replaced(s, e) ==
  IF e.name = "RequestRandom" /\ e.ok
  THEN {q \in s.pending : q.id = ReqId(e.who, s.h) /\ q.due = s.h + e.n}
  ELSE {}

GhostStep(g, s, e, t) ==
  IF e.name = "ZeroHeight" /\ e.ok THEN [GhostOf(t) EXCEPT !.zh = g.zh + 1]
  ELSE
  LET id == ReqId(e.who, s.h)
      mine == {q \in t.pending : q.id = id /\ q.due = s.h + e.n}
      \* the service context that appeared with the request, as the service module shows it
      \* (ctx is read from the request's own queue entry)
      newctx == DOMAIN t.ctx \ DOMAIN s.ctx
      req2 == IF e.name = "RequestRandom" /\ e.ok
              THEN Put(g.req, id,
                     IF id \in DOMAIN g.req
                     THEN [g.req[id] EXCEPT !.cnt = @ + 1]
                     ELSE [cnt |-> 1, due |-> s.h + e.n, oracle |-> e.oracle,
                           ctx |-> IF mine # {} THEN (CHOOSE q \in mine : TRUE).ctx ELSE "",
                           ctxH |-> IF e.oracle /\ Cardinality(newctx) = 1 THEN CHOOSE c \in newctx : TRUE ELSE ""])
              ELSE g.req
      ch == Changed(s, t)
      rep == Replaced(s, e)
  IN [req |-> req2,
      ful |-> [i \in DOMAIN g.ful \cup ch |-> Get(g.ful, i, 0) + (IF i \in ch THEN 1 ELSE 0)],
      lost |-> g.lost + Cardinality(rep),
      lostO |-> g.lostO \cup {q.ctx : q \in {x \in rep : x.oracle}},
      zh |-> g.zh]

(* the requests the property speaks about: every accepted request that is the
   only one with its id (the id scheme identifies a request by requester and
   height) *)
Single(g, id) == id \in DOMAIN g.req /\ g.req[id].cnt = 1

(* BeginBlock(due + 1) has run *)
BeginRan(t, due) == t.h > due + 1 \/ (t.h = due + 1 /\ t.inb)

-----------------------------------------------------------------------------
(* Property clauses *)

(* C18 due: a request made at h with interval n sits in the queue under h+n —
   exactly one entry — until the begin-block of h+n+1, which removes it and,
   for block-hash requests, stores the result under height h+n *)
C18_Due(t, g) ==
  \A id \in DOMAIN g.req : Single(g, id) =>
    LET r == g.req[id]
        entries == {q \in t.pending : q.id = id}
    IN IF ~BeginRan(t, r.due)
       THEN /\ Cardinality(entries) = 1
            /\ \A q \in entries : q.due = r.due /\ q.oracle = r.oracle
            /\ id \notin DOMAIN t.results
       ELSE /\ entries = {}
            /\ (~r.oracle) => (id \in DOMAIN t.results /\ t.results[id].h = r.due)

(* C18 once: at most one fulfilment; block-hash requests only by the begin-block
   after the due height, oracle requests only in the step in which the seed
   response for their context arrives — and then at once; a failing, invalid or
   missing response leaves no result *)
C18_Once(s, e, t, g) ==
  /\ \A id \in DOMAIN g.req : Single(g, id) => Get(g.ful, id, 0) <= 1
  /\ \A id \in Changed(s, t) :
       /\ id \in DOMAIN g.req
       /\ Single(g, id) =>
            IF g.req[id].oracle
            THEN e.name = "Respond" /\ e.ok /\ e.kind = "seed" /\ e.ctx = g.req[id].ctx
            ELSE e.name = "BeginBlock" /\ s.h = g.req[id].due + 1
  /\ (e.name = "Respond" /\ e.ok /\ e.kind = "seed" /\ e.ctx \in DOMAIN s.opend
        /\ Single(g, s.opend[e.ctx].id) /\ g.req[s.opend[e.ctx].id].ctx = e.ctx)
       => s.opend[e.ctx].id \in Changed(s, t)
  \* the same, judged from the history alone (not from the module's own waiting list, which a
  \* defect may have emptied: seed C18-s5 pruned waiting requests too early): the context of an
  \* oracle request has ONE provider and a threshold of one, so a seed response the service
  \* module accepts for it is the response the request was waiting for
  /\ (e.name = "Respond" /\ e.ok /\ e.kind = "seed") =>
       \A id \in DOMAIN g.req :
         (Single(g, id) /\ g.req[id].oracle /\ g.req[id].ctx = e.ctx /\ e.ctx # ""
            /\ e.ctx \notin g.lostO /\ id \notin DOMAIN s.results)
         => id \in Changed(s, t)
  \* ... and with the request's context taken from the service module's state in the step of the
  \* accepted request (the context that appeared), not from the request's own queue entry
  /\ (e.name = "Respond" /\ e.ok /\ e.kind = "seed") =>
       \A id \in DOMAIN g.req :
         (Single(g, id) /\ g.req[id].oracle /\ g.req[id].ctxH = e.ctx /\ e.ctx # ""
            /\ id \notin DOMAIN s.results)
         => id \in Changed(s, t)
  \* a result for an oracle request appears only with the seed response for THAT context
  /\ \A id \in Changed(s, t) :
       (Single(g, id) /\ g.req[id].oracle /\ g.req[id].ctxH # "") => e.ctx = g.req[id].ctxH

(* C18 range / pure: verdicts of the harness on every value written *)
C18_Range(s, e, t) ==
  \A id \in Changed(s, t) :
    id \in DOMAIN e.gen /\ e.gen[id].value = t.results[id].value /\ e.gen[id].range
C18_Pure(s, e, t) ==
  \A id \in Changed(s, t) :
    id \in DOMAIN e.gen /\ e.gen[id].value = t.results[id].value /\ e.gen[id].pure

(* C18 stable: a stored result never changes (results are read back by request
   id through the keeper's getter in every state) *)
C18_Stable(s, t, g) ==
  \* (a zero-height restart — the only step that lowers the height — is C12's
  \* subject: the export does not carry generated numbers)
  t.h >= s.h =>
    \A id \in DOMAIN s.results : Single(g, id) =>
      id \in DOMAIN t.results /\ t.results[id] = s.results[id]

(* C13 (random): queue entries refer to awaiting requests at their due height *)
C13_QueueSound_Random(t, g) ==
  \A q \in t.pending :
    /\ q.id \in DOMAIN g.req
    /\ Single(g, q.id) => (q.due = g.req[q.id].due /\ q.id \notin DOMAIN t.results)
    /\ q.due >= t.h - 1
    /\ t.inb => q.due >= t.h

(* every awaiting request has exactly one entry, a processed one none *)
C13_QueueComplete_Random(t, g) ==
  \A id \in DOMAIN g.req : Single(g, id) =>
    Cardinality({q \in t.pending : q.id = id}) = (IF BeginRan(t, g.req[id].due) THEN 0 ELSE 1)

(* entries leave the queue only in the begin-block after their height *)
C13_OnceOnTime_Random(s, e, t, g) ==
  LET key(q) == <<q.due, q.id>>
      gone == {key(q) : q \in s.pending} \ {key(q) : q \in t.pending}
  IN /\ gone # {} => e.name \in {"BeginBlock", "ZeroHeight"}
     /\ e.name = "BeginBlock" => \A k \in gone : k[1] = s.h - 1
     /\ (e.name = "BeginBlock" /\ ~e.halt) => \A q \in t.pending : q.due >= s.h

C13_NoHalt(e) == ~e.halt

-----------------------------------------------------------------------------
(* Diagnostic clauses (beyond C18's text; reported, never a verdict) *)

(* every number is stored under the height before the block that generates it *)
X18_ResultHeight(s, e, t) ==
  e.name # "ZeroHeight" => \A id \in Changed(s, t) : t.results[id].h = s.h - 1

(* requests of one consumer in one block share an id.  With the same due
   height the later request takes the earlier one's queue entry: the queue does
   not grow and the earlier request is lost (never fulfilled, no error) *)
X18_DupReplace(s, e, t) ==
  Replaced(s, e) # {} =>
    /\ Cardinality(t.pending) = Cardinality(s.pending)
    /\ \A q \in t.pending : (q.id = ReqId(e.who, s.h) /\ q.due = s.h + e.n) =>
         (q.txh = e.txh /\ q.oracle = e.oracle)

(* ... and if the lost request was oracle-seeded, its service context stays
   behind, paused, never started and unreferenced, for good *)
X18_DupOrphan(t, g) ==
  \A c \in g.lostO :
    /\ c \in DOMAIN t.ctx /\ t.ctx[c].state = "paused" /\ t.ctx[c].bcount = 0
    /\ c \notin DOMAIN t.opend /\ \A q \in t.pending : q.ctx # c

(* with different due heights both entries are fulfilled and each fulfilment
   rewrites the one result stored under the shared id *)
X18_DupResult(s, e, t, g) ==
  \A id \in Changed(s, t) :
    (id \in DOMAIN g.req /\ g.req[id].cnt > 1 /\ e.name = "BeginBlock") =>
      \E q \in s.pending : q.id = id /\ q.due = s.h - 1 /\ ~q.oracle

(* a provider answering after the batch expired (or twice, or a request that
   never existed) is refused and changes nothing *)
X18_LateAnswer(s, e, t) ==
  (e.name = "Respond" /\ (e.ctx \notin DOMAIN s.ctx \/ e.who \notin DOMAIN s.ctx[e.ctx].reqs
                          \/ ~s.ctx[e.ctx].reqs[e.who].act)) =>
    (~e.ok /\ t = s)

(* block intervals whose due height overflows (2^63 and more; encoded n < 0)
   are refused (fix beca1b5).  Were one accepted, it would sit under a past
   height for ever: C13_QueueSound_Random / C18_Due then fail on the trace *)
X18_WrapRejected(s, e) ==
  (e.name = "RequestRandom" /\ e.n < 0) => ~e.ok

(* a zero-height restart rebuilds the queue with every entry moved from q to
   q - H + 1 (H the export height).  The state after the event is the one after
   the new chain's first block (height 1, which finds nothing to do): from there
   every pending request is as many blocks away from its fulfilment as before —
   i.e. the restart costs every pending request exactly that first block *)
X18_ZeroHeightQueue(s, e, t) ==
  (e.name = "ZeroHeight" /\ e.ok) =>
    /\ t.h = 2 /\ ~t.inb
    /\ Cardinality(t.pending) = Cardinality(s.pending)
    /\ \A q \in s.pending :
         \E r \in t.pending : r.id = q.id /\ r.reqH = q.reqH /\ r.consumer = q.consumer
                              /\ r.due - t.h = q.due - s.h

Rejected_NoEffect(s, e, t) ==
  (~e.ok /\ e.name \notin {"BeginBlock", "EndBlock", "ZeroHeight"}) => t = s

-----------------------------------------------------------------------------
(* Model-checking universe *)
CONSTANTS MaxH, MaxReq, Intervals, Caps, Bound, Price, Funds, Timeout, TaxNum, TaxDen, Kinds,
          MaxZH      \* zero-height restarts per behaviour (0: none)


Accts == Users \cup Provs \cup {SVCREQ, SVCDEP, SVCTAX}

Init0 ==
  [h |-> 3, inb |-> FALSE, pending |-> {}, results |-> EmptyF, opend |-> EmptyF,
   ctx |-> EmptyF, nctx |-> 0,
   bind |-> [p \in Bound |-> [avail |-> TRUE, price |-> Price, qos |-> 1]],
   earned |-> [p \in Provs |-> 0],
   bal |-> [a \in Accts |-> Coin(IF a \in Users THEN Funds ELSE 0)],
   params |-> [timeout |-> Timeout, taxNum |-> TaxNum, taxDen |-> TaxDen],
   qBad |-> 0, rbBad |-> 0]

Init == st = Init0 /\ ev = NoEv /\ gh = GhostInit /\ hist = <<>>

E(name, who, n, oracle, cap, c, kind, prov, rank) ==
  [NoEv EXCEPT !.name = name, !.who = who, !.n = n, !.oracle = oracle, !.cap = cap,
               !.ctx = c, !.kind = kind, !.prov = prov, !.rank = rank, !.txh = "tx"]

Step(e) ==
  LET r == Apply(st, e)
      e2 == [e EXCEPT !.ok = r.ok, !.panic = r.panic]
  IN /\ st' = r.st
     /\ ev' = e2
     /\ gh' = GhostStep(gh, st, e2, r.st)
     /\ hist' = IF RecordHist THEN Append(hist, e2) ELSE hist

NReq == SumOver([id \in DOMAIN gh.req |-> gh.req[id].cnt], DOMAIN gh.req)
FreeRanks == (1..MaxReq) \ {st.ctx[c].rank : c \in DOMAIN st.ctx}

BeginBlock == ~st.inb /\ st.h <= MaxH /\ Step(E("BeginBlock", "", 0, FALSE, 0, "", "", "", 0))
EndBlock == st.inb /\ Step(E("EndBlock", "", 0, FALSE, 0, "", "", "", 0))
RequestPlain ==
  /\ st.inb /\ NReq < MaxReq
  /\ \E who \in Users, n \in Intervals : Step(E("RequestRandom", who, n, FALSE, 0, "", "", "", 0))
RequestOracle ==
  /\ st.inb /\ NReq < MaxReq
  /\ \E who \in Users, n \in Intervals, cap \in Caps :
       \/ \E prov \in DOMAIN st.bind, rk \in FreeRanks :
            Step(E("RequestRandom", who, n, TRUE, cap, "", "", prov, rk))
       \/ DOMAIN st.bind = {} /\ Step(E("RequestRandom", who, n, TRUE, cap, "", "", "", 0))
Respond ==
  /\ st.inb
  /\ \E who \in Provs, c \in DOMAIN st.ctx, kind \in Kinds :
       Step(E("Respond", who, 0, FALSE, 0, c, kind, "", 0))

ZeroHeight ==
  /\ MaxZH > 0 /\ ZeroHeightOK(st) /\ st.h > 3
  /\ gh.zh < MaxZH
  /\ Step(E("ZeroHeight", "", 0, FALSE, 0, "", "", "", 0))

Next == BeginBlock \/ EndBlock \/ RequestPlain \/ RequestOracle \/ Respond \/ ZeroHeight
Spec == Init /\ [][Next]_vars

(***************************************************************************)
(* Exploratory (not in a tier): under weak fairness of the block handlers   *)
(* every pending block-hash request is eventually fulfilled.  The model's   *)
(* height is bounded, so requests are only made while their due block still *)
(* fits (MaxH); checked by MC_Random_live.cfg without a VIEW.               *)
(***************************************************************************)
RequestPlainLive ==
  /\ st.inb /\ NReq < MaxReq
  /\ \E who \in Users, n \in Intervals :
       st.h + n + 1 <= MaxH /\ Step(E("RequestRandom", who, n, FALSE, 0, "", "", "", 0))
LiveNext == BeginBlock \/ EndBlock \/ RequestPlainLive
LiveSpec == Init /\ [][LiveNext]_vars /\ WF_vars(BeginBlock) /\ WF_vars(EndBlock)
Live_Fulfilled ==
  \A u \in Users : \A hh \in 3..MaxH :
    (\E q \in st.pending : q.id = ReqId(u, hh) /\ ~q.oracle) ~> (ReqId(u, hh) \in DOMAIN st.results)

(* Generator *)
Rejects(h) == Cardinality({i \in DOMAIN h : ~h[i].ok})
GenNext == Next /\ (ev'.ok \/ Rejects(hist) < 2)
GenSpec == Init /\ [][GenNext]_vars
GenDepth == atoi(IOEnv.GEN_DEPTH)
(***************************************************************************)
(* Probe generator (round 7, negative probing).  On the way: accepted      *)
(* events only — among them seeds written down in unusual ways, malformed  *)
(* seeds of every kind, block intervals up to the largest accepted one —   *)
(* at most ProbeBurst messages per block; then ProbeLen events that the    *)
(* specification REJECTS, sent in the block of the last accepted messages: *)
(* intervals that overflow, fee caps of zero / above the balance / in the  *)
(* wrong denomination, answers by consumers, by providers that were not    *)
(* asked, to contexts that have not started / have answered / are gone,    *)
(* answers ValidateBasic must refuse, the answer that makes the handler    *)
(* panic.  The replay's epilogue runs the real chain until its queue (as   *)
(* the chain reports it) is empty and every batch has expired.             *)
(***************************************************************************)
SeedPays == {"upper", "dupbody", "extra", "dupseed", "ridlower"}
BadPays == {"short", "long", "nonhex", "num", "extraprop", "nobody", "emptybody", "duplastbad"}
RespondPay ==
  /\ st.inb
  /\ \E who \in Provs, c \in DOMAIN st.ctx :
       \/ \E pay \in SeedPays : Step([E("Respond", who, 0, FALSE, 0, c, "seed", "", 0) EXCEPT !.pay = pay])
       \/ \E pay \in BadPays : Step([E("Respond", who, 0, FALSE, 0, c, "bad", "", 0) EXCEPT !.pay = pay])
       \/ Step(E("Respond", who, 0, FALSE, 0, c, "badhex", "", 0))
       \/ Step([E("Respond", who, 0, FALSE, 0, c, "err", "", 0) EXCEPT !.pay = "err400"])
RequestFar ==
  /\ st.inb /\ NReq < MaxReq
  /\ \E who \in Users, k \in {0, 1, 700} : Step(E("RequestRandom", who, FarMax - st.h - k, FALSE, 0, "", "", "", 0))
NextP == Next \/ RespondPay \/ RequestFar

OddRequest ==
  /\ st.inb
  /\ \E who \in Users :
       \/ \E k \in {1, 2} : Step(E("RequestRandom", who, FarMax - st.h + k, FALSE, 0, "", "", "", 0))
       \/ \E k \in {1, 3} : Step(E("RequestRandom", who, 0 - k, FALSE, 0, "", "", "", 0))
       \/ \E n \in Intervals, cap \in {0, Funds + 1} : Step(E("RequestRandom", who, n, TRUE, cap, "", "", "", 0))
       \/ \E n \in Intervals, cap \in Caps, pay \in CapPays :
            Step([E("RequestRandom", who, n, TRUE, cap, "", "", "", 0) EXCEPT !.pay = pay])
OddRespond ==
  /\ st.inb
  /\ \E c \in {CtxId(i) : i \in 1..st.nctx} :
       \/ \E who \in Users \cup Provs, kind \in {"seed", "err", "bad"} : Step(E("Respond", who, 0, FALSE, 0, c, kind, "", 0))
       \/ \E who \in Provs, pay \in {"emptyout", "badresult", "nohdr", "ridshort"} :
            Step([E("Respond", who, 0, FALSE, 0, c, "seed", "", 0) EXCEPT !.pay = pay])
       \/ \E who \in Provs, pay \in {"errout", "ridshort"} :
            Step([E("Respond", who, 0, FALSE, 0, c, "err", "", 0) EXCEPT !.pay = pay])
       \/ \E who \in Provs : Step(E("Respond", who, 0, FALSE, 0, c, "short", "", 0))

ProbeLen == 4
ProbeBurst == 3
InProbe == Len(hist) + ProbeLen >= GenDepth
RECURSIVE SinceBegin(_)
SinceBegin(h) == IF h = <<>> \/ h[Len(h)].name = "BeginBlock" THEN 0 ELSE 1 + SinceBegin(SubSeq(h, 1, Len(h) - 1))
GenNextP ==
  \/ (~InProbe /\ NextP /\ ev'.ok /\ (ev'.name \in {"BeginBlock", "EndBlock"} \/ SinceBegin(hist) < ProbeBurst))
  \/ (InProbe /\ ~st.inb /\ BeginBlock)
  \/ (InProbe /\ (OddRequest \/ OddRespond \/ RequestOracle \/ Respond) /\ ~ev'.ok)
GenSpecP == Init /\ [][GenNextP]_vars

GenConstraint ==
  /\ Len(hist) <= GenDepth
  /\ (Len(hist) = GenDepth) => PrintT(<<"BEHAVIOUR", ToJson(hist)>>)

-----------------------------------------------------------------------------
Inv_C18_Due == C18_Due(st, gh)
Inv_C13_QueueSound == C13_QueueSound_Random(st, gh)
Inv_C13_QueueComplete == C13_QueueComplete_Random(st, gh)
Inv_C13_NoHalt == C13_NoHalt(ev)
Act_C18_Once == [][C18_Once(st, ev', st', gh')]_vars
Act_C18_Stable == [][C18_Stable(st, st', gh')]_vars
Act_C13_OnceOnTime == [][C13_OnceOnTime_Random(st, ev', st', gh')]_vars
Act_Rejected_NoEffect == [][Rejected_NoEffect(st, ev', st')]_vars
Act_X18_ResultHeight == [][X18_ResultHeight(st, ev', st')]_vars
Act_X18_DupReplace == [][X18_DupReplace(st, ev', st')]_vars
Act_X18_DupOrphan == [][X18_DupOrphan(st', gh')]_vars
Act_X18_DupResult == [][X18_DupResult(st, ev', st', gh')]_vars
Act_X18_LateAnswer == [][X18_LateAnswer(st, ev', st')]_vars
Act_X18_WrapRejected == [][X18_WrapRejected(st, ev')]_vars
Act_X18_ZeroHeightQueue == [][X18_ZeroHeightQueue(st, ev', st')]_vars

(* design-level sanity of the service slice: money is conserved *)
Inv_Conserved == TotalOf(st.bal, D) = Cardinality(Users) * Funds

View == <<st, gh>>
=============================================================================
