SPECIFICATION GenSpecP
CONSTANTS
  Users = {"u1", "u2"}
  Provs = {"p1", "p2"}
  RecordHist = TRUE
  MaxH = 14
  MaxFeeds = 2
  FeedNames = {"fa", "FA", "btc-stake"}
  Creators = {"u1", "u2"}
  Aggs = {"max", "min", "avg"}
  Limits = {1, 2, 3}
  ProvLists <- ProvListsOdd
  Thresholds = {1, 2}
  Caps = {12, 10}
  Freqs = {1, 2}
  Xs <- XsDefBig
  Prices <- PricesDef
  Funds = 60
  MaxTimeout = 2
  TaxNum = 1
  TaxDen = 10
  MaxEdits = 3
  DTs = {1, 4, 310}
  EditTFs <- EditTFsDef
  EditCaps = {10, 14}
  MaxCalls = 4
  Sends = {20}
CONSTRAINT GenConstraint
CHECK_DEADLOCK FALSE
