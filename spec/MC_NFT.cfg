SPECIFICATION Spec
CONSTANTS
  Users = {"u1", "u2", "u3"}
  Recipients = {"u1", "u2"}
  Creators = {"u1", "u3"}
  Classes = {"cla", "clb"}
  Tokens <- Tokens_2p1
  NameVals = {"a", "b"}
  UriVals = {}
  HashVals = {}
  DataVals = {}
  CMetaVals = {"m"}
  RecordHist = FALSE
VIEW View
INVARIANTS
  Inv_C14_Owner
  Inv_C14_Supply
  Inv_X14_Collection
  Inv_C14_HistOwner
  Inv_C14_HistSupply
PROPERTIES
  Act_C14_ActOnlyOwner
  Act_C14_OthersUntouched
  Act_C14_MintRestricted
  Act_C14_UpdateRestricted
  Act_C14_ClassHandover
  Act_C14_Ids
  Act_C14_HistAct
  Act_C14_HistRestricted
  Act_Rejected_NoEffect
  Act_X14_Recipient
  Act_X14_Fidelity
CHECK_DEADLOCK FALSE
