SPECIFICATION TraceSpec
CONSTANTS
  RecordHist = FALSE
  Users = {}
  Deputy = "dep"
  PlainDenoms = {}
  Assets = {}
  Templates = {}
  Locks = {}
  Dts = {}
  Params0 <- NoParams
  ParamAlts = {}
  MaxH = 0
  Claimants = {}
  ClaimSecrets = {}
  InitBal = 0
  MaxUpdates = 0
INVARIANTS
  Monitor
  Coverage
  Report
  DriftReport
POSTCONDITION TraceAccepted
CHECK_DEADLOCK FALSE
ALIAS Alias
