SPECIFICATION GenSpec
CONSTANTS
  RecordHist = TRUE
  TestMods = {"coinswap", "farm", "htlc", "service", "token"}
  KCoinswap = 4
  KFarm = 3
  KHtlc = 2
  KService = 2
  KToken = 3
CONSTRAINT GenConstraint
CHECK_DEADLOCK FALSE
