"""Property table: which specification, configurations, drivers and clauses decide
each listed property.  Tiers: quick / thorough."""
import json, os, shutil, subprocess, sys, time, glob
from concurrent.futures import ThreadPoolExecutor
import vlib
from vlib import log, Inconclusive, ROOT


def T(quick, thorough):
    return {"quick": quick, "thorough": thorough}


def bundled(rnd, qn=5, tn=30, pct=40):
    """Adds to a random-driver table one entry per tier that runs the tier's first configuration with
    multi-message transactions: runs of consecutive messages of one signer are delivered as ONE real
    transaction (chain.BundlePct, DESIGN 13.11); a failed bundle is logged as TxFailed events."""
    for tier, n in (("quick", qn), ("thorough", tn)):
        e = dict(rnd[tier][0])
        e["n"], e["procs"] = n, min(e.get("procs", 2), 3)
        e["cfg"] = (e.get("cfg", "") + "," if e.get("cfg") else "") + "bundle=%d" % pct
        rnd[tier].append(e)
    return rnd


class ModuleCheck:
    """A property decided by a module specification + its trace specification."""

    def __init__(self, module, spec, trace_spec, trace_cfg, clauses, mc, gen, rnd,
                 scenarios=(), required=(), level_note="", assumptions=(), gen_cfg="", epilogue=True, post=()):
        self.module, self.spec = module, spec
        self.binary = module   # harness/cmd/<binary>
        self.trace_spec, self.trace_cfg = trace_spec, trace_cfg
        self.clauses = set(clauses)
        self.mc, self.gen, self.rnd = mc, gen, rnd
        self.scenarios = list(scenarios)
        self.required = list(required)
        self.assumptions = list(assumptions)
        self.gen_cfg = gen_cfg
        # post hooks: fn(check, pid, tier, seed, work) -> (violations:[(path, text)], coverage:dict);
        # used by the big-number tier (rows from the real code evaluated by Apalache)
        self.post = list(post)

    # -- steps --------------------------------------------------------------
    def run_mc(self, tier, work, seed):
        """Exhaustive model checking of the design.  Returns coverage info and a
        list of counterexample behaviour files (model-level violations)."""
        info = {"configs": [], "states": 0, "transitions": 0, "actions": {}}
        cex = []
        for m in self.mc[tier]:
            t0 = time.time()
            extra = ["-coverage", "1"] if m.get("coverage") else []
            dump = os.path.join(work, "cex-" + m["cfg"] + ".json")
            extra += ["-dumpTrace", "json", dump]
            rc, out = vlib.run_tlc(work, self.spec, m["cfg"], workers=m.get("workers", vlib.NCPU),
                                   heap=m.get("heap", "6g"), extra=extra, timeout=m.get("timeout", 3000))
            g, d = vlib.tlc_counts(out)
            err = vlib.tlc_error(out)
            c = {"cfg": m["cfg"], "generated": g, "distinct": d, "wall_s": round(time.time() - t0, 1),
                 "result": "ok" if err is None else f"{err[0]}:{err[1]}"}
            acts = vlib.tlc_coverage_actions(out)
            for k, v in acts.items():
                info["actions"][k] = info["actions"].get(k, 0) + v[1]
            info["configs"].append(c)
            info["states"] += d
            info["transitions"] += g
            log(f"[mc] {m['cfg']}: {g} generated / {d} distinct, {c['result']} ({c['wall_s']}s)")
            if err is not None:
                if err[0] in ("invariant", "action") and os.path.exists(dump):
                    cex.append((m["cfg"], err[1], dump))
                else:
                    raise Inconclusive(f"TLC failed on {m['cfg']}: {err}\n{out[-2000:]}")
        return info, cex

    def cex_to_behaviour(self, dump, out_file):
        d = json.load(open(dump))
        d = d.get("counterexample", d)
        evs = []
        for s in d["state"]:
            st = s[1] if isinstance(s, list) else s
            e = st.get("ev")
            if e and e.get("name") != "Init":
                evs.append(e)
        with open(out_file, "w") as f:
            f.write(json.dumps(evs) + "\n")

    def run_gen(self, tier, work, seed):
        outs = []
        jobs = []
        if os.environ.get("VERIF_SKIP_GEN"):
            return 0, []
        for gi, g in enumerate(self.gen[tier]):
            for k in range(g.get("seeds", 1)):
                jobs.append((gi, g, seed * 1000 + gi * 100 + k))

        def one(job):
            gi, g, sd = job
            sub = os.path.join(work, f"gen{gi}-{sd}")
            os.makedirs(sub, exist_ok=True)
            vlib.copy_specs(sub)
            beh = os.path.join(sub, "beh.ndjson")
            n, out = vlib.gen_behaviours(sub, self.spec, g["cfg"], beh, mode=g.get("mode", "simulate"),
                                         num=g.get("num", 50), depth=g.get("depth", 12), seed=sd,
                                         timeout=g.get("timeout", 1500))
            tr = os.path.join(work, f"trace-gen{gi}-{sd}.ndjson")
            vlib.run_harness(self.module, "replay", tr, inp=beh, cfg=g.get("driver_cfg", self.gen_cfg), tolerate=True)
            return n, tr

        total = 0
        with ThreadPoolExecutor(max_workers=max(1, vlib.NCPU - 2)) as ex:
            for n, tr in ex.map(one, jobs):
                total += n
                outs.append(tr)
        log(f"[gen] {total} TLC-generated behaviours replayed on the real code")
        return total, outs

    def run_random(self, tier, work, seed):
        outs = []
        jobs = []
        for ri, r in enumerate(self.rnd[tier]):
            for k in range(r.get("procs", 1)):
                jobs.append((ri, r, seed * 7919 + ri * 101 + k))

        def one(job):
            ri, r, sd = job
            tr = os.path.join(work, f"trace-rnd{ri}-{sd}.ndjson")
            vlib.run_harness(self.module, "random", tr, seed=sd, n=r["n"], len=r["len"], cfg=r.get("cfg", ""), tolerate=True)
            return tr

        with ThreadPoolExecutor(max_workers=max(1, vlib.NCPU - 2)) as ex:
            outs = list(ex.map(one, jobs))
        return outs

    def run_scenarios(self, work):
        outs = []
        for i, sc in enumerate(self.scenarios):
            path = os.path.join(ROOT, sc["file"])
            tr = os.path.join(work, f"trace-scn{i}.ndjson")
            vlib.run_harness(self.module, "replay", tr, inp=path, cfg=sc.get("cfg", ""), tolerate=True)
            outs.append(tr)
        return outs

    # -- verdict ------------------------------------------------------------
    def judge(self, pid, trace_file, work, seed, tag):
        self.unrepresentable = []
        res = vlib.validate_trace(self.trace_spec, self.trace_cfg, trace_file, work)
        known = vlib.load_known()
        lines = None
        viol, known_hits, other = [], {}, []
        for ln, clauses, why in res["fails"]:
            mine = [c for c in clauses if c in self.clauses]
            if not mine:
                other.append((ln, clauses))
                continue
            if lines is None:
                lines = open(trace_file).read().split("\n")
            rec = json.loads(lines[ln - 1])
            rec["why"] = why
            for c in mine:
                if c.endswith("_ScaleExact"):
                    # the harness could not express an observed value exactly in model units:
                    # the step cannot be judged (inconclusive), it is not a statement about the property
                    self.unrepresentable.append((ln, c))
                    continue
                kf = match_known(known, pid, c, rec)
                if kf:
                    known_hits.setdefault(kf["id"], kf)
                else:
                    viol.append((ln, c))
        return res, viol, known_hits, other

    def report_violation(self, pid, trace_file, viol, seed, tag, cfg):
        ln, clause = viol[0]
        sub = vlib.extract_subtrace(trace_file, ln)
        os.makedirs(os.path.join(ROOT, "replays"), exist_ok=True)
        path = os.path.join(ROOT, "replays", f"{pid}-{tag}-seed{seed}{vlib.REPLAY_TAG}.ndjson")
        evs = []
        for x in sub:
            if not x.strip():
                continue
            rec = json.loads(x)
            e = rec["ev"]
            if rec.get("orig"):          # member of a failed bundle: re-execute the message itself
                e = dict(e, name=rec["orig"])
            evs.append(e)
        evs = [e for e in evs if e.get("name") != "Init"]
        cfg = json.loads(sub[0]).get("cfg", cfg) if sub else cfg
        with open(path, "w") as f:
            f.write(json.dumps(evs) + "\n")
        with open(path + ".trace", "w") as f:
            f.writelines(sub)
        with open(path + ".meta", "w") as f:
            json.dump({"property": pid, "clause": clause, "module": self.module, "driver_cfg": cfg,
                       "failing_line": len(sub), "all": [(l, c) for l, c in viol[:50]]}, f, indent=1)
        return path, clause

    def run(self, pid, tier, seed, work, replay=None, skip_mc=False, t0=None):
        t0 = t0 or time.time()
        if replay:
            return self.replay(pid, replay, work, seed)
        rc, cov, nviol = self.run_core(pid, tier, seed, work, skip_mc)
        vlib.write_evidence(pid, tier, seed, cov, time.time() - t0, nviol, self.assumptions)
        return rc

    def run_core(self, pid, tier, seed, work, skip_mc=False):
        cov = {"rule": "states/transitions: TLC exhaustive run(s) of the module specification under the "
                       "listed configs; traces: behaviours executed on the real irismod code (TLC-generated, "
                       "seeded random, scripted scenarios) and validated line by line by TLC against the "
                       "specification's clauses (monitor) and its step function (strict)."}
        mc_info, cex = ({"configs": [], "states": 0, "transitions": 0, "actions": {}}, [])
        if not skip_mc:
            mc_info, cex = self.run_mc(tier, work, seed)
        # 1. model-level counterexamples are replayed on the real code first
        traces = []
        cex_traces = []
        for i, (cfg, prop, dump) in enumerate(cex):
            beh = os.path.join(work, f"cex{i}.ndjson")
            self.cex_to_behaviour(dump, beh)
            tr = os.path.join(work, f"trace-cex{i}.ndjson")
            vlib.run_harness(self.module, "replay", tr, inp=beh, cfg=self.gen_cfg)
            cex_traces.append((cfg, prop, tr))
            traces.append(tr)
        t1 = time.time()
        ngen, gtr = self.run_gen(tier, work, seed)
        traces += gtr
        t2 = time.time()
        traces += self.run_random(tier, work, seed)
        traces += self.run_scenarios(work)
        t3 = time.time()
        log(f"[time] gen+replay {t2-t1:.0f}s, random+scenarios {t3-t2:.0f}s")
        allf = os.path.join(work, "all.ndjson")
        with open(allf, "w") as out:
            for t in traces:
                with open(t) as f:
                    shutil.copyfileobj(f, out)
        ntr = vlib.count_traces(allf)
        res, viol, known_hits, other = self.judge(pid, allf, work, seed, "run")
        unrep = list(self.unrepresentable)
        log(f"[time] trace validation {time.time()-t3:.0f}s")
        log(f"[trace] {ntr} traces / {res['lines']} events validated in {res['shards']} shards; "
            f"drift steps={res['drift']}; clause failures: mine={len(viol)} known={len(known_hits)} other={len(other)}")
        for d in res["drift_first"][:5]:
            log(f"DRIFT: first-divergence line={d['line']} action={d['event']} (spec step != code step; not a verdict)")
        if other:
            cnt = {}
            for _, cl in other:
                for c in cl:
                    cnt[c] = cnt.get(c, 0) + 1
            log(f"[trace] clause failures outside this property (diagnostic / other properties): {cnt}")
        for kf in known_hits.values():
            log(f"KNOWN-FINDING: property={pid} {kf['description']}")
        missing = [r for r in self.required if res["exercised"].get(r, 0) == 0]
        cov.update({
            "states": max(1, mc_info["states"]), "transitions": max(1, mc_info["transitions"]),
            "mc_configs": mc_info["configs"], "mc_actions": mc_info["actions"],
            "exhaustive": bool(mc_info["configs"]) and all(c["result"] == "ok" for c in mc_info["configs"]),
            "traces_validated_against_impl": ntr, "events_validated": res["lines"],
            "tlc_generated_behaviours": ngen, "drift_steps": res["drift"],
            "clause_antecedents": res["exercised"], "clauses": sorted(self.clauses),
            "clause_failures_other_properties": len(other),
            "model_counterexamples": [{"cfg": c, "property": p} for c, p, _ in cex_traces],
            "samples": vlib.sample_lines(allf, 3),
        })
        # post hooks (big-number tiers).  A hook that cannot finish (solver killed, timeout) must not hide
        # a clause failure the trace validation has already established: its inconclusiveness is reported
        # only if nothing else decides the run.
        hook_inconclusive = None
        for hook in self.post:
            try:
                pv, pcov = hook(self, pid, tier, seed, work)
            except Inconclusive as ex:
                hook_inconclusive = ex
                log(f"[post] {ex}")
                continue
            cov.update(pcov)
            if pv and not viol:
                path, text = pv[0]
                log(text)
                print(f"VIOLATION property={pid} replay={path}", flush=True)
                return 1, cov, len(pv)
        if viol:
            path, clause = self.report_violation(pid, allf, viol, seed, tier, self.gen_cfg)
            # reproduce once more from recorded inputs
            rp = self.replay(pid, path, work, seed, quiet=True)
            if rp != 1:
                log(f"INCONCLUSIVE property={pid}: clause {clause} failed but did not reproduce on replay ({path})")
                return 2, cov, len(viol)
            log(f"clause {clause} failed on a real-code trace (and {len(viol)-1} more clause instances)")
            print(f"VIOLATION property={pid} replay={path}", flush=True)
            return 1, cov, len(viol)
        if hook_inconclusive is not None:
            raise hook_inconclusive
        if vlib.CRASHES:
            log(f"INCONCLUSIVE property={pid}: {len(vlib.CRASHES)} driver run(s) died and no clause failed on what they "
                f"had recorded (first: {vlib.CRASHES[0]})")
            return 2, cov, 0
        if unrep:
            log(f"INCONCLUSIVE property={pid}: {len(unrep)} step(s) carried a value the harness could not express exactly "
                f"in model units (first: {unrep[0][1]} at trace line {unrep[0][0]}); those steps were not judged")
            return 2, cov, 0
        if cex_traces:
            log(f"MODEL-ONLY: TLC found {[p for _, p, _ in cex_traces]} in the model but the real code "
                f"satisfies every clause on the replayed counterexample; the model is wrong or a known finding masks it")
            if not known_hits:
                return 2, cov, 0
        if missing:
            log(f"INCONCLUSIVE property={pid}: antecedents never exercised: {missing}")
            return 2, cov, 0
        return 0, cov, 0

    def replay(self, pid, path, work, seed, quiet=False):
        if path.endswith(".bigrows.json") and getattr(self, "big_replay", None):
            return self.big_replay(self, pid, path, work, seed)
        meta = {}
        if os.path.exists(path + ".meta"):
            meta = json.load(open(path + ".meta"))
        tr = os.path.join(work, "trace-replay.ndjson")
        vlib.run_harness(self.module, "replay", tr, inp=path, cfg=meta.get("driver_cfg", self.gen_cfg) + ",epilogue=0",
                         tolerate=True)
        sub = os.path.join(work, "replay-val")
        os.makedirs(sub, exist_ok=True)
        vlib.copy_specs(sub)
        res, viol, known_hits, other = self.judge(pid, tr, sub, seed, "replay")
        if viol:
            if not quiet:
                for ln, c in viol[:10]:
                    log(f"replay: clause {c} fails at event {ln}")
                print(f"VIOLATION property={pid} replay={path}", flush=True)
            return 1
        if not quiet:
            log("replay: all clauses hold")
        return 0


def match_known(known, pid, clause, rec):
    """A known finding masks a failing clause instance only if its discriminator
    matches the failing trace line: every dotted path of `match` (or of one of
    the alternatives in `match_any`) must have the stated value."""
    def get(path):
        cur = rec
        for part in path.split("."):
            cur = cur.get(part) if isinstance(cur, dict) else None
        return cur

    for kf in known.get("findings", []):
        if kf["property"] != pid or clause not in kf["clauses"]:
            continue
        alts = kf.get("match_any") or [kf.get("match", {})]
        for alt in alts:
            if all(get(path) == want for path, want in alt.items()):
                return kf
    return None


class AggregateCheck:
    """A property whose clauses live in several module specifications (C13):
    every part runs its own pipeline restricted to its clauses; the verdict is
    the worst one, the evidence the sum."""
    binary = None

    def __init__(self, parts, assumptions=()):
        self.parts = parts          # list of ModuleCheck
        self.assumptions = list(assumptions)

    def run(self, pid, tier, seed, work, replay=None, skip_mc=False, t0=None):
        t0 = t0 or time.time()
        if replay:
            meta = json.load(open(replay + ".meta")) if os.path.exists(replay + ".meta") else {}
            for p in self.parts:
                if p.module == meta.get("module", p.module):
                    vlib.build_harness(p.binary)
                    return p.replay(pid, replay, work, seed)
            return 2
        total = {"states": 0, "transitions": 0, "traces_validated_against_impl": 0, "events_validated": 0,
                 "samples": [], "parts": {}, "exhaustive": True,
                 "rule": "sum over the module specifications that own a time-bound queue; see parts"}
        worst, nviol = 0, 0
        for p in self.parts:
            vlib.build_harness(p.binary)
            sub = os.path.join(work, "part-" + p.module)
            os.makedirs(sub, exist_ok=True)
            vlib.copy_specs(sub)
            rc, cov, nv = p.run_core(pid, tier, seed, sub, skip_mc)
            nviol += nv
            for k in ("states", "transitions", "traces_validated_against_impl", "events_validated"):
                total[k] += cov.get(k, 0)
            total["samples"] += cov.get("samples", [])[:1]
            total["exhaustive"] = total["exhaustive"] and cov.get("exhaustive", False)
            total["parts"][p.module] = {k: cov.get(k) for k in ("states", "transitions", "traces_validated_against_impl",
                                                                 "clause_antecedents", "clauses", "drift_steps", "mc_configs")}
            if rc == 1:
                worst = 1
                break
            if rc == 2:
                worst = 2
        vlib.write_evidence(pid, tier, seed, total, time.time() - t0, nviol, self.assumptions)
        return worst


# ---------------------------------------------------------------------------
# Property definitions live in bin/propdefs/<module>.py; each defines
#   PROPS = {"Cnn": ModuleCheck(...)}   and   TEXT = {"Cnn": {design, text, note}}
PROPS = {}
TEXT = {}
# RECORD entries of all modules: drivers whose random histories are recorded
# (VERIF_RECORD_DIR) and replayed by the cross-module checks C11 / C12.
RECORDS = []
# CLOCK entries: driver modes that build a *live* history whose chain time sits
# next to a wall-clock threshold used in the code (C11's clock scenario).
CLOCKS = []


def _load():
    import importlib.util
    d = os.path.join(os.path.dirname(os.path.abspath(__file__)), "propdefs")
    for f in sorted(glob.glob(os.path.join(d, "*.py"))):
        spec = importlib.util.spec_from_file_location("propdefs_" + os.path.basename(f)[:-3], f)
        m = importlib.util.module_from_spec(spec)
        sys.modules[spec.name] = m
        spec.loader.exec_module(m)
        RECORDS.extend(getattr(m, "RECORD", []))
        if getattr(m, "CLOCK", None):
            CLOCKS.append(getattr(m, "CLOCK"))
        PROPS.update(getattr(m, "PROPS", {}))
        TEXT.update(getattr(m, "TEXT", {}))


_load()
