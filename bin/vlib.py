"""Shared machinery for /verif/bin/check: build, TLC runs (exhaustive, generator,
trace validation), harness runs, verdicts, evidence.  See DESIGN.md sections 2, 6, 7."""
import json, os, re, shutil, subprocess, sys, tempfile, time, glob, fcntl, hashlib
from concurrent.futures import ThreadPoolExecutor

ROOT = os.path.dirname(os.path.dirname(os.path.abspath(__file__)))
SPEC = os.path.join(ROOT, "spec")
# VERIF_REPO: the irismod tree to verify (default /repo).  A different tree
# (a scratch worktree with a candidate change) gets its own copy of the harness
# module with the replace directives rewritten, and its own build directory.
REPO = os.environ.get("VERIF_REPO", "/repo").rstrip("/")
# replay files of a run against another tree carry that tree's tag (concurrent trials must not overwrite each other)
REPLAY_TAG = "" if REPO == "/repo" else "-" + __import__("hashlib").sha1(REPO.encode()).hexdigest()[:8]
BUILD = os.path.join(ROOT, ".build") if REPO == "/repo" else os.path.join(
    "/tmp", "verif-build-" + hashlib.sha1(REPO.encode()).hexdigest()[:10])
JAR = "/opt/veriftools/tla/tla2tools.jar:/opt/veriftools/tla/CommunityModules-deps.jar"
GOENV = dict(GOFLAGS="-mod=mod", GOPROXY="off", GOSUMDB="off", GOTOOLCHAIN="local")
NCPU = os.cpu_count() or 8


class Inconclusive(Exception):
    pass


def log(*a):
    print(*a, flush=True)


def harness_bin(module):
    return os.path.join(BUILD, "harness-" + module)


IRISMODS = ["coinswap", "farm", "htlc", "mt", "nft", "oracle", "random", "record", "service", "token"]
COVDIR = None   # set by bin/check: directory collecting Go coverage counters of the harness runs


def cover_pkgs(module):
    """Packages whose statement coverage is reported as evidence: the irismod
    module(s) a harness binary drives (keeper, types, root)."""
    mods = {"oracle": ["oracle", "service"], "random": ["random", "service"], "farm": ["farm", "coinswap"],
            "tokenbig": ["token"], "coinswapbig": ["coinswap"], "params": ["coinswap", "farm", "htlc", "service", "token"],
            "replica": IRISMODS, "genesis": IRISMODS}.get(module, [module] if module in IRISMODS else [])
    out = []
    for m in mods:
        out += [f"mods.irisnet.org/modules/{m}", f"mods.irisnet.org/modules/{m}/keeper", f"mods.irisnet.org/modules/{m}/types"]
        if m == "token":
            out.append("mods.irisnet.org/modules/token/types/v1")
    return out


def build_harness(module):
    """Rebuild the module's harness binary from /repo's current working tree (tag verif)."""
    os.makedirs(BUILD, exist_ok=True)
    hdir = os.path.join(ROOT, "harness")
    with open(os.path.join(BUILD, ".lock"), "w") as lk:
        fcntl.flock(lk, fcntl.LOCK_EX)
        if REPO != "/repo":
            alt = os.path.join(BUILD, "harness")
            shutil.rmtree(alt, ignore_errors=True)
            shutil.copytree(hdir, alt)
            gm = open(os.path.join(alt, "go.mod")).read().replace("=> /repo/", "=> " + REPO + "/")
            open(os.path.join(alt, "go.mod"), "w").write(gm)
            hdir = alt
        gosum = os.path.join(hdir, "go.sum")
        shutil.copy(REPO + "/e2e/go.sum", gosum)
        env = dict(os.environ, **GOENV)
        t0 = time.time()
        cov = cover_pkgs(module) if COVDIR else []
        covargs = ["-cover", "-coverpkg=" + ",".join(["verif/harness/cmd/" + module] + cov)] if cov else []
        p = subprocess.run(["go", "build", "-tags", "verif"] + covargs + ["-o", harness_bin(module), "./cmd/" + module],
                           cwd=hdir, env=env, capture_output=True, text=True)
        if p.returncode != 0:
            raise Inconclusive("harness build failed:\n" + p.stdout + p.stderr)
        log(f"[build] harness-{module} built in {time.time()-t0:.1f}s")


def scratch(prefix):
    return tempfile.mkdtemp(prefix="verif-" + prefix + "-")


def copy_specs(dst):
    for f in glob.glob(os.path.join(SPEC, "*.tla")) + glob.glob(os.path.join(SPEC, "*.cfg")):
        shutil.copy(f, dst)


def run_tlc(workdir, spec, cfg, workers=1, heap="4g", extra=(), env=None, timeout=3600, stack=None):
    cmd = ["java", "-XX:+UseParallelGC", f"-XX:ParallelGCThreads={max(2, min(8, workers))}", f"-Xmx{heap}"]
    if stack:
        cmd.append(f"-Xss{stack}")
    cmd += ["-cp", JAR, "tlc2.TLC", "-workers", str(workers), "-metadir",
            os.path.join(workdir, "meta-" + os.path.splitext(cfg)[0] + "-" + str(time.time_ns())),
            "-config", cfg] + list(extra) + [spec]
    e = dict(os.environ)
    if env:
        e.update(env)
    try:
        p = subprocess.run(cmd, cwd=workdir, env=e, capture_output=True, text=True, timeout=timeout)
    except subprocess.TimeoutExpired as ex:
        out = (ex.stdout or b"")
        if isinstance(out, bytes):
            out = out.decode("utf8", "replace")
        return 124, out + "\n[timeout]"
    return p.returncode, p.stdout + p.stderr


def tlc_counts(out):
    """(generated, distinct) from TLC's summary line."""
    m = re.findall(r"(\d[\d,]*) states generated, (\d[\d,]*) distinct states found", out)
    if not m:
        return 0, 0
    g, d = m[-1]
    return int(g.replace(",", "")), int(d.replace(",", ""))


def tlc_error(out):
    """Name of the violated invariant / property, or other error text; None if clean."""
    m = re.search(r"Error: Invariant (\S+) is violated", out)
    if m:
        return ("invariant", m.group(1))
    m = re.search(r"Error: Action property (\S+) is violated", out)
    if m:
        return ("action", m.group(1))
    if "Model checking completed. No error has been found." in out:
        return None
    m = re.search(r"Error: (.*)", out)
    if m:
        return ("error", m.group(1))
    if "[timeout]" in out:
        return ("timeout", "timeout")
    return ("error", "no completion message")


def tlc_coverage_actions(out):
    """Per-action counts from -coverage output: {action: (distinct, total)}."""
    acts = {}
    for m in re.finditer(r"<(\w+) line \d+, col \d+ to line \d+, col \d+ of module \w+>: (\d+):(\d+)", out):
        acts[m.group(1)] = (int(m.group(2)), int(m.group(3)))
    return acts


# ---------------------------------------------------------------------------
# TLA+ value text -> Python (enough for the tuples our specs PrintT)
_tok = re.compile(r'\s*(<<|>>|\{|\}|\[|\]|\|->|,|"(?:[^"\\]|\\.)*"|-?\d+|TRUE|FALSE|[A-Za-z_][A-Za-z0-9_\-]*|:>|@@|\(|\))')


def parse_tla(text):
    toks = _tok.findall(text)
    pos = 0

    def peek():
        return toks[pos] if pos < len(toks) else None

    def eat(t=None):
        nonlocal pos
        v = toks[pos]
        if t is not None and v != t:
            raise ValueError(f"expected {t} got {v} in {text[:200]}")
        pos += 1
        return v

    def val():
        t = peek()
        if t == "<<":
            eat()
            out = []
            while peek() != ">>":
                out.append(val())
                if peek() == ",":
                    eat()
            eat(">>")
            return out
        if t == "{":
            eat()
            out = []
            while peek() != "}":
                out.append(val())
                if peek() == ",":
                    eat()
            eat("}")
            return out
        if t == "[":
            eat()
            out = {}
            while peek() != "]":
                k = eat()
                eat("|->")
                out[k.strip('"')] = val()
                if peek() == ",":
                    eat()
            eat("]")
            return out
        if t == "(":
            eat()
            out = {}
            while peek() != ")":
                k = val()
                eat(":>")
                out[str(k)] = val()
                if peek() == "@@":
                    eat()
            eat(")")
            return out
        eat()
        if t == "TRUE":
            return True
        if t == "FALSE":
            return False
        if t.startswith('"'):
            return json.loads(t)
        if re.fullmatch(r"-?\d+", t):
            return int(t)
        return t

    return val()


def printed_tuples(out, tag):
    """All PrintT(<<"tag", ...>>) values in TLC output (possibly multi-line)."""
    res = []
    i = 0
    needle = '<<"%s"' % tag
    needle2 = '<< "%s"' % tag
    lines = out.split("\n")
    n = len(lines)
    while i < n:
        ln = lines[i]
        if ln.startswith(needle) or ln.startswith(needle2):
            buf = ln
            depth = ln.count("<<") - ln.count(">>")
            while depth > 0 and i + 1 < n:
                i += 1
                buf += "\n" + lines[i]
                depth += lines[i].count("<<") - lines[i].count(">>")
            try:
                res.append(parse_tla(buf))
            except Exception as ex:  # pragma: no cover
                res.append([tag, "PARSE-ERROR", str(ex), buf[:200]])
        i += 1
    return res


# ---------------------------------------------------------------------------
CRASHES = []


def _salvage(out):
    """Keep the complete lines of a trace whose writer died; True if a usable trace remains."""
    try:
        data = open(out, "rb").read()
    except OSError:
        return False
    cut = data.rfind(b"\n")
    if cut < 0:
        return False
    data = data[:cut + 1]
    if data.count(b"\n") < 2:
        return False
    open(out, "wb").write(data)
    return True


def run_harness(module, mode, out, **kw):
    cmd = [harness_bin(kw.get("binary", module)), mode, "-out", out]
    for k in ("in", "seed", "n", "len", "cfg"):
        v = kw.get(k if k != "in" else "inp")
        if v is not None and v != "":
            cmd += ["-" + k, str(v)]
    t0 = time.time()
    env = dict(os.environ, GOCOVERDIR=COVDIR) if COVDIR else None
    p = subprocess.run(cmd, capture_output=True, text=True, timeout=kw.get("timeout", 3600), env=env)
    if p.returncode != 0 and kw.get("tolerate") and _salvage(out):
        # the driver died (typically on a state it did not expect, which only a broken tree produces);
        # what the real code did up to that point was recorded and is validated like any other trace.
        # Without a clause failure in it the run is inconclusive (ModuleCheck.run_core), never a pass.
        msg = f"harness {module} {mode} died rc={p.returncode}: {(p.stderr or '').strip().splitlines()[0:1]}"
        CRASHES.append(msg)
        log(f"[harness] {msg}; the recorded part of the execution is validated")
        return time.time() - t0
    if p.returncode != 0:
        raise Inconclusive(f"harness {module} {mode} failed rc={p.returncode}:\n{p.stdout[-2000:]}{p.stderr[-4000:]}")
    return time.time() - t0


def is_init_line(line):
    return '"name":"Init"' in line[:1000]


def split_trace(path, shards, workdir, max_lines=1500):
    """Split a concatenated trace at Init lines into files of <= max_lines
    (whole traces only).  Returns [(file, first_global_line_index)]."""
    files = []
    cur, cur_n, first = None, 0, 1
    idx = 0
    with open(path) as f:
        for line in f:
            idx += 1
            is_init = is_init_line(line)
            if cur is None or (is_init and cur_n >= max_lines):
                if cur:
                    cur.close()
                fn = os.path.join(workdir, f"shard{len(files)}.ndjson")
                cur = open(fn, "w")
                files.append((fn, idx))
                cur_n = 0
            cur.write(line)
            cur_n += 1
    if cur:
        cur.close()
    return files


def validate_trace(trace_spec, trace_cfg, trace_file, workdir, max_lines=1500, parallel=None):
    """Trace validation in monitor+strict mode.  Returns dict with fails
    [(global_line, [clauses])], exercised {name: count}, drift, lines."""
    parallel = parallel or max(1, min(10, NCPU - 2))
    shards = split_trace(trace_file, parallel, workdir, max_lines)

    def one(sh):
        fn, first = sh
        rc, out = run_tlc(workdir, trace_spec, trace_cfg, workers=1, heap="1536m",
                          env={"TRACE_FILE": fn}, timeout=3600, stack="64m")
        return fn, first, rc, out

    res = {"fails": [], "exercised": {}, "drift": 0, "drift_first": [], "lines": 0, "shards": len(shards),
           "states": 0}
    with ThreadPoolExecutor(max_workers=parallel) as ex:
        for fn, first, rc, out in ex.map(one, shards):
            end = printed_tuples(out, "TRACE-END")
            if not end or "Model checking completed. No error has been found." not in out:
                raise Inconclusive(f"trace validation did not complete on {fn} (rc={rc}):\n" + out[-3000:])
            nlines, drift, drift_at = end[-1][1], end[-1][2], end[-1][3]
            res["lines"] += nlines
            res["drift"] += drift
            g, d = tlc_counts(out)
            res["states"] += d
            for t in printed_tuples(out, "DRIFT"):
                res["drift_first"].append({"line": first + t[1] - 1, "event": t[2]})
            for t in printed_tuples(out, "CLAUSE-FAIL"):
                res["fails"].append((first + t[1] - 1, sorted(t[2]), t[3] if len(t) > 3 else ""))
            for t in printed_tuples(out, "EXERCISED"):
                for c in t[1]:
                    res["exercised"][c] = res["exercised"].get(c, 0) + 1
    res["fails"].sort()
    return res


def extract_subtrace(trace_file, line_no):
    """The trace (from its Init line) containing global line line_no, up to it."""
    lines = []
    with open(trace_file) as f:
        for i, line in enumerate(f, 1):
            if is_init_line(line):
                lines = []
            lines.append(line)
            if i == line_no:
                break
    return lines


def count_traces(trace_file):
    n = 0
    with open(trace_file) as f:
        for line in f:
            if is_init_line(line):
                n += 1
    return n


def sample_lines(trace_file, k=3, maxlen=600):
    out = []
    with open(trace_file) as f:
        for i, line in enumerate(f):
            if i in (1, 2, 5)[:k] or (i < 40 and '"ok":true' in line and '"name":"EndBlock"' not in line and len(out) < k):
                try:
                    out.append(json.loads(line)["ev"])
                except Exception:
                    pass
            if len(out) >= k:
                break
    return out


def gen_behaviours(workdir, spec, cfg, out_file, mode="simulate", num=100, depth=12, seed=1, timeout=1200, siblings=3):
    """Use TLC as a generator: the spec prints BEHAVIOUR tuples (history as
    JSON) from its generator constraint; collect them into an ndjson file."""
    extra = []
    if mode == "simulate":
        extra = ["-simulate", f"num={num}", "-depth", str(depth), "-seed", str(seed)]
    else:
        extra = ["-seed", str(seed)]
    rc, out = run_tlc(workdir, spec, cfg, workers=1, heap="4g", extra=extra,
                      env={"GEN_DEPTH": str(depth - 1)}, timeout=timeout)
    behs = []
    for m in re.finditer(r'^<<"BEHAVIOUR", "(.*)">>$', out, re.M):
        s = json.loads('"' + m.group(1) + '"')
        behs.append(s)
    if not behs:
        raise Inconclusive("generator produced no behaviours:\n" + out[-3000:])
    # In simulation mode TLC evaluates the constraint on every successor of the
    # last state, so behaviours come in sibling groups sharing all but the last
    # event; keep at most `siblings` per group (distinct last-event names first).
    seen = set()
    groups = {}
    for b in behs:
        if b in seen:
            continue
        seen.add(b)
        evs = json.loads(b)
        key = json.dumps(evs[:-1], sort_keys=True)
        groups.setdefault(key, []).append((evs[-1].get("name"), evs[-1].get("ok"), b))
    kept = 0
    with open(out_file, "w") as f:
        for key, lst in groups.items():
            names = set()
            pick = []
            for nm, ok, b in lst:
                if (nm, ok) not in names:
                    names.add((nm, ok))
                    pick.append(b)
            for b in pick[:siblings]:
                f.write(b + "\n")
                kept += 1
    return kept, out


def evidence_dir():
    # evidence committed under /verif describes runs against /repo itself; a run
    # against another tree (VERIF_REPO, seeded-change trials) keeps its evidence apart
    return os.path.join(ROOT, "evidence") if REPO == "/repo" else os.path.join(BUILD, "evidence")


def write_evidence(pid, tier, seed, coverage, wall, violations, assumptions):
    os.makedirs(evidence_dir(), exist_ok=True)
    cc = code_coverage()
    if cc:
        coverage = dict(coverage, code_statements=cc,
                        code_statements_note="Go statement coverage (percent) of the irismod packages reached by the harness "
                                             "executions of this run; queries, CLI, simulation and migration code is not driven")
    ev = {"property_id": pid, "tier": tier, "seed": seed, "level": "model_checking",
          "coverage": coverage, "assumptions": assumptions, "wall_s": round(wall, 1),
          "violations": violations}
    with open(os.path.join(evidence_dir(), pid + ".json"), "w") as f:
        json.dump(ev, f, indent=1, sort_keys=True, default=str)


def load_known():
    p = os.path.join(ROOT, "known_findings.json")
    if not os.path.exists(p):
        return {"findings": [], "fixed": []}
    return json.load(open(p))


# ---------------------------------------------------------------------------
# Big-number tier (DESIGN 4.3): rows recorded from the real code are written as a
# TLA+ sequence of records and the property's clause operators — the same
# module TLC uses on the small universe — are evaluated by Apalache/Z3 over
# unbounded integers.  A picker variable makes the counterexample name the row.
def apalache_steps(workdir, name, extends, fields, rows, stepok, timeout=1500, max_fail=5):
    """fields: [(name, 'Int'|'Bool'|'Str')]; rows: list of dicts (ints may be
    strings of digits); stepok: TLA+ text of the body of StepOK(s).
    Returns (ok_rows, failing_row_indexes, wall_s)."""
    def lit(v, ty):
        if ty == "Bool":
            return "TRUE" if v else "FALSE"
        if ty == "Str":
            return json.dumps(str(v))
        return str(int(v))
    ty = ", ".join(f"{n}: {t}" for n, t in fields)
    t0 = time.time()
    live = list(range(len(rows)))
    failing = []
    while live:
        body = ",\n  ".join("[" + ", ".join(f"{n} |-> {lit(rows[i][n], t)}" for n, t in fields) + "]" for i in live)
        mod = f"""------------------------------ MODULE {name} ------------------------------
EXTENDS Integers, Sequences, {extends}
VARIABLE
  \\* @type: Int;
  pick
\\* @type: Seq({{{ty}}});
Steps == <<
  {body}
>>
\\* @type: ({{{ty}}}) => Bool;
StepOK(s) ==
{stepok}
Init == pick \\in DOMAIN Steps
Next == UNCHANGED pick
Inv == StepOK(Steps[pick])
=============================================================================
"""
        with open(os.path.join(workdir, name + ".tla"), "w") as f:
            f.write(mod)
        outdir = os.path.join(workdir, "_apalache-out")
        shutil.rmtree(outdir, ignore_errors=True)
        try:
            p = subprocess.run(["apalache-mc", "check", "--length=0", "--init=Init", "--next=Next", "--inv=Inv",
                                f"--out-dir={outdir}", name + ".tla"], cwd=workdir, capture_output=True, text=True,
                               timeout=timeout, env=dict(os.environ, JVM_ARGS="-Xmx4g"))
        except subprocess.TimeoutExpired:
            raise Inconclusive(f"apalache timed out on {name}")
        out = p.stdout + p.stderr
        if "The outcome is: NoError" in out:
            break
        if "The outcome is: Error" not in out:
            raise Inconclusive(f"apalache failed on {name}:\n{out[-2000:]}")
        vio = glob.glob(os.path.join(outdir, "**", "violation1.tla"), recursive=True)
        m = re.search(r"State0 ==\s*pick = (\d+)", open(vio[0]).read()) if vio else None
        if not m:
            raise Inconclusive(f"apalache counterexample not understood for {name}")
        k = int(m.group(1)) - 1
        failing.append(live[k])
        del live[k]
        if len(failing) >= max_fail:
            break
    return len(rows) - len(failing), failing, time.time() - t0


def code_coverage():
    """Statement coverage of the irismod packages reached by this run's harness
    executions (go build -cover counters), per package; {} when unavailable."""
    if not COVDIR or not os.path.isdir(COVDIR) or not os.listdir(COVDIR):
        return {}
    try:
        p = subprocess.run(["go", "tool", "covdata", "percent", "-i=" + COVDIR], capture_output=True, text=True,
                           timeout=300, env=dict(os.environ, **GOENV))
        out = {}
        for m in re.finditer(r"^\s*(\S+)\s+coverage: ([\d.]+)% of statements", p.stdout, re.M):
            if m.group(1).startswith("mods.irisnet.org/modules/"):
                out[m.group(1).replace("mods.irisnet.org/modules/", "")] = float(m.group(2))
        return out
    except Exception:
        return {}
