#!/usr/bin/env python3
"""Regenerates /verif/MANIFEST.json from the property table (bin/props.py) and the
per-property texts below.  Run after adding a property check."""
import json, os, sys
sys.path.insert(0, os.path.dirname(os.path.abspath(__file__)))
from props import PROPS, TEXT

ROOT = os.path.dirname(os.path.dirname(os.path.abspath(__file__)))

def main():
    checks = []
    claimed = set()
    allow = set(json.load(open(os.path.join(ROOT, "bin", "claimed.json"))))
    for pid in sorted(PROPS):
        if pid not in allow:
            continue
        t = TEXT[pid]
        claimed.add(pid)
        checks.append({
            "property_id": pid,
            "quick_cmd": f"bin/check {pid} --tier quick",
            "thorough_cmd": f"bin/check {pid} --tier thorough",
            "evidence_file": f"/verif/evidence/{pid}.json",
            "replay_cmd_template": f"bin/check {pid} --replay {{path}}",
            "engine": "tla",
            "level_claimed": {"category": "model_checking", "text": t["text"], "design_ref": t["design"]},
            "level_note": t["note"],
            "technique": "explicit TLA+ specification: TLC exhaustive model checking + TLC-generated behaviours "
                         "replayed on the real code + TLC trace validation of real-code traces",
        })
    na = []
    reasons = json.load(open(os.path.join(ROOT, "bin", "not_applicable.json")))
    for pid in [f"C{n:02d}" for n in range(1, 21)]:
        if pid not in claimed:
            na.append({"property_id": pid, "reason": reasons.get(pid, "check not built yet in this round")})
    man = {
        "version": 1,
        "setup_cmd": "bin/setup",
        "hooks": {
            "guard": "verif",
            "enable": "go build -tags verif (the harness is built with the tag; no hook exists in /repo at present)",
            "baseline_off_cmd": "bin/baseline_off",
            "source_commits": [],
            "add_only": True,
        },
        "engines": [{
            "name": "tla", "path": "/verif/spec",
            "serves_properties": sorted(claimed),
            "kind_free_text": "TLA+ specifications checked with TLC (exhaustive, generator, trace validation); "
                              "Go harness in /verif/harness drives the real application and records traces",
        }],
        "checks": checks,
        "not_applicable": na,
        "notes": "Verdicts come only from property clauses evaluated by TLC on traces of the real code; "
                 "exit 2 = inconclusive (build failure, timeout, vacuity, model-only counterexample). "
                 "Known findings: /verif/known_findings.json.",
    }
    with open(os.path.join(ROOT, "MANIFEST.json"), "w") as f:
        json.dump(man, f, indent=1)
    print("MANIFEST.json written:", len(checks), "checks,", len(na), "not claimed")


if __name__ == "__main__":
    main()
