"""Record: C19 (Record.tla / RecordTrace.tla / harness/cmd/record)."""
from props import ModuleCheck, T

REC_CLAUSES = ["C19_Fresh", "C19_Immutable", "C19_ImmutableRest", "C19_Unique", "Rejected_NoEffect",
               # audit after round 7: "read back for ever after" with the expected value from the accepted creations
               # (ghost made: returned id -> submitted contents, creator, tx hash), not from the previous state
               "C19_Permanent"]

REC_RND = T([dict(n=8, len=30, procs=6, cfg="users=2"),
             dict(n=1, len=320, procs=2, cfg="users=3,maxmsgs=10,maxtx=3,winfirst=30,winmod=25")],
            [dict(n=60, len=40, procs=8, cfg="users=2"),
             dict(n=2, len=800, procs=6, cfg="users=3,maxmsgs=10,maxtx=3,winfirst=30,winmod=50")])
REC_GEN = T([dict(cfg="GEN_Record.cfg", num=12, depth=12, seeds=6)],
            [dict(cfg="GEN_Record.cfg", num=80, depth=16, seeds=12)])
REC_MC = T([dict(cfg="MC_Record.cfg", timeout=900, heap="4g")], [dict(cfg="MC_Record_big.cfg", timeout=3400, heap="4g")])
REC_SCN = [dict(file="scenarios/record_coverage.ndjson", cfg="users=2,winfirst=3,winmod=4")]

# histories recorded (VERIF_RECORD_DIR) for the cross-module checks C11 / C12
RECORD = [dict(binary="record", n=T(3, 12), len=30, cfg="users=2")]

PROPS = {
    "C19": ModuleCheck("record", "Record.tla", "RecordTrace.tla", "RecordTrace.cfg", REC_CLAUSES,
                       REC_MC, REC_GEN, REC_RND, scenarios=REC_SCN,
                       required=["create_ok", "multi_msg", "identical_in_tx", "identical_in_block", "identical_later",
                                 "invalid_rej", "poison_rej", "rest_nonempty", "after_rollback",
                                 "fid_multi_entry", "fid_four_entries", "fid_share_digest", "fid_identical_entries",
                                 "fid_algo_only", "fid_empty_meta", "fid_long_meta", "fid_long_digest", "fid_reordered",
                                 "fid_padded", "fid_mixed_case"],
                       gen_cfg="users=2",
                       assumptions=["TLC 1.8, SANY, CommunityModules Json", "Go toolchain, cosmos-sdk baseapp",
                                    "harness dump of the record store after every transaction",
                                    "tmhash idealised as injective in the model; real ids named in order of return",
                                    "records outside the logged window compared through a SHA-256 rolling hash"]),
}

TEXT = {
    "C19": dict(
        design="DESIGN.md 8 (C19), 3",
        text="Record.tla transcribes CreateRecord / AddRecord: one event is one transaction with several "
             "MsgCreateRecord messages; the id is the (idealised, injective) hash of record bytes and a "
             "never-reset counter. TLC checks Fresh, Immutable, Unique and Rejected_NoEffect on all histories "
             "of up to 4 transactions x 2 messages with identical and different contents, creators, refused "
             "and rolled-back transactions (and finds the collision at once in the design variant without the "
             "counter, MC_Record_nocounter.cfg). TLC-generated behaviours, a coverage scenario and seeded "
             "random histories — byte-identical contents from one creator in one transaction, one block, "
             "different blocks; two histories of about 2000 records — run on the real application; after "
             "every transaction the harness reads back every id ever returned; TLC validates every event "
             "(explicit window of records, rolling hash over the others) against the clauses and the step "
             "function.",
        note="Export/import stability of ids is C12's subject (finding F10). Trusted: TLC/SANY/Json, Go "
             "toolchain, harness dump and naming of ids, SHA-256 for the rolling hash of records outside the "
             "logged window."),
}
