"""Coinswap: C01, C02 (Coinswap.tla / CoinswapTrace.tla / harness/cmd/coinswap)."""
from props import ModuleCheck, T, bundled

CS_CLAUSES_C01 = ["C01_ShareValue", "C01_LegRule", "C01_ExactInMax", "C01_ExactOutTight"]
CS_CLAUSES_C02 = ["C02_SwapSender", "C02_SwapRecipient", "C02_Frame", "C02_Bounds", "C02_AddTakesAtMost",
                  "C02_RemoveGivesAtLeast", "C02_Supply", "C02_Conservation", "Rejected_NoEffect"]
# history twins (audit of round 7): the same clause text evaluated with the pool registry and the parameters
# ACCORDING TO THE HISTORY (ghosts reg / par: a pool is what it was when it first appeared) instead of the
# module's own registry as projected in the state - a defect that rewrites, drops or duplicates a registry
# entry cannot make them vacuous or "equally wrong on both sides"; C02_PoolFresh: no two pools that ever
# existed share a liquidity denom or an escrow, an accepted message opens at most the pool it names
CS_CLAUSES_C01 += [c + "H" for c in CS_CLAUSES_C01]
CS_CLAUSES_C02 += ["C02_SwapSenderH", "C02_SwapRecipientH", "C02_FrameH", "C02_BoundsH", "C02_AddTakesAtMostH",
                   "C02_RemoveGivesAtLeastH", "C02_SupplyH", "C02_PoolFresh"]

CS_BASE = "users=3,tokens=2,fee=3,taxnum=2,taxden=5"
# fee 3/10 + unilateral 2/10 (coarse: every rounding visible), and the default-like 3/1000 + 2/1000
CS_CFG_A = CS_BASE + ",initstd=30,inittok=30,feenum=3,feeden=10,uninum=2,uniden=10"
CS_CFG_B = CS_BASE + ",initstd=40,inittok=25,feenum=3,feeden=1000,uninum=2,uniden=1000"
CS_CFG_C = "users=3,tokens=2,fee=5,taxnum=1,taxden=4,initstd=30,inittok=30,feenum=1,feeden=4,uninum=0,uniden=10"
CS_GEN_CFG = CS_BASE + ",initstd=20,inittok=20,feenum=3,feeden=10,uninum=2,uniden=10"

CS_RND = T(
    [dict(n=10, len=40, procs=4, cfg=CS_CFG_A), dict(n=10, len=40, procs=4, cfg=CS_CFG_B),
     dict(n=10, len=40, procs=2, cfg=CS_CFG_C)],
    [dict(n=60, len=40, procs=6, cfg=CS_CFG_A), dict(n=60, len=40, procs=6, cfg=CS_CFG_B),
     dict(n=60, len=40, procs=4, cfg=CS_CFG_C)])
# multi-message transactions (runs of one signer's messages delivered as one real transaction)
bundled(CS_RND)
# second generator mode (negative probing): ordinary prefix with frequent plain sends of every kind of coin to the
# escrows and pools on the odd coin, then a tail of messages the specification REJECTS - every message type, every
# denom-valued field drawn from every kind of denom, every role - executed in the deep state reached
CS_GEN = T([dict(cfg="GEN_Coinswap.cfg", num=10, depth=13, seeds=6),
            dict(cfg="GEN_Coinswap_probe.cfg", num=4, depth=15, seeds=4)],
           [dict(cfg="GEN_Coinswap.cfg", num=50, depth=16, seeds=14),
            dict(cfg="GEN_Coinswap_probe.cfg", num=30, depth=18, seeds=10)])
CS_SCN = [dict(file="scenarios/coinswap_F1.ndjson", cfg=CS_CFG_A + ",epilogue=0"),
          dict(file="scenarios/coinswap_zero_reserve.ndjson", cfg=CS_CFG_A + ",epilogue=0"),
          dict(file="scenarios/coinswap_edges.ndjson", cfg=CS_CFG_A + ",epilogue=0"),
          dict(file="scenarios/coinswap_pools.ndjson", cfg=CS_CFG_A + ",epilogue=0"),
          # identifiers of the wrong kind in every denom-valued field, foreign coins / share tokens / odd coins sent
          # to escrows, odd roles, emptied pools (with the epilogue: withdraw all, probe the emptied pools, re-fund)
          dict(file="scenarios/coinswap_wrongkind.ndjson", cfg=CS_CFG_A)]
# quick: C01 runs the one-pool universe (every reachable (S, T, L): the arithmetic), C02 that and the
# two-pool universe (all behaviours of <= 5 events with third-party, blocked and module recipients: the routing);
# thorough: the larger versions of both for both properties
CS_MC_A = dict(cfg="MC_Coinswap.cfg", timeout=900, heap="4g")
CS_MC_B = dict(cfg="MC_Coinswap2.cfg", timeout=900, heap="4g")
# MC_Coinswap_wk: every denom-valued field of every message and every donation ranges over EVERY denom (standard,
# token, odd coin "voucher-1", liquidity denoms, strange ones), a pool may be opened on the odd coin: all
# behaviours of <= 5 events
CS_MC_BIG = [dict(cfg="MC_Coinswap_big.cfg", timeout=3000, heap="4g"), dict(cfg="MC_Coinswap2_big.cfg", timeout=3000, heap="4g"),
             dict(cfg="MC_Coinswap_wk.cfg", timeout=3000, heap="4g")]
CS_MC_C01 = T([CS_MC_A], CS_MC_BIG)
CS_MC_C02 = T([CS_MC_A, CS_MC_B], CS_MC_BIG)

# histories recorded (VERIF_RECORD_DIR) for the cross-module checks C11 / C12
RECORD = [dict(binary="coinswap", n=T(3, 12), len=30, cfg=CS_CFG_A + ",bundle=30")]

# negative-probing antecedents; scenarios/coinswap_wrongkind.ndjson exercises each of them on every run
CS_WK_C01 = ["donate_foreign", "donate_share", "donate_odd", "pool_on_odd", "foreign_in_escrow", "wk_adduni_held",
             "wk_remuni_held", "wk_counterparty", "emptied_probe", "remuni_all_rej"]
CS_WK_C02 = CS_WK_C01 + ["wk_remove_shaped", "wk_remove_nopool", "wk_add_std", "wk_swap_lpt", "wk_swap_nopool",
                         "wk_swap_equal", "wk_swap_held", "wk_untracked", "role_no_share"]

CS_ASSUME = ["TLC 1.8, SANY, CommunityModules Json", "Go toolchain, cosmos-sdk x/bank, x/auth",
             "harness projection functions (balances, supplies, pool registry, params read from the stores)",
             "fee parameters are rationals whose denominators divide 10^18 (DESIGN 4.2), values < 2^31"]

PROPS = {
    "C01": ModuleCheck("coinswap", "Coinswap.tla", "CoinswapTrace.tla", "CoinswapTrace.cfg", CS_CLAUSES_C01,
                       CS_MC_C01, CS_GEN, CS_RND, scenarios=CS_SCN,
                       required=["sell_1", "buy_1", "sell_2", "buy_2", "add_create", "add_funded", "add_refund_empty",
                                 "remove_ok", "remove_all", "adduni_ok", "remuni_ok", "donate_ok", "reject"] + CS_WK_C01,
                       gen_cfg=CS_GEN_CFG, assumptions=CS_ASSUME),
    "C02": ModuleCheck("coinswap", "Coinswap.tla", "CoinswapTrace.tla", "CoinswapTrace.cfg", CS_CLAUSES_C02,
                       CS_MC_C02, CS_GEN, CS_RND, scenarios=CS_SCN,
                       required=["sell_1", "buy_1", "sell_2", "buy_2", "swap_third", "swap_third_2", "add_create",
                                 "add_funded", "remove_ok", "adduni_ok", "remuni_ok", "reject", "panic",
                                 "deadline_edge", "deadline_rej", "bound_edge", "bound_rej", "blocked_rej",
                                 "to_module", "sandwich", "route_skewed"] + CS_WK_C02,
                       gen_cfg=CS_GEN_CFG, assumptions=CS_ASSUME),
}

TEXT = {
    "C01": dict(
        design="DESIGN.md 8 (C01), 3, 4.2",
        text="Coinswap.tla transcribes the coinswap keeper branch by branch (pool creation with fee, two-sided and "
             "one-sided add/remove, single and routed sell/buy orders, donations to pool escrows). TLC checks the "
             "share-value inequality S'T'L^2 >= STL'^2 on every step and the fee-inclusive constant-product rule, "
             "maximality of exact-input and tightness of exact-output legs exhaustively on every reachable "
             "(S,T,L) of a bounded one-pool universe and on all behaviours up to a depth bound of a two-pool "
             "universe; it then generates behaviours that are executed on the real application (real ABCI path) "
             "together with seeded random histories (bounds at computed value +-1, three fee settings); every "
             "event of every real trace is validated by TLC against the clauses (verdict; legs are reconstructed "
             "from the pools' balance deltas) and against the specification's own step function (drift). Negative "
             "probing: a second generator mode ends every behaviour with a tail of messages the specification rejects "
             "(every message type, every denom-valued field drawn from every kind of denom - foreign token, another "
             "pool's share denom, an ordinary coin shaped like a share denom, the standard coin, strange denoms - "
             "every role), the random driver does the same at random and sends foreign coins and share tokens to the "
             "escrows; the driver's closing operations (withdraw everything, probe the emptied pools, re-fund) are "
             "computed from the real chain state.",
        note="Trusted: TLC/SANY/CommunityModules Json, Go toolchain, cosmos-sdk bank, the harness projection. Fees are "
             "rationals with denominators dividing 10^18 so the model's floor divisions are bit-exact; reserves, "
             "supplies and amounts stay below ~100 so that quartic products fit TLC's 32-bit integers; the 2^128 "
             "range of the quantifier is covered by the big-number tier: harness-coinswapbig drives the real chain with reserves, shares and trades in stratified magnitudes up to ~2^128 and Apalache evaluates the same clause operators (CoinswapClauses.tla) on every row (DESIGN 13.8, 13.10); unbounded lemmas for the price functions and the liquidity formulas are proved by Apalache (CoinswapLemmas*.tla)."),
    "C02": dict(
        design="DESIGN.md 8 (C02), 3",
        text="Same specification and traces as C01 with the full balance sheet of three users, both pool escrows, "
             "the coinswap module account and the fee pool plus total supplies in every logged state. Clauses: "
             "sender debited / recipient credited exactly the pool-side amounts, every other (account, denom) "
             "unchanged (frame, for swaps and liquidity messages), bounds and deadline respected, liquidity "
             "messages take at most the maxima / give at least the minima with mint = supply delta = sender delta, "
             "supplies change only for the message's own liquidity token and the burned share of the creation "
             "fee, conservation of every denom over the closed universe, rejected messages (including recovered "
             "panics) change nothing. The balance sheet and the supply table include an odd coin (voucher-1: an "
             "ordinary coin whose denom parses as a liquidity denom) and the liquidity denom / escrow of the pool "
             "that may be opened on it, so burning or paying out a coin of the wrong kind is seen by the supply and "
             "frame clauses; negative probing as for C01.",
        note="As C01. Finding F1 (routed orders with recipient != sender moved the intermediate standard coin from the "
             "sender to the recipient) was fixed in /repo (1430e57); the specification follows the fixed code and "
             "C02_Frame is checked unmasked; scenarios/coinswap_F1.ndjson stays as a regression. Diagnostic clauses "
             "X01_* / X02_* (pool life cycle, wedged pools, panics, routed balance, round trips, blocked accounts, "
             "donations) are evaluated on every trace but never decide the verdict."),
}
