"""Oracle: C17 — Oracle.tla / OracleTrace.tla / harness/cmd/oracle."""
import os
from props import ModuleCheck, T, bundled

ORACLE_CLAUSES_C17 = ["C17_Append", "C17_Aggregate", "C17_History", "C17_StateMirror", "C17_Authority",
                      # history-based twins (audit): feed context / creator / latest-history from the accepted events, the
                      # answers of a batch from the Respond events the harness sent - never from the feed record
                      "C17_AppendH", "C17_AggregateH", "C17_HistoryH", "C17_StateMirrorH", "C17_AuthorityH"]

ORACLE_RND = T(
    [dict(n=10, len=30, procs=6, cfg="users=2,provs=3,funds=60,maxfeeds=3,maxtimeout=3"),
     dict(n=10, len=30, procs=6, cfg="users=3,provs=2,funds=45,maxfeeds=2,maxtimeout=2")],
    [dict(n=60, len=40, procs=7, cfg="users=2,provs=3,funds=60,maxfeeds=3,maxtimeout=3"),
     dict(n=60, len=40, procs=7, cfg="users=3,provs=2,funds=45,maxfeeds=2,maxtimeout=2")])
# multi-message transactions (runs of one signer's messages delivered as one real transaction)
bundled(ORACLE_RND)
# second generator mode (round 7, negative probing): GenSpecP = accepted events on the way (answers in every payload
# class, provider strings of the wrong kind, at most three messages per block), then four events the specification
# REJECTS, aimed at the state reached; the replay's epilogue is computed from the real chain state
ORACLE_GEN = T([dict(cfg="GEN_Oracle.cfg", num=12, depth=24, seeds=8),
                dict(cfg="GEN_Oracle_probe.cfg", num=6, depth=30, seeds=4)],
               [dict(cfg="GEN_Oracle.cfg", num=60, depth=28, seeds=14),
                dict(cfg="GEN_Oracle_probe.cfg", num=40, depth=34, seeds=10),
                dict(cfg="GEN_Oracle_probe.cfg", num=40, depth=22, seeds=4)])
ORACLE_MC = T([dict(cfg="MC_Oracle.cfg", timeout=1500),
               # the oracle-price module service and btc-priced bindings (diagnostic clauses X17_*)
               dict(cfg="MC_Oracle_price.cfg", timeout=1500),
               # every grow / shrink sequence of latest-history over eight heights
               dict(cfg="MC_Oracle_hist.cfg", timeout=1500)],
              [dict(cfg="MC_Oracle_big.cfg", timeout=3400),
               dict(cfg="MC_Oracle_price.cfg", timeout=1500),
               dict(cfg="MC_Oracle_hist.cfg", timeout=1500),
               # edits of providers / timeout / frequency / threshold / fee cap, sends, restarts
               dict(cfg="MC_Oracle_edit.cfg", timeout=3400),
               # two feeds of one creator competing for the same funds (automatic pause in context-id order)
               dict(cfg="MC_Oracle_2feeds.cfg", timeout=3400)])
ORACLE_GEN_CFG = "users=2,provs=2,funds=60,maxtimeout=2,price=10"
# fixed coverage suite (every required antecedent, whatever the seed) + the regression scenario of F15 (fixed bb6c4a3)
_SCN_CFG = "users=2,provs=2,funds=60,maxtimeout=2,price=10"
ORACLE_SCN = [dict(file="scenarios/oracle_cover.ndjson", cfg=_SCN_CFG),
              dict(file="scenarios/oracle_cover2.ndjson", cfg=_SCN_CFG),
              dict(file="scenarios/oracle_F15.ndjson", cfg=_SCN_CFG),
              # regression of R7-3 (fixed 8afa321): a provider string that is no address is refused; accepted, it would be
              # stored as the empty address (drift here, refused genesis imports in C12)
              dict(file="scenarios/oracle_emptyprov.ndjson", cfg=_SCN_CFG),
              # negative probing / unusual inputs (round 7; written by scenarios/oracle_mk_probe.py): every antecedent of
              # PROBE_REQUIRED on every run
              dict(file="scenarios/oracle_probe.ndjson", cfg="users=2,provs=2,funds=300,maxtimeout=2,price=10")]
# every feed command x feed state x role, every payload class, inputs of the wrong kind
PROBE_REQUIRED = (["m_%s_%s_%s" % (c, st, r) for c in ("start", "pause", "edit")
                   for st in ("paused", "autop", "idle", "open0", "openN", "full") for r in ("creator", "prov", "other")]
                  + ["pay_" + p for p in ("exp zeros str dupfirst dupbody extra ridlower negzero missing null false obj arr "
                                          "strbad nobody true nan emptyout errout badresult nohdr ridshort err400").split()]
                  + ["pay_zero_counts", "odd_prov_ok", "odd_prov_rej", "bad_prov_create_rej", "bad_prov_edit_rej", "bad_name_rej", "case_twin_ok", "unknown_name_cmd",
                     "cap_denom_rej", "respond_stranger", "respond_expiry_block", "respond_late", "respond_twice",
                     "complete_after_edit", "nested_path", "index_path", "create_invalid", "create_by_prov",
                     "svc_name_rej", "agg_case_rej", "nan_skipped"])

# C11 (finding F7): a short live run whose exchange-rate outcomes straddle the five-minute limit the oracle's
# module service measures against the host clock; recorded under VERIF_RECORD_DIR and replayed later on replicas.
CLOCK = dict(binary="oracle", mode="clock", cfg="")

# histories recorded (VERIF_RECORD_DIR) and replayed by the cross-module checks C11 / C12
RECORD = [dict(binary="oracle", n=T(3, 12), len=30, cfg="users=2,provs=3,funds=60,maxfeeds=3,maxtimeout=3" + ",bundle=30"),
          # one service call whose providers are priced in four denoms (stake + three denoms with an exchange-rate
          # feed each): whatever the end-blocker derives from the provider list must not depend on map order (C11-s5)
          dict(binary="oracle", mode="denoms", n=1, len=1, cfg="")]

PROPS = {
    "C17": ModuleCheck("oracle", "Oracle.tla", "OracleTrace.tla", "OracleTrace.cfg", ORACLE_CLAUSES_C17,
                       ORACLE_MC, ORACLE_GEN, ORACLE_RND, scenarios=ORACLE_SCN,
                       required=["append_respond", "append_expiry", "agg_max", "agg_min", "agg_avg", "agg_negative",
                                 "some_invalid", "below_threshold", "trim", "edit_shrink", "edit_grow",
                                 "start_ok", "pause_ok", "auto_pause", "unauthorized",
                                 # beyond C17 (diagnostic clauses X17_*)
                                 "price_200", "price_400", "price_401", "price_402", "bindx_ok", "bindx_norate",
                                 "edit_context", "edit_invalid", "restart_after_autopause"] + PROBE_REQUIRED,
                       gen_cfg=ORACLE_GEN_CFG,
                       assumptions=["TLC 1.8, SANY, CommunityModules Json", "Go toolchain, strconv float formatting",
                                    "harness projection functions (keeper getters + raw prefix scans of the oracle store)",
                                    "TLC tier: values within +-3.4 with 8 decimals (units of 10^-8 below 2^31); magnitude tier "
                                    "(zz_big.oracle_big): stored values of the real chain up to 2^129 judged by Apalache/Z3 with "
                                    "the operators of OracleClauses.tla, average up to float64 summation error"]),
}

TEXT = {
    "C17": dict(
        design="DESIGN.md 8 (C17), 3, 4",
        text="Oracle.tla transcribes CreateFeed / StartFeed / PauseFeed / EditFeed, the response and state callbacks "
             "and the aggregate functions of the oracle module, on integers in units of 10^-8, together with the slice "
             "of the service module a feed sits on (repeated request context, batches, thresholds, fee deduction and "
             "automatic pause, responses, expiry). The harness plays the providers on the real application (valid "
             "numeric answers of either sign, error results, silence), so every completed batch's valid answers are in "
             "the trace. TLC checks Append / Aggregate / History / StateMirror / Authority exhaustively on a bounded "
             "universe, generates behaviours replayed through the real ABCI path, and validates every event of every "
             "real trace (TLC-generated, seeded random, scenario) against the clauses (verdict) and the step function "
             "(drift). The average is checked in cross-multiplied form |v*n - sum| <= n/2.",
        note="Trusted: TLC/SANY/CommunityModules Json, Go toolchain, the harness projection. Values beyond +-3.4 "
             "(10^-8 units above 2^31/6) belong to the big-number tier and are not driven. F15 (maximum of all-negative "
             "answers stored as 0) is fixed in /repo (bb6c4a3); its scenario stays as a regression. Diagnostic clauses "
             "X17_* (oracle-price module service, btc-priced bindings, edit effects, restarts) are reported, never a verdict. "
             "Round 7 (negative probing): a second generator mode ends every behaviour with four rejected events; every feed "
             "command x feed state x role and 22 ways of writing an answer down (exponent, string, duplicate members, missing / "
             "null / boolean / object values, refused results) are required antecedents exercised by scenarios/oracle_probe.ndjson; "
             "answers without a number are judged as today's code reads them (0; true = 1; Oracle.tla AnsX). Answers that are "
             "not finite (1e999, \"Inf\", \"NaN\") are sent only under driver cfg inf=1, off in every registered check "
             "(findings/oraclerandom.md R7-2). Provider strings that are no address are refused since fix 8afa321 (R7-3; "
             "regression scenarios/oracle_emptyprov.ndjson)."),
}
