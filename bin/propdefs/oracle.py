"""Oracle: C17 — Oracle.tla / OracleTrace.tla / harness/cmd/oracle."""
import os
from props import ModuleCheck, T, bundled

ORACLE_CLAUSES_C17 = ["C17_Append", "C17_Aggregate", "C17_History", "C17_StateMirror", "C17_Authority"]

ORACLE_RND = T(
    [dict(n=10, len=30, procs=6, cfg="users=2,provs=3,funds=60,maxfeeds=3,maxtimeout=3"),
     dict(n=10, len=30, procs=6, cfg="users=3,provs=2,funds=45,maxfeeds=2,maxtimeout=2")],
    [dict(n=60, len=40, procs=7, cfg="users=2,provs=3,funds=60,maxfeeds=3,maxtimeout=3"),
     dict(n=60, len=40, procs=7, cfg="users=3,provs=2,funds=45,maxfeeds=2,maxtimeout=2")])
# multi-message transactions (runs of one signer's messages delivered as one real transaction)
bundled(ORACLE_RND)
ORACLE_GEN = T([dict(cfg="GEN_Oracle.cfg", num=12, depth=24, seeds=8)],
               [dict(cfg="GEN_Oracle.cfg", num=60, depth=28, seeds=14)])
ORACLE_MC = T([dict(cfg="MC_Oracle.cfg", timeout=1500),
               # the oracle-price module service and btc-priced bindings (diagnostic clauses X17_*)
               dict(cfg="MC_Oracle_price.cfg", timeout=1500),
               # every grow / shrink sequence of latest-history over eight heights
               dict(cfg="MC_Oracle_hist.cfg", timeout=1500)],
              [dict(cfg="MC_Oracle_big.cfg", timeout=3400),
               dict(cfg="MC_Oracle_price.cfg", timeout=1500),
               dict(cfg="MC_Oracle_hist.cfg", timeout=1500),
               # edits of providers / timeout / frequency / threshold / fee cap, sends, restarts
               dict(cfg="MC_Oracle_edit.cfg", timeout=3400),
               # two feeds of one creator competing for the same funds (automatic pause in context-id order)
               dict(cfg="MC_Oracle_2feeds.cfg", timeout=3400)])
ORACLE_GEN_CFG = "users=2,provs=2,funds=60,maxtimeout=2,price=10"
# fixed coverage suite (every required antecedent, whatever the seed) + the regression scenario of F15 (fixed bb6c4a3)
_SCN_CFG = "users=2,provs=2,funds=60,maxtimeout=2,price=10"
ORACLE_SCN = [dict(file="scenarios/oracle_cover.ndjson", cfg=_SCN_CFG),
              dict(file="scenarios/oracle_cover2.ndjson", cfg=_SCN_CFG),
              dict(file="scenarios/oracle_F15.ndjson", cfg=_SCN_CFG)]

# C11 (finding F7): a short live run whose exchange-rate outcomes straddle the five-minute limit the oracle's
# module service measures against the host clock; recorded under VERIF_RECORD_DIR and replayed later on replicas.
CLOCK = dict(binary="oracle", mode="clock", cfg="")

# histories recorded (VERIF_RECORD_DIR) and replayed by the cross-module checks C11 / C12
RECORD = [dict(binary="oracle", n=T(3, 12), len=30, cfg="users=2,provs=3,funds=60,maxfeeds=3,maxtimeout=3" + ",bundle=30")]

PROPS = {
    "C17": ModuleCheck("oracle", "Oracle.tla", "OracleTrace.tla", "OracleTrace.cfg", ORACLE_CLAUSES_C17,
                       ORACLE_MC, ORACLE_GEN, ORACLE_RND, scenarios=ORACLE_SCN,
                       required=["append_respond", "append_expiry", "agg_max", "agg_min", "agg_avg", "agg_negative",
                                 "some_invalid", "below_threshold", "trim", "edit_shrink", "edit_grow",
                                 "start_ok", "pause_ok", "auto_pause", "unauthorized",
                                 # beyond C17 (diagnostic clauses X17_*)
                                 "price_200", "price_400", "price_401", "price_402", "bindx_ok", "bindx_norate",
                                 "edit_context", "edit_invalid", "restart_after_autopause"],
                       gen_cfg=ORACLE_GEN_CFG,
                       assumptions=["TLC 1.8, SANY, CommunityModules Json", "Go toolchain, strconv float formatting",
                                    "harness projection functions (keeper getters + raw prefix scans of the oracle store)",
                                    "TLC tier: values within +-3.4 with 8 decimals (units of 10^-8 below 2^31); magnitude tier "
                                    "(zz_big.oracle_big): stored values of the real chain up to 2^129 judged by Apalache/Z3 with "
                                    "the operators of OracleClauses.tla, average up to float64 summation error"]),
}

TEXT = {
    "C17": dict(
        design="DESIGN.md 8 (C17), 3, 4",
        text="Oracle.tla transcribes CreateFeed / StartFeed / PauseFeed / EditFeed, the response and state callbacks "
             "and the aggregate functions of the oracle module, on integers in units of 10^-8, together with the slice "
             "of the service module a feed sits on (repeated request context, batches, thresholds, fee deduction and "
             "automatic pause, responses, expiry). The harness plays the providers on the real application (valid "
             "numeric answers of either sign, error results, silence), so every completed batch's valid answers are in "
             "the trace. TLC checks Append / Aggregate / History / StateMirror / Authority exhaustively on a bounded "
             "universe, generates behaviours replayed through the real ABCI path, and validates every event of every "
             "real trace (TLC-generated, seeded random, scenario) against the clauses (verdict) and the step function "
             "(drift). The average is checked in cross-multiplied form |v*n - sum| <= n/2.",
        note="Trusted: TLC/SANY/CommunityModules Json, Go toolchain, the harness projection. Values beyond +-3.4 "
             "(10^-8 units above 2^31/6) belong to the big-number tier and are not driven. F15 (maximum of all-negative "
             "answers stored as 0) is fixed in /repo (bb6c4a3); its scenario stays as a regression. Diagnostic clauses "
             "X17_* (oracle-price module service, btc-priced bindings, edit effects, restarts) are reported, never a verdict."),
}
