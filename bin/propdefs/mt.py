"""MT: C15 (MT.tla / MTTrace.tla / harness/cmd/mt)."""
from props import ModuleCheck, T, bundled

MT_CLAUSES = ["C15_Sum", "C15_Transfer", "C15_Burn", "C15_Range", "C15_Authority", "C15_FreshIds",
              "Rejected_NoEffect",
              # round 7: balances of EVERY address in the raw store add up to the recorded supply; what the
              # supply and balances queries answer is what the store holds
              "C15_StoreSum", "C15_Reported",
              # audit after round 7: "the owner of a class" taken from the accepted messages (issuer, then the
              # named recipient of every accepted handover) instead of the class record
              "C15_HistAuthority", "C15_HistOwner"]

# negative probing / unusual inputs (round 7): antecedents exercised on every run by scenarios/mt_probe.ndjson
# (written by scenarios/mt_mk_probe.py)
MT_PROBE_REQUIRED = [
    "form_split_rej", "form_idupper_rej", "form_idprefix_rej", "form_idspace_rej", "form_idspace_mint_ok",
    "form_idspace_mint_new_ok", "form_clsupper_rej", "form_clsprefix_rej", "form_clsspace_rej",
    "form_owner_mint_rej", "form_holder_transfer_rej", "form_holder_burn_rej",
    "other_class_mint_rej", "other_class_edit_rej", "other_class_transfer_rej", "other_class_burn_rej",
    "no_class_rej", "no_mt_mint_rej", "no_mt_edit_rej",
    "module_sender_rej", "mint_to_module_ok", "transfer_to_module_ok", "handover_to_module_ok",
    "module_held_rej", "zero_amount_mint_rej", "zero_amount_transfer_rej", "zero_amount_burn_rej",
    "transfer_one_above_rej", "burn_one_above_rej", "burn_all_ok", "transfer_all_to_holder_ok",
    "transfer_to_zero_holder_ok", "exholder_transfer_rej", "exholder_burn_rej", "never_holder_transfer_rej",
    "burned_out_mint_ok", "burned_out_edit_ok", "burned_out_transfer_rej", "burned_out_burn_rej",
    "holder_not_owner_mint_rej", "holder_not_owner_edit_rej", "holder_not_owner_handover_rej",
    "owner_not_holder_transfer_rej", "owner_not_holder_burn_rej", "exowner_edit_rej", "exowner_handover_rej",
    "exowner_still_holder_transfer_ok", "handover_to_self_ok", "mint_data_on_existing_rej", "issue_blank_name_rej",
    "mint_default_recipient_ok", "second_class_same_owner_ok", "probe_state_rej"]

# Magnitude strata: every history runs under one amount map  real a*2^base + v <-> model a'*H + v
# (harness/cmd/mt); base 63 is the default.  The other bases put the word boundaries 2^31, 2^32,
# 2^53, 2^62 (and sums crossing 2^64) under the same clauses.
MT_BASES = [("31", "h18"), ("32", "h18"), ("53", "h18"), ("62", "h27")]
# random histories mix "sensible" events with probes (every message x token state x role x ids written the wrong way,
# harness/cmd/mt/random.go; probe=<pct>, default 30)
MT_RND = T([dict(n=10, len=30, procs=6, cfg="users=3"), dict(n=6, len=40, procs=2, cfg="users=4,probe=60")]
           + [dict(n=4, len=25, procs=1, cfg="users=3,base=" + b) for b, _ in MT_BASES],
           [dict(n=80, len=40, procs=10, cfg="users=3"), dict(n=50, len=60, procs=4, cfg="users=4,probe=60")]
           + [dict(n=40, len=40, procs=2, cfg="users=3,base=" + b) for b, _ in MT_BASES])
# multi-message transactions (runs of one signer's messages delivered as one real transaction)
bundled(MT_RND)
# second generator mode (round 7, negative probing): GenSpecP with ids written the wrong way and the module account;
# every behaviour ends with four events the specification REJECTS; the replay's epilogue (every holding the REAL store
# records moved as a whole to the next user, then everybody burns everything, every class handed over) follows up
MT_GEN = T([dict(cfg="GEN_MT.cfg", num=10, depth=16, seeds=5),
            dict(cfg="GEN_MT_probe.cfg", num=5, depth=22, seeds=3)]
           + [dict(cfg="GEN_MT_%s.cfg" % h, num=6, depth=16, seeds=1, driver_cfg="users=3,base=" + b) for b, h in MT_BASES],
           [dict(cfg="GEN_MT.cfg", num=60, depth=20, seeds=14),
            dict(cfg="GEN_MT_probe.cfg", num=30, depth=26, seeds=6), dict(cfg="GEN_MT_probe.cfg", num=30, depth=16, seeds=3)]
           + [dict(cfg="GEN_MT_%s.cfg" % h, num=40, depth=20, seeds=3, driver_cfg="users=3,base=" + b) for b, h in MT_BASES])
MT_MC = T([dict(cfg="MC_MT.cfg", timeout=900, heap="4g"), dict(cfg="MC_MT_2.cfg", timeout=900, heap="4g")],
          [dict(cfg="MC_MT.cfg", timeout=1700, heap="4g"), dict(cfg="MC_MT_big.cfg", timeout=3400, heap="4g")])
MT_SCN = [dict(file="scenarios/mt_coverage.ndjson", cfg="users=3"),
          dict(file="scenarios/mt_probe.ndjson", cfg="users=3"), dict(file="scenarios/mt_probe.ndjson", cfg="users=3,base=32")] + \
         [dict(file="scenarios/mt_coverage_%s.ndjson" % h, cfg="users=3,base=" + b) for b, h in MT_BASES]

# histories recorded (VERIF_RECORD_DIR) for the cross-module checks C11 / C12
RECORD = [dict(binary="mt", n=T(3, 12), len=30, cfg="users=3" + ",bundle=30")]

PROPS = {
    "C15": ModuleCheck("mt", "MT.tla", "MTTrace.tla", "MTTrace.cfg", MT_CLAUSES,
                       MT_MC, MT_GEN, MT_RND, scenarios=MT_SCN,
                       required=["issue_ok", "mint_new_ok", "mint_more_ok", "mint_stranger_rej", "mint_overflow_rej",
                                 "mint_to_max", "mint_big", "edit_ok", "edit_keep", "edit_stranger_rej",
                                 "transfer_ok", "transfer_self", "transfer_insufficient_rej", "transfer_big",
                                 "transfer_all", "burn_ok", "burn_insufficient_rej", "burn_to_zero", "burn_big",
                                 "handover_ok", "handover_stranger_rej", "old_owner_mint_rej", "new_owner_mint_ok"]
                                + MT_PROBE_REQUIRED
                                + ["base%s_%s" % (b, op) for b in ("31", "32", "53", "62", "63")
                                   for op in ("mint", "transfer", "burn", "overflow_rej")],
                       gen_cfg="users=3",
                       assumptions=["TLC 1.8, SANY, CommunityModules Json", "Go toolchain, cosmos-sdk baseapp",
                                    "harness projection through the module's queries and getters",
                                    "harness scan of the mt store (types/keys.go key layout) for C15_StoreSum / C15_Reported",
                                    "amount maps a*2^base+v <-> a'*H+v per history (base 31, 32, 53, 62, 63), exact on the driven amounts",
                                    "ids named in order of first appearance (opaque)"]),
}

TEXT = {
    "C15": dict(
        design="DESIGN.md 8 (C15), 3, 4.2",
        text="MT.tla transcribes the mt module (msg_server.go, keeper.go, balance.go with the guarded "
             "AddBalance/IncreaseMTSupply and the unchecked SubBalance/decreaseMTSupply modelled as wrapping "
             "arithmetic, denom.go/mt.go with Authorize and the two id sequences). TLC checks Sum, Transfer, "
             "Burn, Range (no wrap; every delta is the stated amount; frame), Authority (results and frame), "
             "FreshIds and Rejected_NoEffect exhaustively with MaxU = 7, amounts 0..7, 3 users, 2 classes "
             "(and two token types per history with MaxU = 3), so that every overflow and underflow guard is on "
             "a path. Behaviours generated by TLC with maxU = image(2^64-1) and boundary amounts (2^63-1, 2^63, "
             "2^64-6, 2^64-2, 2^64-1) and seeded random histories (exact fit / one too many mints, balance+-1 "
             "transfers and burns, strangers, self transfers, handover then mint) are executed on the real "
             "application; after every transaction the harness queries Denoms, MTs, MT, Balances and the "
             "getters; TLC validates every event against the clauses (verdict) and the step function (drift). "
             "Round 7 (negative probing): the store itself is scanned after every event - the balances of EVERY "
             "address (not only the tracked accounts) must add up to the recorded supply (StoreSum) and the supply / "
             "balances queries, read page by page, must answer what the store holds (Reported); drivers probe every "
             "message x token state (holders at zero, burned out, minted to the top, under another class only) x "
             "role (owner, previous owner, holder, previous holder, stranger, module account) x ids written the "
             "wrong way (upper case, cut short, between blanks, re-split at the key delimiter) with amounts 0 / the "
             "balance / one above it; a second generator mode ends every behaviour with four rejected events; an "
             "epilogue computed from the real store (whole holdings moved, then everything burned) closes every history.",
        note="Magnitude strata: every history runs under one amount map real a*2^base+v <-> model a'*H+v "
             "(base 63 default; scenario + random + TLC-generated histories also under base 31, 32, 53, 62, "
             "antecedents base<b>_mint/transfer/burn/overflow_rej required), exact for +, -, comparisons and "
             "wrap-around on the driven amounts (bases 31/32: low zone a < 1024 and high zone within 1024*B "
             "of 2^64 only); arbitrary 64-bit amounts not of that form are left to an Apalache tier (see "
             "findings/nftmtrecord.md). Trusted: TLC/SANY/Json, Go toolchain, harness projection. X15_* clauses are "
             "diagnostics outside the statement."),
}
