"""Token: C09, C10 (Token.tla / TokenMath.tla / TokenTrace.tla / harness/cmd/token,
harness/evmledger)."""
from props import ModuleCheck, T, bundled

TOKEN_CLAUSES_C09 = ["C09_Identity", "C09_Authority", "C09_Cap", "C09_Burned", "C09_Fee",
                     "C09_ScaleExact", "Rejected_NoEffect"]
TOKEN_CLAUSES_C10 = ["C10_ToERC20", "C10_FromERC20", "C10_Hook", "C10_SumConst", "C10_FailAtomic",
                     "C10_NoOverBurn", "C10_Worth", "C10_ExactAtOne", "C10_Dust", "C10_SwapSettle",
                     "C10_ScaleExact", "Rejected_NoEffect"]

# history twins (audit of round 7): the same sentences judged by what HAPPENED - ghosts computed from the accepted
# messages and their arguments (owner = issuer / receiver of the last accepted hand-over; declared maximum and
# mintable flag = the accepted Issue's, changed by accepted Edits; tally = sum of the accepted burns; tax rate = the
# last accepted SetParams; bound contract = the one that appeared in the ERC20 ledger at the accepted Deploy) -
# instead of by the module's own records as projected in the state, so that a record silently overwritten, an
# index entry never written or a rewritten tally / binding cannot make a clause vacuous or wrong on both sides
TOKEN_CLAUSES_C09 += ["C09_IssueFresh", "C09_AuthorityH", "C09_CapH", "C09_BurnedH", "C09_FeeH"]
TOKEN_CLAUSES_C10 += ["C10_ToERC20H", "C10_FromERC20H", "C10_SumConstH"]

# driver configurations: the chain the harness builds must be the model's Init
BASE = "minunits=maa:mbb,basefee=5,taxnum=2,taxden=5,mintnum=1,mintden=2"
C09_MC_CFG = "users=3,stake=7," + BASE                       # MC_Token.cfg, MC_TokenId.cfg
C09_GEN_CFG = "users=3,stake=40," + BASE                     # GEN_Token.cfg
REG = ",regin=maa,regout=mbb,regrn=3,regrd=2"
BASE_IBC = "minunits=maa:mbb:ibc/x1,ibc=3,basefee=5,taxnum=2,taxden=5,mintnum=1,mintden=2"
C10_MC_CFG = "users=2,quirks=1,stake=9," + BASE_IBC + REG    # MC_TokenErc.cfg, MC_TokenLife.cfg (+ math rows: no chain)
# GEN_TokenErc.cfg; kscale=auto: EXACT SCALING of every IBC-denom quantity (balances, supply, ERC20 ledger,
# conversion amounts) by a factor K cycling through harness/cmd/token kScales (2^30+3 .. 2^126+5): the
# unchanged Token.tla and all C10 clauses judge real conversions whose amounts and sums straddle 2^31,
# 2^32, 2^53, 2^63, 2^64, 2^128
C10_GEN_CFG = ("users=2,quirks=1,stake=40,minunits=maa:mbb:ibc/x1,ibc=20,kscale=auto,basefee=5,taxnum=2,taxden=5,"
               "mintnum=1,mintden=2" + REG)
KSCALES = ["1073741827", "4503599627370497", "2305843009213693953", "4611686018427387904", "3074457345618258603",
           "6148914691236517205", "1000000000000000007", "9223372036854775807", "18446744073709551629",
           "79228162514264337593543950343", "85070591730234615865843651857942052869"]

# NEGATIVE PROBING (GEN_Token_probe.cfg, generator mode GenNextP): every generated behaviour builds a deep
# state (both tokens of the "erc" prologue, one bound to a contract; issues, edits, hand-overs, mints to the
# cap, burns, conversions, parameter switches) and ENDS with four events the specification rejects, drawn from
# every message type with identifiers of the wrong kind in every field (case twins, prefixes, reserved prefixes,
# names at / beyond the length limits, the fee denom, an IBC denom, the symbol where the coin is expected and
# the other way round, a plain coin MAA that is no token's), amounts 0 and 1, receivers that are blocked /
# module accounts / no address.  The driver's epilogue is computed from the chain's REAL state.
NAME64 = "q" + "a" * 63
PROBE_CFG = ("users=3,quirks=1,stake=60,minunits=maa:mbb:mcc:ibc/x1:MAA:htltmaa:" + NAME64 + ",ibc=20,kscale=auto,basefee=5,"
             "taxnum=2,taxden=5,mintnum=1,mintden=2" + REG)
PROBE_GEN = T(dict(cfg="GEN_Token_probe.cfg", num=10, depth=18, seeds=4, driver_cfg=PROBE_CFG),
              dict(cfg="GEN_Token_probe.cfg", num=50, depth=22, seeds=12, driver_cfg=PROBE_CFG))
# fixed probe suites: every wrong-kind input class x message, so that the new antecedents never depend on the seed
PROBE_SCN_CFG = PROBE_CFG.replace("kscale=auto", "kscale=1")

# random histories draw their own configuration (tax, ratios, swap ratio, fees);
# every history mixes all message types, the pure function included
TOKEN_RND = T([dict(n=10, len=30, procs=8)], [dict(n=60, len=40, procs=12)])
# multi-message transactions (runs of one signer's messages delivered as one real transaction)
bundled(TOKEN_RND)

C09_MC = T([dict(cfg="MC_Token.cfg", timeout=900, heap="4g"), dict(cfg="MC_TokenId.cfg", timeout=900, heap="4g")],
           [dict(cfg="MC_Token_big.cfg", timeout=3000, heap="4g"), dict(cfg="MC_TokenId.cfg", timeout=900, heap="4g")])
# (quick tier: the closing operations run after the probing behaviours, the random histories and the
# scenarios only; thorough: after every behaviour)
C09_GEN = T([dict(cfg="GEN_Token.cfg", num=20, depth=16, seeds=6, driver_cfg=C09_GEN_CFG + ",epilogue=0"), PROBE_GEN["quick"]],
            [dict(cfg="GEN_Token.cfg", num=60, depth=20, seeds=14, driver_cfg=C09_GEN_CFG), PROBE_GEN["thorough"]])
# token_cover_*: scripted coverage suites — every antecedent in `required` is exercised
# by them on the unchanged tree, so vacuity never depends on the seed
C09_SCN = [dict(file="scenarios/token_F5.ndjson", cfg=C09_GEN_CFG),
           dict(file="scenarios/token_cover_c09.ndjson", cfg=C09_GEN_CFG),
           # one name as symbol of one token and min unit of another (separate key spaces)
           dict(file="scenarios/token_namespace.ndjson", cfg=C09_GEN_CFG),
           # negative probing: wrong-kind identifiers, odd receivers, every role, module-owned token
           dict(file="scenarios/token_probe_c09.ndjson", cfg=PROBE_SCN_CFG),
           dict(file="scenarios/token_probe_c10.ndjson", cfg=PROBE_SCN_CFG)]

# MC_TokenLife: the ERC20 life cycle beyond C10 (deploy for a token / the native token /
# an IBC denom / twice, upgrade, the hook on foreign and malformed logs), diagnostics X10_*
C10_MC = T([dict(cfg="MC_TokenMath.cfg", timeout=900, workers=4, heap="4g"), dict(cfg="MC_TokenErc.cfg", timeout=900, heap="4g"),
            dict(cfg="MC_TokenLife.cfg", timeout=900, heap="4g")],
           [dict(cfg="MC_TokenMath.cfg", timeout=900, workers=4, heap="4g"), dict(cfg="MC_TokenErc_big.cfg", timeout=3000, heap="4g"),
            dict(cfg="MC_TokenLife_big.cfg", timeout=3000, heap="4g")])
C10_GEN = T([dict(cfg="GEN_TokenErc.cfg", num=20, depth=16, seeds=6, driver_cfg=C10_GEN_CFG + ",epilogue=0"),
             dict(cfg="GEN_TokenMath.cfg", mode="bfs", depth=401, seeds=1, driver_cfg=""), PROBE_GEN["quick"]],
            [dict(cfg="GEN_TokenErc.cfg", num=60, depth=20, seeds=14, driver_cfg=C10_GEN_CFG),
             dict(cfg="GEN_TokenMath_big.cfg", mode="bfs", depth=401, seeds=1, driver_cfg=""), PROBE_GEN["thorough"]])
C10_SCN = [dict(file="scenarios/token_F6.ndjson", cfg="users=3,stake=40," + BASE + REG),
           dict(file="scenarios/token_F6_panic.ndjson",
                cfg="users=3,stake=40," + BASE + ",regin=maa,regout=mbb,regrn=2,regrd=1"),
           dict(file="scenarios/token_cover_c10.ndjson", cfg=C10_GEN_CFG),
           # ERC20 life cycle, fee table for other symbol lengths, the F12 shape (diagnostics X..)
           dict(file="scenarios/token_erc_life.ndjson",
                cfg="users=3,quirks=1,stake=200,minunits=maa:mbb:mcc:ibc/x1,ibc=5,basefee=60,taxnum=2,taxden=5,mintnum=1,mintden=2"),
           dict(file="scenarios/token_cover_swap.ndjson",
                cfg="users=3,stake=40," + BASE + ",regin=maa,regout=mbb,regrn=1,regrd=2"),
           # conversions at magnitude (exact scaling): the same scripted history at every factor K
           ] + [dict(file="scenarios/token_erc_scale.ndjson",
                     cfg="users=2,quirks=1,stake=40,minunits=maa:mbb:ibc/x1,ibc=20,basefee=5,taxnum=2,taxden=5,"
                         "mintnum=1,mintden=2,kscale=" + k) for k in KSCALES] + [
           # one name as symbol of one token and min unit of another: conversions, the hook
           # and the burned side of the fee swap must resolve by min unit
           dict(file="scenarios/token_namespace_erc.ndjson",
                cfg="users=3,stake=40," + BASE + ",regin=maa,regout=mbb,regrn=1,regrd=1"),
           # regression for fixed finding F27: a token whose SYMBOL equals the swap target's
           # min unit must not lend its scale to the fee swap
           dict(file="scenarios/token_namespace_swap.ndjson",
                cfg="users=3,stake=40,minunits=maa:mbb:mcc,basefee=5,taxnum=2,taxden=5,mintnum=1,mintden=2,"
                    "regin=maa,regout=mbb,regrn=1,regrd=1,nsswap=1"),
           # negative probing of the conversions, the fee swap, deployments and the hook
           dict(file="scenarios/token_probe_c10.ndjson", cfg=PROBE_SCN_CFG),
           dict(file="scenarios/token_probe_c09.ndjson", cfg=PROBE_SCN_CFG)]

# histories recorded (VERIF_RECORD_DIR) for the cross-module checks C11 / C12; the
# random driver draws its own configuration; while recording it neither injects the
# swap registry nor runs hook events (neither is part of the recorded inputs)
RECORD = [dict(binary="token", n=T(3, 12), len=30, cfg="bundle=30")]

ASSUME = ["TLC 1.8, SANY, CommunityModules Json", "Go toolchain, cosmos-sdk x/bank, x/auth",
          "harness projection functions", "harness EVM ledger (harness/evmledger) standing in for an EVM module",
          "fee amounts are the chain's own quotes (float formula not modelled)",
          "LossLessSwap rows restricted to ratios with denominators dividing 10^3 (exact scaling, TokenMath.tla)"]

PROPS = {
    "C09": ModuleCheck("token", "Token.tla", "TokenTrace.tla", "TokenTrace.cfg", TOKEN_CLAUSES_C09,
                       C09_MC, C09_GEN, TOKEN_RND, scenarios=C09_SCN,
                       required=["issue_ok", "edit_max_ok", "edit_max_rej", "mint_ok", "mint_to_cap",
                                 "mint_over_cap_rej", "mint_not_mintable_rej", "burn_frac", "transfer_ok",
                                 "old_owner_rej", "new_owner_ok", "not_owner_rej", "dup_symbol_rej",
                                 "dup_minunit_rej", "fee_tax_pos", "issue_at_cap", "mint_room0_rej",
                                 # negative probing (scenarios/token_probe_c09.ndjson)
                                 "case_twin_rej", "reserved_rej", "prefix_rej", "len_max_ok", "len_over_rej",
                                 "fee_denom_rej", "cross_kind_rej", "amt0_rej", "bad_addr_rej", "module_owned_rej",
                                 "stranger_rej", "issue_cap_below_initial_rej", "to_module_rej", "odd_coin_rej",
                                 "burn_to_zero"],
                       gen_cfg=C09_MC_CFG, assumptions=ASSUME),
    "C10": ModuleCheck("token", "Token.tla", "TokenTrace.tla", "TokenTrace.cfg", TOKEN_CLAUSES_C10,
                       C10_MC, C10_GEN, TOKEN_RND, scenarios=C10_SCN,
                       required=["deploy_ok", "toerc_ok", "fromerc_ok", "hook_ok", "evm_fail_rej",
                                 "erc_disabled_rej", "blocked_rej", "conv_rej", "swapfee_ok", "swapfee_dust",
                                 "lossless_row", "lossless_giveback", "lossless_ratio1",
                                 # negative probing (scenarios/token_probe_c10.ndjson)
                                 "not_deployed_rej", "conv_no_token_rej", "swap_no_route_rej", "deploy_disabled_rej",
                                 "beacon_unset_rej", "deploy_evm_rej", "evm_noeffect_rej", "hook_bad_receiver_rej",
                                 "cross_kind_rej", "amt0_rej", "bad_addr_rej", "to_module_rej", "case_twin_rej",
                                 "odd_coin_rej", "hook_forged_rej"],
                       gen_cfg=C10_MC_CFG, assumptions=ASSUME),
}

TEXT = {
    "C09": dict(
        design="DESIGN.md 8 (C09), 3, 6",
        text="Token.tla transcribes IssueToken, EditToken, MintToken, BurnToken, TransferTokenOwner and the fee "
             "handler branch by branch; TLC checks the clauses Identity (symbol and min unit bound for ever, ghost "
             "ever* sets and the equivalent step form), Authority (only the pre-step owner edits / mints / hands "
             "over, non-mintable never mints, owner / max / mintable change through no other message), Cap "
             "(issue, mint, edit, burn keep supply <= max*10^scale; an edit never lowers the maximum below "
             "supply), Burned (exact tally, changed by nothing else), Fee (owner pays the quoted fee, the tax share "
             "goes to the fee pool, the rest is burned, module account unchanged) exhaustively on two bounded "
             "universes (one token with every cap / burn / edit interleaving; two symbols x two min units contended "
             "by two owners), then generates behaviours that are executed on the real application (real ABCI "
             "path), together with seeded random histories (values at cap-supply +-1, floor(supply/10^scale) +-1, "
             "other symbol lengths, tax and fee ratios drawn per history) and the F5 scenario; every event of "
             "every real trace is validated by TLC against the clauses (verdict) and the specification's step "
             "function (drift).",
        note="Trusted: TLC/SANY/Json module, Go toolchain, cosmos-sdk bank/auth, the harness projection. The fee "
             "AMOUNT (float formula) is read from the chain's own quote and only its split is checked. Scales 0..2 "
             "and supplies < 2^31 in TLC-fed drivers; scales up to 18 and 2^64 supplies need the big-number tier. "
             "Max supply 0 with mintable (MaxUint64) is never generated. Known finding F5 is masked only for edits the "
             "specification attributes to the floor comparison (why = f5_edit_floor)."),
    "C10": dict(
        design="DESIGN.md 8 (C10), 4.2",
        text="(i) types.LossLessSwap is transcribed step by step in TokenMath.tla (LegacyDec Mul = round half even, "
             "truncations toward zero; precision as a parameter with a machine-checked exactness condition). TLC "
             "enumerates the finite table input 0..200 x scales 0..3 x 8 ratios completely (rows that do not fit 32 "
             "bits are counted and left out) against NoOverBurn, Worth, ExactAtOne, Dust; the same rows are emitted "
             "as behaviours, the harness calls the real Go function on each, and the trace specification checks the "
             "clauses on the real outputs and equality with the operator. SwapFeeToken runs on chain (registry "
             "injected into the keeper's shared map): the balance sheet must show exactly burn / mint, the math "
             "clauses are evaluated on the observed deltas. (ii) SwapToERC20 / SwapFromERC20 / the SwapToNative "
             "hook run against a transactional ERC20 ledger kept in the KV store (harness/evmledger) with "
             "failure injection (revert, wrong post-balance, unsupported key, ERC20 disabled, unbound token, "
             "blocked receiver); clauses ToERC20, FromERC20, Hook, SumConst, FailAtomic on the full balance "
             "sheet (bank + ledger). Exhaustive on a bounded universe, then generated + random histories on the "
             "real code.",
        note="Ratios are restricted to denominators dividing 10^3 (0.333333333333333333 and arbitrary 18-digit "
             "ratios, amounts to 2^128 and scales to 18 need the big-number tier). The EVM is the harness ledger, "
             "not a real EVM: atomicity on failure is the SDK's store branching, which the ledger joins. The hook "
             "is called the way an EVM module would (receipt with the contract's SwapToNative log). Known "
             "finding F6 is masked only on rows where the transcribed give-back branch itself breaks a clause "
             "(why = f6_giveback)."),
}
