"""Farm: C05, C06 (Farm.tla / FarmTrace.tla / harness/cmd/farm)."""
import json, os
from props import ModuleCheck, T, bundled

FARM_CLAUSES_C05 = ["C05_StakeSum", "C05_Escrow", "C05_UnstakeNeverFails", "C05_UnstakeExact",
                    "C05_StakeExact", "C05_OthersUntouched", "C05_ScaleExact", "C05_CrisisInvariant",
                    "Rejected_NoEffect",
                    # audit round 8 (history twins): the recorded stake is the ledger of accepted stakes / unstakes
                    "C05_StakeLedger"]
FARM_CLAUSES_C06 = ["C06_Budget", "C06_Funded", "C06_AdjustApplies", "C06_ProRata", "C06_Flows", "C06_Rate", "C06_TouchAccrues", "C06_RefundOnce",
                    # audit round 8: the recorded rate is the rate of the accepted CreatePool / AdjustPool message
                    "C06_RateSet"]

# diagnostic clauses (specification grown beyond the listed properties: governance-funded pools, AdjustPool
# corners, as-is genesis round trips inside a history); evaluated on every trace and in the exhaustive configs,
# reported under "other", never part of a verdict
FARM_DIAGNOSTIC = ["X05_OtherDenomRejected", "X05_EscrowConservation", "X05_DepositsBacked", "X05_SupplyClosed", "X05_CommunityPool",
                   "X05_ProposerFrame", "X06_ProposalRecorded", "X06_GovPool", "X06_VoteDecides", "X06_OneOutcome",
                   "X06_CPNoPanic", "X06_AdjustNoPanic", "X06_AdjustGuard", "X12_Farm_Escrow", "X12_Farm_RoundTrip",
                   "C06_Covered"]
# gov=1: the harness completes the application wiring the community-pool path needs (escrow module account, farm
# gov hooks, legacy proposal route - /repo's own application has none of them, finding FG1); reimport=1: as-is
# genesis round trips between blocks
FARM_GOV_CFG = "users=2,rdenoms=2,proposers=2,initlp=4,initr=40,gov=1,reimport=1,maxprops=6,initcp=30"
# MAGNITUDE TIER (technique a, exact scaling inside TLC).  strata=1: every history runs with all reward-denom
# amounts (rates, budgets, top-ups, balances, community pool, escrows) multiplied by a factor rk and all LP amounts
# by lpk*10^18/prec, cycling through the strata of harness/cmd/farm magStrata (rates from [2^31,2^32) to
# [2^127,2^129), rate x span crossing 2^64 with both factors below it, LP stakes up to 2^128); the projection divides
# by the factors and counts anything not exactly divisible (C05_ScaleExact), so the unchanged Farm.tla and every
# C05/C06/C13 clause judge the real execution at magnitude.  Exact because the magnitude drivers keep model rates
# multiples of lcm(1..max total stake): no accumulator or payout truncation occurs at either scale.
FARM_MAG_CFG = "users=3,rdenoms=2,initlp=2,initr=20000,strata=1"
FARM_MAG_GOV_CFG = "users=2,rdenoms=2,proposers=2,initlp=3,initr=20000,gov=1,initcp=8000,maxprops=4,strata=1"
FARM_MAG_SCN = "users=3,rdenoms=2,initlp=3,initr=20000,prec=10"
# NEGATIVE PROBING (round 7).  probe=<pct>: that share of the blocks of a random history carries a burst of one to
# three operations aimed at a pool chosen by LIFE-CYCLE STATE first (not started / starts next block / in its start
# block / running / running without stakers / in its last block / just over / ended / ended with stakers left /
# destroyed after its start / destroyed before its start / owned by the community pool), every message type (stake,
# unstake up to / exactly / beyond the recorded stake, harvest, top-up, rate change, destroy, stake / unstake of a
# coin that is not the staking token), by a role chosen towards that pool (creator, farmer with a stake, stranger);
# one burst in five puts the transition itself (the creator's destroy) into the same block ahead of the operations;
# a pool created in a block may be operated on in that very block under its predicted id; half as many blocks carry
# an input of the WRONG KIND (pool ids that are prefixes / extensions / other spellings of real ones or ids of another
# kind of object, staking coins of reward / fee denoms or plain coins shaped like pool share denoms - every user
# holds "lpt-2" and "LPT-1" coins -, staking tokens no liquidity pool stands behind, top-ups and rates in denoms the
# pool does not pay, start heights in the past / zero / so far ahead that the end height leaves int64).  The
# specification predicts every one of them (strict-mode drift 0); the epilogue of every history is computed from
# the farmer records of the REAL chain.
FARM_PROBE = ",probe=30"
FARM_RND = T(
    [dict(n=10, len=25, procs=5, cfg="users=3,rdenoms=2,initlp=6,initr=60" + FARM_PROBE),
     dict(n=10, len=30, procs=5, cfg="users=2,rdenoms=1,initlp=4,initr=40,prec=100,reimport=1" + FARM_PROBE),
     dict(n=10, len=30, procs=4, cfg=FARM_GOV_CFG + FARM_PROBE),
     dict(n=9, len=14, procs=2, cfg=FARM_MAG_CFG + FARM_PROBE), dict(n=9, len=14, procs=1, cfg=FARM_MAG_GOV_CFG + FARM_PROBE)],
    [dict(n=60, len=30, procs=7, cfg="users=3,rdenoms=2,initlp=6,initr=60" + FARM_PROBE),
     dict(n=60, len=40, procs=7, cfg="users=2,rdenoms=1,initlp=4,initr=40,prec=100,reimport=1" + FARM_PROBE),
     dict(n=60, len=40, procs=7, cfg=FARM_GOV_CFG + FARM_PROBE),
     dict(n=30, len=40, procs=4, cfg=FARM_GOV_CFG + ",burnpre=1,burnq=1,burnv=0,govdp=1,govvp=3" + FARM_PROBE),
     # the histories of the rounds before this one (no probes: more of every block goes to operations that succeed)
     dict(n=30, len=30, procs=4, cfg="users=3,rdenoms=2,initlp=6,initr=60"),
     dict(n=27, len=20, procs=7, cfg=FARM_MAG_CFG + FARM_PROBE), dict(n=27, len=20, procs=5, cfg=FARM_MAG_GOV_CFG + FARM_PROBE)])
# multi-message transactions (runs of one signer's messages delivered as one real transaction)
bundled(FARM_RND)
for _t in FARM_RND.values():
    # the bundled histories stay as they were (no probes): a transaction with a refused member fails as a whole
    _t[-1]["cfg"] = _t[-1]["cfg"].replace(FARM_PROBE, "")
FARM_GEN_GOV_CFG = "users=2,rdenoms=2,proposers=2,initlp=3,initr=20,prec=10,gov=1"
FARM_GEN_MAG_CFG = "users=2,rdenoms=1,initlp=3,initr=3000,prec=10"
# GEN_Farm_probe.cfg (GenSpecP): accepted events only until four events before the end, blocks kept coming; the last
# four events are ones the specification REJECTS (every message type on the pools of the deep state reached, ids and
# denoms of the wrong kind), delivered in the block of the last accepted messages; then the driver's epilogue (read
# from the real chain: withdraw half, half of the rest, let the pools run to their ends, withdraw what is left)
FARM_GEN = T([dict(cfg="GEN_Farm.cfg", num=20, depth=15, seeds=7),
              dict(cfg="GEN_Farm_probe.cfg", num=12, depth=18, seeds=3),
              dict(cfg="GEN_FarmGov_probe.cfg", num=8, depth=24, seeds=1, driver_cfg=FARM_GEN_GOV_CFG),
              dict(cfg="GEN_FarmGov.cfg", num=20, depth=24, seeds=4, driver_cfg=FARM_GEN_GOV_CFG),
              # magnitude: TLC-generated behaviours (rates 60/120 per block) executed with rates in [2^63,2^64):
              # rate x span wraps a 64-bit word from a span of 2 blocks on
              dict(cfg="GEN_FarmMag.cfg", num=20, depth=15, seeds=2, driver_cfg=FARM_GEN_MAG_CFG + ",rk=169093200598693763")],
             [dict(cfg="GEN_Farm.cfg", num=60, depth=17, seeds=14),
              dict(cfg="GEN_Farm_probe.cfg", num=60, depth=18, seeds=8),
              dict(cfg="GEN_Farm_probe.cfg", num=60, depth=22, seeds=6),
              dict(cfg="GEN_FarmGov_probe.cfg", num=40, depth=28, seeds=4, driver_cfg=FARM_GEN_GOV_CFG),
              dict(cfg="GEN_FarmGov.cfg", num=60, depth=28, seeds=10, driver_cfg=FARM_GEN_GOV_CFG),
              dict(cfg="GEN_FarmMag.cfg", num=60, depth=17, seeds=5, driver_cfg=FARM_GEN_MAG_CFG + ",rk=169093200598693763"),
              dict(cfg="GEN_FarmMag.cfg", num=60, depth=17, seeds=5, driver_cfg=FARM_GEN_MAG_CFG + ",rk=16666666666666667"),
              dict(cfg="GEN_FarmMag.cfg", num=60, depth=17, seeds=5,
                   driver_cfg=FARM_GEN_MAG_CFG + ",rk=5671372782015648997643561488564147477,lpk=3402823669209384634633")])
FARM_LIFE_CFG = "users=3,rdenoms=2,initlp=6,initr=60,prec=10"
FARM_SCN = [dict(file="scenarios/farm_F2.ndjson", cfg="users=2,rdenoms=1,initlp=3,initr=20,prec=10"),
            # negative probing, scripted (scenarios/farm_mk_lifecycle.py writes both files): a battery of every
            # operation by creator / farmer with a stake / stranger on a pool destroyed BEFORE its start (in the block
            # of the destroy, before, at and after its former start and end heights), on a pool destroyed after its
            # start with farmers in it, on a pool in its last block, on pools that are over; five pools due at one
            # height - one whose budget is exactly used up (Refund returns an error the end-blocker swallows), one
            # with one of two denoms used up, one never staked, one destroyed by its creator in that block
            dict(file="scenarios/farm_lifecycle.ndjson", cfg=FARM_LIFE_CFG),
            # ids and denoms of the wrong kind in every field that takes one, on a running pool with a farmer in it,
            # in the block of its destroy and after it
            dict(file="scenarios/farm_oddinputs.ndjson", cfg=FARM_LIFE_CFG),
            dict(file="scenarios/farm_F3.ndjson", cfg="users=3,rdenoms=2,initlp=6,initr=60,prec=10"),
            # regression for fixed finding F30 (plain send to the module address before the account exists)
            dict(file="scenarios/farm_F30.ndjson", cfg="users=2,rdenoms=1,initlp=3,initr=20,prec=10"),
            # governance-funded pools on the completed wiring: two proposals sharing the escrow (veto with burnt
            # deposits, pass, cancel), the same with as-is genesis round trips in between, the straight line
            dict(file="scenarios/farm_gov_life.ndjson", cfg="users=2,rdenoms=2,proposers=2,initlp=3,initr=20,prec=10,gov=1"),
            # FG2: a cancelled proposal strands its escrow (X06_OneOutcome fails - diagnostic)
            dict(file="scenarios/farm_gov_cancel.ndjson", cfg="users=2,rdenoms=2,proposers=2,initlp=3,initr=20,prec=10,gov=1"),
            # FG1: the application as /repo builds it: the message panics (X06_CPNoPanic fails - diagnostic)
            dict(file="scenarios/farm_gov_unwired.ndjson", cfg="users=2,rdenoms=2,initlp=3,initr=20,prec=10,gov=0,initcp=20"),
            # AdjustPool corners: before start, stranger, not editable, empty, unknown pool, one-denom top-up, last
            # block with nothing left to distribute (index panic before 3081448), after expiry
            dict(file="scenarios/farm_adjust_corners.ndjson", cfg="users=2,rdenoms=2,initlp=3,initr=20,prec=10"),
            # magnitude: one pool harvested every block, one touched once after 30 blocks, top-up and rate change,
            # another long gap, end-of-life refund - at 10^18 per block (rate x 30 >= 2^64), at a rate in [2^63,2^64)
            # and at a rate of ~2^128 with LP stakes ~2^128 (the K=1 trace is byte-identical in model units)
            dict(file="scenarios/farm_magnitude.ndjson", cfg=FARM_MAG_SCN + ",rk=16666666666666667"),
            dict(file="scenarios/farm_magnitude.ndjson", cfg=FARM_MAG_SCN + ",rk=169093200598693763"),
            # here the scripted top-up (remaining 540 + 333 model units) crosses 2^64 with both terms below it
            dict(file="scenarios/farm_magnitude.ndjson", cfg=FARM_MAG_SCN + ",rk=25000000000000007"),
            dict(file="scenarios/farm_magnitude.ndjson",
                 cfg=FARM_MAG_SCN + ",rk=5671372782015648997643561488564147477,lpk=3402823669209384634633")]
# MC_FarmGov: the proposal life cycle as a configuration of its own (one reward denom, two proposals sharing the
# escrow, deposits / votes / cancellation / round trips, farmer operations on the created pool)
FARM_MC = T([dict(cfg="MC_Farm.cfg", timeout=1500), dict(cfg="MC_FarmGov.cfg", timeout=600)],
            [dict(cfg="MC_Farm_big.cfg", timeout=3400), dict(cfg="MC_FarmGov_big.cfg", timeout=3000)])



def _pow2(v):
    return v.bit_length() - 1 if v > 0 else -1


_STRATA = [(31, "<2^31"), (32, "[2^31,2^32)"), (53, "[2^32,2^53)"), (63, "[2^53,2^63)"), (64, "[2^63,2^64)"),
           (65, "[2^64,2^65)"), (127, "[2^65,2^127)"), (129, "[2^127,2^129)"), (10 ** 9, ">=2^129")]


def _stratum(v):
    b = _pow2(v) + 1          # number of bits
    for lim, name in _STRATA:
        if b <= lim:
            return name
    return _STRATA[-1][1]


def farm_magnitude_evidence(check, pid, tier, seed, work):
    """Evidence of the magnitude tier: every release step (a pool update that accrued rewards) of every validated
    trace, classified by the real magnitudes of its operands - the verdicts themselves come from the ordinary
    trace validation (all clauses, unchanged specification)."""
    allf = os.path.join(work, "all.ndjson")
    strata = {"rate": {}, "rate_x_span": {}, "stake_total": {}, "budget": {}, "mixed_rate<2^64_product>=2^64": 0,
              "mixed_remaining+topup_crosses_2^64": 0, "mixed_remaining+topup_crosses_2^63": 0}
    steps, samples, rk, lpk, unit, prev = 0, [], 1, 1, 10 ** 17, None
    if not os.path.exists(allf):
        return [], {}
    with open(allf) as f:
        for line in f:
            r = json.loads(line)
            if r["ev"]["name"] == "Init":
                cfg = dict(kv.split("=", 1) for kv in r.get("cfg", "").split(",") if "=" in kv)
                rk, lpk = int(cfg.get("rk", "1")), int(cfg.get("lpk", "1"))
                unit = 10 ** 18 // int(cfg.get("prec", "10")) * lpk
                prev = r["st"]
                continue
            st = r["st"]
            if rk > 1 or lpk > 1:
                for p, pool in (prev or {}).get("pools", {}).items():
                    cur = st["pools"].get(p)
                    if not cur:
                        continue
                    span = cur["lastH"] - pool["lastH"]
                    for d, rule in pool["rules"].items():
                        if r["ev"]["name"] == "AdjustPool" and r["ev"]["ok"] and r["ev"]["pool"] == p and d in r["ev"]["total"]:
                            a, b = rule["remaining"] * rk, r["ev"]["total"][d] * rk
                            for w in (53, 63, 64, 128):
                                if a < 2 ** w and b < 2 ** w and a + b >= 2 ** w:
                                    k = "mixed_remaining+topup_crosses_2^%d" % w
                                    strata[k] = strata.get(k, 0) + 1
                        if span <= 0 or pool["total"] <= 0:
                            continue
                        steps += 1
                        rate, prod = rule["rpb"] * rk, rule["rpb"] * rk * span
                        for key, v in (("rate", rate), ("rate_x_span", prod), ("stake_total", pool["total"] * unit),
                                       ("budget", rule["totalR"] * rk)):
                            n = _stratum(v)
                            strata[key][n] = strata[key].get(n, 0) + 1
                        if rate < 2 ** 64 <= prod:
                            strata["mixed_rate<2^64_product>=2^64"] += 1
                            if len(samples) < 3:
                                samples.append({"event": r["ev"]["name"], "pool": p, "denom": d, "rate": str(rate),
                                                "span": span, "released": str(prod), "stake_total": str(pool["total"] * unit)})
            prev = st
    return [], {"big_steps": steps, "big_strata": strata, "big_samples": samples,
                "big_rule": "magnitude tier by exact scaling: release steps of real executions whose reward amounts are "
                            "rk x and LP amounts lpk x 10^18/prec x the model's (factors in the Init line of each trace), "
                            "validated by TLC against the unchanged Farm.tla (all C05/C06/C13 clauses + strict mode); "
                            "C05_ScaleExact fails on any value not exactly divisible by its factor"}


RECORD = [dict(binary="farm", n=T(3, 12), len=25, cfg="users=3,rdenoms=2,initlp=6,initr=60" + ",bundle=30")]

PROPS = {
    "C05": ModuleCheck("farm", "Farm.tla", "FarmTrace.tla", "FarmTrace.cfg", FARM_CLAUSES_C05,
                       FARM_MC, FARM_GEN, FARM_RND, scenarios=FARM_SCN,
                       # from "stake_neverran" on: antecedents of the negative-probing round, all scripted in
                       # scenarios/farm_lifecycle.ndjson / farm_oddinputs.ndjson (never missing unless a path broke)
                       required=["unstake_ok", "stake_ok", "refund", "release", "payout", "cp_stake",
                                 "stake_neverran", "stake_sameblock", "stake_over", "stake_notstarted", "harvest_over",
                                 "unstake_over_ok", "unstake_sameblock_ok", "unstake_toomuch", "destroy_notstarted_ok",
                                 "destroy_staked_ok", "role_creator", "role_staker", "role_stranger",
                                 "other_denom_staker", "odd_pool", "odd_lpt"],
                       gen_cfg="users=2,rdenoms=1,initlp=3,initr=20,prec=10", post=[farm_magnitude_evidence],
                       assumptions=["TLC 1.8, SANY, CommunityModules Json", "Go toolchain, cosmos-sdk x/bank",
                                    "harness projection functions", "unit scaling of LP amounts (DESIGN 4.2)",
                                    "magnitude tier: exact scaling of reward and LP amounts (rates multiples of "
                                    "lcm(1..max stake), so no truncation at either scale)"]),
    "C06": ModuleCheck("farm", "Farm.tla", "FarmTrace.tla", "FarmTrace.cfg", FARM_CLAUSES_C06,
                       FARM_MC, FARM_GEN, FARM_RND, scenarios=FARM_SCN,
                       # cp_*: a governance-funded pool was created, staked in, paid out and refunded to the community
                       # pool (scripted in scenarios/farm_gov_life.ndjson, so never missing unless the path broke)
                       required=["refund", "release", "payout", "adjust_ok", "destroy_ok",
                                 "cp_pass", "cp_payout", "cp_pool_refund",
                                 # negative probing (scripted in scenarios/farm_lifecycle.ndjson / farm_oddinputs.ndjson)
                                 "adjust_over", "adjust_neverran", "adjust_sameblock", "adjust_notstarted_ok",
                                 "destroy_over", "destroy_neverran", "destroy_nothing_left", "refund_many",
                                 "refund_zero", "refund_many_one_zero", "refund_part_zero",
                                 "refund_and_destroy_sameblock", "odd_adjust", "odd_start"],
                       gen_cfg="users=2,rdenoms=1,initlp=3,initr=20,prec=10", post=[farm_magnitude_evidence],
                       assumptions=["TLC 1.8, SANY, CommunityModules Json", "Go toolchain, cosmos-sdk x/bank",
                                    "harness projection functions", "unit scaling of LP amounts (DESIGN 4.2)",
                                    "magnitude tier: exact scaling of reward and LP amounts (rates multiples of "
                                    "lcm(1..max stake), so no truncation at either scale)"]),
}

TEXT = {
    "C05": dict(
        design="DESIGN.md 8 (C05), 3, 4.2",
        text="Farm.tla transcribes the farm module action by action; TLC checks stake-sum, escrow, "
             "unstake-never-fails/exact, frame and rejection clauses exhaustively on a bounded universe, "
             "then generates behaviours that are executed on the real application (real ABCI path) "
             "together with seeded random histories; every event of every real trace is validated by TLC "
             "against the clauses (verdict) and against the specification's own step function (drift). "
             "Bounded exhaustive at design level, sampled but clause-by-clause at code level.",
        note="Trusted: TLC/SANY/CommunityModules Json, Go toolchain, cosmos-sdk bank, the harness projection; "
             "LP amounts are multiples of 10^18/prec (exact unit scaling, DESIGN 4.2); known finding F2 masked "
             "only for unstakes the specification attributes to a short reward collector."),
    "C06": dict(
        design="DESIGN.md 8 (C06), 3",
        text="Same specification and traces as C05; clauses: budget = remaining + released + refunded per pool "
             "and denom (ghosts computed from observed states), money flows to collector/creator match the "
             "budget drops, release only at the per-block rate while someone is staked, refund exactly once, "
             "and each farmer's paid+claimable within the stated rounding of the exact stake-weighted "
             "entitlement (integer arithmetic scaled by 2520).",
        note="As C05. The pro-rata clause is evaluated when pool totals divide 2520 (all totals <= 10); other "
             "totals are counted as not exercised."),
}


