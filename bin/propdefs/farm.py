"""Farm: C05, C06 (Farm.tla / FarmTrace.tla / harness/cmd/farm)."""
from props import ModuleCheck, T

FARM_CLAUSES_C05 = ["C05_StakeSum", "C05_Escrow", "C05_UnstakeNeverFails", "C05_UnstakeExact",
                    "C05_StakeExact", "C05_OthersUntouched", "C05_ScaleExact", "C05_CrisisInvariant",
                    "Rejected_NoEffect"]
FARM_CLAUSES_C06 = ["C06_Budget", "C06_Funded", "C06_AdjustApplies", "C06_ProRata", "C06_Flows", "C06_Rate", "C06_TouchAccrues", "C06_RefundOnce"]

# diagnostic clauses (specification grown beyond the listed properties: governance-funded pools, AdjustPool
# corners, as-is genesis round trips inside a history); evaluated on every trace and in the exhaustive configs,
# reported under "other", never part of a verdict
FARM_DIAGNOSTIC = ["X05_EscrowConservation", "X05_DepositsBacked", "X05_SupplyClosed", "X05_CommunityPool",
                   "X05_ProposerFrame", "X06_ProposalRecorded", "X06_GovPool", "X06_VoteDecides", "X06_OneOutcome",
                   "X06_CPNoPanic", "X06_AdjustNoPanic", "X06_AdjustGuard", "X12_Farm_Escrow", "X12_Farm_RoundTrip",
                   "C06_Covered"]
# gov=1: the harness completes the application wiring the community-pool path needs (escrow module account, farm
# gov hooks, legacy proposal route - /repo's own application has none of them, finding FG1); reimport=1: as-is
# genesis round trips between blocks
FARM_GOV_CFG = "users=2,rdenoms=2,proposers=2,initlp=4,initr=40,gov=1,reimport=1,maxprops=6,initcp=30"
FARM_RND = T(
    [dict(n=12, len=25, procs=5, cfg="users=3,rdenoms=2,initlp=6,initr=60"),
     dict(n=12, len=30, procs=5, cfg="users=2,rdenoms=1,initlp=4,initr=40,prec=100,reimport=1"),
     dict(n=10, len=30, procs=4, cfg=FARM_GOV_CFG)],
    [dict(n=60, len=30, procs=7, cfg="users=3,rdenoms=2,initlp=6,initr=60"),
     dict(n=60, len=40, procs=7, cfg="users=2,rdenoms=1,initlp=4,initr=40,prec=100,reimport=1"),
     dict(n=60, len=40, procs=7, cfg=FARM_GOV_CFG),
     dict(n=30, len=40, procs=4, cfg=FARM_GOV_CFG + ",burnpre=1,burnq=1,burnv=0,govdp=1,govvp=3")])
FARM_GEN_GOV_CFG = "users=2,rdenoms=2,proposers=2,initlp=3,initr=20,prec=10,gov=1"
FARM_GEN = T([dict(cfg="GEN_Farm.cfg", num=20, depth=15, seeds=10),
              dict(cfg="GEN_FarmGov.cfg", num=20, depth=24, seeds=4, driver_cfg=FARM_GEN_GOV_CFG)],
             [dict(cfg="GEN_Farm.cfg", num=60, depth=17, seeds=14),
              dict(cfg="GEN_FarmGov.cfg", num=60, depth=28, seeds=10, driver_cfg=FARM_GEN_GOV_CFG)])
FARM_SCN = [dict(file="scenarios/farm_F2.ndjson", cfg="users=2,rdenoms=1,initlp=3,initr=20,prec=10"),
            dict(file="scenarios/farm_F3.ndjson", cfg="users=3,rdenoms=2,initlp=6,initr=60,prec=10"),
            # regression for fixed finding F30 (plain send to the module address before the account exists)
            dict(file="scenarios/farm_F30.ndjson", cfg="users=2,rdenoms=1,initlp=3,initr=20,prec=10"),
            # governance-funded pools on the completed wiring: two proposals sharing the escrow (veto with burnt
            # deposits, pass, cancel), the same with as-is genesis round trips in between, the straight line
            dict(file="scenarios/farm_gov_life.ndjson", cfg="users=2,rdenoms=2,proposers=2,initlp=3,initr=20,prec=10,gov=1"),
            # FG2: a cancelled proposal strands its escrow (X06_OneOutcome fails - diagnostic)
            dict(file="scenarios/farm_gov_cancel.ndjson", cfg="users=2,rdenoms=2,proposers=2,initlp=3,initr=20,prec=10,gov=1"),
            # FG1: the application as /repo builds it: the message panics (X06_CPNoPanic fails - diagnostic)
            dict(file="scenarios/farm_gov_unwired.ndjson", cfg="users=2,rdenoms=2,initlp=3,initr=20,prec=10,gov=0,initcp=20"),
            # AdjustPool corners: before start, stranger, not editable, empty, unknown pool, one-denom top-up, last
            # block with nothing left to distribute (index panic before 3081448), after expiry
            dict(file="scenarios/farm_adjust_corners.ndjson", cfg="users=2,rdenoms=2,initlp=3,initr=20,prec=10")]
# MC_FarmGov: the proposal life cycle as a configuration of its own (one reward denom, two proposals sharing the
# escrow, deposits / votes / cancellation / round trips, farmer operations on the created pool)
FARM_MC = T([dict(cfg="MC_Farm.cfg", timeout=1500), dict(cfg="MC_FarmGov.cfg", timeout=600)],
            [dict(cfg="MC_Farm_big.cfg", timeout=3400), dict(cfg="MC_FarmGov_big.cfg", timeout=3000)])

RECORD = [dict(binary="farm", n=T(3, 12), len=25, cfg="users=3,rdenoms=2,initlp=6,initr=60")]

PROPS = {
    "C05": ModuleCheck("farm", "Farm.tla", "FarmTrace.tla", "FarmTrace.cfg", FARM_CLAUSES_C05,
                       FARM_MC, FARM_GEN, FARM_RND, scenarios=FARM_SCN,
                       required=["unstake_ok", "stake_ok", "refund", "release", "payout", "cp_stake"],
                       gen_cfg="users=2,rdenoms=1,initlp=3,initr=20,prec=10",
                       assumptions=["TLC 1.8, SANY, CommunityModules Json", "Go toolchain, cosmos-sdk x/bank",
                                    "harness projection functions", "unit scaling of LP amounts (DESIGN 4.2)"]),
    "C06": ModuleCheck("farm", "Farm.tla", "FarmTrace.tla", "FarmTrace.cfg", FARM_CLAUSES_C06,
                       FARM_MC, FARM_GEN, FARM_RND, scenarios=FARM_SCN,
                       # cp_*: a governance-funded pool was created, staked in, paid out and refunded to the community
                       # pool (scripted in scenarios/farm_gov_life.ndjson, so never missing unless the path broke)
                       required=["refund", "release", "payout", "adjust_ok", "destroy_ok",
                                 "cp_pass", "cp_payout", "cp_pool_refund"],
                       gen_cfg="users=2,rdenoms=1,initlp=3,initr=20,prec=10",
                       assumptions=["TLC 1.8, SANY, CommunityModules Json", "Go toolchain, cosmos-sdk x/bank",
                                    "harness projection functions", "unit scaling of LP amounts (DESIGN 4.2)"]),
}

TEXT = {
    "C05": dict(
        design="DESIGN.md 8 (C05), 3, 4.2",
        text="Farm.tla transcribes the farm module action by action; TLC checks stake-sum, escrow, "
             "unstake-never-fails/exact, frame and rejection clauses exhaustively on a bounded universe, "
             "then generates behaviours that are executed on the real application (real ABCI path) "
             "together with seeded random histories; every event of every real trace is validated by TLC "
             "against the clauses (verdict) and against the specification's own step function (drift). "
             "Bounded exhaustive at design level, sampled but clause-by-clause at code level.",
        note="Trusted: TLC/SANY/CommunityModules Json, Go toolchain, cosmos-sdk bank, the harness projection; "
             "LP amounts are multiples of 10^18/prec (exact unit scaling, DESIGN 4.2); known finding F2 masked "
             "only for unstakes the specification attributes to a short reward collector."),
    "C06": dict(
        design="DESIGN.md 8 (C06), 3",
        text="Same specification and traces as C05; clauses: budget = remaining + released + refunded per pool "
             "and denom (ghosts computed from observed states), money flows to collector/creator match the "
             "budget drops, release only at the per-block rate while someone is staked, refund exactly once, "
             "and each farmer's paid+claimable within the stated rounding of the exact stake-weighted "
             "entitlement (integer arithmetic scaled by 2520).",
        note="As C05. The pro-rata clause is evaluated when pool totals divide 2520 (all totals <= 10); other "
             "totals are counted as not exercised."),
}


