"""Farm: C05, C06 (Farm.tla / FarmTrace.tla / harness/cmd/farm)."""
from props import ModuleCheck, T

FARM_CLAUSES_C05 = ["C05_StakeSum", "C05_Escrow", "C05_UnstakeNeverFails", "C05_UnstakeExact",
                    "C05_StakeExact", "C05_OthersUntouched", "C05_ScaleExact", "C05_CrisisInvariant",
                    "Rejected_NoEffect"]
FARM_CLAUSES_C06 = ["C06_Budget", "C06_Funded", "C06_AdjustApplies", "C06_ProRata", "C06_Flows", "C06_Rate", "C06_TouchAccrues", "C06_RefundOnce"]

FARM_RND = T(
    [dict(n=12, len=25, procs=6, cfg="users=3,rdenoms=2,initlp=6,initr=60"),
     dict(n=12, len=30, procs=6, cfg="users=2,rdenoms=1,initlp=4,initr=40,prec=100")],
    [dict(n=60, len=30, procs=7, cfg="users=3,rdenoms=2,initlp=6,initr=60"),
     dict(n=60, len=40, procs=7, cfg="users=2,rdenoms=1,initlp=4,initr=40,prec=100")])
FARM_GEN = T([dict(cfg="GEN_Farm.cfg", num=20, depth=15, seeds=12)],
             [dict(cfg="GEN_Farm.cfg", num=60, depth=17, seeds=14)])
FARM_SCN = [dict(file="scenarios/farm_F2.ndjson", cfg="users=2,rdenoms=1,initlp=3,initr=20,prec=10"),
            dict(file="scenarios/farm_F3.ndjson", cfg="users=3,rdenoms=2,initlp=6,initr=60,prec=10"),
            # regression for fixed finding F30 (plain send to the module address before the account exists)
            dict(file="scenarios/farm_F30.ndjson", cfg="users=2,rdenoms=1,initlp=3,initr=20,prec=10")]
FARM_MC = T([dict(cfg="MC_Farm.cfg", timeout=1500)], [dict(cfg="MC_Farm_big.cfg", timeout=3400)])

RECORD = [dict(binary="farm", n=T(3, 12), len=25, cfg="users=3,rdenoms=2,initlp=6,initr=60")]

PROPS = {
    "C05": ModuleCheck("farm", "Farm.tla", "FarmTrace.tla", "FarmTrace.cfg", FARM_CLAUSES_C05,
                       FARM_MC, FARM_GEN, FARM_RND, scenarios=FARM_SCN,
                       required=["unstake_ok", "stake_ok", "refund", "release", "payout"],
                       gen_cfg="users=2,rdenoms=1,initlp=3,initr=20,prec=10",
                       assumptions=["TLC 1.8, SANY, CommunityModules Json", "Go toolchain, cosmos-sdk x/bank",
                                    "harness projection functions", "unit scaling of LP amounts (DESIGN 4.2)"]),
    "C06": ModuleCheck("farm", "Farm.tla", "FarmTrace.tla", "FarmTrace.cfg", FARM_CLAUSES_C06,
                       FARM_MC, FARM_GEN, FARM_RND, scenarios=FARM_SCN,
                       required=["refund", "release", "payout", "adjust_ok", "destroy_ok"],
                       gen_cfg="users=2,rdenoms=1,initlp=3,initr=20,prec=10",
                       assumptions=["TLC 1.8, SANY, CommunityModules Json", "Go toolchain, cosmos-sdk x/bank",
                                    "harness projection functions", "unit scaling of LP amounts (DESIGN 4.2)"]),
}

TEXT = {
    "C05": dict(
        design="DESIGN.md 8 (C05), 3, 4.2",
        text="Farm.tla transcribes the farm module action by action; TLC checks stake-sum, escrow, "
             "unstake-never-fails/exact, frame and rejection clauses exhaustively on a bounded universe, "
             "then generates behaviours that are executed on the real application (real ABCI path) "
             "together with seeded random histories; every event of every real trace is validated by TLC "
             "against the clauses (verdict) and against the specification's own step function (drift). "
             "Bounded exhaustive at design level, sampled but clause-by-clause at code level.",
        note="Trusted: TLC/SANY/CommunityModules Json, Go toolchain, cosmos-sdk bank, the harness projection; "
             "LP amounts are multiples of 10^18/prec (exact unit scaling, DESIGN 4.2); known finding F2 masked "
             "only for unstakes the specification attributes to a short reward collector."),
    "C06": dict(
        design="DESIGN.md 8 (C06), 3",
        text="Same specification and traces as C05; clauses: budget = remaining + released + refunded per pool "
             "and denom (ghosts computed from observed states), money flows to collector/creator match the "
             "budget drops, release only at the per-block rate while someone is staked, refund exactly once, "
             "and each farmer's paid+claimable within the stated rounding of the exact stake-weighted "
             "entitlement (integer arithmetic scaled by 2520).",
        note="As C05. The pro-rata clause is evaluated when pool totals divide 2520 (all totals <= 10); other "
             "totals are counted as not exercised."),
}


