"""C12 — exported state re-imports and preserves what users rely on
(Genesis.tla / GenesisTrace.tla / harness/cmd/genesis).

Design level: Genesis.tla models a chain as per-module maps of durable objects
plus hidden queues and id counters, with Advance / Export(mode) / Import /
ReExport and continued as-is imports; TLC checks the clauses exhaustively on a
bounded universe, and finds each deliberately planted defect (binding self-test).

Code level: the byte-level histories of every module driver (props.RECORDS,
recorded with VERIF_RECORD_DIR) and the scripted finding scenarios are replayed
on the real application; at checkpoints (every K blocks, boundary heights, the
last block) the state is exported as-is and after the modules' zero-height
preparation, imported into a fresh application, exported again and queried
through the modules' gRPC query servers on both sides; an as-is import then
executes the remaining recorded blocks.  TLC validates the GenesisRoundTrip /
Continuation events against the clauses (GenesisTrace.tla)."""
import glob, json, os, re, shutil, subprocess, time
from concurrent.futures import ThreadPoolExecutor
import vlib
from vlib import log, Inconclusive, ROOT
from props import RECORDS, T, match_known

CLAUSES = ["C12_Accepted", "C12_Fixpoint", "C12_Durable", "C12_Continuation"]
MODULES = ["coinswap", "farm", "htlc", "mt", "nft", "oracle", "random", "record", "service", "token"]

# planted defects of Genesis.tla and the invariants that may report them
DEFECTS = [
    ("export_drops", "farm", {"Inv_C12_Durable", "Inv_C12_Fixpoint"}),
    ("validate_strict", "htlc", {"Inv_C12_Accepted"}),
    ("import_rekeys", "farm", {"Inv_C12_Durable", "Inv_C12_Fixpoint"}),
    ("import_resets_seq", "service", {"Inv_C12_Fixpoint", "Inv_C12_Continuation"}),
    ("import_skips_due_next", "htlc", {"Inv_C12_Continuation"}),
]

# error text of a rejected import -> class (known findings are keyed by it)
ERR_CLASSES = [
    (r"timestamp cannot be 0", "htlc_timestamp_zero"),
    (r"invalid token max supply", "token_max_below_initial"),
    (r"rewardPerShare must be positive", "farm_rps_zero"),
    # F17: contexts must be PAUSED with a COMPLETED batch
    (r"invalid request context (batch )?state", "service_context_not_paused"),
    (r"asset not found", "htlc_asset_not_found"),
    (r"is over the supply limit", "htlc_supply_over_limit"),
    (r"asset is currently inactive", "htlc_asset_inactive"),
    (r"invalid minUnit: ibc/", "token_ibc_minunit"),
    # classes of the refusals found by the rule walk, F37 / F38 (findings/genesis.md): repaired in /repo, no known
    # finding uses them (they must never be maskable); kept so that a regression is reported under a readable class
    (r"the length of nft uri", "nft_uri_too_long"),
    (r"Token \S+ does not exist", "token_fee_denom_not_issued"),
]

EVERY = T(6, 2)
BOUNDARY = T(3, 12)


def load_known():
    """known_findings.json; with VERIF_C12_PROPOSED=1 (builders' self-tests only) also the entries proposed in
    findings/genesis_known.json that the lead has not merged yet."""
    known = vlib.load_known()
    prop = os.path.join(ROOT, "findings", "genesis_known.json")
    if os.environ.get("VERIF_C12_PROPOSED") == "1" and os.path.exists(prop):
        have = {k.get("id") for k in known.get("findings", []) if k.get("property") == "C12"}
        extra = [k for k in json.load(open(prop))["findings"] if k["id"] not in have and not k.get("status")]
        known = dict(known, findings=list(known.get("findings", [])) + extra)
    return known


# A known finding is a refusal whose *reason holds*: the error text of the known classes carries the values the
# rule looked at, and a refusal of the same wording whose own numbers do not bear it out (a rule that became one notch
# too strict prints "100 is over the supply limit 100") is not that finding: it gets a class of its own, which no
# known finding matches.
ERR_REFUTED = [
    (r"supply (\d+)\S* is over the supply limit (\d+)", lambda m: int(m.group(1)) <= int(m.group(2)), "htlc_supply_not_over_limit"),
    (r"invalid token max supply (\d+), only accepts value \[(\d+),", lambda m: int(m.group(1)) >= int(m.group(2)),
     "token_max_not_below_initial"),
    (r"rewardPerShare must be positive, but got (-?[0-9.]+)", lambda m: float(m.group(1)) > 0, "farm_rps_not_zero"),
    (r"invalid request context state, ID:\w+, State:PAUSED", lambda m: True, "service_context_paused_refused"),
    (r"invalid request context batch state, ID:\w+, BatchState:BATCH_COMPLETED", lambda m: True, "service_context_paused_refused"),
]


# the harness checks the reason of a refusal of a known wording against the exported genesis itself
# (harness/cmd/genesis/reasons.go) and marks the error when the export does not show the state the finding is about
REFUTED_MARK = "[the exported state does not bear this out]"


def err_class(msg):
    if (msg or "").startswith(REFUTED_MARK):
        return "reason_refuted"
    for pat, refuted, cls in ERR_REFUTED:
        m = re.search(pat, msg or "")
        if m and refuted(m):
            return cls
    for pat, cls in ERR_CLASSES:
        if re.search(pat, msg or ""):
            return cls
    return ""


def failing_instances(ev, clause):
    """The (module, kind) instances of a failing clause on one trace line.  The
    verdict is TLC's (the clause failed on this line); this only attributes it to
    modules so that a known finding of one module never hides another module."""
    res = ev.get("res", {})
    mode = ev.get("mode", "")
    if clause == "C12_Accepted":
        if ev.get("name") == "Continuation":
            return [("continue", "halt")]
        if not ev.get("exported", True):
            return [("export", ev.get("stage", ""))]
        if not ev.get("accepted", True):
            return [(ev.get("culprit") or ev.get("stage") or "import", ev.get("stage", ""))]
        broken = res.get("broken", [])
        return [((b.split("/")[0] if "/" in b else "invariants"), "invariant") for b in broken] or [("invariants", "invariant")]
    key = "fixpoint" if clause == "C12_Fixpoint" else "durable"
    out = []
    for m in MODULES:
        if res.get(key, {}).get(m) is False:
            # one instance per object class with a differing answer (res.kinds), so that a known finding about one
            # class of a module's answers never hides a difference in another class on the same event
            kinds = (res.get("kinds", {}).get(m) or []) if key == "durable" else []
            out += [(m, k) for k in kinds] or [(m, res.get("kind", {}).get(m, ""))]
    return out


class GenesisCheck:
    binary = "genesis"
    spec = "Genesis.tla"
    trace_spec, trace_cfg = "GenesisTrace.tla", "GenesisTrace.cfg"

    # -- model ----------------------------------------------------------------
    def run_mc(self, tier, work):
        cfgs = {"quick": ["MC_Genesis.cfg", "MC_Genesis_ids1.cfg"],
                "thorough": ["MC_Genesis_mid.cfg", "MC_Genesis_ids1.cfg", "MC_Genesis_big.cfg"]}[tier]
        info = {"states": 0, "transitions": 0, "configs": []}
        for cfg in cfgs:
            t0 = time.time()
            rc, out = vlib.run_tlc(work, self.spec, cfg, workers=max(4, vlib.NCPU // 2), heap="4g", timeout=2400)
            g, d = vlib.tlc_counts(out)
            err = vlib.tlc_error(out)
            if err:
                raise Inconclusive(f"Genesis.tla model checking failed on {cfg}: {err}\n{out[-1500:]}")
            log(f"[mc] {cfg}: {g} generated / {d} distinct, ok ({time.time()-t0:.0f}s)")
            info["states"] += d
            info["transitions"] += g
            info["configs"].append({"cfg": cfg, "generated": g, "distinct": d, "wall_s": round(time.time() - t0, 1)})
        return info

    def self_test(self, work):
        """Binding self-test of the model: every planted defect must be found."""
        base = open(os.path.join(work, "MC_Genesis_defect.cfg")).read()

        def one(d):
            defect, mod, want = d
            cfg = f"MC_Genesis_defect_{defect}.cfg"
            txt = re.sub(r'Defect = "[^"]*"', f'Defect = "{defect}"', base)
            txt = re.sub(r'DefectMod = "[^"]*"', f'DefectMod = "{mod}"', txt)
            open(os.path.join(work, cfg), "w").write(txt)
            rc, out = vlib.run_tlc(work, self.spec, cfg, workers=2, heap="1g", timeout=900)
            err = vlib.tlc_error(out)
            return defect, mod, err, want

        found = {}
        with ThreadPoolExecutor(max_workers=3) as ex:
            for defect, mod, err, want in ex.map(one, DEFECTS):
                if not err or err[0] != "invariant" or err[1] not in want:
                    raise Inconclusive(f"model self-test: planted defect {defect}@{mod} not reported as one of "
                                       f"{sorted(want)} (TLC said {err})")
                found[f"{defect}@{mod}"] = err[1]
        log(f"[mc] binding self-test: {len(found)} planted defects found by TLC: {found}")
        return found

    # -- histories --------------------------------------------------------------
    def record(self, tier, work, seed):
        """Run every registered module driver with recording on (as C11 does)."""
        recdir = os.path.join(work, "rec")
        os.makedirs(recdir, exist_ok=True)
        jobs = [(r, r["n"][tier] if isinstance(r["n"], dict) else r["n"]) for r in RECORDS]
        failed = []
        built = {}
        for r, _ in jobs:     # one build per binary (builds are serialised by a lock anyway)
            if r["binary"] not in built:
                try:
                    vlib.build_harness(r["binary"])
                    built[r["binary"]] = True
                except Inconclusive as ex:
                    built[r["binary"]] = False
                    failed.append((r["binary"], str(ex)[-600:]))

        def one(job):
            r, n = job
            if not built.get(r["binary"]):
                return r["binary"]
            try:
                out = os.path.join(work, f"rectrace-{r['binary']}-{abs(hash(r.get('cfg','') + r.get('in','')))%99999}.ndjson")
                env = dict(os.environ, VERIF_RECORD_DIR=recdir)
                cmd = [vlib.harness_bin(r["binary"]), r.get("mode", "random"), "-out", out, "-seed", str(seed * 31 + 7),
                       "-n", str(n), "-len", str(r.get("len", 30)), "-cfg", r.get("cfg", "")]
                if r.get("in"):
                    cmd += ["-in", os.path.join(ROOT, r["in"])]
                p = subprocess.run(cmd, env=env, capture_output=True, text=True, timeout=1800)
                if p.returncode != 0:
                    failed.append((r["binary"], p.stderr[-600:]))
                if os.path.exists(out):
                    os.remove(out)
            except (Inconclusive, subprocess.TimeoutExpired) as ex:
                failed.append((r["binary"], str(ex)[-600:]))
            return r["binary"]

        with ThreadPoolExecutor(max_workers=6) as ex:
            done = list(ex.map(one, jobs))
        recs = sorted(glob.glob(os.path.join(recdir, "*.rec")))
        # a driver that broke half way leaves a usable prefix; an empty file is dropped
        recs = [r for r in recs if os.path.getsize(r) > 0 and sum(1 for _ in open(r)) > 2]
        for b, msg in failed:
            log(f"[record] driver {b} failed (its histories are not used): {msg.strip()[-300:]}")
        log(f"[record] {len(recs)} histories recorded from drivers {sorted(set(done) - {b for b, _ in failed})}")
        return recs, failed

    # -- judging ----------------------------------------------------------------
    def judge(self, pid, trace_file, work):
        res = vlib.validate_trace(self.trace_spec, self.trace_cfg, trace_file, work, max_lines=1200)
        known = load_known()
        viol, hits = [], {}
        lines = open(trace_file).read().split("\n") if res["fails"] else []
        for ln, clauses, why in res["fails"]:
            line = json.loads(lines[ln - 1])
            ev = line["ev"]
            for c in clauses:
                if c not in CLAUSES:
                    continue
                for module, kind in failing_instances(ev, c):
                    rec = {"ev": ev, "why": f"{module}:{ev.get('mode','')}", "module": module, "kind": kind,
                           "err_class": err_class(ev.get("res", {}).get("err", ""))}
                    kf = match_known(known, pid, c, rec)
                    if kf:
                        hits.setdefault(kf["id"], kf)
                    else:
                        viol.append((ln, c, module, kind, rec["err_class"]))
        return res, viol, hits

    def describe(self, line, clause, module, kind, ecls):
        ev = line["ev"]
        r = ev.get("res", {})
        s = (f"{ev['name']} history={ev.get('rec')} height={ev.get('h')} mode={ev.get('mode')} module={module}"
             f" kind={kind or '-'}")
        if ev["name"] == "Continuation":
            s += f" import-height={ev.get('h0')} blocks={ev.get('nblocks')} tx-results-equal={ev.get('results_equal')}"
        if not ev.get("accepted", True) or not ev.get("exported", True):
            s += f" stage={ev.get('stage')} error={r.get('err','')[:200]!r}"
        if module in r.get("lost", {}):
            s += f" lost={r['lost'][module]} diff={r['diff'][module]}"
        if r.get("broken"):
            s += f" broken-invariants={r['broken']}"
        return s

    def save_replay(self, pid, tier, seed, line, recs, clause, module, kind):
        ev = line["ev"]
        d = os.path.join(ROOT, "replays", f"{pid}-{tier}-seed{seed}{vlib.REPLAY_TAG}")
        shutil.rmtree(d, ignore_errors=True)
        os.makedirs(d)
        src = [r for r in recs if os.path.basename(r) == ev.get("rec")]
        meta = {"property": pid, "clause": clause, "module": module, "kind": kind, "mode": ev.get("mode"),
                "event": ev["name"], "rec": ev.get("rec"),
                "at": ev.get("h0") if ev["name"] == "Continuation" else ev.get("h")}
        if src:
            shutil.copy(src[0], os.path.join(d, "history.rec"))
        elif (ev.get("rec") or "").startswith("genesis_"):
            meta["scenario"] = ev["rec"][len("genesis_"):-len(".rec")]
        json.dump(meta, open(os.path.join(d, "meta.json"), "w"), indent=1)
        with open(os.path.join(d, "event.ndjson"), "w") as f:
            f.write(json.dumps(line) + "\n")
        return d

    def replay(self, pid, path, work, seed, quiet=False):
        vlib.build_harness("genesis") if not os.path.exists(vlib.harness_bin("genesis")) else None
        meta = json.load(open(os.path.join(path, "meta.json")))
        tr = os.path.join(work, f"replay-{time.time_ns()}.ndjson")
        if meta.get("scenario"):
            vlib.run_harness("genesis", "scenario", tr, cfg=f"name={meta['scenario']}")
        else:
            vlib.run_harness("genesis", "roundtrip", tr, cfg=f"rec={os.path.join(path, 'history.rec')},at={meta['at']}")
        sub = os.path.join(work, f"replay-val-{time.time_ns()}")
        os.makedirs(sub)
        vlib.copy_specs(sub)
        res, viol, hits = self.judge(pid, tr, sub)
        mine = [v for v in viol if v[1] == meta["clause"] and v[2] == meta["module"]] or viol
        if mine:
            if not quiet:
                lines = open(tr).read().split("\n")
                for ln, c, m, k, e in mine[:5]:
                    log(f"replay: clause {c} fails: {self.describe(json.loads(lines[ln-1]), c, m, k, e)}")
                print(f"VIOLATION property={pid} replay={path}", flush=True)
            return 1
        if not quiet:
            log("replay: all clauses hold" + (f" (known findings: {sorted(hits)})" if hits else ""))
        return 0

    # -- the check --------------------------------------------------------------
    def run(self, pid, tier, seed, work, replay=None, skip_mc=False, t0=None):
        t0 = t0 or time.time()
        if replay:
            return self.replay(pid, replay, work, seed)
        cov = {"rule": "states/transitions: TLC exhaustive run of Genesis.tla (histories x export mode x import x "
                       "re-export x continued as-is imports over a bounded universe of modules/objects/heights) plus "
                       "the planted-defect self-test; traces: recorded byte-level histories of every module driver and "
                       "the finding scenarios replayed on the real application with genesis round trips (both modes) "
                       "at checkpoints and continuation of as-is imports, every event validated by TLC "
                       "(GenesisTrace.tla)."}
        mc = {"states": 0, "transitions": 0, "configs": []}
        defects = {}
        # the model runs (exhaustive check + planted-defect self-test) proceed in the
        # background while the histories are recorded and round-tripped
        mcex = ThreadPoolExecutor(max_workers=2)
        f_mc = f_st = None
        if not skip_mc:
            f_mc = mcex.submit(self.run_mc, tier, work)
            f_st = mcex.submit(self.self_test, work)
        t1 = time.time()
        recs, failed = self.record(tier, work, seed)
        t2 = time.time()
        every, boundary = EVERY[tier], BOUNDARY[tier]
        max_recs = {"quick": 48, "thorough": 600}[tier]
        recs = recs[:max_recs]

        def one(i_rec):
            i, rec = i_rec
            out = os.path.join(work, f"gt-{i}.ndjson")
            vlib.run_harness("genesis", "roundtrip", out, cfg=f"rec={rec},every={every},boundary={boundary}", timeout=3000)
            return out

        # the scripted scenarios, one process each
        p = subprocess.run([vlib.harness_bin("genesis"), "scenario", "-out", os.devnull, "-cfg", "name=list"],
                           capture_output=True, text=True, timeout=120)
        names = [n for n in p.stdout.split() if n]
        if p.returncode != 0 or not names:
            raise Inconclusive("harness-genesis scenario list failed: " + p.stderr[-500:])

        def scn(name):
            out = os.path.join(work, f"gt-scn-{name}.ndjson")
            # a scenario that cannot go on (a changed tree refuses one of its steps) still round-trips what it
            # had recorded; the run is then inconclusive unless a clause failed (never a pass)
            vlib.run_harness("genesis", "scenario", out, cfg=f"name={name}", timeout=3000, tolerate=True)
            return out

        with ThreadPoolExecutor(max_workers=max(1, vlib.NCPU - 2)) as ex:
            fs = [ex.submit(scn, n) for n in names]
            traces = list(ex.map(one, list(enumerate(recs))))
            traces += [f.result() for f in fs]
        t3 = time.time()
        allf = os.path.join(work, "all.ndjson")
        with open(allf, "w") as out:
            for t in traces:
                with open(t) as f:
                    shutil.copyfileobj(f, out)
        ntr = vlib.count_traces(allf)
        res, viol, hits = self.judge(pid, allf, work)
        t4 = time.time()
        try:
            if f_mc is not None:
                mc, defects = f_mc.result(), f_st.result()
        finally:
            mcex.shutdown(wait=True)
        log(f"[time] record {t2-t1:.0f}s, round trips {t3-t2:.0f}s, trace validation {t4-t3:.0f}s, "
            f"model checking (in parallel) done after {time.time()-t0:.0f}s")
        ex_ = res["exercised"]
        nrt = ex_.get("asis", 0) + ex_.get("zeroheight", 0)
        log(f"[trace] {ntr} histories ({len(recs)} recorded + {len(names)} scenarios) / {res['lines']} events validated; "
            f"round trips={nrt} continuations={ex_.get('continuation', 0)}; drift={res['drift']}; "
            f"clause failures: new={len(viol)} known={len(hits)}")
        for d in res["drift_first"][:3]:
            log(f"DRIFT: line={d['line']} event={d['event']} (history position bookkeeping; not a verdict)")
        for kf in hits.values():
            log(f"KNOWN-FINDING: property={pid} {kf['description']}")
        nonempty = sorted(m for m in MODULES if ex_.get("nonempty_" + m, 0) > 0)
        empty = [m for m in MODULES if m not in nonempty]
        # vacuity is judged on the recorded driver histories only (the scenarios always touch several modules)
        by_driver = set()
        with open(allf) as f:
            for line in f:
                if '"name":"GenesisRoundTrip"' in line[:300] and '"rec":"genesis_' not in line[:400]:
                    e = json.loads(line)["ev"]
                    if e.get("accepted"):
                        by_driver |= {m for m, n in e["res"]["nobj"].items() if n > 0 and m != "token"}
        by_driver = sorted(by_driver)
        diverged = 0
        with open(allf) as f:
            for line in f:
                if '"name":"Continuation"' in line[:300] and '"results_equal":false' in line:
                    diverged += 1
        if diverged:
            log(f"[trace] {diverged} continuations ended early because transaction results diverged from the source "
                f"(app-hash dependent choices, state outside the irismod genesis such as the ERC20 ledger); durable "
                f"answers were equal up to that block — diagnostic, not a verdict")
        log(f"[coverage] modules with durable objects in some round trip: {nonempty} (from recorded drivers: {by_driver}; "
            f"the native token alone does not count); not exercised: {empty}")
        samples = []
        with open(allf) as f:
            for line in f:
                if '"name":"GenesisRoundTrip"' in line[:300] or '"name":"Continuation"' in line[:300]:
                    e = json.loads(line)["ev"]
                    if sum(e["res"]["nobj"].values()) > 2:
                        samples.append({k: e[k] for k in ("name", "rec", "h", "h0", "mode", "accepted", "exported",
                                                          "invariants_ok", "nblocks", "results_equal")} |
                                       {"nobj": e["res"]["nobj"], "fixpoint": e["res"]["fixpoint"], "durable": e["res"]["durable"]})
                    if len(samples) >= 3:
                        break
        cov.update({"states": max(1, mc["states"]), "transitions": max(1, mc["transitions"]), "mc_configs": mc["configs"],
                    "exhaustive": bool(mc["configs"]), "planted_defects_found": defects,
                    "traces_validated_against_impl": ntr, "events_validated": res["lines"], "round_trips": nrt,
                    "continuations": ex_.get("continuation", 0), "continuations_ended_by_tx_divergence": diverged,
                    "recordings": len(recs),
                    "recorded_drivers": sorted({os.path.basename(r).split("-")[1] for r in recs}),
                    "recording_drivers_failed": [b for b, _ in failed],
                    "modules_exercised": nonempty, "modules_exercised_by_recorded_drivers": by_driver,
                    "modules_not_exercised": empty, "drift_steps": res["drift"],
                    "clause_antecedents": ex_, "clauses": CLAUSES, "known_findings_hit": sorted(hits),
                    "checkpoints": {"every": every, "boundary": boundary}, "samples": samples})
        assumptions = ["TLC/SANY/CommunityModules Json", "Go toolchain, cosmos-sdk baseapp/module manager",
                       "canonical JSON comparison of genesis sections (sorted keys, arrays as written; MT owner "
                       "collections as multisets)", "gRPC query servers called directly on keeper handles with "
                       "explicit header height/time", "imported state read from the finalize-block branch after InitChain",
                       "crisis invariants run by the harness (the application skips them at genesis time, F16)",
                       "the zero-height rebasing of Genesis!ZeroHeight as transcribed in harness/cmd/genesis/rebase.go"]
        wall = time.time() - t0
        if viol:
            lines = open(allf).read().split("\n")
            groups = {}
            for ln_, c_, m_, k_, e_ in viol:
                err_ = json.loads(lines[ln_ - 1])["ev"].get("res", {}).get("err", "")
                key_ = (c_, m_, k_, e_ or re.sub(r"[0-9]+", "N", err_)[:90])
                groups[key_] = groups.get(key_, 0) + 1
            for key_, n_ in sorted(groups.items(), key=lambda kv: -kv[1])[:12]:
                log(f"[judge] {n_} new instance(s): clause={key_[0]} module={key_[1]} kind={key_[2]} class/err={key_[3]!r}")
            ln, clause, module, kind, ecls = viol[0]
            line = json.loads(lines[ln - 1])
            path = self.save_replay(pid, tier, seed, line, recs, clause, module, kind)
            rp = self.replay(pid, path, work, seed, quiet=True)
            vlib.write_evidence(pid, tier, seed, cov, wall, len(viol), assumptions)
            if rp != 1:
                log(f"INCONCLUSIVE property={pid}: clause {clause} failed but did not reproduce on replay ({path})")
                return 2
            log(f"clause {clause} failed on a real-code trace: {self.describe(line, clause, module, kind, ecls)}"
                f" (and {len(viol)-1} more clause instances)")
            print(f"VIOLATION property={pid} replay={path}", flush=True)
            return 1
        vlib.write_evidence(pid, tier, seed, cov, wall, 0, assumptions)
        if vlib.CRASHES:
            log(f"INCONCLUSIVE property={pid}: {len(vlib.CRASHES)} scenario run(s) could not be completed and no clause failed on "
                f"what they had recorded (first: {vlib.CRASHES[0]})")
            return 2
        # the scripted scenarios (a fixed list, independent of the seed) hold durable objects of every module and
        # continue as-is imports of every module but record (F10) — required on every run
        missing = [r for r in ["asis", "zeroheight", "continuation"] + ["nonempty_" + m for m in MODULES]
                   if ex_.get(r, 0) == 0]
        if missing or not by_driver:
            log(f"INCONCLUSIVE property={pid}: never exercised: {missing or 'any module with durable objects in a recorded driver history'}")
            return 2
        return 0


PROPS = {"C12": GenesisCheck()}
TEXT = {"C12": dict(
    design="DESIGN.md 8 (C12), 5, 6; findings/genesis.md",
    text="Genesis.tla models a chain as per-module maps of durable objects with hidden time queues and id counters, "
         "histories (Advance), Export(as-is | zero-height), Import, ReExport and continued as-is imports; the clauses "
         "C12_Accepted, C12_Fixpoint, C12_Durable, C12_Continuation are stated on the GenesisRoundTrip / Continuation "
         "events, with the documented zero-height transformations as the operator ZeroHeight(mod, objs, h). TLC checks "
         "the model exhaustively on a bounded universe and must find every planted defect (binding self-test). On the "
         "real code the recorded byte-level histories of all module drivers and the finding scenarios are replayed; at "
         "checkpoints (every K blocks, heights where something falls due next, the last block) the state is exported "
         "in both modes, imported into a fresh application (InitChain + first block inside recover, registered "
         "invariants run by the harness), exported again (canonical JSON fixpoint per irismod module) and every durable "
         "object of the source is queried through the modules' gRPC query servers on both chains (zero-height answers "
         "compared modulo ZeroHeight); as-is imports then execute the remaining recorded blocks and are compared with "
         "the source after every block (the continuation ends at the first differing answer — a clause failure — or, "
         "without verdict, when transaction results diverge). TLC evaluates the clauses on every logged event. "
         "The scripted scenarios include a walk over every rule of the modules' ValidateGenesis / InitGenesis: histories that "
         "leave the exported objects next to each rule's boundary on the accepted side (counters equal or off by one, related "
         "counters at their extreme reachable values, objects after their last transition and after parameter changes), "
         "asserted by the scenario itself and round-tripped after every block (findings/genesis.md).",
    note="Trusted: TLC, Go toolchain, the harness' canonical JSON and query enumeration. Coverage is what the recorded "
         "drivers reach: modules without durable objects in any recording are reported as not exercised (evidence "
         "modules_not_exercised) and the check is inconclusive only if no module was exercised. Generated random "
         "numbers and closed HTLCs are not in the property's list of durable objects and are not compared. Farm has no "
         "zero-height step: its answers are compared at the source's height. Known findings are matched per (clause, "
         "module, kind / error class), so a finding of one module never hides another module on the same event; every "
         "differing class of answers of a module is an instance of its own; and a refusal worded like a known finding "
         "counts as that finding only if the exported genesis really shows the state the finding is about "
         "(harness/cmd/genesis/reasons.go) - an over-strict rule that refuses a sound export with the same words is new.")}
