"""C11 — determinism across replicas, restarts, repeated runs, processes
(Replica.tla / ReplicaTrace.tla / harness/cmd/replica).

Histories come from every module driver: each is run in random mode with
VERIF_RECORD_DIR set, which records genesis + raw blocks; the replica harness
replays the recordings byte-for-byte on three replicas per schedule (TLC-generated
schedules from Replica.tla + seeded random ones: interleavings, restarts between
blocks, exports), in two OS processes, and TLC validates that everything observed
at a height is a function of the height."""
import glob, json, os, shutil, subprocess, time
from concurrent.futures import ThreadPoolExecutor
import vlib
from vlib import log, Inconclusive, ROOT
from props import RECORDS, CLOCKS, T

CLAUSES = ["C11_Agreement", "C11_Repeat", "C11_ExportAgreement"]


class ReplicaCheck:
    binary = "replica"
    spec = "Replica.tla"
    trace_spec, trace_cfg = "ReplicaTrace.tla", "ReplicaTrace.cfg"

    def record(self, tier, work, seed):
        """Run every registered module driver with recording on."""
        recdir = os.path.join(work, "rec")
        os.makedirs(recdir, exist_ok=True)
        jobs = []
        for r in RECORDS:
            n = r["n"][tier] if isinstance(r["n"], dict) else r["n"]
            jobs.append((r, n))

        def one(job):
            r, n = job
            vlib.build_harness(r["binary"])
            out = os.path.join(work, f"rectrace-{r['binary']}-{abs(hash(r.get('cfg','') + r.get('in','')))%99999}.ndjson")
            # scripted histories (a mode other than "random") are recorded apart: the quick tier keeps all of them
            rd = recdir if r.get("mode", "random") == "random" else os.path.join(recdir, "scripted")
            os.makedirs(rd, exist_ok=True)
            env = dict(os.environ, VERIF_RECORD_DIR=rd)
            # RECORD entries may also name a scripted behaviours file: mode "replay" with "in"
            cmd = [vlib.harness_bin(r["binary"]), r.get("mode", "random"), "-out", out, "-seed", str(seed * 31 + 7),
                   "-n", str(n), "-len", str(r.get("len", 30)), "-cfg", r.get("cfg", "")]
            if r.get("in"):
                cmd += ["-in", os.path.join(ROOT, r["in"])]
            p = subprocess.run(cmd, env=env, capture_output=True, text=True, timeout=1800)
            if p.returncode != 0:
                raise Inconclusive(f"recording driver {r['binary']} failed: {p.stderr[-2000:]}")
            os.remove(out)
            return r["binary"]

        with ThreadPoolExecutor(max_workers=6) as ex:
            done = list(ex.map(one, jobs))
        recs = sorted(glob.glob(os.path.join(recdir, "scripted", "*.rec"))) + sorted(glob.glob(os.path.join(recdir, "*.rec")))
        log(f"[record] {len(recs)} histories recorded from drivers {sorted(set(done))}")
        return recs

    def record_clock(self, work):
        recdir = os.path.join(work, "clockrec")
        os.makedirs(recdir, exist_ok=True)
        t = time.time()
        for c in CLOCKS:
            vlib.build_harness(c["binary"])
            t = time.time()
            env = dict(os.environ, VERIF_RECORD_DIR=recdir)
            p = subprocess.run([vlib.harness_bin(c["binary"]), c["mode"], "-out", os.path.join(work, "clock.ndjson"),
                                "-cfg", c.get("cfg", "")], env=env, capture_output=True, text=True, timeout=300)
            if p.returncode != 0:
                raise Inconclusive(f"clock driver {c['binary']} failed: {p.stdout[-500:]} {p.stderr[-1500:]}")
        return sorted(glob.glob(os.path.join(recdir, "*.rec"))), t

    def run(self, pid, tier, seed, work, replay=None, skip_mc=False, t0=None):
        t0 = t0 or time.time()
        if replay:
            return self.replay(pid, replay, work, seed)
        cov = {"rule": "states/transitions: TLC exhaustive run of Replica.tla (schedule space: interleaving of "
                       "3 replicas x blocks, restarts at every block boundary, exports); traces: recorded "
                       "histories of every module driver replayed byte-for-byte on replicas under TLC-generated "
                       "and random schedules in two OS processes, validated by TLC (ReplicaTrace.tla)."}
        mc = {"states": 0, "transitions": 0, "configs": []}
        if not skip_mc:
            rc, out = vlib.run_tlc(work, self.spec, "MC_Replica.cfg", workers=8, heap="6g", timeout=1200)
            g, d = vlib.tlc_counts(out)
            err = vlib.tlc_error(out)
            if err:
                raise Inconclusive(f"Replica.tla model checking failed: {err}")
            mc = {"states": d, "transitions": g, "configs": [{"cfg": "MC_Replica.cfg", "generated": g, "distinct": d}]}
            log(f"[mc] MC_Replica.cfg: {g} generated / {d} distinct, ok")
        # clock scenario first: live histories whose chain time sits just inside a
        # wall-clock threshold of the code; replayed at the very end (>= 25 s later)
        clock_recs, t_clock = self.record_clock(work)
        recs = self.record(tier, work, seed)
        if not recs:
            raise Inconclusive("no recordings")
        # TLC-generated schedules
        beh = os.path.join(work, "schedules.ndjson")
        nsch, _ = vlib.gen_behaviours(work, self.spec, "GEN_Replica.cfg", beh, mode="simulate",
                                      num={"quick": 3, "thorough": 16}[tier], depth=46, seed=seed, siblings=1)
        # depth-1 convention of gen_behaviours does not matter here: schedules print when Done
        log(f"[gen] {nsch} TLC-generated schedules")
        per_rec_random = {"quick": 1, "thorough": 3}[tier]
        max_recs = {"quick": 40, "thorough": 160}[tier]
        if tier == "quick":
            # at most two histories per driver
            seen, keep = {}, []
            for r in recs:
                d = os.path.basename(r).split("-")[1]
                if os.path.basename(os.path.dirname(r)) == "scripted":
                    keep.append(r)
                    continue
                seen[d] = seen.get(d, 0) + 1
                if seen[d] <= 2:
                    keep.append(r)
            recs = keep
        recs = recs[:max_recs]
        nclock = len(clock_recs)

        def one(i_rec):
            i, rec = i_rec
            outs = []
            for proc in ("p1.", "p2."):
                a = os.path.join(work, f"rt-{i}-{proc}a.ndjson")
                b = os.path.join(work, f"rt-{i}-{proc}b.ndjson")
                vlib.run_harness("replica", "replay", a, inp=beh, cfg=f"rec={rec},proc={proc}")
                vlib.run_harness("replica", "random", b, seed=seed + i, n=per_rec_random, cfg=f"rec={rec},proc={proc}")
                outs.append((a, b))
            # merge: process 2's lines follow process 1's within each history (same
            # schedule order), so that agreement is checked across processes
            merged = os.path.join(work, f"rt-{i}.ndjson")
            with open(merged, "w") as out:
                for k in (0, 1):
                    h1 = split_histories(outs[0][k])
                    h2 = split_histories(outs[1][k])
                    for x, y in zip(h1, h2):
                        out.writelines(x)
                        out.writelines(y[1:])   # drop the second Init
            return merged

        with ThreadPoolExecutor(max_workers=max(1, vlib.NCPU - 2)) as ex:
            traces = list(ex.map(one, list(enumerate(recs))))
        if clock_recs:
            wait = 25 - (time.time() - t_clock)
            if wait > 0:
                time.sleep(wait)
            for j, rec in enumerate(clock_recs):
                tr = os.path.join(work, f"rt-clock-{j}.ndjson")
                vlib.run_harness("replica", "random", tr, seed=seed, n=1, cfg=f"rec={rec},proc=p1.")
                traces.append(tr)
            log(f"[clock] {nclock} live history(ies) with chain time next to a wall-clock threshold replayed "
                f"{time.time()-t_clock:.0f}s after the live run")
        allf = os.path.join(work, "all.ndjson")
        with open(allf, "w") as out:
            for t in traces:
                with open(t) as f:
                    shutil.copyfileobj(f, out)
        ntr = vlib.count_traces(allf)
        res = vlib.validate_trace(self.trace_spec, self.trace_cfg, allf, work, max_lines=2500)
        viol = [(ln, c) for ln, cl, why in res["fails"] for c in cl if c in CLAUSES]
        log(f"[trace] {ntr} replica histories / {res['lines']} events validated; clause failures: {len(viol)}")
        known = vlib.load_known()
        lines = open(allf).read().split("\n") if viol else []
        real = []
        for ln, c in viol:
            rec_line = json.loads(lines[ln - 1])
            kf = match_known(known, pid, c, rec_line)
            if kf:
                log(f"KNOWN-FINDING: property={pid} {kf['description']}")
            else:
                real.append((ln, c))
        cov.update({"states": max(1, mc["states"]), "transitions": max(1, mc["transitions"]), "mc_configs": mc["configs"],
                    "exhaustive": True, "traces_validated_against_impl": ntr, "events_validated": res["lines"],
                    "recordings": len(recs), "clock_histories": nclock, "tlc_generated_schedules": nsch,
                    "recorded_drivers": sorted({os.path.basename(r).split("-")[1] for r in recs}),
                    "clause_antecedents": res["exercised"], "clauses": CLAUSES,
                    "samples": vlib.sample_lines(allf, 3)})
        for s in cov["samples"]:
            s.pop("stores", None)
        wall = time.time() - t0
        assumptions = ["TLC/SANY/CommunityModules", "Go toolchain", "digests: SHA-256 over ordered store dumps, app hash, "
                       "tx (code, codespace, data), exported genesis bytes", "map order / process variation only as far as "
                       "two processes and repeated exports exhibit it", "wall-clock thresholds: see the clock scenario"]
        missing = [r for r in ("exec", "restart", "export", "second_replica", "txs") if res["exercised"].get(r, 0) == 0]
        if real:
            ln, clause = real[0]
            path = self.save_replay(pid, allf, ln, recs + clock_recs, tier, seed, clause, lines)
            vlib.write_evidence(pid, tier, seed, cov, wall, len(real), assumptions)
            log(f"clause {clause} failed at trace line {ln}: {describe(lines, ln)}")
            print(f"VIOLATION property={pid} replay={path}", flush=True)
            return 1
        vlib.write_evidence(pid, tier, seed, cov, wall, 0, assumptions)
        if missing:
            log(f"INCONCLUSIVE property={pid}: never exercised: {missing}")
            return 2
        return 0

    def save_replay(self, pid, allf, ln, recs, tier, seed, clause, lines):
        sub = vlib.extract_subtrace(allf, ln)
        first = json.loads(sub[0])["ev"]
        recname = first.get("rec", "")
        d = os.path.join(ROOT, "replays", f"{pid}-{tier}-seed{seed}{vlib.REPLAY_TAG}")
        shutil.rmtree(d, ignore_errors=True)
        os.makedirs(d)
        for r in recs:
            if os.path.basename(r) == recname:
                shutil.copy(r, os.path.join(d, "history.rec"))
        evs = [json.loads(x)["ev"] for x in sub[1:]]
        sched = [{"name": e["name"], "r": e["r"].split(".")[-1]} for e in evs if e.get("proc", "p1.") in ("p1.", "")]
        with open(os.path.join(d, "schedule.ndjson"), "w") as f:
            f.write(json.dumps(sched) + "\n")
        with open(os.path.join(d, "trace.ndjson"), "w") as f:
            f.writelines(sub)
        json.dump({"property": pid, "clause": clause, "line": len(sub)}, open(os.path.join(d, "meta.json"), "w"))
        return d

    def replay(self, pid, path, work, seed):
        vlib.build_harness("replica")
        rec = os.path.join(path, "history.rec")
        beh = os.path.join(path, "schedule.ndjson")
        a = os.path.join(work, "rp-a.ndjson")
        b = os.path.join(work, "rp-b.ndjson")
        vlib.run_harness("replica", "replay", a, inp=beh, cfg=f"rec={rec},proc=p1.")
        vlib.run_harness("replica", "replay", b, inp=beh, cfg=f"rec={rec},proc=p2.")
        m = os.path.join(work, "rp.ndjson")
        with open(m, "w") as out:
            out.writelines(open(a).readlines())
            out.writelines(open(b).readlines()[1:])
        res = vlib.validate_trace(self.trace_spec, self.trace_cfg, m, work, max_lines=100000)
        viol = [(ln, c) for ln, cl, why in res["fails"] for c in cl if c in CLAUSES]
        if viol:
            lines = open(m).read().split("\n")
            log(f"replay: clause {viol[0][1]} fails: {describe(lines, viol[0][0])}")
            print(f"VIOLATION property={pid} replay={path}", flush=True)
            return 1
        log("replay: replicas agree")
        return 0


def split_histories(path):
    out, cur = [], None
    for line in open(path):
        if '"name":"Init"' in line[:600]:
            cur = []
            out.append(cur)
        if cur is not None:
            cur.append(line)
    return out


def describe(lines, ln):
    """Which stores differ between the failing observation and the first one at that height."""
    try:
        e = json.loads(lines[ln - 1])["ev"]
        i = ln - 2
        while i >= 0:
            f = json.loads(lines[i])["ev"]
            if f.get("name") == "Init":
                break
            if f.get("name") == e["name"] and f.get("h") == e["h"] and f.get("r") != e.get("r"):
                diff = [k for k in set(e["stores"]) | set(f["stores"]) if e["stores"].get(k) != f["stores"].get(k)]
                return (f"{e['name']} h={e['h']} replica {e['r']} vs {f['r']}: differing stores/modules {sorted(diff)}; "
                        f"halt {e.get('halt')}/{f.get('halt')} results {'same' if e.get('results')==f.get('results') else 'differ'}"
                        f" history {e.get('rec') or ''}")
            i -= 1
        return f"{e['name']} h={e['h']} replica {e['r']} (self-inconsistent: {e.get('gen1')} {e.get('gen2')} {e.get('zh1')} {e.get('zh2')})"
    except Exception as ex:
        return f"(no description: {ex})"


def match_known(known, pid, clause, rec):
    from props import match_known as mk
    return mk(known, pid, clause, rec)


PROPS = {"C11": ReplicaCheck()}
TEXT = {"C11": dict(
    design="DESIGN.md 8 (C11)",
    text="Replica.tla describes replicas executing one fixed history with restarts between blocks, exports and "
         "arbitrary interleaving; TLC enumerates that schedule space exhaustively on the model and generates "
         "schedules. The harness records the byte-level histories of every module driver (all ten modules), "
         "replays each on three replicas per schedule in two OS processes, restarting applications on the same "
         "database and exporting genesis repeatedly, and TLC validates on the recorded digests that app hash, "
         "full store dump, transaction results and exported genesis are functions of the height.",
    note="Trusted: TLC, Go toolchain, SHA-256 digests as equality witnesses. Map-order and process variation are "
         "exercised only as far as repeated exports and two processes exhibit them; wall-clock dependence needs "
         "the dedicated clock scenario (chain time placed next to the host clock); float determinism across "
         "architectures is out of reach in this sandbox.")}
